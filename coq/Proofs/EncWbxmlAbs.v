(* C06 — the abstract WBXML document (Model/Spec.v syntax) that the encoder writes, for the WIDENED fragment:
   token or literal tags, attributes (token starts with value prefix, literal starts, attribute value tokens, inline
   remainders, attribute code page switches), text, with or without string table (table references, literal indices),
   numeric / textual / anonymous public id.  Still outside: typed content (languages WV, DRMREL, SI, EMN, OTA settings),
   the SyncML MIME rewrite, binary-flagged content (OPAQUE), CDATA sections, PIs, embedded trees.

   [abs_*] follow the control flow of the encoder and return Spec syntax plus the SAME encoder state; they are
   undefined (None) exactly where the encoder fails or the construct is outside the fragment.  Main lemma:
   whenever the encoder succeeds on a tree of the fragment, [abs] is defined, ends in the same state, and the bytes
   written are the serialization of the abstract items. *)
From Coq Require Import List NArith Lia Bool.
From Wbxml Require Import Base.Bits Model.Codec Model.EncWbxml Proofs.EncWbxmlProofs.
From Wbxml Require Model.Parser Model.Spec.
Import ListNotations.
Local Open Scope N_scope.

Module S := Wbxml.Model.Spec.
Local Arguments N.add : simpl never.

(* ---- languages without typed values ------------------------------------------------------------------------------ *)
Definition plain_env (e : env) : bool :=
  let l := e_lang e in
  negb (is_wv l) && negb (bl_id l =? LANG_DRMREL10) && negb (is_syncml l) &&
  negb (bl_id l =? LANG_SI10) && negb (bl_id l =? LANG_EMN10) && negb (bl_id l =? LANG_OTA_SETTINGS).

Lemma plain_env_split e : plain_env e = true ->
  is_wv (e_lang e) = false /\ (bl_id (e_lang e) =? LANG_DRMREL10) = false /\ is_syncml (e_lang e) = false /\
  (bl_id (e_lang e) =? LANG_SI10) = false /\ (bl_id (e_lang e) =? LANG_EMN10) = false /\
  (bl_id (e_lang e) =? LANG_OTA_SETTINGS) = false.
Proof.
  unfold plain_env. cbv zeta. intros H.
  repeat (apply andb_true_iff in H; destruct H as [H ?]).
  repeat match goal with X : negb _ = true |- _ => apply negb_true_iff in X end. auto 10.
Qed.

(* in such a language a value is just split and written *)
Lemma enc_value_plain e st ia ca na par buf : plain_env e = true ->
  enc_value e st ia ca na par buf =
  match buf with
  | [] => EOk ([], st)
  | _ => match split_value e st ia buf with None => EErr E_OUT_OF_FUEL | Some l => EOk (enc_velts st l) end
  end.
Proof.
  intros H. destruct (plain_env_split e H) as (Hw & Hd & Hs & Hsi & Hem & Hot).
  unfold enc_value. destruct buf as [|c0 buf]; [reflexivity|]. cbv zeta.
  rewrite Hw, Hd, Hs, Hsi, Hem, Hot. rewrite !andb_false_r. destruct ia; reflexivity.
Qed.

(* ---- value elements ------------------------------------------------------------------------------------------------ *)
Fixpoint abs_velts (st : est) (l : list velt) : list S.wval * est :=
  match l with
  | [] => ([], st)
  | v :: r =>
    let '(w, st1) :=
        match v with
        | VStr s => (if 0 <? len s then [S.WValStr (S.WStrI s)] else [], st)
        | VRef off => ([S.WValStr (S.WStrT off)], st)
        | VExt t => ([S.WValStr (S.WExt None (S.ExtT 0 (u8 t)))], st)
        | VAttrTok p t => ([S.WValTok (if attrcp st =? p then None else Some p) t], snd (enc_attr_token st t p))
        end in
    let '(w', st2) := abs_velts st1 r in (w ++ w', st2)
  end.

Lemma enc_attr_token_bytes st t p :
  fst (enc_attr_token st t p) = S.ser_sw (if attrcp st =? p then None else Some p) ++ [t].
Proof. unfold enc_attr_token. destruct (attrcp st =? p); reflexivity. Qed.

Lemma enc_velts_abs l : forall st,
  enc_velts st l = (flat_map S.ser_val (fst (abs_velts st l)), snd (abs_velts st l)).
Proof.
  induction l as [|v r IH]; intros st; cbn [enc_velts abs_velts]; [reflexivity|].
  destruct v as [s|t|p t|off].
  - rewrite (IH st). destruct (abs_velts st r) as [w' st2]. cbn [fst snd]. rewrite flat_map_app.
    destruct (0 <? len s); cbn [flat_map S.ser_val S.ser_str]; unfold enc_inline_string; rewrite ?app_nil_r; reflexivity.
  - rewrite (IH st). destruct (abs_velts st r) as [w' st2]. cbn [fst snd flat_map S.ser_val S.ser_str S.ser_sw S.ser_ext app].
    unfold enc_ext_t0. reflexivity.
  - pose proof (enc_attr_token_bytes st t p) as HB. destruct (enc_attr_token st t p) as [bt stt]. cbn [fst snd] in *. subst bt.
    rewrite (IH stt). destruct (abs_velts stt r) as [w' st2]. cbn [fst snd flat_map S.ser_val app]. now rewrite <- app_assoc.
  - rewrite (IH st). destruct (abs_velts st r) as [w' st2]. cbn [fst snd flat_map S.ser_val S.ser_str app].
    unfold enc_tableref. reflexivity.
Qed.

Definition abs_value (e : env) (st : est) (ia : bool) (buf : bytes) : option (list S.wval * est) :=
  match buf with
  | [] => Some ([], st)
  | _ => match split_value e st ia buf with None => None | Some l => Some (abs_velts st l) end
  end.

Lemma enc_value_abs e st ia ca na par buf b st' : plain_env e = true ->
  enc_value e st ia ca na par buf = EOk (b, st') ->
  exists w, abs_value e st ia buf = Some (w, st') /\ b = flat_map S.ser_val w.
Proof.
  intros H. rewrite (enc_value_plain e st ia ca na par buf H). unfold abs_value.
  destruct buf as [|c0 buf].
  - intros E; injection E as <- <-. now exists [].
  - destruct (split_value e st ia (c0 :: buf)) as [l|]; [|discriminate].
    rewrite enc_velts_abs. intros E; injection E as <- <-.
    exists (fst (abs_velts st l)). split; [now destruct (abs_velts st l)|reflexivity].
Qed.

(* ---- attributes ----------------------------------------------------------------------------------------------------- *)
Definition astart_tok_ok (t : N) : bool := (t <? 128) && (5 <=? N.land t 63).

(* start of an attribute: (abstract start, remaining value, state) *)
Definition abs_attr_start (e : env) (st : est) (a : attr) : option (S.wastart * option bytes * est) :=
  let value := cstr (at_value a) in
  let lit nm := if e_use_strtbl e then
                  let '(idx, tbl', tlen') := strtbl_add (strtbl st) (strtbl_len st) (cstr nm) in
                  Some (S.AStartLit idx, Some value, set_strtbl st tbl' tlen')
                else None in
  let tok t p lft := Some (S.AStartTok (if attrcp st =? p then None else Some p) t, lft, snd (enc_attr_token st t p)) in
  match at_name a with
  | AttrTok page tk nm oval =>
    match oval with
    | Some xv =>
      if is_prefix xv value then
        tok tk page (if len xv <? len (at_value a) then Some (cstr (skipn (List.length xv) (at_value a))) else None)
      else lit nm
    | None => tok tk page (Some value)
    end
  | AttrLit nm =>
    match get_attr_from_xml (e_lang e) nm value with
    | Some (r, lft) => tok (ba_tok r) (ba_page r) (match lft with Some k => Some (skipn (N.to_nat k) value) | None => None end)
    | None => lit nm
    end
  end.

Definition abs_attr (e : env) (st : est) (a : attr) : option (S.wattr * est) :=
  match abs_attr_start e st a with
  | None => None
  | Some (start, None, st1) => Some (S.mk_wattr start [], st1)
  | Some (start, Some v, st1) =>
    match abs_value e st1 true v with
    | Some (w, st2) => Some (S.mk_wattr start w, st2)
    | None => None
    end
  end.

Fixpoint abs_attrs (e : env) (st : est) (l : list attr) : option (list S.wattr * est) :=
  match l with
  | [] => Some ([], st)
  | a :: r =>
    match abs_attr e st a with
    | Some (w, st1) => match abs_attrs e st1 r with Some (ws, st2) => Some (w :: ws, st2) | None => None end
    | None => None
    end
  end.

Lemma enc_literal_attr e st nm b st' : enc_literal e st nm 0 = EOk (b, st') ->
  e_use_strtbl e = true /\
  exists idx tbl' tlen', strtbl_add (strtbl st) (strtbl_len st) (cstr nm) = (idx, tbl', tlen') /\
                         st' = set_strtbl st tbl' tlen' /\ b = 4 :: mb_write idx.
Proof.
  unfold enc_literal. destruct (e_use_strtbl e); [|discriminate].
  destruct (strtbl_add _ _ _) as [[idx tbl'] tlen'] eqn:A. intros E; injection E as <- <-.
  split; [reflexivity|]. now exists idx, tbl', tlen'.
Qed.

Lemma enc_attr_abs e st na a b st' : plain_env e = true ->
  enc_attr e st na a = EOk (b, st') ->
  exists w, abs_attr e st a = Some (w, st') /\ b = S.ser_attr w.
Proof.
  intros HP. unfold enc_attr, abs_attr, abs_attr_start. cbv zeta.
  (* one lemma for the tail (value part) *)
  assert (TAIL : forall start b1 st1 vl ca,
             b1 = S.ser_astart start ->
             match vl with
             | None => EOk (b1, st1)
             | Some v => match enc_value e st1 true ca na None v with EOk (b2, st2) => EOk (b1 ++ b2, st2) | EErr c => EErr c end
             end = EOk (b, st') ->
             exists w, match vl with
                       | None => Some (S.mk_wattr start [], st1)
                       | Some v => match abs_value e st1 true v with Some (w, st2) => Some (S.mk_wattr start w, st2) | None => None end
                       end = Some (w, st') /\ b = S.ser_attr w).
  { intros start b1 st1 vl ca Hb1. destruct vl as [v|].
    - destruct (enc_value e st1 true ca na None v) as [[b2 st2]|c] eqn:EV; [|discriminate]. intros E; injection E as <- <-.
      destruct (enc_value_abs e st1 true ca na None v b2 st2 HP EV) as (w & Ew & ->). rewrite Ew.
      eexists. split; [reflexivity|]. unfold S.ser_attr. cbn [S.wa_start S.wa_vals]. now rewrite Hb1.
    - intros E; injection E as <- <-. eexists. split; [reflexivity|]. unfold S.ser_attr. cbn. now rewrite Hb1, app_nil_r. }
  destruct (at_name a) as [page tk nm oval|nm].
  - destruct oval as [xv|].
    + destruct (is_prefix xv (cstr (at_value a))).
      * destruct (enc_attr_token st tk page) as [bt stt] eqn:ET.
        pose proof (enc_attr_token_bytes st tk page) as HB. rewrite ET in HB. cbn [fst snd] in *.
        apply TAIL. exact HB.
      * destruct (enc_literal e st nm 0) as [[bl stl]|c] eqn:EL; [|discriminate].
        destruct (enc_literal_attr e st nm bl stl EL) as (HU & idx & tbl' & tlen' & A & -> & ->).
        rewrite HU, A. exact (TAIL (S.AStartLit idx) (4 :: mb_write idx) (set_strtbl st tbl' tlen') (Some (cstr (at_value a))) None eq_refl).
    + destruct (enc_attr_token st tk page) as [bt stt] eqn:ET.
      pose proof (enc_attr_token_bytes st tk page) as HB. rewrite ET in HB. cbn [fst snd] in *.
      exact (TAIL (S.AStartTok (if attrcp st =? page then None else Some page) tk) bt stt (Some (cstr (at_value a))) (Some (page, tk)) HB).
  - destruct (get_attr_from_xml (e_lang e) nm (cstr (at_value a))) as [[r lft]|].
    + destruct (enc_attr_token st (ba_tok r) (ba_page r)) as [bt stt] eqn:ET.
      pose proof (enc_attr_token_bytes st (ba_tok r) (ba_page r)) as HB. rewrite ET in HB. cbn [fst snd] in *.
      apply TAIL. exact HB.
    + destruct (enc_literal e st nm 0) as [[bl stl]|c] eqn:EL; [|discriminate].
      destruct (enc_literal_attr e st nm bl stl EL) as (HU & idx & tbl' & tlen' & A & -> & ->).
      rewrite HU, A. exact (TAIL (S.AStartLit idx) (4 :: mb_write idx) (set_strtbl st tbl' tlen') (Some (cstr (at_value a))) None eq_refl).
Qed.

Lemma enc_attrs_abs e na l : plain_env e = true -> forall st b st',
  enc_attrs e st na l = EOk (b, st') ->
  exists ws, abs_attrs e st l = Some (ws, st') /\ b = flat_map S.ser_attr ws /\ List.length ws = List.length l.
Proof.
  intros HP. induction l as [|a r IH]; intros st b st'; cbn [enc_attrs abs_attrs].
  - intros E; injection E as <- <-. now exists [].
  - destruct (enc_attr e st na a) as [[b1 st1]|c] eqn:EA; [|discriminate].
    destruct (enc_attrs e st1 na r) as [[b2 st2]|c] eqn:ER; [|discriminate]. intros E; injection E as <- <-.
    destruct (enc_attr_abs e st na a b1 st1 HP EA) as (w & Ew & ->). rewrite Ew.
    destruct (IH st1 b2 st2 ER) as (ws & Ews & -> & Hl). rewrite Ews.
    exists (w :: ws). cbn [flat_map List.length]. auto.
Qed.

(* ---- tags ------------------------------------------------------------------------------------------------------------ *)
Definition tag_triple (e : env) (st : est) (tag : tagname) : N * N * option (N * N * N) :=
  match tag with
  | TagTok p t o _ => (t, p, Some (p, t, o))
  | TagLit nm =>
    match get_tag_from_xml (e_lang e) (tagcp st) nm with
    | Some r => (bt_tok r, bt_page r, Some (bt_page r, bt_tok r, bt_opts r))
    | None => (0, 0, None)
    end
  end.

Definition abs_tag (e : env) (st : est) (tag : tagname) (ha hc : bool) : option (option N * S.wtag * est) :=
  let '(token0, page, ct) := tag_triple e st tag in
  let st1 := set_cur_tag st ct in
  let ha' := ha && has_attr_table e in
  if token0 =? 0 then
    if e_use_strtbl e then
      let '(idx, tbl', tlen') := strtbl_add (strtbl st1) (strtbl_len st1) (cstr (tag_xml_name tag)) in
      Some (None, S.WTagLit idx, set_strtbl st1 tbl' tlen')
    else None
  else if (5 <=? token0) && (token0 <? 64) then
    Some (if tagcp st1 =? page then None else Some page, S.WTagTok token0,
          set_pages st1 page (attrcp st1))
  else None.

Definition bits (ha hc : bool) : N := (if ha then 128 else 0) + (if hc then 64 else 0).

Lemma tag_bits_sweep (t : N) (ha hc : bool) : t < 64 ->
  let tok := if ha then N.lor (if hc then N.lor t 64 else t) 128 else (if hc then N.lor t 64 else t) in
  tok = t + bits ha hc /\ N.land tok 63 = t.
Proof.
  intros H.
  assert (F : forallb (fun t : N => forallb (fun ha : bool => forallb (fun hc : bool =>
              let tok := if ha then N.lor (if hc then N.lor t 64 else t) 128 else (if hc then N.lor t 64 else t) in
              (tok =? t + bits ha hc) && (N.land tok 63 =? t)) [true; false]) [true; false]) (N_range 64) = true)
    by (vm_compute; reflexivity).
  pose proof (sweep1 _ 64 F t) as P. cbv beta in P.
  assert (Ht : t < N.of_nat 64) by (cbn; lia). specialize (P Ht).
  destruct ha, hc; cbn [forallb] in P; repeat (apply andb_true_iff in P; destruct P as [P ?]);
    repeat match goal with X : (_ && _) = true |- _ => apply andb_true_iff in X; destruct X end;
    repeat match goal with X : (_ =? _) = true |- _ => apply N.eqb_eq in X end; cbv zeta; auto.
Qed.

Lemma set_pages_same st p : tagcp st = p -> set_pages (st) p (attrcp st) = st.
Proof. intros <-. destruct st; reflexivity. Qed.

Lemma enc_tag_abs e st tag ha hc b st' :
  enc_tag e st tag ha hc = EOk (b, st') ->
  (let t0 := fst (fst (tag_triple e st tag)) in (t0 =? 0) || ((5 <=? t0) && (t0 <? 64))) = true ->
  exists sw wtag, abs_tag e st tag ha hc = Some (sw, wtag, st') /\
    b = S.ser_sw sw ++ match wtag with
                       | S.WTagTok t => [t + bits (ha && has_attr_table e) hc]
                       | S.WTagLit idx => (4 + bits (ha && has_attr_table e) hc) :: mb_write idx
                       end.
Proof.
  unfold enc_tag, abs_tag. fold (tag_triple e st tag). destruct (tag_triple e st tag) as [[token0 page] ct].
  cbv zeta. cbn [fst]. fold (has_attr_table e). intros E Hr. cbv zeta in Hr. cbn [fst] in Hr.
  set (ha' := ha && has_attr_table e) in *.
  destruct (token0 =? 0) eqn:Z.
  - apply N.eqb_eq in Z. subst token0.
    assert (Hlt : 0 < 64) by lia. destruct (tag_bits_sweep 0 ha' hc Hlt) as [B1 B2]. cbv zeta in B1, B2.
    rewrite B2 in E. rewrite B1 in E. rewrite N.add_0_l in E. cbn [N.eqb] in E.
    unfold enc_literal in E. destruct (e_use_strtbl e); [|discriminate].
    destruct (strtbl_add _ _ _) as [[idx tbl'] tlen']. injection E as <- <-.
    eexists _, _. split; [reflexivity|]. cbn [S.ser_sw app].
    f_equal. assert (H4 : forall x, In x [0; 64; 128; 192] -> N.lor 4 x = 4 + x) by (intros x [<-|[<-|[<-|[<-|[]]]]]; reflexivity).
    apply H4. unfold bits. destruct ha', hc; cbn; auto.
  - cbn [orb] in Hr. rewrite Hr.
    apply andb_true_iff in Hr as [H5 H64]. apply N.leb_le in H5. apply N.ltb_lt in H64.
    destruct (tag_bits_sweep token0 ha' hc H64) as [B1 B2]. cbv zeta in B1, B2.
    rewrite B2 in E. rewrite Z in E. rewrite B1 in E.
    unfold enc_tag_token in E. cbn [tagcp set_cur_tag] in *.
    exists (if tagcp st =? page then None else Some page), (S.WTagTok token0).
    destruct (tagcp st =? page) eqn:T; injection E as <- <-.
    + apply N.eqb_eq in T. split; [|reflexivity].
      f_equal. f_equal. cbn [attrcp set_cur_tag]. destruct st; cbn in *; subst; reflexivity.
    + split; reflexivity.
Qed.

(* ---- text ------------------------------------------------------------------------------------------------------------- *)
Definition items_of (w : list S.wval) : list S.witem :=
  flat_map (fun v => match v with S.WValStr s => [S.WItemStr s] | S.WValTok _ _ => [] end) w.

Definition abs_text (e : env) (st : est) (par : option tagname) (c : bytes) : option (list S.witem * est) :=
  if is_binary_tag st par then None
  else if negb (in_cdata st) && e_ignore_empty e && only_ws c then Some ([], st)
  else if in_cdata st then None
  else match abs_value e st false (cstr (if e_remove_blanks e then strip_blanks c else c)) with
       | Some (w, st') => Some (items_of w, st')
       | None => None
       end.

Definition notattr (v : velt) : bool := match v with VAttrTok _ _ => false | _ => true end.

Lemma split_sweep_notattr find mk : notattr mk = true ->
  forall fuel l l', split_sweep fuel find mk l = Some l' -> forallb notattr l = true -> forallb notattr l' = true.
Proof.
  intros Hm. induction fuel as [|f IH]; intros l l'; cbn [split_sweep]; [discriminate|].
  destruct l as [|v r]; [intros H; now injection H as <-|].
  destruct v as [s|t|p t|off]; cbn [forallb notattr andb].
  - destruct (find s) as [[idx mlen]|].
    + destruct (split_sweep f find mk _) as [r'|] eqn:Sx; [|discriminate]. intros H Hl; injection H as <-.
      cbn [forallb notattr andb]. rewrite Hm. cbn [andb]. apply (IH _ _ Sx).
      destruct (idx + mlen <? len s); cbn [forallb notattr andb]; exact Hl.
    + destruct (split_sweep f find mk r) as [r'|] eqn:Sx; [|discriminate]. intros H Hl; injection H as <-.
      cbn [forallb notattr andb]. now apply (IH _ _ Sx).
  - destruct (split_sweep f find mk r) as [r'|] eqn:Sx; [|discriminate]. intros H Hl; injection H as <-.
    cbn [forallb notattr andb]. now apply (IH _ _ Sx).
  - intros _ H. discriminate.
  - destruct (split_sweep f find mk r) as [r'|] eqn:Sx; [|discriminate]. intros H Hl; injection H as <-.
    cbn [forallb notattr andb]. now apply (IH _ _ Sx).
Qed.

Lemma pass_exts_notattr rows : forall l l', pass_exts rows l = Some l' -> forallb notattr l = true -> forallb notattr l' = true.
Proof.
  induction rows as [|r rest IH]; intros l l'; cbn [pass_exts]; [intros H; now injection H as <-|].
  destruct (len (be_name r) <? 2); [apply IH|].
  unfold sweep. destruct (split_sweep _ _ _ l) as [l1|] eqn:Sx; [|discriminate]. intros H Hl.
  apply (IH _ _ H). eapply split_sweep_notattr; [|exact Sx|exact Hl]. reflexivity.
Qed.

Lemma pass_strtbl_notattr tbl : forall l l', pass_strtbl tbl l = Some l' -> forallb notattr l = true -> forallb notattr l' = true.
Proof.
  induction tbl as [|x rest IH]; intros l l'; cbn [pass_strtbl]; [intros H; now injection H as <-|].
  unfold sweep. destruct (split_sweep _ _ _ l) as [l1|] eqn:Sx; [|discriminate]. intros H Hl.
  apply (IH _ _ H). eapply split_sweep_notattr; [|exact Sx|exact Hl]. reflexivity.
Qed.

Lemma split_value_content_notattr e st buf l : split_value e st false buf = Some l -> forallb notattr l = true.
Proof.
  unfold split_value. cbv zeta. cbn [negb andb].
  destruct (if negb (in_cdata st) then match bl_exts (e_lang e) with Some rows => pass_exts rows [VStr buf] | None => Some [VStr buf] end
            else Some [VStr buf]) as [l2|] eqn:E2; [|discriminate].
  assert (H2 : forallb notattr l2 = true).
  { destruct (negb (in_cdata st)); [|injection E2 as <-; reflexivity].
    destruct (bl_exts (e_lang e)) as [rows|]; [|injection E2 as <-; reflexivity].
    now apply (pass_exts_notattr rows _ _ E2). }
  cbn [negb]. destruct (e_use_strtbl e && negb (in_cdata st && true)).
  - intros H. now apply (pass_strtbl_notattr _ _ _ H).
  - intros H; now injection H as <-.
Qed.

Lemma abs_velts_items l : forall st, forallb notattr l = true ->
  flat_map S.ser_item (items_of (fst (abs_velts st l))) = flat_map S.ser_val (fst (abs_velts st l)).
Proof.
  induction l as [|v r IH]; intros st H; cbn [abs_velts]; [reflexivity|].
  cbn [forallb] in H. apply andb_true_iff in H as [Hv Hr].
  destruct v as [s|t|p t|off]; try discriminate;
    (specialize (IH st Hr); destruct (abs_velts st r) as [w' st2]; cbn [fst] in *;
     unfold items_of in *; rewrite !flat_map_app, IH; f_equal).
  - destruct (0 <? len s); reflexivity.
Qed.

Lemma enc_text_abs e st par c b st' : plain_env e = true -> in_cdata st = false -> is_binary_tag st par = false ->
  enc_text e st par c = EOk (b, st') ->
  exists items, abs_text e st par c = Some (items, st') /\ b = flat_map S.ser_item items.
Proof.
  intros HP Hc Hb. unfold enc_text, abs_text. rewrite Hb, Hc. cbn [negb andb].
  destruct (e_ignore_empty e && only_ws c).
  - intros E; injection E as <- <-. now exists [].
  - cbv zeta. cbn [negb andb].
    assert (G : forall buf, enc_value e st false None [] par buf = EOk (b, st') ->
                exists items, match abs_value e st false buf with Some (w, st'0) => Some (items_of w, st'0) | None => None end
                              = Some (items, st') /\ b = flat_map S.ser_item items).
    { intros buf E. destruct (enc_value_abs e st false None [] par buf b st' HP E) as (w & Ew & ->).
      rewrite Ew. exists (items_of w). split; [reflexivity|].
      unfold abs_value in Ew. destruct buf as [|x s].
      + injection Ew as <- <-. reflexivity.
      + destruct (split_value e st false (x :: s)) as [l|] eqn:SV; [|discriminate].
        pose proof (split_value_content_notattr e st _ l SV) as Hn.
        pose proof (abs_velts_items l st Hn) as Hi. destruct (abs_velts st l) as [w0 st0]. injection Ew as <- <-.
        cbn [fst] in Hi. now rewrite Hi. }
    destruct (e_remove_blanks e); exact (G _).
Qed.

(* ---- the tree ------------------------------------------------------------------------------------------------------------ *)
Definition nonempty {A} (l : list A) : bool := match l with [] => false | _ => true end.

Definition abs_seq (f : option tagname -> node -> est -> option (list S.witem * est)) :=
  fix go (par : option tagname) (ns : list node) (st : est) : option (list S.witem * est) :=
    match ns with
    | [] => Some ([], st)
    | x :: r =>
      match f par x st with
      | Some (a, st1) => match go par r st1 with Some (b, st2) => Some (a ++ b, st2) | None => None end
      | None => None
      end
    end.

Fixpoint abs_node (e : env) (par : option tagname) (n : node) (st : est) : option (list S.witem * est) :=
  match n with
  | NElt tag attrs ch =>
    match abs_tag e st tag (nonempty attrs) (nonempty ch) with
    | None => None
    | Some (sw, wtag, st1) =>
      match (if has_attr_table e then abs_attrs e st1 attrs else Some ([], st1)) with
      | None => None
      | Some (wattrs, st2) =>
        match abs_seq (abs_node e) (Some tag) ch st2 with
        | None => None
        | Some (items, st3) => Some ([S.WItemElt sw wtag wattrs (nonempty ch) items], set_cur_tag st3 None)
        end
      end
    end
  | NText c =>
    match abs_text e st par c with
    | Some (items, st1) => Some (items, set_cur_tag st1 None)
    | None => None
    end
  | _ => None
  end.

(* the fragment, syntactically: tags are tokens 5..63 that are not binary-flagged, or names unknown to the tag table;
   no CDATA, PI, embedded tree *)
Definition lit_unknown (e : env) (nm : bytes) : bool :=
  match bl_tags (e_lang e) with
  | None => true
  | Some rows => negb (existsb (fun r => beq (bt_name r) nm) rows)
  end.

Fixpoint frag2_node (e : env) (n : node) : bool :=
  match n with
  | NElt tag _ ch =>
    match tag with
    | TagTok _ t o _ => (5 <=? t) && (t <? 64) && (N.land o 1 =? 0)
    | TagLit nm => lit_unknown e nm
    end && forallb (frag2_node e) ch
  | NText _ => true
  | _ => false
  end.

Lemma tag_first_none cp nm rows : forall fc,
  existsb (fun r => beq (bt_name r) nm) rows = false -> tag_first_loop cp nm fc rows = None.
Proof.
  induction rows as [|r rest IH]; intros fc H; cbn [tag_first_loop]; [reflexivity|].
  cbn [existsb] in H. apply orb_false_iff in H as [H1 H2]. unfold rname_t. rewrite H1.
  destruct (bt_page r =? cp); [now apply IH|]. destruct fc; [reflexivity|now apply IH].
Qed.

Lemma tag_second_none cp nm rows :
  existsb (fun r => beq (bt_name r) nm) rows = false -> tag_second_loop cp nm rows = None.
Proof.
  induction rows as [|r rest IH]; intros H; cbn [tag_second_loop]; [reflexivity|].
  cbn [existsb] in H. apply orb_false_iff in H as [H1 H2]. unfold rname_t. rewrite H1.
  destruct (bt_page r =? cp); now apply IH.
Qed.

Lemma lit_unknown_none e nm cp : lit_unknown e nm = true -> get_tag_from_xml (e_lang e) cp nm = None.
Proof.
  unfold lit_unknown, get_tag_from_xml. destruct (bl_tags (e_lang e)) as [rows|]; [|reflexivity].
  intros H. apply negb_true_iff in H. now rewrite tag_first_none, tag_second_none.
Qed.

(* encoder state of the fragment: never inside CDATA, current tag not binary-flagged *)
Definition inv2 (st : est) : Prop :=
  in_cdata st = false /\ match cur_tag st with Some (_, _, o) => N.land o 1 = 0 | None => True end.

Definition par2 (p : option tagname) : Prop :=
  match p with Some (TagTok _ _ o _) => N.land o 1 = 0 | _ => True end.

Lemma binary_false st par : inv2 st -> par2 par -> is_binary_tag st par = false.
Proof.
  intros [_ Hb] Hp. unfold is_binary_tag. destruct (cur_tag st) as [[[? ?] o]|].
  - now rewrite Hb.
  - destruct par as [[? ? o ?|?]|]; cbn in Hp |- *; try reflexivity. now rewrite Hp.
Qed.

Lemma abs_velts_inv l : forall st, in_cdata (snd (abs_velts st l)) = in_cdata st /\ cur_tag (snd (abs_velts st l)) = cur_tag st.
Proof.
  induction l as [|v r IH]; intros st; cbn [abs_velts]; [auto|].
  destruct v as [s|t|p t|off];
    try (specialize (IH st); destruct (abs_velts st r) as [w' st2]; cbn [snd] in *; exact IH).
  specialize (IH (snd (enc_attr_token st t p))). destruct (abs_velts _ r) as [w' st2]. cbn [snd] in *.
  unfold enc_attr_token in IH. destruct (attrcp st =? p); exact IH.
Qed.

Lemma abs_value_inv e st ia buf w st' : abs_value e st ia buf = Some (w, st') ->
  in_cdata st' = in_cdata st /\ cur_tag st' = cur_tag st.
Proof.
  unfold abs_value. destruct buf as [|x s]; [intros E; injection E as <- <-; auto|].
  destruct (split_value e st ia (x :: s)) as [l|]; [|discriminate]. intros E.
  pose proof (abs_velts_inv l st) as H. destruct (abs_velts st l) as [w0 st0]. injection E as <- <-. exact H.
Qed.

Lemma abs_attr_inv e st a w st' : abs_attr e st a = Some (w, st') -> in_cdata st' = in_cdata st /\ cur_tag st' = cur_tag st.
Proof.
  unfold abs_attr. destruct (abs_attr_start e st a) as [[[start vl] st1]|] eqn:AS; [|discriminate].
  assert (H1 : in_cdata st1 = in_cdata st /\ cur_tag st1 = cur_tag st).
  { unfold abs_attr_start in AS. cbv zeta in AS.
    assert (TK : forall t p, in_cdata (snd (enc_attr_token st t p)) = in_cdata st /\ cur_tag (snd (enc_attr_token st t p)) = cur_tag st)
      by (intros t p; unfold enc_attr_token; destruct (attrcp st =? p); auto).
    assert (LT : forall nm vl0, (if e_use_strtbl e then
                  let '(idx, tbl', tlen') := strtbl_add (strtbl st) (strtbl_len st) (cstr nm) in
                  Some (S.AStartLit idx, vl0, set_strtbl st tbl' tlen') else None) = Some (start, vl, st1) ->
                in_cdata st1 = in_cdata st /\ cur_tag st1 = cur_tag st).
    { intros nm vl0. destruct (e_use_strtbl e); [|discriminate]. destruct (strtbl_add _ _ _) as [[? ?] ?].
      intros E; injection E as <- <- <-. auto. }
    destruct (at_name a) as [page tk nm oval|nm].
    - destruct oval as [xv|].
      + destruct (is_prefix xv _); [injection AS as <- <- <-; apply TK|exact (LT _ _ AS)].
      + injection AS as <- <- <-; apply TK.
    - destruct (get_attr_from_xml _ _ _) as [[r lft]|]; [injection AS as <- <- <-; apply TK|exact (LT _ _ AS)]. }
  destruct vl as [v|].
  - destruct (abs_value e st1 true v) as [[w0 st2]|] eqn:AV; [|discriminate]. intros E; injection E as <- <-.
    destruct (abs_value_inv _ _ _ _ _ _ AV) as [A B]. destruct H1. split; congruence.
  - intros E; injection E as <- <-. exact H1.
Qed.

Lemma abs_attrs_inv e l : forall st ws st', abs_attrs e st l = Some (ws, st') ->
  in_cdata st' = in_cdata st /\ cur_tag st' = cur_tag st.
Proof.
  induction l as [|a r IH]; intros st ws st'; cbn [abs_attrs]; [intros E; injection E as <- <-; auto|].
  destruct (abs_attr e st a) as [[w st1]|] eqn:A; [|discriminate].
  destruct (abs_attrs e st1 r) as [[ws' st2]|] eqn:R; [|discriminate]. intros E; injection E as <- <-.
  destruct (abs_attr_inv _ _ _ _ _ A). destruct (IH _ _ _ R). split; congruence.
Qed.

Definition walk2 tbl (e : env) (n : node) : Prop :=
  forall par st b st', inv2 st -> par2 par -> parse_node tbl e par n st = EOk (b, st') ->
    exists items, abs_node e par n st = Some (items, st') /\ b = flat_map S.ser_item items /\ inv2 st' /\ cur_tag st' = None.

Lemma seq2 tbl e ns : Forall (walk2 tbl e) ns ->
  forall par st b st', inv2 st -> par2 par -> seq_nodes (parse_node tbl) e par ns st = EOk (b, st') ->
    exists items, abs_seq (abs_node e) par ns st = Some (items, st') /\ b = flat_map S.ser_item items /\ inv2 st'.
Proof.
  induction 1 as [|x r Hx _ IH]; intros par st b st' Hi Hp; cbn [seq_nodes abs_seq].
  - intros E; injection E as <- <-. now exists [].
  - destruct (parse_node tbl e par x st) as [[b1 st1]|c] eqn:E1; [|discriminate].
    destruct (seq_nodes (parse_node tbl) e par r st1) as [[b2 st2]|c] eqn:E2; [|discriminate]. intros E; injection E as <- <-.
    destruct (Hx par st b1 st1 Hi Hp E1) as (i1 & A1 & -> & I1 & _). rewrite A1.
    destruct (IH par st1 b2 st2 I1 Hp E2) as (i2 & A2 & -> & I2). rewrite A2.
    exists (i1 ++ i2). rewrite flat_map_app. auto.
Qed.

Lemma node2 tbl e n : plain_env e = true -> frag2_node e n = true -> walk2 tbl e n.
Proof.
  intros HP. induction n as [tag attrs ch IH|c|ch IH| |lid roots IH] using node_ind'; intros HF par st b st' Hi Hp;
    cbn [frag2_node] in HF; try discriminate.
  - apply andb_true_iff in HF as [Htag Hch]. cbn [parse_node abs_node]. unfold enc_element_start. cbv zeta.
    fold (nonempty attrs). fold (nonempty ch).
    destruct (enc_tag e st tag (nonempty attrs) (nonempty ch)) as [[b1 st1]|c] eqn:ET; [|discriminate].
    assert (Hr : (let t0 := fst (fst (tag_triple e st tag)) in (t0 =? 0) || ((5 <=? t0) && (t0 <? 64))) = true).
    { cbv zeta. destruct tag as [p t o nm|nm]; cbn [tag_triple fst].
      - apply andb_true_iff in Htag as [Htag _]. rewrite Htag. apply orb_true_r.
      - rewrite (lit_unknown_none e nm (tagcp st) Htag). reflexivity. }
    destruct (enc_tag_abs e st tag _ _ b1 st1 ET Hr) as (sw & wtag & AT & ->). rewrite AT.
    (* state after the tag *)
    assert (I1 : inv2 st1 /\ par2 (Some tag)).
    { unfold abs_tag in AT. destruct tag as [p t o nm|nm]; cbn [tag_triple] in AT.
      - apply andb_true_iff in Htag as [Htag Ho]. apply N.eqb_eq in Ho. rewrite Htag in AT.
        destruct (t =? 0); [destruct (e_use_strtbl e); [destruct (strtbl_add _ _ _) as [[? ?] ?]|discriminate]|];
          injection AT as _ _ <-; (split; [split; cbn; [apply Hi|exact Ho]|exact Ho]).
      - rewrite (lit_unknown_none e nm (tagcp st) Htag) in AT. cbn [N.eqb] in AT.
        destruct (e_use_strtbl e); [|discriminate]. destruct (strtbl_add _ _ _) as [[? ?] ?].
        injection AT as _ _ <-. split; [split; cbn; [apply Hi|exact I]|exact I]. }
    destruct I1 as [I1 Hp1].
    destruct (if has_attr_table e then enc_attrs e st1 attrs attrs else EOk ([], st1)) as [[b2 st2]|c] eqn:EA; [|discriminate].
    assert (HA : exists ws, (if has_attr_table e then abs_attrs e st1 attrs else Some ([], st1)) = Some (ws, st2)
                            /\ b2 = flat_map S.ser_attr ws /\ nonempty ws = nonempty attrs && has_attr_table e /\ inv2 st2).
    { destruct (has_attr_table e).
      - destruct (enc_attrs_abs e attrs attrs HP st1 b2 st2 EA) as (ws & Ews & -> & Hl). exists ws.
        split; [exact Ews|]. split; [reflexivity|]. split.
        + rewrite andb_true_r. destruct ws, attrs; cbn in *; try reflexivity; discriminate.
        + destruct (abs_attrs_inv _ _ _ _ _ Ews) as [A B]. destruct I1 as [C D]. split; [congruence|now rewrite B].
      - injection EA as <- <-. exists []. rewrite andb_false_r. auto. }
    destruct HA as (ws & Ews & -> & Hne & I2). rewrite Ews.
    destruct (seq_nodes (parse_node tbl) e (Some tag) ch st2) as [[b3 st3]|c] eqn:ES; [|discriminate].
    assert (IH' : Forall (walk2 tbl e) ch).
    { apply Forall_forall. intros x Hx. rewrite Forall_forall in IH. apply (IH x Hx). rewrite forallb_forall in Hch. now apply Hch. }
    destruct (seq2 tbl e ch IH' (Some tag) st2 b3 st3 I2 Hp1 ES) as (items & AS & -> & I3). rewrite AS.
    intros E; injection E as <- <-.
    eexists. split; [reflexivity|]. split; [|split; [destruct I3; split; cbn; auto|reflexivity]].
    cbn [flat_map S.ser_item]. rewrite app_nil_r. unfold S.tag_bits. fold (nonempty ws). rewrite <- !app_assoc. f_equal.
    assert (TB : (match ws with [] => 0 | _ :: _ => 128 end) + (if nonempty ch then 64 else 0) = bits (nonempty attrs && has_attr_table e) (nonempty ch)).
    { unfold bits. rewrite <- Hne. destruct ws; reflexivity. }
    rewrite TB.
    assert (END : (if nonempty attrs && has_attr_table e then [1] else []) = match ws with [] => [] | _ :: _ => [1] end /\
                  (match ws with [] => [] | _ :: _ => flat_map S.ser_attr ws ++ [1] end) = flat_map S.ser_attr ws ++ match ws with [] => [] | _ :: _ => [1] end).
    { rewrite <- Hne. destruct ws; cbn; auto. }
    destruct END as [E1 E2]. rewrite E1, E2.
    f_equal. rewrite <- app_assoc. f_equal. f_equal.
    destruct ch as [|c0 ch0]; cbn [nonempty]; [|reflexivity].
    cbn [abs_seq] in AS. injection AS as <- _. reflexivity.
  - cbn [parse_node abs_node]. destruct (enc_text e st par c) as [[b1 st1]|cc] eqn:ET; [|discriminate].
    intros E; injection E as <- <-.
    destruct (enc_text_abs e st par c b1 st1 HP (proj1 Hi) (binary_false st par Hi Hp) ET) as (items & AT & ->).
    rewrite AT. exists items. split; [reflexivity|]. split; [reflexivity|]. split; [|reflexivity].
    unfold abs_text in AT. rewrite (binary_false st par Hi Hp), (proj1 Hi) in AT. cbn [negb andb] in AT.
    destruct (e_ignore_empty e && only_ws c); [injection AT as _ <-; destruct Hi; split; cbn; auto|].
    destruct (abs_value e st false _) as [[w st0]|] eqn:AV; [|discriminate]. injection AT as _ <-.
    destruct (abs_value_inv _ _ _ _ _ _ AV) as [A B]. destruct Hi. split; cbn; [congruence|exact I].
Qed.

Lemma enc_wbxml_form_local tbl l o roots :
  enc_wbxml tbl l o roots =
  match enc_body tbl l o roots with
  | EOk (body, st) => EOk (fill_header (enc_env l o) st ++ body)
  | EErr c => EErr c
  end.
Proof. unfold enc_wbxml. destruct (enc_body tbl l o roots) as [[body st]|c]; reflexivity. Qed.

(* ---- the document ----------------------------------------------------------------------------------------------------------- *)
Definition header_pid (e : env) : option bytes :=
  if (header_public_id e =? 1) && negb (e_anonymous e) then bl_pub_text (e_lang e) else None.

Definition header_table (e : env) (st : est) : N * list ste * N :=
  match header_pid e with
  | Some p => if e_use_strtbl e then strtbl_add (strtbl st) (strtbl_len st) p else (0, strtbl st, u32 (len p + 1))
  | None => (0, strtbl st, strtbl_len st)
  end.

Definition doc_strtbl (e : env) (st : est) : bytes :=
  let '(_, tbl, _) := header_table e st in
  if e_use_strtbl e then strtbl_construct tbl
  else match header_pid e with Some p => p ++ [0] | None => [] end.

Definition abs_doc2 (e : env) (st : est) (root : S.witem) : S.wdoc :=
  let '(idx, _, _) := header_table e st in
  S.mk_wdoc (u8 (e_version e))
            (match header_pid e with Some _ => S.PubIdx idx | None => S.PubNum (header_public_id e) end)
            (if e_version e =? 0 then None else Some 106)
            (doc_strtbl e st) [] root [].

(* the declared length is the length of the table written *)
Definition header_len_ok (e : env) (st : est) : Prop :=
  let '(_, _, tlen) := header_table e st in tlen = Parser.blen (doc_strtbl e st).

Lemma fill_header_ser e st root : header_len_ok e st ->
  fill_header e st = S.ser_header (abs_doc2 e st root).
Proof.
  unfold header_len_ok, fill_header, abs_doc2, doc_strtbl, header_table, header_pid, S.ser_header.
  destruct ((header_public_id e =? 1) && negb (e_anonymous e)); [destruct (bl_pub_text (e_lang e)) as [p|]|].
  - destruct (e_use_strtbl e).
    + destruct (strtbl_add _ _ _) as [[idx tbl] tlen]. intros ->.
      cbn [S.wd_ver S.wd_pub S.wd_charset S.wd_strtbl S.ser_pub]. unfold header_charset.
      destruct (e_version e =? 0); reflexivity.
    + intros ->. cbn [S.wd_ver S.wd_pub S.wd_charset S.wd_strtbl S.ser_pub]. unfold header_charset.
      destruct (e_version e =? 0); reflexivity.
  - intros ->. cbn [S.wd_ver S.wd_pub S.wd_charset S.wd_strtbl S.ser_pub]. unfold header_charset.
    destruct (e_use_strtbl e); destruct (e_version e =? 0); cbn [app]; rewrite ?app_nil_r; reflexivity.
  - intros ->. cbn [S.wd_ver S.wd_pub S.wd_charset S.wd_strtbl S.ser_pub]. unfold header_charset.
    destruct (e_use_strtbl e); destruct (e_version e =? 0); cbn [app]; rewrite ?app_nil_r; reflexivity.
Qed.

Lemma blen_len b : Parser.blen b = len b.
Proof. reflexivity. Qed.

Theorem enc_wbxml_serialize2 tbl l o tag attrs ch bs :
  let e := enc_env l o in
  plain_env e = true -> frag2_node e (NElt tag attrs ch) = true ->
  enc_wbxml tbl l o [NElt tag attrs ch] = EOk bs ->
  exists st' root, enc_body tbl l o [NElt tag attrs ch] = EOk (flat_map S.ser_item [root], st') /\
    abs_node e None (NElt tag attrs ch) (start_state e [NElt tag attrs ch]) = Some ([root], st') /\
    (header_len_ok e st' -> bs = S.serialize (abs_doc2 e st' root)).
Proof.
  cbv zeta. intros HP HF. rewrite enc_wbxml_form_local. unfold enc_body. cbv zeta.
  set (e := enc_env l o) in *. set (root := NElt tag attrs ch) in *. unfold parse_nodes. cbn [seq_nodes].
  destruct (parse_node tbl e None root (start_state e [root])) as [[b1 st1]|c] eqn:E1; [|discriminate].
  intros E; injection E as <-.
  assert (I0 : inv2 (start_state e [root])).
  { unfold start_state. destruct (e_use_strtbl e); [destruct (strtbl_initialize _ _)|]; split; cbn; auto. }
  destruct (node2 tbl e root HP HF None (start_state e [root]) b1 st1 I0 I E1) as (items & A & -> & _ & _).
  subst root. cbn [abs_node] in A |- *.
  destruct (abs_tag e _ tag _ _) as [[[sw wtag] st2]|]; [|discriminate].
  destruct (if has_attr_table e then abs_attrs e st2 attrs else Some ([], st2)) as [[ws st3]|]; [|discriminate].
  destruct (abs_seq (abs_node e) (Some tag) ch st3) as [[its st4]|]; [|discriminate]. injection A as <- <-.
  eexists _, _. split; [rewrite app_nil_r; reflexivity|]. split; [reflexivity|].
  intros HL. rewrite (fill_header_ser e _ (S.WItemElt sw wtag ws (nonempty ch) its) HL).
  unfold S.serialize. f_equal.
  assert (P : forall st r, S.wd_pis_before (abs_doc2 e st r) = [] /\ S.wd_root (abs_doc2 e st r) = r /\ S.wd_pis_after (abs_doc2 e st r) = [])
    by (intros st r; unfold abs_doc2; destruct (header_table e st) as [[? ?] ?]; auto).
  destruct (P (set_cur_tag st4 None) (S.WItemElt sw wtag ws (nonempty ch) its)) as (P1 & P2 & P3).
  rewrite P1, P2, P3. cbn [flat_map app]. now rewrite !app_nil_r.
Qed.

(* ---- without string table the (empty) table is never touched ---------------------------------------------------------------- *)
Definition same_tbl (st st' : est) : Prop := strtbl st' = strtbl st /\ strtbl_len st' = strtbl_len st.
Lemma same_tbl_refl st : same_tbl st st. Proof. split; reflexivity. Qed.
Lemma same_tbl_trans a b c : same_tbl a b -> same_tbl b c -> same_tbl a c.
Proof. intros [A B] [C D]. split; congruence. Qed.

Lemma attr_token_same_tbl st t p : same_tbl st (snd (enc_attr_token st t p)).
Proof. unfold enc_attr_token. destruct (attrcp st =? p); split; reflexivity. Qed.

Lemma abs_velts_same l : forall st, same_tbl st (snd (abs_velts st l)).
Proof.
  induction l as [|v r IH]; intros st; cbn [abs_velts]; [apply same_tbl_refl|].
  destruct v as [s|t|p t|off];
    try (specialize (IH st); destruct (abs_velts st r) as [w' st2]; exact IH).
  pose proof (attr_token_same_tbl st t p) as H1. specialize (IH (snd (enc_attr_token st t p))).
  destruct (abs_velts _ r) as [w' st2]. cbn [snd] in *. eapply same_tbl_trans; eassumption.
Qed.

Lemma abs_value_same e st ia buf w st' : abs_value e st ia buf = Some (w, st') -> same_tbl st st'.
Proof.
  unfold abs_value. destruct buf as [|x s]; [intros E; injection E as <- <-; apply same_tbl_refl|].
  destruct (split_value e st ia (x :: s)) as [l|]; [|discriminate]. intros E.
  pose proof (abs_velts_same l st) as H. destruct (abs_velts st l) as [w0 st0]. now injection E as <- <-.
Qed.

Lemma abs_attr_same e st a w st' : e_use_strtbl e = false -> abs_attr e st a = Some (w, st') -> same_tbl st st'.
Proof.
  intros HU. unfold abs_attr. destruct (abs_attr_start e st a) as [[[start vl] st1]|] eqn:AS; [|discriminate].
  assert (H1 : same_tbl st st1).
  { unfold abs_attr_start in AS. cbv zeta in AS. rewrite HU in AS.
    destruct (at_name a) as [page tk nm oval|nm].
    - destruct oval as [xv|].
      + destruct (is_prefix xv _); [injection AS as <- <- <-; apply attr_token_same_tbl|discriminate].
      + injection AS as <- <- <-; apply attr_token_same_tbl.
    - destruct (get_attr_from_xml _ _ _) as [[r lft]|]; [injection AS as <- <- <-; apply attr_token_same_tbl|discriminate]. }
  destruct vl as [v|].
  - destruct (abs_value e st1 true v) as [[w0 st2]|] eqn:AV; [|discriminate]. intros E; injection E as <- <-.
    eapply same_tbl_trans; [exact H1|exact (abs_value_same _ _ _ _ _ _ AV)].
  - intros E; injection E as <- <-. exact H1.
Qed.

Lemma abs_attrs_same e l : e_use_strtbl e = false -> forall st ws st', abs_attrs e st l = Some (ws, st') -> same_tbl st st'.
Proof.
  intros HU. induction l as [|a r IH]; intros st ws st'; cbn [abs_attrs]; [intros E; injection E as <- <-; apply same_tbl_refl|].
  destruct (abs_attr e st a) as [[w st1]|] eqn:A; [|discriminate].
  destruct (abs_attrs e st1 r) as [[ws' st2]|] eqn:R; [|discriminate]. intros E; injection E as <- <-.
  eapply same_tbl_trans; [exact (abs_attr_same _ _ _ _ _ HU A)|exact (IH _ _ _ R)].
Qed.

Lemma abs_tag_same e st tag ha hc sw wtag st' : e_use_strtbl e = false -> abs_tag e st tag ha hc = Some (sw, wtag, st') -> same_tbl st st'.
Proof.
  intros HU. unfold abs_tag. destruct (tag_triple e st tag) as [[t0 page] ct]. cbv zeta. rewrite HU.
  destruct (t0 =? 0); [discriminate|]. destruct ((5 <=? t0) && (t0 <? 64)); [|discriminate].
  intros E; injection E as _ _ <-. split; reflexivity.
Qed.

Lemma abs_text_same e st par c items st' : abs_text e st par c = Some (items, st') -> same_tbl st st'.
Proof.
  unfold abs_text. destruct (is_binary_tag st par); [discriminate|].
  destruct (negb (in_cdata st) && e_ignore_empty e && only_ws c); [intros E; injection E as _ <-; apply same_tbl_refl|].
  destruct (in_cdata st); [discriminate|].
  destruct (abs_value e st false _) as [[w st0]|] eqn:AV; [|discriminate]. intros E; injection E as _ <-.
  exact (abs_value_same _ _ _ _ _ _ AV).
Qed.

Lemma abs_node_same e n : e_use_strtbl e = false -> forall par st items st', abs_node e par n st = Some (items, st') -> same_tbl st st'.
Proof.
  intros HU. induction n as [tag attrs ch IH|c|ch IH| |lid roots IH] using node_ind'; intros par st items st'; cbn [abs_node]; try discriminate.
  - destruct (abs_tag e st tag _ _) as [[[sw wtag] st1]|] eqn:AT; [|discriminate].
    destruct (if has_attr_table e then abs_attrs e st1 attrs else Some ([], st1)) as [[ws st2]|] eqn:AA; [|discriminate].
    destruct (abs_seq (abs_node e) (Some tag) ch st2) as [[its st3]|] eqn:AS; [|discriminate].
    intros E; injection E as _ <-.
    assert (H12 : same_tbl st1 st2).
    { destruct (has_attr_table e); [exact (abs_attrs_same _ _ HU _ _ _ AA)|injection AA as _ <-; apply same_tbl_refl]. }
    assert (H23 : same_tbl st2 st3).
    { clear AT AA H12. revert st2 its st3 AS. induction IH as [|x r Hx _ IHr]; intros st2 its st3; cbn [abs_seq].
      - intros E; injection E as _ <-. apply same_tbl_refl.
      - destruct (abs_node e (Some tag) x st2) as [[a sa]|] eqn:A; [|discriminate].
        destruct (abs_seq (abs_node e) (Some tag) r sa) as [[b sb]|] eqn:B; [|discriminate]. intros E; injection E as _ <-.
        eapply same_tbl_trans; [exact (Hx _ _ _ _ A)|exact (IHr _ _ _ B)]. }
    pose proof (abs_tag_same _ _ _ _ _ _ _ _ HU AT) as H01.
    destruct H01, H12, H23. split; cbn; congruence.
  - destruct (abs_text e st par c) as [[its st1]|] eqn:AT; [|discriminate]. intros E; injection E as _ <-.
    destruct (abs_text_same _ _ _ _ _ _ AT). split; cbn; assumption.
Qed.

(* the declared table length is the length of the table written: from the end-to-end string table theorem *)
Lemma header_len_ok_holds tbl l o tag attrs ch body st' root :
  let e := enc_env l o in
  enc_body tbl l o [NElt tag attrs ch] = EOk (body, st') ->
  abs_node e None (NElt tag attrs ch) (start_state e [NElt tag attrs ch]) = Some ([root], st') ->
  (let '(_, t, _) := header_table e st' in tbl_size t < 4294967296) ->
  (match header_pid e with Some p => len p + 1 < 4294967296 | None => True end) ->
  header_len_ok e st'.
Proof.
  cbv zeta. intros EB AN Hb Hp. set (e := enc_env l o) in *.
  unfold header_len_ok, doc_strtbl. unfold header_table in *.
  destruct (e_use_strtbl e) eqn:HU.
  - assert (Hext : forall t, (exists x, t = strtbl st' ++ x) -> tbl_size t < 4294967296 -> bnd st').
    { intros t [x ->] H. unfold bnd. rewrite tbl_size_app in H. lia. }
    destruct (header_pid e) as [p|].
    + destruct (strtbl_add (strtbl st') (strtbl_len st') p) as [[idx t] tlen] eqn:A.
      destruct (strtbl_add_ok _ _ _ _ _ _ A) as (Hx & HI).
      pose proof (enc_body_strtbl_exact tbl l o _ body st' EB (Hext t Hx Hb)) as [Ho Hl].
      destruct (HI (conj Ho Hl) Hb) as [_ ->]. symmetry. apply strtbl_construct_len.
    + pose proof (enc_body_strtbl_exact tbl l o _ body st' EB Hb) as [Ho Hl].
      rewrite Hl. symmetry. apply strtbl_construct_len.
  - pose proof (abs_node_same e _ HU _ _ _ _ AN) as [S1 S2].
    unfold start_state in S1, S2. rewrite HU in S1, S2. cbn in S1, S2.
    destruct (header_pid e) as [p|].
    + change (Parser.blen (p ++ [0])) with (len (p ++ [0])). rewrite len_app. unfold u32. rewrite N.mod_small by exact Hp. reflexivity.
    + now rewrite S2.
Qed.

Theorem enc_wbxml_is_serialize_wide tbl l o tag attrs ch bs :
  let e := enc_env l o in
  plain_env e = true -> frag2_node e (NElt tag attrs ch) = true ->
  enc_wbxml tbl l o [NElt tag attrs ch] = EOk bs ->
  exists st' root,
    abs_node e None (NElt tag attrs ch) (start_state e [NElt tag attrs ch]) = Some ([root], st') /\
    ((let '(_, t, _) := header_table e st' in tbl_size t < 4294967296) ->
     (match header_pid e with Some p => len p + 1 < 4294967296 | None => True end) ->
     bs = S.serialize (abs_doc2 e st' root)).
Proof.
  cbv zeta. intros HP HF E.
  destruct (enc_wbxml_serialize2 tbl l o tag attrs ch bs HP HF E) as (st' & root & EB & AN & HS).
  exists st', root. split; [exact AN|]. intros Hb Hp. apply HS.
  exact (header_len_ok_holds tbl l o tag attrs ch _ st' root EB AN Hb Hp).
Qed.
