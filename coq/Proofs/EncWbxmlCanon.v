(* C06 (typed values) — canon_dt, the normal form of a %Datetime attribute value (SI created / si-expires, EMN timestamp):
   canon_dt v = the ISO 8601 text the decoder prints (Spec.spec_datetime) for the OPAQUE BCD payload the encoder writes for
   v (digits of v, packed, trailing zero octets removed).  It is what the property calls "typed date-time values compared
   by the instant they denote".  Here: it is IDEMPOTENT (a normal form), and on well-formed date-times it is the canonical
   text of the same instant (transported from the typed-values development, Proofs/TypedDtProofs.v, read only). *)
From Coq Require Import List NArith ZArith Lia Bool ZifyBool ZifyN PeanoNat.
From Wbxml Require Import Base.Bits Model.Codec Model.EncWbxml Proofs.EncWbxmlProofs Proofs.EncWbxmlAbs Proofs.EncWbxmlAbs5
     Proofs.EncWbxmlDenote5 Proofs.TypedDtProofs.
From Wbxml Require Model.Parser Model.Spec.
Import ListNotations.
Local Open Scope N_scope.

(* ---- remove_trailing_zeros ------------------------------------------------------------------------------------------------------ *)
Lemma rtz_eq b : remove_trailing_zeros b = rev (drop_zeros (rev b)).
Proof. unfold remove_trailing_zeros, frev. now rewrite !rev_append_rev, !app_nil_r. Qed.

Lemma drop_zeros_idem b : drop_zeros (drop_zeros b) = drop_zeros b.
Proof. induction b as [|c r IH]; [reflexivity|]. cbn [drop_zeros]. destruct (c =? 0) eqn:E; [exact IH|]. cbn [drop_zeros]. now rewrite E. Qed.

Lemma drop_zeros_repeat k b : drop_zeros (repeat 0 k ++ b) = drop_zeros b.
Proof. induction k as [|k IH]; [reflexivity|]. cbn [repeat app drop_zeros N.eqb]. exact IH. Qed.

Lemma rev_repeat {A} (x : A) k : rev (repeat x k) = repeat x k.
Proof.
  induction k as [|k IH]; [reflexivity|]. cbn [repeat rev]. rewrite IH. clear IH.
  induction k as [|k IH]; [reflexivity|]. cbn [repeat app]. now rewrite IH.
Qed.

Lemma rtz_idem b : remove_trailing_zeros (remove_trailing_zeros b) = remove_trailing_zeros b.
Proof. rewrite !rtz_eq, rev_involutive, drop_zeros_idem. reflexivity. Qed.

Lemma rtz_app_zeros b k : remove_trailing_zeros (b ++ repeat 0 k) = remove_trailing_zeros b.
Proof. rewrite !rtz_eq, rev_app_distr, rev_repeat, drop_zeros_repeat. reflexivity. Qed.

Lemma drop_zeros_in b c : In c (drop_zeros b) -> In c b.
Proof. induction b as [|x r IH]; [auto|]. cbn [drop_zeros]. destruct (x =? 0); [intros H; right; now apply IH|auto]. Qed.

Lemma rtz_in b c : In c (remove_trailing_zeros b) -> In c b.
Proof. rewrite rtz_eq. intros H. apply in_rev in H. apply drop_zeros_in in H. now apply in_rev in H. Qed.

(* ---- the payload is BCD ---------------------------------------------------------------------------------------------------------- *)
Definition bcdb (x : N) : bool := (x / 16 <? 10) && (x mod 16 <? 10).

Lemma bcd_split x : bcdb x = true -> exists a b, a < 10 /\ b < 10 /\ x = a * 16 + b.
Proof.
  unfold bcdb. intros H. apply andb_true_iff in H as [H1 H2]. exists (x / 16), (x mod 16).
  split; [lia|]. split; [lia|]. pose proof (N.div_mod x 16). lia.
Qed.

Lemma bcdb_pack a b : a < 10 -> b < 10 -> bcdb (a * 16 + b) = true.
Proof.
  intros Ha Hb. unfold bcdb.
  assert (E1 : (a * 16 + b) / 16 = a) by (symmetry; apply (N.div_unique _ 16 a b); lia).
  assert (E2 : (a * 16 + b) mod 16 = b) by (symmetry; apply (N.mod_unique _ 16 a b); lia).
  rewrite E1, E2. lia.
Qed.

Lemma digits_isdigit v : forall ds, datetime_digits v = Some ds -> forallb isdigit ds = true.
Proof.
  induction v as [|c r IH]; intros ds; cbn [datetime_digits]; [intros E; now injection E as <-|].
  destruct (isdigit c) eqn:D.
  - destruct (datetime_digits r) as [d|]; [|discriminate]. intros E; injection E as <-. cbn [forallb]. now rewrite D, (IH d eq_refl).
  - destruct ((c =? 84) || (c =? 90) || (c =? 45) || (c =? 58)); [apply IH|discriminate].
Qed.

Lemma isdigit_val c : isdigit c = true -> exists a, a < 10 /\ c = 48 + a.
Proof. unfold isdigit. intros H. exists (c - 48). lia. Qed.

Lemma hex_pairs_bcd : forall ds, forallb isdigit ds = true -> forallb bcdb (hex_pairs (map hexval ds)) = true.
Proof.
  fix IH 1. intros ds. destruct ds as [|a [|b r]]; try reflexivity. cbn [forallb]. intros H.
  apply andb_true_iff in H as [Ha H]. apply andb_true_iff in H as [Hb Hr].
  destruct (isdigit_val a Ha) as (x & Hx & ->). destruct (isdigit_val b Hb) as (y & Hy & ->).
  rewrite hex_pairs_digits by assumption. cbn [forallb]. rewrite (bcdb_pack x y Hx Hy). exact (IH r Hr).
Qed.

Lemma payload_bcd v d : dt_payload v = Some d -> forallb bcdb d = true /\ remove_trailing_zeros d = d.
Proof.
  unfold dt_payload. destruct (datetime_digits v) as [ds|] eqn:D; [|discriminate]. intros E; injection E as <-.
  split; [|apply rtz_idem]. pose proof (hex_pairs_bcd ds (digits_isdigit v ds D)) as H. unfold hex_to_bin.
  apply forallb_forall. intros c Hc. rewrite forallb_forall in H. apply H. now apply rtz_in.
Qed.

(* ---- encoder and decoder on canonical texts / BCD octets -------------------------------------------------------------------- *)
Lemma isdigit_ok a : a < 10 -> isdigit (48 + a) = true.
Proof. unfold isdigit. lia. Qed.

Lemma hex_upper_cons a b r : a < 10 -> b < 10 -> S.hex_upper ((a * 16 + b) :: r) = (48 + a) :: (48 + b) :: S.hex_upper r.
Proof.
  intros Ha Hb. unfold S.hex_upper. cbn [flat_map app].
  assert (E1 : (a * 16 + b) / 16 = a) by (symmetry; apply (N.div_unique _ 16 a b); lia).
  assert (E2 : (a * 16 + b) mod 16 = b) by (symmetry; apply (N.mod_unique _ 16 a b); lia).
  rewrite E1, E2. unfold S.hex_digit. replace (a <? 10) with true by lia. replace (b <? 10) with true by lia. reflexivity.
Qed.

Lemma is_byte_bcd a b : a < 10 -> b < 10 -> S.is_byte (a * 16 + b) = true.
Proof. intros. unfold S.is_byte. lia. Qed.

Lemma dd_digit a r : a < 10 ->
  datetime_digits ((48 + a) :: r) = match datetime_digits r with Some d => Some ((48 + a) :: d) | None => None end.
Proof. intros H. cbn [datetime_digits]. now rewrite isdigit_ok. Qed.
Lemma dd_45 r : datetime_digits (45 :: r) = datetime_digits r. Proof. reflexivity. Qed.
Lemma dd_58 r : datetime_digits (58 :: r) = datetime_digits r. Proof. reflexivity. Qed.
Lemma dd_84 r : datetime_digits (84 :: r) = datetime_digits r. Proof. reflexivity. Qed.
Lemma dd_90 r : datetime_digits (90 :: r) = datetime_digits r. Proof. reflexivity. Qed.

Section Can.
  Variables a1 a2 a3 a4 a5 a6 a7 a8 a9 a10 a11 a12 a13 a14 : N.
  Hypothesis H1 : a1 < 10. Hypothesis H2 : a2 < 10. Hypothesis H3 : a3 < 10. Hypothesis H4 : a4 < 10.
  Hypothesis H5 : a5 < 10. Hypothesis H6 : a6 < 10. Hypothesis H7 : a7 < 10. Hypothesis H8 : a8 < 10.
  Hypothesis H9 : a9 < 10. Hypothesis H10 : a10 < 10. Hypothesis H11 : a11 < 10. Hypothesis H12 : a12 < 10.
  Hypothesis H13 : a13 < 10. Hypothesis H14 : a14 < 10.

  Lemma digits_canon : datetime_digits (canon_digits a1 a2 a3 a4 a5 a6 a7 a8 a9 a10 a11 a12 a13 a14) =
    Some [48 + a1; 48 + a2; 48 + a3; 48 + a4; 48 + a5; 48 + a6; 48 + a7; 48 + a8; 48 + a9; 48 + a10; 48 + a11; 48 + a12; 48 + a13; 48 + a14].
  Proof.
    unfold canon_digits.
    rewrite (dd_digit a1), (dd_digit a2), (dd_digit a3), (dd_digit a4), dd_45, (dd_digit a5), (dd_digit a6), dd_45, (dd_digit a7), (dd_digit a8), dd_84,
      (dd_digit a9), (dd_digit a10), dd_58, (dd_digit a11), (dd_digit a12), dd_58, (dd_digit a13), (dd_digit a14), dd_90 by assumption.
    reflexivity.
  Qed.

  Lemma payload_canon : dt_payload (canon_digits a1 a2 a3 a4 a5 a6 a7 a8 a9 a10 a11 a12 a13 a14) =
    Some (remove_trailing_zeros (bcd_digits a1 a2 a3 a4 a5 a6 a7 a8 a9 a10 a11 a12 a13 a14)).
  Proof. unfold dt_payload. rewrite digits_canon. rewrite pack14 by assumption. reflexivity. Qed.

  Ltac okb_tac := unfold S.bytes_okb; cbn [forallb]; rewrite !is_byte_bcd by assumption; reflexivity.

  Lemma spec7 : S.spec_datetime (bcd_digits a1 a2 a3 a4 a5 a6 a7 a8 a9 a10 a11 a12 a13 a14) =
    Some (canon_digits a1 a2 a3 a4 a5 a6 a7 a8 a9 a10 a11 a12 a13 a14).
  Proof.
    unfold S.spec_datetime, bcd_digits.
    replace (S.bytes_okb _) with true by (symmetry; okb_tac). cbn [negb].
    rewrite !hex_upper_cons by assumption. reflexivity.
  Qed.
  Lemma spec6 : S.spec_datetime [a1 * 16 + a2; a3 * 16 + a4; a5 * 16 + a6; a7 * 16 + a8; a9 * 16 + a10; a11 * 16 + a12] =
    Some (canon_digits a1 a2 a3 a4 a5 a6 a7 a8 a9 a10 a11 a12 0 0).
  Proof.
    unfold S.spec_datetime. replace (S.bytes_okb _) with true by (symmetry; okb_tac). cbn [negb].
    rewrite !hex_upper_cons by assumption. reflexivity.
  Qed.
  Lemma spec5 : S.spec_datetime [a1 * 16 + a2; a3 * 16 + a4; a5 * 16 + a6; a7 * 16 + a8; a9 * 16 + a10] =
    Some (canon_digits a1 a2 a3 a4 a5 a6 a7 a8 a9 a10 0 0 0 0).
  Proof.
    unfold S.spec_datetime. replace (S.bytes_okb _) with true by (symmetry; okb_tac). cbn [negb].
    rewrite !hex_upper_cons by assumption. reflexivity.
  Qed.
  Lemma spec4 : S.spec_datetime [a1 * 16 + a2; a3 * 16 + a4; a5 * 16 + a6; a7 * 16 + a8] =
    Some (canon_digits a1 a2 a3 a4 a5 a6 a7 a8 0 0 0 0 0 0).
  Proof.
    unfold S.spec_datetime. replace (S.bytes_okb _) with true by (symmetry; okb_tac). cbn [negb].
    rewrite !hex_upper_cons by assumption. reflexivity.
  Qed.
End Can.

Lemma zlt : 0 < 10. Proof. lia. Qed.

(* canon_dt is a normal form *)
Theorem canon_dt_idem v o : canon_dt v = Some o -> canon_dt o = Some o.
Proof.
  unfold canon_dt at 1. destruct (dt_payload v) as [d|] eqn:P; [|discriminate].
  destruct (payload_bcd v d P) as [Hb Hr].
  destruct d as [|x1 d]; [intros E; injection E as <-; vm_compute; reflexivity|].
  intros SD. destruct (spec_datetime_facts _ _ SD) as [_ Hl].
  (* fewer than 4 octets are refused, more than 7 too *)
  destruct d as [|x2 d]; [exfalso; unfold S.spec_datetime in SD; destruct (S.bytes_okb _); cbn in SD; discriminate|].
  destruct d as [|x3 d]; [exfalso; unfold S.spec_datetime in SD; destruct (S.bytes_okb _); cbn in SD; discriminate|].
  destruct d as [|x4 d]; [exfalso; unfold S.spec_datetime in SD; destruct (S.bytes_okb _); cbn in SD; discriminate|].
  cbn [forallb] in Hb.
  apply andb_true_iff in Hb as [B1 Hb]. apply andb_true_iff in Hb as [B2 Hb]. apply andb_true_iff in Hb as [B3 Hb]. apply andb_true_iff in Hb as [B4 Hb].
  destruct (bcd_split _ B1) as (a1 & a2 & A1 & A2 & E1). destruct (bcd_split _ B2) as (a3 & a4 & A3 & A4 & E2).
  destruct (bcd_split _ B3) as (a5 & a6 & A5 & A6 & E3). destruct (bcd_split _ B4) as (a7 & a8 & A7 & A8 & E4).
  subst x1 x2 x3 x4.
  destruct d as [|x5 d].
  - rewrite spec4 in SD by assumption. injection SD as <-. unfold canon_dt.
    rewrite (payload_canon a1 a2 a3 a4 a5 a6 a7 a8 0 0 0 0 0 0) by (assumption || exact zlt).
    change (bcd_digits a1 a2 a3 a4 a5 a6 a7 a8 0 0 0 0 0 0) with ([a1 * 16 + a2; a3 * 16 + a4; a5 * 16 + a6; a7 * 16 + a8] ++ repeat 0 3).
    rewrite rtz_app_zeros, Hr. now apply spec4.
  - cbn [forallb] in Hb. apply andb_true_iff in Hb as [B5 Hb]. destruct (bcd_split _ B5) as (a9 & a10 & A9 & A10 & E5). subst x5.
    destruct d as [|x6 d].
    + rewrite spec5 in SD by assumption. injection SD as <-. unfold canon_dt.
      rewrite (payload_canon a1 a2 a3 a4 a5 a6 a7 a8 a9 a10 0 0 0 0) by (assumption || exact zlt).
      change (bcd_digits a1 a2 a3 a4 a5 a6 a7 a8 a9 a10 0 0 0 0) with ([a1 * 16 + a2; a3 * 16 + a4; a5 * 16 + a6; a7 * 16 + a8; a9 * 16 + a10] ++ repeat 0 2).
      rewrite rtz_app_zeros, Hr. now apply spec5.
    + cbn [forallb] in Hb. apply andb_true_iff in Hb as [B6 Hb]. destruct (bcd_split _ B6) as (a11 & a12 & A11 & A12 & E6). subst x6.
      destruct d as [|x7 d].
      * rewrite spec6 in SD by assumption. injection SD as <-. unfold canon_dt.
        rewrite (payload_canon a1 a2 a3 a4 a5 a6 a7 a8 a9 a10 a11 a12 0 0) by (assumption || exact zlt).
        change (bcd_digits a1 a2 a3 a4 a5 a6 a7 a8 a9 a10 a11 a12 0 0) with ([a1 * 16 + a2; a3 * 16 + a4; a5 * 16 + a6; a7 * 16 + a8; a9 * 16 + a10; a11 * 16 + a12] ++ repeat 0 1).
        rewrite rtz_app_zeros, Hr. now apply spec6.
      * cbn [forallb] in Hb. apply andb_true_iff in Hb as [B7 Hb]. destruct (bcd_split _ B7) as (a13 & a14 & A13 & A14 & E7). subst x7.
        destruct d as [|x8 d]; [|exfalso; cbn [List.length] in Hl; lia].
        fold (bcd_digits a1 a2 a3 a4 a5 a6 a7 a8 a9 a10 a11 a12 a13 a14) in SD, Hr.
        rewrite spec7 in SD by assumption. injection SD as <-. unfold canon_dt.
        rewrite payload_canon by assumption. rewrite Hr. unfold bcd_digits at 1. now apply spec7.
Qed.
