(* C04 — elements and content: Spec.den_item against parse_element / parse_content / content_loop. *)
From Coq Require Import String Ascii.
From Coq Require Import List NArith ZArith Lia Bool ZifyBool ZifyN.
From Wbxml Require Import Base.Bits Model.Codec Model.TablesDefs Model.Parser Model.Spec
     Proofs.CodecProofs Proofs.ParserProofsBase Proofs.ParserProofsStr Proofs.ParserProofsAttr.
Import ListNotations.
Local Open Scope N_scope.

(* ---- the tag byte ---- *)

Definition tagbyte_facts (t bits : N) : bool :=
  let b := t + bits in
  negb (b =? 0) && negb (b =? 1) && negb (b =? 2) && negb (b =? 3) && negb (b =? 67) && negb (b =? 131)
  && negb (b =? 195) && negb (is_ext_token b) && negb ((b =? 4) || (b =? 132) || (b =? 68) || (b =? 196))
  && (N.land b 63 =? t) && Bool.eqb (N.land b 128 =? 128) (128 <=? bits)
  && Bool.eqb (N.land b 64 =? 64) ((bits =? 64) || (bits =? 192)).

Lemma tagbyte_sweep :
  forallb (fun t => implb (tag_tok_okb t) (forallb (tagbyte_facts t) [0; 64; 128; 192])) (N_range 64) = true.
Proof. vm_compute. reflexivity. Qed.

Definition bits_of (has_attrs hasc : bool) : N :=
  match has_attrs, hasc with false, false => 0 | false, true => 64 | true, false => 128 | true, true => 192 end.

Lemma tag_bits_of attrs hasc : tag_bits attrs hasc = bits_of (match attrs with [] => false | _ => true end) hasc.
Proof. destruct attrs, hasc; reflexivity. Qed.

Lemma tagbyte_props t ha hc : tag_tok_okb t = true ->
  let b := t + bits_of ha hc in
  (b =? 0) = false /\ (b =? 1) = false /\ (b =? 2) = false /\ (b =? 3) = false /\ (b =? 67) = false /\
  (b =? 131) = false /\ (b =? 195) = false /\ is_ext_token b = false /\
  ((b =? 4) || (b =? 132) || (b =? 68) || (b =? 196)) = false /\
  N.land b 63 = t /\ (N.land b 128 =? 128) = ha /\ (N.land b 64 =? 64) = hc.
Proof.
  intros H b. assert (Ht : t < 64) by (unfold tag_tok_okb in H; lia).
  pose proof (sweep1 _ 64 tagbyte_sweep t Ht) as S. cbn beta in S. rewrite H in S. cbn [implb] in S.
  rewrite forallb_forall in S.
  assert (Hin : In (bits_of ha hc) [0; 64; 128; 192]) by (destruct ha, hc; cbn; tauto).
  specialize (S _ Hin). unfold tagbyte_facts in S. fold b in S.
  rewrite !andb_true_iff, !negb_true_iff in S.
  destruct S as [[[[[[[[[[[S0 S1] S2] S3] S67] S131] S195] Sx] Sl] S63] S128] S64].
  apply N.eqb_eq in S63. apply Bool.eqb_prop in S128. apply Bool.eqb_prop in S64.
  repeat split; try assumption.
  - rewrite S128. destruct ha, hc; reflexivity.
  - rewrite S64. destruct ha, hc; reflexivity.
Qed.

(* the list version of the nested fixpoint inside den_item *)
Fixpoint den_items (env : denv) (depth : N) (me : option (N * N)) (l : list witem) (st : dstate)
  : option (list event * dstate) :=
  match l with
  | [] => Some ([], st)
  | x :: r =>
    match den_item env depth me x st with
    | Some (e, st') =>
      match den_items env depth me r st' with Some (e', st'') => Some (e ++ e', st'') | None => None end
    | None => None
    end
  end.

Definition den_named (env : denv) (tag : wtag) (st0 : dstate) : option (tagname * option (N * N) * dstate) :=
  match tag with
  | WTagTok t =>
    if tag_tok_okb t then
      match lookup_tag (de_lang env) (ds_tagcp st0) t with
      | Some r => Some (TagTok (t_page r) (t_tok r) (B (t_name r)), Some (t_page r, t_tok r),
                        set_dcur st0 (Some (t_page r, t_tok r)))
      | None => None
      end
    else None
  | WTagLit idx =>
    if u32_okb idx then
      match str_at (de_strtbl env) idx with
      | Some s => Some (TagLit s, None, st0)
      | None => None
      end
    else None
  end.

Lemma den_item_elt env depth parent sw tag attrs hasc items st :
  den_item env depth parent (WItemElt sw tag attrs hasc items) st =
  if sw_okb sw && (depth <=? 1000) then
    match den_named env tag (apply_sw TagSpace sw st) with
    | None => None
    | Some (name, me, st1) =>
      match den_attrs env attrs st1 with
      | None => None
      | Some (al, st2) =>
        if hasc then
          match den_items env (depth + 1) me items st2 with
          | Some (evs, st3) => Some (EvStartElt name al :: evs ++ [EvEndElt name], set_dcur st3 None)
          | None => None
          end
        else match items with
             | [] => Some ([EvStartElt name al; EvEndElt name], set_dcur st2 None)
             | _ => None
             end
      end
    end
  else None.
Proof.
  cbn [den_item]. unfold den_named. destruct (sw_okb sw && (depth <=? 1000)); [|reflexivity].
  destruct tag as [t|idx].
  - destruct (tag_tok_okb t); [|reflexivity].
    destruct (lookup_tag (de_lang env) (ds_tagcp (apply_sw TagSpace sw st)) t); [|reflexivity].
    destruct (den_attrs env attrs _) as [[al st2]|]; [|reflexivity].
    destruct hasc; [|reflexivity].
    match goal with |- match ?f items st2 with _ => _ end = match ?g with _ => _ end => assert (E : f items st2 = g) end.
    { generalize st2. induction items as [|x r IH]; intros s0; cbn [den_items]; [reflexivity|].
      destruct (den_item env (depth + 1) _ x s0) as [[e s1]|]; [|reflexivity]. rewrite IH. reflexivity. }
    rewrite E. reflexivity.
  - destruct (u32_okb idx); [|reflexivity].
    destruct (str_at (de_strtbl env) idx); [|reflexivity].
    destruct (den_attrs env attrs _) as [[al st2]|]; [|reflexivity].
    destruct hasc; [|reflexivity].
    match goal with |- match ?f items st2 with _ => _ end = match ?g with _ => _ end => assert (E : f items st2 = g) end.
    { generalize st2. induction items as [|x r IH]; intros s0; cbn [den_items]; [reflexivity|].
      destruct (den_item env (depth + 1) _ x s0) as [[e s1]|]; [|reflexivity]. rewrite IH. reflexivity. }
    rewrite E. reflexivity.
Qed.

Definition ser_tag (tag : wtag) (bits : N) : bytes :=
  match tag with WTagTok t => [t + bits] | WTagLit idx => (4 + bits) :: mb_write idx end.

Lemma ser_item_elt sw tag attrs hasc items :
  ser_item (WItemElt sw tag attrs hasc items) =
  ser_sw sw ++ ser_tag tag (tag_bits attrs hasc)
  ++ (match attrs with [] => [] | _ => flat_map ser_attr attrs ++ [1] end)
  ++ (if hasc then flat_map ser_item items ++ [1] else []).
Proof. cbn [ser_item]. destruct tag; reflexivity. Qed.

Section Elt.
Variables (l : lang) (tb : bytes) (ver cs : N).
Hypothesis Hcs : cs_ok cs.
Hypothesis Hwv : wv_premise l.
Hypothesis Hdt : typed_datetime_agree.
Let env := penv_of l tb ver cs.
Let denv := mk_denv l tb.

Lemma l_tags_some page t row : lookup_tag l page t = Some row ->
  exists tbl, l_tags l = Some tbl /\ find_tag tbl page t = Some row.
Proof.
  unfold lookup_tag. destruct (l_tags l) as [tbl|]; cbn [opt_list]; [|discriminate].
  intros H. exists tbl. split; [reflexivity|]. rewrite find_tag_eq. exact H.
Qed.

(* stag: the tag byte (or the literal's mask) carries the two flags *)
Lemma stag_ok tag ha hc st0 name me st1 r :
  den_named denv tag st0 = Some (name, me, st1) ->
  exists tagv, parse_stag env (pst st0 (ser_tag tag (bits_of ha hc) ++ r)) = POk (tagv, name, r)
    /\ (N.land tagv 128 =? 128) = ha /\ (N.land tagv 64 =? 64) = hc
    /\ st1 = match name with TagTok p t _ => set_dcur st0 (Some (p, t)) | TagLit _ => st0 end
    /\ me = match name with TagTok p t _ => Some (p, t) | TagLit _ => None end.
Proof.
  unfold env. intros H. destruct tag as [t|idx]; cbn [den_named de_lang de_strtbl denv] in H.
  - destruct (tag_tok_okb t) eqn:Ht; [|discriminate].
    destruct (lookup_tag l (ds_tagcp st0) t) as [row|] eqn:El; [|discriminate]. injection H as <- <- <-.
    destruct (l_tags_some _ _ _ El) as [tbl [Etbl Ef]].
    destruct (tagbyte_props t ha hc Ht) as (B0 & B1 & B2 & B3 & B67 & B131 & B195 & Bx & Bl & B63 & B128 & B64).
    cbn zeta in *. exists (t + bits_of ha hc).
    unfold parse_stag, parse_tag. cbn [ser_tag app pst s_rest is_literal]. rewrite Bl.
    cbn [parse_uint8 e_lang penv_of s_tagcp pst]. rewrite Etbl, B63, Ef.
    repeat split; assumption.
  - destruct (u32_okb idx) eqn:Ei; [|discriminate].
    destruct (str_at tb idx) as [s|] eqn:Es; [|discriminate]. injection H as <- <- <-.
    unfold parse_stag, parse_literal.
    destruct ha, hc; cbn [bits_of ser_tag].
    + change (4 + 192) with 196. cbn [app pst s_rest is_literal N.eqb Pos.eqb orb parse_uint8].
      rewrite parse_mb_ok by (apply u32_okb_lt; exact Ei). rewrite (strtbl_ref_ok l tb ver cs idx s Hcs Es).
      cbn [N.eqb Pos.eqb]. rewrite (str_at_cstr tb idx s Es). exists 192. repeat split; reflexivity.
    + change (4 + 128) with 132. cbn [app pst s_rest is_literal N.eqb Pos.eqb orb parse_uint8].
      rewrite parse_mb_ok by (apply u32_okb_lt; exact Ei). rewrite (strtbl_ref_ok l tb ver cs idx s Hcs Es).
      cbn [N.eqb Pos.eqb]. rewrite (str_at_cstr tb idx s Es). exists 128. repeat split; reflexivity.
    + change (4 + 64) with 68. cbn [app pst s_rest is_literal N.eqb Pos.eqb orb parse_uint8].
      rewrite parse_mb_ok by (apply u32_okb_lt; exact Ei). rewrite (strtbl_ref_ok l tb ver cs idx s Hcs Es).
      cbn [N.eqb Pos.eqb]. rewrite (str_at_cstr tb idx s Es). exists 64. repeat split; reflexivity.
    + change (4 + 0) with 4. cbn [app pst s_rest is_literal N.eqb Pos.eqb orb parse_uint8].
      rewrite parse_mb_ok by (apply u32_okb_lt; exact Ei). rewrite (strtbl_ref_ok l tb ver cs idx s Hcs Es).
      cbn [N.eqb Pos.eqb]. rewrite (str_at_cstr tb idx s Es). exists 63. repeat split; reflexivity.
Qed.

(* the first byte of a tag is neither END nor PI nor switchPage *)
Lemma ser_tag_head tag ha hc st0 x y : den_named denv tag st0 = Some x ->
  exists b r', ser_tag tag (bits_of ha hc) ++ y = b :: r' /\ (b =? 0) = false /\ (b =? 1) = false /\ (b =? 67) = false
    /\ (b =? 2) = false /\ (b =? 3) = false /\ (b =? 131) = false /\ (b =? 195) = false /\ is_ext_token b = false.
Proof.
  intros H. destruct tag as [t|idx]; cbn [den_named] in H.
  - destruct (tag_tok_okb t) eqn:Ht; [|discriminate].
    destruct (tagbyte_props t ha hc Ht) as (B0 & B1 & B2 & B3 & B67 & B131 & B195 & Bx & Bl & B63 & B128 & B64).
    cbn zeta in *. cbn [ser_tag app]. eexists. eexists. split; [reflexivity|]. repeat split; assumption.
  - destruct ha, hc; cbn [bits_of ser_tag app].
    + change (4 + 192) with 196. eexists. eexists. split; [reflexivity|]. repeat split; reflexivity.
    + change (4 + 128) with 132. eexists. eexists. split; [reflexivity|]. repeat split; reflexivity.
    + change (4 + 64) with 68. eexists. eexists. split; [reflexivity|]. repeat split; reflexivity.
    + change (4 + 0) with 4. eexists. eexists. split; [reflexivity|]. repeat split; reflexivity.
Qed.

Lemma ser_tag_len tag bits : (1 <= length (ser_tag tag bits))%nat.
Proof. destruct tag; cbn [ser_tag length]; lia. Qed.

Definition elt_stmt (i : witem) : Prop :=
  forall depth parent dst evs dst' fuel r,
    den_item denv depth parent i dst = Some (evs, dst') ->
    (length (ser_item i) <= fuel)%nat ->
    parse_element_with fuel env (content_loop fuel env depth) (pst dst (ser_item i ++ r)) = POk (evs, pst dst' r).

Definition items_stmt (items : list witem) : Prop :=
  forall depth me dst evs dst' fuel r,
    den_items denv (depth + 1) me items dst = Some (evs, dst') ->
    (length (flat_map ser_item items) < fuel)%nat ->
    content_loop fuel env depth (pst dst (flat_map ser_item items ++ 1 :: r)) = POk (evs, pst dst' r).

Lemma elt_of_items items : items_stmt items ->
  forall sw tag attrs hasc, elt_stmt (WItemElt sw tag attrs hasc items).
Proof.
  unfold elt_stmt, items_stmt. unfold env. intros Hitems sw tag attrs hasc depth parent dst evs dst' fuel r H Hf.
  rewrite den_item_elt in H.
  destruct (sw_okb sw && (depth <=? 1000)) eqn:E; [|discriminate]. apply andb_prop in E. destruct E as [Hsw Hd].
  destruct (den_named denv tag (apply_sw TagSpace sw dst)) as [[[name me] st1]|] eqn:En; [|discriminate].
  destruct (den_attrs denv attrs st1) as [[al st2]|] eqn:Ea; [|discriminate].
  rewrite ser_item_elt, tag_bits_of in *. set (ha := match attrs with [] => false | _ => true end) in *.
  rewrite !app_length in Hf. pose proof (ser_tag_len tag (bits_of ha hasc)) as Htl.
  unfold parse_element_with. rewrite <- !app_assoc.
  destruct (ser_tag_head tag ha hasc _ _
              ((match attrs with [] => [] | _ :: _ => flat_map ser_attr attrs ++ [1] end)
               ++ (if hasc then flat_map ser_item items ++ [1] else []) ++ r) En)
    as (b & r' & Eb & B0 & _).
  rewrite (opt_switch_page_ok TagSpace sw dst _ Hsw).
  2:{ intros b0 r0 E0. rewrite Eb in E0. injection E0 as <- _. lia. }
  destruct (stag_ok tag ha hasc _ name me st1
              ((match attrs with [] => [] | _ :: _ => flat_map ser_attr attrs ++ [1] end)
               ++ (if hasc then flat_map ser_item items ++ [1] else []) ++ r) En)
    as (tagv & Hp & T128 & T64 & Hst1 & Hme).
  unfold env in Hp. rewrite Hp. rewrite T128, T64.
  (* the state after the tag *)
  set (rest1 := (match attrs with [] => [] | _ :: _ => flat_map ser_attr attrs ++ [1] end)
                ++ (if hasc then flat_map ser_item items ++ [1] else []) ++ r) in *.
  assert (Est : match name with
                | TagTok p t _ => set_cur (set_rest (pst (apply_sw TagSpace sw dst) (ser_tag tag (bits_of ha hasc) ++ rest1)) rest1) (Some (p, t))
                | TagLit _ => set_rest (pst (apply_sw TagSpace sw dst) (ser_tag tag (bits_of ha hasc) ++ rest1)) rest1
                end = pst st1 rest1).
  { rewrite Hst1. destruct name; reflexivity. }
  rewrite Est. clear Est.
  assert (Hattrs : (if ha then attrs_loop fuel (penv_of l tb ver cs) (pst st1 rest1) [] else POk ([], pst st1 rest1))
                   = POk (al, pst st2 ((if hasc then flat_map ser_item items ++ [1] else []) ++ r))).
  { subst rest1 ha. destruct attrs as [|a0 al0].
    - cbn [den_attrs] in Ea. injection Ea as <- <-. reflexivity.
    - rewrite <- app_assoc. cbn [app].
      pose proof (attrs_loop_ok l tb ver cs Hcs Hdt (a0 :: al0) st1 al st2 fuel []
                    ((if hasc then flat_map ser_item items ++ [1] else []) ++ r) Ea) as Hl.
      rewrite Hl; [reflexivity|discriminate|].
      rewrite app_length in Hf. cbn [length] in Hf. lia. }
  rewrite Hattrs. clear Hattrs.
  destruct hasc.
  - destruct (den_items denv (depth + 1) me items st2) as [[evs0 st3]|] eqn:Ei; [|discriminate].
    injection H as <- <-. rewrite <- app_assoc. cbn [app].
    rewrite (Hitems depth me st2 evs0 st3 fuel r Ei).
    + reflexivity.
    + rewrite app_length in Hf. cbn [length] in Hf. lia.
  - destruct items; [|discriminate]. injection H as <- <-. reflexivity.
Qed.

Definition G (i : witem) : Prop :=
  match i with WItemElt _ _ _ _ its => items_stmt its | _ => True end.

Lemma ser_str_head s x : is_token (ser_str s ++ x) 1 = false /\ (1 <= length (ser_str s))%nat.
Proof.
  destruct s as [s|i|c|d|sw x0]; cbn [ser_str app is_token length]; try (split; [reflexivity|lia]).
  destruct sw as [pg|]; destruct x0; cbn [ser_sw ser_ext app is_token length]; split; lia.
Qed.

Lemma den_item_sw depth parent pg tag attrs hasc its dst :
  den_item denv depth parent (WItemElt (Some pg) tag attrs hasc its) dst =
  if is_byte pg then den_item denv depth parent (WItemElt None tag attrs hasc its) (apply_sw TagSpace (Some pg) dst)
  else None.
Proof.
  rewrite !den_item_elt. cbn [sw_okb apply_sw]. destruct (is_byte pg); reflexivity.
Qed.

(* one element without switchPage as a content item *)
Lemma content_elt_step tag attrs hasc its depth me dst0 e st1 f0 rest :
  items_stmt its ->
  den_item denv (depth + 1) me (WItemElt None tag attrs hasc its) dst0 = Some (e, st1) ->
  (length (ser_item (WItemElt None tag attrs hasc its)) <= f0)%nat ->
  is_token (ser_item (WItemElt None tag attrs hasc its) ++ rest) 1 = false /\
  parse_content f0 env depth (parse_element_with f0 env (content_loop f0 env (depth + 1)))
                (pst dst0 (ser_item (WItemElt None tag attrs hasc its) ++ rest)) = POk (e, pst st1 rest).
Proof.
  unfold env. intros Hits Hden Hlen.
  pose proof (elt_of_items its Hits None tag attrs hasc (depth + 1) me dst0 e st1 f0 rest Hden Hlen) as Helt.
  unfold env in Helt.
  rewrite den_item_elt in Hden.
  destruct (sw_okb None && (depth + 1 <=? 1000)) eqn:E; [|discriminate]. cbn [sw_okb andb] in E.
  destruct (den_named denv tag (apply_sw TagSpace None dst0)) as [x|] eqn:En; [|discriminate].
  revert Helt. rewrite ser_item_elt, tag_bits_of. set (ha := match attrs with [] => false | _ => true end).
  cbn [ser_sw app]. rewrite <- !app_assoc.
  destruct (ser_tag_head tag ha hasc _ x
              ((match attrs with [] => [] | _ :: _ => flat_map ser_attr attrs ++ [1] end)
               ++ (if hasc then flat_map ser_item its ++ [1] else []) ++ rest) En)
    as (b & r' & Eb & B0 & B1 & B67 & B2 & B3 & B131 & B195 & Bx).
  rewrite Eb. intros Helt. split; [cbn [is_token]; exact B1|].
  unfold parse_content, is_extension, is_string. cbn [pst s_rest is_token nth_error].
  rewrite B0. cbn [nth_error]. rewrite Bx, B2, B3, B131, B195, B67. cbn [orb].
  replace (MAX_NESTING_DEPTH <=? depth) with false by (unfold MAX_NESTING_DEPTH; lia).
  exact Helt.
Qed.

Lemma items_from_G items : Forall G items -> items_stmt items.
Proof.
  unfold items_stmt. unfold env. induction items as [|x xs IH]; intros HF depth me dst evs dst' fuel r H Hf.
  - cbn [den_items] in H. injection H as <- <-. destruct fuel as [|f]; [cbn in Hf; lia|].
    cbn [flat_map app content_loop pst s_rest is_token N.eqb Pos.eqb tl set_rest]. reflexivity.
  - inversion HF as [|x0 xs0 Hx Hxs]; subst x0 xs0.
    cbn [den_items] in H. destruct (den_item denv (depth + 1) me x dst) as [[e st1]|] eqn:Ex; [|discriminate].
    destruct (den_items denv (depth + 1) me xs st1) as [[e' st2]|] eqn:Exs; [|discriminate]. injection H as <- <-.
    destruct fuel as [|f]; [cbn in Hf; lia|].
    cbn [flat_map] in *. rewrite <- app_assoc. rewrite app_length in Hf.
    destruct x as [sw tag attrs hasc its|s|p].
    + cbn [G] in Hx. destruct sw as [pg|].
      * (* switchPage first: the parser takes it as a content item of its own *)
        rewrite den_item_sw in Ex. destruct (is_byte pg) eqn:Epg; [|discriminate].
        assert (Elen : length (ser_item (WItemElt (Some pg) tag attrs hasc its))
                       = S (S (length (ser_item (WItemElt None tag attrs hasc its))))).
        { rewrite !ser_item_elt. cbn [ser_sw app length]. reflexivity. }
        rewrite Elen in Hf. destruct f as [|f']; [lia|].
        destruct (content_elt_step tag attrs hasc its depth me (apply_sw TagSpace (Some pg) dst) e st1 f'
                    (flat_map ser_item xs ++ 1 :: r) Hx Ex) as [H1 Hpc]; [lia|].
        unfold env in Hpc.
        assert (Eser : ser_item (WItemElt (Some pg) tag attrs hasc its) ++ flat_map ser_item xs ++ 1 :: r
                       = 0 :: pg :: ser_item (WItemElt None tag attrs hasc its) ++ flat_map ser_item xs ++ 1 :: r).
        { rewrite !ser_item_elt. cbn [ser_sw app]. reflexivity. }
        rewrite Eser.
        (* first iteration: the switchPage *)
        assert (Hhd : exists b r', ser_item (WItemElt None tag attrs hasc its) ++ flat_map ser_item xs ++ 1 :: r = b :: r'
                                   /\ is_ext_token b = false).
        { rewrite den_item_elt in Ex. cbn [sw_okb andb] in Ex.
          destruct (depth + 1 <=? 1000); [|discriminate].
          destruct (den_named denv tag (apply_sw TagSpace None (apply_sw TagSpace (Some pg) dst))) as [x|] eqn:En; [|discriminate].
          rewrite ser_item_elt, tag_bits_of. cbn [ser_sw app]. rewrite <- !app_assoc.
          destruct (ser_tag_head tag (match attrs with [] => false | _ => true end) hasc _ x
              ((match attrs with [] => [] | _ :: _ => flat_map ser_attr attrs ++ [1] end)
               ++ (if hasc then flat_map ser_item its ++ [1] else []) ++ flat_map ser_item xs ++ 1 :: r) En)
            as (b & r' & Eb & _ & _ & _ & _ & _ & _ & _ & Bx).
          exists b, r'. split; assumption. }
        destruct Hhd as (b & r' & Eb & Bx).
        cbn [content_loop pst s_rest is_token N.eqb Pos.eqb].
        unfold parse_content at 1. cbn [pst s_rest]. unfold is_extension, is_string.
        rewrite Eb. cbn [is_token nth_error N.eqb Pos.eqb orb]. rewrite Bx.
        unfold parse_switch_page. cbn [pst s_rest tl parse_uint8 s_attrcp s_cur].
        rewrite <- Eb.
        change (mk_pstate (ser_item (WItemElt None tag attrs hasc its) ++ flat_map ser_item xs ++ 1 :: r) pg (ds_attrcp dst) (ds_cur dst))
          with (pst (apply_sw TagSpace (Some pg) dst) (ser_item (WItemElt None tag attrs hasc its) ++ flat_map ser_item xs ++ 1 :: r)).
        (* second iteration: the element *)
        cbn [content_loop]. rewrite H1. rewrite Hpc.
        rewrite (IH Hxs depth me st1 e' st2 f' r Exs) by lia. reflexivity.
      * destruct (content_elt_step tag attrs hasc its depth me dst e st1 f
                    (flat_map ser_item xs ++ 1 :: r) Hx Ex) as [H1 Hpc]; [lia|].
        unfold env in Hpc. cbn [content_loop]. cbn [pst s_rest]. rewrite H1. rewrite Hpc.
        pose proof (ser_tag_len tag 0) as _.
        assert (Hl1 : (1 <= length (ser_item (WItemElt None tag attrs hasc its)))%nat).
        { rewrite ser_item_elt. rewrite !app_length. pose proof (ser_tag_len tag (tag_bits attrs hasc)). lia. }
        rewrite (IH Hxs depth me st1 e' st2 f r Exs) by lia. reflexivity.
    + cbn [den_item] in Ex. destruct (den_str denv TagSpace me s dst) as [[o st1']|] eqn:Es; [|discriminate].
      injection Ex as <- <-.
      destruct (ser_str_head s (flat_map ser_item xs ++ 1 :: r)) as [H1 Hl1].
      cbn [ser_item] in *. cbn [content_loop pst s_rest]. rewrite H1.
      pose proof (content_str_ok l tb ver cs Hcs Hwv f depth
                    (parse_element_with f (penv_of l tb ver cs) (content_loop f (penv_of l tb ver cs) (depth + 1)))
                    me s dst o st1' (flat_map ser_item xs ++ 1 :: r) Es) as Hpc.
      rewrite Hpc. rewrite (IH Hxs depth me st1' e' st2 f r Exs) by lia. reflexivity.
    + cbn [den_item] in Ex. cbn [ser_item] in *.
      assert (Hl1 : length (ser_pi p) = S (S (length (ser_attr p)))).
      { unfold ser_pi. cbn [length]. rewrite app_length. cbn [length]. lia. }
      cbn [content_loop pst s_rest]. unfold ser_pi. cbn [app is_token N.eqb Pos.eqb]. rewrite <- ?app_assoc.
      unfold parse_content, is_extension, is_string. cbn [pst s_rest is_token nth_error N.eqb Pos.eqb is_ext_token orb].
      pose proof (pi_ok l tb ver cs Hcs p dst e st1 f (flat_map ser_item xs ++ 1 :: r) Ex) as Hpi.
      unfold ser_pi in Hpi at 1. cbn [app] in Hpi. rewrite <- ?app_assoc in Hpi. rewrite Hpi by lia.
      rewrite (IH Hxs depth me st1 e' st2 f r Exs) by lia. reflexivity.
Qed.

Lemma all_G : forall i, G i.
Proof.
  fix IH 1. intros i. destruct i as [sw tag attrs hasc items|s|p]; cbn [G]; [|exact I|exact I].
  apply items_from_G. induction items as [|x xs IHxs]; constructor; [apply IH|exact IHxs].
Qed.

Theorem element_ok sw tag attrs hasc items : elt_stmt (WItemElt sw tag attrs hasc items).
Proof. apply elt_of_items. exact (all_G (WItemElt sw tag attrs hasc items)). Qed.

End Elt.
