(* C02 (front end) — proofs about Model/XmlFront.v, part 2: shape of the tree that is produced
   (nesting bound, no two adjacent text nodes) and where its element / attribute names come from. *)
From Coq Require Import List NArith PeanoNat Lia Bool.
From Wbxml Require Import Model.TablesDefs Model.Tables Model.Codec Model.LangSelect Model.EncWbxml Model.XmlFront.
From Wbxml Require Import Proofs.XmlFrontProofs.
Import ListNotations.
Local Open Scope N_scope.

(* ------------------------------------------------------------------ the predicates *)

Definition is_text (n : node) : bool := match n with NText _ => true | _ => false end.

(* no two adjacent text nodes in a sibling list *)
Fixpoint no_adj (l : list node) : Prop :=
  match l with
  | [] => True
  | a :: r => match r with [] => True | b :: _ => is_text a && is_text b = false end /\ no_adj r
  end.

(* node_ok d n, d = number of ancestors of n in its own tree:
     every ELEMENT node has fewer than WBXML_MAX_NESTING_DEPTH = 1000 ancestors (of any kind),
     no sibling list has two adjacent text nodes,
     an embedded tree is a tree of its own (depth starts again at 0: it was built by a nested wbxml_tree_from_xml). *)
Fixpoint node_ok (d : nat) (n : node) {struct n} : Prop :=
  match n with
  | NElt _ _ kids =>
    (d < 1000)%nat /\ no_adj kids /\
    (fix all (l : list node) : Prop := match l with [] => True | x :: r => node_ok (S d) x /\ all r end) kids
  | NCData kids =>
    no_adj kids /\
    (fix all (l : list node) : Prop := match l with [] => True | x :: r => node_ok (S d) x /\ all r end) kids
  | NTree _ roots =>
    no_adj roots /\
    (fix all (l : list node) : Prop := match l with [] => True | x :: r => node_ok 0 x /\ all r end) roots
  | NText _ | NPi => True
  end.

Definition tree_ok (t : xtree) : Prop := no_adj (xt_roots t) /\ Forall (node_ok 0) (xt_roots t).

Lemma all_Forall (P : node -> Prop) l :
  (fix all (l : list node) : Prop := match l with [] => True | x :: r => P x /\ all r end) l <-> Forall P l.
Proof.
  induction l as [|x r IH]; [split; auto|]. split.
  - intros [H1 H2]. constructor; [exact H1|now apply IH].
  - intros H. inversion H; subst. split; [assumption|now apply IH].
Qed.

Lemma node_ok_elt d t a kids : node_ok d (NElt t a kids) <-> (d < 1000)%nat /\ no_adj kids /\ Forall (node_ok (S d)) kids.
Proof. cbn [node_ok]. now rewrite all_Forall. Qed.
Lemma node_ok_cdata d kids : node_ok d (NCData kids) <-> no_adj kids /\ Forall (node_ok (S d)) kids.
Proof. cbn [node_ok]. now rewrite all_Forall. Qed.
Lemma node_ok_tree d l roots : node_ok d (NTree l roots) <-> no_adj roots /\ Forall (node_ok 0) roots.
Proof. cbn [node_ok]. now rewrite all_Forall. Qed.

(* the height of a tree in nodes, embedded trees counted as leaves *)
Fixpoint height (n : node) : nat :=
  match n with
  | NElt _ _ kids => S ((fix mx (l : list node) : nat := match l with [] => O | x :: r => Nat.max (height x) (mx r) end) kids)
  | NCData kids => S ((fix mx (l : list node) : nat := match l with [] => O | x :: r => Nat.max (height x) (mx r) end) kids)
  | _ => 1%nat
  end.

(* ------------------------------------------------------------------ lists *)

Lemma no_adj_spec l :
  no_adj l <-> (forall l1 a b l2, l = l1 ++ a :: b :: l2 -> is_text a && is_text b = false).
Proof.
  induction l as [|a0 r IH].
  - split; [|intros; exact I]. intros _ [|? ?] a b l2 E; discriminate.
  - split.
    + intros [H1 H2] l1 a b l2 E. destruct l1 as [|x l1'].
      * cbn in E. injection E as -> ->. exact H1.
      * cbn in E. injection E as -> E. apply (proj1 IH H2 l1' a b l2 E).
    + intros H. split.
      * destruct r as [|b r']; [exact I|]. apply (H [] a0 b r' eq_refl).
      * apply IH. intros l1 a b l2 E. apply (H (a0 :: l1) a b l2). now rewrite E.
Qed.

Lemma no_adj_rev l : no_adj l -> no_adj (rev l).
Proof.
  intros H. apply no_adj_spec. intros l1 a b l2 E.
  apply (f_equal (@rev node)) in E. rewrite rev_involutive, rev_app_distr in E. cbn in E.
  rewrite <- !app_assoc in E. cbn in E.
  rewrite andb_comm. exact (proj1 (no_adj_spec l) H _ _ _ _ E).
Qed.

Lemma kids_of_rev f : kids_of f = rev (f_rkids f).
Proof. unfold kids_of. now rewrite rev_append_rev, app_nil_r. Qed.

(* ------------------------------------------------------------------ frames *)

Definition frame_ok (d : nat) (f : frame) : Prop :=
  (is_cdata_frame f = false -> (d < 1000)%nat) /\ no_adj (f_rkids f) /\ Forall (node_ok (S d)) (f_rkids f).

Fixpoint spine_ok (sp : list frame) : Prop :=
  match sp with
  | [] => True
  | f :: up => frame_ok (List.length up) f /\ spine_ok up
  end.

Definition state_ok (sp : list frame) (root : option node) : Prop :=
  spine_ok sp /\ match root with Some r => node_ok 0 r | None => True end.

Definition ctx_ok (c : ctx) : Prop := state_ok (c_spine c) (c_root c).

Lemma reify_ok d f : frame_ok d f -> node_ok d (reify f).
Proof.
  intros (D & A & F). unfold reify. destruct (f_kind f) as [tag attrs content|] eqn:K.
  - apply node_ok_elt. rewrite kids_of_rev. split; [apply D; unfold is_cdata_frame; now rewrite K|].
    split; [now apply no_adj_rev|]. now apply Forall_rev.
  - apply node_ok_cdata. rewrite kids_of_rev. split; [now apply no_adj_rev|]. now apply Forall_rev.
Qed.

Lemma reify_not_text f : is_text (reify f) = false.
Proof. unfold reify. now destruct (f_kind f). Qed.

Lemma add_kid_ok d f n : frame_ok d f -> node_ok (S d) n -> is_text n = false -> frame_ok d (add_kid f n).
Proof.
  intros (D & A & F) N T. unfold frame_ok, add_kid, is_cdata_frame in *. cbn.
  split; [exact D|]. split; [|constructor; assumption].
  split; [|exact A]. destruct (f_rkids f); [exact I|]. now rewrite T.
Qed.

Lemma add_text_kid_ok d f t : frame_ok d f -> frame_ok d (add_text_kid f t).
Proof.
  intros (D & A & F). unfold frame_ok, add_text_kid, add_kid, is_cdata_frame in *.
  destruct (f_rkids f) as [|[tag attrs kids|t0|kids| |l roots] r] eqn:R; cbn;
    (split; [exact D|]); (split; [|try (constructor; [exact I|exact F])]); try (split; [reflexivity || exact I|exact A]).
  - (* merge with the last text *)
    destruct A as [A1 A2]. split; [|exact A2]. destruct r; [exact I|exact A1].
  - inversion F; subst. constructor; [exact I|assumption].
Qed.

Lemma kind_change_ok d f k :
  frame_ok d f -> (is_cdata_frame (mk_frame k (f_rkids f)) = false -> is_cdata_frame f = false) ->
  frame_ok d (mk_frame k (f_rkids f)).
Proof. intros (D & A & F) H. unfold frame_ok. cbn. split; [intros X; apply D; now apply H|auto]. Qed.

(* ------------------------------------------------------------------ operations on the context *)

Section T.
  Variable main : list lang.
  Variable sub : bytes -> xtree + N.
  Variable input : bytes.
  Hypothesis sub_ok : forall d t, sub d = inl t -> tree_ok t.

  Notation step := (step main sub input).
  Notation run := (run main sub input).

  Lemma go_up_ok c : ctx_ok c -> ctx_ok (go_up c).
  Proof.
    unfold ctx_ok, go_up, state_ok. intros [S R]. destruct (c_spine c) as [|f [|p r]] eqn:E; cbn; rewrite ?E; auto.
    - split; [exact I|]. cbn in S. apply reify_ok. apply S.
    - cbn in S. destruct S as (Ff & Fp & Sr). split; [|exact R]. cbn. split; [|exact Sr].
      apply add_kid_ok; [exact Fp| |apply reify_not_text]. now apply reify_ok.
  Qed.

  Lemma push_frame_ok c k err :
    ctx_ok c -> (is_cdata_frame (mk_frame k []) = false -> (List.length (c_spine c) < 1000)%nat) ->
    ctx_ok (push_frame c (mk_frame k []) err).
  Proof.
    unfold ctx_ok, push_frame, state_ok. intros [S R] D.
    assert (F : frame_ok (List.length (c_spine c)) (mk_frame k [])).
    { split; [exact D|]. cbn. auto. }
    destruct (c_spine c) as [|f up] eqn:E; [destruct (c_root c) eqn:E2|]; cbn; rewrite ?E, ?E2; auto.
  Qed.

  Lemma add_text_ok c t : ctx_ok c -> ctx_ok (add_text c t).
  Proof.
    unfold ctx_ok, add_text, state_ok. intros [S R].
    destruct (c_spine c) as [|f up] eqn:E; [destruct (c_root c) eqn:E2|]; cbn; rewrite ?E, ?E2; auto.
    cbn in S. destruct S as [Ff Su]. split; [|exact R]. cbn. split; [now apply add_text_kid_ok|exact Su].
  Qed.

  Lemma flush_ok c : ctx_ok c -> ctx_ok (flush_binary c).
  Proof.
    unfold ctx_ok, flush_binary, state_ok. intros [S R].
    destruct (c_spine c) as [|f up] eqn:E; [now rewrite E|].
    destruct (f_kind f) as [[p t o nm|nm] attrs [content|]|] eqn:K; try (rewrite E; auto).
    destruct (negb (N.land o WBXML_TAG_OPTION_BINARY =? 0)); [|rewrite E; auto].
    cbn in S. destruct S as [Ff Su].
    assert (F0 : frame_ok (List.length up) (mk_frame (FElt (TagTok p t o nm) attrs None) (f_rkids f))).
    { apply kind_change_ok; [exact Ff|]. intros _. unfold is_cdata_frame. now rewrite K. }
    destruct (buffer_b64_dec content); cbn; (split; [|exact R]); cbn; (split; [|exact Su]); auto.
    now apply (add_text_kid_ok _ (mk_frame _ _)).
  Qed.

  Lemma set_spine_head_ok c f f' up :
    ctx_ok c -> c_spine c = f :: up -> frame_ok (List.length up) f' -> ctx_ok (set_spine c (f' :: up)).
  Proof.
    unfold ctx_ok, state_ok. intros [S R] E F. rewrite E in S. cbn in *. tauto.
  Qed.

  Lemma leave_current_ok c : ctx_ok c -> ctx_ok (leave_current c).
  Proof.
    intros H. unfold leave_current. destruct (c_spine c) as [|f [|p r]]; auto.
    destruct (is_cdata_frame f); repeat apply go_up_ok; exact H.
  Qed.

  Theorem ctx_ok_step c e : ctx_ok c -> ctx_ok (step c e).
  Proof.
    intros H. destruct e as [version encoding|dname sysid pubid| |name attrs byte_index|name byte_index|ch| | |target data]; cbn; auto.
    - unfold on_xml_decl. brk; auto.
    - unfold on_start_doctype. brk; auto.
    - (* start element *)
      unfold on_start_element.
      destruct (negb (c_error c =? WBXML_OK)); auto.
      destruct (0 <? c_skip_lvl c); auto.
      match goal with |- context [if negb (c_error ?x =? WBXML_OK) then _ else _] => set (c1 := x) end.
      assert (H1 : ctx_ok c1 /\ c_spine c1 = c_spine c) by (subst c1; brk; auto).
      destruct H1 as [H1 S1]. clearbody c1.
      destruct (negb (c_error c1 =? WBXML_OK)); auto.
      destruct (is_embedded_name name && _); auto.
      apply flush_ok in H1. set (cf := flush_binary c1) in *. clearbody cf. unfold start_child.
      destruct (negb (c_error cf =? WBXML_OK)); auto.
      destruct (WBXML_MAX_NESTING_DEPTH <=? N.of_nat (List.length (c_spine cf))) eqn:D; auto.
      destruct (c_lang cf) as [l|]; auto.
      destruct (resolve_tag l name) as [tag page].
      apply push_frame_ok; [exact H1|]. intros _. cbn. apply N.leb_gt in D. unfold WBXML_MAX_NESTING_DEPTH in D. lia.
    - (* end element *)
      unfold on_end_element. apply flush_ok in H. set (cf := flush_binary c) in *. clearbody cf.
      pose proof (leave_current_ok cf H) as LV.
      destruct (negb (c_error cf =? WBXML_OK)); auto.
      destruct (0 <? c_skip_lvl cf); auto.
      destruct (c_skip_lvl cf =? 1); auto.
      destruct (is_embedded_name name); auto.
      destruct (c_lang cf) as [tl|]; auto.
      destruct (beq name n_MgmtTree && negb (l_id tl =? LANG_SYNCML12)); auto.
      match goal with |- context [match ?t with Some _ => _ | None => _ end] => destruct t as [id|] end; auto.
      destruct (get_table main id) as [el|]; auto.
      destruct (embedded_doc _ _ _ _ _) as [doc|]; auto.
      destruct (sub doc) as [t|e] eqn:SB; auto.
      destruct (c_spine cf) as [|f up] eqn:S; [destruct (c_root cf); auto|].
      apply (set_spine_head_ok cf f _ up H S).
      destruct H as [Hs _]. rewrite S in Hs. destruct Hs as [Ff _].
      apply add_kid_ok; [exact Ff| |reflexivity].
      apply node_ok_tree. exact (sub_ok doc t SB).
    - (* characters *)
      unfold on_characters.
      destruct (negb (c_error c =? WBXML_OK)); auto.
      destruct (0 <? c_skip_lvl c); auto.
      destruct (syncml_data_type (c_spine c)) as [dt|]; auto.
      match goal with |- ctx_ok (let '(ch1, want_cdata) := ?p in _) => destruct p as [ch1 want] end.
      match goal with |- context [match c_spine ?x with _ => _ end] => set (c1 := x) end.
      assert (H1 : ctx_ok c1).
      { subst c1. destruct (c_spine c); auto. destruct (want && _ && _); auto.
        apply push_frame_ok; [exact H|]. cbn. discriminate. }
      clearbody c1.
      destruct (c_spine c1) as [|f up] eqn:S; [now apply add_text_ok|].
      destruct (is_binary_frame f); [|now apply add_text_ok].
      destruct (f_kind f) as [tag at0 content|] eqn:K; auto.
      apply (set_spine_head_ok c1 f _ up H1 S).
      destruct H1 as [Hs _]. rewrite S in Hs. destruct Hs as [Ff _].
      apply kind_change_ok; [exact Ff|]. intros _. unfold is_cdata_frame. now rewrite K.
    - unfold on_start_cdata. destruct (negb (c_error c =? WBXML_OK)); auto. destruct (0 <? c_skip_lvl c); auto.
      apply push_frame_ok; [exact H|]. cbn. discriminate.
    - unfold on_end_cdata. destruct (negb (c_error c =? WBXML_OK)); auto. destruct (0 <? c_skip_lvl c); auto.
      destruct (c_spine c) as [|f [|p r]] eqn:S; auto. now apply go_up_ok.
  Qed.

  Theorem ctx_ok_run c evs : ctx_ok c -> ctx_ok (run c evs).
  Proof.
    revert c. induction evs as [|e r IH]; intros c H; [exact H|]. change (ctx_ok (run (step c e) r)). apply IH. now apply ctx_ok_step.
  Qed.

  (* closing the open nodes *)
  Lemma close_spine_ok sp child :
    spine_ok sp ->
    match child with Some n => node_ok (List.length sp) n /\ is_text n = false | None => True end ->
    match close_spine child sp with
    | Some r => node_ok 0 r
    | None => sp = [] /\ child = None
    end.
  Proof.
    revert child. induction sp as [|f up IH]; intros child S C.
    - cbn. destruct child; [apply C|auto].
    - cbn [close_spine]. destruct S as [Ff Su].
      specialize (IH (Some (reify match child with Some n => add_kid f n | None => f end)) Su).
      cbn beta iota in IH.
      assert (X : node_ok (List.length up) (reify match child with Some n => add_kid f n | None => f end) /\
                  is_text (reify match child with Some n => add_kid f n | None => f end) = false).
      { split; [|apply reify_not_text]. apply reify_ok. destruct child; [|exact Ff].
        destruct C as [C1 C2]. now apply add_kid_ok. }
      specialize (IH X).
      destruct (close_spine _ up); [exact IH|]. destruct IH as [_ IH]. discriminate.
  Qed.

  Lemma root_of_ok c : ctx_ok c -> match root_of c with Some r => node_ok 0 r | None => True end.
  Proof.
    intros [S R]. unfold root_of. destruct (c_spine c) as [|f up] eqn:E; [exact R|].
    pose proof (close_spine_ok (f :: up) None S I) as X.
    destruct (close_spine None (f :: up)); [exact X|exact I].
  Qed.

  Theorem tree_from_xml_ok evs ok t : tree_from_xml main sub input evs ok = inl t -> tree_ok t.
  Proof.
    unfold tree_from_xml. destruct input eqn:EI; [discriminate|]. rewrite <- EI. destruct ok; cbn; [|discriminate].
    destruct (negb (c_error (run init_ctx evs) =? WBXML_OK)); [discriminate|].
    intros E. injection E as <-. unfold tree_ok, tree_of_ctx. cbn.
    assert (H : ctx_ok (run init_ctx evs)) by (apply ctx_ok_run; split; cbn; auto).
    pose proof (root_of_ok _ H) as R.
    destruct (root_of (run init_ctx evs)); cbn; auto.
  Qed.
End T.

(* the whole function: every tree, at every level of embedding, satisfies the predicate *)
Theorem tree_from_xml_fuel_ok main expat fuel : forall input t, tree_from_xml_fuel main expat fuel input = inl t -> tree_ok t.
Proof.
  induction fuel as [|k IH]; intros input t; cbn [tree_from_xml_fuel]; apply tree_from_xml_ok.
  - intros d t0 H. discriminate.
  - exact IH.
Qed.

(* ------------------------------------------------------------------ element nesting *)

(* number of nested ELEMENT levels (CDATA nodes and text do not count, embedded trees are leaves) *)
Fixpoint eheight (n : node) : nat :=
  match n with
  | NElt _ _ kids => S ((fix mx (l : list node) : nat := match l with [] => O | x :: r => Nat.max (eheight x) (mx r) end) kids)
  | NCData kids => (fix mx (l : list node) : nat := match l with [] => O | x :: r => Nat.max (eheight x) (mx r) end) kids
  | _ => O
  end.

Lemma eheight_bound : forall n d, node_ok d n -> (0 < eheight n)%nat -> (d + eheight n <= 1000)%nat.
Proof.
  fix IH 1. intros n d H P. destruct n as [tag attrs kids|t|kids| |l roots]; cbn [eheight] in *; try lia.
  - destruct H as (D & _ & A).
    assert (G : forall l, (fix all (l : list node) : Prop := match l with [] => True | x :: r => node_ok (S d) x /\ all r end) l ->
                          let m := (fix mx (l : list node) : nat := match l with [] => O | x :: r => Nat.max (eheight x) (mx r) end) l in
                          (0 < m -> S d + m <= 1000)%nat).
    { induction l as [|x r IHl]; intros Hl; cbn; [lia|]. destruct Hl as [Hx Hr]. specialize (IHl Hr). cbn in IHl.
      pose proof (IH x (S d) Hx). lia. }
    specialize (G kids A). cbn in G. lia.
  - destruct H as (_ & A).
    assert (G : forall l, (fix all (l : list node) : Prop := match l with [] => True | x :: r => node_ok (S d) x /\ all r end) l ->
                          let m := (fix mx (l : list node) : nat := match l with [] => O | x :: r => Nat.max (eheight x) (mx r) end) l in
                          (0 < m -> S d + m <= 1000)%nat).
    { induction l as [|x r IHl]; intros Hl; cbn; [lia|]. destruct Hl as [Hx Hr]. specialize (IHl Hr). cbn in IHl.
      pose proof (IH x (S d) Hx). lia. }
    specialize (G kids A). cbn in G. lia.
Qed.

(* ------------------------------------------------------------------ (e) names *)

Definition label := (tagname * list attr)%type.

(* the (tag, attributes) of the ELEMENT nodes in document order; an embedded tree is opaque here (its names were
   resolved by the nested parse, to which the same theorem applies) *)
Fixpoint labels (n : node) : list label :=
  match n with
  | NElt t a kids => (t, a) :: (fix go (l : list node) : list label := match l with [] => [] | x :: r => labels x ++ go r end) kids
  | NCData kids => (fix go (l : list node) : list label := match l with [] => [] | x :: r => labels x ++ go r end) kids
  | _ => []
  end.

Lemma go_flat_map l :
  (fix go (l : list node) : list label := match l with [] => [] | x :: r => labels x ++ go r end) l = flat_map labels l.
Proof. induction l as [|x r IH]; [reflexivity|]. cbn. now rewrite IH. Qed.

Lemma labels_elt t a kids : labels (NElt t a kids) = (t, a) :: flat_map labels kids.
Proof. cbn [labels]. now rewrite go_flat_map. Qed.
Lemma labels_cdata kids : labels (NCData kids) = flat_map labels kids.
Proof. cbn [labels]. now rewrite go_flat_map. Qed.

Definition frame_labels (f : frame) : list label :=
  match f_kind f with FElt t a _ => [(t, a)] | FCData => [] end ++ flat_map labels (rev (f_rkids f)).

Fixpoint spine_labels (sp : list frame) : list label :=
  match sp with
  | [] => []
  | f :: up => spine_labels up ++ frame_labels f
  end.

Definition ctx_labels (c : ctx) : list label :=
  match c_root c with Some r => labels r | None => [] end ++ spine_labels (c_spine c).

Arguments frame_labels : simpl never.
Arguments reify : simpl never.
Arguments add_kid : simpl never.
Arguments add_text_kid : simpl never.

Lemma labels_reify f : labels (reify f) = frame_labels f.
Proof.
  unfold reify, frame_labels. destruct (f_kind f); [rewrite labels_elt|rewrite labels_cdata]; now rewrite kids_of_rev.
Qed.

Lemma frame_labels_add_kid f n : frame_labels (add_kid f n) = frame_labels f ++ labels n.
Proof.
  unfold frame_labels, add_kid. cbn. rewrite flat_map_app. cbn. now rewrite app_nil_r, app_assoc.
Qed.

Lemma frame_labels_add_text_kid f t : frame_labels (add_text_kid f t) = frame_labels f.
Proof.
  unfold add_text_kid. destruct (f_rkids f) as [|[] r] eqn:R; try (rewrite frame_labels_add_kid; cbn; now rewrite app_nil_r).
  unfold frame_labels. cbn. rewrite R. cbn. now rewrite !flat_map_app.
Qed.

Lemma frame_labels_kind f k :
  match k, f_kind f with
  | FElt t a _, FElt t' a' _ => t = t' /\ a = a'
  | FCData, FCData => True
  | _, _ => False
  end -> frame_labels (mk_frame k (f_rkids f)) = frame_labels f.
Proof. unfold frame_labels. cbn. destruct k, (f_kind f); try contradiction; [intros [-> ->]|]; reflexivity. Qed.

(* the root exists exactly once: while `current` is on the spine, tree->root is the spine's outermost frame *)
Definition one_root (c : ctx) : Prop := c_spine c <> [] -> c_root c = None.

Arguments ctx_labels : simpl never.
Arguments one_root : simpl never.

Lemma depth0 : (WBXML_MAX_NESTING_DEPTH <=? N.of_nat (@List.length frame [])) = false.
Proof. reflexivity. Qed.

Section Names.
  Variable main : list lang.
  Variable sub : bytes -> xtree + N.
  Variable input : bytes.

  Notation step := (step main sub input).
  Notation run := (run main sub input).

  Lemma go_up_labels c : one_root c -> ctx_labels (go_up c) = ctx_labels c /\ one_root (go_up c).
  Proof.
    unfold one_root, ctx_labels, go_up. intros H. destruct (c_spine c) as [|f [|p r]] eqn:E; cbn; rewrite ?E; auto.
    - rewrite H by discriminate. cbn. rewrite labels_reify, app_nil_r. split; [reflexivity|intros X; now elim X].
    - split; [|intros _; apply H; discriminate]. cbn. rewrite frame_labels_add_kid, labels_reify. now rewrite <- !app_assoc.
  Qed.

  Lemma flush_labels c : ctx_labels (flush_binary c) = ctx_labels c /\ (one_root c -> one_root (flush_binary c)).
  Proof.
    unfold ctx_labels, one_root. destruct (flush_binary_fields c) as (_ & _ & _ & R & _). rewrite R.
    unfold flush_binary. destruct (c_spine c) as [|f up] eqn:E; [rewrite E; auto|].
    destruct (f_kind f) as [[p t o nm|nm] attrs [content|]|] eqn:K; try (rewrite E; auto).
    destruct (negb (N.land o WBXML_TAG_OPTION_BINARY =? 0)); [|rewrite E; auto].
    assert (F0 : frame_labels (mk_frame (FElt (TagTok p t o nm) attrs None) (f_rkids f)) = frame_labels f).
    { apply frame_labels_kind. rewrite K. auto. }
    destruct (buffer_b64_dec content); cbn; rewrite ?frame_labels_add_text_kid, F0; (split; [reflexivity|]);
      intros H _; apply H; discriminate.
  Qed.

  Definition kind_label (k : fkind) : list label := match k with FElt t a _ => [(t, a)] | FCData => [] end.

  Lemma push_frame_labels c k err :
    one_root c ->
    ctx_labels (push_frame c (mk_frame k []) err) =
    ctx_labels c ++ match c_spine c, c_root c with [], Some _ => [] | _, _ => kind_label k end /\
    one_root (push_frame c (mk_frame k []) err).
  Proof.
    unfold one_root, ctx_labels, push_frame. intros H.
    destruct (c_spine c) as [|f up] eqn:S; [destruct (c_root c) eqn:R|]; cbn; rewrite ?S, ?R; cbn.
    - rewrite !app_nil_r. split; [reflexivity|]. intros X; now elim X.
    - assert (FK : frame_labels (mk_frame k []) = kind_label k) by (unfold frame_labels; cbn; now rewrite app_nil_r).
      rewrite FK. auto.
    - assert (FK : frame_labels (mk_frame k []) = kind_label k) by (unfold frame_labels; cbn; now rewrite app_nil_r).
      rewrite FK, <- !app_assoc. split; [reflexivity|]. intros _. apply H. discriminate.
  Qed.

  Lemma flush_error_eq c1 c :
    c_spine c1 = c_spine c -> c_error c1 = c_error c -> c_error (flush_binary c1) = c_error (flush_binary c).
  Proof.
    unfold flush_binary. intros -> E. destruct (c_spine c) as [|f up]; [exact E|].
    destruct (f_kind f) as [[p t o nm|nm] attrs [content|]|]; try exact E.
    destruct (negb (N.land o WBXML_TAG_OPTION_BINARY =? 0)); [|exact E].
    destruct (buffer_b64_dec content); cbn; [exact E|reflexivity].
  Qed.

  (* does this start-element event add an ELEMENT node, and under which language ? *)
  Definition start_accepts (c : ctx) (name : bytes) : option lang :=
    if negb (c_error c =? WBXML_OK) then None
    else if 0 <? c_skip_lvl c then None
    else
      match (match c_spine c, c_lang c with
             | [], None => search_table main None None (Some (str name))
             | _, l => l
             end) with
      | None => None
      | Some l =>
        if is_embedded_name name && negb (match c_spine c with [] => true | _ => false end) then None
        else if negb (c_error (flush_binary c) =? WBXML_OK) then None      (* the parent's cached base64 text is bad *)
        else if WBXML_MAX_NESTING_DEPTH <=? N.of_nat (List.length (c_spine c)) then None
        else match c_spine c, c_root c with
             | [], Some _ => None
             | _, _ => Some l
             end
      end.

  Definition new_labels (c : ctx) (e : event) : list label :=
    match e with
    | EvStartElement name attrs _ =>
      match start_accepts c name with
      | Some l => [(fst (resolve_tag l name), map (resolve_attr l) attrs)]
      | None => []
      end
    | _ => []
    end.

  Ltac fin := unfold ctx_labels, one_root in *; cbn; respine; cbn; rewrite ?app_nil_r;
              try (split; [reflexivity|]); auto; try (intros; discriminate); try congruence;
              try (intros; match goal with H : c_spine _ <> [] -> c_root _ = None |- _ => apply H; congruence end).

  Ltac close_tail TAIL :=
    revert TAIL; repeat match goal with |- context [if ?b then _ else _] => destruct b end;
    try match goal with |- context [c_root ?c] => destruct (c_root c) end; intros TAIL; exact TAIL.

  Theorem labels_step c e :
    one_root c -> ctx_labels (step c e) = ctx_labels c ++ new_labels c e /\ one_root (step c e).
  Proof.
    intros H. destruct e as [version encoding|dname sysid pubid| |name attrs byte_index|name byte_index|ch| | |target data]; cbn [XmlFront.step new_labels].
    - unfold on_xml_decl. brk; fin.
    - unfold on_start_doctype. brk; fin.
    - fin.
    - (* start element *)
      unfold on_start_element, start_accepts.
      destruct (negb (c_error c =? WBXML_OK)) eqn:B; [fin|].
      destruct (0 <? c_skip_lvl c); [fin|].
      (* the part after the language has been settled, for any context c1 that agrees with c on the tree *)
      assert (TAIL : forall c1 l, one_root c1 -> c_lang c1 = Some l -> c_spine c1 = c_spine c -> c_root c1 = c_root c ->
                 c_error c1 = c_error c ->
                 let r := if is_embedded_name name && negb match c_spine c1 with [] => true | _ => false end
                          then set_skip c1 (u32 (c_skip_lvl c1 + 1)) byte_index
                          else start_child (flush_binary c1) name attrs in
                 ctx_labels r = ctx_labels c1 ++
                                (if is_embedded_name name && negb match c_spine c with [] => true | _ => false end then []
                                 else if negb (c_error (flush_binary c) =? WBXML_OK) then []
                                 else if WBXML_MAX_NESTING_DEPTH <=? N.of_nat (List.length (c_spine c)) then []
                                 else match c_spine c, c_root c with
                                      | [], Some _ => []
                                      | _, _ => [(fst (resolve_tag l name), map (resolve_attr l) attrs)]
                                      end) /\ one_root r).
      { intros c1 l O1 L1 S1 R1 E1. cbv zeta. rewrite S1.
        destruct (is_embedded_name name && _); [fin|].
        destruct (flush_labels c1) as [FL FO]. specialize (FO O1).
        destruct (flush_binary_fields c1) as (FLang & _ & _ & FR & _).
        pose proof (flush_error_eq c1 c S1 E1) as FE.
        pose proof (flush_binary_spine c1) as FS. rewrite S1 in FS.
        rewrite <- FL, <- FE. set (cf := flush_binary c1) in *.
        unfold start_child.
        destruct (negb (c_error cf =? WBXML_OK)); [rewrite app_nil_r; split; [reflexivity|exact FO]|].
        assert (LN : List.length (c_spine cf) = List.length (c_spine c)).
        { destruct (c_spine c); [now rewrite FS|]. destruct FS as (f' & -> & _). reflexivity. }
        rewrite LN.
        destruct (WBXML_MAX_NESTING_DEPTH <=? _); [cbn [ctx_labels]; split; [|exact FO]; unfold ctx_labels; cbn; now rewrite app_nil_r|].
        rewrite FLang, L1.
        destruct (resolve_tag l name) as [tag page] eqn:RT.
        destruct (push_frame_labels (set_page cf page) (FElt tag (map (resolve_attr l) attrs) None) E_NOT_ENOUGH_MEMORY FO) as [A1 A2].
        split; [|exact A2]. rewrite A1. cbn [c_spine c_root set_page]. rewrite FR, R1.
        destruct (c_spine c); [rewrite FS|destruct FS as (f' & -> & _)]; reflexivity. }
      destruct (c_spine c) as [|f up] eqn:S; [destruct (c_lang c) as [l0|] eqn:L|].
      + rewrite B. specialize (TAIL c l0 H L S eq_refl eq_refl). cbv zeta in TAIL. rewrite ?S, ?L in *. cbn beta iota in *. rewrite ?S, ?L in *. close_tail TAIL.
      + destruct (search_table main None None (Some (str name))) as [l|]; [|fin].
        cbn [c_error set_lang]. rewrite B.
        assert (O1 : one_root (set_lang c (Some l))) by exact H.
        specialize (TAIL (set_lang c (Some l)) l O1 eq_refl S eq_refl eq_refl). cbv zeta in TAIL.
        cbn [c_spine c_root c_lang set_lang c_skip_lvl] in TAIL |- *. rewrite ?S in *. cbn beta iota in *. close_tail TAIL.
      + assert (C1 : match c_lang c with Some l => c | None => c end = c) by (destruct (c_lang c); reflexivity).
        rewrite ?C1, B. destruct (c_lang c) as [l|] eqn:L.
        * specialize (TAIL c l H L S eq_refl eq_refl). cbv zeta in TAIL. rewrite ?S, ?L in *. cbn beta iota in *. close_tail TAIL.
        * clear TAIL. rewrite ?S. cbn beta iota.
          destruct (is_embedded_name name && _); [fin|].
          destruct (flush_labels c) as [FL FO]. specialize (FO H). destruct (flush_binary_fields c) as (FLang & _).
          rewrite app_nil_r, <- FL. set (cf := flush_binary c) in *. unfold start_child. rewrite FLang, L.
          destruct (negb (c_error cf =? WBXML_OK)); [split; [reflexivity|exact FO]|].
          destruct (WBXML_MAX_NESTING_DEPTH <=? _); (split; [reflexivity|exact FO]).
    - (* end element *)
      unfold on_end_element. destruct (flush_labels c) as [FL FO]. specialize (FO H).
      rewrite app_nil_r. rewrite <- FL. set (cf := flush_binary c) in *. clearbody cf. clear FL H.
      assert (LV : ctx_labels (leave_current cf) = ctx_labels cf /\ one_root (leave_current cf)).
      { unfold leave_current. destruct (c_spine cf) as [|f [|p r]] eqn:S; [fin|fin|].
        destruct (is_cdata_frame f).
        - destruct (go_up_labels cf FO) as [A B]. destruct (go_up_labels _ B) as [A' B']. rewrite A', A. auto.
        - now apply go_up_labels. }
      destruct (negb (c_error cf =? WBXML_OK)); [fin|].
      destruct (0 <? c_skip_lvl cf); [|exact LV].
      destruct (c_skip_lvl cf =? 1); [|fin].
      destruct (is_embedded_name name); [|exact LV].
      destruct (c_lang cf) as [tl|]; [|fin].
      destruct (beq name n_MgmtTree && negb (l_id tl =? LANG_SYNCML12)); [fin|].
      match goal with |- context [match ?t with Some _ => _ | None => _ end] => destruct t as [id|] end; [|fin].
      destruct (get_table main id) as [el|]; [|fin].
      destruct (embedded_doc _ _ _ _ _) as [doc|]; [|fin].
      destruct (sub doc) as [t|e]; [|fin].
      destruct (c_spine cf) as [|f up] eqn:S; [destruct (c_root cf); fin|].
      unfold ctx_labels, one_root in *. cbn. rewrite S. cbn. rewrite frame_labels_add_kid. cbn. rewrite app_nil_r.
      split; [reflexivity|]. intros _. apply FO. rewrite S. discriminate.
    - (* characters *)
      unfold on_characters. rewrite app_nil_r.
      destruct (negb (c_error c =? WBXML_OK)); [fin|].
      destruct (0 <? c_skip_lvl c); [fin|].
      destruct (syncml_data_type (c_spine c)) as [dt|]; [|fin].
      match goal with |- context [let '(ch1, want_cdata) := ?p in _] => destruct p as [ch1 want] end.
      match goal with |- context [match c_spine ?x with _ => _ end] => set (c1 := x) end.
      assert (H1 : ctx_labels c1 = ctx_labels c /\ one_root c1).
      { subst c1. destruct (c_spine c) as [|f up] eqn:S; [fin|]. destruct (want && _ && _); [|fin].
        unfold push_frame. rewrite S. unfold ctx_labels, one_root in *. cbn. rewrite S. cbn. unfold frame_labels at 1. cbn.
        rewrite app_nil_r. split; [reflexivity|]. intros _. apply H; congruence. }
      destruct H1 as [L1 O1]. rewrite <- L1. clearbody c1. clear L1 H.
      assert (AT : forall t, ctx_labels (add_text c1 t) = ctx_labels c1 /\ one_root (add_text c1 t)).
      { intros t. unfold add_text. destruct (c_spine c1) as [|f up] eqn:S; [destruct (c_root c1) eqn:R; fin|].
        unfold ctx_labels, one_root in *. cbn. rewrite S. cbn. rewrite frame_labels_add_text_kid.
        split; [reflexivity|]. intros _. apply O1; congruence. }
      destruct (c_spine c1) as [|f up] eqn:S; [apply AT|].
      destruct (is_binary_frame f); [|apply AT].
      destruct (f_kind f) as [tag at0 content|] eqn:K; [|fin].
      unfold ctx_labels, one_root in *. cbn. rewrite S. cbn.
      rewrite (frame_labels_kind f (FElt tag at0 _)) by (rewrite K; auto).
      split; [reflexivity|]. intros _. apply O1; congruence.
    - unfold on_start_cdata. rewrite app_nil_r.
      destruct (negb (c_error c =? WBXML_OK)); [fin|]. destruct (0 <? c_skip_lvl c); [fin|].
      unfold push_frame. destruct (c_spine c) as [|f up] eqn:S; [destruct (c_root c) eqn:R; fin|].
      unfold ctx_labels, one_root in *. cbn. rewrite S. cbn. unfold frame_labels at 1. cbn. rewrite app_nil_r.
      split; [reflexivity|]. intros _. apply H; congruence.
    - unfold on_end_cdata. rewrite app_nil_r.
      destruct (negb (c_error c =? WBXML_OK)); [fin|]. destruct (0 <? c_skip_lvl c); [fin|].
      destruct (c_spine c) as [|f [|p r]] eqn:S; [fin|fin|]. now apply go_up_labels.
    - fin.
  Qed.

  (* the resolutions of the accepted start-element events of a run, in order *)
  Fixpoint trace_labels (c : ctx) (evs : list event) : list label :=
    match evs with
    | [] => []
    | e :: r => new_labels c e ++ trace_labels (step c e) r
    end.

  Theorem labels_run c evs : one_root c -> ctx_labels (run c evs) = ctx_labels c ++ trace_labels c evs /\ one_root (run c evs).
  Proof.
    revert c. induction evs as [|e r IH]; intros c H; [cbn; rewrite app_nil_r; auto|].
    change (run c (e :: r)) with (run (step c e) r). destruct (labels_step c e H) as [A B].
    destruct (IH _ B) as [A' B']. split; [|exact B']. rewrite A', A. cbn. now rewrite app_assoc.
  Qed.

  (* the labels of the finished tree are the labels of the context *)
  Lemma close_spine_labels sp child :
    match close_spine child sp with
    | Some r => labels r = spine_labels sp ++ match child with Some n => labels n | None => [] end
    | None => sp = [] /\ child = None
    end.
  Proof.
    revert child. induction sp as [|f up IH]; intros child.
    - cbn. destruct child; auto.
    - cbn [close_spine spine_labels]. specialize (IH (Some (reify match child with Some n => add_kid f n | None => f end))).
      destruct (close_spine _ up); [|destruct IH; discriminate].
      rewrite IH, labels_reify. destruct child; [rewrite frame_labels_add_kid|]; now rewrite ?app_nil_r, ?app_assoc.
  Qed.

  Lemma root_of_labels c : one_root c -> match root_of c with Some r => labels r | None => [] end = ctx_labels c.
  Proof.
    unfold one_root, root_of, ctx_labels. intros H. destruct (c_spine c) as [|f up] eqn:S; [cbn; now rewrite app_nil_r|].
    rewrite H by discriminate. pose proof (close_spine_labels (f :: up) None) as X.
    destruct (close_spine None (f :: up)); [rewrite X; now rewrite app_nil_r|destruct X; discriminate].
  Qed.

  Theorem tree_from_xml_labels evs ok t :
    tree_from_xml main sub input evs ok = inl t ->
    flat_map labels (xt_roots t) = trace_labels init_ctx evs.
  Proof.
    unfold tree_from_xml. destruct input eqn:EI; [discriminate|]. rewrite <- EI. destruct ok; cbn; [|discriminate].
    destruct (negb (c_error (run init_ctx evs) =? WBXML_OK)); [discriminate|].
    intros E. injection E as <-. unfold tree_of_ctx. cbn.
    assert (O : one_root init_ctx) by (intros X; now elim X).
    destruct (labels_run init_ctx evs O) as [A B]. pose proof (root_of_labels _ B) as R.
    rewrite A in R. cbn in R. destruct (root_of (run init_ctx evs)); cbn; rewrite ?app_nil_r; exact R.
  Qed.

  (* every element of the tree comes from a start-element event of the list, resolved against a language of the tables *)
  Lemma trace_labels_in c evs lab :
    In lab (trace_labels c evs) ->
    exists name attrs idx l, In (EvStartElement name attrs idx) evs /\
                             lab = (fst (resolve_tag l name), map (resolve_attr l) attrs).
  Proof.
    revert c. induction evs as [|e r IH]; intros c H; [contradiction|].
    cbn in H. apply in_app_or in H. destruct H as [H|H].
    - destruct e; try contradiction. cbn in H. destruct (start_accepts c name) as [l|]; [|contradiction].
      destruct H as [<-|[]]. exists name, attrs, byte_index, l. split; [now left|reflexivity].
    - destruct (IH _ H) as (n & a & i & l & I1 & I2). exists n, a, i, l. split; [now right|exact I2].
  Qed.
End Names.

(* ------------------------------------------------------------------ the nesting check *)

(* the check of the start-element callback fires exactly when `current` has 999 ancestors or more (so that the new
   element would have 1000 or more): the number compared is the length of the parent chain of `current`, recomputed
   at every event — the zipper of the model has no other notion of depth *)
Lemma nesting_check_exact main sub input c name attrs idx :
  c_error c = WBXML_OK -> c_skip_lvl c = 0 -> c_spine c <> [] -> is_embedded_name name = false ->
  c_error (flush_binary c) = WBXML_OK ->          (* the parent's cached base64 text, if any, decodes *)
  (c_error (step main sub input c (EvStartElement name attrs idx)) = E_NESTING_TOO_DEEP <->
   (1000 <= List.length (c_spine c))%nat).
Proof.
  intros E K S EM FOK. cbn. unfold on_start_element. rewrite E, K. cbn [negb N.eqb WBXML_OK N.ltb N.compare].
  destruct (c_spine c) as [|f up] eqn:SP; [now elim S|]. rewrite E. cbn [negb N.eqb WBXML_OK]. rewrite EM. cbn [andb].
  pose proof (flush_binary_spine c) as FS. rewrite SP in FS. destruct FS as (f' & SP' & _).
  destruct (flush_binary_fields c) as (FL & _).
  set (cf := flush_binary c) in *.
  unfold start_child. rewrite FOK. cbn [negb N.eqb WBXML_OK]. rewrite SP'.
  change (List.length (f' :: up)) with (List.length (f :: up)).
  destruct (WBXML_MAX_NESTING_DEPTH <=? N.of_nat (List.length (f :: up))) eqn:D.
  - apply N.leb_le in D. unfold WBXML_MAX_NESTING_DEPTH in D. cbn [c_error set_error]. split; [intros _; lia|reflexivity].
  - apply N.leb_gt in D. unfold WBXML_MAX_NESTING_DEPTH in D. split; [|intros X; lia].
    destruct (c_lang cf) as [l|]; [|cbn; discriminate].
    destruct (resolve_tag l name) as [tag page]. unfold push_frame. cbn. rewrite SP'. cbn. rewrite FOK. discriminate.
Qed.

Lemma tree_ok_eheight t r : tree_ok t -> In r (xt_roots t) -> (eheight r <= 1000)%nat.
Proof.
  intros [_ F] I. rewrite Forall_forall in F. specialize (F r I).
  destruct (Nat.eq_dec (eheight r) 0) as [Z|Z]; [lia|].
  pose proof (eheight_bound r 0 F). lia.
Qed.
