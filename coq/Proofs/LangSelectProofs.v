(* C10 — language selection: generic lemmas about Model/LangSelect.v (any main table, any header),
   then the vm_compute facts over Gen/TablesData.v. *)
From Coq Require Import List NArith String Ascii Bool Lia.
From Wbxml Require Import Model.TablesDefs Model.Tables Model.Codec Model.LangSelect Model.RegistryCheck
     Gen.TablesData Proofs.RegistryProofs.
Import ListNotations.
Local Open Scope N_scope.

(* ------------------------------------------------------------------ scans with an index *)

Lemma scan_rest_fst : forall hit rest i, fst (scan_rest hit rest i) = find hit rest.
Proof.
  induction rest as [|l r IH]; intros i; cbn; [reflexivity|].
  destruct (hit l); [reflexivity | apply IH].
Qed.

Lemma scan_idx_0 : forall hit main, fst (scan_idx hit main 0) = find hit main.
Proof. intros. unfold scan_idx. cbn. apply scan_rest_fst. Qed.

Lemma scan_rest_none_idx : forall hit rest i,
  fst (scan_rest hit rest i) = None -> snd (scan_rest hit rest i) = (i + List.length rest)%nat.
Proof.
  induction rest as [|l r IH]; intros i H; cbn in *; [lia|].
  destruct (hit l); [discriminate|]. rewrite IH by assumption. lia.
Qed.

Lemma in_skipn : forall A (l : list A) n x, In x (skipn n l) -> In x l.
Proof.
  induction l as [|a l IH]; intros [|n] x H; cbn in *; auto. right. eapply IH; eassumption.
Qed.

Lemma scan_idx_some : forall hit main i l,
  fst (scan_idx hit main i) = Some l -> In l main /\ hit l = true.
Proof.
  intros hit main i l H. unfold scan_idx in H. rewrite scan_rest_fst in H.
  destruct (find_some _ _ H) as [Hin Hh]. split; [eapply in_skipn; eassumption | assumption].
Qed.

Lemma scan_idx_end : forall hit main i, (List.length main <= i)%nat -> fst (scan_idx hit main i) = None.
Proof.
  intros hit main i H. unfold scan_idx. rewrite skipn_all2 by assumption. reflexivity.
Qed.

Lemma find_in_some : forall A (f : A -> bool) l x, In x l -> f x = true -> exists y, find f l = Some y.
Proof.
  intros A f l x Hin Hf. destruct (find f l) as [y|] eqn:E; [now exists y|].
  pose proof (find_none _ _ E x Hin). congruence.
Qed.

(* ------------------------------------------------------------------ case-insensitive equality *)

Lemma strcaseeq_sym : forall a b, strcaseeq a b = strcaseeq b a.
Proof.
  induction a as [|x a IH]; intros [|y b]; cbn; try reflexivity.
  rewrite IH. f_equal. apply Ascii.eqb_sym.
Qed.

Lemma strcaseeq_trans_eq : forall a b c, strcaseeq a b = true -> strcaseeq a c = strcaseeq b c.
Proof.
  induction a as [|x a IH]; intros [|y b] [|z c] H; cbn in *; try discriminate; try reflexivity.
  apply andb_true_iff in H. destruct H as [H1 H2]. apply Ascii.eqb_eq in H1. rewrite H1.
  f_equal. now apply IH.
Qed.

Lemma first_by_pubtext_case : forall main s s', strcaseeq s s' = true ->
  first_by_pubtext main s' = first_by_pubtext main s.
Proof.
  intros main s s' H. unfold first_by_pubtext.
  induction main as [|l r IH]; cbn; [reflexivity|].
  destruct (l_pub_text l) as [p|]; [|exact IH].
  replace (strcaseeq p s') with (strcaseeq p s).
  - destruct (strcaseeq p s); [reflexivity | exact IH].
  - rewrite (strcaseeq_sym p s), (strcaseeq_sym p s'). now apply strcaseeq_trans_eq.
Qed.

(* ------------------------------------------------------------------ check_public_id *)

(* numeric public id, no forcing: the first entry carrying that id *)
Lemma numeric_id_selects : forall main h,
  h_public_id h <> WBXML_PUBLIC_ID_UNKNOWN ->
  (exists l, In l main /\ l_pub_num l = h_public_id h) ->
  check_public_id main WBXML_LANG_UNKNOWN h = first_by_pubnum main (h_public_id h).
Proof.
  intros main h Hne [l [Hin Hl]]. unfold check_public_id, first_by_pubnum.
  replace (WBXML_LANG_UNKNOWN =? WBXML_LANG_UNKNOWN) with true by reflexivity.
  apply N.eqb_neq in Hne. rewrite Hne. cbn [andb].
  destruct (scan_idx (fun l0 => l_pub_num l0 =? h_public_id h) main 0) as [r2 i2] eqn:E.
  assert (r2 = find (fun l0 => l_pub_num l0 =? h_public_id h) main) as Hr.
  { rewrite <- scan_idx_0. now rewrite E. }
  destruct (find_in_some _ (fun l0 => l_pub_num l0 =? h_public_id h) main l Hin) as [y Hy].
  { cbn. now apply N.eqb_eq. }
  rewrite Hr, Hy. reflexivity.
Qed.

(* textual public id in the string table, no forcing, numeric id "unknown" (as parse_publicid leaves it):
   the first entry whose textual id equals the string without regard to case *)
Lemma textual_id_selects : forall main h s,
  h_public_id h = WBXML_PUBLIC_ID_UNKNOWN -> h_public_id_index h <> NO_INDEX ->
  strtbl_ref h (h_public_id_index h) = Some s ->
  check_public_id main WBXML_LANG_UNKNOWN h = first_by_pubtext main s.
Proof.
  intros main h s Hp Hi Hs. unfold check_public_id, first_by_pubtext.
  replace (WBXML_LANG_UNKNOWN =? WBXML_LANG_UNKNOWN) with true by reflexivity.
  rewrite Hp. replace (WBXML_PUBLIC_ID_UNKNOWN =? WBXML_PUBLIC_ID_UNKNOWN) with true by reflexivity.
  apply N.eqb_neq in Hi. rewrite Hi. cbn [andb]. rewrite Hs.
  unfold has_pub_text_ci. rewrite scan_idx_0. reflexivity.
Qed.

(* a forced language that is registered wins, whatever the document says *)
Lemma forced_wins : forall main f h l,
  f <> WBXML_LANG_UNKNOWN -> get_table main f = Some l -> check_public_id main f h = Some l.
Proof.
  intros main f h l Hf Hg. unfold check_public_id.
  apply N.eqb_neq in Hf. rewrite Hf. cbn [andb].
  destruct (scan_idx (fun l0 => l_id l0 =? f) main 0) as [r1 i1] eqn:E.
  assert (r1 = find (fun l0 => l_id l0 =? f) main) as Hr.
  { rewrite <- scan_idx_0. now rewrite E. }
  unfold get_table in Hg. rewrite Hg in Hr. now rewrite Hr.
Qed.

(* a forced language that is not registered: nothing is selected (the shared index is already at the end
   of the table when the numeric and textual scans start) — an error, never a guess *)
Lemma forced_unregistered : forall main f h,
  f <> WBXML_LANG_UNKNOWN -> get_table main f = None -> check_public_id main f h = None.
Proof.
  intros main f h Hf Hg. unfold check_public_id.
  apply N.eqb_neq in Hf. rewrite Hf. cbn [andb].
  destruct (scan_idx (fun l0 => l_id l0 =? f) main 0) as [r1 i1] eqn:E.
  assert (r1 = None) as Hr.
  { replace r1 with (fst (scan_idx (fun l0 => l_id l0 =? f) main 0)) by now rewrite E.
    rewrite scan_idx_0. exact Hg. }
  assert (i1 = List.length main) as Hi.
  { replace i1 with (snd (scan_idx (fun l0 => l_id l0 =? f) main 0)) by now rewrite E.
    unfold scan_idx. cbn [skipn]. rewrite scan_rest_none_idx; [lia|].
    rewrite scan_rest_fst. exact Hg. }
  subst r1 i1.
  destruct (h_public_id h =? WBXML_PUBLIC_ID_UNKNOWN).
  - destruct (h_public_id_index h =? NO_INDEX); [reflexivity|].
    destruct (strtbl_ref h (h_public_id_index h)); [|reflexivity].
    apply scan_idx_end. lia.
  - destruct (scan_idx (fun l0 => l_pub_num l0 =? h_public_id h) main (List.length main)) as [r2 i2] eqn:E2.
    assert (r2 = None) as Hr2.
    { replace r2 with (fst (scan_idx (fun l0 => l_pub_num l0 =? h_public_id h) main (List.length main))) by now rewrite E2.
      apply scan_idx_end. lia. }
    assert (i2 = List.length main) as Hi2.
    { replace i2 with (snd (scan_idx (fun l0 => l_pub_num l0 =? h_public_id h) main (List.length main))) by now rewrite E2.
      unfold scan_idx. rewrite skipn_all. reflexivity. }
    subst r2 i2.
    destruct (h_public_id_index h =? NO_INDEX); [reflexivity|].
    destruct (strtbl_ref h (h_public_id_index h)); [|reflexivity].
    apply scan_idx_end. lia.
Qed.

(* nothing usable and no forcing: rejected *)
Lemma no_id_rejected : forall main h,
  h_public_id h = WBXML_PUBLIC_ID_UNKNOWN -> h_public_id_index h = NO_INDEX ->
  check_public_id main WBXML_LANG_UNKNOWN h = None.
Proof.
  intros main h Hp Hi. unfold check_public_id. rewrite Hp, Hi. reflexivity.
Qed.

(* whatever is selected matches an identifier the caller or the document supplied: never a guess *)
Definition justified (main : list lang) (f : N) (h : header) (l : lang) : Prop :=
  In l main /\
  ((f <> WBXML_LANG_UNKNOWN /\ l_id l = f) \/
   (h_public_id h <> WBXML_PUBLIC_ID_UNKNOWN /\ l_pub_num l = h_public_id h) \/
   (h_public_id_index h <> NO_INDEX /\
    exists s p, strtbl_ref h (h_public_id_index h) = Some s /\ l_pub_text l = Some p /\ strcaseeq p s = true)).

Lemma never_guessed : forall main f h l, check_public_id main f h = Some l -> justified main f h l.
Proof.
  intros main f h l H. unfold check_public_id in H.
  destruct ((f =? WBXML_LANG_UNKNOWN) && (h_public_id h =? WBXML_PUBLIC_ID_UNKNOWN) && (h_public_id_index h =? NO_INDEX)); [discriminate|].
  destruct (f =? WBXML_LANG_UNKNOWN) eqn:Ef.
  - (* not forced *)
    destruct (h_public_id h =? WBXML_PUBLIC_ID_UNKNOWN) eqn:Ep.
    + destruct (h_public_id_index h =? NO_INDEX) eqn:Ei; [discriminate|].
      destruct (strtbl_ref h (h_public_id_index h)) as [s|] eqn:Es; [|discriminate].
      destruct (scan_idx_some _ _ _ _ H) as [Hin Hh]. unfold has_pub_text_ci in Hh.
      destruct (l_pub_text l) as [p|] eqn:Et; [|discriminate].
      split; [assumption|]. right. right. apply N.eqb_neq in Ei. split; [assumption|]. now exists s, p.
    + destruct (scan_idx (fun l0 => l_pub_num l0 =? h_public_id h) main 0) as [r2 i2] eqn:E2.
      destruct r2 as [l2|].
      * injection H as <-.
        assert (fst (scan_idx (fun l0 => l_pub_num l0 =? h_public_id h) main 0) = Some l2) as Hs by now rewrite E2.
        destruct (scan_idx_some _ _ _ _ Hs) as [Hin Hh]. cbn in Hh. apply N.eqb_eq in Hh. apply N.eqb_neq in Ep.
        split; [assumption|]. right. left. auto.
      * destruct (h_public_id_index h =? NO_INDEX) eqn:Ei; [discriminate|].
        destruct (strtbl_ref h (h_public_id_index h)) as [s|] eqn:Es; [|discriminate].
        destruct (scan_idx_some _ _ _ _ H) as [Hin Hh]. unfold has_pub_text_ci in Hh.
        destruct (l_pub_text l) as [p|] eqn:Et; [|discriminate].
        split; [assumption|]. right. right. apply N.eqb_neq in Ei. split; [assumption|]. now exists s, p.
  - (* forced *)
    destruct (scan_idx (fun l0 => l_id l0 =? f) main 0) as [r1 i1] eqn:E1.
    destruct r1 as [l1|].
    + injection H as <-.
      assert (fst (scan_idx (fun l0 => l_id l0 =? f) main 0) = Some l1) as Hs by now rewrite E1.
      destruct (scan_idx_some _ _ _ _ Hs) as [Hin Hh]. cbn in Hh. apply N.eqb_eq in Hh. apply N.eqb_neq in Ef.
      split; [assumption|]. left. auto.
    + destruct (h_public_id h =? WBXML_PUBLIC_ID_UNKNOWN) eqn:Ep.
      * destruct (h_public_id_index h =? NO_INDEX) eqn:Ei; [discriminate|].
        destruct (strtbl_ref h (h_public_id_index h)) as [s|] eqn:Es; [|discriminate].
        destruct (scan_idx_some _ _ _ _ H) as [Hin Hh]. unfold has_pub_text_ci in Hh.
        destruct (l_pub_text l) as [p|] eqn:Et; [|discriminate].
        split; [assumption|]. right. right. apply N.eqb_neq in Ei. split; [assumption|]. now exists s, p.
      * destruct (scan_idx (fun l0 => l_pub_num l0 =? h_public_id h) main i1) as [r2 i2] eqn:E2.
        destruct r2 as [l2|].
        -- injection H as <-.
           assert (fst (scan_idx (fun l0 => l_pub_num l0 =? h_public_id h) main i1) = Some l2) as Hs by now rewrite E2.
           destruct (scan_idx_some _ _ _ _ Hs) as [Hin Hh]. cbn in Hh. apply N.eqb_eq in Hh. apply N.eqb_neq in Ep.
           split; [assumption|]. right. left. auto.
        -- destruct (h_public_id_index h =? NO_INDEX) eqn:Ei; [discriminate|].
           destruct (strtbl_ref h (h_public_id_index h)) as [s|] eqn:Es; [|discriminate].
           destruct (scan_idx_some _ _ _ _ H) as [Hin Hh]. unfold has_pub_text_ci in Hh.
           destruct (l_pub_text l) as [p|] eqn:Et; [|discriminate].
           split; [assumption|]. right. right. apply N.eqb_neq in Ei. split; [assumption|]. now exists s, p.
Qed.

(* ------------------------------------------------------------------ document level *)

Lemma select_lang_unfold : forall main f meta doc h,
  parse_header main f meta doc = POk h ->
  select_lang main f meta doc = match check_public_id main f h with Some l => POk l | None => PErr P_UNKNOWN_PUBLIC_ID end.
Proof. intros. unfold select_lang. now rewrite H. Qed.

Lemma select_lang_ok_inv : forall main f meta doc l,
  select_lang main f meta doc = POk l ->
  exists h, parse_header main f meta doc = POk h /\ check_public_id main f h = Some l.
Proof.
  intros main f meta doc l H. unfold select_lang in H.
  destruct (parse_header main f meta doc) as [h|e]; [|discriminate].
  exists h. split; [reflexivity|]. destruct (check_public_id main f h); [now injection H as -> | discriminate].
Qed.

(* ------------------------------------------------------------------ facts over the regenerated main table *)
From Wbxml Require Import Model.LangSelectCheck.

Lemma firsts_ok_main : forallb (firsts_ok main_table) main_table = true.
Proof. vm_compute. reflexivity. Qed.

Lemma ids_unique_main : ids_unique main_table = true.
Proof. vm_compute. reflexivity. Qed.

Lemma routes_ok_main : forallb (fun l => wbxml_routes_ok main_table l && xml_routes_ok main_table l) main_table = true.
Proof. vm_compute. reflexivity. Qed.

Lemma shared_identifiers_main : shared_identifiers main_table = pinned_shared_identifiers.
Proof. vm_compute. reflexivity. Qed.

Lemma id_is_sound : forall o l, id_is o l = true -> exists l', o = Some l' /\ l_id l' = l_id l.
Proof.
  intros [l'|] l H; unfold id_is in H; cbn in H; [|discriminate].
  apply N.eqb_eq in H. now exists l'.
Qed.

Lemma main_numeric_first : forall l, In l main_table -> l_pub_num l <> WBXML_PUBLIC_ID_UNKNOWN ->
  exists l', first_by_pubnum main_table (l_pub_num l) = Some l' /\ l_id l' = l_id l.
Proof.
  intros l Hin Hne. pose proof (proj1 (forallb_forall _ _) firsts_ok_main l Hin) as H. unfold firsts_ok in H.
  apply andb_true_iff in H. destruct H as [H _]. apply andb_true_iff in H. destruct H as [H _].
  apply orb_true_iff in H. destruct H as [H|H]; [apply N.eqb_eq in H; contradiction|]. now apply id_is_sound.
Qed.

Lemma main_textual_first : forall l s, In l main_table -> l_pub_text l = Some s ->
  exists l', first_by_pubtext main_table s = Some l' /\ l_id l' = l_id l.
Proof.
  intros l s Hin Hs. pose proof (proj1 (forallb_forall _ _) firsts_ok_main l Hin) as H. unfold firsts_ok in H.
  apply andb_true_iff in H. destruct H as [H _]. apply andb_true_iff in H. destruct H as [_ H].
  rewrite Hs in H. now apply id_is_sound.
Qed.

Lemma main_numeric_id_selects : forall l, In l main_table -> l_pub_num l <> WBXML_PUBLIC_ID_UNKNOWN ->
  forall h, h_public_id h = l_pub_num l ->
  exists l', check_public_id main_table WBXML_LANG_UNKNOWN h = Some l' /\ l_id l' = l_id l.
Proof.
  intros l Hin Hne h Hh. destruct (main_numeric_first l Hin Hne) as [l' [Hf Hid]].
  exists l'. split; [|assumption]. rewrite numeric_id_selects.
  - now rewrite Hh.
  - now rewrite Hh.
  - exists l. auto.
Qed.

Lemma main_textual_id_selects : forall l s, In l main_table -> l_pub_text l = Some s ->
  forall h s', h_public_id h = WBXML_PUBLIC_ID_UNKNOWN -> h_public_id_index h <> NO_INDEX ->
  strtbl_ref h (h_public_id_index h) = Some s' -> strcaseeq s s' = true ->
  exists l', check_public_id main_table WBXML_LANG_UNKNOWN h = Some l' /\ l_id l' = l_id l.
Proof.
  intros l s Hin Hs h s' Hp Hi Hr Hc. destruct (main_textual_first l s Hin Hs) as [l' [Hf Hid]].
  exists l'. split; [|assumption].
  rewrite (textual_id_selects _ _ _ Hp Hi Hr). now rewrite (first_by_pubtext_case _ _ _ Hc).
Qed.
