(* C02 (front end) — proofs about Model/XmlFront.v, part 4: the marker E_UB_NULL (the C would dereference a NULL
   pointer: possible only when a CDATA section precedes the root element, which Expat never reports) is not reached on
   event lists of the shape Expat delivers: prolog, root element with well-bracketed content, epilog. *)
From Coq Require Import List NArith Lia Bool.
From Wbxml Require Import Model.TablesDefs Model.Tables Model.Codec Model.LangSelect Model.EncWbxml Model.XmlFront.
From Wbxml Require Import Proofs.XmlFrontProofs Proofs.XmlFrontBalance.
Import ListNotations.
Local Open Scope N_scope.

(* the outermost frame (the root) is an ELEMENT *)
Fixpoint bottom_elt (sp : list frame) : Prop :=
  match sp with
  | [] => True
  | f :: up => match up with [] => is_cdata_frame f = false | _ :: _ => bottom_elt up end
  end.

Lemma bottom_head f f' up : is_cdata_frame f' = is_cdata_frame f -> bottom_elt (f :: up) -> bottom_elt (f' :: up).
Proof. cbn. destruct up; [intros ->; auto|auto]. Qed.

Lemma bottom_pop f p p' rest : is_cdata_frame p' = is_cdata_frame p -> bottom_elt (f :: p :: rest) -> bottom_elt (p' :: rest).
Proof. intros H B. apply (bottom_head p p' rest H). exact B. Qed.

Definition lang_set (c : ctx) : Prop := c_lang c <> None.

Definition J (c : ctx) : Prop :=
  c_error c <> E_UB_NULL /\
  (c_spine c <> [] -> lang_set c /\ bottom_elt (c_spine c)) /\
  (0 < c_skip_lvl c -> lang_set c).

Lemma J_ext c c' :
  c_error c' = c_error c -> c_spine c' = c_spine c -> c_lang c' = c_lang c -> c_skip_lvl c' = c_skip_lvl c -> J c -> J c'.
Proof. unfold J, lang_set. intros -> -> -> ->. auto. Qed.

Lemma data_type_none sp : syncml_data_type sp = None -> exists f0, sp = [f0] /\ is_cdata_frame f0 = true.
Proof.
  unfold syncml_data_type. destruct sp as [|f0 up0]; [discriminate|].
  destruct (is_cdata_frame f0) eqn:CD.
  - destruct up0 as [|fN up]; [intros _; exists f0; auto|].
    destruct (f_kind fN); [|discriminate]. destruct (beq _ s_Data); [|discriminate].
    repeat match goal with |- context [match ?x with _ => _ end] => destruct x end; discriminate.
  - destruct (f_kind f0); [|discriminate]. destruct (beq _ s_Data); [|discriminate].
    repeat match goal with |- context [match ?x with _ => _ end] => destruct x end; discriminate.
Qed.

Lemma add_kid_cdata f n : is_cdata_frame (add_kid f n) = is_cdata_frame f.
Proof. reflexivity. Qed.
Lemma add_text_kid_cdata f t : is_cdata_frame (add_text_kid f t) = is_cdata_frame f.
Proof. unfold add_text_kid. destruct (f_rkids f) as [|[] ?]; reflexivity. Qed.

Section U.
  Variable main : list lang.
  Variable sub : bytes -> xtree + N.
  Variable input : bytes.
  Hypothesis sub_no_ub : forall d, sub d <> inr E_UB_NULL.
  Hypothesis sub_inr_nonzero : forall d, sub d <> inr WBXML_OK.

  Notation step := (step main sub input).
  Notation run := (run main sub input).

  Lemma J_go_up c : J c -> J (go_up c).
  Proof.
    intros (E & S & K). destruct (go_up_fields c) as (GE & GK & _ & GL).
    unfold J, lang_set in *. rewrite GE, GK, GL. split; [exact E|]. split; [|exact K].
    unfold go_up. destruct (c_spine c) as [|f [|p rest]] eqn:SP; cbn; [rewrite SP; exact S|intros X; now elim X|].
    intros _. destruct (S ltac:(discriminate)) as [L B]. split; [exact L|].
    apply (bottom_pop f p _ rest (add_kid_cdata p (reify f)) B).
  Qed.

  Lemma J_flush c : J c -> J (flush_binary c).
  Proof.
    intros (E & S & K). destruct (flush_binary_fields c) as (FL & _ & _ & _ & FK & _ & FE).
    pose proof (flush_binary_spine c) as FS.
    unfold J, lang_set in *. rewrite FL, FK. split; [destruct FE as [X|X]; rewrite X; [exact E|discriminate]|]. split; [|exact K].
    destruct (c_spine c) as [|f up] eqn:SP; [rewrite FS; intros X; now elim X|].
    destruct FS as (f' & -> & CD & _). intros _. destruct (S ltac:(discriminate)) as [L B]. split; [exact L|].
    exact (bottom_head f f' up CD B).
  Qed.

  Lemma J_leave c : J c -> J (leave_current c).
  Proof.
    intros H. unfold leave_current. destruct (c_spine c) as [|f [|p r]] eqn:SP.
    - destruct H as (E & S & K). unfold J, lang_set in *. cbn. rewrite SP. split; [discriminate|]. split; [intros X; now elim X|exact K].
    - exact H.
    - destruct (is_cdata_frame f); repeat apply J_go_up; exact H.
  Qed.

  Ltac jf :=
    unfold J, lang_set in *; repeat match goal with SP : c_spine ?c = _ |- _ => rewrite SP in * end; cbn [c_error c_spine c_lang c_skip_lvl c_root set_error set_spine set_lang set_skip set_page set_root set_charset] in *;
    repeat match goal with SP : c_spine ?c = _ |- _ => rewrite SP in * end;
    repeat match goal with
           | |- _ /\ _ => split
           | |- _ <> _ => fail 1
           | |- _ -> _ => intro
           end; auto; try discriminate;
    try (intros; match goal with
                 | S : _ -> _ /\ bottom_elt _ |- _ <> None => apply S; first [assumption | discriminate | congruence]
                 | S : _ -> _ /\ bottom_elt (?f :: ?up) |- bottom_elt (?g :: ?up) =>
                   apply (bottom_head f g up); [first [reflexivity | apply add_text_kid_cdata | assumption]|apply S; discriminate]
                 | S : _ -> _ /\ bottom_elt (?f :: ?up) |- bottom_elt (_ :: ?f :: ?up) =>
                   change (bottom_elt (f :: up)); apply S; discriminate
                 | S : _ -> _ /\ bottom_elt _ |- bottom_elt _ => apply S; first [assumption | discriminate | congruence]
                 | K : 0 < _ -> _ <> None |- _ <> None => apply K; first [assumption | lia]
                 end); try discriminate; try lia; try (intros X0; now elim X0); try congruence; try (exfalso; congruence).

  (* one event; a CDATA section may not start while there is no `current` (Expat reports CDATA sections only inside the
     root element) *)
  Lemma J_step c e : J c -> (c_spine c = [] -> e <> EvStartCdata) -> J (step c e).
  Proof.
    intros H NC. destruct e as [version encoding|dname sysid pubid| |name attrs byte_index|name byte_index|ch| | |target data]; cbn [XmlFront.step]; auto.
    - unfold on_xml_decl. destruct version, encoding; auto. destruct (charset_get_mib b0); auto.
    - unfold on_start_doctype. destruct (search_table _ _ _ _); auto.
      destruct H as (E & S & K). unfold J, lang_set in *. cbn. split; [exact E|]. split; [intros X; split; [discriminate|apply S; exact X]|intros; discriminate].
    - (* start element *)
      unfold on_start_element.
      destruct (negb (c_error c =? WBXML_OK)); auto.
      destruct (0 <? c_skip_lvl c) eqn:K0.
      { apply N.ltb_lt in K0. destruct H as (E & S & K). jf. }
      match goal with |- context [if negb (c_error ?x =? WBXML_OK) then _ else _] => set (c1 := x) end.
      assert (H1 : J c1 /\ (c_spine c1 = [] -> c_error c1 = WBXML_OK -> lang_set c1)).
      { subst c1. destruct (c_spine c) eqn:SP; [destruct (c_lang c) eqn:L|].
        - split; [exact H|]. intros _ _. unfold lang_set. rewrite L. discriminate.
        - destruct (search_table main None None (Some (str name))).
          + split; [|intros _ _; unfold lang_set; cbn; discriminate]. destruct H as (E & S & K). rewrite SP in *. jf.
          + split; [|cbn; intros _ X; discriminate]. destruct H as (E & S & K). rewrite SP in *. jf.
        - split; [exact H|]. rewrite SP. discriminate. }
      destruct H1 as (H1 & L1). clearbody c1.
      destruct (negb (c_error c1 =? WBXML_OK)) eqn:B1; auto.
      assert (E1 : c_error c1 = WBXML_OK) by (destruct (c_error c1 =? WBXML_OK) eqn:Q; [now apply N.eqb_eq|discriminate]).
      destruct (is_embedded_name name && negb match c_spine c1 with [] => true | _ => false end) eqn:EM.
      { apply andb_true_iff in EM. destruct EM as [_ EM]. destruct (c_spine c1) eqn:SP; [discriminate|].
        destruct H1 as (E & S & K). jf. }
      (* the cached base64 text of the parent is flushed first (since /repo c0648d3); the invariant survives it *)
      assert (HF : J (flush_binary c1) /\
                   (c_spine (flush_binary c1) = [] -> c_error (flush_binary c1) = WBXML_OK -> lang_set (flush_binary c1))).
      { split; [now apply J_flush|]. pose proof (flush_binary_spine c1) as FS. destruct (flush_binary_fields c1) as (FL & _).
        destruct (c_spine c1) eqn:SP.
        - intros _ _. unfold lang_set. rewrite FL. apply (L1 eq_refl E1).
        - destruct FS as (f' & -> & _). discriminate. }
      clear H1 L1 E1 B1 EM. destruct HF as (H1 & L1). set (cf := flush_binary c1) in *. clearbody cf. clear c1. rename cf into c1.
      unfold start_child.
      destruct (negb (c_error c1 =? WBXML_OK)) eqn:B1; auto.
      assert (E1 : c_error c1 = WBXML_OK) by (destruct (c_error c1 =? WBXML_OK) eqn:Q; [now apply N.eqb_eq|discriminate]).
      destruct (WBXML_MAX_NESTING_DEPTH <=? N.of_nat (List.length (c_spine c1))).
      { destruct H1 as (E & S & K). jf. }
      destruct (c_lang c1) as [l|] eqn:L.
      2:{ exfalso. destruct (c_spine c1) eqn:SP.
          - apply (L1 eq_refl E1). exact L.
          - destruct H1 as (_ & S & _). destruct (S ltac:(rewrite SP; discriminate)) as [X _]. apply X. exact L. }
      destruct (resolve_tag l name) as [tag page]. unfold push_frame. cbn [c_spine c_root set_page].
      destruct (c_spine c1) as [|f up] eqn:SP; [destruct (c_root c1)|].
      + destruct H1 as (E & S & K). jf.
      + destruct H1 as (E & S & K). jf. reflexivity.
      + destruct H1 as (E & S & K). jf.
    - (* end element *)
      unfold on_end_element. apply J_flush in H. set (cf := flush_binary c) in *. clearbody cf.
      destruct (negb (c_error cf =? WBXML_OK)); auto.
      destruct (0 <? c_skip_lvl cf) eqn:K0; [|now apply J_leave].
      apply N.ltb_lt in K0.
      destruct (c_skip_lvl cf =? 1) eqn:K1.
      2:{ apply N.eqb_neq in K1. destruct H as (E & S & K). jf. }
      destruct (is_embedded_name name); [|now apply J_leave].
      destruct (c_lang cf) as [tl|] eqn:L.
      2:{ exfalso. destruct H as (_ & _ & K). apply (K K0). exact L. }
      assert (SE : forall e, e <> E_UB_NULL -> J (set_error cf e)).
      { intros e He. destruct H as (E & S & K). jf. }
      destruct (beq name n_MgmtTree && negb (l_id tl =? LANG_SYNCML12)); [apply SE; discriminate|].
      match goal with |- context [match ?t with Some _ => _ | None => _ end] => destruct t as [id|] end; [|apply SE; discriminate].
      destruct (get_table main id) as [el|]; [|apply SE; discriminate].
      destruct (embedded_doc _ _ _ _ _) as [doc|]; [|apply SE; discriminate].
      destruct (sub doc) as [t|e] eqn:SB; [|apply SE; intros ->; exact (sub_no_ub doc SB)].
      destruct (c_spine cf) as [|f up] eqn:SP; [destruct (c_root cf); apply SE; discriminate|].
      destruct H as (E & S & K). jf.
    - (* characters *)
      unfold on_characters.
      destruct (negb (c_error c =? WBXML_OK)); auto.
      destruct (0 <? c_skip_lvl c); auto.
      destruct (syncml_data_type (c_spine c)) as [dt|] eqn:DT.
      2:{ exfalso. destruct (data_type_none _ DT) as (f0 & SP & CD). destruct H as (_ & S & _).
          destruct (S ltac:(rewrite SP; discriminate)) as [_ B]. rewrite SP in B. cbn in B. rewrite CD in B. discriminate. }
      match goal with |- J (let '(ch1, want_cdata) := ?p in _) => destruct p as [ch1 want] end.
      match goal with |- context [match c_spine ?x with _ => _ end] => set (c1 := x) end.
      assert (H1 : J c1).
      { subst c1. destruct (c_spine c) as [|f up] eqn:SP; auto. destruct (want && _ && _); auto.
        unfold push_frame. rewrite SP. destruct H as (E & S & K). rewrite SP in *. jf. }
      clearbody c1.
      assert (AT : forall t, J (add_text c1 t)).
      { intros t. unfold add_text. destruct (c_spine c1) as [|f up] eqn:SP; [destruct (c_root c1)|].
        - destruct H1 as (E & S & K). jf.
        - destruct H1 as (E & S & K). jf.
        - destruct H1 as (E & S & K). jf. }
      destruct (c_spine c1) as [|f up] eqn:SP; [apply AT|].
      destruct (is_binary_frame f); [|apply AT].
      destruct (f_kind f) as [tag at0 content|] eqn:KD; auto.
      assert (CDK : is_cdata_frame (mk_frame (FElt tag at0 (Some match content with Some b => b ++ ch1 | None => ch1 end)) (f_rkids f)) = is_cdata_frame f)
        by (unfold is_cdata_frame; cbn; now rewrite KD).
      destruct H1 as (E & S & K). jf.
    - (* start CDATA *)
      unfold on_start_cdata.
      destruct (negb (c_error c =? WBXML_OK)); auto. destruct (0 <? c_skip_lvl c); auto.
      unfold push_frame. destruct (c_spine c) as [|f up] eqn:SP; [exfalso; now apply (NC eq_refl)|].
      destruct H as (E & S & K). jf.
    - (* end CDATA *)
      unfold on_end_cdata.
      destruct (negb (c_error c =? WBXML_OK)); auto. destruct (0 <? c_skip_lvl c); auto.
      destruct (c_spine c) as [|f [|p r]] eqn:SP; auto.
      + destruct H as (E & S & K). jf.
      + now apply J_go_up.
  Qed.

  (* from a failed context every event keeps J *)
  Lemma J_failed_run c evs : J c -> failed c -> J (run c evs).
  Proof.
    revert c. induction evs as [|e r IH]; intros c H F; [exact H|]. rewrite run_cons.
    apply IH; [|now apply error_never_cleared_step].
    destruct (c_spine c) as [|f0 up0] eqn:SP.
    - destruct e; try (apply J_step; [exact H|intros _; discriminate]).
      (* start CDATA on a failed context returns at once *)
      cbn. unfold on_start_cdata. now rewrite (failed_eqb _ F).
    - apply J_step; [exact H|]. rewrite SP. discriminate.
  Qed.

  Lemma post_spine lvl f up c' : post lvl f up c' -> failed c' \/ c_spine c' <> [].
  Proof.
    intros [X|(_ & f' & _ & [S|(_ & _ & _ & k & S)])]; [now left| |]; right; rewrite S; discriminate.
  Qed.

  (* well-bracketed content keeps J, started with a `current` *)
  Theorem balanced_J evs :
    balanced evs -> forall c f up, c_spine c = f :: up -> J c ->
    N.of_nat (List.length evs) + c_skip_lvl c < 4294967296 -> J (run c evs).
  Proof.
    assert (SEG : forall seg r c f up, balanced seg -> c_spine c = f :: up ->
                   N.of_nat (List.length (seg ++ r)) + c_skip_lvl c < 4294967296 ->
                   J (run c seg) ->
                   (forall c1 f1 up1, c_spine c1 = f1 :: up1 -> J c1 ->
                                      N.of_nat (List.length r) + c_skip_lvl c1 < 4294967296 -> J (run c1 r)) ->
                   J (run c (seg ++ r))).
    { intros seg r c f up BS S LEN JS IHr. rewrite run_app.
      assert (LS : N.of_nat (List.length seg) + c_skip_lvl c < 4294967296) by (rewrite app_length in LEN; lia).
      pose proof (balanced_cont main sub input sub_inr_nonzero seg BS c f up S LS) as P.
      destruct (post_spine _ _ _ _ P) as [F|NE]; [now apply J_failed_run|].
      destruct P as [F|(K & _)]; [now apply J_failed_run|].
      destruct (c_spine (run c seg)) as [|f1 up1] eqn:S1; [now elim NE|].
      apply (IHr _ f1 up1 S1 JS). rewrite K. rewrite app_length in LEN. lia. }
    induction 1 as [|ch r Hr IHr|t d r Hr IHr|chs r Hc Hr IHr|n a i i' body r Hb IHb Hr IHr]; intros c f up S HJ LEN.
    - exact HJ.
    - apply (SEG [EvCharacters ch] r c f up); auto; try (now repeat constructor).
      rewrite run_cons. apply J_step; [exact HJ|rewrite S; discriminate].
    - apply (SEG [EvPi t d] r c f up); auto; try (now repeat constructor).
    - replace (EvStartCdata :: chs ++ EvEndCdata :: r) with ((EvStartCdata :: chs ++ [EvEndCdata]) ++ r) in *
        by (cbn; now rewrite <- app_assoc).
      apply (SEG _ r c f up); auto; [apply (B_cdata chs []); [exact Hc|constructor]|].
      rewrite run_cons, run_app, run_cons. cbn [XmlFront.run fold_left].
      apply J_step; [|intros _; discriminate].
      (* text events inside: from a context that is failed or has a `current` *)
      assert (G : forall chs c0, Forall is_chars chs -> J c0 -> (failed c0 \/ c_spine c0 <> []) -> J (run c0 chs)).
      { induction chs0 as [|e r0 IH0]; intros c0 F0 J0 D0; [exact J0|].
        inversion F0; subst. destruct e; try contradiction. rewrite run_cons.
        destruct D0 as [F|NE]; [apply J_failed_run; [apply J_step; [exact J0|intros _; discriminate]|now apply error_never_cleared_step]|].
        destruct (c_spine c0) as [|f0 up0] eqn:S0; [now elim NE|].
        apply IH0; [assumption|apply J_step; [exact J0|intros _; discriminate]|].
        exact (post_spine _ _ _ _ (chars_step main sub input c0 f0 up0 ch S0)). }
      apply G; [exact Hc|apply J_step; [exact HJ|rewrite S; discriminate]|].
      (* after the start of the section *)
      cbn. unfold on_start_cdata. destruct (negb (c_error c =? WBXML_OK)) eqn:B; [left|right].
      + unfold failed. destruct (c_error c =? WBXML_OK) eqn:Q; [discriminate|]. now apply N.eqb_neq.
      + destruct (0 <? c_skip_lvl c); [rewrite S; discriminate|]. unfold push_frame. rewrite S. cbn. discriminate.
    - replace (EvStartElement n a i :: body ++ EvEndElement n i' :: r) with ((EvStartElement n a i :: body ++ [EvEndElement n i']) ++ r) in *
        by (cbn; now rewrite <- app_assoc).
      apply (SEG _ r c f up); auto; [apply (B_elt n a i i' body []); [exact Hb|constructor]|].
      rewrite run_cons, run_app, run_cons. cbn [XmlFront.run fold_left].
      apply J_step; [|intros _; discriminate].
      set (c1 := step c (EvStartElement n a i)).
      assert (J1 : J c1) by (apply J_step; [exact HJ|rewrite S; discriminate]).
      (* after the start tag: failed, or there is a `current`, and the skip level grew by at most one *)
      assert (D1 : failed c1 \/ (exists f1 up1, c_spine c1 = f1 :: up1) /\ c_skip_lvl c1 <= c_skip_lvl c + 1).
      { subst c1. cbn. unfold on_start_element.
        destruct (negb (c_error c =? WBXML_OK)) eqn:B.
        { left. unfold failed. destruct (c_error c =? WBXML_OK) eqn:Q; [discriminate|]. now apply N.eqb_neq. }
        destruct (0 <? c_skip_lvl c).
        { right. cbn. split; [rewrite S; eauto|]. unfold u32. pose proof (N.mod_le (c_skip_lvl c + 1) 4294967296). lia. }
        rewrite S. cbn match. rewrite B.
        destruct (is_embedded_name n && _).
        { right. cbn. split; [rewrite S; eauto|]. unfold u32. pose proof (N.mod_le (c_skip_lvl c + 1) 4294967296). lia. }
        pose proof (flush_binary_spine c) as FS. rewrite S in FS. destruct FS as (f' & S' & _).
        destruct (flush_binary_fields c) as (_ & _ & _ & _ & FK & _).
        set (cf := flush_binary c) in *. unfold start_child.
        destruct (negb (c_error cf =? WBXML_OK)) eqn:B2.
        { left. unfold failed. destruct (c_error cf =? WBXML_OK) eqn:Q; [discriminate|]. now apply N.eqb_neq. }
        destruct (WBXML_MAX_NESTING_DEPTH <=? _); [left; unfold failed; cbn; discriminate|].
        destruct (c_lang cf); [|left; unfold failed; cbn; discriminate].
        destruct (resolve_tag l n). unfold push_frame. cbn. rewrite S'. right. cbn. split; [eauto|lia]. }
      destruct D1 as [F|((f1 & up1 & S1) & K1)]; [now apply J_failed_run|].
      apply (IHb c1 f1 up1 S1 J1).
      rewrite !app_length in LEN. cbn [List.length] in LEN. rewrite app_length in LEN. cbn [List.length] in LEN. lia.
  Qed.

  (* a whole document never reaches the NULL dereferences *)
  Theorem document_no_ub prolog root attrs i i' body epilog :
    Forall prolog_any prolog -> balanced body -> Forall is_pi epilog ->
    N.of_nat (List.length body) + 1 < 4294967296 ->
    c_error (run init_ctx (prolog ++ EvStartElement root attrs i :: body ++ EvEndElement root i' :: epilog)) <> E_UB_NULL.
  Proof.
    intros FP HB FE LEN. rewrite run_app, run_cons, run_app, run_cons, (pi_run main sub input _ epilog FE).
    destruct (prolog_any_run main sub input init_ctx prolog FP) as (S0 & R0 & E0 & K0). cbn in S0, R0, E0, K0.
    set (c0 := run init_ctx prolog) in *.
    assert (J0 : J c0).
    { unfold J, lang_set. rewrite E0, S0, K0. split; [discriminate|]. split; [intros X; now elim X|intros X; lia]. }
    set (c1 := step c0 (EvStartElement root attrs i)).
    assert (J1 : J c1) by (apply J_step; [exact J0|intros _; discriminate]).
    assert (D1 : failed c1 \/ (exists f1, c_spine c1 = [f1]) /\ c_skip_lvl c1 = 0).
    { subst c1. cbn. unfold on_start_element. rewrite E0, K0, S0. cbn [negb N.eqb WBXML_OK N.ltb N.compare].
      match goal with |- context [if negb (c_error ?x =? WBXML_OK) then _ else _] => set (c' := x) end.
      assert (H' : failed c' \/ (c_error c' = WBXML_OK /\ c_spine c' = [] /\ c_root c' = None /\ c_skip_lvl c' = 0)).
      { subst c'. destruct (c_lang c0); [right; auto|]. destruct (search_table _ _ _ _); [right; cbn; auto|left; unfold failed; cbn; discriminate]. }
      destruct H' as [F|(E' & S' & R' & K')]; [left; now rewrite (failed_eqb _ F)|].
      rewrite E', S'. cbn [negb N.eqb WBXML_OK]. rewrite andb_false_r.
      assert (FN : flush_binary c' = c') by (unfold flush_binary; now rewrite S').
      rewrite FN. unfold start_child. rewrite E', S'. cbn [negb N.eqb WBXML_OK List.length N.of_nat].
      change (WBXML_MAX_NESTING_DEPTH <=? 0) with false. cbv iota.
      destruct (c_lang c'); [|left; unfold failed; cbn; discriminate].
      destruct (resolve_tag l root). unfold push_frame. cbn. rewrite S', R'. right. cbn. split; [eauto|exact K']. }
    destruct D1 as [F|((f1 & S1) & K1)].
    { assert (X : J (step (run c1 body) (EvEndElement root i'))) by (apply J_step; [now apply J_failed_run|intros _; discriminate]).
      apply X. }
    assert (J2 : J (run c1 body)) by (apply (balanced_J body HB c1 f1 [] S1 J1); rewrite K1; lia).
    assert (X : J (step (run c1 body) (EvEndElement root i'))) by (apply J_step; [exact J2|intros _; discriminate]).
    apply X.
  Qed.
End U.
