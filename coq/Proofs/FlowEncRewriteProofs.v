(* C17 — the in-place rewrite of text nodes: encoding the rewritten value again in the same encoder state gives the
   same bytes and state (so a tree may be encoded twice with the same options), but NOT in another state. *)
From Coq Require Import List NArith Bool Lia.
From Wbxml Require Import Model.Codec Model.EncWbxml Model.FlowEncRewrite.
Import ListNotations.
Local Open Scope N_scope.

Lemma frev_rev b : frev b = rev b.
Proof. unfold frev. rewrite rev_append_rev, app_nil_r. reflexivity. Qed.

Lemma drop_ws_idem b : drop_ws (drop_ws b) = drop_ws b.
Proof.
  induction b as [|c r IH]; [reflexivity|]. cbn [drop_ws]. destruct (isspace c) eqn:E; [exact IH|].
  cbn [drop_ws]. rewrite E. reflexivity.
Qed.

Lemma drop_ws_head b : drop_ws b = [] \/ exists x t, drop_ws b = x :: t /\ isspace x = false.
Proof.
  induction b as [|c r IH]; [left; reflexivity|]. cbn [drop_ws]. destruct (isspace c) eqn:E; [exact IH|].
  right. exists c, r. split; [reflexivity | exact E].
Qed.

Lemma drop_ws_snoc x c : isspace c = false -> exists y, drop_ws (x ++ [c]) = y ++ [c].
Proof.
  intros Hc. induction x as [|a x IH]; cbn [app drop_ws].
  - rewrite Hc. exists []. reflexivity.
  - destruct (isspace a); [exact IH|]. exists (a :: x). reflexivity.
Qed.

Lemma only_ws_drop b : only_ws b = false -> drop_ws b <> [].
Proof.
  unfold only_ws. induction b as [|c r IH]; cbn [forallb drop_ws]; [discriminate|].
  destruct (isspace c); cbn [andb]; [exact IH | discriminate].
Qed.

(* the stripped text is empty, or starts with a non-blank and is a fixed point of the stripping *)
Lemma strip_cases b :
  (drop_ws b = [] /\ strip_blanks b = []) \/
  (exists x t, strip_blanks b = x :: t /\ isspace x = false /\ strip_blanks (x :: t) = x :: t).
Proof.
  unfold strip_blanks. rewrite !frev_rev.
  destruct (drop_ws_head b) as [E | (x & t & E & Hx)]; rewrite E.
  - left. split; reflexivity.
  - right. cbn [rev]. destruct (drop_ws_snoc (rev t) x Hx) as [y Hy]. rewrite Hy, rev_app_distr. cbn [rev app].
    exists x, (rev y). split; [reflexivity|]. split; [exact Hx|].
    rewrite !frev_rev. cbn [drop_ws]. rewrite Hx. cbn [rev]. rewrite rev_involutive.
    rewrite <- Hy, drop_ws_idem, Hy, rev_app_distr. reflexivity.
Qed.

Lemma strip_idem b : strip_blanks (strip_blanks b) = strip_blanks b.
Proof. destruct (strip_cases b) as [[_ E] | (x & t & E & _ & F)]; rewrite E; [reflexivity | exact F]. Qed.

Lemma strip_not_ws b : only_ws b = false -> only_ws (strip_blanks b) = false.
Proof.
  intros H. destruct (strip_cases b) as [[E _] | (x & t & E & Hx & _)].
  - destruct (only_ws_drop b H E).
  - rewrite E. unfold only_ws. cbn [forallb]. rewrite Hx. reflexivity.
Qed.

(* encoding the rewritten text again, in the same encoder state, gives the same bytes and the same state, and
   rewrites nothing more *)
Theorem reencode_same_state e st parent c :
  enc_text e st parent (text_after e st parent c) = enc_text e st parent c /\
  text_after e st parent (text_after e st parent c) = text_after e st parent c.
Proof.
  unfold enc_text, text_after.
  destruct (is_binary_tag st parent); [split; reflexivity|].
  destruct (in_cdata st) eqn:Ei; cbn [negb andb].
  - destruct (cdata st) as [d|]; [|split; reflexivity].
    destruct (is_syncml (e_lang e)); cbn [andb]; [|split; reflexivity].
    destruct (beq c [10]) eqn:Eb; [|rewrite Eb; split; reflexivity]. split; reflexivity.
  - destruct (e_ignore_empty e) eqn:Eg; cbn [andb].
    + destruct (only_ws c) eqn:Eo; [rewrite Eo; split; reflexivity|].
      destruct (e_remove_blanks e); [|rewrite Eo; split; reflexivity].
      rewrite (strip_not_ws c Eo), strip_idem. split; reflexivity.
    + destruct (e_remove_blanks e); [|split; reflexivity]. rewrite strip_idem. split; reflexivity.
Qed.
