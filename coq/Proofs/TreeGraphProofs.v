(* C18 — lemmas about Model/TreeGraph.v *)
From Coq Require Import List NArith Bool Lia Permutation.
From Wbxml Require Import Model.TreeGraph.
Import ListNotations.
Local Open Scope N_scope.

Arguments N.add : simpl never.
Arguments N.eqb : simpl never.

(* ------------------------------------------------------------------ *)
(* generalities                                                        *)

Lemma rt_ind' (P : rt -> Prop) :
  (forall i d cs, Forall P cs -> P (R i d cs)) -> forall t, P t.
Proof.
  intros H. fix IH 1. intros [i d cs]. apply H.
  induction cs as [|c cs IHcs]; constructor; [apply IH | exact IHcs].
Qed.

Lemma NoDup_app_iff {A} (l l' : list A) :
  NoDup (l ++ l') <-> NoDup l /\ NoDup l' /\ (forall x, In x l -> ~ In x l').
Proof.
  induction l as [|a l IH]; simpl.
  - split; [intros H; repeat split; [constructor | exact H | tauto] | tauto].
  - split.
    + intros H. inversion H as [|? ? Hn Hd]; subst. apply IH in Hd as (H1 & H2 & H3).
      repeat split; [constructor; [intro; apply Hn, in_or_app; tauto | exact H1] | exact H2 |].
      intros x [->|Hx]; [intro; apply Hn, in_or_app; tauto | apply H3, Hx].
    + intros (H1 & H2 & H3). inversion H1 as [|? ? Hn Hd]; subst. constructor.
      * intro Hin. apply in_app_or in Hin as [Hin|Hin]; [tauto | exact (H3 a (or_introl eq_refl) Hin)].
      * apply IH. repeat split; [exact Hd | exact H2 | intros x Hx; apply H3; right; exact Hx].
Qed.

Lemma upd_same h i v : upd h i v i = v.
Proof. unfold upd. rewrite N.eqb_refl. reflexivity. Qed.

Lemma upd_other h i v j : j <> i -> upd h i v j = h j.
Proof. intros H. unfold upd. destruct (N.eqb_spec j i); [contradiction | reflexivity]. Qed.

Lemma ids_l_cons t ts : ids_l (t :: ts) = ids t ++ ids_l ts.
Proof. reflexivity. Qed.

Lemma ids_l_app a b : ids_l (a ++ b) = ids_l a ++ ids_l b.
Proof. unfold ids_l. apply flat_map_app. Qed.

Lemma ids_unfold i d cs : ids (R i d cs) = i :: ids_l cs.
Proof. reflexivity. Qed.

Lemma rid_in_ids t : In (rid t) (ids t).
Proof. destruct t; simpl; auto. Qed.

Lemma in_ids_l t ts x : In t ts -> In x (ids t) -> In x (ids_l ts).
Proof. intros. unfold ids_l. apply in_flat_map. eauto. Qed.

(* ------------------------------------------------------------------ *)
(* the representation predicate                                        *)

Definition head_or (d : option id) (l : list rt) : option id := match l with [] => d | x :: _ => Some (rid x) end.
Fixpoint last_or (d : option id) (l : list rt) : option id := match l with [] => d | x :: r => last_or (Some (rid x)) r end.

Lemma head_or_None l : head_or None l = head_id l.
Proof. destruct l; reflexivity. Qed.

Lemma rep_l_cons h par prev nxt c rest :
  rep_l h par prev nxt (c :: rest) <-> rep_t h par prev (head_or nxt rest) c /\ rep_l h par (Some (rid c)) nxt rest.
Proof. simpl. destruct rest; simpl; tauto. Qed.

Lemma rep_t_unfold h par prev nxt i d cs :
  rep_t h par prev nxt (R i d cs) <->
  h i = Some (mkN d par (head_id cs) nxt prev) /\ rep_l h (Some i) None None cs.
Proof.
  cbn [rep_t]. apply and_iff_compat_l.
  generalize (@None id) at 1 2. induction cs as [|c cs IH]; intros pv; [cbn; tauto|].
  cbn [rep_l]. split; intros [Ha Hb]; (split; [exact Ha | apply IH; exact Hb]).
Qed.

Global Opaque rep_t.

Lemma rep_l_app h par : forall l1 l2 prev nxt,
  rep_l h par prev nxt (l1 ++ l2) <-> rep_l h par prev (head_or nxt l2) l1 /\ rep_l h par (last_or prev l1) nxt l2.
Proof.
  induction l1 as [|c l1 IH]; intros l2 prev nxt.
  - simpl. tauto.
  - rewrite <- app_comm_cons, !rep_l_cons, IH. simpl last_or.
    replace (head_or nxt (l1 ++ l2)) with (head_or (head_or nxt l2) l1) by (destruct l1; reflexivity).
    tauto.
Qed.

(* frame: a heap that agrees on the identities of a forest represents it as well *)
Lemma rep_frame h h' : forall t par prev nxt,
  (forall i, In i (ids t) -> h' i = h i) -> rep_t h par prev nxt t -> rep_t h' par prev nxt t.
Proof.
  induction t as [i d cs IH] using rt_ind'. intros par prev nxt Hf.
  rewrite !rep_t_unfold. intros [H1 H2]. split.
  - rewrite Hf; [exact H1 | simpl; auto].
  - assert (Hf' : forall j, In j (ids_l cs) -> h' j = h j) by (intros; apply Hf; simpl; auto).
    clear Hf H1. revert H2 Hf'.
    assert (G : forall pa pv nx, rep_l h pa pv nx cs -> (forall j, In j (ids_l cs) -> h' j = h j) -> rep_l h' pa pv nx cs);
      [|apply G].
    induction IH as [|c cs Hc _ IHcs]; intros pa pv nx; [simpl; tauto|].
    rewrite !rep_l_cons. intros [Ha Hb] Hf'. split.
    + apply Hc; [|exact Ha]. intros; apply Hf'. rewrite ids_l_cons. apply in_or_app; auto.
    + apply IHcs; [exact Hb|]. intros; apply Hf'. rewrite ids_l_cons. apply in_or_app; auto.
Qed.

Lemma rep_l_frame h h' : forall ts par prev nxt,
  (forall i, In i (ids_l ts) -> h' i = h i) -> rep_l h par prev nxt ts -> rep_l h' par prev nxt ts.
Proof.
  induction ts as [|c ts IH]; intros par prev nxt Hf; [simpl; tauto|].
  rewrite !rep_l_cons. intros [Ha Hb]. split.
  - eapply rep_frame; [|exact Ha]. intros; apply Hf. rewrite ids_l_cons. apply in_or_app; auto.
  - apply IH; [|exact Hb]. intros; apply Hf. rewrite ids_l_cons. apply in_or_app; auto.
Qed.

(* every identity of a represented forest is allocated *)
Lemma rep_alloc h : forall t par prev nxt x, rep_t h par prev nxt t -> In x (ids t) -> h x <> None.
Proof.
  induction t as [i d cs IH] using rt_ind'. intros par prev nxt x. rewrite rep_t_unfold. intros [H1 H2] Hx.
  simpl in Hx. destruct Hx as [<-|Hx]; [rewrite H1; discriminate|].
  revert H2 Hx. clear H1.
  assert (G : forall pa pv nx, rep_l h pa pv nx cs -> In x (ids_l cs) -> h x <> None); [|apply G].
  induction IH as [|c cs Hc _ IHcs]; intros pa pv nx; [simpl; tauto|].
  rewrite rep_l_cons, ids_l_cons. intros [Ha Hb] Hx. apply in_app_or in Hx as [Hx|Hx];
    [eapply Hc; eassumption | eapply IHcs; eassumption].
Qed.

Lemma rep_l_alloc h : forall ts par prev nxt x, rep_l h par prev nxt ts -> In x (ids_l ts) -> h x <> None.
Proof.
  induction ts as [|c ts IH]; intros par prev nxt x; [simpl; tauto|].
  rewrite rep_l_cons, ids_l_cons. intros [Ha Hb] Hx. apply in_app_or in Hx as [Hx|Hx]; [eapply rep_alloc; eauto | eauto].
Qed.

(* ------------------------------------------------------------------ *)
(* replacing the sub-tree with identity p                              *)

Fixpoint replace_t (p : id) (new : rt) (t : rt) : rt :=
  match t with R i d cs => if i =? p then new else R i d (map (replace_t p new) cs) end.
Definition replace_l (p : id) (new : rt) (ts : list rt) : list rt := map (replace_t p new) ts.

(* identities of the sub-tree with identity p (every occurrence; at most one under NoDup) *)
Fixpoint sub_ids (p : id) (t : rt) : list id :=
  match t with R i d cs => if i =? p then ids t else flat_map (sub_ids p) cs end.
Definition sub_ids_l (p : id) (ts : list rt) : list id := flat_map (sub_ids p) ts.

Lemma rid_replace p new t : rid new = p -> rid (replace_t p new t) = rid t.
Proof. intros H. destruct t as [i d cs]. simpl. destruct (N.eqb_spec i p); simpl; congruence. Qed.

Lemma head_or_replace p new d l : rid new = p -> head_or d (replace_l p new l) = head_or d l.
Proof. intros H. destruct l; simpl; [reflexivity | rewrite rid_replace by exact H; reflexivity]. Qed.

Lemma sub_ids_incl p : forall t x, In x (sub_ids p t) -> In x (ids t).
Proof.
  induction t as [i d cs IH] using rt_ind'. intros x. simpl. destruct (i =? p); [tauto|].
  intros Hx. right. apply in_flat_map in Hx as (c & Hc & Hx). rewrite Forall_forall in IH.
  apply in_flat_map. exists c. split; [exact Hc | apply IH; assumption].
Qed.

Lemma sub_ids_l_incl p ts x : In x (sub_ids_l p ts) -> In x (ids_l ts).
Proof.
  unfold sub_ids_l, ids_l. intros Hx. apply in_flat_map in Hx as (c & Hc & Hx).
  apply in_flat_map. exists c. split; [exact Hc | apply sub_ids_incl with p; exact Hx].
Qed.

Lemma sub_ids_l_cons p t ts : sub_ids_l p (t :: ts) = sub_ids p t ++ sub_ids_l p ts.
Proof. reflexivity. Qed.

Section Replace.
  Variables (h h' : heap) (p : id) (new : rt).
  Hypothesis Hnew : rid new = p.
  (* whatever context p's node has in h, the new sub-tree is represented in h' in that context *)
  Hypothesis Hloc : forall par prev nxt d c, h p = Some (mkN d par c nxt prev) -> rep_t h' par prev nxt new.

  Lemma rep_replace_l_aux cs :
    Forall (fun t => forall par prev nxt, rep_t h par prev nxt t -> NoDup (ids t) ->
                     (forall i, In i (ids t) -> ~ In i (sub_ids p t) -> h' i = h i) ->
                     rep_t h' par prev nxt (replace_t p new t)) cs ->
    forall pa pv nx, rep_l h pa pv nx cs -> NoDup (ids_l cs) ->
      (forall j, In j (ids_l cs) -> ~ In j (sub_ids_l p cs) -> h' j = h j) ->
      rep_l h' pa pv nx (replace_l p new cs).
  Proof.
    intros IH. induction IH as [|c cs Hc _ IHcs]; intros pa pv nx; [simpl; tauto|].
    unfold replace_l. rewrite map_cons. fold (replace_l p new cs).
    rewrite !rep_l_cons. intros [Ha Hb] Hnd Hf. rewrite ids_l_cons, NoDup_app_iff in Hnd.
    destruct Hnd as (N1 & N2 & N3).
    rewrite head_or_replace, rid_replace by exact Hnew. split.
    - apply Hc; [exact Ha | exact N1 |]. intros i Hi Hs. apply Hf.
      + rewrite ids_l_cons. apply in_or_app. auto.
      + rewrite sub_ids_l_cons. intro Hin. apply in_app_or in Hin as [Hin|Hin]; [tauto|].
        apply sub_ids_l_incl in Hin. exact (N3 i Hi Hin).
    - apply IHcs; [exact Hb | exact N2 |]. intros j Hj Hs. apply Hf.
      + rewrite ids_l_cons. apply in_or_app. auto.
      + rewrite sub_ids_l_cons. intro Hin. apply in_app_or in Hin as [Hin|Hin]; [|tauto].
        apply sub_ids_incl in Hin. exact (N3 j Hin Hj).
  Qed.

  Lemma rep_replace_t : forall t par prev nxt, rep_t h par prev nxt t -> NoDup (ids t) ->
    (forall i, In i (ids t) -> ~ In i (sub_ids p t) -> h' i = h i) ->
    rep_t h' par prev nxt (replace_t p new t).
  Proof.
    induction t as [i d cs IH] using rt_ind'. intros par prev nxt Hr Hnd Hf.
    simpl replace_t. simpl sub_ids in Hf. destruct (N.eqb_spec i p) as [->|Hne].
    - apply rep_t_unfold in Hr as [H1 _]. eapply Hloc. exact H1.
    - rewrite rep_t_unfold in Hr. destruct Hr as [H1 H2]. rewrite ids_unfold in Hnd.
      apply NoDup_cons_iff in Hnd as [Hni Hnd'].
      apply rep_t_unfold. split.
      + rewrite Hf; [| simpl; auto | intro Hin; apply Hni; apply sub_ids_l_incl with p; exact Hin].
        rewrite H1. f_equal. f_equal. rewrite <- !head_or_None. fold (replace_l p new cs).
        symmetry. apply head_or_replace. exact Hnew.
      + apply rep_replace_l_aux; [exact IH | exact H2 | exact Hnd' |].
        intros j Hj Hs. apply Hf; [simpl; auto | exact Hs].
  Qed.

  Lemma rep_replace_l ts pa pv nx : rep_l h pa pv nx ts -> NoDup (ids_l ts) ->
      (forall j, In j (ids_l ts) -> ~ In j (sub_ids_l p ts) -> h' j = h j) ->
      rep_l h' pa pv nx (replace_l p new ts).
  Proof.
    apply rep_replace_l_aux. apply Forall_forall. intros t _. apply rep_replace_t.
  Qed.

  Lemma rep_replace_forest F : Forall (rep_t h None None None) F -> NoDup (ids_l F) ->
      (forall j, In j (ids_l F) -> ~ In j (sub_ids_l p F) -> h' j = h j) ->
      Forall (rep_t h' None None None) (replace_l p new F).
  Proof.
    induction F as [|t F IH]; intros Hr Hnd Hf; [constructor|].
    apply Forall_cons_iff in Hr as [Ht HF]. rewrite ids_l_cons, NoDup_app_iff in Hnd. destruct Hnd as (N1 & N2 & N3).
    unfold replace_l. rewrite map_cons. constructor.
    - apply rep_replace_t; [exact Ht | exact N1 |]. intros i Hi Hs. apply Hf.
      + rewrite ids_l_cons. apply in_or_app; auto.
      + rewrite sub_ids_l_cons. intro Hin. apply in_app_or in Hin as [Hin|Hin]; [tauto|].
        apply sub_ids_l_incl in Hin. exact (N3 i Hi Hin).
    - apply IH; [exact HF | exact N2 |]. intros j Hj Hs. apply Hf.
      + rewrite ids_l_cons. apply in_or_app; auto.
      + rewrite sub_ids_l_cons. intro Hin. apply in_app_or in Hin as [Hin|Hin]; [|tauto].
        apply sub_ids_incl in Hin. exact (N3 j Hin Hj).
  Qed.
End Replace.

(* ------------------------------------------------------------------ *)
(* mutual induction over trees and forests                             *)

Lemma rt_mut_ind (P : rt -> Prop) (Q : list rt -> Prop) :
  (forall i d cs, Q cs -> P (R i d cs)) -> Q [] -> (forall t ts, P t -> Q ts -> Q (t :: ts)) ->
  (forall t, P t) /\ (forall ts, Q ts).
Proof.
  intros HP HQ0 HQ.
  assert (Ht : forall t, P t).
  { fix IH 1. intros [i d cs]. apply HP. induction cs as [|c cs IHcs]; [exact HQ0 | apply HQ; [apply IH | exact IHcs]]. }
  split; [exact Ht|]. induction ts; [exact HQ0 | apply HQ; auto].
Qed.

Lemma find_t_unfold x i d cs : find_t x (R i d cs) = if i =? x then Some (R i d cs) else find_l x cs.
Proof.
  simpl. destruct (i =? x); [reflexivity|]. induction cs as [|c cs IH]; [reflexivity|].
  simpl. destruct (find_t x c); [reflexivity | exact IH].
Qed.

Lemma find_l_cons x c cs : find_l x (c :: cs) = match find_t x c with Some y => Some y | None => find_l x cs end.
Proof. reflexivity. Qed.

Global Opaque find_t.

Lemma find_none x :
  (forall t, find_t x t = None -> ~ In x (ids t)) /\ (forall ts, find_l x ts = None -> ~ In x (ids_l ts)).
Proof.
  apply rt_mut_ind.
  - intros i d cs IH. rewrite find_t_unfold, ids_unfold. destruct (N.eqb_spec i x); [discriminate|].
    intros H [Hx|Hx]; [congruence | exact (IH H Hx)].
  - simpl. tauto.
  - intros t ts IHt IHts. rewrite find_l_cons, ids_l_cons. destruct (find_t x t) eqn:E; [discriminate|].
    intros H Hx. apply in_app_or in Hx as [Hx|Hx]; [exact (IHt eq_refl Hx) | exact (IHts H Hx)].
Qed.

Lemma find_some x :
  (forall t s, find_t x t = Some s -> rid s = x /\ In x (ids t) /\ (forall y, In y (ids s) -> In y (ids t))) /\
  (forall ts s, find_l x ts = Some s -> rid s = x /\ In x (ids_l ts) /\ (forall y, In y (ids s) -> In y (ids_l ts))).
Proof.
  apply rt_mut_ind.
  - intros i d cs IH s. rewrite find_t_unfold, ids_unfold. destruct (N.eqb_spec i x) as [->|Hne].
    + intros [= <-]. simpl. auto.
    + intros H. destruct (IH s H) as (H1 & H2 & H3). simpl. auto.
  - simpl. discriminate.
  - intros t ts IHt IHts s. rewrite find_l_cons, ids_l_cons. destruct (find_t x t) eqn:E.
    + intros [= <-]. destruct (IHt r eq_refl) as (H1 & H2 & H3). repeat split; [exact H1 | apply in_or_app; auto |].
      intros; apply in_or_app; auto.
    + intros H. destruct (IHts s H) as (H1 & H2 & H3). repeat split; [exact H1 | apply in_or_app; auto |].
      intros; apply in_or_app; auto.
Qed.

Lemma find_in x :
  (forall t, In x (ids t) -> exists s, find_t x t = Some s) /\ (forall ts, In x (ids_l ts) -> exists s, find_l x ts = Some s).
Proof.
  split.
  - intros t H. destruct (find_t x t) eqn:E; [eauto|]. exfalso. exact (proj1 (find_none x) t E H).
  - intros ts H. destruct (find_l x ts) eqn:E; [eauto|]. exfalso. exact (proj2 (find_none x) ts E H).
Qed.

Lemma replace_notin p new :
  (forall t, ~ In p (ids t) -> replace_t p new t = t /\ sub_ids p t = []) /\
  (forall ts, ~ In p (ids_l ts) -> replace_l p new ts = ts /\ sub_ids_l p ts = []).
Proof.
  apply rt_mut_ind.
  - intros i d cs IH. rewrite ids_unfold. intros H. simpl. destruct (N.eqb_spec i p) as [->|Hne]; [exfalso; apply H; simpl; auto|].
    destruct IH as [H1 H2]; [intro; apply H; simpl; auto|]. fold (replace_l p new cs). fold (sub_ids_l p cs).
    rewrite H1, H2. auto.
  - auto.
  - intros t ts IHt IHts. rewrite ids_l_cons. intros H.
    destruct IHt as [H1 H2]; [intro; apply H, in_or_app; auto|].
    destruct IHts as [H3 H4]; [intro; apply H, in_or_app; auto|].
    unfold replace_l in *. rewrite map_cons, sub_ids_l_cons, H1, H2, H3. fold (sub_ids_l p ts). rewrite H4. auto.
Qed.

(* in pre-order the identities of a sub-tree are contiguous: replacing it replaces that segment *)
Lemma ids_replace_split p new :
  (forall t s, find_t p t = Some s -> NoDup (ids t) ->
     exists A B, ids t = A ++ ids s ++ B /\ ids (replace_t p new t) = A ++ ids new ++ B /\ sub_ids p t = ids s) /\
  (forall ts s, find_l p ts = Some s -> NoDup (ids_l ts) ->
     exists A B, ids_l ts = A ++ ids s ++ B /\ ids_l (replace_l p new ts) = A ++ ids new ++ B /\ sub_ids_l p ts = ids s).
Proof.
  apply rt_mut_ind.
  - intros i d cs IH s. rewrite find_t_unfold. simpl replace_t. simpl sub_ids. destruct (N.eqb_spec i p) as [->|Hne].
    + intros [= <-] _. exists [], []. rewrite !app_nil_r. auto.
    + intros H Hnd. rewrite ids_unfold in Hnd. apply NoDup_cons_iff in Hnd as [_ Hnd].
      destruct (IH s H Hnd) as (A & B & H1 & H2 & H3). exists (i :: A), B.
      rewrite !ids_unfold. fold (replace_l p new cs). fold (sub_ids_l p cs). rewrite H1, H2, H3. auto.
  - simpl. discriminate.
  - intros t ts IHt IHts s. rewrite find_l_cons, ids_l_cons. intros H Hnd.
    apply NoDup_app_iff in Hnd as (N1 & N2 & N3). unfold replace_l. rewrite map_cons. fold (replace_l p new ts).
    rewrite ids_l_cons, sub_ids_l_cons.
    destruct (find_t p t) eqn:E.
    + injection H as <-. destruct (IHt r eq_refl N1) as (A & B & H1 & H2 & H3).
      assert (Hn : ~ In p (ids_l ts)) by (apply N3; exact (proj1 (proj2 (proj1 (find_some p) t r E)))).
      destruct (proj2 (replace_notin p new) ts Hn) as [R1 R2].
      exists A, (B ++ ids_l ts). rewrite H1, H2, H3, R1, R2, app_nil_r, <- !app_assoc. auto.
    + destruct (IHts s H N2) as (A & B & H1 & H2 & H3).
      assert (Hn : ~ In p (ids t)) by (exact (proj1 (find_none p) t E)).
      destruct (proj1 (replace_notin p new) t Hn) as [R1 R2].
      exists (ids t ++ A), B. rewrite H1, H2, H3, R1, R2, <- !app_assoc. auto.
Qed.

(* the sub-tree found is represented, in some context *)
Lemma find_rep h x :
  (forall t par prev nxt s, rep_t h par prev nxt t -> find_t x t = Some s ->
     exists par' prev' nxt', rep_t h par' prev' nxt' s) /\
  (forall ts par prev nxt s, rep_l h par prev nxt ts -> find_l x ts = Some s ->
     exists par' prev' nxt', rep_t h par' prev' nxt' s).
Proof.
  apply rt_mut_ind.
  - intros i d cs IH par prev nxt s Hr. rewrite find_t_unfold. destruct (i =? x).
    + intros [= <-]. eauto.
    + apply rep_t_unfold in Hr as [_ Hr]. eauto.
  - simpl. discriminate.
  - intros t ts IHt IHts par prev nxt s. rewrite rep_l_cons, find_l_cons. intros [Ha Hb].
    destruct (find_t x t) eqn:E; [intros [= <-]; eauto | eauto].
Qed.

(* ------------------------------------------------------------------ *)
(* local re-linking of a sibling list                                   *)

Ltac upd_simpl :=
  repeat first [ rewrite upd_same | rewrite upd_other by (first [assumption | congruence | (intro; subst; tauto)]) ].

Lemma last_or_app d l x : last_or d (l ++ [x]) = Some (rid x).
Proof. revert d. induction l as [|a l IH]; intros d; simpl; [reflexivity | apply IH]. Qed.

Lemma head_or_app d l x : head_or d (l ++ [x]) = head_or (Some (rid x)) l.
Proof. destruct l; reflexivity. Qed.

(* the last member's next pointer is redirected *)
Lemma relink_last h h' par prev nx nx' l x :
  rep_l h par prev nx (l ++ [x]) -> NoDup (ids_l (l ++ [x])) ->
  (forall r, h (rid x) = Some r -> h' (rid x) = Some (set_next r nx')) ->
  (forall j, In j (ids_l (l ++ [x])) -> j <> rid x -> h' j = h j) ->
  rep_l h' par prev nx' (l ++ [x]).
Proof.
  intros Hr Hnd Hx Hf. rewrite rep_l_app in *. destruct Hr as [H1 H2]. rewrite ids_l_app, NoDup_app_iff in Hnd.
  destruct Hnd as (N1 & N2 & N3). split.
  - eapply rep_l_frame; [|exact H1]. intros i Hi. apply Hf; [rewrite ids_l_app; apply in_or_app; auto|].
    intros ->. apply (N3 _ Hi). simpl. rewrite app_nil_r. apply rid_in_ids.
  - simpl in *. destruct H2 as [H2 _]. split; [|exact I]. destruct x as [i d cs]. rewrite rep_t_unfold in *.
    destruct H2 as [Ha Hb]. split; [exact (Hx _ Ha)|].
    eapply rep_l_frame; [|exact Hb]. intros j Hj. simpl in *. rewrite app_nil_r in *. apply Hf.
    + rewrite ids_l_app. apply in_or_app. right. simpl. rewrite app_nil_r. auto.
    + intros ->. apply NoDup_cons_iff in N2 as [N2 _]. exact (N2 Hj).
Qed.

(* the first member's prev pointer is redirected *)
Lemma relink_head h h' par prev prev' nx x l :
  rep_l h par prev nx (x :: l) -> NoDup (ids_l (x :: l)) ->
  (forall r, h (rid x) = Some r -> h' (rid x) = Some (set_prev r prev')) ->
  (forall j, In j (ids_l (x :: l)) -> j <> rid x -> h' j = h j) ->
  rep_l h' par prev' nx (x :: l).
Proof.
  intros Hr Hnd Hx Hf. rewrite rep_l_cons in *. destruct Hr as [H1 H2]. rewrite ids_l_cons, NoDup_app_iff in Hnd.
  destruct Hnd as (N1 & N2 & N3). split.
  - destruct x as [i d cs]. rewrite rep_t_unfold in *. destruct H1 as [Ha Hb]. split; [exact (Hx _ Ha)|].
    eapply rep_l_frame; [|exact Hb]. intros j Hj. simpl in *. apply Hf; [right; apply in_or_app; auto|].
    intros ->. apply NoDup_cons_iff in N1 as [N1 _]. exact (N1 Hj).
  - eapply rep_l_frame; [|exact H2]. intros j Hj. apply Hf; [rewrite ids_l_cons; apply in_or_app; auto|].
    intros ->. exact (N3 _ (rid_in_ids x) Hj).
Qed.

Lemma last_sibling_rep h par : forall l prev x fuel c,
  rep_l h par prev None (l ++ [x]) -> (length l < fuel)%nat -> head_id (l ++ [x]) = Some c ->
  last_sibling fuel h c = TOk (rid x).
Proof.
  induction l as [|a l IH]; intros prev x fuel c Hr Hlen Hc.
  - simpl in *. injection Hc as <-. destruct fuel; [lia|]. destruct Hr as [Hr _]. destruct x as [i d cs].
    apply rep_t_unfold in Hr as [Hr _]. simpl. unfold get. rewrite Hr. reflexivity.
  - rewrite <- app_comm_cons in *. simpl in Hc. injection Hc as <-. destruct fuel; [simpl in Hlen; lia|].
    apply rep_l_cons in Hr as [Ha Hb]. destruct a as [i d cs]. apply rep_t_unfold in Ha as [Ha _].
    cbn [last_sibling rid]. unfold get at 1.
    destruct l as [|b l]; cbn [app] in Ha; rewrite Ha; cbn [bind n_next].
    + apply (IH (Some i) x fuel (rid x)); [exact Hb | simpl in *; lia | reflexivity].
    + apply (IH (Some i) x fuel (rid b)); [exact Hb | simpl in *; lia | reflexivity].
Qed.

(* ------------------------------------------------------------------ *)
(* wbxml_tree_add_node below a parent: the local step                   *)

Lemma leaf_text_unfold i d cs :
  leaf_text (R i d cs) = (negb (is_text d) || match cs with [] => true | _ => false end) && forallb leaf_text cs.
Proof. reflexivity. Qed.

Lemma forallb_app' {A} (f : A -> bool) l1 l2 : forallb f (l1 ++ l2) = forallb f l1 && forallb f l2.
Proof. induction l1; simpl; [reflexivity | rewrite IHl1, andb_assoc; reflexivity]. Qed.

Lemma snoc_merge_app l x tn :
  snoc_merge (l ++ [x]) tn =
  l ++ match x, tn with
       | R m (DText c1) mk, R i (DText c2) ncs => [R i (DText (c1 ++ c2)) ncs]
       | _, _ => [x; tn]
       end.
Proof.
  induction l as [|a l IH].
  - simpl. destruct x as [m dm mk]. destruct dm; try reflexivity; destruct tn as [i di ncs]; destruct di; reflexivity.
  - rewrite <- app_comm_cons.
    assert (E : exists b r, l ++ [x] = b :: r) by (destruct l; simpl; eauto). destruct E as (b & r & E).
    change (snoc_merge (a :: l ++ [x]) tn) with
      (match a :: l ++ [x] with
       | [] => [tn]
       | [R m (DText c1) mk] => match tn with R i (DText c2) ncs => [R i (DText (c1 ++ c2)) ncs] | _ => [R m (DText c1) mk; tn] end
       | c :: rest => c :: snoc_merge rest tn
       end).
    rewrite E. rewrite <- E, IH.
    destruct a as [m dm mk]. destruct dm; reflexivity.
Qed.

Lemma get_some h i r : h i = Some r -> get h i = TOk r.
Proof. intros H. unfold get. rewrite H. reflexivity. Qed.

Lemma in_ids_l_last l x j : In j (ids x) -> In j (ids_l (l ++ [x])).
Proof. intros H. rewrite ids_l_app. apply in_or_app. right. simpl. rewrite app_nil_r. exact H. Qed.

Lemma in_ids_l_front l x j : In j (ids_l l) -> In j (ids_l (l ++ [x])).
Proof. intros H. rewrite ids_l_app. apply in_or_app. auto. Qed.

Ltac rec_simpl :=
  unfold set_parent, set_children, set_next, set_prev, set_data;
  cbn [bind n_data n_parent n_children n_next n_prev].

Lemma ids_l_single x : ids_l [x] = ids x.
Proof. simpl. apply app_nil_r. Qed.

Lemma ids_l_nil : ids_l [] = [].
Proof. reflexivity. Qed.

(* membership goals over identity lists *)
Ltac in_norm :=
  repeat (rewrite ?ids_unfold, ?ids_l_app, ?ids_l_single, ?ids_l_cons, ?ids_l_nil, ?app_nil_r in * );
  repeat (cbn [In] in *;
          first [ match goal with H : context [In _ (_ ++ _)] |- _ => setoid_rewrite in_app_iff in H end
                | progress (setoid_rewrite in_app_iff) ]);
  cbn [In] in *.
Ltac in_solve := in_norm; tauto.

Lemma rev_cases {A} (l : list A) : l = [] \/ exists l' x, l = l' ++ [x].
Proof. destruct l as [|a l] using rev_ind; [auto | right; eauto]. Qed.

Section AddLocal.
  Variables (fuel : nat) (t : tstate) (p n : id) (d dn : data) (par prev nxt : option id) (cs ncs : list rt).
  Let h := heap_of t.
  Let tn := R n dn ncs.
  Hypothesis Hp : rep_t h par prev nxt (R p d cs).
  Hypothesis Hn : rep_t h None None None tn.
  Hypothesis Hnd : NoDup (ids (R p d cs) ++ ids tn).
  Hypothesis Hd : is_text d = false.
  Hypothesis Hleaf : forallb leaf_text cs = true.
  Hypothesis Hleafn : leaf_text tn = true.
  Hypothesis Hfuel : (length cs < fuel)%nat.

  Let h1 := upd h n (Some (mkN dn (Some p) (head_id ncs) None None)).

  Lemma al_facts :
    h p = Some (mkN d par (head_id cs) nxt prev) /\ rep_l h (Some p) None None cs /\
    h n = Some (mkN dn None (head_id ncs) None None) /\ rep_l h (Some n) None None ncs /\
    p <> n /\ ~ In n (ids_l cs) /\ ~ In p (ids_l cs) /\ ~ In n (ids_l ncs) /\ ~ In p (ids_l ncs) /\
    NoDup (ids_l cs) /\ NoDup (ids_l ncs) /\ (forall x, In x (ids_l cs) -> ~ In x (ids_l ncs)).
  Proof.
    apply rep_t_unfold in Hp as [P1 P2]. unfold tn in Hn. apply rep_t_unfold in Hn as [N1 N2].
    unfold tn in Hnd. rewrite !ids_unfold in Hnd. apply NoDup_app_iff in Hnd as (A & B & C).
    apply NoDup_cons_iff in A as [A1 A2]. apply NoDup_cons_iff in B as [B1 B2].
    repeat split; try assumption.
    - intros ->. apply (C n); simpl; auto.
    - intros Hin. apply (C n); simpl; auto.
    - intros Hin. apply (C p); simpl; auto.
    - intros x Hx Hx'. apply (C x); simpl; auto.
  Qed.

  (* the result of the function and what it establishes, stated once for the three shapes of cs *)
  Definition al_post (h' : heap) : Prop :=
    rep_t h' par prev nxt (R p d (snoc_merge cs tn)) /\
    (forall j, ~ In j (ids (R p d cs)) -> j <> n -> h' j = h j) /\
    (forall j, h' j <> None -> h j <> None) /\
    (forall j, In j (ids (R p d cs) ++ ids tn) -> h' j <> None -> In j (ids (R p d (snoc_merge cs tn)))) /\
    (forall j, In j (ids (R p d (snoc_merge cs tn))) -> In j (ids (R p d cs) ++ ids tn)) /\
    NoDup (ids (R p d (snoc_merge cs tn))).

  Lemma add_local_empty : cs = [] -> exists h', add_node fuel t (Some p) n = TOk (with_heap t h') /\ al_post h'.
  Proof.
    intros E. destruct al_facts as (P1 & P2 & N1 & N2 & Dpn & D1 & D2 & D3 & D4 & U1 & U2 & U3).
    exists (upd h1 p (Some (mkN d par (Some n) nxt prev))). split.
    - unfold add_node. fold h. rewrite (get_some _ _ _ N1). rec_simpl.
      fold h1. rewrite (get_some h1 p (mkN d par (head_id cs) nxt prev)) by (unfold h1; upd_simpl; exact P1).
      rec_simpl. rewrite E. reflexivity.
    - unfold al_post. rewrite E in *. cbn [snoc_merge]. split; [|split; [|split; [|split; [|split]]]].
      + apply rep_t_unfold. split; [upd_simpl; reflexivity|]. cbn [rep_l]. split; [|exact I].
        apply rep_t_unfold. split; [unfold h1; upd_simpl; reflexivity|].
        eapply rep_l_frame; [|exact N2]. intros i Hi. unfold h1. upd_simpl; reflexivity.
      + intros j Hj Hjn. unfold h1. simpl in Hj. upd_simpl; reflexivity.
      + intros j. unfold h1, upd. destruct (j =? p) eqn:E1; [apply N.eqb_eq in E1; subst; rewrite P1; discriminate|].
        destruct (j =? n) eqn:E2; [apply N.eqb_eq in E2; subst; rewrite N1; discriminate | auto].
      + intros j Hj _. simpl in *. rewrite app_nil_r. tauto.
      + intros j Hj. simpl in *. rewrite app_nil_r in Hj. tauto.
      + simpl. rewrite app_nil_r. constructor; [simpl; intros [H|H]; [congruence | exact (D4 H)]|].
        constructor; assumption.
  Qed.

  (* facts about a non-empty sibling list l ++ [x] *)
  Lemma al_last l m dm mcs : cs = l ++ [R m dm mcs] ->
    h m = Some (mkN dm (Some p) (head_id mcs) None (last_or None l)) /\ rep_l h (Some m) None None mcs /\
    rep_l h (Some p) None (Some m) l /\ m <> n /\ m <> p /\ ~ In m (ids_l l) /\ In m (ids_l cs) /\
    (forall j, In j (ids_l mcs) -> In j (ids_l cs)) /\ (forall j, In j (ids_l l) -> In j (ids_l cs)) /\
    ~ In m (ids_l mcs) /\ (forall j, In j (ids_l l) -> ~ In j (ids_l mcs)).
  Proof.
    intros E. destruct al_facts as (P1 & P2 & N1 & N2 & Dpn & D1 & D2 & D3 & D4 & U1 & U2 & U3).
    rewrite E in P2. apply rep_l_app in P2 as [Q1 Q2]. cbn [head_or rid] in Q1. cbn [rep_l] in Q2. destruct Q2 as [Q2 _].
    apply rep_t_unfold in Q2 as [Q2 Q3].
    assert (Im : In m (ids_l cs)) by (rewrite E; apply in_ids_l_last; simpl; auto).
    rewrite E, ids_l_app, NoDup_app_iff in U1. destruct U1 as (V1 & V2 & V3). simpl in V2. rewrite app_nil_r in V2.
    apply NoDup_cons_iff in V2 as [V2 V2'].
    split; [exact Q2|]. split; [exact Q3|]. split; [exact Q1|].
    split; [intros ->; exact (D1 Im)|]. split; [intros ->; exact (D2 Im)|].
    split; [intros Hin; apply (V3 m Hin); simpl; auto|]. split; [exact Im|].
    split; [intros j Hj; rewrite E; apply in_ids_l_last; simpl; auto|].
    split; [intros j Hj; rewrite E; apply in_ids_l_front; exact Hj|].
    split; [exact V2|]. intros j Hj Hj'. apply (V3 j Hj). simpl. rewrite app_nil_r. auto.
  Qed.

  Lemma add_local_append l m dm mcs : cs = l ++ [R m dm mcs] -> is_text dn && is_text dm = false ->
    exists h', add_node fuel t (Some p) n = TOk (with_heap t h') /\ al_post h'.
  Proof.
    intros E Hk. destruct al_facts as (P1 & P2 & N1 & N2 & Dpn & D1 & D2 & D3 & D4 & U1 & U2 & U3).
    destruct (al_last l m dm mcs E) as (M1 & M2 & M3 & Dmn & Dmp & M4 & M5 & M6 & M7 & M8 & M9).
    set (h2 := upd h1 n (Some (mkN dn (Some p) (head_id ncs) None (Some m)))).
    exists (upd h2 m (Some (mkN dm (Some p) (head_id mcs) (Some n) (last_or None l)))).
    assert (S1 : snoc_merge cs tn = cs ++ [tn]).
    { rewrite E, snoc_merge_app, <- app_assoc. unfold tn. destruct dm; try reflexivity. destruct dn; try reflexivity. discriminate. }
    assert (F1 : forall j, In j (ids_l cs) -> h1 j = h j) by (intros j Hj; unfold h1; upd_simpl; reflexivity).
    split.
    - unfold add_node. fold h. rewrite (get_some _ _ _ N1). rec_simpl. fold h1.
      rewrite (get_some h1 p (mkN d par (head_id cs) nxt prev)) by (unfold h1; upd_simpl; exact P1).
      rec_simpl. destruct (head_id cs) as [c|] eqn:Ec; [|rewrite E in Ec; destruct l; discriminate].
      rewrite (last_sibling_rep h1 (Some p) l None (R m dm mcs) fuel c);
        [| eapply rep_l_frame; [|rewrite <- E; exact P2]; rewrite <- E; exact F1
         | rewrite E, app_length in Hfuel; simpl in Hfuel; lia | rewrite <- E; exact Ec].
      cbn [rid bind].
      rewrite (get_some h1 m (mkN dm (Some p) (head_id mcs) None (last_or None l))) by (rewrite F1 by exact M5; exact M1).
      rewrite (get_some h1 n (mkN dn (Some p) (head_id ncs) None None)) by (unfold h1; upd_simpl; reflexivity).
      rec_simpl.
      assert (G : get h2 m = TOk (mkN dm (Some p) (head_id mcs) None (last_or None l))).
      { apply get_some. unfold h2. upd_simpl. rewrite F1 by exact M5. exact M1. }
      destruct dn; try (fold h2; rewrite G; rec_simpl; reflexivity).
      destruct dm; try (fold h2; rewrite G; rec_simpl; reflexivity). discriminate.
    - unfold al_post. rewrite S1. split; [|split; [|split; [|split; [|split]]]].
      + apply rep_t_unfold. split.
        * unfold h2, h1. upd_simpl. rewrite P1. f_equal. f_equal. rewrite E. destruct l; reflexivity.
        * apply rep_l_app. cbn [head_or rid]. split.
          -- rewrite E. eapply (relink_last h _ (Some p) None None (Some n) l (R m dm mcs)).
             ++ rewrite <- E. exact P2.
             ++ rewrite <- E. exact U1.
             ++ cbn [rid]. intros r Hr. rewrite M1 in Hr. injection Hr as <-. upd_simpl. reflexivity.
             ++ cbn [rid]. rewrite <- E. intros j Hj Hne. unfold h2, h1. upd_simpl. reflexivity.
          -- rewrite E, last_or_app. cbn [rid rep_l]. split; [|exact I]. apply rep_t_unfold. split.
             ++ unfold h2. upd_simpl. reflexivity.
             ++ eapply rep_l_frame; [|exact N2]. intros j Hj. unfold h2, h1.
                assert (j <> m) by (intros ->; exact (U3 m M5 Hj)). upd_simpl. reflexivity.
      + intros j Hj Hjn. simpl in Hj. unfold h2, h1. upd_simpl. reflexivity.
      + intros j. unfold h2, h1, upd. destruct (j =? m) eqn:E1; [apply N.eqb_eq in E1; subst; rewrite M1; discriminate|].
        destruct (j =? n) eqn:E2; [apply N.eqb_eq in E2; subst; rewrite N1; discriminate | auto].
      + intros j Hj _. unfold tn in *. clear - Hj. in_solve.
      + intros j Hj. unfold tn in *. clear - Hj. in_solve.
      + pose proof Hnd as Hnd'. unfold tn in *. rewrite !ids_unfold, ids_l_app, ids_l_single, ids_unfold in *. exact Hnd'.
  Qed.

  Lemma leaf_text_is_leaf i c ks : leaf_text (R i (DText c) ks) = true -> ks = [].
  Proof. rewrite leaf_text_unfold. simpl. destruct ks; [reflexivity | discriminate]. Qed.

  Lemma add_local_merge l m c1 mcs c2 : cs = l ++ [R m (DText c1) mcs] -> dn = DText c2 ->
    exists h', add_node fuel t (Some p) n = TOk (with_heap t h') /\ al_post h'.
  Proof.
    intros E En. destruct al_facts as (P1 & P2 & N1 & N2 & Dpn & D1 & D2 & D3 & D4 & U1 & U2 & U3).
    destruct (al_last l m (DText c1) mcs E) as (M1 & M2 & M3 & Dmn & Dmp & M4 & M5 & M6 & M7 & M8 & M9).
    assert (Emcs : mcs = []).
    { rewrite E, forallb_app' in Hleaf. apply andb_prop in Hleaf as [_ Hl]. cbn [forallb] in Hl. rewrite andb_true_r in Hl.
      exact (leaf_text_is_leaf m c1 mcs Hl). }
    assert (Encs : ncs = []) by (unfold tn in Hleafn; rewrite En in Hleafn; exact (leaf_text_is_leaf n c2 ncs Hleafn)).
    assert (S1 : snoc_merge cs tn = l ++ [R n (DText (c1 ++ c2)) ncs]).
    { rewrite E, snoc_merge_app. unfold tn. rewrite En. reflexivity. }
    assert (F1 : forall j, In j (ids_l cs) -> h1 j = h j) by (intros j Hj; unfold h1; upd_simpl; reflexivity).
    assert (Hn1 : h1 n = Some (mkN dn (Some p) (head_id ncs) None None)) by (unfold h1; upd_simpl; reflexivity).
    assert (Hp1 : h1 p = Some (mkN d par (head_id cs) nxt prev)) by (unfold h1; upd_simpl; exact P1).
    assert (Hm1 : h1 m = Some (mkN (DText c1) (Some p) (head_id mcs) None (last_or None l))) by (rewrite F1 by exact M5; exact M1).
    assert (ND : NoDup (p :: ids_l l ++ [n])).
    { pose proof Hnd as Hnd'. unfold tn in Hnd'. rewrite Encs, E in Hnd'.
      rewrite !ids_unfold, ids_l_app, ids_l_single, ids_unfold, Emcs, ids_l_nil in Hnd'. cbn [app] in Hnd'.
      rewrite <- app_assoc in Hnd'. cbn [app] in Hnd'. rewrite app_comm_cons in Hnd'.
      apply NoDup_remove_1 in Hnd'. exact Hnd'. }
    (* the function: common prefix *)
    assert (Pre : forall K, add_node fuel t (Some p) n =
       (do tn0 <- get h1 m; do nn1 <- get h1 n; K tn0 nn1) ->
       add_node fuel t (Some p) n = K (mkN (DText c1) (Some p) (head_id mcs) None (last_or None l)) (mkN dn (Some p) (head_id ncs) None None)).
    { intros K HK. rewrite HK, (get_some _ _ _ Hm1), (get_some _ _ _ Hn1). reflexivity. }
    assert (Run : add_node fuel t (Some p) n =
      (do h2 <- match last_or None l with
                | None => TOk (upd h1 p (Some (mkN d par (Some n) nxt prev)))
                | Some pr => do prn <- get h1 pr;
                             let h' := upd h1 pr (Some (set_next prn (Some n))) in
                             do nn' <- get h' n; TOk (upd h' n (Some (set_prev nn' (Some pr))))
                end;
       do nn2 <- get h2 n;
       TOk (with_heap t (upd (upd h2 n (Some (set_data nn2 (DText (c1 ++ c2))))) m None)))).
    { unfold add_node. fold h. rewrite (get_some _ _ _ N1). rec_simpl. fold h1.
      rewrite (get_some _ _ _ Hp1). rec_simpl.
      destruct (head_id cs) as [c|] eqn:Ec; [|rewrite E in Ec; destruct l; discriminate].
      rewrite (last_sibling_rep h1 (Some p) l None (R m (DText c1) mcs) fuel c);
        [| eapply rep_l_frame; [|rewrite <- E; exact P2]; rewrite <- E; exact F1
         | rewrite E, app_length in Hfuel; simpl in Hfuel; lia | rewrite <- E; exact Ec].
      cbn [rid bind]. rewrite (get_some _ _ _ Hm1), (get_some _ _ _ Hn1). rec_simpl. rewrite En. rec_simpl.
      reflexivity. }
    clear Pre.
    destruct l as [|y l0] using rev_ind.
    - (* the text node is the first child *)
      cbn [last_or] in Run. cbn [bind] in Run.
      set (h2 := upd h1 p (Some (mkN d par (Some n) nxt prev))) in *.
      assert (Hn2 : h2 n = Some (mkN dn (Some p) (head_id ncs) None None)) by (unfold h2; upd_simpl; exact Hn1).
      rewrite (get_some _ _ _ Hn2) in Run. rec_simpl. cbn [bind] in Run. unfold set_data in Run. cbn [n_parent n_children n_next n_prev] in Run.
      eexists. split; [exact Run|].
      unfold al_post. rewrite S1. cbn [app]. split; [|split; [|split; [|split; [|split]]]].
      + apply rep_t_unfold. split; [unfold h2; upd_simpl; reflexivity|]. cbn [rep_l]. split; [|exact I].
        apply rep_t_unfold. split; [upd_simpl; rewrite Encs; reflexivity | rewrite Encs; exact I].
      + intros j Hj Hjn. rewrite E in Hj. assert (j <> m /\ j <> p) as [? ?] by (clear - Hj; in_norm; intuition congruence).
        unfold h2, h1. upd_simpl. reflexivity.
      + intros j. unfold h2, h1, upd. destruct (j =? m) eqn:E1; [intros Hc; exfalso; apply Hc; reflexivity|].
        destruct (j =? n) eqn:E2; [apply N.eqb_eq in E2; subst; rewrite N1; discriminate|].
        destruct (j =? p) eqn:E3; [apply N.eqb_eq in E3; subst; rewrite P1; discriminate | auto].
      + intros j Hj Hne. assert (j <> m) by (intros ->; apply Hne; upd_simpl; reflexivity).
        unfold tn in Hj. rewrite E, Encs, Emcs in Hj. rewrite Encs. clear - Hj H. in_norm. intuition congruence.
      + intros j Hj. unfold tn. rewrite E, Encs, Emcs. rewrite Encs in Hj. clear - Hj. in_norm. tauto.
      + rewrite Encs. rewrite !ids_unfold, ids_l_single, ids_unfold, ids_l_nil. exact ND.
    - (* the text node has a previous sibling y *)
      clear IHl0. destruct y as [q dq qcs]. rewrite last_or_app in Run. cbn [rid] in Run.
      apply rep_l_app in M3 as [Y1 Y2]. cbn [head_or rid rep_l] in Y1, Y2. destruct Y2 as [Y2 _].
      apply rep_t_unfold in Y2 as [Y2 Y3].
      assert (Iq : In q (ids_l (l0 ++ [R q dq qcs]))) by (apply in_ids_l_last; simpl; auto).
      assert (Dqm : q <> m) by (intros ->; exact (M4 Iq)).
      assert (Dqn : q <> n) by (intros ->; exact (D1 (M7 _ Iq))).
      assert (Dqp : q <> p) by (intros ->; exact (D2 (M7 _ Iq))).
      assert (Hq1 : h1 q = Some (mkN dq (Some p) (head_id qcs) (Some m) (last_or None l0))) by (rewrite F1 by (apply M7; exact Iq); exact Y2).
      rewrite (get_some _ _ _ Hq1) in Run. rec_simpl. cbn [bind] in Run. unfold set_next in Run. cbn [n_data n_parent n_children n_next n_prev] in Run.
      set (ha := upd h1 q (Some (mkN dq (Some p) (head_id qcs) (Some n) (last_or None l0)))) in *.
      assert (Hna : ha n = Some (mkN dn (Some p) (head_id ncs) None None)) by (unfold ha; upd_simpl; exact Hn1).
      rewrite (get_some _ _ _ Hna) in Run. cbn [bind] in Run. unfold set_prev in Run. cbn [n_data n_parent n_children n_next n_prev] in Run.
      set (hb := upd ha n (Some (mkN dn (Some p) (head_id ncs) None (Some q)))) in *.
      assert (Hnb : hb n = Some (mkN dn (Some p) (head_id ncs) None (Some q))) by (unfold hb; upd_simpl; reflexivity).
      rewrite (get_some _ _ _ Hnb) in Run. cbn [bind] in Run. unfold set_data in Run. cbn [n_data n_parent n_children n_next n_prev] in Run.
      eexists. split; [exact Run|].
      unfold al_post. rewrite S1. split; [|split; [|split; [|split; [|split]]]].
      + apply rep_t_unfold. split.
        * unfold hb, ha, h1. upd_simpl. rewrite P1. f_equal. f_equal. rewrite E. destruct l0; reflexivity.
        * apply rep_l_app. cbn [head_or rid]. split.
          -- eapply (relink_last h _ (Some p) None (Some m) (Some n) l0 (R q dq qcs)).
             ++ apply rep_l_app. cbn [head_or rid rep_l]. split; [exact Y1|]. split; [|exact I]. apply rep_t_unfold. split; assumption.
             ++ rewrite E, ids_l_app, NoDup_app_iff in U1. tauto.
             ++ cbn [rid]. intros r Hr. rewrite Y2 in Hr. injection Hr as <-. unfold hb, ha. upd_simpl. reflexivity.
             ++ cbn [rid]. intros j Hj Hne. assert (j <> m) by (intros ->; exact (M4 Hj)).
                assert (j <> n) by (intros ->; exact (D1 (M7 _ Hj))).
                unfold hb, ha, h1. upd_simpl. reflexivity.
          -- rewrite last_or_app. cbn [rid rep_l]. split; [|exact I]. apply rep_t_unfold. split.
             ++ upd_simpl. rewrite Encs. reflexivity.
             ++ rewrite Encs. exact I.
      + intros j Hj Hjn. rewrite E in Hj.
        assert (j <> m /\ j <> p /\ j <> q) as (? & ? & ?) by (clear - Hj; in_norm; intuition congruence).
        unfold hb, ha, h1. upd_simpl. reflexivity.
      + intros j. unfold hb, ha, h1, upd. destruct (j =? m) eqn:E1; [intros Hc; exfalso; apply Hc; reflexivity|].
        destruct (j =? n) eqn:E2; [apply N.eqb_eq in E2; subst; rewrite N1; discriminate|].
        destruct (j =? q) eqn:E3; [apply N.eqb_eq in E3; subst; rewrite Y2; discriminate | auto].
      + intros j Hj Hne. assert (j <> m) by (intros ->; apply Hne; upd_simpl; reflexivity).
        unfold tn in Hj. rewrite E, Encs, Emcs in Hj. rewrite Encs. clear - Hj H. in_norm. intuition congruence.
      + intros j Hj. unfold tn. rewrite E, Encs, Emcs. rewrite Encs in Hj. clear - Hj. in_norm. tauto.
      + rewrite Encs. rewrite !ids_unfold, ids_l_app, ids_l_single, ids_unfold, ids_l_nil. exact ND.
  Qed.

  (* the three shapes together *)
  Lemma add_local : exists h', add_node fuel t (Some p) n = TOk (with_heap t h') /\ al_post h'.
  Proof.
    destruct (rev_cases cs) as [E|(l & x & E)]; [apply add_local_empty; exact E|].
    destruct x as [m dm mcs].
    destruct (is_text dn && is_text dm) eqn:K.
    - apply andb_prop in K as [K1 K2].
      assert (exists c2, dn = DText c2) as [c2 En] by (destruct dn; try discriminate; eauto).
      destruct dm as [| c1 | | |]; try discriminate.
      exact (add_local_merge l m c1 mcs c2 E En).
    - exact (add_local_append l m dm mcs E K).
  Qed.
End AddLocal.

(* ------------------------------------------------------------------ *)
(* forest-level facts                                                   *)

Lemma find_rep_forest h x : forall F s, Forall (rep_t h None None None) F -> find_l x F = Some s ->
  exists par prev nxt, rep_t h par prev nxt s.
Proof.
  induction F as [|t F IH]; intros s HF; [discriminate|].
  apply Forall_cons_iff in HF as [Ht HF]. rewrite find_l_cons. destruct (find_t x t) eqn:E.
  - intros [= <-]. eapply (proj1 (find_rep h x)); eauto.
  - apply IH. exact HF.
Qed.

Lemma find_leaf x :
  (forall t s, find_t x t = Some s -> leaf_text t = true -> leaf_text s = true) /\
  (forall ts s, find_l x ts = Some s -> forallb leaf_text ts = true -> leaf_text s = true).
Proof.
  apply rt_mut_ind.
  - intros i d cs IH s. rewrite find_t_unfold. destruct (i =? x); [intros [= <-]; auto|].
    intros H. rewrite leaf_text_unfold. intros HL. apply andb_prop in HL as [_ HL]. eauto.
  - discriminate.
  - intros t ts IHt IHts s. rewrite find_l_cons. cbn [forallb]. intros H HL. apply andb_prop in HL as [H1 H2].
    destruct (find_t x t) eqn:E; [injection H as <-; eauto | eauto].
Qed.

Lemma leaf_replace p new : leaf_text new = true ->
  (forall t, leaf_text t = true -> leaf_text (replace_t p new t) = true) /\
  (forall ts, forallb leaf_text ts = true -> forallb leaf_text (replace_l p new ts) = true).
Proof.
  intros Hn. apply rt_mut_ind.
  - intros i d cs IH. simpl replace_t. destruct (i =? p); [auto|]. rewrite !leaf_text_unfold.
    intros HL. apply andb_prop in HL as [H1 H2]. fold (replace_l p new cs). rewrite (IH H2), andb_true_r.
    destruct cs; [exact H1|]. simpl. simpl in H1. exact H1.
  - auto.
  - intros t ts IHt IHts. unfold replace_l. cbn [map forallb]. intros HL. apply andb_prop in HL as [H1 H2].
    rewrite (IHt H1). exact (IHts H2).
Qed.

Lemma leaf_snoc_merge cs tn : forallb leaf_text cs = true -> leaf_text tn = true ->
  forallb leaf_text (snoc_merge cs tn) = true.
Proof.
  intros H1 H2. destruct (rev_cases cs) as [->|(l & x & ->)]; [simpl; rewrite H2; reflexivity|].
  rewrite snoc_merge_app. rewrite forallb_app' in *. apply andb_prop in H1 as [H1 H3]. rewrite H1. cbn [andb].
  cbn [forallb] in H3. rewrite andb_true_r in H3.
  destruct x as [m dm mk]. destruct tn as [i di ncs].
  destruct dm; try (cbn [forallb]; rewrite H3, H2; reflexivity).
  destruct di; try (cbn [forallb]; rewrite H3, H2; reflexivity).
  cbn [forallb]. rewrite andb_true_r. rewrite (leaf_text_is_leaf i content0 ncs H2). reflexivity.
Qed.

Lemma snoc_merge_has cs tn : In (rid tn) (ids_l (snoc_merge cs tn)).
Proof.
  destruct (rev_cases cs) as [->|(l & x & ->)]; [simpl; rewrite app_nil_r; apply rid_in_ids|].
  rewrite snoc_merge_app, ids_l_app. apply in_or_app. right.
  destruct x as [m dm mk]. destruct tn as [i di ncs].
  cbn [rid]. destruct dm; try (in_norm; tauto). destruct di; in_norm; tauto.
Qed.

Lemma nodup_mid {A} (X Y Z : list A) :
  NoDup (X ++ Y ++ Z) -> NoDup (X ++ Z) /\ NoDup Y /\ (forall a, In a Y -> ~ In a (X ++ Z)).
Proof.
  rewrite !NoDup_app_iff. intros (H1 & (H2 & H3 & H4) & H5). repeat split; auto.
  - intros a Ha Hz. apply (H5 a Ha). apply in_or_app; auto.
  - intros a Ha Hin. apply in_app_or in Hin as [Hin|Hin]; [apply (H5 a Hin); apply in_or_app; auto | exact (H4 a Ha Hin)].
Qed.

Lemma nodup_segment {A} (X S S' Z T : list A) :
  NoDup (X ++ S ++ Z) -> NoDup S' -> (forall a, In a S' -> In a S \/ In a T) ->
  (forall a, In a T -> ~ In a (X ++ S ++ Z)) -> NoDup (X ++ S' ++ Z).
Proof.
  rewrite !NoDup_app_iff. intros (H1 & (H2 & H3 & H4) & H5) HS' Hin HT. repeat split; auto.
  - intros a Ha Hz. destruct (Hin a Ha) as [Hs|Ht]; [exact (H4 a Hs Hz)|].
    apply (HT a Ht). apply in_or_app. right. apply in_or_app. auto.
  - intros a Ha Hin'. apply in_app_or in Hin' as [Hs|Hz]; [|apply (H5 a Ha); apply in_or_app; auto].
    destruct (Hin a Hs) as [Hs'|Ht]; [apply (H5 a Ha); apply in_or_app; auto|].
    apply (HT a Ht). apply in_or_app. auto.
Qed.

Lemma Links_ext h h' F : (forall i, h' i = h i) -> Links h F -> Links h' F.
Proof.
  intros E (H1 & H2 & H3 & H4). split; [|split; [exact H2|split; [|exact H4]]].
  - eapply Forall_impl; [|exact H1]. intros t Ht. eapply rep_frame; [|exact Ht]. intros; apply E.
  - intros i. rewrite E. apply H3.
Qed.

Lemma ids_l_mid F1 tn F2 : ids_l (F1 ++ tn :: F2) = ids_l F1 ++ ids tn ++ ids_l F2.
Proof. rewrite ids_l_app, ids_l_cons. reflexivity. Qed.

(* wbxml_tree_add_node(tree, p, n) for a detached sub-tree tn and a node p elsewhere in the forest *)
Lemma add_node_forest fuel t F1 tn F2 p sub :
  Links (heap_of t) (F1 ++ tn :: F2) -> find_l p (F1 ++ F2) = Some sub -> is_text (rdata sub) = false ->
  (length (rkids sub) < fuel)%nat ->
  exists h', add_node fuel t (Some p) (rid tn) = TOk (with_heap t h') /\
     Links h' (replace_l p (R p (rdata sub) (snoc_merge (rkids sub) tn)) (F1 ++ F2)) /\
     (forall i, In i (ids_l (replace_l p (R p (rdata sub) (snoc_merge (rkids sub) tn)) (F1 ++ F2))) ->
                In i (ids_l (F1 ++ tn :: F2))) /\
     In (rid tn) (ids_l (replace_l p (R p (rdata sub) (snoc_merge (rkids sub) tn)) (F1 ++ F2))).
Proof.
  intros (HF & HN & HC & HL) Hfind Htext Hfuel.
  apply Forall_app in HF as [HF1 HF2]. apply Forall_cons_iff in HF2 as [Htn HF2].
  assert (HF12 : Forall (rep_t (heap_of t) None None None) (F1 ++ F2)) by (apply Forall_app; auto).
  rewrite ids_l_mid in HN. destruct (nodup_mid _ _ _ HN) as (N12 & Ntn & Ndis). rewrite <- ids_l_app in N12, Ndis.
  rewrite forallb_app' in HL. cbn [forallb] in HL. apply andb_prop in HL as [HL1 HL2]. apply andb_prop in HL2 as [HLn HL2].
  assert (HL12 : forallb leaf_text (F1 ++ F2) = true) by (rewrite forallb_app', HL1, HL2; reflexivity).
  destruct (proj2 (find_some p) _ _ Hfind) as (Hrid & Hpin & Hsubin).
  destruct sub as [p' d cs]. cbn [rid] in Hrid. subst p'. cbn [rdata rkids] in *.
  destruct (find_rep_forest _ _ _ _ HF12 Hfind) as (par & prev & nxt & Hsub).
  destruct tn as [n dn ncs]. cbn [rid].
  destruct (proj2 (ids_replace_split p (R p d (snoc_merge cs (R n dn ncs)))) _ _ Hfind N12) as (A & B & EA & EB & ES).
  assert (Nsub : NoDup (ids (R p d cs))) by (rewrite EA in N12; apply nodup_mid in N12; tauto).
  assert (Hleaf : leaf_text (R p d cs) = true) by (eapply (proj2 (find_leaf p)); eauto).
  rewrite leaf_text_unfold in Hleaf. apply andb_prop in Hleaf as [_ Hleaf].
  destruct (add_local fuel t p n d dn par prev nxt cs ncs Hsub Htn) as (h' & Hrun & Hpost & Hframe & Hdead & Hcov & Hincl & Hnd');
    [ apply NoDup_app_iff; repeat split; [exact Nsub | exact Ntn |]; intros x Hx Hx'; exact (Ndis x Hx' (Hsubin x Hx))
    | exact Hleaf | exact HLn | exact Hfuel |].
  exists h'. split; [exact Hrun|].
  assert (Hp : heap_of t p = Some (mkN d par (head_id cs) nxt prev)) by (apply rep_t_unfold in Hsub; tauto).
  split; [split; [|split; [|split]] | split].
  - apply rep_replace_forest with (h := heap_of t); [reflexivity | | exact HF12 | exact N12 |].
    + intros par' prev' nxt' d' c' E. rewrite Hp in E. injection E as <- <- <- <- <-. exact Hpost.
    + intros j Hj Hs. rewrite ES in Hs. apply Hframe; [exact Hs|]. intros ->. apply (Ndis n); [simpl; auto | exact Hj].
  - rewrite EB. eapply nodup_segment with (S := ids (R p d cs)) (T := ids (R n dn ncs)).
    + rewrite <- EA. exact N12.
    + exact Hnd'.
    + intros a Ha. apply in_app_or. apply Hincl. exact Ha.
    + intros a Ha. rewrite <- EA. apply Ndis. exact Ha.
  - intros i Hi. rewrite EB. specialize (HC i (Hdead i Hi)). rewrite ids_l_mid in HC.
    assert (HC' : In i (ids (R n dn ncs)) \/ In i (ids_l (F1 ++ F2))) by (rewrite ids_l_app; clear - HC; in_norm; tauto).
    rewrite EA in HC'.
    assert (In i (ids (R p d cs) ++ ids (R n dn ncs)) \/ In i A \/ In i B) as [Hin|Hin]
      by (clear - HC'; repeat rewrite in_app_iff in *; tauto).
    + specialize (Hcov i Hin Hi). apply in_or_app. right. apply in_or_app. auto.
    + apply in_or_app. destruct Hin; [auto | right; apply in_or_app; auto].
  - refine (proj2 (leaf_replace p _ _) _ HL12). rewrite leaf_text_unfold, Htext. cbn [negb orb andb].
    apply leaf_snoc_merge; assumption.
  - intros i. rewrite EB, ids_l_mid. intros Hi.
    assert (In i (ids (R p d (snoc_merge cs (R n dn ncs)))) \/ In i A \/ In i B) as [Hin|Hin]
      by (clear - Hi; repeat rewrite in_app_iff in *; tauto).
    + apply Hincl in Hin. apply in_app_or in Hin as [Hin|Hin].
      * apply Hsubin in Hin. rewrite ids_l_app in Hin. clear - Hin. in_norm. tauto.
      * clear - Hin. in_norm. tauto.
    + assert (Hin' : In i (ids_l (F1 ++ F2))) by (rewrite EA; clear - Hin; repeat rewrite in_app_iff; tauto).
      rewrite ids_l_app in Hin'. clear - Hin'. in_norm. tauto.
  - rewrite EB. apply in_or_app. right. apply in_or_app. left. rewrite ids_unfold. right.
    exact (snoc_merge_has cs (R n dn ncs)).
Qed.

(* ------------------------------------------------------------------ *)
(* allocation, data replacement                                         *)

Lemma alloc_forest h F n d :
  Links h F -> h n = None -> Links (upd h n (Some (mkN d None None None None))) (F ++ [R n d []]).
Proof.
  intros (HF & HN & HC & HL) Hn.
  assert (Hnot : ~ In n (ids_l F)).
  { intros Hin. unfold ids_l in Hin. apply in_flat_map in Hin as (t & Ht & Hin). rewrite Forall_forall in HF.
    exact (rep_alloc _ _ _ _ _ _ (HF t Ht) Hin Hn). }
  split; [|split; [|split]].
  - apply Forall_app. split.
    + rewrite Forall_forall in *. intros t Ht. eapply rep_frame; [|exact (HF t Ht)].
      intros i Hi. apply upd_other. intros ->. apply Hnot. eapply in_ids_l; eauto.
    + constructor; [|constructor]. apply rep_t_unfold. split; [apply upd_same | exact I].
  - rewrite ids_l_app, ids_l_single. apply NoDup_app_iff. repeat split; [exact HN | constructor; [tauto|constructor] |].
    intros x Hx [<-|[]]. exact (Hnot Hx).
  - intros i. unfold upd. rewrite ids_l_app, ids_l_single. destruct (N.eqb_spec i n) as [->|Hne]; intros Hi; apply in_or_app.
    + right. simpl. auto.
    + left. apply HC. exact Hi.
  - rewrite forallb_app', HL. cbn. rewrite orb_true_r. reflexivity.
Qed.

Lemma set_data_forest h F n sub d' r :
  Links h F -> find_l n F = Some sub -> (is_text d' = false \/ rkids sub = []) -> h n = Some r ->
  Links (upd h n (Some (set_data r d'))) (replace_l n (R n d' (rkids sub)) F).
Proof.
  intros (HF & HN & HC & HL) Hfind Hk Hr.
  destruct (proj2 (find_some n) _ _ Hfind) as (Hrid & Hpin & Hsubin).
  destruct sub as [n' d cs]. cbn [rid] in Hrid. subst n'. cbn [rdata rkids] in *.
  destruct (find_rep_forest _ _ _ _ HF Hfind) as (par & prev & nxt & Hsub).
  destruct (proj2 (ids_replace_split n (R n d' cs)) _ _ Hfind HN) as (A & B & EA & EB & ES).
  assert (Nsub : NoDup (ids (R n d cs))) by (rewrite EA in HN; apply nodup_mid in HN; tauto).
  apply rep_t_unfold in Hsub as [Hn Hcs]. rewrite Hn in Hr. injection Hr as <-.
  rewrite ids_unfold in Nsub. apply NoDup_cons_iff in Nsub as [Nn Ncs].
  split; [|split; [|split]].
  - apply rep_replace_forest with (h := h); [reflexivity | | exact HF | exact HN |].
    + intros par' prev' nxt' d0 c' E. rewrite Hn in E. injection E as <- <- <- <- <-.
      apply rep_t_unfold. split; [rewrite upd_same; reflexivity|].
      eapply rep_l_frame; [|exact Hcs]. intros i Hi. apply upd_other. intros ->. exact (Nn Hi).
    + intros j Hj Hs. rewrite ES in Hs. apply upd_other. intros ->. apply Hs. simpl. auto.
  - rewrite EB. rewrite ids_unfold. rewrite EA, ids_unfold in HN. exact HN.
  - intros i. unfold upd. rewrite EB, ids_unfold. destruct (N.eqb_spec i n) as [->|Hne]; intros Hi.
    + apply in_or_app. right. simpl. auto.
    + specialize (HC i Hi). rewrite EA, ids_unfold in HC. exact HC.
  - refine (proj2 (leaf_replace n _ _) _ HL). rewrite leaf_text_unfold.
    assert (HLs : leaf_text (R n d cs) = true) by (eapply (proj2 (find_leaf n)); eauto).
    rewrite leaf_text_unfold in HLs. apply andb_prop in HLs as [_ HLs]. rewrite HLs, andb_true_r.
    destruct Hk as [-> | ->]; [reflexivity | apply orb_true_r].
Qed.

(* ------------------------------------------------------------------ *)
(* wbxml_tree_extract_node: the local step                              *)

Lemma get_upd_same h i v : get (upd h i (Some v)) i = TOk v.
Proof. unfold get. rewrite upd_same. reflexivity. Qed.

Lemma get_upd_other h i v j : j <> i -> get (upd h i v) j = get h j.
Proof. intros H. unfold get. rewrite upd_other by exact H. reflexivity. Qed.

Lemma last_or_in d l j : d <> Some j -> last_or d l = Some j -> In j (ids_l l).
Proof.
  revert d. induction l as [|a l IH]; intros d Hd E; [simpl in E; congruence|].
  simpl in E. rewrite ids_l_cons. apply in_or_app. destruct (N.eq_dec (rid a) j) as [<-|Hne].
  - left. apply rid_in_ids.
  - right. apply (IH (Some (rid a))); [congruence | exact E].
Qed.

Lemma head_or_in d l j : d <> Some j -> head_or d l = Some j -> In j (ids_l l).
Proof.
  destruct l as [|a l]; simpl; intros Hd E; [congruence|]. injection E as <-. apply in_or_app. left. apply rid_in_ids.
Qed.

Section ExtractLocal.
  Variables (t : tstate) (q x : id) (dq dx : data) (parq prevq nxtq : option id) (ls rs xcs : list rt).
  Let h := heap_of t.
  Let tx := R x dx xcs.
  Hypothesis Hq : rep_t h parq prevq nxtq (R q dq (ls ++ tx :: rs)).
  Hypothesis Hnd : NoDup (ids (R q dq (ls ++ tx :: rs))).

  Definition ex_props (h' : heap) : Prop :=
    h' x = Some (mkN dx None (head_id xcs) None None) /\
    h' q = Some (mkN dq parq (head_id (ls ++ rs)) nxtq prevq) /\
    (forall l0 lp, ls = l0 ++ [lp] -> forall r, h (rid lp) = Some r -> h' (rid lp) = Some (set_next r (head_or None rs))) /\
    (forall r0 r1, rs = r0 :: r1 -> forall r, h (rid r0) = Some r -> h' (rid r0) = Some (set_prev r (last_or None ls))) /\
    (forall j, j <> x -> j <> q -> last_or None ls <> Some j -> head_or None rs <> Some j -> h' j = h j).

  Lemma ex_facts :
    h q = Some (mkN dq parq (head_id (ls ++ tx :: rs)) nxtq prevq) /\
    h x = Some (mkN dx (Some q) (head_id xcs) (head_or None rs) (last_or None ls)) /\
    rep_l h (Some q) None (Some x) ls /\ rep_l h (Some x) None None xcs /\ rep_l h (Some q) (Some x) None rs /\
    x <> q /\ ~ In x (ids_l ls) /\ ~ In x (ids_l rs) /\ ~ In q (ids_l ls) /\ ~ In q (ids_l rs) /\
    ~ In x (ids_l xcs) /\ ~ In q (ids_l xcs) /\
    NoDup (ids_l ls) /\ NoDup (ids_l rs) /\ NoDup (ids_l xcs) /\
    (forall j, In j (ids_l ls) -> ~ In j (ids_l rs)) /\
    (forall j, In j (ids_l xcs) -> ~ In j (ids_l ls) /\ ~ In j (ids_l rs)).
  Proof.
    apply rep_t_unfold in Hq as [Q1 Q2]. apply rep_l_app in Q2 as [Q2 Q3]. apply rep_l_cons in Q3 as [Q3 Q4].
    unfold tx in Q3. apply rep_t_unfold in Q3 as [Q3 Q5]. cbn [head_or rid] in *.
    unfold tx in Hnd. rewrite ids_unfold, ids_l_app, ids_l_cons, ids_unfold in Hnd.
    apply NoDup_cons_iff in Hnd as [A1 A2]. apply NoDup_app_iff in A2 as (A2 & A3 & A4).
    apply NoDup_cons_iff in A3 as [A3 A5]. apply NoDup_app_iff in A5 as (A5 & A6 & A7).
    split; [exact Q1|]. split; [exact Q3|]. split; [exact Q2|]. split; [exact Q5|]. split; [exact Q4|].
    split; [intros ->; apply A1; in_norm; tauto|].
    split; [intros Hin; apply (A4 x Hin); simpl; auto|].
    split; [intros Hin; apply A3; in_norm; tauto|].
    split; [intros Hin; apply A1; in_norm; tauto|].
    split; [intros Hin; apply A1; in_norm; tauto|].
    split; [intros Hin; apply A3; in_norm; tauto|].
    split; [intros Hin; apply A1; in_norm; tauto|].
    split; [exact A2|]. split; [exact A6|]. split; [exact A5|].
    split; [intros j Hj Hj'; apply (A4 j Hj); in_norm; tauto|].
    intros j Hj. split; [intros Hj'; apply (A4 j Hj'); in_norm; tauto | exact (A7 j Hj)].
  Qed.

  Lemma head_ls_not_x l0 lp : ls = l0 ++ [lp] -> exists c, head_id (ls ++ tx :: rs) = Some c /\ c <> x /\ In c (ids_l ls).
  Proof.
    intros E. destruct ex_facts as (_ & _ & _ & _ & _ & _ & Nx & _).
    destruct ls as [|a ls']; [destruct l0; discriminate|]. exists (rid a). split; [reflexivity|].
    assert (In (rid a) (ids_l (a :: ls'))) by (rewrite ids_l_cons; apply in_or_app; left; apply rid_in_ids).
    split; [intros Heq; apply Nx; rewrite <- Heq; exact H | exact H].
  Qed.

  Lemma extract_run : exists h', extract_node t x = TOk (mkT h' (root t) (cur_page t) (fresh t)) /\ ex_props h'.
  Proof.
    destruct ex_facts as (Q1 & Q3 & Q2 & Q5 & Q4 & Dxq & Nxl & Nxr & Nql & Nqr & Nxx & Nqx & U1 & U2 & U3 & U4 & U5).
    pose proof head_ls_not_x as Hhead.
    unfold extract_node. fold h. rewrite (get_some _ _ _ Q3). rec_simpl. rewrite (get_some _ _ _ Q1). rec_simpl.
    destruct (rev_cases ls) as [El|(l0 & lp & El)]; destruct rs as [|r0 r1] eqn:Er.
    - (* only child *)
      rewrite El in *. cbn [app head_id rid last_or head_or] in *. unfold oeqb. rewrite N.eqb_refl.
      repeat (first [rewrite get_upd_same | rewrite get_upd_other by congruence | rewrite (get_some h _ _ Q3)]; rec_simpl).
      eexists. split; [reflexivity|]. unfold ex_props. rewrite ?El, ?Er. cbn [app head_id last_or head_or].
      split; [upd_simpl; reflexivity|]. split; [upd_simpl; reflexivity|].
      split; [intros l0' lp' E; destruct l0'; discriminate|]. split; [discriminate|].
      intros j H1 H2 _ _. upd_simpl. reflexivity.
    - (* first child, with a next sibling r0 *)
      rewrite El in *. cbn [app head_id rid last_or head_or] in *. unfold oeqb. rewrite N.eqb_refl.
      apply rep_l_cons in Q4 as [Q4 Q6]. destruct r0 as [nx d0 cs0]. apply rep_t_unfold in Q4 as [Q4 _]. cbn [rid] in *.
      assert (Dnx : nx <> x) by (intros ->; apply Nxr; in_norm; tauto).
      assert (Dnq : nx <> q) by (intros ->; apply Nqr; in_norm; tauto).
      repeat (first [rewrite get_upd_same | rewrite get_upd_other by congruence | rewrite (get_some h _ _ Q3)
                    | rewrite (get_some h _ _ Q4)]; rec_simpl).
      eexists. split; [reflexivity|]. unfold ex_props. rewrite ?El, ?Er. cbn [app head_id rid last_or head_or].
      split; [upd_simpl; reflexivity|]. split; [upd_simpl; reflexivity|].
      split; [intros l0' lp' E; destruct l0'; discriminate|].
      split; [intros r0' r1' E r Hr; injection E as <- <-; cbn [rid] in *; rewrite Q4 in Hr; injection Hr as <-;
              upd_simpl; reflexivity|].
      intros j H1 H2 _ H4. assert (j <> nx) by congruence. upd_simpl. reflexivity.
    - (* last child, with a previous sibling lp *)
      destruct (Hhead l0 lp El) as (c & Hc & Dc & _). rewrite Hc. unfold oeqb.
      destruct (N.eqb_spec c x) as [|_]; [contradiction|].
      rewrite El in Q2. apply rep_l_app in Q2 as [Q2 Q6]. cbn [rep_l] in Q6. destruct Q6 as [Q6 _].
      destruct lp as [pv d0 cs0]. apply rep_t_unfold in Q6 as [Q6 _]. cbn [rid head_or] in *.
      assert (Ipv : In pv (ids_l ls)) by (rewrite El; apply in_ids_l_last; simpl; auto).
      assert (Dpx : pv <> x) by (intros ->; exact (Nxl Ipv)).
      assert (Dpq : pv <> q) by (intros ->; exact (Nql Ipv)).
      rewrite El, last_or_app in *. cbn [rid] in *.
      repeat (first [rewrite get_upd_same | rewrite get_upd_other by congruence | rewrite (get_some h _ _ Q3)
                    | rewrite (get_some h _ _ Q6)]; rec_simpl).
      eexists. split; [reflexivity|]. unfold ex_props. rewrite ?El, ?Er, ?last_or_app, ?app_nil_r. cbn [rid head_or].
      split; [upd_simpl; reflexivity|].
      split; [upd_simpl; rewrite Q1; f_equal; f_equal; destruct l0; reflexivity|].
      split; [intros l0' lp' E r Hr; apply app_inj_tail in E as [_ <-]; cbn [rid] in *; rewrite Q6 in Hr; injection Hr as <-;
              upd_simpl; reflexivity|].
      split; [discriminate|].
      intros j H1 H2 H3 _. assert (j <> pv) by congruence. upd_simpl. reflexivity.
    - (* between lp and r0 *)
      destruct (Hhead l0 lp El) as (c & Hc & Dc & _). rewrite Hc. unfold oeqb.
      destruct (N.eqb_spec c x) as [|_]; [contradiction|].
      rewrite El in Q2. apply rep_l_app in Q2 as [Q2 Q6]. cbn [rep_l] in Q6. destruct Q6 as [Q6 _].
      destruct lp as [pv d0 cs0]. apply rep_t_unfold in Q6 as [Q6 _]. cbn [rid head_or] in *.
      apply rep_l_cons in Q4 as [Q4 Q7]. destruct r0 as [nx d1 cs1]. apply rep_t_unfold in Q4 as [Q4 _]. cbn [rid] in *.
      assert (Ipv : In pv (ids_l ls)) by (rewrite El; apply in_ids_l_last; simpl; auto).
      assert (Inx : In nx (ids_l (R nx d1 cs1 :: r1))) by (in_norm; tauto).
      assert (Dpx : pv <> x) by (intros ->; exact (Nxl Ipv)).
      assert (Dpq : pv <> q) by (intros ->; exact (Nql Ipv)).
      assert (Dnx : nx <> x) by (intros ->; exact (Nxr Inx)).
      assert (Dnq : nx <> q) by (intros ->; exact (Nqr Inx)).
      assert (Dpn : pv <> nx) by (intros ->; exact (U4 _ Ipv Inx)).
      rewrite El, last_or_app in *. cbn [rid] in *.
      repeat (first [rewrite get_upd_same | rewrite get_upd_other by congruence | rewrite (get_some h _ _ Q3)
                    | rewrite (get_some h _ _ Q4) | rewrite (get_some h _ _ Q6)]; rec_simpl).
      eexists. split; [reflexivity|]. unfold ex_props. rewrite ?El, ?Er, ?last_or_app. cbn [rid head_or].
      split; [upd_simpl; reflexivity|].
      split; [upd_simpl; rewrite Q1; f_equal; f_equal; destruct l0; reflexivity|].
      split; [intros l0' lp' E r Hr; apply app_inj_tail in E as [_ <-]; cbn [rid] in *; rewrite Q6 in Hr; injection Hr as <-;
              upd_simpl; reflexivity|].
      split; [intros r0' r1' E r Hr; injection E as <- <-; cbn [rid] in *; rewrite Q4 in Hr; injection Hr as <-;
              upd_simpl; reflexivity|].
      intros j H1 H2 H3 H4. assert (j <> pv) by congruence. assert (j <> nx) by congruence.
      upd_simpl. reflexivity.
  Qed.

  Lemma extract_local_rep h' : ex_props h' ->
    rep_t h' parq prevq nxtq (R q dq (ls ++ rs)) /\ rep_t h' None None None tx /\
    (forall j, ~ In j (ids (R q dq (ls ++ tx :: rs))) -> h' j = h j).
  Proof.
    intros (P1 & P2 & P3 & P4 & P5).
    destruct ex_facts as (Q1 & Q3 & Q2 & Q5 & Q4 & Dxq & Nxl & Nxr & Nql & Nqr & Nxx & Nqx & U1 & U2 & U3 & U4 & U5).
    assert (Fr : forall j, j <> x -> j <> q -> ~ (In j (ids_l ls) /\ last_or None ls = Some j) ->
                           ~ (In j (ids_l rs) /\ head_or None rs = Some j) -> h' j = h j).
    { intros j H1 H2 H3 H4. apply P5; [exact H1 | exact H2 | |].
      - intros E. apply H3. split; [apply last_or_in with (d := None); [discriminate | exact E] | exact E].
      - intros E. apply H4. split; [apply head_or_in with (d := None); [discriminate | exact E] | exact E]. }
    split; [|split].
    - apply rep_t_unfold. split; [exact P2|]. apply rep_l_app. split.
      + destruct (rev_cases ls) as [El|(l0 & lp & El)]; [rewrite El; exact I|].
        rewrite El. eapply relink_last with (h := h).
        * rewrite <- El. exact Q2.
        * rewrite <- El. exact U1.
        * apply (P3 l0 lp El).
        * rewrite <- El. intros j Hj Hne. apply Fr.
          -- intros ->. exact (Nxl Hj).
          -- intros ->. exact (Nql Hj).
          -- intros [_ E]. rewrite El, last_or_app in E. congruence.
          -- intros [Hj' _]. exact (U4 j Hj Hj').
      + destruct rs as [|r0 r1] eqn:Er; [exact I|].
        eapply relink_head with (h := h).
        * exact Q4.
        * exact U2.
        * apply (P4 r0 r1 eq_refl).
        * intros j Hj Hne. apply Fr.
          -- intros ->. exact (Nxr Hj).
          -- intros ->. exact (Nqr Hj).
          -- intros [Hj' _]. exact (U4 j Hj' Hj).
          -- intros [_ E]. cbn [head_or] in E. congruence.
    - unfold tx. apply rep_t_unfold. split; [exact P1|]. eapply rep_l_frame; [|exact Q5].
      intros j Hj. destruct (U5 j Hj) as [V1 V2]. apply Fr.
      + intros ->. exact (Nxx Hj).
      + intros ->. exact (Nqx Hj).
      + tauto.
      + tauto.
    - intros j Hj. apply Fr.
      + intros ->. apply Hj. unfold tx. clear. in_norm. tauto.
      + intros ->. apply Hj. clear. in_norm. tauto.
      + intros [Hj' _]. apply Hj. clear - Hj'. in_norm. tauto.
      + intros [Hj' _]. apply Hj. clear - Hj'. in_norm. tauto.
  Qed.
End ExtractLocal.

(* ------------------------------------------------------------------ *)
(* wbxml_tree_extract_node at forest level                              *)

Lemma find_notin x : (forall t, ~ In x (ids t) -> find_t x t = None) /\ (forall ts, ~ In x (ids_l ts) -> find_l x ts = None).
Proof.
  split.
  - intros t H. destruct (find_t x t) eqn:E; [|reflexivity]. exfalso. apply H. exact (proj1 (proj2 (proj1 (find_some x) _ _ E))).
  - intros ts H. destruct (find_l x ts) eqn:E; [|reflexivity]. exfalso. apply H. exact (proj1 (proj2 (proj2 (find_some x) _ _ E))).
Qed.

(* a node that is not one of the roots has a parent in the forest *)
Lemma find_parent x :
  (forall t, NoDup (ids t) -> In x (ids t) -> x = rid t \/
     exists q d ls tx rs, find_t q t = Some (R q d (ls ++ tx :: rs)) /\ rid tx = x) /\
  (forall ts, NoDup (ids_l ts) -> In x (ids_l ts) ->
     (exists ls tx rs, ts = ls ++ tx :: rs /\ rid tx = x) \/
     exists q d ls tx rs, find_l q ts = Some (R q d (ls ++ tx :: rs)) /\ rid tx = x).
Proof.
  apply rt_mut_ind.
  - intros i d cs IH Hnd Hin. rewrite ids_unfold in *. apply NoDup_cons_iff in Hnd as [Hni Hnd].
    destruct Hin as [<-|Hin]; [left; reflexivity|]. right.
    destruct (IH Hnd Hin) as [(ls & tx & rs & E & Hr)|(q & dq & ls & tx & rs & E & Hr)].
    + exists i, d, ls, tx, rs. rewrite find_t_unfold, N.eqb_refl, E. auto.
    + exists q, dq, ls, tx, rs. rewrite find_t_unfold.
      destruct (N.eqb_spec i q) as [->|_]; [|auto].
      exfalso. apply Hni. exact (proj1 (proj2 (proj2 (find_some q) _ _ E))).
  - simpl. tauto.
  - intros t ts IHt IHts Hnd Hin. rewrite ids_l_cons in *. apply NoDup_app_iff in Hnd as (N1 & N2 & N3).
    apply in_app_or in Hin as [Hin|Hin].
    + destruct (IHt N1 Hin) as [->|(q & dq & ls & tx & rs & E & Hr)].
      * left. exists [], t, ts. auto.
      * right. exists q, dq, ls, tx, rs. rewrite find_l_cons, E. auto.
    + destruct (IHts N2 Hin) as [(ls & tx & rs & E & Hr)|(q & dq & ls & tx & rs & E & Hr)].
      * left. exists (t :: ls), tx, rs. rewrite E. auto.
      * right. exists q, dq, ls, tx, rs. rewrite find_l_cons.
        assert (Hq : In q (ids_l ts)) by exact (proj1 (proj2 (proj2 (find_some q) _ _ E))).
        rewrite (proj1 (find_notin q) t); [auto|]. intros Hq'. exact (N3 q Hq' Hq).
Qed.

Lemma extract_forest t F x :
  Links (heap_of t) F -> In x (ids_l F) -> ~ In x (map rid F) ->
  exists h' q dq ls tx rs, extract_node t x = TOk (mkT h' (root t) (cur_page t) (fresh t)) /\
     find_l q F = Some (R q dq (ls ++ tx :: rs)) /\ rid tx = x /\
     Links h' (replace_l q (R q dq (ls ++ rs)) F ++ [tx]) /\
     (forall i, In i (ids_l (replace_l q (R q dq (ls ++ rs)) F ++ [tx])) -> In i (ids_l F)).
Proof.
  intros (HF & HN & HC & HL) Hin Hnr.
  destruct (proj2 (find_parent x) F HN Hin) as [(ls & tx & rs & E & Hr)|(q & dq & ls & tx & rs & Hfind & Hr)].
  { exfalso. apply Hnr. rewrite E, map_app. apply in_or_app. right. simpl. auto. }
  destruct (find_rep_forest _ _ _ _ HF Hfind) as (parq & prevq & nxtq & Hsub).
  destruct (proj2 (ids_replace_split q (R q dq (ls ++ rs))) _ _ Hfind HN) as (A & B & EA & EB & ES).
  assert (Nsub : NoDup (ids (R q dq (ls ++ tx :: rs)))) by (rewrite EA in HN; apply nodup_mid in HN; tauto).
  destruct tx as [x' dx xcs]. cbn [rid] in Hr. subst x'.
  destruct (extract_run t q x dq dx parq prevq nxtq ls rs xcs Hsub Nsub) as (h' & Hrun & Hprops).
  destruct (extract_local_rep t q x dq dx parq prevq nxtq ls rs xcs Hsub Nsub h' Hprops) as (R1 & R2 & R3).
  exists h', q, dq, ls, (R x dx xcs), rs. split; [exact Hrun|]. split; [exact Hfind|]. split; [reflexivity|].
  assert (Hq : heap_of t q = Some (mkN dq parq (head_id (ls ++ R x dx xcs :: rs)) nxtq prevq)) by (apply rep_t_unfold in Hsub; tauto).
  assert (HLs : leaf_text (R q dq (ls ++ R x dx xcs :: rs)) = true) by (eapply (proj2 (find_leaf q)); eauto).
  rewrite leaf_text_unfold, forallb_app' in HLs. cbn [forallb] in HLs.
  apply andb_prop in HLs as [HL0 HLs]. apply andb_prop in HLs as [HLl HLs]. apply andb_prop in HLs as [HLx HLr].
  split; [split; [|split; [|split]] | ].
  - apply Forall_app. split; [|constructor; [exact R2 | constructor]].
    apply rep_replace_forest with (h := heap_of t); [reflexivity | | exact HF | exact HN |].
    + intros par' prev' nxt' d' c' E. rewrite Hq in E. injection E as <- <- <- <- <-. exact R1.
    + intros j Hj Hs. rewrite ES in Hs. apply R3. exact Hs.
  - rewrite ids_l_app, ids_l_single, EB. rewrite EA in HN. eapply Permutation_NoDup; [|exact HN].
    rewrite !ids_unfold, !ids_l_app, !ids_l_cons, ids_unfold. repeat rewrite <- app_assoc. cbn [app].
    apply Permutation_app_head. repeat rewrite <- app_assoc. cbn [app]. constructor. apply Permutation_app_head.
    match goal with |- Permutation ?L ?Rr =>
      replace L with ((x :: ids_l xcs) ++ (ids_l rs ++ B)) by (repeat rewrite <- app_assoc; reflexivity);
      replace Rr with ((ids_l rs ++ B) ++ (x :: ids_l xcs)) by (repeat rewrite <- app_assoc; reflexivity)
    end.
    apply Permutation_app_comm.
  - intros i Hi. rewrite ids_l_app, ids_l_single, EB.
    destruct (in_dec N.eq_dec i (ids (R q dq (ls ++ R x dx xcs :: rs)))) as [Hs|Hs].
    + clear - Hs. in_norm. tauto.
    + rewrite (R3 i Hs) in Hi. specialize (HC i Hi). rewrite EA in HC. clear - HC Hs. in_norm. tauto.
  - rewrite forallb_app'. cbn [forallb]. rewrite HLx. cbn [andb]. rewrite andb_true_r.
    refine (proj2 (leaf_replace q _ _) _ HL). rewrite leaf_text_unfold, forallb_app', HLl, HLr. cbn [andb]. rewrite andb_true_r.
    destruct (is_text dq); [|reflexivity]. cbn [negb orb] in HL0. destruct ls; discriminate.
  - intros i. rewrite ids_l_app, ids_l_single, EB, EA. intros Hi. clear - Hi. in_norm. tauto.
Qed.

(* ------------------------------------------------------------------ *)
(* wbxml_tree_node_destroy_all: the iterative walk                      *)

Definition wstate := (heap * option id * option id * list id)%type.

Fixpoint steps (k : nat) (pn : option id) (s : wstate) : tres (wstate + (heap * list id)) :=
  match k with
  | O => TOk (inl s)
  | S k' => do r <- walk_step pn s; match r with inl s' => steps k' pn s' | inr e => TOk (inr e) end
  end.

Lemma steps_trans pn : forall k1 k2 s s1 r,
  steps k1 pn s = TOk (inl s1) -> steps k2 pn s1 = r -> steps (k1 + k2) pn s = r.
Proof.
  induction k1 as [|k1 IH]; intros k2 s s1 r H1 H2.
  - simpl in H1. injection H1 as <-. exact H2.
  - simpl in *. destruct (walk_step pn s) as [[s'|e]| |]; simpl in *; try discriminate. eapply IH; eauto.
Qed.

Lemma walk_loop_steps pn : forall k f s s1,
  steps k pn s = TOk (inl s1) -> walk_loop (k + f) pn s = walk_loop f pn s1.
Proof.
  induction k as [|k IH]; intros f s s1 H.
  - simpl in H. injection H as <-. reflexivity.
  - simpl in *. destruct (walk_step pn s) as [[s'|e]| |]; simpl in *; try discriminate. apply IH. exact H.
Qed.

Definition hminus (h : heap) (l : list id) : heap := fun i => if mem i l then None else h i.

Lemma mem_in x l : mem x l = true <-> In x l.
Proof.
  unfold mem. rewrite existsb_exists. split.
  - intros (y & Hy & E). apply N.eqb_eq in E. subst. exact Hy.
  - intros H. exists x. split; [exact H | apply N.eqb_refl].
Qed.

Lemma mem_false x l : mem x l = false <-> ~ In x l.
Proof. rewrite <- mem_in. destruct (mem x l); split; congruence. Qed.

Lemma oeqb_eq a b : oeqb a b = true <-> a = b.
Proof.
  destruct a, b; simpl; try (split; congruence). rewrite N.eqb_eq. split; congruence.
Qed.

Lemma size_pos t : (1 <= size t)%nat.
Proof. destruct t. simpl. lia. Qed.

Lemma size_l_cons t ts : size_l (t :: ts) = (size t + size_l ts)%nat.
Proof. reflexivity. Qed.

Lemma size_unfold i d cs : size (R i d cs) = S (size_l cs).
Proof. reflexivity. Qed.

Definition postorder_l (ts : list rt) : list id := flat_map postorder ts.

Lemma postorder_unfold i d cs : postorder (R i d cs) = postorder_l cs ++ [i].
Proof. reflexivity. Qed.

Lemma walk_trees pn :
  (forall t h par prev nxt pv rel, rep_t h par prev nxt t -> par <> pn -> (forall y, In y (ids t) -> Some y <> pn) ->
     NoDup (ids t) ->
     exists h', steps (2 * size t) pn (h, Some (rid t), pv, rel) = TOk (inl (h', nxt, par, rev (postorder t) ++ rel)) /\
                (forall i, h' i = hminus h (ids t) i)) /\
  (forall ts h par prev rel, rep_l h par prev None ts -> par <> pn -> (forall y, In y (ids_l ts) -> Some y <> pn) ->
     NoDup (ids_l ts) ->
     exists h', steps (2 * size_l ts) pn (h, head_id ts, par, rel) = TOk (inl (h', None, par, rev (postorder_l ts) ++ rel)) /\
                (forall i, h' i = hminus h (ids_l ts) i)).
Proof.
  apply rt_mut_ind.
  - intros i d cs IH h par prev nxt pv rel Hr Hpar Hdesc Hnd.
    apply rep_t_unfold in Hr as [H1 H2]. rewrite ids_unfold in Hnd. apply NoDup_cons_iff in Hnd as [Hni Hnd].
    destruct (IH h (Some i) None rel H2) as (h1 & S1 & E1); [apply Hdesc; simpl; auto | intros y Hy; apply Hdesc; simpl; auto | exact Hnd |].
    exists (upd h1 i None). split.
    + rewrite size_unfold. replace (2 * S (size_l cs))%nat with (1 + (2 * size_l cs + 1))%nat by lia.
      eapply steps_trans.
      * cbn [steps walk_step rid]. rewrite (get_some _ _ _ H1). cbn [bind n_children]. reflexivity.
      * eapply steps_trans; [exact S1|].
        cbn [steps walk_step]. assert (G : h1 i = Some (mkN d par (head_id cs) nxt prev)).
        { rewrite E1. unfold hminus. rewrite (proj2 (mem_false i (ids_l cs)) Hni). exact H1. }
        rewrite (get_some _ _ _ G). cbn [bind n_parent n_next].
        destruct (oeqb par pn) eqn:Eo; [apply oeqb_eq in Eo; contradiction|].
        rewrite postorder_unfold, rev_app_distr. reflexivity.
    + intros j. unfold upd, hminus, free_node. rewrite ids_unfold. cbn [mem existsb]. fold (mem j (ids_l cs)).
      destruct (N.eqb_spec j i) as [->|Hne]; [reflexivity|]. rewrite E1. unfold hminus. cbn [orb]. reflexivity.
  - intros h par prev rel _ _ _ _. exists h. split; [reflexivity|]. intros i. reflexivity.
  - intros t ts IHt IHts h par prev rel Hr Hpar Hdesc Hnd.
    apply rep_l_cons in Hr as [Ha Hb]. rewrite ids_l_cons in Hnd. apply NoDup_app_iff in Hnd as (N1 & N2 & N3).
    destruct (IHt h par prev (head_or None ts) par rel Ha Hpar) as (h1 & S1 & E1);
      [intros y Hy; apply Hdesc; rewrite ids_l_cons; apply in_or_app; auto | exact N1 |].
    assert (Hb1 : rep_l h1 par (Some (rid t)) None ts).
    { eapply rep_l_frame; [|exact Hb]. intros j Hj. rewrite E1. unfold hminus.
      rewrite (proj2 (mem_false j (ids t))); [reflexivity|]. intros Hj'. exact (N3 j Hj' Hj). }
    destruct (IHts h1 par (Some (rid t)) (rev (postorder t) ++ rel) Hb1 Hpar) as (h2 & S2 & E2);
      [intros y Hy; apply Hdesc; rewrite ids_l_cons; apply in_or_app; auto | exact N2 |].
    exists h2. split.
    + rewrite size_l_cons. replace (2 * (size t + size_l ts))%nat with (2 * size t + 2 * size_l ts)%nat by lia.
      eapply steps_trans; [exact S1|]. rewrite head_or_None. rewrite S2.
      unfold postorder_l. cbn [flat_map]. rewrite rev_app_distr, <- app_assoc. reflexivity.
    + intros j. rewrite E2. unfold hminus. rewrite E1. unfold hminus. rewrite ids_l_cons.
      assert (M : mem j (ids t ++ ids_l ts) = mem j (ids_l ts) || mem j (ids t)) by (unfold mem; rewrite existsb_app; apply orb_comm).
      rewrite M. destruct (mem j (ids_l ts)), (mem j (ids t)); reflexivity.
Qed.

Lemma destroy_all_spec fuel h tn par prev nxt :
  rep_t h par prev nxt tn -> NoDup (ids tn) -> (forall y, In y (ids tn) -> Some y <> par) ->
  (2 * size tn <= fuel)%nat ->
  exists h', destroy_all fuel h (rid tn) = TOk (h', rev (postorder tn)) /\ (forall i, h' i = hminus h (ids tn) i).
Proof.
  destruct tn as [n d cs]. intros Hr Hnd Hdesc Hfuel. pose proof Hr as Hr0.
  apply rep_t_unfold in Hr as [H1 H2]. rewrite ids_unfold in Hnd. apply NoDup_cons_iff in Hnd as [Hni Hnd].
  destruct (proj2 (walk_trees par) cs h (Some n) None [] H2) as (h1 & S1 & E1);
    [apply Hdesc; simpl; auto | intros y Hy; apply Hdesc; simpl; auto | exact Hnd |].
  assert (G : h1 n = Some (mkN d par (head_id cs) nxt prev)).
  { rewrite E1. unfold hminus. rewrite (proj2 (mem_false n (ids_l cs)) Hni). exact H1. }
  exists (upd h1 n None). split.
  - unfold destroy_all. cbn [rid]. rewrite (get_some _ _ _ H1). cbn [bind n_parent].
    rewrite size_unfold in Hfuel.
    replace fuel with ((1 + 2 * size_l cs) + S (fuel - 2 * size_l cs - 2))%nat by lia.
    rewrite (walk_loop_steps par (1 + 2 * size_l cs) _ _ (h1, None, Some n, rev (postorder_l cs) ++ [])).
    + cbn [walk_loop walk_step]. rewrite (get_some _ _ _ G). cbn [bind n_parent].
      rewrite (proj2 (oeqb_eq par par) eq_refl). cbn [bind]. rewrite (get_some _ _ _ G). cbn [bind].
      rewrite app_nil_r, postorder_unfold, rev_app_distr. reflexivity.
    + eapply steps_trans; [|exact S1]. cbn [steps walk_step]. rewrite (get_some _ _ _ H1). reflexivity.
  - intros j. unfold upd, hminus. rewrite ids_unfold. cbn [mem existsb]. fold (mem j (ids_l cs)).
    destruct (N.eqb_spec j n) as [->|Hne]; [reflexivity|]. rewrite E1. unfold hminus. reflexivity.
Qed.

Lemma postorder_perm : (forall t, Permutation (postorder t) (ids t)) /\ (forall ts, Permutation (postorder_l ts) (ids_l ts)).
Proof.
  apply rt_mut_ind.
  - intros i d cs IH. rewrite postorder_unfold, ids_unfold. rewrite <- Permutation_cons_append. constructor. exact IH.
  - constructor.
  - intros t ts IHt IHts. unfold postorder_l. cbn [flat_map]. rewrite ids_l_cons. apply Permutation_app; assumption.
Qed.

(* destroying a detached sub-tree of the forest *)
Lemma destroy_forest fuel h F1 tn F2 :
  Links h (F1 ++ tn :: F2) -> (2 * size tn <= fuel)%nat ->
  exists h', destroy_all fuel h (rid tn) = TOk (h', rev (postorder tn)) /\ Links h' (F1 ++ F2) /\
             (forall i, h' i = hminus h (ids tn) i).
Proof.
  intros (HF & HN & HC & HL) Hfuel.
  apply Forall_app in HF as [HF1 HF2]. apply Forall_cons_iff in HF2 as [Htn HF2].
  rewrite ids_l_mid in HN. destruct (nodup_mid _ _ _ HN) as (N12 & Ntn & Ndis). rewrite <- ids_l_app in N12, Ndis.
  destruct (destroy_all_spec fuel h tn None None None Htn Ntn) as (h' & Hrun & E); [discriminate | exact Hfuel |].
  exists h'. split; [exact Hrun|]. split; [|exact E].
  assert (Fr : forall j, In j (ids_l (F1 ++ F2)) -> h' j = h j).
  { intros j Hj. rewrite E. unfold hminus. rewrite (proj2 (mem_false j (ids tn))); [reflexivity|].
    intros Hj'. exact (Ndis j Hj' Hj). }
  assert (HF12 : Forall (rep_t h None None None) (F1 ++ F2)) by (apply Forall_app; auto).
  split; [|split; [exact N12|split]].
  - rewrite Forall_forall in *. intros t Ht. eapply rep_frame; [|exact (HF12 t Ht)].
    intros j Hj. apply Fr. eapply in_ids_l; eauto.
  - intros i Hi. rewrite E in Hi. unfold hminus in Hi. destruct (mem i (ids tn)) eqn:M; [congruence|].
    apply mem_false in M. specialize (HC i Hi). rewrite ids_l_mid in HC. rewrite ids_l_app. clear - HC M. in_norm. tauto.
  - rewrite forallb_app' in *. cbn [forallb] in HL. apply andb_prop in HL as [L1 L2]. apply andb_prop in L2 as [_ L2].
    rewrite L1, L2. reflexivity.
Qed.

(* ------------------------------------------------------------------ *)
(* the abstraction function and the encoder's walk                      *)

Lemma abs_list_none fuel h : abs_list fuel h None = [].
Proof. destruct fuel; reflexivity. Qed.

Lemma abs_rep h : forall fuel ts par prev, rep_l h par prev None ts -> (size_l ts <= fuel)%nat ->
  abs_list fuel h (head_id ts) = ts.
Proof.
  induction fuel as [|f IH]; intros ts par prev Hr Hs.
  - destruct ts as [|t ts]; [reflexivity|]. rewrite size_l_cons in Hs. pose proof (size_pos t). lia.
  - destruct ts as [|[c d cs] rest]; [reflexivity|].
    apply rep_l_cons in Hr as [Ha Hb]. apply rep_t_unfold in Ha as [Ha Hc].
    rewrite size_l_cons, size_unfold in Hs.
    cbn [head_id rid abs_list]. rewrite Ha. cbn [n_data n_children n_next].
    rewrite (IH cs (Some c) None Hc) by lia. fold (head_id rest).
    rewrite (IH rest par (Some c) Hb) by lia. reflexivity.
Qed.

Lemma enc_walk_rep h : forall fuel ts par prev, rep_l h par prev None ts -> (size_l ts < fuel)%nat ->
  enc_walk fuel h (head_id ts) = TOk (flat_map events (map erase ts)).
Proof.
  induction fuel as [|f IH]; intros ts par prev Hr Hs; [lia|].
  destruct ts as [|[c d cs] rest]; [reflexivity|].
  apply rep_l_cons in Hr as [Ha Hb]. apply rep_t_unfold in Ha as [Ha Hc].
  rewrite size_l_cons, size_unfold in Hs.
  cbn [head_id rid enc_walk]. rewrite (get_some _ _ _ Ha). cbn [bind n_data n_children n_next].
  rewrite (IH cs (Some c) None Hc) by lia. cbn [bind]. fold (head_id rest).
  rewrite (IH rest par (Some c) Hb) by lia. cbn [bind map flat_map erase events].
  assert (E : match head_id cs with Some _ => true | None => false end =
              match map erase cs with [] => false | _ :: _ => true end) by (destruct cs; reflexivity).
  rewrite E. cbn [app]. rewrite <- app_assoc. reflexivity.
Qed.

(* ------------------------------------------------------------------ *)
(* more forest-level facts                                              *)

Lemma Links_perm h F F' : Permutation F F' -> Links h F -> Links h F'.
Proof.
  intros P (H1 & H2 & H3 & H4).
  assert (PI : Permutation (ids_l F) (ids_l F')) by (apply Permutation_flat_map; exact P).
  split; [|split; [|split]].
  - eapply Permutation_Forall; eauto.
  - eapply Permutation_NoDup; eauto.
  - intros i Hi. eapply Permutation_in; eauto.
  - apply forallb_forall. intros t Ht. rewrite forallb_forall in H4. apply H4. eapply Permutation_in; [symmetry; exact P | exact Ht].
Qed.

Lemma links_lookup h F n : Links h F -> In n (ids_l F) ->
  exists s par prev nxt, find_l n F = Some s /\ rid s = n /\
    h n = Some (mkN (rdata s) par (head_id (rkids s)) nxt prev).
Proof.
  intros (HF & _) Hin. destruct (proj2 (find_in n) F Hin) as (s & Hs).
  destruct (find_rep_forest _ _ _ _ HF Hs) as (par & prev & nxt & Hr).
  destruct (proj2 (find_some n) _ _ Hs) as (Hrid & _).
  exists s, par, prev, nxt. split; [exact Hs|]. split; [exact Hrid|].
  destruct s as [i d cs]. cbn [rid] in Hrid. subst i. apply rep_t_unfold in Hr. tauto.
Qed.

Lemma size_ids : (forall t, size t = length (ids t)) /\ (forall ts, size_l ts = length (ids_l ts)).
Proof.
  apply rt_mut_ind.
  - intros i d cs IH. rewrite size_unfold, ids_unfold. simpl. rewrite IH. reflexivity.
  - reflexivity.
  - intros t ts IHt IHts. rewrite size_l_cons, ids_l_cons, app_length. lia.
Qed.

Lemma length_le_size_l ts : (length ts <= size_l ts)%nat.
Proof. induction ts as [|t ts IH]; [simpl; lia|]. rewrite size_l_cons. pose proof (size_pos t). simpl. lia. Qed.

Lemma bounded_nodup_length (l : list N) (b : N) : NoDup l -> (forall x, In x l -> x < b) -> (length l <= N.to_nat b)%nat.
Proof.
  intros Hnd Hb. rewrite <- (seq_length (N.to_nat b) 0), <- (map_length N.of_nat).
  apply NoDup_incl_length; [exact Hnd|]. intros x Hx. apply in_map_iff. exists (N.to_nat x).
  split; [apply Nnat.N2Nat.id|]. apply in_seq. specialize (Hb x Hx). lia.
Qed.

Lemma incl_length_nodup (l l' : list N) : NoDup l -> incl l l' -> (length l <= length l')%nat.
Proof. apply NoDup_incl_length. Qed.

Lemma map_rid_replace p new F : rid new = p -> map rid (replace_l p new F) = map rid F.
Proof.
  intros H. unfold replace_l. rewrite map_map. apply map_ext. intros t. apply rid_replace. exact H.
Qed.

Lemma nodup_rids F : NoDup (ids_l F) -> NoDup (map rid F).
Proof.
  induction F as [|t F IH]; [constructor|]. rewrite ids_l_cons, NoDup_app_iff. intros (H1 & H2 & H3).
  cbn [map]. constructor; [|apply IH; exact H2].
  intros Hin. apply in_map_iff in Hin as (t' & E & Ht'). apply (H3 (rid t) (rid_in_ids t)).
  rewrite <- E. eapply in_ids_l; [exact Ht' | apply rid_in_ids].
Qed.

Lemma remove_id_notin x l : ~ In x l -> remove_id x l = l.
Proof.
  unfold remove_id. induction l as [|a l IH]; [reflexivity|]. intros H. simpl.
  destruct (N.eqb_spec a x) as [->|Hne]; [exfalso; apply H; simpl; auto|]. cbn [negb]. rewrite IH; [reflexivity|].
  intro; apply H; simpl; auto.
Qed.

Lemma remove_id_mid x l1 l2 : NoDup (l1 ++ x :: l2) -> remove_id x (l1 ++ x :: l2) = l1 ++ l2.
Proof.
  intros Hnd. apply NoDup_remove in Hnd as [_ Hni].
  assert (E : remove_id x (l1 ++ x :: l2) = remove_id x l1 ++ remove_id x l2).
  { unfold remove_id. rewrite filter_app. cbn [filter]. rewrite N.eqb_refl. reflexivity. }
  rewrite E, !remove_id_notin; [reflexivity | |]; intro; apply Hni; apply in_or_app; auto.
Qed.

Lemma split_by_rid F n : In n (map rid F) -> exists F1 tn F2, F = F1 ++ tn :: F2 /\ rid tn = n.
Proof.
  intros H. apply in_map_iff in H as (tn & E & Hin). apply in_split in Hin as (F1 & F2 & ->). eauto.
Qed.


(* ------------------------------------------------------------------ *)
(* adjacent text siblings                                               *)

Definition nat_pres (F F' : list rt) : Prop := no_adjacent_text F = true -> no_adjacent_text F' = true.

Lemma nat_t_unfold i d cs : no_adjacent_text_t (R i d cs) = negb (adjacent_text cs) && no_adjacent_text cs.
Proof. reflexivity. Qed.

Lemma adjacent_cons2 a b r : adjacent_text (a :: b :: r) = (is_text (rdata a) && is_text (rdata b)) || adjacent_text (b :: r).
Proof. reflexivity. Qed.

Lemma adjacent_snoc l x y :
  adjacent_text (l ++ [x; y]) = adjacent_text (l ++ [x]) || (is_text (rdata x) && is_text (rdata y)).
Proof.
  induction l as [|a l IH]; [simpl; rewrite orb_false_r; reflexivity|].
  destruct l as [|b l].
  - simpl. rewrite !orb_false_r. reflexivity.
  - change ((a :: b :: l) ++ [x; y]) with (a :: b :: (l ++ [x; y])). change ((a :: b :: l) ++ [x]) with (a :: b :: (l ++ [x])).
    rewrite !adjacent_cons2. change (b :: l ++ [x; y]) with ((b :: l) ++ [x; y]). change (b :: l ++ [x]) with ((b :: l) ++ [x]).
    rewrite IH, orb_assoc. reflexivity.
Qed.

Lemma adjacent_last_same l x x' : is_text (rdata x') = is_text (rdata x) -> adjacent_text (l ++ [x']) = adjacent_text (l ++ [x]).
Proof.
  intros E. induction l as [|a l IH]; [reflexivity|]. destruct l as [|b l].
  - simpl. rewrite E. reflexivity.
  - change ((a :: b :: l) ++ [x']) with (a :: b :: (l ++ [x'])). change ((a :: b :: l) ++ [x]) with (a :: b :: (l ++ [x])).
    rewrite !adjacent_cons2. change (b :: l ++ [x']) with ((b :: l) ++ [x']). change (b :: l ++ [x]) with ((b :: l) ++ [x]).
    rewrite IH. reflexivity.
Qed.

Lemma nat_app a b : no_adjacent_text (a ++ b) = no_adjacent_text a && no_adjacent_text b.
Proof. unfold no_adjacent_text. apply forallb_app'. Qed.

(* appending with merge never creates adjacent text *)
Lemma nat_snoc_merge cs tn : adjacent_text cs = false -> no_adjacent_text cs = true -> no_adjacent_text_t tn = true ->
  adjacent_text (snoc_merge cs tn) = false /\ no_adjacent_text (snoc_merge cs tn) = true.
Proof.
  intros H1 H2 H3. destruct (rev_cases cs) as [->|(l & x & ->)].
  - simpl. rewrite H3. auto.
  - rewrite snoc_merge_app. rewrite nat_app in H2. apply andb_prop in H2 as [H2 H4].
    unfold no_adjacent_text in H4. cbn [forallb] in H4. rewrite andb_true_r in H4.
    destruct x as [m dm mk]. destruct tn as [i di ncs].
    assert (Gen : is_text dm && is_text di = false ->
                  adjacent_text (l ++ [R m dm mk; R i di ncs]) = false /\ no_adjacent_text (l ++ [R m dm mk; R i di ncs]) = true).
    { intros K. split.
      - rewrite adjacent_snoc, H1. cbn [rdata orb]. exact K.
      - rewrite nat_app, H2. unfold no_adjacent_text. cbn [forallb andb]. rewrite H4, H3. reflexivity. }
    destruct dm; try (apply Gen; reflexivity). destruct di; try (apply Gen; cbn; rewrite ?andb_false_r; reflexivity).
    split.
    + rewrite (adjacent_last_same l (R m (DText content) mk)); [exact H1 | reflexivity].
    + rewrite nat_app, H2. unfold no_adjacent_text. cbn [forallb andb]. rewrite andb_true_r.
      rewrite nat_t_unfold in *. exact H3.
Qed.

Lemma find_nat x :
  (forall t s, find_t x t = Some s -> no_adjacent_text_t t = true -> no_adjacent_text_t s = true) /\
  (forall ts s, find_l x ts = Some s -> no_adjacent_text ts = true -> no_adjacent_text_t s = true).
Proof.
  apply rt_mut_ind.
  - intros i d cs IH s. rewrite find_t_unfold. destruct (i =? x); [intros [= <-]; auto|].
    intros H. rewrite nat_t_unfold. intros HL. apply andb_prop in HL as [_ HL]. eauto.
  - discriminate.
  - intros t ts IHt IHts s. rewrite find_l_cons. unfold no_adjacent_text. cbn [forallb]. intros H HL. apply andb_prop in HL as [H1 H2].
    destruct (find_t x t) eqn:E; [injection H as <-; eauto | eauto].
Qed.

(* replacing a sub-tree by one whose root is not text *)
Lemma adjacent_replace p new : is_text (rdata new) = false -> forall cs,
  adjacent_text cs = false -> adjacent_text (replace_l p new cs) = false.
Proof.
  intros Hn.
  assert (Hm : forall t, is_text (rdata (replace_t p new t)) = true -> is_text (rdata t) = true).
  { intros [i d cs]. simpl. destruct (i =? p); [rewrite Hn; discriminate | auto]. }
  induction cs as [|a cs IH]; [reflexivity|]. destruct cs as [|b cs]; [reflexivity|].
  unfold replace_l in *. cbn [map] in *. rewrite !adjacent_cons2. intros H. apply orb_false_elim in H as [H1 H2].
  rewrite (IH H2), orb_false_r.
  destruct (is_text (rdata (replace_t p new a))) eqn:Ea; [|reflexivity].
  destruct (is_text (rdata (replace_t p new b))) eqn:Eb; [|reflexivity].
  rewrite (Hm _ Ea), (Hm _ Eb) in H1. discriminate.
Qed.

Lemma nat_replace p new : is_text (rdata new) = false -> no_adjacent_text_t new = true ->
  (forall t, no_adjacent_text_t t = true -> no_adjacent_text_t (replace_t p new t) = true) /\
  (forall ts, no_adjacent_text ts = true -> no_adjacent_text (replace_l p new ts) = true).
Proof.
  intros Hk Hn. apply rt_mut_ind.
  - intros i d cs IH. simpl replace_t. destruct (i =? p); [auto|]. rewrite !nat_t_unfold.
    intros HL. apply andb_prop in HL as [H1 H2]. fold (replace_l p new cs). rewrite (IH H2), andb_true_r.
    apply negb_true_iff in H1. rewrite (adjacent_replace p new Hk cs H1). reflexivity.
  - auto.
  - intros t ts IHt IHts. unfold replace_l, no_adjacent_text. cbn [map forallb]. intros HL. apply andb_prop in HL as [H1 H2].
    rewrite (IHt H1). exact (IHts H2).
Qed.

(* the forest after wbxml_tree_add_node: no adjacent text if there was none *)
Lemma nat_add F1 tn F2 q ds cs : find_l q (F1 ++ F2) = Some (R q ds cs) -> is_text ds = false ->
  nat_pres (F1 ++ tn :: F2) (replace_l q (R q ds (snoc_merge cs tn)) (F1 ++ F2)).
Proof.
  intros Hfind Hd H. rewrite nat_app in H. unfold no_adjacent_text at 2 in H. cbn [forallb] in H.
  apply andb_prop in H as [H1 H]. apply andb_prop in H as [Ht H2].
  assert (H12 : no_adjacent_text (F1 ++ F2) = true) by (rewrite nat_app, H1; exact H2).
  pose proof (proj2 (find_nat q) _ _ Hfind H12) as Hs. rewrite nat_t_unfold in Hs. apply andb_prop in Hs as [Ha Hb].
  apply negb_true_iff in Ha. destruct (nat_snoc_merge cs tn Ha Hb Ht) as [A B].
  refine (proj2 (nat_replace q (R q ds (snoc_merge cs tn)) Hd _) _ H12). rewrite nat_t_unfold, A, B. reflexivity.
Qed.

Lemma nat_set_data F n sub d' : find_l n F = Some sub -> is_text d' = false ->
  nat_pres F (replace_l n (R n d' (rkids sub)) F).
Proof.
  intros Hfind Hd H. pose proof (proj2 (find_nat n) _ _ Hfind H) as Hs. destruct sub as [i d cs]. cbn [rkids].
  rewrite nat_t_unfold in Hs. refine (proj2 (nat_replace n (R n d' cs) Hd _) _ H). rewrite nat_t_unfold. exact Hs.
Qed.

(* ------------------------------------------------------------------ *)
(* the invariant of a caller state and its preservation                 *)

Definition roots (t : tstate) (det : list id) : list id := match root t with Some r => [r] | None => [] end ++ det.

Definition Inv (t : tstate) (det : list id) (F : list rt) : Prop :=
  Links (heap_of t) F /\ map rid F = roots t det /\ (forall i, In i (ids_l F) -> i < fresh t).

Lemma inv_sizes t det F : Inv t det F ->
  (forall p sub, find_l p F = Some sub -> (size sub <= N.to_nat (fresh t))%nat) /\
  (forall tn, In tn F -> (size tn <= N.to_nat (fresh t))%nat).
Proof.
  intros ((HF & HN & HC & HL) & _ & Hb).
  assert (Hlen : (length (ids_l F) <= N.to_nat (fresh t))%nat) by (apply bounded_nodup_length; assumption).
  split.
  - intros p sub Hfind. rewrite (proj1 size_ids).
    destruct (proj2 (ids_replace_split p sub) _ _ Hfind HN) as (A & B & EA & _ & _).
    rewrite EA, !app_length in Hlen. lia.
  - intros tn Hin. rewrite (proj1 size_ids). apply in_split in Hin as (F1 & F2 & ->).
    rewrite ids_l_mid, !app_length in Hlen. lia.
Qed.

(* a non-text node keeps its data through add_node *)
Lemma add_node_data fuel t p n t' nn : add_node fuel t p n = TOk t' -> heap_of t n = Some nn ->
  is_text (n_data nn) = false -> exists nn', heap_of t' n = Some nn' /\ n_data nn' = n_data nn.
Proof.
  unfold add_node. intros H Hn Ht. rewrite (get_some _ _ _ Hn) in H. cbn [bind] in H.
  destruct p as [p|].
  - set (h1 := upd (heap_of t) n (Some (set_parent nn (Some p)))) in *.
    destruct (get h1 p) as [pn| |] eqn:Ep; cbn [bind] in H; try discriminate.
    destruct (n_children pn) as [c|].
    + destruct (last_sibling fuel h1 c) as [tmp| |]; cbn [bind] in H; try discriminate.
      destruct (get h1 tmp) as [tn| |] eqn:Et; cbn [bind] in H; try discriminate.
      assert (E1 : get h1 n = TOk (set_parent nn (Some p))) by (unfold h1; apply get_upd_same).
      rewrite E1 in H. cbn [bind] in H. unfold set_parent in H at 1. cbn [n_data] in H.
      assert (K : exists tn2, get (upd h1 n (Some (set_prev (set_parent nn (Some p)) (Some tmp)))) tmp = TOk tn2 /\
                  (tmp = n -> n_data tn2 = n_data nn)).
      { destruct (N.eqb_spec tmp n) as [->|Hne].
        - rewrite get_upd_same. eexists. split; [reflexivity|]. intros _. reflexivity.
        - rewrite get_upd_other by exact Hne. rewrite Et. eexists. split; [reflexivity|]. intros; contradiction. }
      destruct K as (tn2 & K1 & K2).
      destruct (n_data nn) eqn:Ed; try discriminate; rewrite K1 in H; cbn [bind] in H; injection H as <-; cbn [heap_of with_heap];
        (destruct (N.eqb_spec tmp n) as [->|Hne];
         [rewrite upd_same; eexists; split; [reflexivity|]; unfold set_next; cbn [n_data]; exact (K2 eq_refl)
         |rewrite upd_other by congruence; rewrite upd_same; eexists; split; [reflexivity|];
          unfold set_prev, set_parent; cbn [n_data]; exact Ed]).
    + injection H as <-. cbn [heap_of with_heap]. destruct (N.eqb_spec p n) as [->|Hne].
      * rewrite upd_same. eexists. split; [reflexivity|]. unfold set_children. cbn [n_data].
        unfold h1 in Ep. rewrite get_upd_same in Ep. injection Ep as <-. reflexivity.
      * rewrite upd_other by congruence. unfold h1. rewrite upd_same. eexists. split; reflexivity.
  - destruct (root t); [discriminate|]. injection H as <-. cbn [heap_of]. rewrite upd_same. eexists. split; reflexivity.
Qed.

Lemma inv_fresh_free t det F : Inv t det F -> heap_of t (fresh t) = None.
Proof.
  intros ((_ & _ & HC & _) & _ & Hb). destruct (heap_of t (fresh t)) eqn:E; [|reflexivity].
  exfalso. assert (H : fresh t < fresh t) by (apply Hb, HC; rewrite E; discriminate). lia.
Qed.

Lemma parent_ok_some h q : parent_ok h (Some q) = true -> exists pn, h q = Some pn /\ is_text (n_data pn) = false.
Proof.
  unfold parent_ok. destruct (h q) as [pn|]; [|discriminate]. intros H. exists pn. split; [reflexivity|].
  destruct (is_text (n_data pn)); [discriminate | reflexivity].
Qed.

(* (A) the common tail of the wbxml_tree_add_* functions *)
Lemma add_new_inv fuel t det F p d :
  Inv t det F -> parent_ok (heap_of t) p = true -> (fuel_of t <= fuel)%nat ->
  exists t' r F', add_new fuel t p d = TOk (t', r) /\ Inv t' det F' /\ fresh t' = fresh t + 1 /\
     (forall n, r = Some n -> n = fresh t /\ In n (ids_l F') /\
        (is_text d = false -> exists nn, heap_of t' n = Some nn /\ n_data nn = d)) /\
     nat_pres F F'.
Proof.
  intros HI Hpar Hfuel. pose proof (inv_fresh_free _ _ _ HI) as Hfree. pose proof (inv_sizes _ _ _ HI) as [Hsz _].
  destruct HI as (HL & Hroots & Hb).
  set (n := fresh t). set (h := heap_of t) in *.
  set (h1 := upd h n (Some (mkN d None None None None))).
  set (t1 := mkT h1 (root t) (cur_page t) (n + 1)).
  assert (HL1 : Links h1 (F ++ [R n d []])) by (apply alloc_forest; assumption).
  assert (Hb1 : forall i, In i (ids_l (F ++ [R n d []])) -> i < n + 1).
  { intros i. rewrite ids_l_app, ids_l_single. intros Hi. apply in_app_or in Hi as [Hi|[<-|[]]]; [specialize (Hb i Hi)|]; unfold n; lia. }
  unfold add_new, alloc. fold n h h1 t1.
  destruct p as [q|].
  - (* below a parent *)
    destruct (parent_ok_some _ _ Hpar) as (pn & Hq & Hqt).
    assert (Hqin : In q (ids_l F)) by (destruct HL as (_ & _ & HC & _); apply HC; fold h; rewrite Hq; discriminate).
    destruct (links_lookup _ _ _ HL Hqin) as (sub & par & prev & nxt & Hfind & Hrid & Hqr).
    fold h in Hqr. rewrite Hq in Hqr. injection Hqr as Hqr.
    assert (Hfind' : find_l q (F ++ []) = Some sub) by (rewrite app_nil_r; exact Hfind).
    destruct (add_node_forest fuel t1 F (R n d []) [] q sub HL1 Hfind') as (h' & Hrun & HL' & Hincl & Hhas).
    { rewrite Hqr in Hqt. exact Hqt. }
    { specialize (Hsz q sub Hfind). destruct sub as [i ds cs]. rewrite size_unfold in Hsz. cbn [rkids].
      pose proof (length_le_size_l cs). unfold fuel_of in Hfuel. lia. }
    cbn [rid] in Hrun. rewrite Hrun.
    exists (with_heap t1 h'), (Some n), (replace_l q (R q (rdata sub) (snoc_merge (rkids sub) (R n d []))) (F ++ [])).
    split; [reflexivity|]. split; [|split; [reflexivity|split]].
    + split; [exact HL'|]. split.
      * rewrite map_rid_replace by reflexivity. rewrite app_nil_r. exact Hroots.
      * intros i Hi. apply Hincl in Hi. apply Hb1. exact Hi.
    + intros n' [= <-]. split; [reflexivity|]. split; [exact Hhas|]. intros Hd.
      destruct (add_node_data fuel t1 (Some q) n _ (mkN d None None None None) Hrun) as (nn' & E1 & E2);
        [unfold t1, h1; cbn [heap_of]; apply upd_same | exact Hd |].
      exists nn'. split; [exact E1 | exact E2].
    + intros H. destruct sub as [q' ds cs]. cbn [rid rdata rkids] in *. subst q'.
      apply (nat_add F (R n d []) [] q ds cs Hfind'); [rewrite Hqr in Hqt; exact Hqt|].
      rewrite nat_app, H. reflexivity.
  - (* as the root *)
    unfold add_node. cbn [heap_of t1]. unfold h1 at 1. rewrite get_upd_same. cbn [bind root t1].
    destruct (root t) as [r|] eqn:Er.
    + exists (with_heap t1 (free_node (heap_of t1) n)), None, F. split; [reflexivity|]. split; [|split; [reflexivity | split; [discriminate | intros H; exact H]]].
      split; [|split].
      * eapply Links_ext; [|exact HL]. intros i. cbn [heap_of with_heap t1]. unfold free_node, h1, upd.
        destruct (N.eqb_spec i n) as [->|_]; [symmetry; exact Hfree | reflexivity].
      * unfold roots in *. unfold t1. cbn [root with_heap]. rewrite Er in Hroots. exact Hroots.
      * intros i Hi. cbn [fresh with_heap t1]. specialize (Hb i Hi). fold n in Hb. lia.
    + eexists _, (Some n), (R n d [] :: F). split; [reflexivity|]. split; [|split; [reflexivity|split]].
      * split; [|split].
        -- cbn [heap_of]. apply Links_perm with (F := F ++ [R n d []]); [apply Permutation_sym, Permutation_cons_append|].
           eapply Links_ext; [|exact HL1]. intros i. unfold upd. destruct (N.eqb_spec i n) as [->|_]; [|reflexivity].
           unfold h1. rewrite upd_same. reflexivity.
        -- unfold roots in *. cbn [root map rid]. rewrite Er in Hroots. rewrite Hroots. reflexivity.
        -- intros i Hi. cbn [fresh]. apply Hb1. rewrite ids_l_app, ids_l_single. rewrite ids_l_cons in Hi.
           apply in_or_app. apply in_app_or in Hi. tauto.
      * intros n' [= <-]. split; [reflexivity|]. split; [rewrite ids_l_cons; apply in_or_app; left; simpl; auto|].
        intros _. cbn [heap_of]. rewrite upd_same. eexists. split; reflexivity.
      * intros H. unfold no_adjacent_text in *. cbn [forallb no_adjacent_text_t adjacent_text negb andb]. exact H.
Qed.

(* (B) a node's data is replaced by data that is not text *)
Lemma set_data_inv t det F n r d' :
  Inv t det F -> heap_of t n = Some r -> is_text d' = false ->
  exists F', Inv (with_heap t (upd (heap_of t) n (Some (set_data r d')))) det F' /\ nat_pres F F'.
Proof.
  intros (HL & Hroots & Hb) Hn Hd.
  assert (Hin : In n (ids_l F)) by (destruct HL as (_ & _ & HC & _); apply HC; rewrite Hn; discriminate).
  destruct (links_lookup _ _ _ HL Hin) as (sub & par & prev & nxt & Hfind & Hrid & _).
  exists (replace_l n (R n d' (rkids sub)) F). split; [|exact (nat_set_data F n sub d' Hfind Hd)]. split; [|split].
  - cbn [heap_of with_heap]. eapply set_data_forest; eauto.
  - rewrite map_rid_replace by reflexivity. exact Hroots.
  - intros i Hi. cbn [fresh with_heap]. apply Hb.
    destruct HL as (_ & HN & _). destruct (proj2 (ids_replace_split n (R n d' (rkids sub))) _ _ Hfind HN) as (A & B & EA & EB & _).
    rewrite EB in Hi. rewrite EA. destruct sub as [n' ds cs]. cbn [rid] in Hrid. subst n'. cbn [rkids] in *.
    rewrite ids_unfold in *. exact Hi.
Qed.

Lemma Inv_cur_page t det F cp : Inv t det F -> Inv (mkT (heap_of t) (root t) cp (fresh t)) det F.
Proof. intros H. exact H. Qed.

Lemma CLinks_Inv c : CLinks c <-> exists F, Inv (ts c) (det c) F.
Proof. unfold CLinks, Inv, roots, roots_of. split; intros (F & H); exists F; exact H. Qed.

Lemma nat_pres_refl F : nat_pres F F.
Proof. intros H; exact H. Qed.

Lemma nat_pres_trans F G H : nat_pres F G -> nat_pres G H -> nat_pres F H.
Proof. unfold nat_pres. auto. Qed.

Lemma node_add_attrs_inv t det F n ats :
  Inv t det F -> heap_of t n <> None ->
  exists h' F', node_add_attrs (heap_of t) n ats = TOk h' /\ Inv (with_heap t h') det F' /\ nat_pres F F' /\
    (forall nn, heap_of t n = Some nn -> is_text (n_data nn) = false ->
       exists nn', h' n = Some nn' /\ is_text (n_data nn') = false).
Proof.
  intros HI Hn. unfold node_add_attrs. destruct (heap_of t n) as [nn|] eqn:E; [|congruence].
  rewrite (get_some _ _ _ E). cbn [bind]. destruct (n_data nn) as [tg old| | | |] eqn:Ed.
  - destruct (set_data_inv t det F n nn (DElt tg (old ++ ats)) HI E eq_refl) as (F' & HI' & HP).
    eexists _, F'. split; [reflexivity|]. split; [exact HI'|]. split; [exact HP|].
    intros nn0 [= <-] _. rewrite upd_same. eexists. split; reflexivity.
  - eexists _, F. split; [reflexivity|]. split; [destruct t; exact HI|]. split; [apply nat_pres_refl|].
    intros nn0 [= <-] H. rewrite Ed in H. discriminate.
  - eexists _, F. split; [reflexivity|]. split; [destruct t; exact HI|]. split; [apply nat_pres_refl|].
    intros nn0 [= <-] H. exists nn. rewrite Ed. auto.
  - eexists _, F. split; [reflexivity|]. split; [destruct t; exact HI|]. split; [apply nat_pres_refl|].
    intros nn0 [= <-] H. exists nn. rewrite Ed. auto.
  - eexists _, F. split; [reflexivity|]. split; [destruct t; exact HI|]. split; [apply nat_pres_refl|].
    intros nn0 [= <-] H. exists nn. rewrite Ed. auto.
Qed.

(* every add function of the API: the result state satisfies the invariant, the allocator moved by at most 2,
   no adjacent text siblings appear *)
Definition add_ok (t : tstate) (det : list id) (F : list rt) (res : tres (tstate * option id)) : Prop :=
  exists t' r F', res = TOk (t', r) /\ Inv t' det F' /\ (fuel_of t' <= S (S (fuel_of t)))%nat /\ nat_pres F F'.

Lemma fuel_of_succ t t' : fresh t' = fresh t + 1 -> fuel_of t' = S (fuel_of t).
Proof. unfold fuel_of. intros ->. rewrite N.add_1_r, Nnat.N2Nat.inj_succ. reflexivity. Qed.

Lemma add_elt_with_attrs_ok fuel t det F p tag ats :
  Inv t det F -> parent_ok (heap_of t) p = true -> (fuel_of t <= fuel)%nat ->
  add_ok t det F (add_elt_with_attrs fuel t p tag ats).
Proof.
  intros HI Hp Hf. unfold add_elt_with_attrs, add_elt.
  destruct (add_new_inv fuel t det F p (DElt tag []) HI Hp Hf) as (t1 & r & F1 & Hrun & HI1 & Hfr & Hr & HP1).
  rewrite Hrun. cbn [bind]. destruct r as [n|].
  - destruct (Hr n eq_refl) as (_ & _ & Hd). destruct (Hd eq_refl) as (nn & Hn & _).
    destruct (node_add_attrs_inv t1 det F1 n ats HI1) as (h' & F' & Hrun' & HI' & HP' & Hk); [rewrite Hn; discriminate|].
    rewrite Hrun'. cbn [bind]. exists (with_heap t1 h'), (Some n), F'. split; [reflexivity|]. split; [exact HI'|].
    split; [|exact (nat_pres_trans _ _ _ HP1 HP')].
    unfold fuel_of in *; cbn [fresh with_heap]; rewrite Hfr, N.add_1_r, Nnat.N2Nat.inj_succ; lia.
  - exists t1, None, F1. split; [reflexivity|]. split; [exact HI1|]. split; [rewrite (fuel_of_succ _ _ Hfr); lia | exact HP1].
Qed.

Lemma add_new_ok fuel t det F p d :
  Inv t det F -> parent_ok (heap_of t) p = true -> (fuel_of t <= fuel)%nat ->
  add_ok t det F (add_new fuel t p d).
Proof.
  intros HI Hp Hf.
  destruct (add_new_inv fuel t det F p d HI Hp Hf) as (t1 & r & F1 & Hrun & HI1 & Hfr & Hr & HP1).
  exists t1, r, F1. split; [exact Hrun|]. split; [exact HI1|]. split; [rewrite (fuel_of_succ _ _ Hfr); lia | exact HP1].
Qed.

Lemma parent_ok_of_data h n nn : h n = Some nn -> is_text (n_data nn) = false -> parent_ok h (Some n) = true.
Proof. intros H1 H2. unfold parent_ok. rewrite H1, H2. reflexivity. Qed.

Lemma add_xml_full_ok fuel l t det F p name kvs text :
  Inv t det F -> parent_ok (heap_of t) p = true -> (S (fuel_of t) <= fuel)%nat ->
  add_ok t det F (add_xml_elt_with_attrs_and_text fuel l t p name kvs text).
Proof.
  intros HI Hp Hf. unfold add_xml_elt_with_attrs_and_text, add_xml_elt_with_attrs, add_xml_elt.
  destruct (resolve_xml_elt l name) as [cp tag].
  set (t0 := mkT (heap_of t) (root t) cp (fresh t)).
  assert (HI0 : Inv t0 det F) by exact HI.
  destruct (add_new_inv fuel t0 det F p (DElt tag []) HI0 Hp) as (t1 & r & F1 & Hrun & HI1 & Hfr & Hr & HP1);
    [unfold fuel_of in *; cbn [fresh t0]; lia|].
  rewrite Hrun. cbn [bind]. destruct r as [n|].
  2:{ cbn [bind]. exists t1, None, F1. split; [reflexivity|]. split; [exact HI1|].
      split; [rewrite (fuel_of_succ t0 t1 Hfr); unfold fuel_of; cbn [fresh t0]; lia | exact HP1]. }
  destruct (Hr n eq_refl) as (_ & Hin & Hd). destruct (Hd eq_refl) as (nn & Hn & Hdn).
  (* attributes *)
  assert (K : exists t2 F2 nn2, (match kvs with
                              | [] => TOk (t1, Some n)
                              | _ :: _ => do h <- node_add_xml_attrs l (heap_of t1) n kvs; TOk (with_heap t1 h, Some n)
                              end) = TOk (t2, Some n) /\ Inv t2 det F2 /\ fresh t2 = fresh t1 /\
                             heap_of t2 n = Some nn2 /\ is_text (n_data nn2) = false /\ nat_pres F1 F2).
  { destruct kvs as [|kv kvs].
    - exists t1, F1, nn. rewrite Hdn. split; [reflexivity|]. split; [exact HI1|]. split; [reflexivity|]. split; [exact Hn|].
      split; [reflexivity | apply nat_pres_refl].
    - unfold node_add_xml_attrs.
      destruct (node_add_attrs_inv t1 det F1 n (map (fun kv0 => resolve_xml_attr l (fst kv0) (snd kv0)) (kv :: kvs)) HI1)
        as (h' & F' & Hrun' & HI' & HP' & Hk); [rewrite Hn; discriminate|].
      rewrite Hrun'. cbn [bind]. destruct (Hk nn Hn) as (nn' & E1 & E2); [rewrite Hdn; reflexivity|].
      exists (with_heap t1 h'), F', nn'. split; [reflexivity|]. split; [exact HI'|]. split; [reflexivity|]. split; [exact E1|].
      split; [exact E2 | exact HP']. }
  destruct K as (t2 & F2 & nn2 & Hrun2 & HI2 & Hfr2 & Hn2 & Hd2 & HP2). rewrite Hrun2. cbn [bind].
  assert (Hfu2 : fuel_of t2 = S (fuel_of t)).
  { unfold fuel_of. rewrite Hfr2, Hfr. cbn [fresh t0]. rewrite N.add_1_r, Nnat.N2Nat.inj_succ. reflexivity. }
  pose proof (nat_pres_trans _ _ _ HP1 HP2) as HP12.
  destruct text as [|b text].
  - exists t2, (Some n), F2. split; [reflexivity|]. split; [exact HI2|]. split; [lia | exact HP12].
  - unfold add_text.
    destruct (add_new_inv fuel t2 det F2 (Some n) (DText (b :: text)) HI2 (parent_ok_of_data _ _ _ Hn2 Hd2)) as (t3 & r3 & F3 & Hrun3 & HI3 & Hfr3 & Hr3 & HP3);
      [lia|].
    rewrite Hrun3. cbn [bind].
    destruct r3 as [m|]; eexists t3, _, F3; (split; [reflexivity|]); (split; [exact HI3|]);
      (split; [rewrite (fuel_of_succ _ _ Hfr3); lia | exact (nat_pres_trans _ _ _ HP12 HP3)]).
Qed.

Lemma add_tree_ok fuel t det F p lang new_tree :
  Inv t det F -> parent_ok (heap_of t) p = true -> (fuel_of t <= fuel)%nat ->
  add_ok t det F (add_tree fuel t p lang new_tree).
Proof.
  intros HI Hp Hf. unfold add_tree.
  destruct (add_new_inv fuel t det F p (DTree 0 None) HI Hp Hf) as (t1 & r & F1 & Hrun & HI1 & Hfr & Hr & HP1).
  rewrite Hrun. cbn [bind]. destruct r as [n|].
  - destruct (Hr n eq_refl) as (_ & _ & Hd). destruct (Hd eq_refl) as (nn & Hn & _).
    rewrite (get_some _ _ _ Hn). cbn [bind].
    destruct (set_data_inv t1 det F1 n nn (DTree lang (Some new_tree)) HI1 Hn eq_refl) as (F' & HI' & HP').
    eexists _, (Some n), F'. split; [reflexivity|]. split; [exact HI'|]. split; [|exact (nat_pres_trans _ _ _ HP1 HP')].
    unfold fuel_of in *. cbn [fresh with_heap]. rewrite Hfr, N.add_1_r, Nnat.N2Nat.inj_succ. lia.
  - exists t1, None, F1. split; [reflexivity|]. split; [exact HI1|]. split; [rewrite (fuel_of_succ _ _ Hfr); lia | exact HP1].
Qed.

Lemma roots_remove t det F1 tn F2 :
  map rid (F1 ++ tn :: F2) = roots t det -> NoDup (ids_l (F1 ++ tn :: F2)) -> In (rid tn) det ->
  map rid (F1 ++ F2) = roots t (remove_id (rid tn) det).
Proof.
  intros Hr Hnd Hin. apply nodup_rids in Hnd. rewrite map_app in *. cbn [map] in *.
  pose proof (remove_id_mid _ _ _ Hnd) as E. rewrite Hr in E, Hnd. unfold roots in *.
  set (rl := match root t with Some r => [r] | None => [] end) in *.
  assert (Hn : ~ In (rid tn) rl) by (apply NoDup_app_iff in Hnd as (_ & _ & H3); intros H; exact (H3 _ H Hin)).
  rewrite <- E.
  assert (E2 : remove_id (rid tn) (rl ++ det) = remove_id (rid tn) rl ++ remove_id (rid tn) det) by (unfold remove_id; apply filter_app).
  rewrite E2, (remove_id_notin _ _ Hn). reflexivity.
Qed.

Lemma det_in_roots t det n : In n det -> In n (roots t det).
Proof. intros H. unfold roots. apply in_or_app. auto. Qed.

Lemma extract_root_inv t det F n : Inv t det F -> root t = Some n ->
  exists t' F', extract_node t n = TOk t' /\ Inv t' (det ++ [n]) F'.
Proof.
  intros (HL & Hroots & Hb) Hroot. unfold roots in Hroots. rewrite Hroot in Hroots. cbn [app] in Hroots.
  destruct F as [|tr Fd]; [discriminate|]. cbn [map] in Hroots. injection Hroots as Hrid Hdet.
  destruct HL as (HF & HN & HC & HLf). pose proof HF as HF0. apply Forall_cons_iff in HF as [Htr HFd].
  destruct tr as [n' d cs]. cbn [rid] in Hrid. subst n'. apply rep_t_unfold in Htr as [Hn Hcs].
  unfold extract_node. rewrite (get_some _ _ _ Hn). rec_simpl. rewrite (get_some _ _ _ Hn). rec_simpl.
  rewrite (get_some _ _ _ Hn). rec_simpl. rewrite (get_some _ _ _ Hn). rec_simpl.
  eexists _, (Fd ++ [R n d cs]). split; [reflexivity|]. split; [|split].
  - cbn [heap_of]. apply Links_perm with (F := R n d cs :: Fd); [apply Permutation_cons_append|].
    eapply Links_ext; [|exact (conj HF0 (conj HN (conj HC HLf)))].
    intros i. unfold upd. destruct (N.eqb_spec i n) as [->|_]; [rewrite Hn; reflexivity | reflexivity].
  - unfold roots. cbn [root]. rewrite map_app, Hdet. reflexivity.
  - intros i Hi. cbn [fresh]. apply Hb. rewrite ids_l_app, ids_l_single in Hi. rewrite ids_l_cons.
    apply in_or_app. apply in_app_or in Hi. tauto.
Qed.

Definition is_extract (o : op) : bool := match o with OpExtract _ => true | _ => false end.

Theorem exec_inv l c o F : Inv (ts c) (det c) F ->
  exists c' b F', exec l c o = TOk (c', b) /\ Inv (ts c') (det c') F' /\ (is_extract o = false -> nat_pres F F').
Proof.
  intros HI. destruct c as [t det]. change (Inv t det F) in HI.
  assert (Hadd : forall res, add_ok t det F res ->
            exists c' b F', lift_add (mkC t det) res = TOk (c', b) /\ Inv (ts c') (TreeGraph.det c') F' /\ (false = false -> nat_pres F F')).
  { intros res (t' & r & F' & -> & HI' & _ & HP). unfold lift_add. cbn [bind TreeGraph.det].
    destruct r; eexists _, _, F'; (split; [reflexivity|]); (split; [exact HI' | intros _; exact HP]). }
  assert (Hsame : forall b0, exists c' b F', TOk (mkC t det, false) = TOk (c', b) /\ Inv (ts c') (TreeGraph.det c') F' /\ (b0 = false -> nat_pres F F')).
  { intros b0. eexists _, _, F. split; [reflexivity|]. split; [exact HI | intros _; apply nat_pres_refl]. }
  destruct o as [p tag ats | p name kvs text | p text | p | p lang ntr | d0 | n k v | n | p n | n]; cbn [exec ts TreeGraph.det is_extract].
  - destruct (parent_ok (heap_of t) p) eqn:Hp; [|apply Hsame]. apply Hadd. eapply add_elt_with_attrs_ok; eauto.
  - destruct (parent_ok (heap_of t) p) eqn:Hp; [|apply Hsame]. apply Hadd. eapply add_xml_full_ok; eauto.
  - destruct (parent_ok (heap_of t) p) eqn:Hp; [|apply Hsame]. apply Hadd. unfold add_text. eapply add_new_ok; eauto.
  - destruct (parent_ok (heap_of t) p) eqn:Hp; [|apply Hsame]. apply Hadd. unfold add_cdata. eapply add_new_ok; eauto.
  - destruct (parent_ok (heap_of t) p) eqn:Hp; [|apply Hsame]. apply Hadd. eapply add_tree_ok; eauto.
  - (* tree == NULL: the node is created and destroyed again *)
    pose proof (inv_fresh_free _ _ _ HI) as Hfree. destruct HI as (HL & Hroots & Hb).
    cbn [alloc]. eexists _, _, F. split; [reflexivity|]. split; [|intros _; apply nat_pres_refl].
    cbn [ts TreeGraph.det]. split; [|split].
    + eapply Links_ext; [|exact HL]. intros i. cbn [heap_of with_heap]. unfold free_node, upd.
      destruct (N.eqb_spec i (fresh t)) as [->|_]; [symmetry; exact Hfree | reflexivity].
    + exact Hroots.
    + intros i Hi. cbn [fresh with_heap]. specialize (Hb i Hi). lia.
  - (* attribute added to an element *)
    destruct (heap_of t n) as [nn|] eqn:Hn; [|apply Hsame]. destruct (n_data nn) eqn:Hd; try apply Hsame.
    unfold node_add_xml_attrs.
    destruct (node_add_attrs_inv t det F n (map (fun kv => resolve_xml_attr l (fst kv) (snd kv)) [(k, v)]) HI) as (h' & F' & Hrun & HI' & HP & _);
      [rewrite Hn; discriminate|].
    rewrite Hrun. cbn [bind]. eexists _, _, F'. split; [reflexivity|]. split; [exact HI' | intros _; exact HP].
  - (* extraction *)
    destruct (heap_of t n) as [nn|] eqn:Hn; [|apply Hsame]. destruct (mem n det) eqn:Hm; [apply Hsame|].
    apply mem_false in Hm. destruct HI as (HL & Hroots & Hb).
    assert (Hin : In n (ids_l F)) by (destruct HL as (_ & _ & HCv & _); apply HCv; rewrite Hn; discriminate).
    destruct (in_dec N.eq_dec n (map rid F)) as [Hr|Hr].
    + (* the root *)
      rewrite Hroots in Hr. unfold roots in Hr. apply in_app_or in Hr as [Hr|Hr]; [|contradiction].
      destruct (root t) as [r|] eqn:Er; [|simpl in Hr; contradiction]. simpl in Hr. destruct Hr as [->|Hr]; [|contradiction].
      destruct (extract_root_inv t det F n (conj HL (conj Hroots Hb)) Er) as (t' & F' & Hrun & HI').
      rewrite Hrun. cbn [bind]. eexists _, _, F'. split; [reflexivity|]. split; [exact HI' | discriminate].
    + destruct (extract_forest t F n HL Hin Hr) as (h' & q & dq & ls & tx & rs & Hrun & Hfind & Hrid & HL' & Hincl).
      rewrite Hrun. cbn [bind]. eexists _, _, (replace_l q (R q dq (ls ++ rs)) F ++ [tx]). split; [reflexivity|].
      split; [|discriminate]. cbn [ts TreeGraph.det]. split; [exact HL'|]. split.
      * rewrite map_app, map_rid_replace by reflexivity. cbn [map]. rewrite Hrid, Hroots. unfold roots. cbn [root].
        rewrite app_assoc. reflexivity.
      * intros i Hi. cbn [fresh]. apply Hb, Hincl, Hi.
  - (* re-insertion of a detached sub-tree *)
    destruct (mem n det) eqn:Hm; cbn [andb]; [|apply Hsame]. destruct (parent_ok (heap_of t) p) eqn:Hp; cbn [andb]; [|apply Hsame].
    match goal with |- context [negb ?b] => destruct b eqn:Hsub end; cbn [negb]; [apply Hsame|].
    apply mem_in in Hm. pose proof (inv_sizes _ _ _ HI) as [Hsz1 Hsz2]. destruct HI as (HL & Hroots & Hb).
    destruct (split_by_rid F n) as (F1 & tn & F2 & -> & Hrid); [rewrite Hroots; apply det_in_roots; exact Hm|]. subst n.
    pose proof HL as (HF & HN & HCv & HLf).
    apply Forall_app in HF as [HF1 HF2]. apply Forall_cons_iff in HF2 as [Htn HF2].
    destruct p as [q|].
    + destruct (parent_ok_some _ _ Hp) as (pn & Hq & Hqt).
      assert (Habs : abs_list (S (fuel_of t)) (heap_of t) (Some (rid tn)) = [tn]).
      { apply (abs_rep (heap_of t) (S (fuel_of t)) [tn] None None); [cbn [rep_l]; auto|].
        specialize (Hsz2 tn (in_elt _ _ _)). unfold fuel_of, size_l. simpl. lia. }
      rewrite Habs, ids_l_single in Hsub. apply mem_false in Hsub.
      assert (Hqin : In q (ids_l (F1 ++ F2))).
      { assert (H : In q (ids_l (F1 ++ tn :: F2))) by (apply HCv; rewrite Hq; discriminate).
        rewrite ids_l_mid in H. rewrite ids_l_app. clear - H Hsub. in_norm. tauto. }
      destruct (proj2 (find_in q) _ Hqin) as (sub & Hfind).
      assert (HF12 : Forall (rep_t (heap_of t) None None None) (F1 ++ F2)) by (apply Forall_app; auto).
      destruct (find_rep_forest _ _ _ _ HF12 Hfind) as (par & prev & nxt & Hsubr).
      destruct (proj2 (find_some q) _ _ Hfind) as (Hsr & _ & Hsubin).
      destruct sub as [q' ds cs]. cbn [rid] in Hsr. subst q'. apply rep_t_unfold in Hsubr as [Hq' _].
      rewrite Hq in Hq'. injection Hq' as ->. cbn [n_data] in Hqt.
      rewrite ids_l_mid in HN. destruct (nodup_mid _ _ _ HN) as (N12 & _ & _). rewrite <- ids_l_app in N12.
      destruct (add_node_forest (S (fuel_of t)) t F1 tn F2 q (R q ds cs) HL Hfind Hqt) as (h' & Hrun & HL' & Hincl & _).
      { destruct (proj2 (ids_replace_split q (R q ds cs)) _ _ Hfind N12) as (A & B & EA & _ & _).
        assert (Hlen : (length (ids_l (F1 ++ F2)) <= N.to_nat (fresh t))%nat).
        { apply bounded_nodup_length; [exact N12|]. intros i Hi. apply Hb. rewrite ids_l_mid. rewrite ids_l_app in Hi.
          clear - Hi. in_norm. tauto. }
        rewrite EA, !app_length, ids_unfold in Hlen. cbn [length rkids] in *. rewrite <- (proj2 size_ids) in Hlen.
        pose proof (length_le_size_l cs). unfold fuel_of. lia. }
      rewrite Hrun. eexists _, _, _. split; [reflexivity|]. cbn [ts TreeGraph.det].
      split; [|intros _; exact (nat_add F1 tn F2 q ds cs Hfind Hqt)].
      split; [exact HL'|]. split.
      * rewrite map_rid_replace by reflexivity. cbn [root with_heap].
        rewrite <- ids_l_mid in HN. exact (roots_remove t det F1 tn F2 Hroots HN Hm).
      * intros i Hi. cbn [fresh with_heap]. apply Hb, Hincl, Hi.
    + (* as the root *)
      destruct tn as [n d cs]. cbn [rid] in *. apply rep_t_unfold in Htn as [Hn Hcs].
      unfold add_node. rewrite (get_some _ _ _ Hn). cbn [bind].
      destruct (root t) as [r|] eqn:Er.
      { eexists _, _, (F1 ++ R n d cs :: F2). split; [reflexivity|]. split; [|intros _; apply nat_pres_refl].
        cbn [ts TreeGraph.det]. split; [exact HL|]. split; [exact Hroots | exact Hb]. }
      eexists _, _, (R n d cs :: F1 ++ F2). split; [reflexivity|]. cbn [ts TreeGraph.det]. split.
      * split; [|split].
        -- cbn [heap_of]. apply Links_perm with (F := F1 ++ R n d cs :: F2); [apply Permutation_sym, Permutation_middle|].
           eapply Links_ext; [|exact HL]. intros i. unfold upd. destruct (N.eqb_spec i n) as [->|_]; [|reflexivity].
           rewrite Hn. reflexivity.
        -- pose proof (roots_remove t det F1 (R n d cs) F2 Hroots HN Hm) as E. unfold roots in *. cbn [root map rid] in *.
           rewrite Er in E. cbn [app] in E. rewrite E. reflexivity.
        -- intros i Hi. cbn [fresh]. apply Hb. rewrite ids_l_mid. rewrite ids_l_cons, ids_l_app in Hi. clear - Hi. in_norm. tauto.
      * intros _ H. rewrite nat_app in H. unfold no_adjacent_text in *. cbn [forallb] in *.
        apply andb_prop in H as [H1 H]. apply andb_prop in H as [H2 H3]. rewrite H2. cbn [andb].
        rewrite forallb_app', H1, H3. reflexivity.
  - (* destruction of a detached sub-tree *)
    destruct (mem n det) eqn:Hm; [|apply Hsame]. apply mem_in in Hm.
    pose proof (inv_sizes _ _ _ HI) as [_ Hsz2]. destruct HI as (HL & Hroots & Hb).
    destruct (split_by_rid F n) as (F1 & tn & F2 & -> & Hrid); [rewrite Hroots; apply det_in_roots; exact Hm|]. subst n.
    destruct (destroy_forest (2 * S (fuel_of t) + 2) (heap_of t) F1 tn F2 HL) as (h' & Hrun & HL' & E).
    { specialize (Hsz2 tn (in_elt _ _ _)). unfold fuel_of. lia. }
    rewrite Hrun. cbn [bind fst]. eexists _, _, (F1 ++ F2). split; [reflexivity|]. cbn [ts TreeGraph.det]. split.
    + split; [exact HL'|]. split.
      * cbn [root with_heap]. destruct HL as (_ & HN & _). exact (roots_remove t det F1 tn F2 Hroots HN Hm).
      * intros i Hi. cbn [fresh with_heap]. apply Hb. rewrite ids_l_mid. rewrite ids_l_app in Hi. clear - Hi. in_norm. tauto.
    + intros _ H. rewrite nat_app in *. unfold no_adjacent_text in *. cbn [forallb] in H.
      apply andb_prop in H as [H1 H]. apply andb_prop in H as [_ H3]. rewrite H1, H3. reflexivity.
Qed.

Theorem exec_links l c o : CLinks c -> exists c' b, exec l c o = TOk (c', b) /\ CLinks c'.
Proof.
  intros HC. apply CLinks_Inv in HC as (F & HI). destruct (exec_inv l c o F HI) as (c' & b & F' & Hrun & HI' & _).
  exists c', b. split; [exact Hrun|]. apply CLinks_Inv. exists F'. exact HI'.
Qed.

Theorem init_links : CLinks init_state.
Proof.
  exists []. split; [|split; [reflexivity | intros i []]].
  split; [constructor|]. split; [constructor|]. split; [|reflexivity]. intros i H. exfalso. apply H. reflexivity.
Qed.

Theorem run_links l : forall ops c, CLinks c -> exists c', run l c ops = TOk c' /\ CLinks c'.
Proof.
  induction ops as [|o ops IH]; intros c HC; [exists c; split; [reflexivity | exact HC]|].
  destruct (exec_links l c o HC) as (c1 & b & Hrun & HC1). cbn [run]. rewrite Hrun. cbn [bind fst]. apply IH. exact HC1.
Qed.

(* ------------------------------------------------------------------ *)
(* destroying everything releases every node exactly once               *)

Lemma destroy_detached_spec fuel Froot : forall Fdet h,
  Links h (Froot ++ Fdet) -> (forall tn, In tn Fdet -> (2 * size tn <= fuel)%nat) ->
  exists h' rel, destroy_detached fuel h (map rid Fdet) = TOk (h', rel) /\ Links h' Froot /\
                 Permutation rel (ids_l Fdet).
Proof.
  induction Fdet as [|tn Fdet IH]; intros h HL Hsz.
  - exists h, []. rewrite app_nil_r in HL. split; [reflexivity|]. split; [exact HL | constructor].
  - destruct (destroy_forest fuel h Froot tn Fdet HL) as (h1 & Hrun & HL1 & _); [apply Hsz; simpl; auto|].
    destruct (IH h1 HL1) as (h2 & rel2 & Hrun2 & HL2 & P2); [intros; apply Hsz; simpl; auto|].
    exists h2, (rev (postorder tn) ++ rel2). cbn [map destroy_detached]. rewrite Hrun. cbn [bind fst snd]. rewrite Hrun2. cbn [bind fst snd].
    split; [reflexivity|]. split; [exact HL2|]. rewrite ids_l_cons. apply Permutation_app; [|exact P2].
    rewrite <- Permutation_rev. apply postorder_perm.
Qed.

Theorem finish_spec c : CLinks c ->
  exists h' rel F, finish c = TOk (h', rel) /\ Links (heap_of (ts c)) F /\ map rid F = roots_of c /\
                   Permutation rel (ids_l F) /\ NoDup rel /\ (forall i, h' i = None).
Proof.
  intros HC. apply CLinks_Inv in HC as (F & HI). pose proof (inv_sizes _ _ _ HI) as [_ Hsz].
  destruct HI as (HL & Hroots & Hb). unfold roots in Hroots.
  apply map_eq_app in Hroots as (Fr & Fd & -> & Er & Ed).
  assert (Hfu : forall tn, In tn (Fr ++ Fd) -> (2 * size tn <= 2 * fuel_of (ts c) + 2)%nat).
  { intros tn Hin. specialize (Hsz tn Hin). unfold fuel_of. lia. }
  unfold finish. rewrite <- Ed.
  destruct (destroy_detached_spec (2 * fuel_of (ts c) + 2) Fr Fd (heap_of (ts c)) HL) as (h1 & rel1 & Hrun1 & HL1 & P1);
    [intros; apply Hfu, in_or_app; auto|].
  rewrite Hrun1. cbn [bind fst snd]. unfold tree_destroy. cbn [root heap_of].
  assert (HND : NoDup (ids_l (Fr ++ Fd))) by (destruct HL as (_ & H & _); exact H).
  destruct (root (ts c)) as [r|] eqn:Eroot.
  - destruct Fr as [|tr [|? ?]]; try discriminate. cbn [map] in Er. injection Er as Er. subst r.
    destruct (destroy_forest (2 * fuel_of (ts c) + 2) h1 [] tr [] HL1) as (h2 & Hrun2 & HL2 & _); [apply Hfu; simpl; auto|].
    rewrite Hrun2. cbn [bind fst snd]. exists h2, (rel1 ++ rev (postorder tr)), ([tr] ++ Fd).
    split; [reflexivity|]. split; [exact HL|]. split; [unfold roots_of; rewrite Eroot, map_app, Ed; reflexivity|].
    assert (P : Permutation (rel1 ++ rev (postorder tr)) (ids_l ([tr] ++ Fd))).
    { rewrite ids_l_app, ids_l_single. rewrite Permutation_app_comm. apply Permutation_app; [|exact P1].
      rewrite <- Permutation_rev. apply postorder_perm. }
    split; [exact P|]. split; [eapply Permutation_NoDup; [symmetry; exact P | exact HND]|].
    intros i. destruct HL2 as (_ & _ & HCv & _). destruct (h2 i) eqn:E; [|reflexivity]. exfalso.
    apply (HCv i). rewrite E. discriminate.
  - destruct Fr as [|? ?]; try discriminate. cbn [bind fst snd]. exists h1, (rel1 ++ []), ([] ++ Fd).
    split; [reflexivity|]. split; [exact HL|]. split; [unfold roots_of; rewrite Eroot, map_app, Ed; reflexivity|].
    rewrite app_nil_r. cbn [app] in *. split; [exact P1|]. split; [eapply Permutation_NoDup; [symmetry; exact P1 | exact HND]|].
    intros i. destruct HL1 as (_ & _ & HCv & _). destruct (h1 i) eqn:E; [|reflexivity]. exfalso.
    apply (HCv i). rewrite E. discriminate.
Qed.

(* ------------------------------------------------------------------ *)
(* the forest a state denotes, computed from the pointers               *)

Definition abs_forest (c : cstate) : list rt :=
  flat_map (fun r => abs_list (fuel_of (ts c)) (heap_of (ts c)) (Some r)) (roots_of c).

Theorem abs_forest_inv c F : Inv (ts c) (det c) F -> abs_forest c = F.
Proof.
  intros HI. pose proof (inv_sizes _ _ _ HI) as [_ Hsz]. destruct HI as ((HF & _) & Hroots & _).
  unfold abs_forest. change (roots_of c) with (roots (ts c) (det c)). rewrite <- Hroots.
  clear Hroots. induction F as [|tr F IH]; [reflexivity|].
  apply Forall_cons_iff in HF as [Htr HF]. cbn [map flat_map].
  change (Some (rid tr)) with (head_id [tr]).
  rewrite (abs_rep (heap_of (ts c)) (fuel_of (ts c)) [tr] None None); [|cbn [rep_l]; auto|].
  - cbn [app]. f_equal. apply IH; [exact HF|]. intros tn Hin. apply Hsz. simpl. auto.
  - specialize (Hsz tr (or_introl eq_refl)). unfold fuel_of, size_l. simpl. lia.
Qed.

(* ------------------------------------------------------------------ *)
(* the readable specifications agree with the replacement form          *)

Lemma append_merge_notin p n :
  (forall t, ~ In p (ids t) -> append_merge_t t p n = t) /\
  (forall ts, ~ In p (ids_l ts) -> map (fun t => append_merge_t t p n) ts = ts).
Proof.
  apply rt_mut_ind.
  - intros i d cs IH H. rewrite ids_unfold in H. cbn [append_merge_t]. destruct (N.eqb_spec i p) as [->|_]; [exfalso; apply H; simpl; auto|].
    rewrite IH; [reflexivity|]. intro; apply H; simpl; auto.
  - reflexivity.
  - intros t ts IHt IHts H. rewrite ids_l_cons in H. cbn [map].
    rewrite IHt, IHts; [reflexivity | |]; intro; apply H, in_or_app; auto.
Qed.

Lemma append_merge_replace p n :
  (forall t d cs, NoDup (ids t) -> find_t p t = Some (R p d cs) ->
     append_merge_t t p n = replace_t p (R p d (snoc_merge cs n)) t) /\
  (forall ts d cs, NoDup (ids_l ts) -> find_l p ts = Some (R p d cs) ->
     map (fun t => append_merge_t t p n) ts = map (replace_t p (R p d (snoc_merge cs n))) ts).
Proof.
  apply rt_mut_ind.
  - intros i d0 cs0 IH d cs Hnd. rewrite find_t_unfold. cbn [append_merge_t replace_t].
    destruct (N.eqb_spec i p) as [->|Hne]; [intros [= <- <-]; reflexivity|].
    intros Hf. rewrite ids_unfold in Hnd. apply NoDup_cons_iff in Hnd as [_ Hnd].
    rewrite (IH d cs Hnd Hf). reflexivity.
  - discriminate.
  - intros t ts IHt IHts d cs Hnd. rewrite find_l_cons, ids_l_cons in *. apply NoDup_app_iff in Hnd as (N1 & N2 & N3).
    cbn [map]. destruct (find_t p t) eqn:E.
    + intros [= ->]. rewrite (IHt d cs N1 eq_refl).
      assert (Hn : ~ In p (ids_l ts)) by (apply N3; exact (proj1 (proj2 (proj1 (find_some p) _ _ E)))).
      rewrite (proj2 (append_merge_notin p n) ts Hn).
      pose proof (proj1 (proj2 (replace_notin p (R p d (snoc_merge cs n))) ts Hn)) as E2. unfold replace_l in E2. rewrite E2. reflexivity.
    + intros Hf. assert (Hn : ~ In p (ids t)) by exact (proj1 (find_none p) t E).
      rewrite (proj1 (append_merge_notin p n) t Hn), (proj1 (proj1 (replace_notin p _) t Hn)).
      rewrite (IHts d cs N2 Hf). reflexivity.
Qed.

Lemma remove_notin x :
  (forall t, ~ In x (ids t) -> remove_t x t = t) /\ (forall ts, ~ In x (ids_l ts) -> remove_l x ts = ts).
Proof.
  apply rt_mut_ind.
  - intros i d cs IH H. rewrite ids_unfold in H. cbn [remove_t]. fold (remove_l x cs). rewrite IH; [reflexivity|].
    intro; apply H; simpl; auto.
  - reflexivity.
  - intros t ts IHt IHts H. rewrite ids_l_cons in H. unfold remove_l in *. cbn [map filter].
    rewrite IHt by (intro; apply H, in_or_app; auto).
    destruct (N.eqb_spec (rid t) x) as [E|_]; [exfalso; apply H, in_or_app; left; rewrite <- E; apply rid_in_ids|].
    cbn [negb]. rewrite IHts; [reflexivity|]. intro; apply H, in_or_app; auto.
Qed.

Lemma rid_remove_t x t : rid (remove_t x t) = rid t.
Proof. destruct t; reflexivity. Qed.

Lemma remove_l_app x a b : remove_l x (a ++ b) = remove_l x a ++ remove_l x b.
Proof. unfold remove_l. rewrite map_app, filter_app. reflexivity. Qed.

Lemma remove_at x ls tx rs : NoDup (ids_l (ls ++ tx :: rs)) -> rid tx = x -> remove_l x (ls ++ tx :: rs) = ls ++ rs.
Proof.
  intros Hnd Hr. rewrite ids_l_mid in Hnd. destruct (nodup_mid _ _ _ Hnd) as (N1 & N2 & N3).
  assert (Hx : In x (ids tx)) by (rewrite <- Hr; apply rid_in_ids).
  assert (Hl : ~ In x (ids_l ls)) by (intro; apply (N3 x Hx), in_or_app; auto).
  assert (Hrs : ~ In x (ids_l rs)) by (intro; apply (N3 x Hx), in_or_app; auto).
  change (tx :: rs) with ([tx] ++ rs). rewrite !remove_l_app, (proj2 (remove_notin x) ls Hl), (proj2 (remove_notin x) rs Hrs).
  unfold remove_l. cbn [map filter]. rewrite rid_remove_t, Hr, N.eqb_refl. reflexivity.
Qed.

Lemma remove_l_cons x c rest : remove_l x (c :: rest) =
  (if negb (rid c =? x) then [remove_t x c] else []) ++ remove_l x rest.
Proof. unfold remove_l. cbn [map filter]. rewrite rid_remove_t. destruct (negb (rid c =? x)); reflexivity. Qed.

Lemma remove_replace x q dq ls tx rs : rid tx = x ->
  (forall t, NoDup (ids t) -> find_t q t = Some (R q dq (ls ++ tx :: rs)) ->
     remove_t x t = replace_t q (R q dq (ls ++ rs)) t /\ x <> rid t) /\
  (forall ts, NoDup (ids_l ts) -> find_l q ts = Some (R q dq (ls ++ tx :: rs)) ->
     remove_l x ts = replace_l q (R q dq (ls ++ rs)) ts).
Proof.
  intros Hr.
  assert (Hxs : In x (ids_l (ls ++ tx :: rs))) by (rewrite ids_l_mid; apply in_or_app; right; apply in_or_app; left; rewrite <- Hr; apply rid_in_ids).
  apply rt_mut_ind.
  - intros i d cs IH Hnd. rewrite find_t_unfold. rewrite ids_unfold in Hnd. apply NoDup_cons_iff in Hnd as [Hni Hnd].
    cbn [replace_t rid]. change (remove_t x (R i d cs)) with (R i d (remove_l x cs)).
    destruct (N.eqb_spec i q) as [->|Hne].
    + intros [= -> ->]. rewrite (remove_at x ls tx rs Hnd Hr). split; [reflexivity|]. intros ->. exact (Hni Hxs).
    + intros Hf. rewrite (IH Hnd Hf). split; [reflexivity|]. intros ->. apply Hni.
      apply (proj2 (proj2 (proj2 (find_some q) _ _ Hf))). simpl. auto.
  - discriminate.
  - intros t ts IHt IHts Hnd. rewrite find_l_cons, ids_l_cons in *. apply NoDup_app_iff in Hnd as (N1 & N2 & N3).
    rewrite remove_l_cons. unfold replace_l. cbn [map]. fold (replace_l q (R q dq (ls ++ rs)) ts).
    destruct (find_t q t) eqn:E.
    + intros [= ->]. destruct (IHt N1 eq_refl) as [E1 E2]. rewrite E1.
      destruct (N.eqb_spec (rid t) x) as [Heq|_]; [congruence|]. cbn [negb app].
      destruct (proj1 (find_some q) _ _ E) as (_ & Hq & Hsub).
      assert (Hxt : In x (ids t)) by (apply Hsub; simpl; auto).
      rewrite (proj2 (remove_notin x) ts (N3 x Hxt)), (proj1 (proj2 (replace_notin q _) ts (N3 q Hq))). reflexivity.
    + intros Hf. destruct (proj2 (find_some q) _ _ Hf) as (_ & Hq & Hsub).
      assert (Hxts : In x (ids_l ts)) by (apply Hsub; simpl; auto).
      assert (Hxt : ~ In x (ids t)) by (intros H; exact (N3 x H Hxts)).
      assert (Hqt : ~ In q (ids t)) by exact (proj1 (find_none q) t E).
      rewrite (proj1 (remove_notin x) t Hxt), (proj1 (proj1 (replace_notin q _) t Hqt)).
      destruct (N.eqb_spec (rid t) x) as [Heq|_]; [exfalso; apply Hxt; rewrite <- Heq; apply rid_in_ids|]. cbn [negb app].
      rewrite (IHts N2 Hf). reflexivity.
Qed.

Lemma find_compose q y s' :
  (forall t s, NoDup (ids t) -> find_t q t = Some s -> find_t y s = Some s' -> find_t y t = Some s') /\
  (forall ts s, NoDup (ids_l ts) -> find_l q ts = Some s -> find_t y s = Some s' -> find_l y ts = Some s').
Proof.
  apply rt_mut_ind.
  - intros i d cs IH s Hnd. rewrite find_t_unfold. destruct (N.eqb_spec i q) as [->|Hne]; [intros [= <-]; auto|].
    intros Hf Hy. rewrite ids_unfold in Hnd. apply NoDup_cons_iff in Hnd as [Hni Hnd].
    rewrite find_t_unfold. destruct (N.eqb_spec i y) as [->|_]; [|eauto].
    exfalso. apply Hni. apply (proj2 (proj2 (proj2 (find_some q) _ _ Hf))). exact (proj1 (proj2 (proj1 (find_some y) _ _ Hy))).
  - discriminate.
  - intros t ts IHt IHts s Hnd. rewrite !find_l_cons, ids_l_cons in *. apply NoDup_app_iff in Hnd as (N1 & N2 & N3).
    destruct (find_t q t) eqn:E.
    + intros [= ->] Hy. rewrite (IHt s N1 eq_refl Hy). reflexivity.
    + intros Hf Hy. assert (Hyt : In y (ids_l ts)).
      { apply (proj2 (proj2 (proj2 (find_some q) _ _ Hf))). exact (proj1 (proj2 (proj1 (find_some y) _ _ Hy))). }
      rewrite (proj1 (find_notin y) t); [eauto|]. intros H. exact (N3 y H Hyt).
Qed.

Lemma find_child x ls tx rs q dq : rid tx = x -> NoDup (ids (R q dq (ls ++ tx :: rs))) ->
  find_t x (R q dq (ls ++ tx :: rs)) = Some tx.
Proof.
  intros Hr Hnd. rewrite ids_unfold in Hnd. apply NoDup_cons_iff in Hnd as [Hni Hnd].
  assert (Hx : In x (ids tx)) by (rewrite <- Hr; apply rid_in_ids).
  rewrite find_t_unfold. destruct (N.eqb_spec q x) as [->|_].
  - exfalso. apply Hni. rewrite ids_l_mid. apply in_or_app. right. apply in_or_app. auto.
  - rewrite ids_l_mid in Hnd. destruct (nodup_mid _ _ _ Hnd) as (_ & _ & N3).
    assert (Hl : ~ In x (ids_l ls)) by (intro; apply (N3 x Hx), in_or_app; auto).
    clear - Hr Hl. induction ls as [|a ls IH].
    + cbn [app]. rewrite find_l_cons. destruct tx as [i d cs]. cbn [rid] in Hr. subst i. rewrite find_t_unfold, N.eqb_refl. reflexivity.
    + rewrite ids_l_cons in Hl. rewrite <- app_comm_cons, find_l_cons.
      rewrite (proj1 (find_notin x) a) by (intro; apply Hl, in_or_app; auto). apply IH. intro; apply Hl, in_or_app; auto.
Qed.

(* wbxml_tree_add_node of a detached sub-tree below a node elsewhere: the specification *)
Theorem add_node_spec fuel t det F1 tn F2 q :
  Inv t det (F1 ++ tn :: F2) -> In (rid tn) det -> In q (ids_l (F1 ++ F2)) ->
  parent_ok (heap_of t) (Some q) = true -> (fuel_of t <= fuel)%nat ->
  exists t', add_node fuel t (Some q) (rid tn) = TOk t' /\
             Inv t' (remove_id (rid tn) det) (append_merge (F1 ++ F2) q tn).
Proof.
  intros HI Hm Hqin Hp Hfuel. destruct HI as (HL & Hroots & Hb).
  destruct (parent_ok_some _ _ Hp) as (pn & Hq & Hqt).
  pose proof HL as (HF & HN & HCv & HLf).
  apply Forall_app in HF as [HF1 HF2]. apply Forall_cons_iff in HF2 as [Htn HF2].
  destruct (proj2 (find_in q) _ Hqin) as (sub & Hfind).
  assert (HF12 : Forall (rep_t (heap_of t) None None None) (F1 ++ F2)) by (apply Forall_app; auto).
  destruct (find_rep_forest _ _ _ _ HF12 Hfind) as (par & prev & nxt & Hsubr).
  destruct (proj2 (find_some q) _ _ Hfind) as (Hsr & _ & Hsubin).
  destruct sub as [q' ds cs]. cbn [rid] in Hsr. subst q'. apply rep_t_unfold in Hsubr as [Hq' _].
  rewrite Hq in Hq'. injection Hq' as ->. cbn [n_data] in Hqt.
  rewrite ids_l_mid in HN. destruct (nodup_mid _ _ _ HN) as (N12 & _ & _). rewrite <- ids_l_app in N12.
  destruct (add_node_forest fuel t F1 tn F2 q (R q ds cs) HL Hfind Hqt) as (h' & Hrun & HL' & Hincl & _).
  { destruct (proj2 (ids_replace_split q (R q ds cs)) _ _ Hfind N12) as (A & B & EA & _ & _).
    assert (Hlen : (length (ids_l (F1 ++ F2)) <= N.to_nat (fresh t))%nat).
    { apply bounded_nodup_length; [exact N12|]. intros i Hi. apply Hb. rewrite ids_l_mid. rewrite ids_l_app in Hi.
      clear - Hi. in_norm. tauto. }
    rewrite EA, !app_length, ids_unfold in Hlen. cbn [length rkids] in *. rewrite <- (proj2 size_ids) in Hlen.
    pose proof (length_le_size_l cs). unfold fuel_of in Hfuel. lia. }
  exists (with_heap t h'). split; [exact Hrun|].
  unfold append_merge. rewrite (proj2 (append_merge_replace q tn) (F1 ++ F2) ds cs N12 Hfind).
  cbn [rdata rkids] in HL'. split; [exact HL'|]. split.
  - fold (replace_l q (R q ds (snoc_merge cs tn)) (F1 ++ F2)). rewrite map_rid_replace by reflexivity. cbn [root with_heap].
    rewrite <- ids_l_mid in HN. exact (roots_remove t det F1 tn F2 Hroots HN Hm).
  - intros i Hi. cbn [fresh with_heap]. apply Hb, Hincl, Hi.
Qed.

(* wbxml_tree_extract_node of a node that is not a root: exactly its sub-tree leaves the forest *)
Theorem extract_spec t det F x :
  Inv t det F -> In x (ids_l F) -> ~ In x (map rid F) ->
  exists t' sub, extract_node t x = TOk t' /\ find_l x F = Some sub /\
                 Inv t' (det ++ [x]) (remove_l x F ++ [sub]).
Proof.
  intros (HL & Hroots & Hb) Hin Hnr.
  destruct (extract_forest t F x HL Hin Hnr) as (h' & q & dq & ls & tx & rs & Hrun & Hfind & Hrid & HL' & Hincl).
  pose proof HL as (_ & HN & _).
  destruct (proj2 (ids_replace_split q (R q dq (ls ++ rs))) _ _ Hfind HN) as (A & B & EA & _ & _).
  assert (Nsub : NoDup (ids (R q dq (ls ++ tx :: rs)))) by (rewrite EA in HN; apply nodup_mid in HN; tauto).
  eexists _, tx. split; [exact Hrun|]. split.
  - exact (proj2 (find_compose q x tx) F _ HN Hfind (find_child x ls tx rs q dq Hrid Nsub)).
  - rewrite (proj2 (remove_replace x q dq ls tx rs Hrid) F HN Hfind). split; [exact HL'|]. split.
    + rewrite map_app, map_rid_replace by reflexivity. cbn [map]. rewrite Hrid, Hroots. unfold roots. cbn [root].
      rewrite app_assoc. reflexivity.
    + intros i Hi. cbn [fresh]. apply Hb, Hincl, Hi.
Qed.

Theorem destroy_spec fuel t det F1 tn F2 :
  Inv t det (F1 ++ tn :: F2) -> (2 * size tn <= fuel)%nat ->
  exists h' rel, destroy_all fuel (heap_of t) (rid tn) = TOk (h', rel) /\
     Permutation rel (ids tn) /\ NoDup rel /\
     (forall i, h' i = if mem i (ids tn) then None else heap_of t i) /\ Links h' (F1 ++ F2).
Proof.
  intros (HL & _) Hfuel. destruct (destroy_forest fuel (heap_of t) F1 tn F2 HL Hfuel) as (h' & Hrun & HL' & E).
  exists h', (rev (postorder tn)). split; [exact Hrun|].
  assert (P : Permutation (rev (postorder tn)) (ids tn)) by (rewrite <- Permutation_rev; apply postorder_perm).
  split; [exact P|]. split; [|split; [exact E | exact HL']].
  eapply Permutation_NoDup; [symmetry; exact P|]. destruct HL as (_ & HN & _). rewrite ids_l_mid in HN.
  apply nodup_mid in HN. tauto.
Qed.

(* the links of every node are mutually consistent *)
Lemma first_child_rep h par nxt c rest : rep_l h par None nxt (c :: rest) ->
  exists cn, h (rid c) = Some cn /\ n_parent cn = par /\ n_prev cn = None.
Proof.
  rewrite rep_l_cons. intros [H _]. destruct c as [i d cs]. apply rep_t_unfold in H as [H _]. eexists. split; [exact H|]. auto.
Qed.

Theorem links_pointwise h F : Links h F -> forall i nd, h i = Some nd ->
  (forall c, n_children nd = Some c -> exists cn, h c = Some cn /\ n_parent cn = Some i /\ n_prev cn = None) /\
  (forall x, n_next nd = Some x -> exists xn, h x = Some xn /\ n_prev xn = Some i /\ n_parent xn = n_parent nd) /\
  (forall pv, n_prev nd = Some pv -> exists pn, h pv = Some pn /\ n_next pn = Some i /\ n_parent pn = n_parent nd) /\
  (forall p, n_parent nd = Some p -> exists pn, h p = Some pn /\ (n_prev nd = None -> n_children pn = Some i)) /\
  (n_parent nd = None -> n_next nd = None /\ n_prev nd = None).
Proof.
  intros (HF & HN & HC & _) i nd Hi.
  assert (Hin : In i (ids_l F)) by (apply HC; rewrite Hi; discriminate).
  assert (Hkids : forall d par prev nxt cs, h i = Some (mkN d par (head_id cs) nxt prev) -> rep_l h (Some i) None None cs ->
            forall c, n_children nd = Some c -> exists cn, h c = Some cn /\ n_parent cn = Some i /\ n_prev cn = None).
  { intros d par prev nxt cs E Hr c Hc. rewrite Hi in E. injection E as ->. cbn [n_children] in Hc.
    destruct cs as [|c0 cs]; [discriminate|]. cbn [head_id] in Hc. injection Hc as <-.
    exact (first_child_rep h (Some i) None c0 cs Hr). }
  destruct (proj2 (find_parent i) F HN Hin) as [(ls & tx & rs & E & Hr)|(q & dq & ls & tx & rs & Hfind & Hr)].
  - (* a root *)
    subst F. apply Forall_app in HF as [_ HF]. apply Forall_cons_iff in HF as [Htx _].
    destruct tx as [i' d cs]. cbn [rid] in Hr. subst i'. apply rep_t_unfold in Htx as [E Hcs].
    split; [exact (Hkids _ _ _ _ _ E Hcs)|]. rewrite Hi in E. injection E as ->. cbn [n_next n_prev n_parent].
    split; [discriminate|]. split; [discriminate|]. split; [discriminate | auto].
  - destruct (find_rep_forest _ _ _ _ HF Hfind) as (parq & prevq & nxtq & Hsub).
    destruct (proj2 (ids_replace_split q (R q dq [])) _ _ Hfind HN) as (A & B & EA & _ & _).
    assert (Nsub : NoDup (ids (R q dq (ls ++ tx :: rs)))) by (rewrite EA in HN; apply nodup_mid in HN; tauto).
    destruct tx as [i' dx xcs]. cbn [rid] in Hr. subst i'.
    destruct (ex_facts (mkT h None 0 0) q i dq dx parq prevq nxtq ls rs xcs Hsub Nsub)
      as (Q1 & Q3 & Q2 & Q5 & Q4 & _). cbn [heap_of] in *.
    split; [exact (Hkids _ _ _ _ _ Q3 Q5)|]. rewrite Hi in Q3. injection Q3 as ->. cbn [n_next n_prev n_parent].
    split; [|split; [|split; [|discriminate]]].
    + intros x Hx. destruct rs as [|r0 rs]; [discriminate|]. cbn [head_or] in Hx. injection Hx as <-.
      apply rep_l_cons in Q4 as [Q4 _]. destruct r0 as [x d0 c0]. apply rep_t_unfold in Q4 as [Q4 _]. eexists. split; [exact Q4|]. auto.
    + intros pv Hpv. destruct (rev_cases ls) as [->|(l0 & lp & ->)]; [discriminate|].
      rewrite last_or_app in Hpv. injection Hpv as <-. apply rep_l_app in Q2 as [_ Q2]. cbn [rep_l] in Q2. destruct Q2 as [Q2 _].
      destruct lp as [pv d0 c0]. apply rep_t_unfold in Q2 as [Q2 _]. eexists. split; [exact Q2|]. auto.
    + intros p [= <-]. eexists. split; [exact Q1|]. intros Hp. cbn [n_children].
      destruct (rev_cases ls) as [->|(l0 & lp & ->)]; [reflexivity|]. rewrite last_or_app in Hp. discriminate.
Qed.

(* D17: extraction of an element between two text nodes leaves them adjacent *)
Definition l_plain : tlang := mk_tlang 0 None None None.
Definition d17_prefix : list op :=
  [OpAddXmlElt None [112] [] []; OpAddText (Some 0) [97; 97]; OpAddXmlElt (Some 0) [98] [] []; OpAddText (Some 0) [98; 98]].

Theorem extract_merge_refuted :
  exists c c', run l_plain init_state d17_prefix = TOk c /\ CLinks c /\ no_adjacent_text (abs_forest c) = true /\
               exec l_plain c (OpExtract 2) = TOk (c', true) /\ CLinks c' /\ no_adjacent_text (abs_forest c') = false.
Proof.
  destruct (run_links l_plain d17_prefix init_state init_links) as (c & Hrun & HC).
  destruct (exec_links l_plain c (OpExtract 2) HC) as (c' & b & Hex & HC').
  exists c, c'. split; [exact Hrun|]. split; [exact HC|].
  assert (E : run l_plain init_state d17_prefix = TOk c) by exact Hrun.
  vm_compute in Hrun. injection Hrun as <-.
  split; [vm_compute; reflexivity|]. split; [|split; [exact HC'|]].
  - vm_compute in Hex. vm_compute. injection Hex as <- <-. reflexivity.
  - vm_compute in Hex. injection Hex as <- <-. vm_compute. reflexivity.
Qed.

(* the encoder's walk over the pointers is a function of the shape the pointers denote *)
Definition tree_of (c : cstate) : option rt :=
  match root (ts c) with Some _ => hd_error (abs_forest c) | None => None end.

Theorem enc_walk_shape c tr : CLinks c -> tree_of c = Some tr ->
  enc_walk (S (fuel_of (ts c))) (heap_of (ts c)) (root (ts c)) = TOk (events (erase tr)).
Proof.
  intros HC Ht. apply CLinks_Inv in HC as (F & HI). unfold tree_of in Ht. rewrite (abs_forest_inv c F HI) in Ht.
  pose proof (inv_sizes _ _ _ HI) as [_ Hsz]. destruct HI as ((HF & _) & Hroots & _).
  destruct (root (ts c)) as [r|] eqn:Er; [|discriminate]. destruct F as [|tr' Fd]; [discriminate|].
  cbn [hd_error] in Ht. injection Ht as ->. unfold roots_of in Hroots. rewrite Er in Hroots. cbn [map app] in Hroots.
  injection Hroots as Hr _. subst r. apply Forall_cons_iff in HF as [Htr _].
  change (Some (rid tr)) with (head_id [tr]).
  rewrite (enc_walk_rep (heap_of (ts c)) (S (fuel_of (ts c))) [tr] None None); [|cbn [rep_l]; auto|].
  - cbn [map flat_map]. rewrite app_nil_r. reflexivity.
  - specialize (Hsz tr (or_introl eq_refl)). unfold fuel_of, size_l. simpl. lia.
Qed.

Corollary equal_shapes_equal_walks c1 c2 tr1 tr2 :
  CLinks c1 -> CLinks c2 -> tree_of c1 = Some tr1 -> tree_of c2 = Some tr2 -> erase tr1 = erase tr2 ->
  enc_walk (S (fuel_of (ts c1))) (heap_of (ts c1)) (root (ts c1)) =
  enc_walk (S (fuel_of (ts c2))) (heap_of (ts c2)) (root (ts c2)).
Proof.
  intros H1 H2 T1 T2 E. rewrite (enc_walk_shape c1 tr1 H1 T1), (enc_walk_shape c2 tr2 H2 T2), E. reflexivity.
Qed.

(* ------------------------------------------------------------------ *)
(* ownership of the nested tree offered to wbxml_tree_add_tree          *)

(* refused (NULL result): the state is the old heap (the node created for the call has been destroyed while its tree
   pointer was still NULL), so no node refers to the offered tree: it stays with the caller, who destroys it once *)
Theorem add_tree_refused_keeps_tree fuel t p lang tid t' :
  add_tree fuel t p lang tid = TOk (t', None) ->
  heap_of t (fresh t) = None ->
  (forall i, heap_of t' i = heap_of t i) /\ (forall i, node_tree (heap_of t) i <> Some tid -> node_tree (heap_of t') i <> Some tid).
Proof.
  unfold add_tree, add_new, alloc. intros H Hfree.
  destruct (add_node fuel _ p (fresh t)) as [t2| |] eqn:E; cbn [bind] in H.
  - destruct (get (heap_of t2) (fresh t)); cbn [bind] in H; discriminate.
  - injection H as <-. cbn [heap_of with_heap].
    assert (Heq : forall i, free_node (upd (heap_of t) (fresh t) (Some (mkN (DTree 0 None) None None None None))) (fresh t) i = heap_of t i).
    { intros i. unfold free_node, upd. destruct (N.eqb_spec i (fresh t)) as [->|_]; [symmetry; exact Hfree | reflexivity]. }
    split; [exact Heq|]. intros i Hi. unfold node_tree in *. rewrite Heq. exact Hi.
  - discriminate.
Qed.

(* accepted: the new node, and only it, now owns the offered tree *)
Theorem add_tree_accepted_owns_tree fuel t p lang tid t' n :
  add_tree fuel t p lang tid = TOk (t', Some n) -> node_tree (heap_of t') n = Some tid.
Proof.
  unfold add_tree. intros H. destruct (add_new fuel t p (DTree 0 None)) as [[t1 [m|]]| |]; cbn [bind] in H; try discriminate.
  destruct (get (heap_of t1) m) as [nn| |]; cbn [bind] in H; try discriminate.
  injection H as <- <-. unfold node_tree. cbn [heap_of with_heap]. rewrite upd_same. reflexivity.
Qed.

(* the same call with tree == NULL (OpAddNull): the heap is unchanged as well *)
Theorem add_on_null_tree_changes_nothing l c d c' b : exec l c (OpAddNull d) = TOk (c', b) -> heap_of (ts c) (fresh (ts c)) = None ->
  b = false /\ det c' = det c /\ root (ts c') = root (ts c) /\ forall i, heap_of (ts c') i = heap_of (ts c) i.
Proof.
  cbn [exec alloc]. intros [= <- <-] Hfree. cbn [ts det root heap_of with_heap]. repeat split.
  intros i. unfold free_node, upd. destruct (N.eqb_spec i (fresh (ts c))) as [->|_]; [symmetry; exact Hfree | reflexivity].
Qed.

(* add_node with a parent INSIDE the tree (the usual case): the tree becomes append_merge_t tree q tn, the other
   detached sub-trees are untouched.  (The parent may be any node of the forest except a node of tn itself: inserting a
   sub-tree below one of its own nodes makes the C build a cycle; no specification exists for that.) *)
Theorem add_node_in_tree fuel t det tr D1 tn D2 q :
  Inv t det (tr :: D1 ++ tn :: D2) -> In (rid tn) det -> In q (ids tr) ->
  parent_ok (heap_of t) (Some q) = true -> (fuel_of t <= fuel)%nat ->
  exists t', add_node fuel t (Some q) (rid tn) = TOk t' /\
             Inv t' (remove_id (rid tn) det) (append_merge_t tr q tn :: D1 ++ D2).
Proof.
  intros HI Hm Hq Hp Hf.
  assert (HN : NoDup (ids_l (tr :: D1 ++ tn :: D2))) by (destruct HI as ((_ & H & _) & _); exact H).
  destruct (add_node_spec fuel t det (tr :: D1) tn D2 q HI Hm) as (t' & Hrun & HI'); [| exact Hp | exact Hf |].
  - cbn [app]. rewrite ids_l_cons. apply in_or_app. auto.
  - exists t'. split; [exact Hrun|]. cbn [app] in HI'. unfold append_merge in HI'. cbn [map] in HI'.
    assert (Hn : ~ In q (ids_l (D1 ++ D2))).
    { rewrite ids_l_cons, NoDup_app_iff in HN. destruct HN as (_ & _ & H3). intros Hin. apply (H3 q Hq).
      rewrite ids_l_app in Hin. rewrite ids_l_mid. clear - Hin. in_norm. tauto. }
    rewrite (proj2 (append_merge_notin q tn) (D1 ++ D2) Hn) in HI'. exact HI'.
Qed.

(* ------------------------------------------------------------------ *)
(* composition of replacements                                          *)

Lemma find_t_root new : find_t (rid new) new = Some new.
Proof. destruct new as [i d cs]. rewrite find_t_unfold. cbn [rid]. rewrite N.eqb_refl. reflexivity. Qed.

Lemma find_replace_same p new : rid new = p ->
  (forall t, In p (ids t) -> find_t p (replace_t p new t) = Some new) /\
  (forall ts, In p (ids_l ts) -> find_l p (replace_l p new ts) = Some new).
Proof.
  intros Hn. apply rt_mut_ind.
  - intros i d cs IH Hin. cbn [replace_t]. destruct (N.eqb_spec i p) as [->|Hne]; [rewrite <- Hn; apply find_t_root|].
    rewrite find_t_unfold. destruct (N.eqb_spec i p); [contradiction|]. apply IH.
    rewrite ids_unfold in Hin. destruct Hin; [contradiction | assumption].
  - intros [].
  - intros t ts IHt IHts Hin. unfold replace_l. cbn [map]. fold (replace_l p new ts). rewrite find_l_cons.
    destruct (in_dec N.eq_dec p (ids t)) as [H|H].
    + rewrite (IHt H). reflexivity.
    + rewrite (proj1 (proj1 (replace_notin p new) t H)), (proj1 (find_notin p) t H). apply IHts.
      rewrite ids_l_cons in Hin. apply in_app_or in Hin. tauto.
Qed.

Lemma replace_replace p new1 new2 : rid new1 = p ->
  (forall t, replace_t p new2 (replace_t p new1 t) = replace_t p new2 t) /\
  (forall ts, replace_l p new2 (replace_l p new1 ts) = replace_l p new2 ts).
Proof.
  intros Hn. apply rt_mut_ind.
  - intros i d cs IH. cbn [replace_t]. destruct (N.eqb_spec i p) as [->|Hne].
    + destruct new1 as [j dj cj]. cbn [rid] in Hn. subst j. cbn [replace_t]. rewrite N.eqb_refl. reflexivity.
    + cbn [replace_t]. destruct (N.eqb_spec i p); [contradiction|]. fold (replace_l p new1 cs).
      fold (replace_l p new2 (replace_l p new1 cs)). rewrite IH. reflexivity.
  - reflexivity.
  - intros t ts IHt IHts. unfold replace_l in *. cbn [map]. rewrite IHt, IHts. reflexivity.
Qed.

Lemma replace_inner n X p P : p <> n ->
  (forall t, ~ In n (ids t) -> replace_t n X (replace_t p P t) = replace_t p (replace_t n X P) t) /\
  (forall ts, ~ In n (ids_l ts) -> replace_l n X (replace_l p P ts) = replace_l p (replace_t n X P) ts).
Proof.
  intros Hpn. apply rt_mut_ind.
  - intros i d cs IH Hni. rewrite ids_unfold in Hni. cbn [replace_t]. destruct (N.eqb_spec i p) as [->|Hne]; [reflexivity|].
    cbn [replace_t]. destruct (N.eqb_spec i n) as [->|_]; [exfalso; apply Hni; simpl; auto|].
    fold (replace_l p P cs). fold (replace_l n X (replace_l p P cs)). rewrite IH; [reflexivity|]. intro; apply Hni; simpl; auto.
  - reflexivity.
  - intros t ts IHt IHts Hni. rewrite ids_l_cons in Hni. unfold replace_l in *. cbn [map].
    rewrite IHt, IHts; [reflexivity | |]; intro; apply Hni, in_or_app; auto.
Qed.

Lemma replace_last_child n X p d cs old : rid old = n -> p <> n -> ~ In n (ids_l cs) ->
  replace_t n X (R p d (cs ++ [old])) = R p d (cs ++ [X]).
Proof.
  intros Ho Hpn Hni. cbn [replace_t]. destruct (N.eqb_spec p n); [contradiction|]. f_equal. rewrite map_app. cbn [map].
  fold (replace_l n X cs). rewrite (proj1 (proj2 (replace_notin n X) cs Hni)). f_equal. f_equal.
  destruct old as [j dj cj]. cbn [rid] in Ho. subst j. cbn [replace_t]. rewrite N.eqb_refl. reflexivity.
Qed.

(* ------------------------------------------------------------------ *)
(* the add functions with the forest they produce made explicit        *)

Lemma add_new_shape fuel t det F q ds cs d :
  Inv t det F -> find_l q F = Some (R q ds cs) -> is_text ds = false -> (fuel_of t <= fuel)%nat ->
  exists t', add_new fuel t (Some q) d = TOk (t', Some (fresh t)) /\
             Inv t' det (replace_l q (R q ds (snoc_merge cs (R (fresh t) d []))) F) /\ fresh t' = fresh t + 1 /\
             root t' = root t /\ ~ In (fresh t) (ids_l F) /\
             (is_text d = false -> exists nn, heap_of t' (fresh t) = Some nn /\ n_data nn = d).
Proof.
  intros HI Hfind Hds Hfuel. pose proof (inv_fresh_free _ _ _ HI) as Hfree. pose proof (inv_sizes _ _ _ HI) as [Hsz _].
  destruct HI as (HL & Hroots & Hb).
  set (n := fresh t). set (h1 := upd (heap_of t) n (Some (mkN d None None None None))).
  set (t1 := mkT h1 (root t) (cur_page t) (n + 1)).
  assert (HL1 : Links h1 (F ++ [R n d []])) by (apply alloc_forest; assumption).
  assert (Hfind' : find_l q (F ++ []) = Some (R q ds cs)) by (rewrite app_nil_r; exact Hfind).
  assert (Hnot : ~ In n (ids_l F)) by (intros Hin; specialize (Hb n Hin); unfold n in Hb; lia).
  destruct (add_node_forest fuel t1 F (R n d []) [] q (R q ds cs) HL1 Hfind' Hds) as (h' & Hrun & HL' & Hincl & _).
  { specialize (Hsz q _ Hfind). rewrite size_unfold in Hsz. cbn [rkids]. pose proof (length_le_size_l cs). unfold fuel_of in Hfuel. lia. }
  unfold add_new, alloc. fold n h1 t1. cbn [rid] in Hrun. rewrite Hrun.
  exists (with_heap t1 h'). split; [reflexivity|]. cbn [rdata rkids] in HL'. rewrite app_nil_r in HL', Hincl.
  split; [|split; [reflexivity | split; [reflexivity | split; [exact Hnot|]]]].
  - split; [exact HL'|]. split.
    + rewrite map_rid_replace by reflexivity. exact Hroots.
    + intros i Hi. cbn [fresh with_heap t1]. apply Hincl in Hi. rewrite ids_l_app, ids_l_single in Hi.
      apply in_app_or in Hi as [Hi|[<-|[]]]; [specialize (Hb i Hi)|]; unfold n; lia.
  - intros Hd. destruct (add_node_data fuel t1 (Some q) n _ (mkN d None None None None) Hrun) as (nn' & E1 & E2);
      [unfold t1, h1; cbn [heap_of]; apply upd_same | exact Hd |].
    exists nn'. split; [exact E1 | exact E2].
Qed.

Lemma set_data_shape t det F n sub r d' :
  Inv t det F -> find_l n F = Some sub -> heap_of t n = Some r -> is_text d' = false ->
  Inv (with_heap t (upd (heap_of t) n (Some (set_data r d')))) det (replace_l n (R n d' (rkids sub)) F).
Proof.
  intros (HL & Hroots & Hb) Hfind Hn Hd. destruct (proj2 (find_some n) _ _ Hfind) as (Hrid & _).
  split; [|split].
  - cbn [heap_of with_heap]. eapply set_data_forest; eauto.
  - rewrite map_rid_replace by reflexivity. exact Hroots.
  - intros i Hi. cbn [fresh with_heap]. apply Hb.
    destruct HL as (_ & HN & _). destruct (proj2 (ids_replace_split n (R n d' (rkids sub))) _ _ Hfind HN) as (A & B & EA & EB & _).
    rewrite EB in Hi. rewrite EA. destruct sub as [n' ds cs]. cbn [rid] in Hrid. subst n'. cbn [rkids] in *.
    rewrite ids_unfold in *. exact Hi.
Qed.

(* ------------------------------------------------------------------ *)
(* the XML front end builds exactly the document's denotation           *)

Definition last_not_text (cs : list rt) : bool :=
  match rev cs with [] => true | x :: _ => negb (is_text (rdata x)) end.

Lemma snoc_merge_plain cs tn : last_not_text cs = true \/ is_text (rdata tn) = false -> snoc_merge cs tn = cs ++ [tn].
Proof.
  intros H. destruct (rev_cases cs) as [->|(l & x & ->)]; [reflexivity|].
  rewrite snoc_merge_app, <- app_assoc. unfold last_not_text in H. rewrite rev_app_distr in H. cbn [rev app] in H.
  destruct x as [m dm mk]. destruct tn as [i di ncs]. cbn [rdata] in H.
  destruct dm; try reflexivity. destruct di; try reflexivity. cbn in H. destruct H; discriminate.
Qed.

Lemma snoc_merge_text cs0 m a mk n b ncs :
  snoc_merge (cs0 ++ [R m (DText a) mk]) (R n (DText b) ncs) = cs0 ++ [R n (DText (a ++ b)) ncs].
Proof. rewrite snoc_merge_app. reflexivity. Qed.

Lemma inv_find_in t det F p s : Inv t det F -> find_l p F = Some s -> In p (ids_l F) /\ NoDup (ids_l F).
Proof. intros ((_ & HN & _) & _) H. split; [exact (proj1 (proj2 (proj2 (find_some p) _ _ H))) | exact HN]. Qed.

Lemma find_last_child F p d cs tx : NoDup (ids_l F) -> find_l p F = Some (R p d (cs ++ [tx])) -> find_l (rid tx) F = Some tx.
Proof.
  intros HN Hf. destruct (proj2 (ids_replace_split p (R p d [])) _ _ Hf HN) as (A & B & EA & _ & _).
  assert (Nsub : NoDup (ids (R p d (cs ++ [tx])))) by (rewrite EA in HN; apply nodup_mid in HN; tauto).
  exact (proj2 (find_compose p (rid tx) tx) F _ HN Hf (find_child (rid tx) cs tx [] p d eq_refl Nsub)).
Qed.

Lemma fresh_fuel t t' k : fresh t' = fresh t + N.of_nat k -> fuel_of t' = (fuel_of t + k)%nat.
Proof. unfold fuel_of. intros ->. rewrite Nnat.N2Nat.inj_add, Nnat.Nat2N.id. lia. Qed.

Lemma replace_self p s :
  (forall t, NoDup (ids t) -> find_t p t = Some s -> replace_t p s t = t) /\
  (forall ts, NoDup (ids_l ts) -> find_l p ts = Some s -> replace_l p s ts = ts).
Proof.
  apply rt_mut_ind.
  - intros i d cs IH Hnd. rewrite find_t_unfold. cbn [replace_t]. destruct (N.eqb_spec i p); [intros [= <-]; reflexivity|].
    intros H. rewrite ids_unfold in Hnd. apply NoDup_cons_iff in Hnd as [_ Hnd]. fold (replace_l p s cs). rewrite (IH Hnd H). reflexivity.
  - reflexivity.
  - intros t ts IHt IHts Hnd. rewrite find_l_cons, ids_l_cons in *. apply NoDup_app_iff in Hnd as (N1 & N2 & N3).
    unfold replace_l in *. cbn [map]. destruct (find_t p t) eqn:E.
    + intros [= ->]. rewrite (IHt N1 eq_refl).
      assert (Hn : ~ In p (ids_l ts)) by (apply N3; exact (proj1 (proj2 (proj1 (find_some p) _ _ E)))).
      pose proof (proj1 (proj2 (replace_notin p s) ts Hn)) as E2. unfold replace_l in E2. rewrite E2. reflexivity.
    + intros Hf. rewrite (proj1 (proj1 (replace_notin p s) t (proj1 (find_none p) t E))), (IHts N2 Hf). reflexivity.
Qed.

(* further chunks of a text: joined to the text node that is the last child *)
Lemma fe_texts_more fuel det p d cs0 : is_text d = false -> forall chunks t F m acc,
  Inv t det F -> find_l p F = Some (R p d (cs0 ++ [R m (DText acc) []])) -> (fuel_of t + length chunks <= fuel)%nat ->
  exists t' m', fe_texts fuel t (Some p) chunks = TOk t' /\
    Inv t' det (replace_l p (R p d (cs0 ++ [R m' (DText (acc ++ concat chunks)) []])) F) /\
    fresh t' = fresh t + N.of_nat (length chunks) /\ root t' = root t.
Proof.
  intros Hd. induction chunks as [|ch r IH]; intros t F m acc HI Hf Hfu.
  - exists t, m. cbn [fe_texts concat length]. rewrite app_nil_r, N.add_0_r. split; [reflexivity|]. split; [|auto].
    destruct (inv_find_in _ _ _ _ _ HI Hf) as [Hin HN]. rewrite (proj2 (replace_self p _) F HN Hf). exact HI.
  - cbn [fe_texts length concat] in *. unfold add_text.
    destruct (add_new_shape fuel t det F p d _ (DText ch) HI Hf Hd) as (t1 & Hrun & HI1 & Hfr & Hroot & Hnot & _); [lia|].
    rewrite Hrun. cbn [bind]. rewrite snoc_merge_text in HI1.
    destruct (inv_find_in _ _ _ _ _ HI Hf) as [Hin HN].
    assert (Hf1 : find_l p (replace_l p (R p d (cs0 ++ [R (fresh t) (DText (acc ++ ch)) []])) F) =
                  Some (R p d (cs0 ++ [R (fresh t) (DText (acc ++ ch)) []]))) by (apply (find_replace_same p (R p d (cs0 ++ [R (fresh t) (DText (acc ++ ch)) []])) eq_refl); exact Hin).
    destruct (IH t1 _ (fresh t) (acc ++ ch) HI1 Hf1) as (t' & m' & Hrun' & HI' & Hfr' & Hroot');
      [rewrite (fresh_fuel t t1 1) by (rewrite Hfr; reflexivity); lia|].
    exists t', m'. split; [exact Hrun'|]. rewrite (proj2 (replace_replace p (R p d (cs0 ++ [R (fresh t) (DText (acc ++ ch)) []])) _ eq_refl)) in HI'. rewrite <- app_assoc in HI'.
    split; [exact HI'|]. split; [rewrite Hfr', Hfr; lia | congruence].
Qed.

(* a text item (one or more chunks) after something that is not text *)
Lemma fe_texts_first fuel det p d cs ch r t F :
  is_text d = false -> last_not_text cs = true ->
  Inv t det F -> find_l p F = Some (R p d cs) -> (fuel_of t + length (ch :: r) <= fuel)%nat ->
  exists t' m', fe_texts fuel t (Some p) (ch :: r) = TOk t' /\
    Inv t' det (replace_l p (R p d (cs ++ [R m' (DText (concat (ch :: r))) []])) F) /\
    fresh t' = fresh t + N.of_nat (length (ch :: r)) /\ root t' = root t.
Proof.
  intros Hd Hl HI Hf Hfu. cbn [fe_texts length concat] in *. unfold add_text.
  destruct (add_new_shape fuel t det F p d _ (DText ch) HI Hf Hd) as (t1 & Hrun & HI1 & Hfr & Hroot & Hnot & _); [lia|].
  rewrite Hrun. cbn [bind]. rewrite snoc_merge_plain in HI1 by (left; exact Hl).
  destruct (inv_find_in _ _ _ _ _ HI Hf) as [Hin HN].
  assert (Hf1 : find_l p (replace_l p (R p d (cs ++ [R (fresh t) (DText ch) []])) F) =
                Some (R p d (cs ++ [R (fresh t) (DText ch) []]))) by (apply (find_replace_same p (R p d (cs ++ [R (fresh t) (DText ch) []])) eq_refl); exact Hin).
  destruct (fe_texts_more fuel det p d cs Hd r t1 _ (fresh t) ch HI1 Hf1) as (t' & m' & Hrun' & HI' & Hfr' & Hroot');
    [rewrite (fresh_fuel t t1 1) by (rewrite Hfr; reflexivity); lia|].
  exists t', m'. split; [exact Hrun'|]. rewrite (proj2 (replace_replace p (R p d (cs ++ [R (fresh t) (DText ch) []])) _ eq_refl)) in HI'.
  split; [exact HI'|]. split; [rewrite Hfr', Hfr; lia | congruence].
Qed.

Definition xelt_data (l : tlang) (name : bytes) (kvs : list (bytes * bytes)) : data :=
  DElt (snd (resolve_xml_elt l name)) (map (fun kv => resolve_xml_attr l (fst kv) (snd kv)) kvs).

(* start_element: the new element, with its attributes, becomes the last child of `current` *)
Lemma fe_start_element fuel l det p d cs name kvs t F :
  is_text d = false -> Inv t det F -> find_l p F = Some (R p d cs) -> (fuel_of t <= fuel)%nat ->
  exists t', add_xml_elt_with_attrs fuel l t (Some p) name kvs = TOk (t', Some (fresh t)) /\
    Inv t' det (replace_l p (R p d (cs ++ [R (fresh t) (xelt_data l name kvs) []])) F) /\
    fresh t' = fresh t + 1 /\ root t' = root t /\ ~ In (fresh t) (ids_l F) /\ p <> fresh t.
Proof.
  intros Hd HI Hf Hfu. unfold add_xml_elt_with_attrs, add_xml_elt, xelt_data.
  destruct (resolve_xml_elt l name) as [cp tag]. cbn [snd].
  set (t0 := mkT (heap_of t) (root t) cp (fresh t)).
  assert (HI0 : Inv t0 det F) by exact HI.
  destruct (add_new_shape fuel t0 det F p d cs (DElt tag []) HI0 Hf Hd) as (t1 & Hrun & HI1 & Hfr & Hroot & Hnot & Hdat);
    [unfold fuel_of in *; cbn [fresh t0]; exact Hfu|].
  cbn [fresh t0 root] in *. rewrite Hrun. cbn [bind].
  rewrite snoc_merge_plain in HI1 by (right; reflexivity).
  destruct (inv_find_in _ _ _ _ _ HI Hf) as [Hin HN].
  assert (Hpn : p <> fresh t) by (intros ->; exact (Hnot Hin)).
  destruct kvs as [|kv kvs].
  - exists t1. cbn [map]. auto 10.
  - destruct (Hdat eq_refl) as (nn & Hn & Hdn).
    unfold node_add_xml_attrs, node_add_attrs. rewrite (get_some _ _ _ Hn). cbn [bind]. rewrite Hdn. cbn [bind app].
    eexists. split; [reflexivity|].
    set (newP := R p d (cs ++ [R (fresh t) (DElt tag []) []])) in *.
    assert (HfP : find_l p (replace_l p newP F) = Some newP) by (apply (find_replace_same p newP eq_refl); exact Hin).
    assert (HN1 : NoDup (ids_l (replace_l p newP F))) by (destruct HI1 as ((_ & H & _) & _); exact H).
    pose proof (find_last_child _ p d cs (R (fresh t) (DElt tag []) []) HN1 HfP) as Hfn. cbn [rid] in Hfn.
    pose proof (set_data_shape t1 det _ (fresh t) _ nn (DElt tag (map (fun kv0 => resolve_xml_attr l (fst kv0) (snd kv0)) (kv :: kvs))) HI1 Hfn Hn eq_refl) as HI2.
    cbn [rkids] in HI2.
    rewrite (proj2 (replace_inner (fresh t) _ p newP Hpn) F Hnot) in HI2.
    assert (Hncs : ~ In (fresh t) (ids_l cs)).
    { intros Hc. apply Hnot. apply (proj2 (proj2 (proj2 (find_some p) _ _ Hf))). rewrite ids_unfold. right. exact Hc. }
    unfold newP in HI2. rewrite (replace_last_child (fresh t) _ p d cs (R (fresh t) (DElt tag []) []) eq_refl Hpn Hncs) in HI2.
    split; [exact HI2|]. cbn [fresh with_heap root]. auto.
Qed.

Lemma xnode_ind' (P : xnode -> Prop) :
  (forall chunks, P (XText chunks)) -> (forall name kvs kids, Forall P kids -> P (XElt name kvs kids)) -> forall x, P x.
Proof.
  intros HT HE. fix IH 1. intros [name kvs kids | chunks]; [|apply HT]. apply HE.
  induction kids as [|k kids IHk]; constructor; [apply IH | exact IHk].
Qed.

Definition kloop (fuel : nat) (l : tlang) :=
  fix kids_loop (t : tstate) (cur : option id) (ks : list xnode) {struct ks} : tres (tstate * option id) :=
    match ks with
    | [] => TOk (t, cur)
    | k :: rest => do r <- fe_node fuel l t cur k; kids_loop (fst r) (snd r) rest
    end.

Lemma fe_node_elt_unfold fuel l t cur name kvs kids :
  fe_node fuel l t cur (XElt name kvs kids) =
  do r <- add_xml_elt_with_attrs fuel l t cur name kvs;
  match r with
  | (t1, Some n) =>
    do r2 <- kloop fuel l t1 (Some n) kids;
    match snd r2 with
    | Some c => do cn <- get (heap_of (fst r2)) c;
                TOk (fst r2, match n_parent cn with Some p => Some p | None => Some c end)
    | None => TFail
    end
  | (_, None) => TFail
  end.
Proof. reflexivity. Qed.

Definition xsize_l (ks : list xnode) : nat := list_sum (map xsize ks).

Lemma xsize_l_cons k ks : xsize_l (k :: ks) = (xsize k + xsize_l ks)%nat.
Proof. reflexivity. Qed.

Lemma xsize_elt name kvs kids : xsize (XElt name kvs kids) = S (xsize_l kids).
Proof. reflexivity. Qed.

Definition head_is_xtext (ks : list xnode) : bool := match ks with k :: _ => is_xtext k | [] => false end.

Lemma last_not_text_snoc cs x : last_not_text (cs ++ [x]) = negb (is_text (rdata x)).
Proof. unfold last_not_text. rewrite rev_app_distr. reflexivity. Qed.

Section FrontEnd.
  Variables (fuel : nat) (l : tlang) (det : list id).

  (* what processing one item below `current` = p establishes *)
  Definition fe_item_ok (x : xnode) : Prop :=
    forall t F p d cs, is_text d = false -> Inv t det F -> find_l p F = Some (R p d cs) -> xnf x = true ->
      (is_xtext x = true -> last_not_text cs = true) -> (fuel_of t + xsize x <= fuel)%nat ->
      exists t' ks, fe_node fuel l t (Some p) x = TOk (t', Some p) /\
        Inv t' det (replace_l p (R p d (cs ++ ks)) F) /\ map erase ks = xdenote l x /\
        fresh t' = fresh t + N.of_nat (xsize x) /\ root t' = root t /\
        (is_xtext x = false -> last_not_text (cs ++ ks) = true).

  Lemma fe_kids_ok n dn : is_text dn = false -> forall kids, Forall fe_item_ok kids ->
    forall t F done, Inv t det F -> find_l n F = Some (R n dn done) ->
      no_adjacent_xtext kids = true -> forallb xnf kids = true ->
      (head_is_xtext kids = true -> last_not_text done = true) -> (fuel_of t + xsize_l kids <= fuel)%nat ->
      exists t' new, kloop fuel l t (Some n) kids = TOk (t', Some n) /\
        Inv t' det (replace_l n (R n dn (done ++ new)) F) /\ map erase new = flat_map (xdenote l) kids /\
        fresh t' = fresh t + N.of_nat (xsize_l kids) /\ root t' = root t.
  Proof.
    intros Hdn kids HF. induction HF as [|k kids Hk _ IH]; intros t F done HI Hf Hadj Hnf Hhead Hfu.
    - exists t, []. cbn [kloop]. rewrite app_nil_r. unfold xsize_l. cbn. rewrite N.add_0_r.
      split; [reflexivity|]. split; [|auto].
      destruct (inv_find_in _ _ _ _ _ HI Hf) as [_ HN]. rewrite (proj2 (replace_self n _) F HN Hf). exact HI.
    - cbn [forallb] in Hnf. apply andb_prop in Hnf as [Hnfk Hnfr].
      rewrite xsize_l_cons in Hfu.
      destruct (Hk t F n dn done Hdn HI Hf Hnfk) as (t1 & ks & Hrun & HI1 & Her & Hfr & Hroot & Hlast);
        [exact Hhead | lia |].
      cbn [kloop]. rewrite Hrun. cbn [bind fst snd]. fold (kloop fuel l).
      destruct (inv_find_in _ _ _ _ _ HI Hf) as [Hin HN].
      assert (Hf1 : find_l n (replace_l n (R n dn (done ++ ks)) F) = Some (R n dn (done ++ ks)))
        by (apply (find_replace_same n (R n dn (done ++ ks)) eq_refl); exact Hin).
      destruct (IH t1 _ (done ++ ks) HI1 Hf1) as (t' & new & Hrun' & HI' & Her' & Hfr' & Hroot').
      { destruct kids as [|k2 r]; [reflexivity|]. cbn [no_adjacent_xtext] in Hadj. apply andb_prop in Hadj. tauto. }
      { exact Hnfr. }
      { intros Hh. apply Hlast. destruct kids as [|k2 r]; [discriminate|]. cbn [head_is_xtext] in Hh.
        cbn [no_adjacent_xtext] in Hadj. apply andb_prop in Hadj as [Ha _]. rewrite Hh, andb_true_r in Ha.
        destruct (is_xtext k); [discriminate | reflexivity]. }
      { rewrite (fresh_fuel t t1 (xsize k) Hfr). lia. }
      exists t', (ks ++ new). split; [exact Hrun'|].
      rewrite (proj2 (replace_replace n (R n dn (done ++ ks)) _ eq_refl)) in HI'. rewrite <- app_assoc in HI'.
      split; [exact HI'|]. split; [rewrite map_app, Her, Her'; reflexivity|].
      split; [|congruence]. rewrite Hfr', Hfr, xsize_l_cons. lia.
  Qed.

  Lemma child_parent t F p d cs n dn ks : Inv t det F -> find_l p F = Some (R p d (cs ++ [R n dn ks])) ->
    exists nn, heap_of t n = Some nn /\ n_parent nn = Some p.
  Proof.
    intros ((HF & HN & _) & _) Hf.
    destruct (find_rep_forest _ _ _ _ HF Hf) as (parq & prevq & nxtq & Hsub).
    destruct (proj2 (ids_replace_split p (R p d [])) _ _ Hf HN) as (A & B & EA & _ & _).
    assert (Nsub : NoDup (ids (R p d (cs ++ R n dn ks :: [])))) by (rewrite EA in HN; apply nodup_mid in HN; tauto).
    destruct (ex_facts t p n d dn parq prevq nxtq cs [] ks Hsub Nsub) as (_ & Q3 & _).
    eexists. split; [exact Q3 | reflexivity].
  Qed.

  Theorem fe_node_builds : forall x, fe_item_ok x.
  Proof.
    induction x as [chunks | name kvs kids IHk] using xnode_ind'; intros t F p d cs Hd HI Hf Hnf Hx Hfu.
    - (* a text item *)
      destruct chunks as [|ch r]; [discriminate|]. cbn [xsize] in *.
      destruct (fe_texts_first fuel det p d cs ch r t F Hd (Hx eq_refl) HI Hf Hfu) as (t' & m' & Hrun & HI' & Hfr & Hroot).
      exists t', [R m' (DText (concat (ch :: r))) []]. cbn [fe_node]. rewrite Hrun. cbn [bind].
      split; [reflexivity|]. split; [exact HI'|]. split; [reflexivity|]. split; [exact Hfr|]. split; [exact Hroot | discriminate].
    - (* an element *)
      cbn [xnf] in Hnf. apply andb_prop in Hnf as [Hadj Hnfk]. rewrite xsize_elt in Hfu.
      destruct (fe_start_element fuel l det p d cs name kvs t F Hd HI Hf) as (t1 & Hrun & HI1 & Hfr & Hroot & Hnot & Hpn); [lia|].
      rewrite fe_node_elt_unfold, Hrun. cbn [bind].
      set (n := fresh t) in *. set (dn := xelt_data l name kvs) in *.
      destruct (inv_find_in _ _ _ _ _ HI Hf) as [Hin HN].
      set (newP := R p d (cs ++ [R n dn []])) in *.
      assert (HfP : find_l p (replace_l p newP F) = Some newP) by (apply (find_replace_same p newP eq_refl); exact Hin).
      assert (HN1 : NoDup (ids_l (replace_l p newP F))) by (destruct HI1 as ((_ & H & _) & _); exact H).
      pose proof (find_last_child _ p d cs (R n dn []) HN1 HfP) as Hfn. cbn [rid] in Hfn.
      destruct (fe_kids_ok n dn eq_refl kids IHk t1 _ [] HI1 Hfn Hadj Hnfk) as (t2 & new & Hrun2 & HI2 & Her & Hfr2 & Hroot2);
        [reflexivity | rewrite (fresh_fuel t t1 1) by (rewrite Hfr; reflexivity); lia |].
      rewrite Hrun2. cbn [bind fst snd app] in *.
      rewrite (proj2 (replace_inner n _ p newP Hpn) F Hnot) in HI2.
      assert (Hncs : ~ In n (ids_l cs)).
      { intros Hc. apply Hnot. apply (proj2 (proj2 (proj2 (find_some p) _ _ Hf))). rewrite ids_unfold. right. exact Hc. }
      unfold newP in HI2. rewrite (replace_last_child n _ p d cs (R n dn []) eq_refl Hpn Hncs) in HI2.
      assert (HfP2 : find_l p (replace_l p (R p d (cs ++ [R n dn new])) F) = Some (R p d (cs ++ [R n dn new])))
        by (apply (find_replace_same p (R p d (cs ++ [R n dn new])) eq_refl); exact Hin).
      destruct (child_parent _ _ _ _ _ _ _ _ HI2 HfP2) as (nn & Hnn & Hpar).
      rewrite (get_some _ _ _ Hnn). cbn [bind]. rewrite Hpar.
      exists t2, [R n dn new]. split; [reflexivity|]. split; [exact HI2|].
      split; [cbn [map erase xdenote]; unfold dn, xelt_data; rewrite Her; reflexivity|].
      split; [rewrite Hfr2, Hfr, xsize_elt; lia|].
      split; [congruence|]. intros _. rewrite last_not_text_snoc. reflexivity.
  Qed.
End FrontEnd.

Lemma add_new_root_shape fuel t det F d : Inv t det F -> root t = None ->
  exists t', add_new fuel t None d = TOk (t', Some (fresh t)) /\ Inv t' det (R (fresh t) d [] :: F) /\
             fresh t' = fresh t + 1 /\ root t' = Some (fresh t) /\ ~ In (fresh t) (ids_l F) /\
             heap_of t' (fresh t) = Some (mkN d None None None None).
Proof.
  intros HI Hroot. pose proof (inv_fresh_free _ _ _ HI) as Hfree. destruct HI as (HL & Hroots & Hb).
  set (n := fresh t). set (h1 := upd (heap_of t) n (Some (mkN d None None None None))).
  assert (HL1 : Links h1 (F ++ [R n d []])) by (apply alloc_forest; assumption).
  assert (Hnot : ~ In n (ids_l F)) by (intros Hin; specialize (Hb n Hin); unfold n in Hb; lia).
  unfold add_new, alloc, add_node. fold n h1. cbn [heap_of root]. unfold h1 at 1. rewrite get_upd_same. cbn [bind]. rewrite Hroot.
  eexists. split; [reflexivity|]. split; [|split; [reflexivity | split; [reflexivity | split; [exact Hnot|]]]].
  - split; [|split].
    + cbn [heap_of]. apply Links_perm with (F := F ++ [R n d []]); [apply Permutation_sym, Permutation_cons_append|].
      eapply Links_ext; [|exact HL1]. intros i. unfold upd. destruct (N.eqb_spec i n) as [->|_]; [|reflexivity].
      unfold h1. rewrite upd_same. reflexivity.
    + unfold roots in *. cbn [root map rid]. rewrite Hroot in Hroots. rewrite Hroots. reflexivity.
    + intros i Hi. cbn [fresh]. rewrite ids_l_cons in Hi. apply in_app_or in Hi as [[<-|[]]|Hi]; [|specialize (Hb i Hi)]; unfold n; lia.
  - cbn [heap_of]. rewrite upd_same. reflexivity.
Qed.

(* the whole document: the root element on the empty tree *)
Theorem fe_doc_builds fuel l name kvs kids :
  xnf (XElt name kvs kids) = true -> (S (S (xsize (XElt name kvs kids))) <= fuel)%nat ->
  exists t' n new, fe_doc fuel l (XElt name kvs kids) = TOk (t', Some n) /\ root t' = Some n /\
    Inv t' [] [R n (xelt_data l name kvs) new] /\ [erase (R n (xelt_data l name kvs) new)] = xdenote l (XElt name kvs kids).
Proof.
  intros Hnf Hfu. cbn [xnf] in Hnf. apply andb_prop in Hnf as [Hadj Hnfk]. rewrite xsize_elt in Hfu.
  assert (HI0 : Inv (ts init_state) [] []).
  { destruct init_links as (F & HL & Hr & Hb). destruct F; [|discriminate]. split; [exact HL|]. split; [reflexivity | exact Hb]. }
  unfold fe_doc. rewrite fe_node_elt_unfold. unfold add_xml_elt_with_attrs, add_xml_elt.
  destruct (resolve_xml_elt l name) as [cp tag] eqn:Eres.
  set (t0 := mkT (heap_of (ts init_state)) (root (ts init_state)) cp (fresh (ts init_state))).
  assert (HI00 : Inv t0 [] []) by exact HI0.
  destruct (add_new_root_shape fuel t0 [] [] (DElt tag []) HI00 eq_refl) as (t1 & Hrun & HI1 & Hfr & Hroot & _ & Hn).
  rewrite Hrun. cbn [bind]. set (n := fresh t0) in *.
  set (dn := xelt_data l name kvs).
  (* attributes *)
  assert (K : exists t2, (match kvs with
                          | [] => TOk (t1, Some n)
                          | _ :: _ => do h <- node_add_xml_attrs l (heap_of t1) n kvs; TOk (with_heap t1 h, Some n)
                          end) = TOk (t2, Some n) /\ Inv t2 [] [R n dn []] /\ fresh t2 = fresh t1 /\ root t2 = Some n).
  { unfold dn, xelt_data. rewrite Eres. cbn [snd]. destruct kvs as [|kv kvs].
    - exists t1. cbn [map]. auto.
    - unfold node_add_xml_attrs, node_add_attrs. rewrite (get_some _ _ _ Hn). cbn [bind n_data app].
      eexists. split; [reflexivity|].
      pose proof (set_data_shape t1 [] [R n (DElt tag []) []] n (R n (DElt tag []) []) (mkN (DElt tag []) None None None None)
                    (DElt tag (map (fun kv0 => resolve_xml_attr l (fst kv0) (snd kv0)) (kv :: kvs))) HI1) as H.
      cbn [rkids replace_l map replace_t] in H. rewrite N.eqb_refl in H.
      split; [apply H; [rewrite find_l_cons, find_t_unfold, N.eqb_refl; reflexivity | exact Hn | reflexivity]|].
      cbn [fresh with_heap root]. auto. }
  destruct K as (t2 & Hrun2 & HI2 & Hfr2 & Hroot2). rewrite Hrun2. cbn [bind].
  assert (Hfn : find_l n [R n dn []] = Some (R n dn [])) by (rewrite find_l_cons, find_t_unfold, N.eqb_refl; reflexivity).
  assert (Hall : Forall (fe_item_ok fuel l []) kids) by (apply Forall_forall; intros k _; apply fe_node_builds).
  destruct (fe_kids_ok fuel l [] n dn eq_refl kids Hall t2 _ [] HI2 Hfn Hadj Hnfk) as (t3 & new & Hrun3 & HI3 & Her & Hfr3 & Hroot3);
    [reflexivity | unfold fuel_of; rewrite Hfr2, Hfr; cbn [fresh t0 init_state ts]; cbn; lia |].
  rewrite Hrun3. cbn [bind fst snd app replace_l map replace_t] in *. rewrite N.eqb_refl in HI3.
  (* end_element of the root: current stays *)
  destruct HI3 as (HL3 & Hr3 & Hb3). pose proof HL3 as (HF3 & _). apply Forall_cons_iff in HF3 as [Hrep _].
  apply rep_t_unfold in Hrep as [Hnn _]. rewrite (get_some _ _ _ Hnn). cbn [bind n_parent].
  exists t3, n, new. split; [reflexivity|]. split; [congruence|]. split; [exact (conj HL3 (conj Hr3 Hb3))|].
  cbn [erase xdenote]. unfold dn, xelt_data. rewrite Her. reflexivity.
Qed.

(* a tree built through the API, by any history, whose shape is the document's denotation is walked by the encoders
   exactly as the tree the XML front end builds for that document *)
Theorem api_tree_walks_like_parsed_tree fuel l name kvs kids c tr :
  xnf (XElt name kvs kids) = true -> (S (S (xsize (XElt name kvs kids))) <= fuel)%nat ->
  CLinks c -> tree_of c = Some tr -> [erase tr] = xdenote l (XElt name kvs kids) ->
  exists t' n, fe_doc fuel l (XElt name kvs kids) = TOk (t', Some n) /\
    enc_walk (S (fuel_of (ts c))) (heap_of (ts c)) (root (ts c)) = enc_walk (S (fuel_of t')) (heap_of t') (root t').
Proof.
  intros Hnf Hfu HC Htr Hsh.
  destruct (fe_doc_builds fuel l name kvs kids Hnf Hfu) as (t' & n & new & Hrun & Hroot & HI & Hden).
  exists t', n. split; [exact Hrun|].
  set (c2 := mkC t' []).
  assert (HC2 : CLinks c2) by (apply CLinks_Inv; eexists; exact HI).
  assert (Ht2 : tree_of c2 = Some (R n (xelt_data l name kvs) new)).
  { unfold tree_of. rewrite (abs_forest_inv c2 _ HI). cbn [ts c2]. rewrite Hroot. reflexivity. }
  apply (equal_shapes_equal_walks c c2 tr _ HC HC2 Htr Ht2). rewrite <- Hden in Hsh. injection Hsh as ->. reflexivity.
Qed.
