(* C18 — lemmas about Model/TreeGraph.v *)
From Coq Require Import List NArith Bool Lia Permutation.
From Wbxml Require Import Model.TreeGraph.
Import ListNotations.
Local Open Scope N_scope.

Arguments N.add : simpl never.
Arguments N.eqb : simpl never.

(* ------------------------------------------------------------------ *)
(* generalities                                                        *)

Lemma rt_ind' (P : rt -> Prop) :
  (forall i d cs, Forall P cs -> P (R i d cs)) -> forall t, P t.
Proof.
  intros H. fix IH 1. intros [i d cs]. apply H.
  induction cs as [|c cs IHcs]; constructor; [apply IH | exact IHcs].
Qed.

Lemma NoDup_app_iff {A} (l l' : list A) :
  NoDup (l ++ l') <-> NoDup l /\ NoDup l' /\ (forall x, In x l -> ~ In x l').
Proof.
  induction l as [|a l IH]; simpl.
  - split; [intros H; repeat split; [constructor | exact H | tauto] | tauto].
  - split.
    + intros H. inversion H as [|? ? Hn Hd]; subst. apply IH in Hd as (H1 & H2 & H3).
      repeat split; [constructor; [intro; apply Hn, in_or_app; tauto | exact H1] | exact H2 |].
      intros x [->|Hx]; [intro; apply Hn, in_or_app; tauto | apply H3, Hx].
    + intros (H1 & H2 & H3). inversion H1 as [|? ? Hn Hd]; subst. constructor.
      * intro Hin. apply in_app_or in Hin as [Hin|Hin]; [tauto | exact (H3 a (or_introl eq_refl) Hin)].
      * apply IH. repeat split; [exact Hd | exact H2 | intros x Hx; apply H3; right; exact Hx].
Qed.

Lemma upd_same h i v : upd h i v i = v.
Proof. unfold upd. rewrite N.eqb_refl. reflexivity. Qed.

Lemma upd_other h i v j : j <> i -> upd h i v j = h j.
Proof. intros H. unfold upd. destruct (N.eqb_spec j i); [contradiction | reflexivity]. Qed.

Lemma ids_l_cons t ts : ids_l (t :: ts) = ids t ++ ids_l ts.
Proof. reflexivity. Qed.

Lemma ids_l_app a b : ids_l (a ++ b) = ids_l a ++ ids_l b.
Proof. unfold ids_l. apply flat_map_app. Qed.

Lemma ids_unfold i d cs : ids (R i d cs) = i :: ids_l cs.
Proof. reflexivity. Qed.

Lemma rid_in_ids t : In (rid t) (ids t).
Proof. destruct t; simpl; auto. Qed.

Lemma in_ids_l t ts x : In t ts -> In x (ids t) -> In x (ids_l ts).
Proof. intros. unfold ids_l. apply in_flat_map. eauto. Qed.

(* ------------------------------------------------------------------ *)
(* the representation predicate                                        *)

Definition head_or (d : option id) (l : list rt) : option id := match l with [] => d | x :: _ => Some (rid x) end.
Fixpoint last_or (d : option id) (l : list rt) : option id := match l with [] => d | x :: r => last_or (Some (rid x)) r end.

Lemma head_or_None l : head_or None l = head_id l.
Proof. destruct l; reflexivity. Qed.

Lemma rep_l_cons h par prev nxt c rest :
  rep_l h par prev nxt (c :: rest) <-> rep_t h par prev (head_or nxt rest) c /\ rep_l h par (Some (rid c)) nxt rest.
Proof. simpl. destruct rest; simpl; tauto. Qed.

Lemma rep_t_unfold h par prev nxt i d cs :
  rep_t h par prev nxt (R i d cs) <->
  h i = Some (mkN d par (head_id cs) nxt prev) /\ rep_l h (Some i) None None cs.
Proof.
  cbn [rep_t]. apply and_iff_compat_l.
  generalize (@None id) at 1 2. induction cs as [|c cs IH]; intros pv; [cbn; tauto|].
  cbn [rep_l]. split; intros [Ha Hb]; (split; [exact Ha | apply IH; exact Hb]).
Qed.

Global Opaque rep_t.

Lemma rep_l_app h par : forall l1 l2 prev nxt,
  rep_l h par prev nxt (l1 ++ l2) <-> rep_l h par prev (head_or nxt l2) l1 /\ rep_l h par (last_or prev l1) nxt l2.
Proof.
  induction l1 as [|c l1 IH]; intros l2 prev nxt.
  - simpl. tauto.
  - rewrite <- app_comm_cons, !rep_l_cons, IH. simpl last_or.
    replace (head_or nxt (l1 ++ l2)) with (head_or (head_or nxt l2) l1) by (destruct l1; reflexivity).
    tauto.
Qed.

(* frame: a heap that agrees on the identities of a forest represents it as well *)
Lemma rep_frame h h' : forall t par prev nxt,
  (forall i, In i (ids t) -> h' i = h i) -> rep_t h par prev nxt t -> rep_t h' par prev nxt t.
Proof.
  induction t as [i d cs IH] using rt_ind'. intros par prev nxt Hf.
  rewrite !rep_t_unfold. intros [H1 H2]. split.
  - rewrite Hf; [exact H1 | simpl; auto].
  - assert (Hf' : forall j, In j (ids_l cs) -> h' j = h j) by (intros; apply Hf; simpl; auto).
    clear Hf H1. revert H2 Hf'.
    assert (G : forall pa pv nx, rep_l h pa pv nx cs -> (forall j, In j (ids_l cs) -> h' j = h j) -> rep_l h' pa pv nx cs);
      [|apply G].
    induction IH as [|c cs Hc _ IHcs]; intros pa pv nx; [simpl; tauto|].
    rewrite !rep_l_cons. intros [Ha Hb] Hf'. split.
    + apply Hc; [|exact Ha]. intros; apply Hf'. rewrite ids_l_cons. apply in_or_app; auto.
    + apply IHcs; [exact Hb|]. intros; apply Hf'. rewrite ids_l_cons. apply in_or_app; auto.
Qed.

Lemma rep_l_frame h h' : forall ts par prev nxt,
  (forall i, In i (ids_l ts) -> h' i = h i) -> rep_l h par prev nxt ts -> rep_l h' par prev nxt ts.
Proof.
  induction ts as [|c ts IH]; intros par prev nxt Hf; [simpl; tauto|].
  rewrite !rep_l_cons. intros [Ha Hb]. split.
  - eapply rep_frame; [|exact Ha]. intros; apply Hf. rewrite ids_l_cons. apply in_or_app; auto.
  - apply IH; [|exact Hb]. intros; apply Hf. rewrite ids_l_cons. apply in_or_app; auto.
Qed.

(* every identity of a represented forest is allocated *)
Lemma rep_alloc h : forall t par prev nxt x, rep_t h par prev nxt t -> In x (ids t) -> h x <> None.
Proof.
  induction t as [i d cs IH] using rt_ind'. intros par prev nxt x. rewrite rep_t_unfold. intros [H1 H2] Hx.
  simpl in Hx. destruct Hx as [<-|Hx]; [rewrite H1; discriminate|].
  revert H2 Hx. clear H1.
  assert (G : forall pa pv nx, rep_l h pa pv nx cs -> In x (ids_l cs) -> h x <> None); [|apply G].
  induction IH as [|c cs Hc _ IHcs]; intros pa pv nx; [simpl; tauto|].
  rewrite rep_l_cons, ids_l_cons. intros [Ha Hb] Hx. apply in_app_or in Hx as [Hx|Hx];
    [eapply Hc; eassumption | eapply IHcs; eassumption].
Qed.

Lemma rep_l_alloc h : forall ts par prev nxt x, rep_l h par prev nxt ts -> In x (ids_l ts) -> h x <> None.
Proof.
  induction ts as [|c ts IH]; intros par prev nxt x; [simpl; tauto|].
  rewrite rep_l_cons, ids_l_cons. intros [Ha Hb] Hx. apply in_app_or in Hx as [Hx|Hx]; [eapply rep_alloc; eauto | eauto].
Qed.

(* ------------------------------------------------------------------ *)
(* replacing the sub-tree with identity p                              *)

Fixpoint replace_t (p : id) (new : rt) (t : rt) : rt :=
  match t with R i d cs => if i =? p then new else R i d (map (replace_t p new) cs) end.
Definition replace_l (p : id) (new : rt) (ts : list rt) : list rt := map (replace_t p new) ts.

(* identities of the sub-tree with identity p (every occurrence; at most one under NoDup) *)
Fixpoint sub_ids (p : id) (t : rt) : list id :=
  match t with R i d cs => if i =? p then ids t else flat_map (sub_ids p) cs end.
Definition sub_ids_l (p : id) (ts : list rt) : list id := flat_map (sub_ids p) ts.

Lemma rid_replace p new t : rid new = p -> rid (replace_t p new t) = rid t.
Proof. intros H. destruct t as [i d cs]. simpl. destruct (N.eqb_spec i p); simpl; congruence. Qed.

Lemma head_or_replace p new d l : rid new = p -> head_or d (replace_l p new l) = head_or d l.
Proof. intros H. destruct l; simpl; [reflexivity | rewrite rid_replace by exact H; reflexivity]. Qed.

Lemma sub_ids_incl p : forall t x, In x (sub_ids p t) -> In x (ids t).
Proof.
  induction t as [i d cs IH] using rt_ind'. intros x. simpl. destruct (i =? p); [tauto|].
  intros Hx. right. apply in_flat_map in Hx as (c & Hc & Hx). rewrite Forall_forall in IH.
  apply in_flat_map. exists c. split; [exact Hc | apply IH; assumption].
Qed.

Lemma sub_ids_l_incl p ts x : In x (sub_ids_l p ts) -> In x (ids_l ts).
Proof.
  unfold sub_ids_l, ids_l. intros Hx. apply in_flat_map in Hx as (c & Hc & Hx).
  apply in_flat_map. exists c. split; [exact Hc | apply sub_ids_incl with p; exact Hx].
Qed.

Lemma sub_ids_l_cons p t ts : sub_ids_l p (t :: ts) = sub_ids p t ++ sub_ids_l p ts.
Proof. reflexivity. Qed.

Section Replace.
  Variables (h h' : heap) (p : id) (new : rt).
  Hypothesis Hnew : rid new = p.
  (* whatever context p's node has in h, the new sub-tree is represented in h' in that context *)
  Hypothesis Hloc : forall par prev nxt d c, h p = Some (mkN d par c nxt prev) -> rep_t h' par prev nxt new.

  Lemma rep_replace_l_aux cs :
    Forall (fun t => forall par prev nxt, rep_t h par prev nxt t -> NoDup (ids t) ->
                     (forall i, In i (ids t) -> ~ In i (sub_ids p t) -> h' i = h i) ->
                     rep_t h' par prev nxt (replace_t p new t)) cs ->
    forall pa pv nx, rep_l h pa pv nx cs -> NoDup (ids_l cs) ->
      (forall j, In j (ids_l cs) -> ~ In j (sub_ids_l p cs) -> h' j = h j) ->
      rep_l h' pa pv nx (replace_l p new cs).
  Proof.
    intros IH. induction IH as [|c cs Hc _ IHcs]; intros pa pv nx; [simpl; tauto|].
    unfold replace_l. rewrite map_cons. fold (replace_l p new cs).
    rewrite !rep_l_cons. intros [Ha Hb] Hnd Hf. rewrite ids_l_cons, NoDup_app_iff in Hnd.
    destruct Hnd as (N1 & N2 & N3).
    rewrite head_or_replace, rid_replace by exact Hnew. split.
    - apply Hc; [exact Ha | exact N1 |]. intros i Hi Hs. apply Hf.
      + rewrite ids_l_cons. apply in_or_app. auto.
      + rewrite sub_ids_l_cons. intro Hin. apply in_app_or in Hin as [Hin|Hin]; [tauto|].
        apply sub_ids_l_incl in Hin. exact (N3 i Hi Hin).
    - apply IHcs; [exact Hb | exact N2 |]. intros j Hj Hs. apply Hf.
      + rewrite ids_l_cons. apply in_or_app. auto.
      + rewrite sub_ids_l_cons. intro Hin. apply in_app_or in Hin as [Hin|Hin]; [|tauto].
        apply sub_ids_incl in Hin. exact (N3 j Hin Hj).
  Qed.

  Lemma rep_replace_t : forall t par prev nxt, rep_t h par prev nxt t -> NoDup (ids t) ->
    (forall i, In i (ids t) -> ~ In i (sub_ids p t) -> h' i = h i) ->
    rep_t h' par prev nxt (replace_t p new t).
  Proof.
    induction t as [i d cs IH] using rt_ind'. intros par prev nxt Hr Hnd Hf.
    simpl replace_t. simpl sub_ids in Hf. destruct (N.eqb_spec i p) as [->|Hne].
    - apply rep_t_unfold in Hr as [H1 _]. eapply Hloc. exact H1.
    - rewrite rep_t_unfold in Hr. destruct Hr as [H1 H2]. rewrite ids_unfold in Hnd.
      apply NoDup_cons_iff in Hnd as [Hni Hnd'].
      apply rep_t_unfold. split.
      + rewrite Hf; [| simpl; auto | intro Hin; apply Hni; apply sub_ids_l_incl with p; exact Hin].
        rewrite H1. f_equal. f_equal. rewrite <- !head_or_None. fold (replace_l p new cs).
        symmetry. apply head_or_replace. exact Hnew.
      + apply rep_replace_l_aux; [exact IH | exact H2 | exact Hnd' |].
        intros j Hj Hs. apply Hf; [simpl; auto | exact Hs].
  Qed.

  Lemma rep_replace_l ts pa pv nx : rep_l h pa pv nx ts -> NoDup (ids_l ts) ->
      (forall j, In j (ids_l ts) -> ~ In j (sub_ids_l p ts) -> h' j = h j) ->
      rep_l h' pa pv nx (replace_l p new ts).
  Proof.
    apply rep_replace_l_aux. apply Forall_forall. intros t _. apply rep_replace_t.
  Qed.

  Lemma rep_replace_forest F : Forall (rep_t h None None None) F -> NoDup (ids_l F) ->
      (forall j, In j (ids_l F) -> ~ In j (sub_ids_l p F) -> h' j = h j) ->
      Forall (rep_t h' None None None) (replace_l p new F).
  Proof.
    induction F as [|t F IH]; intros Hr Hnd Hf; [constructor|].
    apply Forall_cons_iff in Hr as [Ht HF]. rewrite ids_l_cons, NoDup_app_iff in Hnd. destruct Hnd as (N1 & N2 & N3).
    unfold replace_l. rewrite map_cons. constructor.
    - apply rep_replace_t; [exact Ht | exact N1 |]. intros i Hi Hs. apply Hf.
      + rewrite ids_l_cons. apply in_or_app; auto.
      + rewrite sub_ids_l_cons. intro Hin. apply in_app_or in Hin as [Hin|Hin]; [tauto|].
        apply sub_ids_l_incl in Hin. exact (N3 i Hi Hin).
    - apply IH; [exact HF | exact N2 |]. intros j Hj Hs. apply Hf.
      + rewrite ids_l_cons. apply in_or_app; auto.
      + rewrite sub_ids_l_cons. intro Hin. apply in_app_or in Hin as [Hin|Hin]; [|tauto].
        apply sub_ids_incl in Hin. exact (N3 j Hin Hj).
  Qed.
End Replace.

(* ------------------------------------------------------------------ *)
(* mutual induction over trees and forests                             *)

Lemma rt_mut_ind (P : rt -> Prop) (Q : list rt -> Prop) :
  (forall i d cs, Q cs -> P (R i d cs)) -> Q [] -> (forall t ts, P t -> Q ts -> Q (t :: ts)) ->
  (forall t, P t) /\ (forall ts, Q ts).
Proof.
  intros HP HQ0 HQ.
  assert (Ht : forall t, P t).
  { fix IH 1. intros [i d cs]. apply HP. induction cs as [|c cs IHcs]; [exact HQ0 | apply HQ; [apply IH | exact IHcs]]. }
  split; [exact Ht|]. induction ts; [exact HQ0 | apply HQ; auto].
Qed.

Lemma find_t_unfold x i d cs : find_t x (R i d cs) = if i =? x then Some (R i d cs) else find_l x cs.
Proof.
  simpl. destruct (i =? x); [reflexivity|]. induction cs as [|c cs IH]; [reflexivity|].
  simpl. destruct (find_t x c); [reflexivity | exact IH].
Qed.

Lemma find_l_cons x c cs : find_l x (c :: cs) = match find_t x c with Some y => Some y | None => find_l x cs end.
Proof. reflexivity. Qed.

Global Opaque find_t.

Lemma find_none x :
  (forall t, find_t x t = None -> ~ In x (ids t)) /\ (forall ts, find_l x ts = None -> ~ In x (ids_l ts)).
Proof.
  apply rt_mut_ind.
  - intros i d cs IH. rewrite find_t_unfold, ids_unfold. destruct (N.eqb_spec i x); [discriminate|].
    intros H [Hx|Hx]; [congruence | exact (IH H Hx)].
  - simpl. tauto.
  - intros t ts IHt IHts. rewrite find_l_cons, ids_l_cons. destruct (find_t x t) eqn:E; [discriminate|].
    intros H Hx. apply in_app_or in Hx as [Hx|Hx]; [exact (IHt eq_refl Hx) | exact (IHts H Hx)].
Qed.

Lemma find_some x :
  (forall t s, find_t x t = Some s -> rid s = x /\ In x (ids t) /\ (forall y, In y (ids s) -> In y (ids t))) /\
  (forall ts s, find_l x ts = Some s -> rid s = x /\ In x (ids_l ts) /\ (forall y, In y (ids s) -> In y (ids_l ts))).
Proof.
  apply rt_mut_ind.
  - intros i d cs IH s. rewrite find_t_unfold, ids_unfold. destruct (N.eqb_spec i x) as [->|Hne].
    + intros [= <-]. simpl. auto.
    + intros H. destruct (IH s H) as (H1 & H2 & H3). simpl. auto.
  - simpl. discriminate.
  - intros t ts IHt IHts s. rewrite find_l_cons, ids_l_cons. destruct (find_t x t) eqn:E.
    + intros [= <-]. destruct (IHt r eq_refl) as (H1 & H2 & H3). repeat split; [exact H1 | apply in_or_app; auto |].
      intros; apply in_or_app; auto.
    + intros H. destruct (IHts s H) as (H1 & H2 & H3). repeat split; [exact H1 | apply in_or_app; auto |].
      intros; apply in_or_app; auto.
Qed.

Lemma find_in x :
  (forall t, In x (ids t) -> exists s, find_t x t = Some s) /\ (forall ts, In x (ids_l ts) -> exists s, find_l x ts = Some s).
Proof.
  split.
  - intros t H. destruct (find_t x t) eqn:E; [eauto|]. exfalso. exact (proj1 (find_none x) t E H).
  - intros ts H. destruct (find_l x ts) eqn:E; [eauto|]. exfalso. exact (proj2 (find_none x) ts E H).
Qed.

Lemma replace_notin p new :
  (forall t, ~ In p (ids t) -> replace_t p new t = t /\ sub_ids p t = []) /\
  (forall ts, ~ In p (ids_l ts) -> replace_l p new ts = ts /\ sub_ids_l p ts = []).
Proof.
  apply rt_mut_ind.
  - intros i d cs IH. rewrite ids_unfold. intros H. simpl. destruct (N.eqb_spec i p) as [->|Hne]; [exfalso; apply H; simpl; auto|].
    destruct IH as [H1 H2]; [intro; apply H; simpl; auto|]. fold (replace_l p new cs). fold (sub_ids_l p cs).
    rewrite H1, H2. auto.
  - auto.
  - intros t ts IHt IHts. rewrite ids_l_cons. intros H.
    destruct IHt as [H1 H2]; [intro; apply H, in_or_app; auto|].
    destruct IHts as [H3 H4]; [intro; apply H, in_or_app; auto|].
    unfold replace_l in *. rewrite map_cons, sub_ids_l_cons, H1, H2, H3. fold (sub_ids_l p ts). rewrite H4. auto.
Qed.

(* in pre-order the identities of a sub-tree are contiguous: replacing it replaces that segment *)
Lemma ids_replace_split p new :
  (forall t s, find_t p t = Some s -> NoDup (ids t) ->
     exists A B, ids t = A ++ ids s ++ B /\ ids (replace_t p new t) = A ++ ids new ++ B /\ sub_ids p t = ids s) /\
  (forall ts s, find_l p ts = Some s -> NoDup (ids_l ts) ->
     exists A B, ids_l ts = A ++ ids s ++ B /\ ids_l (replace_l p new ts) = A ++ ids new ++ B /\ sub_ids_l p ts = ids s).
Proof.
  apply rt_mut_ind.
  - intros i d cs IH s. rewrite find_t_unfold. simpl replace_t. simpl sub_ids. destruct (N.eqb_spec i p) as [->|Hne].
    + intros [= <-] _. exists [], []. rewrite !app_nil_r. auto.
    + intros H Hnd. rewrite ids_unfold in Hnd. apply NoDup_cons_iff in Hnd as [_ Hnd].
      destruct (IH s H Hnd) as (A & B & H1 & H2 & H3). exists (i :: A), B.
      rewrite !ids_unfold. fold (replace_l p new cs). fold (sub_ids_l p cs). rewrite H1, H2, H3. auto.
  - simpl. discriminate.
  - intros t ts IHt IHts s. rewrite find_l_cons, ids_l_cons. intros H Hnd.
    apply NoDup_app_iff in Hnd as (N1 & N2 & N3). unfold replace_l. rewrite map_cons. fold (replace_l p new ts).
    rewrite ids_l_cons, sub_ids_l_cons.
    destruct (find_t p t) eqn:E.
    + injection H as <-. destruct (IHt r eq_refl N1) as (A & B & H1 & H2 & H3).
      assert (Hn : ~ In p (ids_l ts)) by (apply N3; exact (proj1 (proj2 (proj1 (find_some p) t r E)))).
      destruct (proj2 (replace_notin p new) ts Hn) as [R1 R2].
      exists A, (B ++ ids_l ts). rewrite H1, H2, H3, R1, R2, app_nil_r, <- !app_assoc. auto.
    + destruct (IHts s H N2) as (A & B & H1 & H2 & H3).
      assert (Hn : ~ In p (ids t)) by (exact (proj1 (find_none p) t E)).
      destruct (proj1 (replace_notin p new) t Hn) as [R1 R2].
      exists (ids t ++ A), B. rewrite H1, H2, H3, R1, R2, <- !app_assoc. auto.
Qed.

(* the sub-tree found is represented, in some context *)
Lemma find_rep h x :
  (forall t par prev nxt s, rep_t h par prev nxt t -> find_t x t = Some s ->
     exists par' prev' nxt', rep_t h par' prev' nxt' s) /\
  (forall ts par prev nxt s, rep_l h par prev nxt ts -> find_l x ts = Some s ->
     exists par' prev' nxt', rep_t h par' prev' nxt' s).
Proof.
  apply rt_mut_ind.
  - intros i d cs IH par prev nxt s Hr. rewrite find_t_unfold. destruct (i =? x).
    + intros [= <-]. eauto.
    + apply rep_t_unfold in Hr as [_ Hr]. eauto.
  - simpl. discriminate.
  - intros t ts IHt IHts par prev nxt s. rewrite rep_l_cons, find_l_cons. intros [Ha Hb].
    destruct (find_t x t) eqn:E; [intros [= <-]; eauto | eauto].
Qed.

(* ------------------------------------------------------------------ *)
(* local re-linking of a sibling list                                   *)

Ltac upd_simpl :=
  repeat first [ rewrite upd_same | rewrite upd_other by (first [assumption | congruence | (intro; subst; tauto)]) ].

Lemma last_or_app d l x : last_or d (l ++ [x]) = Some (rid x).
Proof. revert d. induction l as [|a l IH]; intros d; simpl; [reflexivity | apply IH]. Qed.

Lemma head_or_app d l x : head_or d (l ++ [x]) = head_or (Some (rid x)) l.
Proof. destruct l; reflexivity. Qed.

(* the last member's next pointer is redirected *)
Lemma relink_last h h' par prev nx nx' l x :
  rep_l h par prev nx (l ++ [x]) -> NoDup (ids_l (l ++ [x])) ->
  (forall r, h (rid x) = Some r -> h' (rid x) = Some (set_next r nx')) ->
  (forall j, In j (ids_l (l ++ [x])) -> j <> rid x -> h' j = h j) ->
  rep_l h' par prev nx' (l ++ [x]).
Proof.
  intros Hr Hnd Hx Hf. rewrite rep_l_app in *. destruct Hr as [H1 H2]. rewrite ids_l_app, NoDup_app_iff in Hnd.
  destruct Hnd as (N1 & N2 & N3). split.
  - eapply rep_l_frame; [|exact H1]. intros i Hi. apply Hf; [rewrite ids_l_app; apply in_or_app; auto|].
    intros ->. apply (N3 _ Hi). simpl. rewrite app_nil_r. apply rid_in_ids.
  - simpl in *. destruct H2 as [H2 _]. split; [|exact I]. destruct x as [i d cs]. rewrite rep_t_unfold in *.
    destruct H2 as [Ha Hb]. split; [exact (Hx _ Ha)|].
    eapply rep_l_frame; [|exact Hb]. intros j Hj. simpl in *. rewrite app_nil_r in *. apply Hf.
    + rewrite ids_l_app. apply in_or_app. right. simpl. rewrite app_nil_r. auto.
    + intros ->. apply NoDup_cons_iff in N2 as [N2 _]. exact (N2 Hj).
Qed.

(* the first member's prev pointer is redirected *)
Lemma relink_head h h' par prev prev' nx x l :
  rep_l h par prev nx (x :: l) -> NoDup (ids_l (x :: l)) ->
  (forall r, h (rid x) = Some r -> h' (rid x) = Some (set_prev r prev')) ->
  (forall j, In j (ids_l (x :: l)) -> j <> rid x -> h' j = h j) ->
  rep_l h' par prev' nx (x :: l).
Proof.
  intros Hr Hnd Hx Hf. rewrite rep_l_cons in *. destruct Hr as [H1 H2]. rewrite ids_l_cons, NoDup_app_iff in Hnd.
  destruct Hnd as (N1 & N2 & N3). split.
  - destruct x as [i d cs]. rewrite rep_t_unfold in *. destruct H1 as [Ha Hb]. split; [exact (Hx _ Ha)|].
    eapply rep_l_frame; [|exact Hb]. intros j Hj. simpl in *. apply Hf; [right; apply in_or_app; auto|].
    intros ->. apply NoDup_cons_iff in N1 as [N1 _]. exact (N1 Hj).
  - eapply rep_l_frame; [|exact H2]. intros j Hj. apply Hf; [rewrite ids_l_cons; apply in_or_app; auto|].
    intros ->. exact (N3 _ (rid_in_ids x) Hj).
Qed.

Lemma last_sibling_rep h par : forall l prev x fuel c,
  rep_l h par prev None (l ++ [x]) -> (length l < fuel)%nat -> head_id (l ++ [x]) = Some c ->
  last_sibling fuel h c = TOk (rid x).
Proof.
  induction l as [|a l IH]; intros prev x fuel c Hr Hlen Hc.
  - simpl in *. injection Hc as <-. destruct fuel; [lia|]. destruct Hr as [Hr _]. destruct x as [i d cs].
    apply rep_t_unfold in Hr as [Hr _]. simpl. unfold get. rewrite Hr. reflexivity.
  - rewrite <- app_comm_cons in *. simpl in Hc. injection Hc as <-. destruct fuel; [simpl in Hlen; lia|].
    apply rep_l_cons in Hr as [Ha Hb]. destruct a as [i d cs]. apply rep_t_unfold in Ha as [Ha _].
    cbn [last_sibling rid]. unfold get at 1.
    destruct l as [|b l]; cbn [app] in Ha; rewrite Ha; cbn [bind n_next].
    + apply (IH (Some i) x fuel (rid x)); [exact Hb | simpl in *; lia | reflexivity].
    + apply (IH (Some i) x fuel (rid b)); [exact Hb | simpl in *; lia | reflexivity].
Qed.

(* ------------------------------------------------------------------ *)
(* wbxml_tree_add_node below a parent: the local step                   *)

Lemma leaf_text_unfold i d cs :
  leaf_text (R i d cs) = (negb (is_text d) || match cs with [] => true | _ => false end) && forallb leaf_text cs.
Proof. reflexivity. Qed.

Lemma forallb_app' {A} (f : A -> bool) l1 l2 : forallb f (l1 ++ l2) = forallb f l1 && forallb f l2.
Proof. induction l1; simpl; [reflexivity | rewrite IHl1, andb_assoc; reflexivity]. Qed.

Lemma snoc_merge_app l x tn :
  snoc_merge (l ++ [x]) tn =
  l ++ match x, tn with
       | R m (DText c1) mk, R i (DText c2) ncs => [R i (DText (c1 ++ c2)) ncs]
       | _, _ => [x; tn]
       end.
Proof.
  induction l as [|a l IH].
  - simpl. destruct x as [m dm mk]. destruct dm; try reflexivity; destruct tn as [i di ncs]; destruct di; reflexivity.
  - rewrite <- app_comm_cons.
    assert (E : exists b r, l ++ [x] = b :: r) by (destruct l; simpl; eauto). destruct E as (b & r & E).
    change (snoc_merge (a :: l ++ [x]) tn) with
      (match a :: l ++ [x] with
       | [] => [tn]
       | [R m (DText c1) mk] => match tn with R i (DText c2) ncs => [R i (DText (c1 ++ c2)) ncs] | _ => [R m (DText c1) mk; tn] end
       | c :: rest => c :: snoc_merge rest tn
       end).
    rewrite E. rewrite <- E, IH.
    destruct a as [m dm mk]. destruct dm; reflexivity.
Qed.

Lemma get_some h i r : h i = Some r -> get h i = TOk r.
Proof. intros H. unfold get. rewrite H. reflexivity. Qed.

Lemma in_ids_l_last l x j : In j (ids x) -> In j (ids_l (l ++ [x])).
Proof. intros H. rewrite ids_l_app. apply in_or_app. right. simpl. rewrite app_nil_r. exact H. Qed.

Lemma in_ids_l_front l x j : In j (ids_l l) -> In j (ids_l (l ++ [x])).
Proof. intros H. rewrite ids_l_app. apply in_or_app. auto. Qed.

Ltac rec_simpl :=
  unfold set_parent, set_children, set_next, set_prev, set_data;
  cbn [bind n_data n_parent n_children n_next n_prev].

Lemma ids_l_single x : ids_l [x] = ids x.
Proof. simpl. apply app_nil_r. Qed.

Lemma ids_l_nil : ids_l [] = [].
Proof. reflexivity. Qed.

(* membership goals over identity lists *)
Ltac in_norm :=
  repeat (rewrite ?ids_unfold, ?ids_l_app, ?ids_l_single, ?ids_l_cons, ?ids_l_nil, ?app_nil_r in * );
  repeat (cbn [In] in *;
          first [ match goal with H : context [In _ (_ ++ _)] |- _ => setoid_rewrite in_app_iff in H end
                | progress (setoid_rewrite in_app_iff) ]);
  cbn [In] in *.
Ltac in_solve := in_norm; tauto.

Lemma rev_cases {A} (l : list A) : l = [] \/ exists l' x, l = l' ++ [x].
Proof. destruct l as [|a l] using rev_ind; [auto | right; eauto]. Qed.

Section AddLocal.
  Variables (fuel : nat) (t : tstate) (p n : id) (d dn : data) (par prev nxt : option id) (cs ncs : list rt).
  Let h := heap_of t.
  Let tn := R n dn ncs.
  Hypothesis Hp : rep_t h par prev nxt (R p d cs).
  Hypothesis Hn : rep_t h None None None tn.
  Hypothesis Hnd : NoDup (ids (R p d cs) ++ ids tn).
  Hypothesis Hd : is_text d = false.
  Hypothesis Hleaf : forallb leaf_text cs = true.
  Hypothesis Hleafn : leaf_text tn = true.
  Hypothesis Hfuel : (length cs < fuel)%nat.

  Let h1 := upd h n (Some (mkN dn (Some p) (head_id ncs) None None)).

  Lemma al_facts :
    h p = Some (mkN d par (head_id cs) nxt prev) /\ rep_l h (Some p) None None cs /\
    h n = Some (mkN dn None (head_id ncs) None None) /\ rep_l h (Some n) None None ncs /\
    p <> n /\ ~ In n (ids_l cs) /\ ~ In p (ids_l cs) /\ ~ In n (ids_l ncs) /\ ~ In p (ids_l ncs) /\
    NoDup (ids_l cs) /\ NoDup (ids_l ncs) /\ (forall x, In x (ids_l cs) -> ~ In x (ids_l ncs)).
  Proof.
    apply rep_t_unfold in Hp as [P1 P2]. unfold tn in Hn. apply rep_t_unfold in Hn as [N1 N2].
    unfold tn in Hnd. rewrite !ids_unfold in Hnd. apply NoDup_app_iff in Hnd as (A & B & C).
    apply NoDup_cons_iff in A as [A1 A2]. apply NoDup_cons_iff in B as [B1 B2].
    repeat split; try assumption.
    - intros ->. apply (C n); simpl; auto.
    - intros Hin. apply (C n); simpl; auto.
    - intros Hin. apply (C p); simpl; auto.
    - intros x Hx Hx'. apply (C x); simpl; auto.
  Qed.

  (* the result of the function and what it establishes, stated once for the three shapes of cs *)
  Definition al_post (h' : heap) : Prop :=
    rep_t h' par prev nxt (R p d (snoc_merge cs tn)) /\
    (forall j, ~ In j (ids (R p d cs)) -> j <> n -> h' j = h j) /\
    (forall j, h' j <> None -> h j <> None) /\
    (forall j, In j (ids (R p d cs) ++ ids tn) -> h' j <> None -> In j (ids (R p d (snoc_merge cs tn)))) /\
    (forall j, In j (ids (R p d (snoc_merge cs tn))) -> In j (ids (R p d cs) ++ ids tn)) /\
    NoDup (ids (R p d (snoc_merge cs tn))).

  Lemma add_local_empty : cs = [] -> exists h', add_node fuel t (Some p) n = TOk (with_heap t h') /\ al_post h'.
  Proof.
    intros E. destruct al_facts as (P1 & P2 & N1 & N2 & Dpn & D1 & D2 & D3 & D4 & U1 & U2 & U3).
    exists (upd h1 p (Some (mkN d par (Some n) nxt prev))). split.
    - unfold add_node. fold h. rewrite (get_some _ _ _ N1). rec_simpl.
      fold h1. rewrite (get_some h1 p (mkN d par (head_id cs) nxt prev)) by (unfold h1; upd_simpl; exact P1).
      rec_simpl. rewrite E. reflexivity.
    - unfold al_post. rewrite E in *. cbn [snoc_merge]. split; [|split; [|split; [|split; [|split]]]].
      + apply rep_t_unfold. split; [upd_simpl; reflexivity|]. cbn [rep_l]. split; [|exact I].
        apply rep_t_unfold. split; [unfold h1; upd_simpl; reflexivity|].
        eapply rep_l_frame; [|exact N2]. intros i Hi. unfold h1. upd_simpl; reflexivity.
      + intros j Hj Hjn. unfold h1. simpl in Hj. upd_simpl; reflexivity.
      + intros j. unfold h1, upd. destruct (j =? p) eqn:E1; [apply N.eqb_eq in E1; subst; rewrite P1; discriminate|].
        destruct (j =? n) eqn:E2; [apply N.eqb_eq in E2; subst; rewrite N1; discriminate | auto].
      + intros j Hj _. simpl in *. rewrite app_nil_r. tauto.
      + intros j Hj. simpl in *. rewrite app_nil_r in Hj. tauto.
      + simpl. rewrite app_nil_r. constructor; [simpl; intros [H|H]; [congruence | exact (D4 H)]|].
        constructor; assumption.
  Qed.

  (* facts about a non-empty sibling list l ++ [x] *)
  Lemma al_last l m dm mcs : cs = l ++ [R m dm mcs] ->
    h m = Some (mkN dm (Some p) (head_id mcs) None (last_or None l)) /\ rep_l h (Some m) None None mcs /\
    rep_l h (Some p) None (Some m) l /\ m <> n /\ m <> p /\ ~ In m (ids_l l) /\ In m (ids_l cs) /\
    (forall j, In j (ids_l mcs) -> In j (ids_l cs)) /\ (forall j, In j (ids_l l) -> In j (ids_l cs)) /\
    ~ In m (ids_l mcs) /\ (forall j, In j (ids_l l) -> ~ In j (ids_l mcs)).
  Proof.
    intros E. destruct al_facts as (P1 & P2 & N1 & N2 & Dpn & D1 & D2 & D3 & D4 & U1 & U2 & U3).
    rewrite E in P2. apply rep_l_app in P2 as [Q1 Q2]. cbn [head_or rid] in Q1. cbn [rep_l] in Q2. destruct Q2 as [Q2 _].
    apply rep_t_unfold in Q2 as [Q2 Q3].
    assert (Im : In m (ids_l cs)) by (rewrite E; apply in_ids_l_last; simpl; auto).
    rewrite E, ids_l_app, NoDup_app_iff in U1. destruct U1 as (V1 & V2 & V3). simpl in V2. rewrite app_nil_r in V2.
    apply NoDup_cons_iff in V2 as [V2 V2'].
    split; [exact Q2|]. split; [exact Q3|]. split; [exact Q1|].
    split; [intros ->; exact (D1 Im)|]. split; [intros ->; exact (D2 Im)|].
    split; [intros Hin; apply (V3 m Hin); simpl; auto|]. split; [exact Im|].
    split; [intros j Hj; rewrite E; apply in_ids_l_last; simpl; auto|].
    split; [intros j Hj; rewrite E; apply in_ids_l_front; exact Hj|].
    split; [exact V2|]. intros j Hj Hj'. apply (V3 j Hj). simpl. rewrite app_nil_r. auto.
  Qed.

  Lemma add_local_append l m dm mcs : cs = l ++ [R m dm mcs] -> is_text dn && is_text dm = false ->
    exists h', add_node fuel t (Some p) n = TOk (with_heap t h') /\ al_post h'.
  Proof.
    intros E Hk. destruct al_facts as (P1 & P2 & N1 & N2 & Dpn & D1 & D2 & D3 & D4 & U1 & U2 & U3).
    destruct (al_last l m dm mcs E) as (M1 & M2 & M3 & Dmn & Dmp & M4 & M5 & M6 & M7 & M8 & M9).
    set (h2 := upd h1 n (Some (mkN dn (Some p) (head_id ncs) None (Some m)))).
    exists (upd h2 m (Some (mkN dm (Some p) (head_id mcs) (Some n) (last_or None l)))).
    assert (S1 : snoc_merge cs tn = cs ++ [tn]).
    { rewrite E, snoc_merge_app, <- app_assoc. unfold tn. destruct dm; try reflexivity. destruct dn; try reflexivity. discriminate. }
    assert (F1 : forall j, In j (ids_l cs) -> h1 j = h j) by (intros j Hj; unfold h1; upd_simpl; reflexivity).
    split.
    - unfold add_node. fold h. rewrite (get_some _ _ _ N1). rec_simpl. fold h1.
      rewrite (get_some h1 p (mkN d par (head_id cs) nxt prev)) by (unfold h1; upd_simpl; exact P1).
      rec_simpl. destruct (head_id cs) as [c|] eqn:Ec; [|rewrite E in Ec; destruct l; discriminate].
      rewrite (last_sibling_rep h1 (Some p) l None (R m dm mcs) fuel c);
        [| eapply rep_l_frame; [|rewrite <- E; exact P2]; rewrite <- E; exact F1
         | rewrite E, app_length in Hfuel; simpl in Hfuel; lia | rewrite <- E; exact Ec].
      cbn [rid bind].
      rewrite (get_some h1 m (mkN dm (Some p) (head_id mcs) None (last_or None l))) by (rewrite F1 by exact M5; exact M1).
      rewrite (get_some h1 n (mkN dn (Some p) (head_id ncs) None None)) by (unfold h1; upd_simpl; reflexivity).
      rec_simpl.
      assert (G : get h2 m = TOk (mkN dm (Some p) (head_id mcs) None (last_or None l))).
      { apply get_some. unfold h2. upd_simpl. rewrite F1 by exact M5. exact M1. }
      destruct dn; try (fold h2; rewrite G; rec_simpl; reflexivity).
      destruct dm; try (fold h2; rewrite G; rec_simpl; reflexivity). discriminate.
    - unfold al_post. rewrite S1. split; [|split; [|split; [|split; [|split]]]].
      + apply rep_t_unfold. split.
        * unfold h2, h1. upd_simpl. rewrite P1. f_equal. f_equal. rewrite E. destruct l; reflexivity.
        * apply rep_l_app. cbn [head_or rid]. split.
          -- rewrite E. eapply (relink_last h _ (Some p) None None (Some n) l (R m dm mcs)).
             ++ rewrite <- E. exact P2.
             ++ rewrite <- E. exact U1.
             ++ cbn [rid]. intros r Hr. rewrite M1 in Hr. injection Hr as <-. upd_simpl. reflexivity.
             ++ cbn [rid]. rewrite <- E. intros j Hj Hne. unfold h2, h1. upd_simpl. reflexivity.
          -- rewrite E, last_or_app. cbn [rid rep_l]. split; [|exact I]. apply rep_t_unfold. split.
             ++ unfold h2. upd_simpl. reflexivity.
             ++ eapply rep_l_frame; [|exact N2]. intros j Hj. unfold h2, h1.
                assert (j <> m) by (intros ->; exact (U3 m M5 Hj)). upd_simpl. reflexivity.
      + intros j Hj Hjn. simpl in Hj. unfold h2, h1. upd_simpl. reflexivity.
      + intros j. unfold h2, h1, upd. destruct (j =? m) eqn:E1; [apply N.eqb_eq in E1; subst; rewrite M1; discriminate|].
        destruct (j =? n) eqn:E2; [apply N.eqb_eq in E2; subst; rewrite N1; discriminate | auto].
      + intros j Hj _. unfold tn in *. clear - Hj. in_solve.
      + intros j Hj. unfold tn in *. clear - Hj. in_solve.
      + pose proof Hnd as Hnd'. unfold tn in *. rewrite !ids_unfold, ids_l_app, ids_l_single, ids_unfold in *. exact Hnd'.
  Qed.

  Lemma leaf_text_is_leaf i c ks : leaf_text (R i (DText c) ks) = true -> ks = [].
  Proof. rewrite leaf_text_unfold. simpl. destruct ks; [reflexivity | discriminate]. Qed.

  Lemma add_local_merge l m c1 mcs c2 : cs = l ++ [R m (DText c1) mcs] -> dn = DText c2 ->
    exists h', add_node fuel t (Some p) n = TOk (with_heap t h') /\ al_post h'.
  Proof.
    intros E En. destruct al_facts as (P1 & P2 & N1 & N2 & Dpn & D1 & D2 & D3 & D4 & U1 & U2 & U3).
    destruct (al_last l m (DText c1) mcs E) as (M1 & M2 & M3 & Dmn & Dmp & M4 & M5 & M6 & M7 & M8 & M9).
    assert (Emcs : mcs = []).
    { rewrite E, forallb_app' in Hleaf. apply andb_prop in Hleaf as [_ Hl]. cbn [forallb] in Hl. rewrite andb_true_r in Hl.
      exact (leaf_text_is_leaf m c1 mcs Hl). }
    assert (Encs : ncs = []) by (unfold tn in Hleafn; rewrite En in Hleafn; exact (leaf_text_is_leaf n c2 ncs Hleafn)).
    assert (S1 : snoc_merge cs tn = l ++ [R n (DText (c1 ++ c2)) ncs]).
    { rewrite E, snoc_merge_app. unfold tn. rewrite En. reflexivity. }
    assert (F1 : forall j, In j (ids_l cs) -> h1 j = h j) by (intros j Hj; unfold h1; upd_simpl; reflexivity).
    assert (Hn1 : h1 n = Some (mkN dn (Some p) (head_id ncs) None None)) by (unfold h1; upd_simpl; reflexivity).
    assert (Hp1 : h1 p = Some (mkN d par (head_id cs) nxt prev)) by (unfold h1; upd_simpl; exact P1).
    assert (Hm1 : h1 m = Some (mkN (DText c1) (Some p) (head_id mcs) None (last_or None l))) by (rewrite F1 by exact M5; exact M1).
    assert (ND : NoDup (p :: ids_l l ++ [n])).
    { pose proof Hnd as Hnd'. unfold tn in Hnd'. rewrite Encs, E in Hnd'.
      rewrite !ids_unfold, ids_l_app, ids_l_single, ids_unfold, Emcs, ids_l_nil in Hnd'. cbn [app] in Hnd'.
      rewrite <- app_assoc in Hnd'. cbn [app] in Hnd'. rewrite app_comm_cons in Hnd'.
      apply NoDup_remove_1 in Hnd'. exact Hnd'. }
    (* the function: common prefix *)
    assert (Pre : forall K, add_node fuel t (Some p) n =
       (do tn0 <- get h1 m; do nn1 <- get h1 n; K tn0 nn1) ->
       add_node fuel t (Some p) n = K (mkN (DText c1) (Some p) (head_id mcs) None (last_or None l)) (mkN dn (Some p) (head_id ncs) None None)).
    { intros K HK. rewrite HK, (get_some _ _ _ Hm1), (get_some _ _ _ Hn1). reflexivity. }
    assert (Run : add_node fuel t (Some p) n =
      (do h2 <- match last_or None l with
                | None => TOk (upd h1 p (Some (mkN d par (Some n) nxt prev)))
                | Some pr => do prn <- get h1 pr;
                             let h' := upd h1 pr (Some (set_next prn (Some n))) in
                             do nn' <- get h' n; TOk (upd h' n (Some (set_prev nn' (Some pr))))
                end;
       do nn2 <- get h2 n;
       TOk (with_heap t (upd (upd h2 n (Some (set_data nn2 (DText (c1 ++ c2))))) m None)))).
    { unfold add_node. fold h. rewrite (get_some _ _ _ N1). rec_simpl. fold h1.
      rewrite (get_some _ _ _ Hp1). rec_simpl.
      destruct (head_id cs) as [c|] eqn:Ec; [|rewrite E in Ec; destruct l; discriminate].
      rewrite (last_sibling_rep h1 (Some p) l None (R m (DText c1) mcs) fuel c);
        [| eapply rep_l_frame; [|rewrite <- E; exact P2]; rewrite <- E; exact F1
         | rewrite E, app_length in Hfuel; simpl in Hfuel; lia | rewrite <- E; exact Ec].
      cbn [rid bind]. rewrite (get_some _ _ _ Hm1), (get_some _ _ _ Hn1). rec_simpl. rewrite En. rec_simpl.
      reflexivity. }
    clear Pre.
    destruct l as [|y l0] using rev_ind.
    - (* the text node is the first child *)
      cbn [last_or] in Run. cbn [bind] in Run.
      set (h2 := upd h1 p (Some (mkN d par (Some n) nxt prev))) in *.
      assert (Hn2 : h2 n = Some (mkN dn (Some p) (head_id ncs) None None)) by (unfold h2; upd_simpl; exact Hn1).
      rewrite (get_some _ _ _ Hn2) in Run. rec_simpl. cbn [bind] in Run. unfold set_data in Run. cbn [n_parent n_children n_next n_prev] in Run.
      eexists. split; [exact Run|].
      unfold al_post. rewrite S1. cbn [app]. split; [|split; [|split; [|split; [|split]]]].
      + apply rep_t_unfold. split; [unfold h2; upd_simpl; reflexivity|]. cbn [rep_l]. split; [|exact I].
        apply rep_t_unfold. split; [upd_simpl; rewrite Encs; reflexivity | rewrite Encs; exact I].
      + intros j Hj Hjn. rewrite E in Hj. assert (j <> m /\ j <> p) as [? ?] by (clear - Hj; in_norm; intuition congruence).
        unfold h2, h1. upd_simpl. reflexivity.
      + intros j. unfold h2, h1, upd. destruct (j =? m) eqn:E1; [intros Hc; exfalso; apply Hc; reflexivity|].
        destruct (j =? n) eqn:E2; [apply N.eqb_eq in E2; subst; rewrite N1; discriminate|].
        destruct (j =? p) eqn:E3; [apply N.eqb_eq in E3; subst; rewrite P1; discriminate | auto].
      + intros j Hj Hne. assert (j <> m) by (intros ->; apply Hne; upd_simpl; reflexivity).
        unfold tn in Hj. rewrite E, Encs, Emcs in Hj. rewrite Encs. clear - Hj H. in_norm. intuition congruence.
      + intros j Hj. unfold tn. rewrite E, Encs, Emcs. rewrite Encs in Hj. clear - Hj. in_norm. tauto.
      + rewrite Encs. rewrite !ids_unfold, ids_l_single, ids_unfold, ids_l_nil. exact ND.
    - (* the text node has a previous sibling y *)
      clear IHl0. destruct y as [q dq qcs]. rewrite last_or_app in Run. cbn [rid] in Run.
      apply rep_l_app in M3 as [Y1 Y2]. cbn [head_or rid rep_l] in Y1, Y2. destruct Y2 as [Y2 _].
      apply rep_t_unfold in Y2 as [Y2 Y3].
      assert (Iq : In q (ids_l (l0 ++ [R q dq qcs]))) by (apply in_ids_l_last; simpl; auto).
      assert (Dqm : q <> m) by (intros ->; exact (M4 Iq)).
      assert (Dqn : q <> n) by (intros ->; exact (D1 (M7 _ Iq))).
      assert (Dqp : q <> p) by (intros ->; exact (D2 (M7 _ Iq))).
      assert (Hq1 : h1 q = Some (mkN dq (Some p) (head_id qcs) (Some m) (last_or None l0))) by (rewrite F1 by (apply M7; exact Iq); exact Y2).
      rewrite (get_some _ _ _ Hq1) in Run. rec_simpl. cbn [bind] in Run. unfold set_next in Run. cbn [n_data n_parent n_children n_next n_prev] in Run.
      set (ha := upd h1 q (Some (mkN dq (Some p) (head_id qcs) (Some n) (last_or None l0)))) in *.
      assert (Hna : ha n = Some (mkN dn (Some p) (head_id ncs) None None)) by (unfold ha; upd_simpl; exact Hn1).
      rewrite (get_some _ _ _ Hna) in Run. cbn [bind] in Run. unfold set_prev in Run. cbn [n_data n_parent n_children n_next n_prev] in Run.
      set (hb := upd ha n (Some (mkN dn (Some p) (head_id ncs) None (Some q)))) in *.
      assert (Hnb : hb n = Some (mkN dn (Some p) (head_id ncs) None (Some q))) by (unfold hb; upd_simpl; reflexivity).
      rewrite (get_some _ _ _ Hnb) in Run. cbn [bind] in Run. unfold set_data in Run. cbn [n_data n_parent n_children n_next n_prev] in Run.
      eexists. split; [exact Run|].
      unfold al_post. rewrite S1. split; [|split; [|split; [|split; [|split]]]].
      + apply rep_t_unfold. split.
        * unfold hb, ha, h1. upd_simpl. rewrite P1. f_equal. f_equal. rewrite E. destruct l0; reflexivity.
        * apply rep_l_app. cbn [head_or rid]. split.
          -- eapply (relink_last h _ (Some p) None (Some m) (Some n) l0 (R q dq qcs)).
             ++ apply rep_l_app. cbn [head_or rid rep_l]. split; [exact Y1|]. split; [|exact I]. apply rep_t_unfold. split; assumption.
             ++ rewrite E, ids_l_app, NoDup_app_iff in U1. tauto.
             ++ cbn [rid]. intros r Hr. rewrite Y2 in Hr. injection Hr as <-. unfold hb, ha. upd_simpl. reflexivity.
             ++ cbn [rid]. intros j Hj Hne. assert (j <> m) by (intros ->; exact (M4 Hj)).
                assert (j <> n) by (intros ->; exact (D1 (M7 _ Hj))).
                unfold hb, ha, h1. upd_simpl. reflexivity.
          -- rewrite last_or_app. cbn [rid rep_l]. split; [|exact I]. apply rep_t_unfold. split.
             ++ upd_simpl. rewrite Encs. reflexivity.
             ++ rewrite Encs. exact I.
      + intros j Hj Hjn. rewrite E in Hj.
        assert (j <> m /\ j <> p /\ j <> q) as (? & ? & ?) by (clear - Hj; in_norm; intuition congruence).
        unfold hb, ha, h1. upd_simpl. reflexivity.
      + intros j. unfold hb, ha, h1, upd. destruct (j =? m) eqn:E1; [intros Hc; exfalso; apply Hc; reflexivity|].
        destruct (j =? n) eqn:E2; [apply N.eqb_eq in E2; subst; rewrite N1; discriminate|].
        destruct (j =? q) eqn:E3; [apply N.eqb_eq in E3; subst; rewrite Y2; discriminate | auto].
      + intros j Hj Hne. assert (j <> m) by (intros ->; apply Hne; upd_simpl; reflexivity).
        unfold tn in Hj. rewrite E, Encs, Emcs in Hj. rewrite Encs. clear - Hj H. in_norm. intuition congruence.
      + intros j Hj. unfold tn. rewrite E, Encs, Emcs. rewrite Encs in Hj. clear - Hj. in_norm. tauto.
      + rewrite Encs. rewrite !ids_unfold, ids_l_app, ids_l_single, ids_unfold, ids_l_nil. exact ND.
  Qed.

  (* the three shapes together *)
  Lemma add_local : exists h', add_node fuel t (Some p) n = TOk (with_heap t h') /\ al_post h'.
  Proof.
    destruct (rev_cases cs) as [E|(l & x & E)]; [apply add_local_empty; exact E|].
    destruct x as [m dm mcs].
    destruct (is_text dn && is_text dm) eqn:K.
    - apply andb_prop in K as [K1 K2].
      assert (exists c2, dn = DText c2) as [c2 En] by (destruct dn; try discriminate; eauto).
      destruct dm as [| c1 | | |]; try discriminate.
      exact (add_local_merge l m c1 mcs c2 E En).
    - exact (add_local_append l m dm mcs E K).
  Qed.
End AddLocal.

(* ------------------------------------------------------------------ *)
(* forest-level facts                                                   *)

Lemma find_rep_forest h x : forall F s, Forall (rep_t h None None None) F -> find_l x F = Some s ->
  exists par prev nxt, rep_t h par prev nxt s.
Proof.
  induction F as [|t F IH]; intros s HF; [discriminate|].
  apply Forall_cons_iff in HF as [Ht HF]. rewrite find_l_cons. destruct (find_t x t) eqn:E.
  - intros [= <-]. eapply (proj1 (find_rep h x)); eauto.
  - apply IH. exact HF.
Qed.

Lemma find_leaf x :
  (forall t s, find_t x t = Some s -> leaf_text t = true -> leaf_text s = true) /\
  (forall ts s, find_l x ts = Some s -> forallb leaf_text ts = true -> leaf_text s = true).
Proof.
  apply rt_mut_ind.
  - intros i d cs IH s. rewrite find_t_unfold. destruct (i =? x); [intros [= <-]; auto|].
    intros H. rewrite leaf_text_unfold. intros HL. apply andb_prop in HL as [_ HL]. eauto.
  - discriminate.
  - intros t ts IHt IHts s. rewrite find_l_cons. cbn [forallb]. intros H HL. apply andb_prop in HL as [H1 H2].
    destruct (find_t x t) eqn:E; [injection H as <-; eauto | eauto].
Qed.

Lemma leaf_replace p new : leaf_text new = true ->
  (forall t, leaf_text t = true -> leaf_text (replace_t p new t) = true) /\
  (forall ts, forallb leaf_text ts = true -> forallb leaf_text (replace_l p new ts) = true).
Proof.
  intros Hn. apply rt_mut_ind.
  - intros i d cs IH. simpl replace_t. destruct (i =? p); [auto|]. rewrite !leaf_text_unfold.
    intros HL. apply andb_prop in HL as [H1 H2]. fold (replace_l p new cs). rewrite (IH H2), andb_true_r.
    destruct cs; [exact H1|]. simpl. simpl in H1. exact H1.
  - auto.
  - intros t ts IHt IHts. unfold replace_l. cbn [map forallb]. intros HL. apply andb_prop in HL as [H1 H2].
    rewrite (IHt H1). exact (IHts H2).
Qed.

Lemma leaf_snoc_merge cs tn : forallb leaf_text cs = true -> leaf_text tn = true ->
  forallb leaf_text (snoc_merge cs tn) = true.
Proof.
  intros H1 H2. destruct (rev_cases cs) as [->|(l & x & ->)]; [simpl; rewrite H2; reflexivity|].
  rewrite snoc_merge_app. rewrite forallb_app' in *. apply andb_prop in H1 as [H1 H3]. rewrite H1. cbn [andb].
  cbn [forallb] in H3. rewrite andb_true_r in H3.
  destruct x as [m dm mk]. destruct tn as [i di ncs].
  destruct dm; try (cbn [forallb]; rewrite H3, H2; reflexivity).
  destruct di; try (cbn [forallb]; rewrite H3, H2; reflexivity).
  cbn [forallb]. rewrite andb_true_r. rewrite (leaf_text_is_leaf i content0 ncs H2). reflexivity.
Qed.

Lemma nodup_mid {A} (X Y Z : list A) :
  NoDup (X ++ Y ++ Z) -> NoDup (X ++ Z) /\ NoDup Y /\ (forall a, In a Y -> ~ In a (X ++ Z)).
Proof.
  rewrite !NoDup_app_iff. intros (H1 & (H2 & H3 & H4) & H5). repeat split; auto.
  - intros a Ha Hz. apply (H5 a Ha). apply in_or_app; auto.
  - intros a Ha Hin. apply in_app_or in Hin as [Hin|Hin]; [apply (H5 a Hin); apply in_or_app; auto | exact (H4 a Ha Hin)].
Qed.

Lemma nodup_segment {A} (X S S' Z T : list A) :
  NoDup (X ++ S ++ Z) -> NoDup S' -> (forall a, In a S' -> In a S \/ In a T) ->
  (forall a, In a T -> ~ In a (X ++ S ++ Z)) -> NoDup (X ++ S' ++ Z).
Proof.
  rewrite !NoDup_app_iff. intros (H1 & (H2 & H3 & H4) & H5) HS' Hin HT. repeat split; auto.
  - intros a Ha Hz. destruct (Hin a Ha) as [Hs|Ht]; [exact (H4 a Hs Hz)|].
    apply (HT a Ht). apply in_or_app. right. apply in_or_app. auto.
  - intros a Ha Hin'. apply in_app_or in Hin' as [Hs|Hz]; [|apply (H5 a Ha); apply in_or_app; auto].
    destruct (Hin a Hs) as [Hs'|Ht]; [apply (H5 a Ha); apply in_or_app; auto|].
    apply (HT a Ht). apply in_or_app. auto.
Qed.

Lemma Links_ext h h' F : (forall i, h' i = h i) -> Links h F -> Links h' F.
Proof.
  intros E (H1 & H2 & H3 & H4). split; [|split; [exact H2|split; [|exact H4]]].
  - eapply Forall_impl; [|exact H1]. intros t Ht. eapply rep_frame; [|exact Ht]. intros; apply E.
  - intros i. rewrite E. apply H3.
Qed.

Lemma ids_l_mid F1 tn F2 : ids_l (F1 ++ tn :: F2) = ids_l F1 ++ ids tn ++ ids_l F2.
Proof. rewrite ids_l_app, ids_l_cons. reflexivity. Qed.

(* wbxml_tree_add_node(tree, p, n) for a detached sub-tree tn and a node p elsewhere in the forest *)
Lemma add_node_forest fuel t F1 tn F2 p sub :
  Links (heap_of t) (F1 ++ tn :: F2) -> find_l p (F1 ++ F2) = Some sub -> is_text (rdata sub) = false ->
  (length (rkids sub) < fuel)%nat ->
  exists h', add_node fuel t (Some p) (rid tn) = TOk (with_heap t h') /\
     Links h' (replace_l p (R p (rdata sub) (snoc_merge (rkids sub) tn)) (F1 ++ F2)).
Proof.
  intros (HF & HN & HC & HL) Hfind Htext Hfuel.
  apply Forall_app in HF as [HF1 HF2]. apply Forall_cons_iff in HF2 as [Htn HF2].
  assert (HF12 : Forall (rep_t (heap_of t) None None None) (F1 ++ F2)) by (apply Forall_app; auto).
  rewrite ids_l_mid in HN. destruct (nodup_mid _ _ _ HN) as (N12 & Ntn & Ndis). rewrite <- ids_l_app in N12, Ndis.
  rewrite forallb_app' in HL. cbn [forallb] in HL. apply andb_prop in HL as [HL1 HL2]. apply andb_prop in HL2 as [HLn HL2].
  assert (HL12 : forallb leaf_text (F1 ++ F2) = true) by (rewrite forallb_app', HL1, HL2; reflexivity).
  destruct (proj2 (find_some p) _ _ Hfind) as (Hrid & Hpin & Hsubin).
  destruct sub as [p' d cs]. cbn [rid] in Hrid. subst p'. cbn [rdata rkids] in *.
  destruct (find_rep_forest _ _ _ _ HF12 Hfind) as (par & prev & nxt & Hsub).
  destruct tn as [n dn ncs]. cbn [rid].
  destruct (proj2 (ids_replace_split p (R p d (snoc_merge cs (R n dn ncs)))) _ _ Hfind N12) as (A & B & EA & EB & ES).
  assert (Nsub : NoDup (ids (R p d cs))) by (rewrite EA in N12; apply nodup_mid in N12; tauto).
  assert (Hleaf : leaf_text (R p d cs) = true) by (eapply (proj2 (find_leaf p)); eauto).
  rewrite leaf_text_unfold in Hleaf. apply andb_prop in Hleaf as [_ Hleaf].
  destruct (add_local fuel t p n d dn par prev nxt cs ncs Hsub Htn) as (h' & Hrun & Hpost & Hframe & Hdead & Hcov & Hincl & Hnd');
    [ apply NoDup_app_iff; repeat split; [exact Nsub | exact Ntn |]; intros x Hx Hx'; exact (Ndis x Hx' (Hsubin x Hx))
    | exact Hleaf | exact HLn | exact Hfuel |].
  exists h'. split; [exact Hrun|].
  assert (Hp : heap_of t p = Some (mkN d par (head_id cs) nxt prev)) by (apply rep_t_unfold in Hsub; tauto).
  split; [|split; [|split]].
  - apply rep_replace_forest with (h := heap_of t); [reflexivity | | exact HF12 | exact N12 |].
    + intros par' prev' nxt' d' c' E. rewrite Hp in E. injection E as <- <- <- <- <-. exact Hpost.
    + intros j Hj Hs. rewrite ES in Hs. apply Hframe; [exact Hs|]. intros ->. apply (Ndis n); [simpl; auto | exact Hj].
  - rewrite EB. eapply nodup_segment with (S := ids (R p d cs)) (T := ids (R n dn ncs)).
    + rewrite <- EA. exact N12.
    + exact Hnd'.
    + intros a Ha. apply in_app_or. apply Hincl. exact Ha.
    + intros a Ha. rewrite <- EA. apply Ndis. exact Ha.
  - intros i Hi. rewrite EB. specialize (HC i (Hdead i Hi)). rewrite ids_l_mid in HC.
    assert (HC' : In i (ids (R n dn ncs)) \/ In i (ids_l (F1 ++ F2))) by (rewrite ids_l_app; clear - HC; in_norm; tauto).
    rewrite EA in HC'.
    assert (In i (ids (R p d cs) ++ ids (R n dn ncs)) \/ In i A \/ In i B) as [Hin|Hin]
      by (clear - HC'; repeat rewrite in_app_iff in *; tauto).
    + specialize (Hcov i Hin Hi). apply in_or_app. right. apply in_or_app. auto.
    + apply in_or_app. destruct Hin; [auto | right; apply in_or_app; auto].
  - refine (proj2 (leaf_replace p _ _) _ HL12). rewrite leaf_text_unfold, Htext. cbn [negb orb andb].
    apply leaf_snoc_merge; assumption.
Qed.

(* ------------------------------------------------------------------ *)
(* allocation, data replacement                                         *)

Lemma alloc_forest h F n d :
  Links h F -> h n = None -> Links (upd h n (Some (mkN d None None None None))) (F ++ [R n d []]).
Proof.
  intros (HF & HN & HC & HL) Hn.
  assert (Hnot : ~ In n (ids_l F)).
  { intros Hin. unfold ids_l in Hin. apply in_flat_map in Hin as (t & Ht & Hin). rewrite Forall_forall in HF.
    exact (rep_alloc _ _ _ _ _ _ (HF t Ht) Hin Hn). }
  split; [|split; [|split]].
  - apply Forall_app. split.
    + rewrite Forall_forall in *. intros t Ht. eapply rep_frame; [|exact (HF t Ht)].
      intros i Hi. apply upd_other. intros ->. apply Hnot. eapply in_ids_l; eauto.
    + constructor; [|constructor]. apply rep_t_unfold. split; [apply upd_same | exact I].
  - rewrite ids_l_app, ids_l_single. apply NoDup_app_iff. repeat split; [exact HN | constructor; [tauto|constructor] |].
    intros x Hx [<-|[]]. exact (Hnot Hx).
  - intros i. unfold upd. rewrite ids_l_app, ids_l_single. destruct (N.eqb_spec i n) as [->|Hne]; intros Hi; apply in_or_app.
    + right. simpl. auto.
    + left. apply HC. exact Hi.
  - rewrite forallb_app', HL. cbn. rewrite orb_true_r. reflexivity.
Qed.

Lemma set_data_forest h F n sub d' r :
  Links h F -> find_l n F = Some sub -> (is_text d' = false \/ rkids sub = []) -> h n = Some r ->
  Links (upd h n (Some (set_data r d'))) (replace_l n (R n d' (rkids sub)) F).
Proof.
  intros (HF & HN & HC & HL) Hfind Hk Hr.
  destruct (proj2 (find_some n) _ _ Hfind) as (Hrid & Hpin & Hsubin).
  destruct sub as [n' d cs]. cbn [rid] in Hrid. subst n'. cbn [rdata rkids] in *.
  destruct (find_rep_forest _ _ _ _ HF Hfind) as (par & prev & nxt & Hsub).
  destruct (proj2 (ids_replace_split n (R n d' cs)) _ _ Hfind HN) as (A & B & EA & EB & ES).
  assert (Nsub : NoDup (ids (R n d cs))) by (rewrite EA in HN; apply nodup_mid in HN; tauto).
  apply rep_t_unfold in Hsub as [Hn Hcs]. rewrite Hn in Hr. injection Hr as <-.
  rewrite ids_unfold in Nsub. apply NoDup_cons_iff in Nsub as [Nn Ncs].
  split; [|split; [|split]].
  - apply rep_replace_forest with (h := h); [reflexivity | | exact HF | exact HN |].
    + intros par' prev' nxt' d0 c' E. rewrite Hn in E. injection E as <- <- <- <- <-.
      apply rep_t_unfold. split; [rewrite upd_same; reflexivity|].
      eapply rep_l_frame; [|exact Hcs]. intros i Hi. apply upd_other. intros ->. exact (Nn Hi).
    + intros j Hj Hs. rewrite ES in Hs. apply upd_other. intros ->. apply Hs. simpl. auto.
  - rewrite EB. rewrite ids_unfold. rewrite EA, ids_unfold in HN. exact HN.
  - intros i. unfold upd. rewrite EB, ids_unfold. destruct (N.eqb_spec i n) as [->|Hne]; intros Hi.
    + apply in_or_app. right. simpl. auto.
    + specialize (HC i Hi). rewrite EA, ids_unfold in HC. exact HC.
  - refine (proj2 (leaf_replace n _ _) _ HL). rewrite leaf_text_unfold.
    assert (HLs : leaf_text (R n d cs) = true) by (eapply (proj2 (find_leaf n)); eauto).
    rewrite leaf_text_unfold in HLs. apply andb_prop in HLs as [_ HLs]. rewrite HLs, andb_true_r.
    destruct Hk as [-> | ->]; [reflexivity | apply orb_true_r].
Qed.

(* ------------------------------------------------------------------ *)
(* wbxml_tree_extract_node: the local step                              *)

Lemma get_upd_same h i v : get (upd h i (Some v)) i = TOk v.
Proof. unfold get. rewrite upd_same. reflexivity. Qed.

Lemma get_upd_other h i v j : j <> i -> get (upd h i v) j = get h j.
Proof. intros H. unfold get. rewrite upd_other by exact H. reflexivity. Qed.

Lemma last_or_in d l j : d <> Some j -> last_or d l = Some j -> In j (ids_l l).
Proof.
  revert d. induction l as [|a l IH]; intros d Hd E; [simpl in E; congruence|].
  simpl in E. rewrite ids_l_cons. apply in_or_app. destruct (N.eq_dec (rid a) j) as [<-|Hne].
  - left. apply rid_in_ids.
  - right. apply (IH (Some (rid a))); [congruence | exact E].
Qed.

Lemma head_or_in d l j : d <> Some j -> head_or d l = Some j -> In j (ids_l l).
Proof.
  destruct l as [|a l]; simpl; intros Hd E; [congruence|]. injection E as <-. apply in_or_app. left. apply rid_in_ids.
Qed.

Section ExtractLocal.
  Variables (t : tstate) (q x : id) (dq dx : data) (parq prevq nxtq : option id) (ls rs xcs : list rt).
  Let h := heap_of t.
  Let tx := R x dx xcs.
  Hypothesis Hq : rep_t h parq prevq nxtq (R q dq (ls ++ tx :: rs)).
  Hypothesis Hnd : NoDup (ids (R q dq (ls ++ tx :: rs))).

  Definition ex_props (h' : heap) : Prop :=
    h' x = Some (mkN dx None (head_id xcs) None None) /\
    h' q = Some (mkN dq parq (head_id (ls ++ rs)) nxtq prevq) /\
    (forall l0 lp, ls = l0 ++ [lp] -> forall r, h (rid lp) = Some r -> h' (rid lp) = Some (set_next r (head_or None rs))) /\
    (forall r0 r1, rs = r0 :: r1 -> forall r, h (rid r0) = Some r -> h' (rid r0) = Some (set_prev r (last_or None ls))) /\
    (forall j, j <> x -> j <> q -> last_or None ls <> Some j -> head_or None rs <> Some j -> h' j = h j).

  Lemma ex_facts :
    h q = Some (mkN dq parq (head_id (ls ++ tx :: rs)) nxtq prevq) /\
    h x = Some (mkN dx (Some q) (head_id xcs) (head_or None rs) (last_or None ls)) /\
    rep_l h (Some q) None (Some x) ls /\ rep_l h (Some x) None None xcs /\ rep_l h (Some q) (Some x) None rs /\
    x <> q /\ ~ In x (ids_l ls) /\ ~ In x (ids_l rs) /\ ~ In q (ids_l ls) /\ ~ In q (ids_l rs) /\
    ~ In x (ids_l xcs) /\ ~ In q (ids_l xcs) /\
    NoDup (ids_l ls) /\ NoDup (ids_l rs) /\ NoDup (ids_l xcs) /\
    (forall j, In j (ids_l ls) -> ~ In j (ids_l rs)) /\
    (forall j, In j (ids_l xcs) -> ~ In j (ids_l ls) /\ ~ In j (ids_l rs)).
  Proof.
    apply rep_t_unfold in Hq as [Q1 Q2]. apply rep_l_app in Q2 as [Q2 Q3]. apply rep_l_cons in Q3 as [Q3 Q4].
    unfold tx in Q3. apply rep_t_unfold in Q3 as [Q3 Q5]. cbn [head_or rid] in *.
    unfold tx in Hnd. rewrite ids_unfold, ids_l_app, ids_l_cons, ids_unfold in Hnd.
    apply NoDup_cons_iff in Hnd as [A1 A2]. apply NoDup_app_iff in A2 as (A2 & A3 & A4).
    apply NoDup_cons_iff in A3 as [A3 A5]. apply NoDup_app_iff in A5 as (A5 & A6 & A7).
    split; [exact Q1|]. split; [exact Q3|]. split; [exact Q2|]. split; [exact Q5|]. split; [exact Q4|].
    split; [intros ->; apply A1; in_norm; tauto|].
    split; [intros Hin; apply (A4 x Hin); simpl; auto|].
    split; [intros Hin; apply A3; in_norm; tauto|].
    split; [intros Hin; apply A1; in_norm; tauto|].
    split; [intros Hin; apply A1; in_norm; tauto|].
    split; [intros Hin; apply A3; in_norm; tauto|].
    split; [intros Hin; apply A1; in_norm; tauto|].
    split; [exact A2|]. split; [exact A6|]. split; [exact A5|].
    split; [intros j Hj Hj'; apply (A4 j Hj); in_norm; tauto|].
    intros j Hj. split; [intros Hj'; apply (A4 j Hj'); in_norm; tauto | exact (A7 j Hj)].
  Qed.

  Lemma head_ls_not_x l0 lp : ls = l0 ++ [lp] -> exists c, head_id (ls ++ tx :: rs) = Some c /\ c <> x /\ In c (ids_l ls).
  Proof.
    intros E. destruct ex_facts as (_ & _ & _ & _ & _ & _ & Nx & _).
    destruct ls as [|a ls']; [destruct l0; discriminate|]. exists (rid a). split; [reflexivity|].
    assert (In (rid a) (ids_l (a :: ls'))) by (rewrite ids_l_cons; apply in_or_app; left; apply rid_in_ids).
    split; [intros Heq; apply Nx; rewrite <- Heq; exact H | exact H].
  Qed.

  Lemma extract_run : exists h', extract_node t x = TOk (mkT h' (root t) (cur_page t) (fresh t)) /\ ex_props h'.
  Proof.
    destruct ex_facts as (Q1 & Q3 & Q2 & Q5 & Q4 & Dxq & Nxl & Nxr & Nql & Nqr & Nxx & Nqx & U1 & U2 & U3 & U4 & U5).
    pose proof head_ls_not_x as Hhead.
    unfold extract_node. fold h. rewrite (get_some _ _ _ Q3). rec_simpl. rewrite (get_some _ _ _ Q1). rec_simpl.
    destruct (rev_cases ls) as [El|(l0 & lp & El)]; destruct rs as [|r0 r1] eqn:Er.
    - (* only child *)
      rewrite El in *. cbn [app head_id rid last_or head_or] in *. unfold oeqb. rewrite N.eqb_refl.
      repeat (first [rewrite get_upd_same | rewrite get_upd_other by congruence | rewrite (get_some h _ _ Q3)]; rec_simpl).
      eexists. split; [reflexivity|]. unfold ex_props. rewrite ?El, ?Er. cbn [app head_id last_or head_or].
      split; [upd_simpl; reflexivity|]. split; [upd_simpl; reflexivity|].
      split; [intros l0' lp' E; destruct l0'; discriminate|]. split; [discriminate|].
      intros j H1 H2 _ _. upd_simpl. reflexivity.
    - (* first child, with a next sibling r0 *)
      rewrite El in *. cbn [app head_id rid last_or head_or] in *. unfold oeqb. rewrite N.eqb_refl.
      apply rep_l_cons in Q4 as [Q4 Q6]. destruct r0 as [nx d0 cs0]. apply rep_t_unfold in Q4 as [Q4 _]. cbn [rid] in *.
      assert (Dnx : nx <> x) by (intros ->; apply Nxr; in_norm; tauto).
      assert (Dnq : nx <> q) by (intros ->; apply Nqr; in_norm; tauto).
      repeat (first [rewrite get_upd_same | rewrite get_upd_other by congruence | rewrite (get_some h _ _ Q3)
                    | rewrite (get_some h _ _ Q4)]; rec_simpl).
      eexists. split; [reflexivity|]. unfold ex_props. rewrite ?El, ?Er. cbn [app head_id rid last_or head_or].
      split; [upd_simpl; reflexivity|]. split; [upd_simpl; reflexivity|].
      split; [intros l0' lp' E; destruct l0'; discriminate|].
      split; [intros r0' r1' E r Hr; injection E as <- <-; cbn [rid] in *; rewrite Q4 in Hr; injection Hr as <-;
              upd_simpl; reflexivity|].
      intros j H1 H2 _ H4. assert (j <> nx) by congruence. upd_simpl. reflexivity.
    - (* last child, with a previous sibling lp *)
      destruct (Hhead l0 lp El) as (c & Hc & Dc & _). rewrite Hc. unfold oeqb.
      destruct (N.eqb_spec c x) as [|_]; [contradiction|].
      rewrite El in Q2. apply rep_l_app in Q2 as [Q2 Q6]. cbn [rep_l] in Q6. destruct Q6 as [Q6 _].
      destruct lp as [pv d0 cs0]. apply rep_t_unfold in Q6 as [Q6 _]. cbn [rid head_or] in *.
      assert (Ipv : In pv (ids_l ls)) by (rewrite El; apply in_ids_l_last; simpl; auto).
      assert (Dpx : pv <> x) by (intros ->; exact (Nxl Ipv)).
      assert (Dpq : pv <> q) by (intros ->; exact (Nql Ipv)).
      rewrite El, last_or_app in *. cbn [rid] in *.
      repeat (first [rewrite get_upd_same | rewrite get_upd_other by congruence | rewrite (get_some h _ _ Q3)
                    | rewrite (get_some h _ _ Q6)]; rec_simpl).
      eexists. split; [reflexivity|]. unfold ex_props. rewrite ?El, ?Er, ?last_or_app, ?app_nil_r. cbn [rid head_or].
      split; [upd_simpl; reflexivity|].
      split; [upd_simpl; rewrite Q1; f_equal; f_equal; destruct l0; reflexivity|].
      split; [intros l0' lp' E r Hr; apply app_inj_tail in E as [_ <-]; cbn [rid] in *; rewrite Q6 in Hr; injection Hr as <-;
              upd_simpl; reflexivity|].
      split; [discriminate|].
      intros j H1 H2 H3 _. assert (j <> pv) by congruence. upd_simpl. reflexivity.
    - (* between lp and r0 *)
      destruct (Hhead l0 lp El) as (c & Hc & Dc & _). rewrite Hc. unfold oeqb.
      destruct (N.eqb_spec c x) as [|_]; [contradiction|].
      rewrite El in Q2. apply rep_l_app in Q2 as [Q2 Q6]. cbn [rep_l] in Q6. destruct Q6 as [Q6 _].
      destruct lp as [pv d0 cs0]. apply rep_t_unfold in Q6 as [Q6 _]. cbn [rid head_or] in *.
      apply rep_l_cons in Q4 as [Q4 Q7]. destruct r0 as [nx d1 cs1]. apply rep_t_unfold in Q4 as [Q4 _]. cbn [rid] in *.
      assert (Ipv : In pv (ids_l ls)) by (rewrite El; apply in_ids_l_last; simpl; auto).
      assert (Inx : In nx (ids_l (R nx d1 cs1 :: r1))) by (in_norm; tauto).
      assert (Dpx : pv <> x) by (intros ->; exact (Nxl Ipv)).
      assert (Dpq : pv <> q) by (intros ->; exact (Nql Ipv)).
      assert (Dnx : nx <> x) by (intros ->; exact (Nxr Inx)).
      assert (Dnq : nx <> q) by (intros ->; exact (Nqr Inx)).
      assert (Dpn : pv <> nx) by (intros ->; exact (U4 _ Ipv Inx)).
      rewrite El, last_or_app in *. cbn [rid] in *.
      repeat (first [rewrite get_upd_same | rewrite get_upd_other by congruence | rewrite (get_some h _ _ Q3)
                    | rewrite (get_some h _ _ Q4) | rewrite (get_some h _ _ Q6)]; rec_simpl).
      eexists. split; [reflexivity|]. unfold ex_props. rewrite ?El, ?Er, ?last_or_app. cbn [rid head_or].
      split; [upd_simpl; reflexivity|].
      split; [upd_simpl; rewrite Q1; f_equal; f_equal; destruct l0; reflexivity|].
      split; [intros l0' lp' E r Hr; apply app_inj_tail in E as [_ <-]; cbn [rid] in *; rewrite Q6 in Hr; injection Hr as <-;
              upd_simpl; reflexivity|].
      split; [intros r0' r1' E r Hr; injection E as <- <-; cbn [rid] in *; rewrite Q4 in Hr; injection Hr as <-;
              upd_simpl; reflexivity|].
      intros j H1 H2 H3 H4. assert (j <> pv) by congruence. assert (j <> nx) by congruence.
      upd_simpl. reflexivity.
  Qed.

  Lemma extract_local_rep h' : ex_props h' ->
    rep_t h' parq prevq nxtq (R q dq (ls ++ rs)) /\ rep_t h' None None None tx /\
    (forall j, ~ In j (ids (R q dq (ls ++ tx :: rs))) -> h' j = h j).
  Proof.
    intros (P1 & P2 & P3 & P4 & P5).
    destruct ex_facts as (Q1 & Q3 & Q2 & Q5 & Q4 & Dxq & Nxl & Nxr & Nql & Nqr & Nxx & Nqx & U1 & U2 & U3 & U4 & U5).
    assert (Fr : forall j, j <> x -> j <> q -> ~ (In j (ids_l ls) /\ last_or None ls = Some j) ->
                           ~ (In j (ids_l rs) /\ head_or None rs = Some j) -> h' j = h j).
    { intros j H1 H2 H3 H4. apply P5; [exact H1 | exact H2 | |].
      - intros E. apply H3. split; [apply last_or_in with (d := None); [discriminate | exact E] | exact E].
      - intros E. apply H4. split; [apply head_or_in with (d := None); [discriminate | exact E] | exact E]. }
    split; [|split].
    - apply rep_t_unfold. split; [exact P2|]. apply rep_l_app. split.
      + destruct (rev_cases ls) as [El|(l0 & lp & El)]; [rewrite El; exact I|].
        rewrite El. eapply relink_last with (h := h).
        * rewrite <- El. exact Q2.
        * rewrite <- El. exact U1.
        * apply (P3 l0 lp El).
        * rewrite <- El. intros j Hj Hne. apply Fr.
          -- intros ->. exact (Nxl Hj).
          -- intros ->. exact (Nql Hj).
          -- intros [_ E]. rewrite El, last_or_app in E. congruence.
          -- intros [Hj' _]. exact (U4 j Hj Hj').
      + destruct rs as [|r0 r1] eqn:Er; [exact I|].
        eapply relink_head with (h := h).
        * exact Q4.
        * exact U2.
        * apply (P4 r0 r1 eq_refl).
        * intros j Hj Hne. apply Fr.
          -- intros ->. exact (Nxr Hj).
          -- intros ->. exact (Nqr Hj).
          -- intros [Hj' _]. exact (U4 j Hj' Hj).
          -- intros [_ E]. cbn [head_or] in E. congruence.
    - unfold tx. apply rep_t_unfold. split; [exact P1|]. eapply rep_l_frame; [|exact Q5].
      intros j Hj. destruct (U5 j Hj) as [V1 V2]. apply Fr.
      + intros ->. exact (Nxx Hj).
      + intros ->. exact (Nqx Hj).
      + tauto.
      + tauto.
    - intros j Hj. apply Fr.
      + intros ->. apply Hj. unfold tx. clear. in_norm. tauto.
      + intros ->. apply Hj. clear. in_norm. tauto.
      + intros [Hj' _]. apply Hj. clear - Hj'. in_norm. tauto.
      + intros [Hj' _]. apply Hj. clear - Hj'. in_norm. tauto.
  Qed.
End ExtractLocal.

(* ------------------------------------------------------------------ *)
(* wbxml_tree_extract_node at forest level                              *)

Lemma find_notin x : (forall t, ~ In x (ids t) -> find_t x t = None) /\ (forall ts, ~ In x (ids_l ts) -> find_l x ts = None).
Proof.
  split.
  - intros t H. destruct (find_t x t) eqn:E; [|reflexivity]. exfalso. apply H. exact (proj1 (proj2 (proj1 (find_some x) _ _ E))).
  - intros ts H. destruct (find_l x ts) eqn:E; [|reflexivity]. exfalso. apply H. exact (proj1 (proj2 (proj2 (find_some x) _ _ E))).
Qed.

(* a node that is not one of the roots has a parent in the forest *)
Lemma find_parent x :
  (forall t, NoDup (ids t) -> In x (ids t) -> x = rid t \/
     exists q d ls tx rs, find_t q t = Some (R q d (ls ++ tx :: rs)) /\ rid tx = x) /\
  (forall ts, NoDup (ids_l ts) -> In x (ids_l ts) ->
     (exists ls tx rs, ts = ls ++ tx :: rs /\ rid tx = x) \/
     exists q d ls tx rs, find_l q ts = Some (R q d (ls ++ tx :: rs)) /\ rid tx = x).
Proof.
  apply rt_mut_ind.
  - intros i d cs IH Hnd Hin. rewrite ids_unfold in *. apply NoDup_cons_iff in Hnd as [Hni Hnd].
    destruct Hin as [<-|Hin]; [left; reflexivity|]. right.
    destruct (IH Hnd Hin) as [(ls & tx & rs & E & Hr)|(q & dq & ls & tx & rs & E & Hr)].
    + exists i, d, ls, tx, rs. rewrite find_t_unfold, N.eqb_refl, E. auto.
    + exists q, dq, ls, tx, rs. rewrite find_t_unfold.
      destruct (N.eqb_spec i q) as [->|_]; [|auto].
      exfalso. apply Hni. exact (proj1 (proj2 (proj2 (find_some q) _ _ E))).
  - simpl. tauto.
  - intros t ts IHt IHts Hnd Hin. rewrite ids_l_cons in *. apply NoDup_app_iff in Hnd as (N1 & N2 & N3).
    apply in_app_or in Hin as [Hin|Hin].
    + destruct (IHt N1 Hin) as [->|(q & dq & ls & tx & rs & E & Hr)].
      * left. exists [], t, ts. auto.
      * right. exists q, dq, ls, tx, rs. rewrite find_l_cons, E. auto.
    + destruct (IHts N2 Hin) as [(ls & tx & rs & E & Hr)|(q & dq & ls & tx & rs & E & Hr)].
      * left. exists (t :: ls), tx, rs. rewrite E. auto.
      * right. exists q, dq, ls, tx, rs. rewrite find_l_cons.
        assert (Hq : In q (ids_l ts)) by exact (proj1 (proj2 (proj2 (find_some q) _ _ E))).
        rewrite (proj1 (find_notin q) t); [auto|]. intros Hq'. exact (N3 q Hq' Hq).
Qed.

Lemma extract_forest t F x :
  Links (heap_of t) F -> In x (ids_l F) -> ~ In x (map rid F) ->
  exists h' q dq ls tx rs, extract_node t x = TOk (mkT h' (root t) (cur_page t) (fresh t)) /\
     find_l q F = Some (R q dq (ls ++ tx :: rs)) /\ rid tx = x /\
     Links h' (replace_l q (R q dq (ls ++ rs)) F ++ [tx]).
Proof.
  intros (HF & HN & HC & HL) Hin Hnr.
  destruct (proj2 (find_parent x) F HN Hin) as [(ls & tx & rs & E & Hr)|(q & dq & ls & tx & rs & Hfind & Hr)].
  { exfalso. apply Hnr. rewrite E, map_app. apply in_or_app. right. simpl. auto. }
  destruct (find_rep_forest _ _ _ _ HF Hfind) as (parq & prevq & nxtq & Hsub).
  destruct (proj2 (ids_replace_split q (R q dq (ls ++ rs))) _ _ Hfind HN) as (A & B & EA & EB & ES).
  assert (Nsub : NoDup (ids (R q dq (ls ++ tx :: rs)))) by (rewrite EA in HN; apply nodup_mid in HN; tauto).
  destruct tx as [x' dx xcs]. cbn [rid] in Hr. subst x'.
  destruct (extract_run t q x dq dx parq prevq nxtq ls rs xcs Hsub Nsub) as (h' & Hrun & Hprops).
  destruct (extract_local_rep t q x dq dx parq prevq nxtq ls rs xcs Hsub Nsub h' Hprops) as (R1 & R2 & R3).
  exists h', q, dq, ls, (R x dx xcs), rs. split; [exact Hrun|]. split; [exact Hfind|]. split; [reflexivity|].
  assert (Hq : heap_of t q = Some (mkN dq parq (head_id (ls ++ R x dx xcs :: rs)) nxtq prevq)) by (apply rep_t_unfold in Hsub; tauto).
  assert (HLs : leaf_text (R q dq (ls ++ R x dx xcs :: rs)) = true) by (eapply (proj2 (find_leaf q)); eauto).
  rewrite leaf_text_unfold, forallb_app' in HLs. cbn [forallb] in HLs.
  apply andb_prop in HLs as [HL0 HLs]. apply andb_prop in HLs as [HLl HLs]. apply andb_prop in HLs as [HLx HLr].
  split; [|split; [|split]].
  - apply Forall_app. split; [|constructor; [exact R2 | constructor]].
    apply rep_replace_forest with (h := heap_of t); [reflexivity | | exact HF | exact HN |].
    + intros par' prev' nxt' d' c' E. rewrite Hq in E. injection E as <- <- <- <- <-. exact R1.
    + intros j Hj Hs. rewrite ES in Hs. apply R3. exact Hs.
  - rewrite ids_l_app, ids_l_single, EB. rewrite EA in HN. eapply Permutation_NoDup; [|exact HN].
    rewrite !ids_unfold, !ids_l_app, !ids_l_cons, ids_unfold. repeat rewrite <- app_assoc. cbn [app].
    apply Permutation_app_head. repeat rewrite <- app_assoc. cbn [app]. constructor. apply Permutation_app_head.
    match goal with |- Permutation ?L ?Rr =>
      replace L with ((x :: ids_l xcs) ++ (ids_l rs ++ B)) by (repeat rewrite <- app_assoc; reflexivity);
      replace Rr with ((ids_l rs ++ B) ++ (x :: ids_l xcs)) by (repeat rewrite <- app_assoc; reflexivity)
    end.
    apply Permutation_app_comm.
  - intros i Hi. rewrite ids_l_app, ids_l_single, EB.
    destruct (in_dec N.eq_dec i (ids (R q dq (ls ++ R x dx xcs :: rs)))) as [Hs|Hs].
    + clear - Hs. in_norm. tauto.
    + rewrite (R3 i Hs) in Hi. specialize (HC i Hi). rewrite EA in HC. clear - HC Hs. in_norm. tauto.
  - rewrite forallb_app'. cbn [forallb]. rewrite HLx. cbn [andb]. rewrite andb_true_r.
    refine (proj2 (leaf_replace q _ _) _ HL). rewrite leaf_text_unfold, forallb_app', HLl, HLr. cbn [andb]. rewrite andb_true_r.
    destruct (is_text dq); [|reflexivity]. cbn [negb orb] in HL0. destruct ls; discriminate.
Qed.
