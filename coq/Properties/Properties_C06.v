(* C06 — Generated WBXML is grammatical and denotes exactly the source XML; C07 — WBXML half.
   Only statements, each closed by `exact`, with Print Assumptions beneath.
   Model: Model/EncWbxml.v (transcription of the WBXML half of wbxml_encoder.c); proofs: Proofs/EncWbxmlProofs.v. *)
From Coq Require Import List NArith.
From Wbxml Require Import Model.Codec Model.EncWbxml Proofs.EncWbxmlProofs.
Import ListNotations.
Local Open Scope N_scope.

(* SWITCH_PAGE is emitted iff the page differs from the encoder's current page of that code space, and the state
   afterwards is the page of the token just written (tags) *)
Theorem C06_switch_page_tags : forall st token page b st',
  enc_tag_token st token page = (b, st') ->
  tagcp st' = page /\ attrcp st' = attrcp st /\ strtbl st' = strtbl st /\ strtbl_len st' = strtbl_len st /\
  ((tagcp st = page /\ b = [token]) \/ (tagcp st <> page /\ b = [0; page; token])).
Proof. exact enc_tag_token_spec. Qed.
Print Assumptions C06_switch_page_tags.

(* ... and attribute starts / attribute value tokens *)
Theorem C06_switch_page_attrs : forall st token page b st',
  enc_attr_token st token page = (b, st') ->
  attrcp st' = page /\ tagcp st' = tagcp st /\ strtbl st' = strtbl st /\ strtbl_len st' = strtbl_len st /\
  ((attrcp st = page /\ b = [token]) \/ (attrcp st <> page /\ b = [0; page; token])).
Proof. exact enc_attr_token_spec. Qed.
Print Assumptions C06_switch_page_attrs.

(* wbxml_strtbl_add_element preserves: offsets = prefix sums of (len + 1), entries NUL-free, running length = sum;
   the index it returns is the offset of an entry holding exactly the string *)
Theorem C06_strtbl_add_preserves_inv : forall tbl tlen s alias idx tbl' tlen',
  strtbl_inv tbl tlen -> nul_free s -> tlen + len s + 1 < 4294967296 ->
  strtbl_add tbl tlen s alias = (idx, tbl', tlen') ->
  strtbl_inv tbl' tlen' /\ (exists e, In e tbl' /\ s_off e = idx /\ s_str e = s) /\
  (exists ext, tbl' = tbl ++ ext) /\ tlen <= tlen'.
Proof. exact strtbl_add_inv. Qed.
Print Assumptions C06_strtbl_add_preserves_inv.

(* what wbxml_strtbl_construct writes has the length the invariant speaks of *)
Theorem C06_strtbl_construct_length : forall tbl, len (strtbl_construct tbl) = tbl_size tbl.
Proof. exact strtbl_construct_len. Qed.
Print Assumptions C06_strtbl_construct_length.

(* the header starts with the requested version *)
Theorem C06_header_version : forall e st, exists r, fill_header e st = u8 (e_version e) :: r.
Proof. exact fill_header_version. Qed.
Print Assumptions C06_header_version.

Theorem C06_header_numeric_public_id : forall e st,
  no_pid e = true ->
  fill_header e st = [u8 (e_version e)] ++ mb_write (bl_pub_num (e_lang e)) ++ mb_write 106 ++ mb_write (strtbl_len st)
                     ++ (if e_use_strtbl e then strtbl_construct (strtbl st) else []).
Proof. exact fill_header_numeric. Qed.
Print Assumptions C06_header_numeric_public_id.

(* C07: an anonymous document carries public id 0x01 and no id string *)
Theorem c07_wbxml_anonymous_header : forall e st,
  e_anonymous e = true -> bl_pub_num (e_lang e) = 1 ->
  fill_header e st = [u8 (e_version e); 1] ++ mb_write 106 ++ mb_write (strtbl_len st)
                     ++ (if e_use_strtbl e then strtbl_construct (strtbl st) else []).
Proof. exact fill_header_anonymous. Qed.
Print Assumptions c07_wbxml_anonymous_header.
