(* C06 — Generated WBXML is grammatical and denotes exactly the source XML; C07 — WBXML half (the c07_wbxml_ theorems).
   Only statements, each closed by `exact`, with the Print-Assumptions command under each.
   Model: Model/EncWbxml.v (transcription of the WBXML half of wbxml_encoder.c); proofs: Proofs/EncWbxmlProofs.v.

   FULL statement aimed at (DESIGN.md C06), NOT proved here:
     forall l o t, wf_tree l t -> exists d, enc_wbxml l o t = Ok (serialize d) /\ wf l d /\ strict d
                                            /\ denote l d = events_of l (norm o t)
   What is proved are the parts of `strict` that are invariants of the encoder state (string table, code pages,
   header) and the value-splitting lemma, each for ALL trees / languages; the grammar-level clauses (balance of END,
   denotation of the whole byte string) are checked by the strict decoder oracle on the C's bytes and have no theorem
   yet (they need the Coq `Spec.decode` of C04, which is another file). *)
From Coq Require Import List NArith String.
From Wbxml Require Import Model.Codec Model.TablesDefs Model.EncWbxml Model.TreeNorm Proofs.EncWbxmlProofs Proofs.EncWbxmlSerialize Proofs.EncWbxmlDenote Proofs.EncWbxmlAbs Proofs.EncWbxmlStrict2 Proofs.EncWbxmlDenote2
     Model.EncWbxmlEvents Proofs.EncWbxmlTblOk Proofs.EncWbxmlDenote3 Proofs.EncWbxmlAbs4 Proofs.EncWbxmlDenote4 Proofs.EncWbxmlAbs5 Model.EncWbxmlTables Proofs.EncWbxmlDenote5 Proofs.EncWbxmlCanon Proofs.EncWbxmlDenoteWv
     Proofs.EncWbxmlDenote6 Proofs.EncWbxmlClass6 Proofs.EncWbxmlClasses Proofs.EncWbxmlUnion Proofs.EncWbxmlCanon2 Proofs.EncWbxmlUnionPub.
From Wbxml Require Import Model.EncWbxmlTextPid Proofs.EncWbxmlTextPid.
From Wbxml Require Model.Parser Model.Spec.
Import ListNotations.
Local Open Scope N_scope.

(* ---- code pages ----------------------------------------------------------------------------- *)

(* SWITCH_PAGE is emitted iff the page differs from the encoder's current page of that code space, and the state
   afterwards is the page of the token just written (tags) *)
Theorem C06_switch_page_tags : forall st token page b st',
  enc_tag_token st token page = (b, st') ->
  tagcp st' = page /\ attrcp st' = attrcp st /\ strtbl st' = strtbl st /\ strtbl_len st' = strtbl_len st /\
  ((tagcp st = page /\ b = [token]) \/ (tagcp st <> page /\ b = [0; page; token])).
Proof. exact enc_tag_token_spec. Qed.
Print Assumptions C06_switch_page_tags.

(* ... and attribute starts / attribute value tokens (one shared attribute page) *)
Theorem C06_switch_page_attrs : forall st token page b st',
  enc_attr_token st token page = (b, st') ->
  attrcp st' = page /\ tagcp st' = tagcp st /\ strtbl st' = strtbl st /\ strtbl_len st' = strtbl_len st /\
  ((attrcp st = page /\ b = [token]) \/ (attrcp st <> page /\ b = [0; page; token])).
Proof. exact enc_attr_token_spec. Qed.
Print Assumptions C06_switch_page_attrs.

(* ---- string table ---------------------------------------------------------------------------- *)

(* wbxml_strtbl_add_element preserves: offsets = prefix sums of (len + 1), entries NUL-free, running length = sum;
   the index it returns is the offset of an entry holding exactly the string *)
Theorem C06_strtbl_add_preserves_inv : forall tbl tlen s idx tbl' tlen',
  strtbl_inv tbl tlen -> nul_free s -> tlen + len s + 1 < 4294967296 ->
  strtbl_add tbl tlen s = (idx, tbl', tlen') ->
  strtbl_inv tbl' tlen' /\ (exists e, In e tbl' /\ s_off e = idx /\ s_str e = s) /\
  (exists ext, tbl' = tbl ++ ext) /\ tlen <= tlen'.
Proof. exact strtbl_add_inv. Qed.
Print Assumptions C06_strtbl_add_preserves_inv.

(* wbxml_strtbl_initialize (collect, count references, words, second pass) establishes it, for every tree *)
Theorem C06_strtbl_initialize_establishes_inv : forall l roots tbl tlen,
  strtbl_initialize l roots = (tbl, tlen) -> tbl_size tbl < 4294967296 ->
  offsets_from 0 tbl /\ tlen = tbl_size tbl.
Proof. exact strtbl_initialize_inv. Qed.
Print Assumptions C06_strtbl_initialize_establishes_inv.

(* what wbxml_strtbl_construct writes has the length the invariant speaks of *)
Theorem C06_strtbl_construct_length : forall tbl, len (strtbl_construct tbl) = tbl_size tbl.
Proof. exact strtbl_construct_len. Qed.
Print Assumptions C06_strtbl_construct_length.

(* every reference resolves: under the invariant the entry found at an entry's offset is that entry's string *)
Theorem C06_strtbl_offsets_resolve : forall tbl e,
  offsets_from 0 tbl -> In e tbl -> ref_str tbl (s_off e) = s_str e.
Proof. exact (ref_str_resolves 0). Qed.
Print Assumptions C06_strtbl_offsets_resolve.

(* END TO END over the whole tree walk (every language, every option tuple, every tree, embedded trees, literals added
   on the way): the final running length — the one the header declares — is exactly the size of the final table and all
   offsets are its prefix sums.  FULL since the repair of D7 (/repo 6829a7f): the table owns its strings, so no step
   can change an entry (before the repair this statement was refuted by the model for string table on + keep-ws off;
   the witness d7_tree is kept as the example at the end of this file).
   (bnd: the table is smaller than 2^32 octets — WB_ULONG arithmetic.) *)
Theorem C06_strtbl_exact : forall tbl l o roots body st,
  enc_body tbl l o roots = EOk (body, st) -> bnd st -> tinv st.
Proof. exact enc_body_strtbl_exact. Qed.
Print Assumptions C06_strtbl_exact.

(* the general step lemma behind it, from any state: a walk only appends entries, and keeps the invariant *)
Theorem C06_strtbl_walk_invariant : forall tbl e p ns st b st',
  parse_nodes tbl e p ns st = EOk (b, st') ->
  ext st st' /\ (tinv st -> bnd st' -> tinv st').
Proof. exact (fun tbl e p ns st => parse_nodes_ok tbl e p ns st). Qed.
Print Assumptions C06_strtbl_walk_invariant.

(* header + table: the table written after the declared length has exactly that length (numeric public id) *)
Theorem C06_header_strtbl_length_exact : forall e st,
  no_pid e = true -> e_use_strtbl e = true -> tinv st ->
  exists pre, fill_header e st = pre ++ mb_write (strtbl_len st) ++ strtbl_construct (strtbl st) /\
              len (strtbl_construct (strtbl st)) = strtbl_len st.
Proof. exact header_strtbl_length_exact. Qed.
Print Assumptions C06_header_strtbl_length_exact.

(* ---- value splitting --------------------------------------------------------------------------- *)

(* wbxml_encode_value_element_buffer: after the attribute-value-token, extension and string-table sweeps (in the
   C's order) the value elements spell exactly the input value, for any reading `den` of the non-string elements that
   agrees with the tables / the string table (den is what a decoder substitutes for the token) *)
Theorem C06_value_split_spells_value : forall (den : velt -> bytes),
  (forall s, den (VStr s) = s) ->
  forall e st is_attr buffer l,
  (forall r, In r (match bl_vals (e_lang e) with Some rows => rows | None => [] end) -> den (VAttrTok (bv_page r) (bv_tok r)) = bv_name r) ->
  (forall r, In r (match bl_exts (e_lang e) with Some rows => rows | None => [] end) -> den (VExt (be_tok r)) = be_name r) ->
  (forall x, In x (strtbl st) -> den (VRef (s_off x)) = s_str x) ->
  split_value e st is_attr buffer = Some l -> flat_map den l = buffer.
Proof. exact split_value_den. Qed.
Print Assumptions C06_value_split_spells_value.

(* ---- header ------------------------------------------------------------------------------------ *)

Theorem C06_header_version : forall e st, exists r, fill_header e st = u8 (e_version e) :: r.
Proof. exact fill_header_version. Qed.
Print Assumptions C06_header_version.

(* numeric public id of the language (not anonymous): version, id, [charset 106 — not in WBXML 1.0], table length, table *)
Theorem C06_header_numeric_public_id : forall e st,
  e_anonymous e = false -> no_pid e = true ->
  fill_header e st = [u8 (e_version e)] ++ mb_write (bl_pub_num (e_lang e)) ++ header_charset e ++ mb_write (strtbl_len st)
                     ++ (if e_use_strtbl e then strtbl_construct (strtbl st) else []).
Proof. exact fill_header_numeric_lang. Qed.
Print Assumptions C06_header_numeric_public_id.

(* the charset field is UTF-8 (106) for versions 1.1 - 1.3 and absent for version 1.0 *)
Theorem C06_header_charset : forall e,
  (e_version e = 0 -> header_charset e = []) /\ (e_version e <> 0 -> header_charset e = [106]).
Proof.
  intros e. unfold header_charset. split; intros H.
  - now rewrite H.
  - apply N.eqb_neq in H. now rewrite H.
Qed.
Print Assumptions C06_header_charset.

Theorem C06_header_textual_public_id_without_strtbl : forall e st p,
  bl_pub_num (e_lang e) = 1 -> e_anonymous e = false -> bl_pub_text (e_lang e) = Some p -> e_use_strtbl e = false ->
  fill_header e st = [u8 (e_version e)] ++ ([0] ++ mb_write 0) ++ header_charset e ++ mb_write (u32 (len p + 1)) ++ (p ++ [0]).
Proof. exact fill_header_textual_nostrtbl. Qed.
Print Assumptions C06_header_textual_public_id_without_strtbl.

(* ---- C07, WBXML half --------------------------------------------------------------------------- *)

(* an anonymous document of ANY language carries public id 0x01 'unknown' and no id string *)
Theorem c07_wbxml_anonymous_header : forall e st,
  e_anonymous e = true ->
  fill_header e st = [u8 (e_version e); 1] ++ header_charset e ++ mb_write (strtbl_len st)
                     ++ (if e_use_strtbl e then strtbl_construct (strtbl st) else []).
Proof. exact fill_header_anonymous. Qed.
Print Assumptions c07_wbxml_anonymous_header.

(* the body bytes and the final encoder state do not depend on `produce_anonymous` *)
Theorem c07_wbxml_body_independent_of_anonymous : forall tbl l v s k a1 a2 roots,
  enc_body tbl l (mk_opts v s k a1) roots = enc_body tbl l (mk_opts v s k a2) roots.
Proof. exact c07_body_independent_of_anonymous. Qed.
Print Assumptions c07_wbxml_body_independent_of_anonymous.

(* ... nor on the version, unless the tree embeds another tree (whose own header carries the version byte) *)
Theorem c07_wbxml_body_independent_of_version : forall tbl l v1 v2 s k a roots,
  forallb no_tree roots = true ->
  enc_body tbl l (mk_opts v1 s k a) roots = enc_body tbl l (mk_opts v2 s k a) roots.
Proof. exact c07_body_independent_of_version. Qed.
Print Assumptions c07_wbxml_body_independent_of_version.

(* the former D7 witness (repeated text with surrounding blanks, string table on, keep-ws off) now satisfies it:
   the table holds the untrimmed string, declared length 8 + 6 = 14 = table written *)
Example C06_example_former_d7_witness :
  exists body st, enc_body [] d7_lang (mk_opts 3 true false false) d7_tree = EOk (body, st) /\ tinv st /\ strtbl_len st = 14.
Proof.
  eexists. eexists. split; [vm_compute; reflexivity|]. split; [split; vm_compute; auto|vm_compute; reflexivity].
Qed.

(* textual public id with the string table in use: `00 index`, the index is the offset of a table entry that holds the
   language's XML public id, and the table written still has the declared length *)
Theorem C06_header_textual_public_id_with_strtbl : forall e st p,
  bl_pub_num (e_lang e) = 1 -> e_anonymous e = false -> bl_pub_text (e_lang e) = Some p -> e_use_strtbl e = true ->
  exists idx tbl tlen,
    strtbl_add (strtbl st) (strtbl_len st) p = (idx, tbl, tlen) /\
    fill_header e st = [u8 (e_version e)] ++ ([0] ++ mb_write idx) ++ header_charset e ++ mb_write tlen ++ strtbl_construct tbl /\
    (tinv st -> tbl_size tbl < 4294967296 ->
       (offsets_from 0 tbl /\ tlen = len (strtbl_construct tbl)) /\ exists x, In x tbl /\ s_off x = idx /\ s_str x = p).
Proof. exact fill_header_textual_strtbl. Qed.
Print Assumptions C06_header_textual_public_id_with_strtbl.

(* ---- grammar level: the output is the serialization of a strict abstract document --------------------------------- *)

(* PARTIAL (fragment): no string table, numeric public id, a language without typed content / extension table, a tree of
   token tags (token 5..63, not binary-flagged) without attributes and with text content.  For every such tree, option tuple
   and language the encoder's bytes are EXACTLY Spec.serialize of an abstract document (abs_doc) of the WBXML grammar
   (Model/Spec.v, written from the BNF) which satisfies the strictness predicate of the proved strict decoder.  Being in the
   image of `serialize` is the clause "attribute lists, elements and the document terminate and balance"; SWITCH_PAGE
   appears in abs_doc exactly where the page of a tag differs from the page in force.
   Outside the fragment (string table, literals, attributes, typed content, CDATA, embedded trees) this is established on
   the C's bytes only, by vlib/strictdec.py and by the extracted Spec.decode_lang (third oracle). *)
Theorem C06_output_is_serialize_of_strict_doc_partial : forall tbl l o p t opts nm ch,
  frag_lang l = true -> o_use_strtbl o = false -> no_pid (enc_env l o) = true ->
  frag_node (NElt (TagTok p t opts nm) [] ch) = true ->
  enc_wbxml tbl l o [NElt (TagTok p t opts nm) [] ch]
    = EOk (Spec.serialize (abs_doc l o (NElt (TagTok p t opts nm) [] ch)))
  /\ Spec.strict_doc (abs_doc l o (NElt (TagTok p t opts nm) [] ch)) = true.
Proof. exact enc_wbxml_is_serialize. Qed.
Print Assumptions C06_output_is_serialize_of_strict_doc_partial.

(* THE FULL STATEMENT of DESIGN C06, for the same fragment (PARTIAL in the fragment only): there is an abstract document d
   with  enc_wbxml l o t = Ok (serialize d),  strict d,  and  denote d = events of the NORMALISED source tree (norm o t:
   blank-only text dropped and text trimmed unless keep-ws) — and therefore the PROVED strict decoder of the parser
   development (Spec.decode_lang, language forced), run on the encoder's bytes, returns exactly those events.
   Hypotheses beyond the fragment: the decoder's table L agrees with the tags of the tree (tree_ok: each (page, token)
   is found under that page with that name; pages < 256; depth <= 1000; text octets < 256), version 1.0-1.3, a public id
   in 1 .. 2^32-1.  "Tokens under their own page" is part of denote (lookup under the page in force). *)
Theorem C06_strict_decoding_yields_normalised_source_partial : forall tblb TBL L l o p t opts nm ch,
  frag_lang l = true -> o_use_strtbl o = false -> no_pid (enc_env l o) = true ->
  frag_node (NElt (TagTok p t opts nm) [] ch) = true ->
  find (fun x => l_id x =? l_id L) TBL = Some L ->
  tree_ok L 0 (NElt (TagTok p t opts nm) [] ch) = true ->
  o_version o < 4 -> header_public_id (enc_env l o) < 4294967296 -> header_public_id (enc_env l o) <> 0 ->
  exists d bs,
    enc_wbxml tblb l o [NElt (TagTok p t opts nm) [] ch] = EOk bs /\ bs = Spec.serialize d /\ Spec.strict_doc d = true /\
    Spec.denote_with TBL (Some L) d
      = Some (Parser.EvStartDoc 106 (l_id L) :: flat_map events_node (norm (o_keep_ws o) [NElt (TagTok p t opts nm) [] ch]) ++ [Parser.EvEndDoc]) /\
    Spec.decode_lang TBL (l_id L) bs
      = Some (Parser.EvStartDoc 106 (l_id L) :: flat_map events_node (norm (o_keep_ws o) [NElt (TagTok p t opts nm) [] ch]) ++ [Parser.EvEndDoc]).
Proof. exact strict_decode_of_encoding. Qed.
Print Assumptions C06_strict_decoding_yields_normalised_source_partial.

(* WIDENED FRAGMENT (grammar level).  Whenever the conversion succeeds on a tree whose tags are tokens 5..63 (not
   binary-flagged) or names unknown to the tag table, with ANY attributes (token starts with or without value prefix, literal
   starts, attribute value tokens, inline remainders, attribute code page switches), with text content, WITH OR WITHOUT
   string table (table references, literal indices), with numeric, textual or anonymous public id, in a language without
   typed values (not WV, DRMREL, SyncML, SI, EMN, OTA settings): the bytes are Spec.serialize of the abstract document
   abs_doc2 (computed from the encoder's own final state), and that document is strict (Spec.strict_doc: table
   NUL-terminated, every STR_T / literal / public-id index at the first octet of an entry).
   Side conditions: the final table and the id string are shorter than 2^32 octets.
   STILL OUTSIDE: typed content and typed attribute values, the SyncML MIME rewrite, binary-flagged (OPAQUE) content, CDATA,
   PIs, embedded trees. *)
Theorem C06_output_is_serialize_of_strict_doc_wide_partial : forall tbl l o tag attrs ch bs,
  let e := enc_env l o in
  plain_env e = true -> frag2_node e (NElt tag attrs ch) = true ->
  enc_wbxml tbl l o [NElt tag attrs ch] = EOk bs ->
  exists body st' root,
    enc_body tbl l o [NElt tag attrs ch] = EOk (body, st') /\
    abs_node e None (NElt tag attrs ch) (start_state e [NElt tag attrs ch]) = Some ([root], st') /\
    ((let '(_, t, _) := header_table e st' in tbl_size t < 4294967296) ->
     (match header_pid e with Some p => len p + 1 < 4294967296 | None => True end) ->
     bs = Spec.serialize (abs_doc2 e st' root) /\ Spec.strict_doc (abs_doc2 e st' root) = true).
Proof. exact enc_wbxml_wide. Qed.
Print Assumptions C06_output_is_serialize_of_strict_doc_wide_partial.

(* THE FULL STATEMENT for trees WITH ATTRIBUTES (string table off): tokens 5..63 tags, attributes with token starts
   (value prefix stripped), attribute value tokens, inline remainders, attribute code page switches, text; numeric,
   textual (id string as the whole table) or anonymous public id; every option tuple with use_strtbl = false.
   The encoder's tables are the decoder's table L converted to bytes (to_blang L = Model/EncWbxmlTables.blang_of_lang L).
   There is an abstract document d with  bytes = Spec.serialize d,  Spec.strict_doc d,  and
   Spec.denote d = the events of the normalised source tree INCLUDING every attribute with its full value in order; hence
   the proved strict decoder Spec.decode_lang returns exactly these events on the encoder's bytes.
   Hypotheses: L's value rows are found again under their own (page, token) with their own name (vals_ok, a table
   property), no extension table, each tag / attribute start of the tree is the row found under its (page, token)
   (tree_ok2, true for trees the XML front end builds from L), octets < 256 without NUL, depth <= 1000, version <= 1.3.
   STILL OUTSIDE the denotation theorem: string table on (one text becomes several character events: needs events modulo
   merging), literal names, typed values, CDATA, binary content, embedded trees. *)
Theorem C06_strict_decoding_yields_normalised_source_with_attributes_partial : forall tblb TBL L o tag attrs ch bs,
  let e := enc_env (to_blang L) o in
  o_use_strtbl o = false -> plain_env e = true -> vals_ok L = true -> l_exts L = None ->
  frag2_node e (NElt tag attrs ch) = true -> tree_ok2 L 0 (NElt tag attrs ch) = true ->
  find (fun x => l_id x =? l_id L) TBL = Some L ->
  o_version o < 4 -> header_public_id e < 4294967296 -> header_public_id e <> 0 ->
  (match header_pid e with Some p => Spec.bytes_okb p = true /\ len p + 1 < 4294967296 | None => True end) ->
  enc_wbxml tblb (to_blang L) o [NElt tag attrs ch] = EOk bs ->
  exists d, bs = Spec.serialize d /\ Spec.strict_doc d = true /\
            Spec.denote_with TBL (Some L) d = Some (doc_events L e (o_keep_ws o) (NElt tag attrs ch)) /\
            Spec.decode_lang TBL (l_id L) bs = Some (doc_events L e (o_keep_ws o) (NElt tag attrs ch)).
Proof. exact strict_decode_of_encoding2. Qed.
Print Assumptions C06_strict_decoding_yields_normalised_source_with_attributes_partial.

(* the hypotheses are satisfiable: <p> a </p> in a one-tag language, trimmed, strictly decoded from the encoder's bytes *)
Example C06_fragment_example :
  let L := mk_lang 9999 4 None None None (Some [mk_tag "p"%string 0 32 0]) None None None None in
  let l := mk_blang 9999 4 None (Some [mk_btag [112] 0 32 0]) None None None in
  let o := mk_opts 3 false false false in
  let t := NElt (TagTok 0 32 0 [112]) [] [NText [32; 97; 32]; NText [32; 32]] in
  frag_lang l = true /\ no_pid (enc_env l o) = true /\ frag_node t = true /\ tree_ok L 0 t = true /\
  enc_wbxml [] l o [t] = EOk [3; 4; 106; 0; 96; 3; 97; 0; 1] /\
  Spec.decode_lang [L] 9999 [3; 4; 106; 0; 96; 3; 97; 0; 1]
    = Some [Parser.EvStartDoc 106 9999; Parser.EvStartElt (Parser.TagTok 0 32 [112]) []; Parser.EvChars [97];
            Parser.EvEndElt (Parser.TagTok 0 32 [112]); Parser.EvEndDoc].
Proof. cbv zeta. repeat split; vm_compute; reflexivity. Qed.

(* hypotheses of the attribute theorem are satisfiable: <p href="http://a.org/x" id="7"> b </p>, one language with an
   attribute start carrying a value prefix and one attribute value token on another attribute page *)
Example C06_attribute_fragment_example :
  let L := mk_lang 9998 4 None None None (Some [mk_tag "p"%string 0 32 0])
                   None (Some [mk_attr "href"%string (Some "http://"%string) 0 10; mk_attr "id"%string None 1 11])
                   (Some [mk_val ".org/"%string 1 133]) None in
  let o := mk_opts 1 false false true in
  let t := NElt (TagTok 0 32 0 [112])
                [mk_at (AttrTok 0 10 [104; 114; 101; 102] (Some [104; 116; 116; 112; 58; 47; 47])) [104; 116; 116; 112; 58; 47; 47; 97; 46; 111; 114; 103; 47; 120];
                 mk_at (AttrTok 1 11 [105; 100] None) [55]]
                [NText [32; 98; 32]] in
  plain_env (enc_env (to_blang L) o) = true /\ vals_ok L = true /\ frag2_node (enc_env (to_blang L) o) t = true /\ tree_ok2 L 0 t = true /\
  exists bs, enc_wbxml [] (to_blang L) o [t] = EOk bs /\
             Spec.decode_lang [L] 9998 bs = Some (doc_events L (enc_env (to_blang L) o) false t).
Proof.
  cbv zeta. split; [vm_compute; reflexivity|]. split; [vm_compute; reflexivity|]. split; [vm_compute; reflexivity|].
  split; [vm_compute; reflexivity|]. eexists. split; [vm_compute; reflexivity|vm_compute; reflexivity].
Qed.

(* THE STRING-TABLE AXIS, LITERAL NAMES INCLUDED.  String table ON or OFF, token or LITERAL tags, attributes with token or
   LITERAL names, attribute values and text cut into inline strings / attribute value tokens / STRING-TABLE REFERENCES,
   numeric / textual (in the table or not) / anonymous public id: whenever the conversion succeeds and the output is
   shorter than 2^32 octets, the bytes are the serialization of a strict abstract document d, and Spec.decode_lang on the
   encoder's bytes (language forced) returns an event list that equals the events of the NORMALISED source tree
   (doc_events3: names, attributes in order with their FULL values, character data) MODULO merge_chars
   (Model/EncWbxmlEvents.v: adjacent character-data events concatenated — with the table one text is written, and hence
   reported, as several pieces; without table, and in attribute values always, there is nothing to merge).
   The link that was missing: every index the encoder emits (STR_T, LITERAL, textual public id) is the offset of an entry
   of the table in force, the table is append-only, and on the octets finally written an entry's offset resolves
   (Spec.str_at) to exactly the entry's string (Proofs/EncWbxmlTblOk.v: entry_resolves, strtbl_initialize_ok,
   abs_node_tok).
   Hypotheses: tree_ok3 (tags / attribute starts are L's rows or names unknown to L, octets 1..255, depth <= 1000,
   element and text nodes only), vals_ok L, the encoder's tables are L's (to_blang L).
   PARTIAL only in: languages without typed values and without extension tokens (not WV, DRMREL, SyncML, SI, EMN, OTA;
   l_exts = None excludes WML variables), no binary-flagged content, CDATA, PI, embedded tree; a token-named attribute
   whose value does not start with the row's prefix (written as a literal) is outside tree_ok3. *)
Theorem C06_strict_decoding_yields_normalised_source_strtbl_partial : forall tblb TBL L o tag attrs ch bs,
  let e := enc_env (to_blang L) o in
  plain_env e = true -> vals_ok L = true -> l_exts L = None ->
  tree_ok3 L 0 (NElt tag attrs ch) = true ->
  find (fun x => l_id x =? l_id L) TBL = Some L ->
  o_version o < 4 -> header_public_id e < 4294967296 -> header_public_id e <> 0 ->
  (match header_pid e with Some p => okb p = true | None => True end) ->
  len bs < 4294967296 ->
  enc_wbxml tblb (to_blang L) o [NElt tag attrs ch] = EOk bs ->
  exists d evs, bs = Spec.serialize d /\ Spec.strict_doc d = true /\
            Spec.denote_with TBL (Some L) d = Some evs /\ Spec.decode_lang TBL (l_id L) bs = Some evs /\
            merge_chars evs = merge_chars (doc_events3 L e (o_keep_ws o) (NElt tag attrs ch)).
Proof. exact strict_decode_of_encoding3. Qed.
Print Assumptions C06_strict_decoding_yields_normalised_source_strtbl_partial.

(* an index of the table resolves on the octets written to the string of its entry *)
Theorem C06_strtbl_entry_resolves_on_written_table : forall T x,
  offsets_from 0 T -> In x T -> okb (s_str x) = true ->
  Spec.str_at (strtbl_construct T) (s_off x) = Some (s_str x).
Proof. exact entry_resolves. Qed.
Print Assumptions C06_strtbl_entry_resolves_on_written_table.

(* merge_chars is a normal form (idempotent) and compatible with concatenation *)
Theorem C06_merge_chars_idempotent : forall l, merge_chars (merge_chars l) = merge_chars l.
Proof. exact Wbxml.Proofs.EncWbxmlMerge.merge_idem. Qed.
Print Assumptions C06_merge_chars_idempotent.

(* the hypotheses are satisfiable and the normal form is needed: string table on, the text "abcd wxyz" occurs twice (its
   words go to the table), a literal element <zz> and a literal attribute q="abcd"; the decoder reports the text in pieces *)
Example C06_strtbl_fragment_example :
  let L := mk_lang 9997 4 None None None (Some [mk_tag "p"%string 0 32 0])
                   None (Some [mk_attr "id"%string None 0 11]) None None in
  let o := mk_opts 3 true false false in
  let txt := [97; 98; 99; 100; 32; 119; 120; 121; 122] in
  let txt2 := [97; 98; 99; 100; 32; 101; 102; 103; 104] in
  let t := NElt (TagTok 0 32 0 [112]) [mk_at (AttrLit [113]) [97; 98; 99; 100]]
                [NElt (TagLit [122; 122]) [] [NText txt]; NElt (TagTok 0 32 0 [112]) [] [NText txt2]] in
  plain_env (enc_env (to_blang L) o) = true /\ vals_ok L = true /\ tree_ok3 L 0 t = true /\
  exists bs evs, enc_wbxml [] (to_blang L) o [t] = EOk bs /\
             Spec.decode_lang [L] 9997 bs = Some evs /\
             evs <> doc_events3 L (enc_env (to_blang L) o) false t /\
             merge_chars evs = merge_chars (doc_events3 L (enc_env (to_blang L) o) false t).
Proof.
  cbv zeta. split; [vm_compute; reflexivity|]. split; [vm_compute; reflexivity|]. split; [vm_compute; reflexivity|].
  eexists. eexists. split; [vm_compute; reflexivity|]. split; [vm_compute; reflexivity|].
  split; [vm_compute; discriminate|vm_compute; reflexivity].
Qed.

(* BINARY-FLAGGED ELEMENTS (WBXML_TAG_OPTION_BINARY: the ActiveSync / AirSync byte arrays; the shape of the seeded changes
   C06_r31 / C03_r32).  The fragment of C06_strict_decoding_yields_normalised_source_strtbl_partial plus elements whose tag
   is binary-flagged: their text is written as ONE OPAQUE item with the node's octets as they are (any octets < 256, NUL
   included, fewer than 2^32), NOT trimmed, NOT dropped when it is blank, never cut against the tables; the decoder reports
   exactly these octets as one character event.  norm4 / events4 (Proofs/EncWbxmlDenote4.v) are TreeNorm.norm / events3 with
   the parent's flag: under a binary-flagged element a text node is left alone.  String table on or off: a byte array that
   occurs twice is put into the table by wbxml_strtbl_initialize but is never referenced (an entry with a NUL never matches
   a C string: find_name_okb), and references resolve for entries of octets 1..255 (the others need not).
   PARTIAL only in: languages without typed values and extension tokens; no CDATA, PI, embedded tree. *)
Theorem C06_strict_decoding_yields_normalised_source_binary_partial : forall tblb TBL L o tag attrs ch bs,
  let e := enc_env (to_blang L) o in
  plain_env e = true -> vals_ok L = true -> l_exts L = None ->
  tree_ok4 L false 0 (NElt tag attrs ch) = true ->
  find (fun x => l_id x =? l_id L) TBL = Some L ->
  o_version o < 4 -> header_public_id e < 4294967296 -> header_public_id e <> 0 ->
  (match header_pid e with Some p => okb p = true | None => True end) ->
  len bs < 4294967296 ->
  enc_wbxml tblb (to_blang L) o [NElt tag attrs ch] = EOk bs ->
  exists d evs, bs = Spec.serialize d /\ Spec.strict_doc d = true /\
            Spec.denote_with TBL (Some L) d = Some evs /\ Spec.decode_lang TBL (l_id L) bs = Some evs /\
            merge_chars evs = merge_chars (doc_events4 L e (o_keep_ws o) (NElt tag attrs ch)).
Proof. exact strict_decode_of_encoding4. Qed.
Print Assumptions C06_strict_decoding_yields_normalised_source_binary_partial.

(* the former fragment is inside this one *)
Theorem C06_binary_fragment_contains_strtbl_fragment : forall L n d, tree_ok3 L d n = true -> tree_ok4 L false d n = true.
Proof. exact ok3_ok4. Qed.
Print Assumptions C06_binary_fragment_contains_strtbl_fragment.

(* grammar level for the same fragment: encoder succeeds => bytes = serialization of the abstract document *)
Theorem C06_output_is_serialize_binary_partial : forall tbl l o tag attrs ch bs,
  let e := enc_env l o in
  plain_env e = true -> frag4_node e false (NElt tag attrs ch) = true ->
  enc_wbxml tbl l o [NElt tag attrs ch] = EOk bs ->
  exists st' root, enc_body tbl l o [NElt tag attrs ch] = EOk (flat_map Spec.ser_item [root], st') /\
    abs_node4 e None (NElt tag attrs ch) (start_state e [NElt tag attrs ch]) = Some ([root], st') /\
    (header_len_ok e st' -> bs = Spec.serialize (abs_doc2 e st' root)).
Proof. exact enc_wbxml_serialize4. Qed.
Print Assumptions C06_output_is_serialize_binary_partial.

(* the shape of seeded/C06_r31: <p><m>CR LF</m>  </p> with m binary-flagged, white space trimmed / dropped elsewhere: the
   blank byte array is kept as content of <m> (content bit, OPAQUE 02 0d 0a, END), the blank text of <p> is dropped *)
Example C06_binary_blank_payload_example :
  let L := mk_lang 9996 4 None None None (Some [mk_tag "m"%string 0 5 1; mk_tag "p"%string 0 6 0]) None None None None in
  let o := mk_opts 3 true false false in
  let t := NElt (TagTok 0 6 0 [112]) [] [NElt (TagTok 0 5 1 [109]) [] [NText [13; 10]]; NText [32; 32]] in
  plain_env (enc_env (to_blang L) o) = true /\ tree_ok4 L false 0 t = true /\
  enc_wbxml [] (to_blang L) o [t] = EOk [3; 4; 106; 0; 70; 69; 195; 2; 13; 10; 1; 1] /\
  Spec.decode_lang [L] 9996 [3; 4; 106; 0; 70; 69; 195; 2; 13; 10; 1; 1]
    = Some [Parser.EvStartDoc 106 9996; Parser.EvStartElt (Parser.TagTok 0 6 [112]) []; Parser.EvStartElt (Parser.TagTok 0 5 [109]) [];
            Parser.EvChars [13; 10]; Parser.EvEndElt (Parser.TagTok 0 5 [109]); Parser.EvEndElt (Parser.TagTok 0 6 [112]); Parser.EvEndDoc] /\
  doc_events4 L (enc_env (to_blang L) o) false t
    = [Parser.EvStartDoc 106 9996; Parser.EvStartElt (Parser.TagTok 0 6 [112]) []; Parser.EvStartElt (Parser.TagTok 0 5 [109]) [];
       Parser.EvChars [13; 10]; Parser.EvEndElt (Parser.TagTok 0 5 [109]); Parser.EvEndElt (Parser.TagTok 0 6 [112]); Parser.EvEndDoc].
Proof. cbv zeta. repeat split; vm_compute; reflexivity. Qed.

(* GRAMMAR LEVEL, EVERY LANGUAGE, EVERY NODE KIND (the first half of the full statement, no longer partial): whenever the
   conversion of a tree with an element root succeeds and the output is shorter than 2^32 octets (so that no OPAQUE or
   table length wraps), the bytes are Spec.serialize of an abstract document that is Spec.strict_doc (table NUL-terminated,
   every STR_T / LITERAL / public-id index is the first octet of a table entry, no switchPage before an extension).
   abs_node5 (Proofs/EncWbxmlAbs5.v) follows ALL branches of the encoder: SI / EMN %Datetime attributes and the OTA icon
   (OPAQUE), Wireless-Village integers / dates (OPAQUE or inline) and extension tokens (EXT_T_0), DRMREL key values
   (OPAQUE), the SyncML MIME rewrite, the generic splitting against value tokens and string table, binary-flagged
   elements (OPAQUE), CDATA sections (one OPAQUE with the collected text), embedded trees (one OPAQUE holding the
   embedded document), literal tags / attributes.  Hypotheses: token tags of the tree and of the language's tag table are
   0 or 5..63 (true of every table: C06_all_tables_have_wellformed_tag_tokens), nothing else. *)
Theorem C06_output_is_serialize_of_strict_doc : forall tbl l o tag attrs ch bs,
  let e := enc_env l o in
  tag_tbl_ok e = true -> frag5_node (NElt tag attrs ch) = true ->
  enc_wbxml tbl l o [NElt tag attrs ch] = EOk bs -> len bs < 4294967296 ->
  exists body st' root,
    enc_body tbl l o [NElt tag attrs ch] = EOk (body, st') /\
    abs_node5 tbl e None (NElt tag attrs ch) (start_state e [NElt tag attrs ch]) = Some ([root], st') /\
    bs = Spec.serialize (abs_doc2 e st' root) /\ Spec.strict_doc (abs_doc2 e st' root) = true.
Proof. exact enc_wbxml_full. Qed.
Print Assumptions C06_output_is_serialize_of_strict_doc.

Theorem C06_all_tables_have_wellformed_tag_tokens : forall o,
  forallb (fun l => tag_tbl_ok (enc_env l o)) main_btable = true.
Proof. exact all_tables_tag_ok. Qed.
Print Assumptions C06_all_tables_have_wellformed_tag_tokens.

(* TYPED VALUES, first class: the languages WITHOUT TYPED CONTENT — the plain ones plus SI 1.0 and EMN 1.0, whose %Datetime
   attributes (SI created / si-expires, EMN timestamp) the encoder writes as an OPAQUE holding the BCD digits of the value
   with the trailing zero octets removed, and the decoder prints as ISO 8601 text.  The decoded events are the events of
   the normalised tree (events5: names, attributes in order, text; byte arrays of binary-flagged elements as they are)
   in which the value of every %Datetime attribute is replaced by canon_dt (value) = Spec.spec_datetime (payload of the
   value): "typed date-time values are compared by the instant they denote".  canon_dt is a normal form
   (C06_canon_datetime_idempotent), e.g. "1999-06-25" and "1999-06-25T00:00:00Z" both become "1999-06-25T00:00:00Z"
   (examples below).  Everything else as in the _binary_partial theorem (string table on / off, literal names, byte
   arrays), modulo merge_chars on text.
   Hypotheses: class5 (not WV, DRMREL, SyncML, OTA settings), tree_ok5 with aok_dt (attributes as attr_ok3; a %Datetime
   attribute has a value on which canon_dt is defined, i.e. 4 to 7 BCD octets after packing, or none) and tok_plain.
   Proof: ONE tree induction for any class (Proofs/EncWbxmlDenote5.v: all_node_den5, over the total abstraction abs_node5
   of the full grammar theorem), instantiated with the attribute and text lemmas of this class. *)
Theorem C06_strict_decoding_yields_normalised_source_typed_datetime_partial : forall tblb TBL L o tag attrs ch bs,
  let e := enc_env (to_blang L) o in
  class5 e = true -> vals_ok L = true -> l_exts L = None -> tag_tbl_ok e = true ->
  tree_ok5 L (aok_dt L) tok_plain 0 true None (NElt tag attrs ch) = true ->
  find (fun x => l_id x =? l_id L) TBL = Some L ->
  o_version o < 4 -> header_public_id e < 4294967296 -> header_public_id e <> 0 ->
  (match header_pid e with Some p => okb p = true | None => True end) ->
  len bs < 4294967296 ->
  enc_wbxml tblb (to_blang L) o [NElt tag attrs ch] = EOk bs ->
  exists d evs, bs = Spec.serialize d /\ Spec.strict_doc d = true /\
            Spec.denote_with TBL (Some L) d = Some evs /\ Spec.decode_lang TBL (l_id L) bs = Some evs /\
            merge_chars evs = merge_chars (doc_events5 L e (o_keep_ws o) (NElt tag attrs ch)).
Proof. exact strict_decode_of_encoding5. Qed.
Print Assumptions C06_strict_decoding_yields_normalised_source_typed_datetime_partial.

(* canon_dt is a normal form: the canonical text of a value is its own canonical text *)
Theorem C06_canon_datetime_idempotent : forall v o, canon_dt v = Some o -> canon_dt o = Some o.
Proof. exact canon_dt_idem. Qed.
Print Assumptions C06_canon_datetime_idempotent.

(* where it matters: a date without time, a date-time whose time is all zeros (the zero octets are not written), a
   canonical text; and a value that is no date-time for the decoder (fewer than 4 octets) *)
Example C06_canon_datetime_examples :
  canon_dt (Parser.B "1999-06-25") = Some (Parser.B "1999-06-25T00:00:00Z") /\
  canon_dt (Parser.B "1999-06-25T00:00:00Z") = Some (Parser.B "1999-06-25T00:00:00Z") /\
  dt_payload (Parser.B "1999-06-25T00:00:00Z") = Some [25; 153; 6; 37] /\
  canon_dt (Parser.B "1999-04-30T06:40:00Z") = Some (Parser.B "1999-04-30T06:40:00Z") /\
  canon_dt (Parser.B "19990430T0640") = Some (Parser.B "1999-04-30T06:40:00Z") /\
  canon_dt (Parser.B "1999") = None.
Proof. repeat split; vm_compute; reflexivity. Qed.

(* an SI document: created="1999-06-25" is written 0A C3 04 19 99 06 25 and decoded as "1999-06-25T00:00:00Z" *)
Example C06_si_datetime_example :
  let L := mk_lang 1301 5 None None None (Some [mk_tag "si"%string 0 5 0]) None
                   (Some [mk_attr "created"%string None 0 10; mk_attr "class"%string None 0 17]) None None in
  let o := mk_opts 3 false false false in
  let t := NElt (TagTok 0 5 0 (Parser.B "si")) [mk_at (AttrTok 0 10 (Parser.B "created") None) (Parser.B "1999-06-25");
                                                  mk_at (AttrTok 0 17 (Parser.B "class") None) (Parser.B "x")] [] in
  class5 (enc_env (to_blang L) o) = true /\ tag_tbl_ok (enc_env (to_blang L) o) = true /\
  tree_ok5 L (aok_dt L) tok_plain 0 true None t = true /\
  enc_wbxml [] (to_blang L) o [t] = EOk [3; 5; 106; 0; 133; 10; 195; 4; 25; 153; 6; 37; 17; 3; 120; 0; 1] /\
  Spec.decode_lang [L] 1301 [3; 5; 106; 0; 133; 10; 195; 4; 25; 153; 6; 37; 17; 3; 120; 0; 1]
    = Some (doc_events5 L (enc_env (to_blang L) o) false t) /\
  doc_events5 L (enc_env (to_blang L) o) false t
    = [Parser.EvStartDoc 106 1301;
       Parser.EvStartElt (Parser.TagTok 0 5 (Parser.B "si")) [(Parser.AttrTok 0 10 (Parser.B "created"), Parser.B "1999-06-25T00:00:00Z");
                                                               (Parser.AttrTok 0 17 (Parser.B "class"), Parser.B "x")];
       Parser.EvEndElt (Parser.TagTok 0 5 (Parser.B "si")); Parser.EvEndDoc].
Proof. cbv zeta. repeat split; vm_compute; reflexivity. Qed.

(* TYPED VALUES, second class: WIRELESS VILLAGE (WV CSP 1.1 / 1.2), typed CONTENT.  The text that is the FIRST child of an
   element the encoder's switch classifies as integer / date-and-time is written as OPAQUE (minimal big-endian integer
   of atol / strtol(16); six packed octets) and printed by the decoder in canonical form: the decoded text is
   canon_wv_int (text) = Spec.spec_wv_integer (payload) ("0200" -> "200", "0x10" -> "16", " 7" -> "7") resp.
   canon_wv_date (text) ("20011019T095031" -> "20011019T095031Z"); a date-time containing '-', '+', ':' or ending in 'Z'
   is written inline as it is.  A text that is the name of an extension token is written as EXT_T_0 and printed as that
   name (exts_ok: the row is found again under its 8-bit token).  All other text is ordinary (string table, merge_chars).
   The encoder's switch is INCLUDED in the decoder's lists of typed elements (wv_switch_spec: the decoder knows three more
   integer elements, which the encoder writes as text - harmless, the typed rule only applies to OPAQUE).
   PARTIAL: elements carry no attributes in this instance (aok_none); element and text nodes only. *)
Theorem C06_strict_decoding_yields_normalised_source_typed_wv_partial : forall tblb TBL L o tag attrs ch bs,
  let e := enc_env (to_blang L) o in
  is_wv (e_lang e) = true -> exts_ok L = true -> tag_tbl_ok e = true ->
  tree_ok5 L aok_none (tok_wv (o_keep_ws o)) 0 true None (NElt tag attrs ch) = true ->
  find (fun x => l_id x =? l_id L) TBL = Some L ->
  o_version o < 4 -> header_public_id e < 4294967296 -> header_public_id e <> 0 ->
  (match header_pid e with Some p => okb p = true | None => True end) ->
  len bs < 4294967296 ->
  enc_wbxml tblb (to_blang L) o [NElt tag attrs ch] = EOk bs ->
  exists d evs, bs = Spec.serialize d /\ Spec.strict_doc d = true /\
            Spec.denote_with TBL (Some L) d = Some evs /\ Spec.decode_lang TBL (l_id L) bs = Some evs /\
            merge_chars evs = merge_chars (doc_events_wv L e (o_keep_ws o) (NElt tag attrs ch)).
Proof. exact strict_decode_of_encoding_wv. Qed.
Print Assumptions C06_strict_decoding_yields_normalised_source_typed_wv_partial.

Theorem C06_wv_encoder_switch_within_decoder_lists : forall p t,
  ((wv_data_type p t =? 2) = true -> Spec.pair_in (p, t) Spec.wv_int_elts = true) /\
  ((wv_data_type p t =? 3) = true -> Spec.pair_in (p, t) Spec.wv_date_elts = true /\ Spec.pair_in (p, t) Spec.wv_int_elts = false).
Proof. exact wv_switch_spec. Qed.
Print Assumptions C06_wv_encoder_switch_within_decoder_lists.

(* where it matters: <R><C>0200</C><D>20011019T095031</D></R> with C an integer element (page 0, token 0x0B) and D a
   date element (page 0, token 0x11): decoded as "200" and "20011019T095031Z" *)
Example C06_wv_typed_content_example :
  let L := mk_lang 2301 16 None None None (Some [mk_tag "R"%string 0 5 0; mk_tag "C"%string 0 11 0; mk_tag "D"%string 0 17 0]) None None None (Some []) in
  let o := mk_opts 1 false false false in
  let t := NElt (TagTok 0 5 0 (Parser.B "R")) []
                [NElt (TagTok 0 11 0 (Parser.B "C")) [] [NText (Parser.B "0200")];
                 NElt (TagTok 0 17 0 (Parser.B "D")) [] [NText (Parser.B "20011019T095031")]] in
  is_wv (to_blang L) = true /\ exts_ok L = true /\ tree_ok5 L aok_none (tok_wv false) 0 true None t = true /\
  canon_wv_int (Parser.B "0200") = Some (Parser.B "200") /\ canon_wv_int (Parser.B "0x10") = Some (Parser.B "16") /\
  exists bs, enc_wbxml [] (to_blang L) o [t] = EOk bs /\
    Spec.decode_lang [L] 2301 bs = Some (doc_events_wv L (enc_env (to_blang L) o) false t) /\
    doc_events_wv L (enc_env (to_blang L) o) false t
      = [Parser.EvStartDoc 106 2301; Parser.EvStartElt (Parser.TagTok 0 5 (Parser.B "R")) [];
         Parser.EvStartElt (Parser.TagTok 0 11 (Parser.B "C")) []; Parser.EvChars (Parser.B "200"); Parser.EvEndElt (Parser.TagTok 0 11 (Parser.B "C"));
         Parser.EvStartElt (Parser.TagTok 0 17 (Parser.B "D")) []; Parser.EvChars (Parser.B "20011019T095031Z"); Parser.EvEndElt (Parser.TagTok 0 17 (Parser.B "D"));
         Parser.EvEndElt (Parser.TagTok 0 5 (Parser.B "R")); Parser.EvEndDoc].
Proof.
  cbv zeta. split; [vm_compute; reflexivity|]. split; [vm_compute; reflexivity|]. split; [vm_compute; reflexivity|].
  split; [vm_compute; reflexivity|]. split; [vm_compute; reflexivity|].
  eexists. split; [vm_compute; reflexivity|]. split; vm_compute; reflexivity.
Qed.

(* (d) EMBEDDED TREES, grammar level: the item that stands for an embedded tree (SyncML <Data> holding a DevInf / DM DDF
   document) is ONE OPAQUE whose octets are the output of the same encoder on the embedded tree with the embedded language
   (same version / string-table / white-space options, never anonymous: embedded_opts), and that output — when shorter
   than 2^32 octets — is itself Spec.serialize of a strict document with its own header and string table. *)
Theorem C06_embedded_document_is_strict_serialization : forall tbl e par lid l' tag attrs ch st items st',
  e_ignore_empty e = e_remove_blanks e -> find_lang tbl lid = Some l' ->
  tag_tbl_ok (enc_env l' (embedded_opts e)) = true -> frag5_node (NElt tag attrs ch) = true ->
  abs_node5 tbl e par (NTree lid [NElt tag attrs ch]) st = Some (items, st') ->
  exists doc, items = [Spec.WItemStr (Spec.WOpaque doc)] /\ enc_wbxml tbl l' (embedded_opts e) [NElt tag attrs ch] = EOk doc /\
    (len doc < 4294967296 -> exists d', doc = Spec.serialize d' /\ Spec.strict_doc d' = true).
Proof. exact embedded_tree_is_document. Qed.
Print Assumptions C06_embedded_document_is_strict_serialization.

(* ===================================================================================================================== *)
(* THE UNION (round 7): ONE statement for every language.  The language selects its class (class_of): Wireless Village,
   DRMREL, SyncML, OTA settings, or "all others" (SI and EMN included).  The fragment predicate tree_ok6 is the disjunction
   of everything proved:
     elements   token tags that are rows of L (5..63) or literal names unknown to L; depth <= 1000;
     attributes aok_u: rows of L whose value prefix (if any) starts the value, or literal names; %Datetime attributes (SI, EMN)
                with a value on which canon_dt is defined; the OTA icon VALUE with a non-empty base64 payload;
     text       tok_u: octets 1..255; byte arrays of binary-flagged elements any octets < 256; Wireless-Village first-child
                text of integer / date elements with a defined canonical form; DRMREL <ds:KeyValue> as first child with a
                non-empty payload;
     CDATA      sections with text children, in a token element that is not binary-flagged and has no typed-content rule
                (cok_plain): ONE OPAQUE with the text exactly (in SyncML a text that is exactly LF becomes CR LF);
     embedded   trees in such an element (eok_plain): ONE OPAQUE with the embedded document's octets (emb_doc).
   Conclusion: bytes = serialize d, strict d, Spec.decode_lang bytes = evs, and evs = doc_events6 modulo merge_chars, where
   the events carry the CANONICAL forms: canon_dt (idempotent), canon_wv_int (idempotent), canon_wv_date, canon_b64
   (idempotent), mime_of in MetInf <Type> (idempotent), the CR LF rule (idempotent).
   STILL EXCLUDED, precisely: token-named attributes whose value does not start with the row's prefix (only API-built
   trees have them; the encoder writes a literal), NUL in non-binary text and in names, PIs (the encoder refuses them),
   CDATA / embedded trees under literal, binary-flagged or typed elements, Wireless-Village / DRMREL typed text that is not
   the first child (the decoder's rule for such an OPAQUE is outside the specification), canon_wv_date idempotence. *)
Theorem C06_strict_decoding_yields_normalised_source : forall tblb TBL L o tag attrs ch bs,
  let e := enc_env (to_blang L) o in
  vals_ok L = true -> side_u L = true -> tag_tbl_ok e = true ->
  tree_ok6 L (aok_u L) (tok_u L (o_keep_ws o)) (cok_plain L) (eok_plain tblb e L) (is_syncml (e_lang e)) 0 true None (NElt tag attrs ch) = true ->
  find (fun x => l_id x =? l_id L) TBL = Some L ->
  o_version o < 4 -> header_public_id e < 4294967296 -> header_public_id e <> 0 ->
  (match header_pid e with Some p => okb p = true | None => True end) ->
  len bs < 4294967296 ->
  enc_wbxml tblb (to_blang L) o [NElt tag attrs ch] = EOk bs ->
  exists d evs, bs = Spec.serialize d /\ Spec.strict_doc d = true /\
            Spec.denote_with TBL (Some L) d = Some evs /\ Spec.decode_lang TBL (l_id L) bs = Some evs /\
            merge_chars evs = merge_chars (doc_events6 tblb L e (acan_u L) (tev_u L e (o_keep_ws o)) (NElt tag attrs ch)).
Proof. exact strict_decode_union. Qed.
Print Assumptions C06_strict_decoding_yields_normalised_source.

(* (b) the octets reported for an embedded tree decode, with the embedded language, to the events of the embedded tree *)
Theorem C06_embedded_document_decodes_to_embedded_tree : forall tblb TBL (e : env) lid L' tag attrs ch,
  e_ignore_empty e = e_remove_blanks e ->
  find_lang tblb lid = Some (to_blang L') ->
  let o' := embedded_opts e in let e' := enc_env (to_blang L') o' in
  vals_ok L' = true -> side_u L' = true -> tag_tbl_ok e' = true ->
  tree_ok6 L' (aok_u L') (tok_u L' (o_keep_ws o')) (cok_plain L') (eok_plain tblb e' L') (is_syncml (e_lang e')) 0 true None (NElt tag attrs ch) = true ->
  find (fun x => l_id x =? l_id L') TBL = Some L' ->
  e_version e < 4 -> header_public_id e' < 4294967296 -> header_public_id e' <> 0 ->
  (match header_pid e' with Some p => okb p = true | None => True end) ->
  emb_doc tblb e lid [NElt tag attrs ch] <> [] -> len (emb_doc tblb e lid [NElt tag attrs ch]) < 4294967296 ->
  exists d' evs, emb_doc tblb e lid [NElt tag attrs ch] = Spec.serialize d' /\ Spec.strict_doc d' = true /\
     Spec.decode_lang TBL (l_id L') (emb_doc tblb e lid [NElt tag attrs ch]) = Some evs /\
     merge_chars evs = merge_chars (doc_events6 tblb L' e' (acan_u L') (tev_u L' e' (o_keep_ws o')) (NElt tag attrs ch)).
Proof. exact embedded_doc_decodes. Qed.
Print Assumptions C06_embedded_document_decodes_to_embedded_tree.

(* the canonical forms are normal forms *)
Theorem C06_canon_syncml_mime_idempotent : forall e par buf, mime_of e par (mime_of e par buf) = mime_of e par buf.
Proof. exact mime_of_idem. Qed.
Print Assumptions C06_canon_syncml_mime_idempotent.
Theorem C06_canon_cdata_crlf_idempotent : forall sy c, cdata_piece sy (NText (cdata_piece sy (NText c))) = cdata_piece sy (NText c).
Proof. exact cdata_piece_idem. Qed.
Print Assumptions C06_canon_cdata_crlf_idempotent.
Theorem C06_canon_wv_integer_idempotent : forall v o, canon_wv_int v = Some o -> canon_wv_int o = Some o.
Proof. exact canon_wv_int_idem. Qed.
Print Assumptions C06_canon_wv_integer_idempotent.
Theorem C06_canon_base64_idempotent : forall v, canon_b64 (canon_b64 v) = canon_b64 v.
Proof. exact canon_b64_idem. Qed.
Print Assumptions C06_canon_base64_idempotent.

(* SyncML: <S><Type>application/vnd.syncml-devinf+xml</Type><Data><![CDATA[LF]]></Data></S> (Type on page 1) is decoded as
   ...devinf+wbxml and CR LF *)
Example C06_syncml_example :
  let L := mk_lang 2201 4050 None None None (Some [mk_tag "S"%string 0 5 0; mk_tag "Data"%string 0 15 0; mk_tag "Type"%string 1 19 0]) None None None None in
  let o := mk_opts 2 false false false in
  let t := NElt (TagTok 0 5 0 (Parser.B "S")) []
                [NElt (TagTok 1 19 0 (Parser.B "Type")) [] [NText (Parser.B "application/vnd.syncml-devinf+xml")];
                 NElt (TagTok 0 15 0 (Parser.B "Data")) [] [NCData [NText [10]]]] in
  let e := enc_env (to_blang L) o in
  side_u L = true /\ tag_tbl_ok e = true /\
  tree_ok6 L (aok_u L) (tok_u L false) (cok_plain L) (eok_plain [] e L) (is_syncml (e_lang e)) 0 true None t = true /\
  exists bs, enc_wbxml [] (to_blang L) o [t] = EOk bs /\
    Spec.decode_lang [L] 2201 bs = Some (doc_events6 [] L e (acan_u L) (tev_u L e false) t) /\
    doc_events6 [] L e (acan_u L) (tev_u L e false) t
      = [Parser.EvStartDoc 106 2201; Parser.EvStartElt (Parser.TagTok 0 5 (Parser.B "S")) [];
         Parser.EvStartElt (Parser.TagTok 1 19 (Parser.B "Type")) []; Parser.EvChars (Parser.B "application/vnd.syncml-devinf+wbxml");
         Parser.EvEndElt (Parser.TagTok 1 19 (Parser.B "Type"));
         Parser.EvStartElt (Parser.TagTok 0 15 (Parser.B "Data")) []; Parser.EvChars [13; 10]; Parser.EvEndElt (Parser.TagTok 0 15 (Parser.B "Data"));
         Parser.EvEndElt (Parser.TagTok 0 5 (Parser.B "S")); Parser.EvEndDoc].
Proof.
  cbv zeta. split; [vm_compute; reflexivity|]. split; [vm_compute; reflexivity|]. split; [vm_compute; reflexivity|].
  eexists. split; [vm_compute; reflexivity|]. split; vm_compute; reflexivity.
Qed.

(* the union theorem with the PUBLIC-ID FIELD of the abstract document exported (unforced reading, embedded documents):
   no textual id: the numeric id header_public_id; textual id p: an index into the table written that resolves to p *)
Theorem C06_encoder_public_id_field_union : forall tblb TBL L o tag attrs ch bs,
  let e := enc_env (to_blang L) o in
  vals_ok L = true -> side_u L = true -> tag_tbl_ok e = true ->
  tree_ok6 L (aok_u L) (tok_u L (o_keep_ws o)) (cok_plain L) (eok_plain tblb e L) (is_syncml (e_lang e)) 0 true None (NElt tag attrs ch) = true ->
  find (fun x => l_id x =? l_id L) TBL = Some L ->
  o_version o < 4 -> header_public_id e < 4294967296 -> header_public_id e <> 0 ->
  (match header_pid e with Some p => okb p = true | None => True end) ->
  len bs < 4294967296 ->
  enc_wbxml tblb (to_blang L) o [NElt tag attrs ch] = EOk bs ->
  exists d evs, bs = Spec.serialize d /\ Spec.strict_doc d = true /\
            Spec.denote_with TBL (Some L) d = Some evs /\ Spec.decode_lang TBL (l_id L) bs = Some evs /\
            merge_chars evs = merge_chars (doc_events6 tblb L e (acan_u L) (tev_u L e (o_keep_ws o)) (NElt tag attrs ch))
            /\ match header_pid e with
               | None => Spec.wd_pub d = Spec.PubNum (header_public_id e)
               | Some p => exists i, Spec.wd_pub d = Spec.PubIdx i /\ Spec.str_at (Spec.wd_strtbl d) i = Some p
               end.
Proof. exact strict_decode_of_encoding6_pub. Qed.
Print Assumptions C06_encoder_public_id_field_union.

(* ---- wbxml_encoder_set_text_public_id ("generate textual Public ID instead of token") -------------------------------------
   The option is read at one place (wbxml_fill_header) and the language's numeric public id nowhere else, so the encoder
   with the option set IS the encoder run on the language with its numeric id replaced by 'unknown'
   (Model/EncWbxmlTextPid.v; tied to the C on every run: the harness sets the option on a real encoder).  Hence every
   theorem of this file, all of them stated for an arbitrary language record, holds with the option set; the grammar
   theorem is restated here.  The option changes nothing for a language without XML public identifier or whose numeric id is
   'unknown' already, and otherwise the header carries  version, 0x00, mb_u_int32(index into the string table). *)
Theorem C06_text_public_id_output_is_serialize_of_strict_doc : forall tbl l o tag attrs ch bs,
  let e := enc_env (with_text_pubid l) o in
  tag_tbl_ok (enc_env l o) = true -> frag5_node (NElt tag attrs ch) = true ->
  enc_wbxml_textpid tbl l o [NElt tag attrs ch] = EOk bs -> len bs < 4294967296 ->
  exists body st' root,
    enc_body tbl (with_text_pubid l) o [NElt tag attrs ch] = EOk (body, st') /\
    abs_node5 tbl e None (NElt tag attrs ch) (start_state e [NElt tag attrs ch]) = Some ([root], st') /\
    bs = Spec.serialize (abs_doc2 e st' root) /\ Spec.strict_doc (abs_doc2 e st' root) = true.
Proof.
  intros tbl l o tag attrs ch bs e Ht Hf He Hl. apply (enc_wbxml_full tbl (with_text_pubid l) o tag attrs ch bs); auto.
  rewrite tag_tbl_ok_textpid. exact Ht.
Qed.
Print Assumptions C06_text_public_id_output_is_serialize_of_strict_doc.

Theorem C06_text_public_id_changes_only_the_numeric_id : forall l,
  bl_id (with_text_pubid l) = bl_id l /\ bl_pub_text (with_text_pubid l) = bl_pub_text l /\
  bl_tags (with_text_pubid l) = bl_tags l /\ bl_attrs (with_text_pubid l) = bl_attrs l /\
  bl_vals (with_text_pubid l) = bl_vals l /\ bl_exts (with_text_pubid l) = bl_exts l.
Proof. exact with_text_pubid_fields. Qed.
Print Assumptions C06_text_public_id_changes_only_the_numeric_id.

Theorem C06_text_public_id_no_effect : forall tbl l o roots,
  bl_pub_text l = None \/ bl_pub_num l = 1%N -> enc_wbxml_textpid tbl l o roots = enc_wbxml tbl l o roots.
Proof. intros tbl l o roots [H|H]; [apply textpid_no_text|apply textpid_unknown]; exact H. Qed.
Print Assumptions C06_text_public_id_no_effect.

Theorem C06_text_public_id_header_form : forall l o st p,
  bl_pub_text l = Some p -> o_anonymous o = false ->
  exists idx rest, fill_header (enc_env (with_text_pubid l) o) st = (u8 (o_version o) :: 0 :: mb_write idx ++ rest)%N.
Proof. exact textpid_header_form. Qed.
Print Assumptions C06_text_public_id_header_form.
