(* C16 — Running out of memory yields a clean error, never a crash or a leak.
   Statements only.  PROVED PART: the allocation choke points transcribed at the pointer / ownership level in
   Model/Alloc.v (a heap with live / freed sets and a failure oracle consumed one answer per request).  Each positive
   theorem quantifies over EVERY oracle (any set of refused requests; `single k` = exactly the k-th).  Where the code
   as it is (or as it was pinned) violates the property, the theorem is `…_refuted` with the failing request as
   witness, and the theorem for the repaired transcription (`…_fixed`) follows it.
   The remaining unwinding code is covered by exhaustive single-fault ENUMERATION (harness/c16_harness.c) — that is
   exploration, not a theorem; its traces are judged by the extracted `trace_ok`, proved sound and complete below. *)
From Coq Require Import List NArith Bool String.
From Wbxml Require Import Model.Alloc Model.AllocParserTree Model.AllocClasses Gen.AllocSites Proofs.AllocProofs Proofs.AllocInduction
  Proofs.AllocParserTreeProofs.
Import ListNotations.
Local Open Scope N_scope.

(* ---- every allocation call site of the current sources is either modelled or in the enumerated class ---- *)
Theorem C16_alloc_sites_covered : sites_covered alloc_site_counts = true.
Proof. vm_compute. reflexivity. Qed.
Print Assumptions C16_alloc_sites_covered.

(* ---- buffers ---- *)
Theorem C16_buffer_create : forall ne, creates buf_blocks [] (fun o => buffer_create (heap0 o) ne).
Proof. exact buffer_create_ok. Qed.
Print Assumptions C16_buffer_create.
Theorem C16_buffer_duplicate : creates buf_blocks [1; 2] (fun o => buffer_duplicate (heap_buf o) (Some a_buffer)).
Proof. exact buffer_duplicate_ok. Qed.
Print Assumptions C16_buffer_duplicate.
(* grow_buff / insert_data as they are: a refused realloc loses the old bytes (D15b) *)
Theorem C16_grow_buff_refuted :
  exists k, let '(h, b, ok) := grow_buff (heap_buf (single k)) a_buffer true in
    ok = false /\ b_data b = None /\ leaked (buffer_destroy h (Some b)) [] = [2].
Proof. exact grow_buff_refuted. Qed.
Print Assumptions C16_grow_buff_refuted.
Theorem C16_insert_data_fixed : forall fails room,
  let '(h, b, ok) := insert_data_fixed (heap_buf fails) a_buffer room in
  clean h /\ all_live h (buf_blocks b) = true /\ leaked h (buf_blocks b) = [] /\
  (ok = false -> b = a_buffer) /\
  clean (buffer_destroy h (Some b)) /\ h_live (buffer_destroy h (Some b)) = [].
Proof. exact insert_data_fixed_ok. Qed.
Print Assumptions C16_insert_data_fixed.

(* ---- lists ---- *)
Theorem C16_list_create : creates (list_blocks (fun _ : N => [])) [] (fun o => @list_create N (heap0 o)).
Proof. exact list_create_ok. Qed.
Print Assumptions C16_list_create.
Theorem C16_list_append : forall fails,
  let '(h, l, ok) := list_append (heap_list fails) a_list 4 in
  clean h /\ all_live h [1; 2; 3; 4] = true /\
  (if ok then l = snd (fst (list_append (heap_list nofail) a_list 4)) else l = a_list) /\
  leaked h (4 :: list_blocks (fun i => [i]) l) = [].
Proof. exact list_append_ok. Qed.
Print Assumptions C16_list_append.
Theorem C16_list_insert : forall fails pos, (pos <= 2)%nat ->
  let '(h, l, ok) := list_insert (heap_list fails) a_list 4 pos in
  clean h /\ all_live h [1; 2; 3; 4] = true /\
  (if ok then l = snd (fst (list_insert (heap_list nofail) a_list 4 pos)) else l = a_list) /\
  leaked h (4 :: list_blocks (fun i => [i]) l) = [].
Proof. exact list_insert_ok. Qed.
Print Assumptions C16_list_insert.
(* bounded: lists of 0, 1 and 3 buffers (no allocation is involved in destroying) *)
Theorem C16_list_destroy_upto3_partial :
  let run (l : wlist buffer) (live : list N) := list_destroy buf_item_destroy (heap_with [] live 20) (Some l) in
  (clean (run (mkList 1 []) [1]) /\ h_live (run (mkList 1 []) [1]) = []) /\
  (clean (run (mkList 1 [(2, mkBuf 3 (Some 4))]) [1; 2; 3; 4]) /\ h_live (run (mkList 1 [(2, mkBuf 3 (Some 4))]) [1; 2; 3; 4]) = []) /\
  (let l := mkList 1 [(2, mkBuf 3 (Some 4)); (5, mkBuf 6 None); (7, mkBuf 8 (Some 9))] in
   clean (run l [1; 2; 3; 4; 5; 6; 7; 8; 9]) /\ h_live (run l [1; 2; 3; 4; 5; 6; 7; 8; 9]) = []).
Proof. exact list_destroy_upto3. Qed.
Print Assumptions C16_list_destroy_upto3_partial.

(* ALL lengths, ARBITRARY heap: a list of buffers whose blocks are distinct and live is released completely, once,
   and nothing else is touched *)
Theorem C16_list_destroy_all : forall (l : wlist buffer) h,
  clean h ->
  NoDup (elts_release_order (l_elts l) ++ [l_blk l]) -> incl (elts_release_order (l_elts l) ++ [l_blk l]) (h_live h) ->
  clean (list_destroy buf_item_destroy h (Some l)) /\
  forall x, In x (h_live (list_destroy buf_item_destroy h (Some l))) <->
            In x (h_live h) /\ ~ In x (elts_release_order (l_elts l) ++ [l_blk l]).
Proof. exact list_destroy_all. Qed.
Print Assumptions C16_list_destroy_all.

(* ---- tags, attribute names, attributes ---- *)
Theorem C16_named_create_literal : creates named_blocks [] (fun o => named_create_literal (heap0 o)).
Proof. exact named_create_literal_ok. Qed.
Print Assumptions C16_named_create_literal.
(* wbxml_tag_duplicate / wbxml_attribute_name_duplicate as they are: a copy without its name, reported as success *)
Theorem C16_named_duplicate_refuted :
  exists k t, snd (named_duplicate (heap_named (single k)) (Some a_named)) = Some t /\ n_name t = None /\
    Some t <> snd (named_duplicate (heap_named nofail) (Some a_named)).
Proof. exact named_duplicate_refuted. Qed.
Print Assumptions C16_named_duplicate_refuted.
Theorem C16_named_duplicate_fixed : creates named_blocks [1; 2; 3] (fun o => named_duplicate_fixed (heap_named o) (Some a_named)).
Proof. exact named_duplicate_fixed_ok. Qed.
Print Assumptions C16_named_duplicate_fixed.
Theorem C16_attribute_create : creates attr_blocks [] (fun o => attribute_create (heap0 o)).
Proof. exact attribute_create_ok. Qed.
Print Assumptions C16_attribute_create.
Theorem C16_attribute_duplicate_refuted :
  exists k a, snd (attribute_duplicate (heap_attr (single k)) (Some an_attr)) = Some a /\ a_value a = None /\
    Some a <> snd (attribute_duplicate (heap_attr nofail) (Some an_attr)).
Proof. exact attribute_duplicate_refuted. Qed.
Print Assumptions C16_attribute_duplicate_refuted.
Theorem C16_attribute_duplicate_fixed :
  creates attr_blocks [1; 2; 3; 4; 5; 6] (fun o => attribute_duplicate_fixed (heap_attr o) (Some an_attr)).
Proof. exact attribute_duplicate_fixed_ok. Qed.
Print Assumptions C16_attribute_duplicate_fixed.

(* ---- wbxml_tree_node_add_attr: frees the caller's attribute on a failed append ---- *)
Theorem C16_add_attr_refuted :
  exists k, let '(h, _, st) := add_attr (heap_attr (single k)) None an_attr in
    st = ERR /\ all_live h (attr_blocks an_attr) = false /\
    h_bad (attribute_destroy h (Some an_attr)) <> [] /\ leaked h [7] <> [].
Proof. exact add_attr_refuted. Qed.
Print Assumptions C16_add_attr_refuted.
Theorem C16_add_attr_fixed : forall fails,
  let '(h, l, st) := add_attr_fixed (heap_attr fails) None an_attr in
  clean h /\ all_live h (attr_blocks an_attr) = true /\
  match st with
  | ERR => leaked h (attr_blocks an_attr ++ match l with Some l => [l_blk l] | None => [] end) = [] /\
           match l with Some l => l_elts l = [] | None => True end
  | OK => l = snd (fst (add_attr_fixed (heap_attr nofail) None an_attr)) /\
          match l with Some l => leaked h (attr_blocks an_attr ++ list_blocks attr_blocks l) = [] | None => False end
  end.
Proof. exact add_attr_fixed_ok. Qed.
Print Assumptions C16_add_attr_fixed.

(* ---- parse_element: the attribute table ---- *)
Theorem C16_parse_element_attrs_refuted :
  exists k, let '(h, r, st) := attrs_loop false 2 (heap_with (single k) [1] 2) 1 None [] in
    st = ERR /\ r = None /\ clean h /\ leaked h [] = [3; 2].
Proof. exact parse_element_attrs_refuted. Qed.
Print Assumptions C16_parse_element_attrs_refuted.
(* bounded in the number of attributes (0..3), every oracle *)
Theorem C16_parse_element_attrs_fixed_upto3_partial : forall fails n, (n <= 3)%nat ->
  let '(h, r, st) := attrs_loop true n (heap_with fails [1] 2) 1 None [] in
  clean h /\
  match st, r with
  | ERR, None => h_live h = []
  | OK, Some (t, es) => leaked h (1 :: t :: es) = [] /\ all_live h (1 :: t :: es) = true /\ List.length es = n
  | OK, None => n = 0%nat /\ h_live h = [1]
  | ERR, Some _ => False
  end.
Proof. exact parse_element_attrs_fixed_upto3. Qed.
Print Assumptions C16_parse_element_attrs_fixed_upto3_partial.

(* ANY number of attributes, ARBITRARY heap (oracle included: it is a field of the heap), by induction: no violation;
   on error nothing of the element / table / attributes remains and the rest of the heap is untouched; on success the
   element, the table and the n new attributes are live and distinct and the rest of the heap is untouched *)
Theorem C16_parse_element_attrs_fixed_all : forall n h element table entries,
  clean h -> fresh h -> (table = None -> entries = []) ->
  NoDup ((element :: []) ++ entries ++ otable table) -> incl ((element :: []) ++ entries ++ otable table) (h_live h) ->
  let '(h', r, st) := attrs_loop true n h element table entries in
  clean h' /\
  match st with
  | ERR => r = None /\ forall x, In x (h_live h') <-> outside h ((element :: []) ++ entries ++ otable table) x
  | OK => let owned' := (element :: []) ++ match r with Some (t, es) => es ++ [t] | None => [] end in
          NoDup owned' /\ incl owned' (h_live h') /\
          (match r with Some (t, es) => List.length es = (List.length entries + n)%nat | None => n = 0%nat /\ table = None end) /\
          forall x, outside h' owned' x <-> outside h ((element :: []) ++ entries ++ otable table) x
  end.
Proof. exact parse_element_attrs_fixed_all. Qed.
Print Assumptions C16_parse_element_attrs_fixed_all.

(* ---- parse_attr_start, LITERAL branch: OK returned after a failed create, the NULL name is then dereferenced ---- *)
Theorem C16_attr_start_literal_refuted :
  exists k, let '(h, nm, st) := attr_start_literal false (heap_buf (single k)) a_buffer in
    st = OK /\ nm = None /\ h_bad (fst (attr_start_literal_then_use false (heap_buf (single k)) a_buffer)) <> [].
Proof. exact attr_start_literal_refuted. Qed.
Print Assumptions C16_attr_start_literal_refuted.
Theorem C16_attr_start_literal_fixed : forall fails,
  let '(h, st) := attr_start_literal_then_use true (heap_buf fails) a_buffer in
  clean h /\ h_live h = [] /\ (st = ERR -> exists k, nth_error fails k = Some true).
Proof. exact attr_start_literal_fixed_ok. Qed.
Print Assumptions C16_attr_start_literal_fixed.

(* ---- the encoder's string-table elements: who owns the buffer (defects D23 and D22, repaired in /repo a4c55c1, dabbfe5) ---- *)
(* old wbxml_encode_tag_literal / wbxml_encode_attr_start_literal: refused append -> name buffer freed twice; and on a
   reset encoder of the pinned code (NULL list) the same without any allocation failure *)
Theorem C16_encode_literal_refuted :
  (exists k, h_bad (fst (fst (encode_literal true (heap_tbl (single k)) (Some a_table) false))) <> []) /\
  h_bad (fst (fst (encode_literal true (heap_tbl nofail) None false))) <> [].
Proof. exact encode_literal_refuted. Qed.
Print Assumptions C16_encode_literal_refuted.
Theorem C16_encode_literal_fixed : forall (fails : list bool) (already tbl_present : bool),
  let tbl := (if tbl_present then Some a_table else None) : option (wlist selt) in
  let '(h, tbl', st) := encode_literal false (heap_tbl fails) tbl already in
  clean h /\ all_live h [1] = true /\
  match st with
  | ERR => leaked h [1] = [] /\ tbl' = tbl
  | OK => match tbl' with Some l => leaked h (list_blocks selt_blocks l) = [] | None => False end
  end.
Proof. exact encode_literal_fixed_ok. Qed.
Print Assumptions C16_encode_literal_fixed.
(* old wbxml_fill_header: the public-id string already in the table (NO allocation failure) -> `pid` freed twice *)
Theorem C16_fill_header_pid_refuted :
  h_bad (fst (fst (fill_header_pid true (heap_tbl nofail) (Some a_table) true))) <> [] /\
  (exists k, h_bad (fst (fst (fill_header_pid true (heap_tbl (single k)) (Some a_table) false))) <> []).
Proof. exact fill_header_pid_refuted. Qed.
Print Assumptions C16_fill_header_pid_refuted.
Theorem C16_fill_header_pid_fixed : forall (fails : list bool) (already tbl_present : bool),
  let tbl := (if tbl_present then Some a_table else None) : option (wlist selt) in
  let '(h, tbl', st) := fill_header_pid false (heap_tbl fails) tbl already in
  clean h /\ all_live h [1] = true /\
  match st with
  | ERR => leaked h [1] = [] /\ tbl' = tbl
  | OK => match tbl' with Some l => leaked h (list_blocks selt_blocks l) = [] | None => False end
  end.
Proof. exact fill_header_pid_fixed_ok. Qed.
Print Assumptions C16_fill_header_pid_fixed.

(* ---- encoder: output buffer cannot be created (pinned code destroyed the encoder twice; repaired in /repo ab95676) ---- *)
Theorem C16_encoder_output_failure_refuted : exists k, h_bad (fst (encoder_run true (heap0 (single k)))) <> [].
Proof. exact encoder_output_failure_refuted. Qed.
Print Assumptions C16_encoder_output_failure_refuted.
Theorem C16_encoder_output_failure_fixed : forall fails,
  let '(h, st) := encoder_run false (heap0 fails) in
  clean h /\ h_live h = [] /\ (st = ERR -> exists k, nth_error fails k = Some true).
Proof. exact encoder_output_failure_fixed_ok. Qed.
Print Assumptions C16_encoder_output_failure_fixed.

(* ====================================================================== *)
(* parser and tree functions (Model/AllocParserTree.v).  exit_ok blocks caller (h, r, st): no violation, the caller's
   blocks live, an ERROR exit has no result and leaves nothing else, a SUCCESS exit has a result whose blocks are
   exactly what is left.  Non-memory failures are boolean inputs, so every exit is quantified over. *)
Theorem C16_parse_string : forall fails inline mb_ok ok, exit_ok buf_blocks [] (parse_string (heap0 fails) inline mb_ok ok).
Proof. exact parse_string_ok. Qed.
Print Assumptions C16_parse_string.
Theorem C16_parse_literal : forall fails mb_ok index_ok, exit_ok buf_blocks [] (parse_literal (heap0 fails) mb_ok index_ok).
Proof. exact parse_literal_ok. Qed.
Print Assumptions C16_parse_literal.
(* parse_stag / parse_tag: the literal name buffer is destroyed on every path, the tag is the only thing left on success *)
Theorem C16_parse_stag : forall fails literal mb_ok index_ok byte_ok known,
  exit_ok named_blocks [] (parse_stag (heap0 fails) literal mb_ok index_ok byte_ok known).
Proof. exact parse_stag_ok. Qed.
Print Assumptions C16_parse_stag.
(* parse_attribute: every exit releases attr_name and attr_value or hands them to *attr; bounded in the number of value pieces *)
Theorem C16_parse_attribute_upto1_partial : forall fails name_ok token_name start_value (pieces : list bool) datetime,
  (List.length pieces <= 1)%nat ->
  exit_ok attr_blocks [] (parse_attribute true (heap0 fails) name_ok token_name start_value pieces datetime).
Proof. exact parse_attribute_ok_upto1. Qed.
Print Assumptions C16_parse_attribute_upto1_partial.
Theorem C16_parse_attribute_two_pieces_partial : forall fails p q datetime,
  exit_ok attr_blocks [] (parse_attribute true (heap0 fails) true true true [p; q] datetime).
Proof. exact parse_attribute_ok_two_pieces. Qed.
Print Assumptions C16_parse_attribute_two_pieces_partial.
(* the statement catches a forgotten release on an error path that needs no allocation failure (the shape of seeded/C01_r22:
   wbxml_attribute_name_destroy(attr_name) dropped where decode_datetime fails) *)
Theorem C16_parse_attribute_name_leak_refuted :
  ~ exit_ok attr_blocks [] (parse_attribute false (heap0 nofail) true true true [] (Some false)) /\
  leaked (fst (fst (parse_attribute false (heap0 nofail) true true true [] (Some false)))) [] = [1].
Proof. exact parse_attribute_name_leak_refuted. Qed.
Print Assumptions C16_parse_attribute_name_leak_refuted.
(* OPAQUE content with typed decoding (the repair of D3, /repo 08a9d63) and the old code *)
Theorem C16_content_opaque : forall fails len_ok decode_ok needs_memory,
  exit_ok buf_blocks [] (content_opaque false (heap0 fails) len_ok decode_ok needs_memory).
Proof. exact content_opaque_ok. Qed.
Print Assumptions C16_content_opaque.
Theorem C16_content_opaque_refuted : leaked (fst (fst (content_opaque true (heap0 nofail) true false false))) [] <> [].
Proof. exact content_opaque_refuted. Qed.
Print Assumptions C16_content_opaque_refuted.
(* the content loop of parse_element: bounded number of content items *)
Theorem C16_element_contents_upto3_partial : forall fails (items : list bool), (List.length items <= 3)%nat ->
  let '(h, st) := element_contents (heap_named fails) a_named items in clean h /\ h_live h = [].
Proof. exact element_contents_ok_upto3. Qed.
Print Assumptions C16_element_contents_upto3_partial.

(* trees *)
Theorem C16_tree_add_node_text_merge : forall fails,
  let '(h, ch, ok) := tree_add_node (heap_texts fails) (Some old_text) new_text true in
  clean h /\
  (if ok then leaked h (flat_map tn_blocks ch) = [] /\ all_live h (flat_map tn_blocks ch) = true /\
              mem 1 (h_live h) = false /\ mem 5 (h_live h) = false /\ mem 6 (h_live h) = false /\ List.length ch = 1%nat
   else ch = [old_text] /\ all_live h [1; 2; 3; 4; 5; 6] = true /\ leaked h [1; 2; 3; 4; 5; 6] = []).
Proof. exact tree_add_node_merge_ok. Qed.
Print Assumptions C16_tree_add_node_text_merge.
Theorem C16_tree_add_text : forall fails (situation : N),
  let '(last, is_text, caller) := if situation =? 0 then (None, false, [])
                                  else if situation =? 1 then (Some old_text, true, [1; 2; 3])
                                  else (Some (TN 1 None None []), false, [1]) in
  let '(h, r) := tree_add_text (heap_with fails caller 7) last is_text in
  clean h /\
  match r with
  | None => leaked h caller = [] /\ all_live h caller = true
  | Some ch => leaked h (flat_map tn_blocks ch) = [] /\ all_live h (flat_map tn_blocks ch) = true
  end.
Proof. exact tree_add_text_ok. Qed.
Print Assumptions C16_tree_add_text.
(* wbxml_tree_add_tree refused => the caller still owns the tree (the shape of seeded/C18_2) *)
Theorem C16_tree_add_tree : forall fails can_add,
  let '(h, r) := tree_add_tree (heap_with fails [1] 2) 1 can_add in
  clean h /\ all_live h [1] = true /\
  match r with
  | None => leaked h [1] = []
  | Some n => leaked h (tn_blocks n) = [] /\ mem 1 (tn_blocks n) = true
  end.
Proof. exact tree_add_tree_ok. Qed.
Print Assumptions C16_tree_add_tree.
(* one concrete sub-tree (3 levels, text, embedded tree): extracted and destroyed, the rest of the heap stays *)
Theorem C16_tree_destroy_all_partial :
  let h := tree_node_destroy_all (heap_with [] [1; 2; 10; 11; 12; 13; 14; 15; 16; 17; 18; 20] 30) a_subtree in
  clean h /\ h_live h = [1; 2; 20] /\ h_bad (tree_node_destroy_all h a_subtree) <> [].
Proof. exact tree_destroy_all_partial. Qed.
Print Assumptions C16_tree_destroy_all_partial.
(* the embedded document of wbxml_tree_clb_wbxml_characters.  `embedded_characters true` = the code with finding P9 (every
   failure of the embedded parse, out of memory included, taken as "not parsable"); `false` = the repair
   props/C16/P9-fix.patch (NOT_ENOUGH_MEMORY is reported) *)
Theorem C16_embedded_characters_heap : forall old fails parsable,
  let '(h, res, ch) := embedded_characters old (heap0 fails) parsable in
  clean h /\ leaked h (emb_children_blocks ch) = [] /\ all_live h (emb_children_blocks ch) = true /\
  (res = EmbError <-> ch = None).
Proof. exact embedded_characters_heap_ok. Qed.
Print Assumptions C16_embedded_characters_heap.
Theorem C16_embedded_characters_swallow_refuted :
  exists k, snd (fst (embedded_characters true (heap0 (single k)) true)) = EmbText /\
            snd (fst (embedded_characters true (heap0 nofail) true)) = EmbTree.
Proof. exact embedded_characters_swallow_refuted. Qed.
Print Assumptions C16_embedded_characters_swallow_refuted.
Theorem C16_embedded_characters_swallowed_exactly : forall fails,
  snd (fst (embedded_characters true (heap0 fails) true)) = EmbText ->
  nth_error fails 0 = Some true \/ (nth_error fails 0 = Some false /\ nth_error fails 1 = Some true).
Proof. exact embedded_characters_swallowed_exactly. Qed.
Print Assumptions C16_embedded_characters_swallowed_exactly.
(* repaired: for EVERY oracle a parsable embedded document becomes the tree node or the run reports an error (and then
   some request was refused) — never text; content that is not WBXML never becomes a tree *)
Theorem C16_embedded_characters_fixed : forall fails,
  snd (fst (embedded_characters false (heap0 fails) true)) <> EmbText /\
  (snd (fst (embedded_characters false (heap0 fails) true)) = EmbTree \/
   (snd (fst (embedded_characters false (heap0 fails) true)) = EmbError /\ exists k, nth_error fails k = Some true)).
Proof. exact embedded_characters_fixed_ok. Qed.
Print Assumptions C16_embedded_characters_fixed.
Theorem C16_embedded_characters_fixed_not_parsable : forall fails,
  snd (fst (embedded_characters false (heap0 fails) false)) <> EmbTree.
Proof. exact embedded_characters_fixed_not_parsable. Qed.
Print Assumptions C16_embedded_characters_fixed_not_parsable.

(* ---- the trace checker used on the recorded alloc / free / realloc traces ---- *)
Theorem C16_trace_ok_sound : forall t, trace_ok t = true -> disciplined [] t.
Proof. exact trace_ok_sound. Qed.
Print Assumptions C16_trace_ok_sound.
Theorem C16_trace_ok_complete : forall t, disciplined [] t -> trace_ok t = true.
Proof. exact trace_ok_complete. Qed.
Print Assumptions C16_trace_ok_complete.

(* ---- non-vacuity ---- *)
Example C16_ex_single : single 2 = [false; false; true].
Proof. reflexivity. Qed.
Example C16_ex_trace : trace_ok [EA 1; EA 2; ER 1 3; EX; EF 2; EF 3] = true /\ trace_ok [EA 1; EF 1; EF 1] = false /\
  trace_ok [EA 1] = false /\ trace_ok [EF 7] = false.
Proof. repeat split; reflexivity. Qed.
Example C16_ex_create_nofail : snd (buffer_create (heap0 nofail) true) = Some (mkBuf 1 (Some 2)).
Proof. reflexivity. Qed.
