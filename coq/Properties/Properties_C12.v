(* C12 — Typed content survives encoding and decoding unchanged in value.
   Only statements, each closed by `exact`, with Print Assumptions beneath.
   Model: Model/Typed.v (transcriptions of the C, on top of Model/Codec.v); proofs: Proofs/TypedProofs.v. *)
From Coq Require Import List NArith.
From Wbxml Require Import Model.Codec Model.Typed Proofs.TypedProofs Proofs.TypedDtProofs Proofs.TypedWvProofs Proofs.TypedBinProofs.
Import ListNotations.
Local Open Scope N_scope.

(* ---------------- Wireless-Village integers ---------------- *)

(* every integer 0..2^32-1, written in decimal, is encoded as an OPAQUE whose payload decodes to the same decimal text *)
Theorem C12_wv_integer_roundtrip : forall n, n < 4294967296 ->
  exists p, payload_of (enc_wv_int (sprintf_u n)) = Some p /\ dec_wv_int p = TOk (sprintf_u n).
Proof. exact wv_int_roundtrip. Qed.
Print Assumptions C12_wv_integer_roundtrip.

(* ... the payload being the minimal big-endian form of n (at most 4 octets, no leading zero octet; 0 is the empty opaque) *)
Theorem C12_wv_integer_minimal : forall n, n < 4294967296 ->
  exists p, payload_of (enc_wv_int (sprintf_u n)) = Some p /\ be_value p = n /\ hd 1 p <> 0 /\ (length p <= 4)%nat.
Proof. exact wv_int_minimal. Qed.
Print Assumptions C12_wv_integer_minimal.

(* an opaque integer of any length (leading zero octets allowed) whose value fits 32 bits decodes to that value ... *)
Theorem C12_wv_integer_decode : forall bs, bytes_ok bs -> be_value bs < 4294967296 ->
  dec_wv_int bs = TOk (sprintf_u (be_value bs)).
Proof. exact dec_wv_int_small. Qed.
Print Assumptions C12_wv_integer_decode.

(* ... and one whose value needs more than 32 bits is an overflow error, never a truncated number
   (in particular every opaque of 5 to 8 octets with a non-zero octet before the last four) *)
Theorem C12_wv_integer_overflow : forall bs, bytes_ok bs -> 4294967296 <= be_value bs ->
  dec_wv_int bs = TErr T_WV_INTEGER_OVERFLOW.
Proof. exact dec_wv_int_overflow. Qed.
Print Assumptions C12_wv_integer_overflow.

(* the decimal text read back by the digit loop of atol/strtoul is the number (libc model is coherent) *)
Theorem C12_decimal_text : forall n, n < 4294967296 -> parse_dec (sprintf_u n) = n.
Proof. intros n H. apply parse_dec_sprintf_u. apply (N.lt_trans _ _ _ H). reflexivity. Qed.
Print Assumptions C12_decimal_text.

(* ---------------- SI / EMN %Datetime ---------------- *)

(* valid_dt Y M D h m s := Y <= 9999 /\ 1 <= M <= 12 /\ 1 <= D <= 31 /\ h < 24 /\ m < 60 /\ s < 60;
   render t ... is the text with the last t time fields left out, trunc_ok t says those fields are zero.
   Every such text is encoded to an OPAQUE whose payload decodes to the canonical YYYY-MM-DDThh:mm:ssZ of the same instant. *)
Theorem C12_si_datetime_roundtrip : forall t Y M D h m s, valid_dt Y M D h m s -> trunc_ok t h m s -> (t <= 3)%nat ->
  exists p, payload_of (enc_datetime (render t Y M D h m s)) = Some p /\
            dec_datetime p = TOk (canonical Y M D h m s).
Proof. exact si_datetime_roundtrip. Qed.
Print Assumptions C12_si_datetime_roundtrip.

(* the encoder emits the maximal truncation: a prefix p of the seven BCD octets, at least 4 of them (the day octet is
   never zero), everything dropped being zero, and the last octet kept not zero *)
Theorem C12_si_datetime_maximal_truncation : forall t Y M D h m s, valid_dt Y M D h m s -> trunc_ok t h m s -> (t <= 3)%nat ->
  exists p k, payload_of (enc_datetime (render t Y M D h m s)) = Some p /\
              p ++ repeat 0 k = bcd7 Y M D h m s /\ (4 <= length p)%nat /\ last p 0 <> 0.
Proof. exact enc_datetime_payload. Qed.
Print Assumptions C12_si_datetime_maximal_truncation.

(* the decoder fed any legal truncation (4..7 octets, the dropped octets being zero) gives the canonical form *)
Theorem C12_si_datetime_decode_truncations : forall Y M D h m s p k, valid_dt Y M D h m s ->
  p ++ repeat 0 k = bcd7 Y M D h m s -> (4 <= length p)%nat ->
  dec_datetime p = TOk (canonical Y M D h m s).
Proof. exact dec_datetime_truncation. Qed.
Print Assumptions C12_si_datetime_decode_truncations.

(* fewer than 4 or more than 7 octets are refused *)
Theorem C12_si_datetime_bad_length : forall p, (length p < 4)%nat \/ (7 < length p)%nat ->
  dec_datetime p = TErr T_BAD_DATETIME.
Proof. exact dec_datetime_badlen. Qed.
Print Assumptions C12_si_datetime_bad_length.

(* the general fact behind "maximal truncation": the loop removes exactly the trailing zero octets *)
Theorem C12_remove_trailing_zeros : forall l,
  l = rtz l ++ repeat 0 (length l - length (rtz l)) /\ (rtz l = [] \/ last (rtz l) 0 <> 0).
Proof. exact rtz_spec. Qed.
Print Assumptions C12_remove_trailing_zeros.

(* ---------------- Wireless-Village date and time ---------------- *)

(* wv_fields_ok: Y <= 4095 (the 12-bit field), M <= 15, D <= 31, h <= 31, m <= 59, s <= 59 (all calendar values included);
   wv_zone_ok z: 'A'..'Z' except 'J'.  For a zone other than 'Z' the text YYYYMMDDThhmmssz is encoded to the six octets of
   the WV specification, which decode to the text with the same fields — the seconds being printed only when not 0 *)
Theorem C12_wv_datetime_roundtrip : forall Y M D h m s z, wv_fields_ok Y M D h m s -> wv_zone_ok z = true -> z <> 90 ->
  exists p, payload_of (enc_wv_datetime (wv_render true Y M D h m s z)) = Some p /\
            p = wv_octets Y M D h m s z /\
            dec_wv_datetime p = TOk (wv_render (negb (s =? 0)) Y M D h m s z).
Proof. exact wv_datetime_roundtrip. Qed.
Print Assumptions C12_wv_datetime_roundtrip.

(* same value: the text without seconds is encoded as second 0; so the decoded text is encoded to the same octets
   again, and the second iteration is a fixpoint *)
Theorem C12_wv_datetime_fixpoint : forall Y M D h m s z, wv_fields_ok Y M D h m s -> wv_zone_ok z = true -> z <> 90 ->
  enc_wv_datetime (wv_render (negb (s =? 0)) Y M D h m s z) = Emit (enc_opaque (wv_octets Y M D h m s z)) /\
  dec_wv_datetime (wv_octets Y M D h m s z) = TOk (wv_render (negb (s =? 0)) Y M D h m s z).
Proof. intros. split; [apply wv_datetime_fixpoint | apply dec_wv_datetime_octets]; assumption. Qed.
Print Assumptions C12_wv_datetime_fixpoint.

(* zone 'Z': sent as an inline string, unchanged *)
Theorem C12_wv_datetime_zulu_inline : forall Y M D h m s, Y <= 9999 -> M <= 99 -> D <= 99 -> h <= 99 -> m <= 99 -> s <= 99 ->
  enc_wv_datetime (wv_render true Y M D h m s 90) = EInline (wv_render true Y M D h m s 90).
Proof. exact wv_datetime_Z. Qed.
Print Assumptions C12_wv_datetime_zulu_inline.

(* 'J' is no zone designator: the encoder refuses it, and the decoder never prints it (nor any octet outside 'A'..'Z');
   zone_suffix z = "Z" for octet 0, nothing for an octet that is no designator, the letter otherwise *)
Theorem C12_wv_datetime_zone_J_refused : forall Y M D h m s, Y <= 9999 -> M <= 99 -> D <= 99 -> h <= 99 -> m <= 99 -> s <= 99 ->
  enc_wv_datetime (wv_render true Y M D h m s 74) = EErr T_WV_DATETIME_FORMAT.
Proof. exact wv_datetime_zone_J_refused. Qed.
Print Assumptions C12_wv_datetime_zone_J_refused.

Theorem C12_wv_datetime_any_zone_octet : forall Y M D h m s z, wv_fields_ok Y M D h m s ->
  dec_wv_datetime (wv_octets Y M D h m s z) = TOk (wv_render (negb (s =? 0)) Y M D h m s 0 ++ zone_suffix z).
Proof. exact dec_wv_datetime_any_zone. Qed.
Print Assumptions C12_wv_datetime_any_zone_octet.

(* limits of the C, shown on the model (and replayed on the C by the check): outside the property's domain *)
(* a year above 4095 is silently reduced mod 4096: 40960101T000000A and 00000101T000000A give the same octets *)
Theorem C12_wv_datetime_year_wraps :
  enc_wv_datetime [52;48;57;54;48;49;48;49;84;48;48;48;48;48;48;65] = enc_wv_datetime [48;48;48;48;48;49;48;49;84;48;48;48;48;48;48;65].
Proof. vm_compute. reflexivity. Qed.
Print Assumptions C12_wv_datetime_year_wraps.
(* a text without zone designator gets zone octet 0 and comes back with 'Z': 20011019T095031 -> 20011019T095031Z *)
Theorem C12_wv_datetime_nozone_becomes_Z :
  enc_wv_datetime [50;48;48;49;49;48;49;57;84;48;57;53;48;51;49] = Emit [195; 6; 31; 70; 166; 156; 159; 0] /\
  dec_wv_datetime [31; 70; 166; 156; 159; 0] = TOk [50;48;48;49;49;48;49;57;84;48;57;53;48;51;49;90].
Proof. split; vm_compute; reflexivity. Qed.
Print Assumptions C12_wv_datetime_nozone_becomes_Z.

(* ---------------- base64-carried binary content ---------------- *)

(* for every non-empty byte string: the canonical base64 text is encoded to an OPAQUE whose payload is the byte string
   (DRMREL ds:KeyValue and OTA ICON: enc_b64_cstr; binary-flagged elements: enc_binary_tag), and an opaque is rendered
   as the RFC 4648 base64 of its bytes (SyncML NextNonce, ds:KeyValue, OTA attribute values, binary-flagged elements) *)
Theorem C12_binary_roundtrip : forall bs, bs <> [] -> bytes_ok bs -> N.of_nat (length bs) < 4294967296 ->
  (exists p, payload_of (enc_b64_cstr (rfc4648 bs)) = Some p /\ p = bs /\ dec_base64_value p = TOk (rfc4648 bs)) /\
  (exists p, payload_of (enc_binary_tag (rfc4648 bs)) = Some p /\ p = bs /\ dec_base64_value p = TOk (rfc4648 bs)).
Proof. exact binary_roundtrip. Qed.
Print Assumptions C12_binary_roundtrip.

Theorem C12_opaque_rendered_as_rfc4648 : forall bs, bs <> [] -> bytes_ok bs -> dec_base64_value bs = TOk (rfc4648 bs).
Proof. exact dec_base64_value_rfc. Qed.
Print Assumptions C12_opaque_rendered_as_rfc4648.

(* binary-flagged elements accept the text folded with white space anywhere *)
Theorem C12_binary_tag_folded_text : forall bs txt, bs <> [] -> bytes_ok bs ->
  filter (fun c => negb (is_cspace c)) txt = rfc4648 bs -> enc_binary_tag txt = Emit (enc_opaque bs).
Proof. exact enc_binary_tag_spaces. Qed.
Print Assumptions C12_binary_tag_folded_text.

(* ---------------- dispatch ---------------- *)

(* where the typed handling is applied (these equalities are what the dispatch probe of the check compares with the C
   for all languages x pages x tokens, and with the element names of the library's own tables) *)
Theorem C12_dispatch : forall bs,
  decode_opaque_content L_WV_CSP11 0 11 bs = dec_wv_int bs /\ decode_opaque_content L_WV_CSP12 9 10 bs = dec_wv_int bs /\
  decode_opaque_content L_WV_CSP11 0 17 bs = dec_wv_datetime bs /\ decode_opaque_content L_WV_CSP12 6 26 bs = dec_wv_datetime bs /\
  decode_attr_value L_SI10 0 10 (1 :: bs) = dec_datetime (1 :: bs) /\ decode_attr_value L_SI10 0 16 (1 :: bs) = dec_datetime (1 :: bs) /\
  decode_attr_value L_EMN10 0 5 (1 :: bs) = dec_datetime (1 :: bs) /\
  enc_attr_value L_SI10 0 10 bs = enc_datetime bs /\ enc_attr_value L_EMN10 0 5 bs = enc_datetime bs /\
  enc_wv_content 0 11 bs = enc_wv_int bs /\ enc_wv_content 6 26 bs = enc_wv_datetime bs /\
  decode_opaque_content L_DRMREL10 0 12 bs = dec_base64_value bs /\
  decode_opaque_content L_SYNCML10 1 16 bs = dec_base64_value bs /\
  decode_opaque_content L_SYNCML11 1 16 bs = dec_base64_value bs /\
  decode_opaque_content L_SYNCML12 1 16 bs = dec_base64_value bs /\
  decode_opaque_attr_value L_OTA_SETTINGS bs = dec_base64_value bs /\
  enc_drmrel_content 0 12 bs = enc_b64_cstr bs.
Proof. intros bs. repeat split; reflexivity. Qed.
Print Assumptions C12_dispatch.

(* non-vacuity *)
Example C12_ex_int : enc_wv_int [52;50;57;52;57;54;55;50;57;53] = Emit [195; 4; 255; 255; 255; 255]
  /\ dec_wv_int [255;255;255;255] = TOk [52;50;57;52;57;54;55;50;57;53]
  /\ enc_wv_int [48] = Emit [195; 0] /\ dec_wv_int [] = TOk [48]
  /\ dec_wv_int [1;0;0;0;0] = TErr T_WV_INTEGER_OVERFLOW
  /\ dec_wv_int [0;0;0;0;255;255;255;255] = TOk [52;50;57;52;57;54;55;50;57;53]
  /\ sprintf_u 4294967295 = [52;50;57;52;57;54;55;50;57;53].
Proof. repeat split; vm_compute; reflexivity. Qed.

Example C12_ex_si : valid_dt 1999 4 30 6 40 0 /\ trunc_ok 1 6 40 0
  /\ render 1 1999 4 30 6 40 0 = [49;57;57;57;45;48;52;45;51;48;84;48;54;58;52;48;90]
  /\ enc_datetime (render 1 1999 4 30 6 40 0) = Emit [195; 6; 25; 153; 4; 48; 6; 64]
  /\ enc_datetime (render 0 1999 4 30 6 40 0) = Emit [195; 6; 25; 153; 4; 48; 6; 64]
  /\ dec_datetime [25; 153; 4; 48; 6; 64] = TOk (canonical 1999 4 30 6 40 0)
  /\ dec_datetime [25; 153; 4; 48; 6; 64; 0] = TOk (canonical 1999 4 30 6 40 0)
  /\ valid_dt 0 1 1 0 0 0 /\ trunc_ok 3 0 0 0 /\ enc_datetime (render 3 0 1 1 0 0 0) = Emit [195; 4; 0; 0; 1; 1]
  /\ valid_dt 9999 12 31 23 59 59.
Proof. unfold valid_dt, trunc_ok. repeat split; try (vm_compute; reflexivity); try discriminate. Qed.
Example C12_ex_wv : wv_fields_ok 2001 10 19 9 50 31 /\ zone_suffix 74 = [] /\ zone_suffix 0 = [90] /\ zone_suffix 66 = [66] /\ wv_zone_ok 65 = true /\ wv_zone_ok 74 = false /\ wv_zone_ok 90 = true
  /\ wv_render true 2001 10 19 9 50 31 65 = [50;48;48;49;49;48;49;57;84;48;57;53;48;51;49;65]
  /\ wv_octets 2001 10 19 9 50 31 65 = [31; 70; 166; 156; 159; 65]
  /\ enc_wv_datetime (wv_render true 2001 10 19 9 50 31 65) = Emit [195; 6; 31; 70; 166; 156; 159; 65]
  /\ dec_wv_datetime [31; 70; 166; 156; 128; 65] = TOk (wv_render false 2001 10 19 9 50 0 65)
  /\ wv_fields_ok 4095 12 31 23 59 59 /\ wv_fields_ok 0 1 1 0 0 0.
Proof. unfold wv_fields_ok. repeat split; try (vm_compute; reflexivity); try discriminate. Qed.
Example C12_ex_bin : enc_b64_cstr [90; 109; 57; 118; 89; 103; 61; 61] = Emit [195; 4; 102; 111; 111; 98]
  /\ dec_base64_value [102; 111; 111; 98] = TOk [90; 109; 57; 118; 89; 103; 61; 61]
  /\ enc_binary_tag [90; 109; 57; 32; 118; 89; 10; 103; 61; 61] = Emit [195; 4; 102; 111; 111; 98]
  /\ dec_base64_value [] = TErr T_B64_ENC.
Proof. repeat split; vm_compute; reflexivity. Qed.
