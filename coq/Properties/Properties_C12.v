(* C12 — Typed content survives encoding and decoding unchanged in value.
   Only statements, each closed by `exact`, with Print Assumptions beneath.
   Model: Model/Typed.v (transcriptions of the C, on top of Model/Codec.v); proofs: Proofs/TypedProofs.v. *)
From Coq Require Import List NArith.
From Wbxml Require Import Model.Codec Model.Typed Proofs.TypedProofs.
Import ListNotations.
Local Open Scope N_scope.

(* ---------------- Wireless-Village integers ---------------- *)

(* every integer 0..2^32-1, written in decimal, is encoded as an OPAQUE whose payload decodes to the same decimal text *)
Theorem C12_wv_integer_roundtrip : forall n, n < 4294967296 ->
  exists p, payload_of (enc_wv_int (sprintf_u n)) = Some p /\ dec_wv_int p = TOk (sprintf_u n).
Proof. exact wv_int_roundtrip. Qed.
Print Assumptions C12_wv_integer_roundtrip.

(* ... the payload being the minimal big-endian form of n (at most 4 octets, no leading zero octet; 0 is the empty opaque) *)
Theorem C12_wv_integer_minimal : forall n, n < 4294967296 ->
  exists p, payload_of (enc_wv_int (sprintf_u n)) = Some p /\ be_value p = n /\ hd 1 p <> 0 /\ (length p <= 4)%nat.
Proof. exact wv_int_minimal. Qed.
Print Assumptions C12_wv_integer_minimal.

(* an opaque integer of any length (leading zero octets allowed) whose value fits 32 bits decodes to that value ... *)
Theorem C12_wv_integer_decode : forall bs, bytes_ok bs -> be_value bs < 4294967296 ->
  dec_wv_int bs = TOk (sprintf_u (be_value bs)).
Proof. exact dec_wv_int_small. Qed.
Print Assumptions C12_wv_integer_decode.

(* ... and one whose value needs more than 32 bits is an overflow error, never a truncated number
   (in particular every opaque of 5 to 8 octets with a non-zero octet before the last four) *)
Theorem C12_wv_integer_overflow : forall bs, bytes_ok bs -> 4294967296 <= be_value bs ->
  dec_wv_int bs = TErr T_WV_INTEGER_OVERFLOW.
Proof. exact dec_wv_int_overflow. Qed.
Print Assumptions C12_wv_integer_overflow.

(* the decimal text read back by the digit loop of atol/strtoul is the number (libc model is coherent) *)
Theorem C12_decimal_text : forall n, n < 4294967296 -> parse_dec (sprintf_u n) = n.
Proof. intros n H. apply parse_dec_sprintf_u. apply (N.lt_trans _ _ _ H). reflexivity. Qed.
Print Assumptions C12_decimal_text.

(* non-vacuity *)
Example C12_ex_int : enc_wv_int [52;50;57;52;57;54;55;50;57;53] = Emit [195; 4; 255; 255; 255; 255]
  /\ dec_wv_int [255;255;255;255] = TOk [52;50;57;52;57;54;55;50;57;53]
  /\ enc_wv_int [48] = Emit [195; 0] /\ dec_wv_int [] = TOk [48]
  /\ dec_wv_int [1;0;0;0;0] = TErr T_WV_INTEGER_OVERFLOW
  /\ dec_wv_int [0;0;0;0;255;255;255;255] = TOk [52;50;57;52;57;54;55;50;57;53]
  /\ sprintf_u 4294967295 = [52;50;57;52;57;54;55;50;57;53].
Proof. repeat split; vm_compute; reflexivity. Qed.
