(* C15 — Converter, parser and encoder objects carry nothing from one run to the next.
   Statements only (each closed by `exact`), Print Assumptions beneath.
   Model: Model/Lifecycle.v (records with exactly the fields of the C structs; everything a run does after the
   (re)initialisation is a parameter that sees the whole object); proofs: Proofs/LifecycleProofs.v;
   struct descriptions: Gen/Structs.v, regenerated from the clang AST of the current tree on every run. *)
From Coq Require Import List NArith ZArith String Bool.
From Wbxml Require Import Model.Lifecycle Gen.Structs Proofs.LifecycleProofs.
Import ListNotations.
Local Open Scope N_scope.

(* ---- the model covers exactly the fields of the four structs of the current sources ---- *)
Theorem C15_struct_fields_covered :
  map fst parser_class = parser_fields /\ map fst encoder_class = encoder_fields /\
  map fst conv_w2x_class = conv_w2x_fields /\ map fst conv_x2w_class = conv_x2w_fields.
Proof. exact (conj parser_fields_match (conj encoder_fields_match (conj conv_w2x_fields_match conv_x2w_fields_match))). Qed.
Print Assumptions C15_struct_fields_covered.

(* ---- in the current sources a SETTING field is assigned only by creation, its setter, or a run function whose
        store the model transcribes; every RUN-STATE field is assigned by wbxml_parser_reinit / wbxml_encoder_reset
        (except the two listed omissions of the unrepaired reset) ---- *)
Theorem C15_writers_discipline :
  settings_writers_ok parser_class parser_setters parser_writers = true /\
  runstate_reset_ok parser_class parser_reinit_name [] parser_writers_via_static = true /\
  settings_writers_ok conv_w2x_class conv_w2x_setters conv_w2x_writers = true /\
  settings_writers_ok conv_x2w_class conv_x2w_setters conv_x2w_writers = true /\
  settings_writers_ok encoder_class encoder_setters encoder_writers = true /\
  runstate_reset_ok encoder_class encoder_reset_name encoder_known_unreset encoder_writers_via_static = true.
Proof.
  exact (conj parser_settings_writers (conj parser_reinit_covers_runstate (conj conv_w2x_settings_writers
        (conj conv_x2w_settings_writers (conj encoder_settings_writers encoder_reset_covers_runstate))))).
Qed.
Print Assumptions C15_writers_discipline.

(* ---- parser ---- *)
(* re-initialisation = a newly created parser on which the same settings have been made, field by field *)
Theorem C15_parser_reinit_is_fresh : forall p, parser_reinit p = parser_fresh (p_settings p).
Proof. exact reinit_is_fresh. Qed.
Print Assumptions C15_parser_reinit_is_fresh.

(* any history of documents and setter calls on ONE parser: each document gives the result (status, events) it
   gives on a fresh parser carrying the settings in force at that moment; settings persist until changed.
   For every body of the parse (pbody may read every field of the object). *)
Theorem C15_parser_history : forall (doc result : Type) (doc_empty : doc -> bool) (empty_result : result)
    (pbody : parser -> doc -> prun * result) (ops : list (pop doc)) (p : parser),
  snd (p_exec doc result doc_empty empty_result pbody p ops)
    = snd (p_spec doc result doc_empty empty_result pbody (p_settings p) ops) /\
  p_settings (fst (p_exec doc result doc_empty empty_result pbody p ops))
    = fst (p_spec doc result doc_empty empty_result pbody (p_settings p) ops).
Proof. exact parser_history. Qed.
Print Assumptions C15_parser_history.

Theorem C15_parser_documents : forall (doc result : Type) (doc_empty : doc -> bool) (empty_result : result)
    (pbody : parser -> doc -> prun * result) (docs : list doc) (p : parser),
  snd (p_exec doc result doc_empty empty_result pbody p (map PParse docs))
    = map (fun d => snd (parser_parse doc result doc_empty empty_result pbody (parser_fresh (p_settings p)) d)) docs /\
  p_settings (fst (p_exec doc result doc_empty empty_result pbody p (map PParse docs))) = p_settings p.
Proof. exact parser_docs. Qed.
Print Assumptions C15_parser_documents.

(* ---- converters: a run is a function of (options, input); the object is left as it was ---- *)
Theorem C15_conv_wbxml2xml_history : forall (doc result : Type) (body : N -> N -> N -> N -> bool -> doc -> result) ops c,
  snd (w2x_exec doc result body c ops) = w2x_spec doc result body c ops.
Proof. exact w2x_history. Qed.
Print Assumptions C15_conv_wbxml2xml_history.
Theorem C15_conv_xml2wbxml_history : forall (doc result : Type) (body : N -> bool -> bool -> bool -> doc -> result) ops c,
  snd (x2w_exec doc result body c ops) = x2w_spec doc result body c ops.
Proof. exact x2w_history. Qed.
Print Assumptions C15_conv_xml2wbxml_history.
Theorem C15_conv_documents : forall (doc result : Type) (wb : N -> N -> N -> N -> bool -> doc -> result)
    (xb : N -> bool -> bool -> bool -> doc -> result) docs cw cx,
  snd (w2x_exec doc result wb cw (map WRun docs)) = map (fun d => snd (w2x_run doc result wb cw d)) docs /\
  snd (x2w_exec doc result xb cx (map XRun docs)) = map (fun d => snd (x2w_run doc result xb cx d)) docs.
Proof. intros. exact (conj (w2x_docs doc result wb docs cw) (x2w_docs doc result xb docs cx)). Qed.
Print Assumptions C15_conv_documents.

(* ---- encoder, THE CODE AS IT IS: refuted (defect D14) ---- *)
(* wbxml_encoder_reset never yields a newly created encoder: the string-table list is NULL ... *)
Theorem C15_encoder_reset_refuted : forall e, enc_reset e <> enc_fresh (e_settings e).
Proof. exact reset_is_never_fresh. Qed.
Print Assumptions C15_encoder_reset_refuted.
(* ... so that, whatever the rest of the encoder does, no WBXML run with the string table on can succeed after a reset *)
Theorem C15_encoder_reset_then_wbxml_fails : forall (tree out : Type) t_id t_lang t_charset
    (ebody : encoder -> tree -> erun * eres out) e t,
  es_use_strtbl (enc_derive (es_apply (e_settings e) (ESetOutputType OUT_WBXML)) (t_lang t) (t_charset t)) = true ->
  (e_lang e <> None \/ t_lang t <> None) ->
  exists code, snd (enc_encode tree out t_id t_lang t_charset ebody (enc_reset e) t OUT_WBXML) = EErr code.
Proof. exact reset_then_wbxml_fails. Qed.
Print Assumptions C15_encoder_reset_then_wbxml_fails.
(* the history property itself, with concrete witnesses (replayed on the C by the check):
   W1 encode, reset, encode WBXML;  W2 WV tree, reset, SI tree;  W3 failed XML run, reset: indent kept *)
Theorem C15_encoder_history_refuted :
  (exists (ops : list (eop (N * N))) e,
     e_runstate e = erun_init /\ snd (wit_exec e ops) <> snd (wit_spec (e_settings e) ops)) /\
  snd (wit_exec enc_create [ERunReset (1301, 106) OUT_WBXML; ERunReset (1301, 106) OUT_WBXML])
    = [EOk [1301; 1; 0; 106]; EErr 15] /\
  snd (wit_exec enc_create [ERunReset (2301, 3) OUT_WBXML; ERunReset (1301, 106) OUT_WBXML])
    = [EOk [2301; 0; 0; 3]; EOk [2301; 0; 1; 3]] /\
  snd (wit_spec (e_settings enc_create) [ERunReset (2301, 3) OUT_WBXML; ERunReset (1301, 106) OUT_WBXML])
    = [EOk [2301; 0; 0; 3]; EOk [1301; 1; 0; 106]] /\
  e_indent (enc_reset (fst (enc_encode (N * N) (list N) (fun _ => 7) wit_lang snd wit_body enc_create (1301, 106) OUT_XML))) = 1.
Proof.
  exact (conj reset_refuted (conj (proj1 witness_strstbl_null) (conj (proj1 witness_derived_settings_survive)
        (conj (proj2 witness_derived_settings_survive) (proj1 witness_indent_survives))))).
Qed.
Print Assumptions C15_encoder_history_refuted.

(* ---- encoder, THE REPAIRED CODE (props/C15/DEFECTS.md): full theorem ---- *)
Theorem C15_encoder_reset_fixed_is_fresh : forall e, enc_reset_fixed e = enc_fresh (e_settings e).
Proof. exact reset_fixed_is_fresh. Qed.
Print Assumptions C15_encoder_reset_fixed_is_fresh.

(* in_cdata, in_content, cdata (and indent for the repaired reset) are cleared whatever the state was — in particular
   in_cdata does not depend on the cdata buffer, which XML output never allocates *)
Theorem C15_encoder_reset_clears_cdata_flags : forall e,
  (e_in_cdata (enc_reset e) = false /\ e_in_content (enc_reset e) = false /\ e_cdata (enc_reset e) = None) /\
  (e_in_cdata (enc_reset_fixed e) = false /\ e_in_content (enc_reset_fixed e) = false /\ e_cdata (enc_reset_fixed e) = None /\
   e_indent (enc_reset_fixed e) = 0).
Proof. exact reset_clears_cdata_flags. Qed.
Print Assumptions C15_encoder_reset_clears_cdata_flags.

(* output and output_header are dropped whatever flow_mode is (flow_mode itself is a setting and is kept): in Flow Mode
   the header is built only when output_header is NULL, so a header kept across a reset would prefix the next document *)
Theorem C15_encoder_reset_clears_output_header : forall e,
  (e_output_header (enc_reset e) = None /\ e_output (enc_reset e) = None) /\
  (e_output_header (enc_reset_fixed e) = None /\ e_output (enc_reset_fixed e) = None) /\
  e_flow_mode (enc_reset_fixed e) = e_flow_mode e.
Proof. exact reset_clears_output_header. Qed.
Print Assumptions C15_encoder_reset_clears_output_header.

(* any history of setter calls and (set tree, encode, reset) rounds on ONE encoder: each tree gives the result it
   gives on a newly created encoder carrying the caller's settings; the settings are the caller's; for every body *)
Theorem C15_encoder_history_fixed : forall (tree out : Type) t_id t_lang t_charset
    (ebody : encoder -> tree -> erun * eres out) (ops : list (eop tree)) (e : encoder),
  e_runstate e = erun_init ->
  snd (e_exec_fixed tree out t_id t_lang t_charset ebody e ops)
    = snd (e_spec tree out t_id t_lang t_charset ebody (e_settings e) ops) /\
  e_settings (fst (e_exec_fixed tree out t_id t_lang t_charset ebody e ops))
    = fst (e_spec tree out t_id t_lang t_charset ebody (e_settings e) ops) /\
  e_runstate (fst (e_exec_fixed tree out t_id t_lang t_charset ebody e ops)) = erun_init.
Proof. exact encoder_history_fixed. Qed.
Print Assumptions C15_encoder_history_fixed.

(* ---- non-vacuity ---- *)
(* the statements can tell a forgotten field: with attrCodePage left out of the re-initialisation there is a body
   and a two-document history whose second result differs from the fresh one *)
Example C15_ex_forgotten_field_observable :
  let bad := parser_parse_with N N (fun _ => false) 0 demo_body parser_reinit_forgets_attrCodePage in
  snd (bad (fst (bad parser_create 1)) 1) <> snd (bad parser_create 1).
Proof. exact forgetting_attrCodePage_is_observable. Qed.
Example C15_ex_fresh_runstate : e_runstate enc_create = erun_init /\ p_runstate (parser_reinit parser_create) = p_runstate parser_create.
Proof. split; reflexivity. Qed.
Example C15_ex_settings_persist :
  p_settings (p_set_language (parser_reinit (p_set_meta_charset parser_create 106)) 1301) = mkPS 0 0 1 1301 106.
Proof. reflexivity. Qed.
