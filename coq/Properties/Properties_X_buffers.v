(* X_buffers — one meaning for the buffer / list helpers across all models.
   Other developments transcribed helpers of wbxml_buffers.c (and libc's isspace / digit tests) inside their
   own models.  Each is proved equal to the C19 specification (Model/BufferSpec.v), which is proved equal to the
   transcription of the C (Properties_C19.v) and tied to the real functions in lock-step.
   Only statements; proofs: Proofs/ModelConsistencyBuffers.v.  Qualified names: EW = EncWbxml (C06),
   EX = EncXml (C05), PA = Parser (C04), TY = Typed (C12), XF = XmlFront (C02), TG = TreeGraph (C18),
   CL = Cli (C20), XR = XmlRead, C = Codec, BS = BufferSpec, BM = BufferModel. *)
From Coq Require Import List NArith.
From Wbxml Require Import Proofs.ModelConsistencyBuffers Proofs.BufferProofs.
Import ListNotations.
Local Open Scope N_scope.

(* isspace() in the "C" locale is the same six-octet set everywhere *)
Theorem X_buffers_isspace : forall c,
  (is_blank c = true <-> In c [9; 10; 11; 12; 13; 32]) /\
  C.is_cspace c = is_blank c /\ EW.isspace c = is_blank c /\ EX.c_isspace c = is_blank c /\ CL.is_space c = is_blank c.
Proof.
  intros c. split; [apply is_blank_In|].
  split; [apply codec_is_cspace | split; [apply encwbxml_isspace | split; [apply encxml_isspace | apply cli_is_space]]].
Qed.
Print Assumptions X_buffers_isspace.

(* the one predicate that differs, deliberately: XML 1.0's S (no VT, no FF), used only by the XML reader *)
Theorem X_buffers_xml_S_is_not_isspace : forall c,
  XR.is_ws c = andb (is_blank c) (negb (orb (c =? 11) (c =? 12))).
Proof. exact xmlread_is_ws. Qed.
Print Assumptions X_buffers_xml_S_is_not_isspace.

(* decimal / hexadecimal digit tests and values *)
Theorem X_buffers_digits : forall c,
  TY.is_digit c = EW.isdigit c /\ CL.is_digit c = EW.isdigit c /\
  TY.dec_digit c = (if EW.isdigit c then Some (C.hexval c) else None) /\
  TY.hex_digit c = hex_digit_spec c /\ EW.hexdigit_val c = hex_digit_spec c /\ EW.is_hexdigit c = C.is_hex_digit c.
Proof.
  intros c. split; [apply digits_agree | split; [apply digits_agree | split; [apply typed_dec_digit
    | split; [apply typed_hex_digit | split; [apply encwbxml_hexdigit_val | apply encwbxml_is_hexdigit]]]]].
Qed.
Print Assumptions X_buffers_digits.

(* EncWbxml.v (C06) *)
Theorem X_buffers_encwbxml : forall b needle,
  EW.strip_blanks b = BS.trim_spec b /\
  EW.remove_trailing_zeros b = BS.rtz_spec b /\
  EW.split_words b = BS.words_spec b /\
  EW.only_ws b = forallb C.is_cspace b /\
  EW.drop_ws b = BS.drop_blanks b /\
  EW.is_prefix needle b = BS.is_prefix needle b /\
  EW.find_sub needle b = BS.search_spec b needle 0 /\
  EW.beq needle b = (match BS.lex_compare needle b with Eq => true | _ => false end).
Proof.
  intros b needle.
  split; [apply encwbxml_strip_blanks | split; [apply encwbxml_remove_trailing_zeros | split; [apply encwbxml_split_words
    | split; [apply encwbxml_only_ws | split; [apply encwbxml_drop_ws | split; [apply encwbxml_is_prefix
    | split; [apply encwbxml_find_sub | apply beq_lex]]]]]]].
Qed.
Print Assumptions X_buffers_encwbxml.

(* EncXml.v (C05): blank tests, strip, equality, and the entity scan as a run of appends *)
Theorem X_buffers_encxml : forall s a normalize,
  EX.strip_blanks s = BS.trim_spec s /\
  EX.only_ws s = forallb C.is_cspace s /\
  EX.drop_ws s = BS.drop_blanks s /\
  EX.bytes_eqb a s = (match BS.lex_compare a s with Eq => true | _ => false end) /\
  EX.escape normalize s = fold_left (fun acc ch => fst (BS.app_ acc (EX.esc_char normalize ch))) s [].
Proof.
  intros s a normalize.
  split; [apply encxml_strip_blanks | split; [apply encxml_only_ws | split; [apply encxml_drop_ws | split]]].
  - rewrite encxml_bytes_eqb. apply beq_lex.
  - apply encxml_escape_is_appends.
Qed.
Print Assumptions X_buffers_encxml.

(* Parser.v (C04): reading a C string = the bytes up to the first NUL *)
Theorem X_buffers_parser_cstr : forall r,
  (forall s t, PA.split_nul r = Some (s, t) -> s = C.cstr r /\ r = s ++ 0 :: t) /\
  (PA.split_nul r = None -> C.cstr r = r /\ ~ In 0 r).
Proof. intros r. split; [intros s t; apply parser_split_nul_some | apply parser_split_nul_none]. Qed.
Print Assumptions X_buffers_parser_cstr.

(* Typed.v (C12) *)
Theorem X_buffers_typed : forall l x pos n,
  TY.skip_space l = BS.drop_blanks l /\
  TY.rtz l = BS.rtz_spec l /\
  TY.insert_at pos x l = BS.insert_spec l pos x /\
  TY.delete_at pos n l = fst (del l (N.of_nat pos) (N.of_nat n)).
Proof.
  intros l x pos n. split; [apply typed_skip_space | split; [apply typed_rtz | split; [apply typed_insert_at | apply typed_delete_at]]].
Qed.
Print Assumptions X_buffers_typed.

(* XmlFront.v (C02 front end): text joined to the preceding text node is an append; take / drop are firstn / skipn *)
Theorem X_buffers_xmlfront : forall f t r text l n,
  (XF.f_rkids f = EW.NText t :: r ->
   XF.add_text_kid f text = XF.mk_frame (XF.f_kind f) (EW.NText (fst (BS.app_ t text)) :: r)) /\
  XF.take l n = firstn (N.to_nat n) l /\ XF.drop l n = skipn (N.to_nat n) l.
Proof.
  intros f t r text l n. split; [apply xmlfront_add_text_kid_merge | split; [apply xmlfront_take | apply xmlfront_drop]].
Qed.
Print Assumptions X_buffers_xmlfront.

(* TreeGraph.v (C18): text appended after a text sibling is merged by an append, old content in front *)
Theorem X_buffers_treegraph : forall cs m c1 mk i c2 ncs,
  TG.snoc_merge (cs ++ [TG.R m (TG.DText c1) mk]) (TG.R i (TG.DText c2) ncs)
  = cs ++ [TG.R i (TG.DText (fst (BS.app_ c1 c2))) ncs].
Proof. exact treegraph_snoc_merge_text. Qed.
Print Assumptions X_buffers_treegraph.

(* and these helpers are what the transcription of wbxml_buffers.c computes on a well-formed dynamic buffer *)
Theorem X_buffers_are_the_model_operations : forall b,
  BM.bstatic b = false -> Inv b -> BS.op_ok (BS.abs b) BM.OStrip = true -> BS.op_ok (BS.abs b) BM.OSplitWords = true ->
  BM.contents (fst (BM.step b BM.OStrip)) = EW.strip_blanks (BM.contents b) /\
  BM.contents (fst (BM.step b BM.OStrip)) = EX.strip_blanks (BM.contents b) /\
  BM.contents (fst (BM.step b BM.ORemoveTrailingZeros)) = EW.remove_trailing_zeros (BM.contents b) /\
  BM.contents (fst (BM.step b BM.ORemoveTrailingZeros)) = TY.rtz (BM.contents b) /\
  snd (BM.step b BM.OSplitWords) = BM.RWords (EW.split_words (BM.contents b)) /\
  snd (BM.step b BM.OOnlyWs) = BM.RBool (EW.only_ws (BM.contents b)) /\
  (forall str, snd (BM.step b (BM.OSearchCstr str 0)) = BM.RVal (EW.find_sub (C.cstr str) (BM.contents b))) /\
  (forall data, BM.contents (fst (BM.step b (BM.OAppendData data))) = BM.contents b ++ data).
Proof. exact helpers_are_model_ops. Qed.
Print Assumptions X_buffers_are_the_model_operations.

(* non-vacuity *)
Example X_buffers_ex :
  EW.strip_blanks [32; 9; 97; 11; 98; 12; 13] = [97; 11; 98] /\ EX.strip_blanks [11; 97; 12] = [97] /\
  EW.split_words [97; 11; 98; 32; 32; 99] = [[97]; [98]; [99]] /\ TY.rtz [1; 0; 2; 0; 0] = [1; 0; 2] /\
  XR.is_ws 11 = false /\ is_blank 11 = true /\ EW.find_sub [98; 99] [97; 98; 99] = Some 1.
Proof. repeat split. Qed.
