(* C01 — WBXML-to-XML conversion is total, memory-safe and bounded on arbitrary bytes.
   What is PROVED here is the logic the model can carry; memory safety, leaks, heap and stack use of the
   compiled C are explored by the sanitizer-backed harness (see props/C01/NOTES.md) and are labelled partial.
   Part 1 (this file, generic in the parser/generator): result contract of the conversion entry points and
   termination of the indentation loops.  Part 2 (Properties_C01_parser section below, added when
   Model/Parser.v is present): totality with linear fuel, cursor invariant, nesting bound. *)
From Coq Require Import List NArith.
From Wbxml Require Import Model.Conv Proofs.ConvProofs.
Import ListNotations.
Local Open Scope N_scope.

(* Every call returns either success with an output block that carries the document followed by a NUL
   exactly at the reported length, or an error code with a null output and zero length — whatever the
   parser, tree builder and generator compute (all byte strings, all option tuples). *)
Theorem C01_result_contract :
  forall (tree opts : Type) (tree_from_doc : opts -> list N -> tree + N) (encode : opts -> tree -> list N + N)
         (o : opts) (doc : list N),
  contract (conv_run tree opts tree_from_doc encode true o doc).
Proof. exact conv_run_contract. Qed.
Print Assumptions C01_result_contract.

(* the legacy entry point with a null parameter block behaves as the entry point with default options *)
Theorem C01_legacy_null_params :
  forall (tree opts : Type) (tree_from_doc : opts -> list N -> tree + N) (encode : opts -> tree -> list N + N)
         (dflt : opts) (po : option opts) (doc : list N),
  contract (conv_withlen tree opts tree_from_doc encode dflt true po doc).
Proof. exact conv_withlen_contract. Qed.
Print Assumptions C01_legacy_null_params.

(* success exactly when both stages succeed *)
Theorem C01_status :
  forall (tree opts : Type) (tree_from_doc : opts -> list N -> tree + N) (encode : opts -> tree -> list N + N)
         (o : opts) (doc : list N),
  r_status (conv_run tree opts tree_from_doc encode true o doc) = ST_OK <->
  doc <> [] /\ exists t out, tree_from_doc o doc = inl t /\ encode o t = inl out.
Proof. exact conv_run_status. Qed.
Print Assumptions C01_status.

(* indentation: for every indent width and depth counter (both 8-bit fields) the loop with the 32-bit counter
   terminates and emits exactly indent * depth blanks … *)
Theorem C01_indent_loop_terminates : forall indent delta, indent < 256 -> delta < 256 ->
  indent_blanks 32 (S (N.to_nat (indent * delta))) indent delta = Some (repeat 32 (N.to_nat (indent * delta))).
Proof. exact indent_blanks_32. Qed.
Print Assumptions C01_indent_loop_terminates.

(* … whereas the 8-bit counter of the code before the repair (defect D2) never terminates once
   indent * depth reaches 256: no amount of fuel suffices *)
Theorem C01_indent_loop_u8_refuted : forall indent delta, 256 <= indent * delta ->
  forall fuel, indent_blanks 8 fuel indent delta = None.
Proof. exact indent_blanks_8_diverges. Qed.
Print Assumptions C01_indent_loop_u8_refuted.

Example C01_ex_indent : indent_blanks 32 600 2 130 = Some (repeat 32 260) /\ indent_blanks 8 100000 2 130 = None.
Proof. split; vm_compute; reflexivity. Qed.
