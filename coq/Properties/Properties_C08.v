(* C08 — Every language's token tables form a consistent, self-inverse code.
   TablesData.main_table = the tables of the library compiled from the current tree (regenerated on every
   run; the bound of every exhaustive computation below: 29 entries, 3,892 rows).  Lookups: Model/Tables.v
   (transcriptions of the scans in wbxml_parser.c / wbxml_tables.c); checkers: Model/TablesCheck.v;
   proofs: Proofs/TablesProofs.v (vm_compute on the checkers + forallb_forall + generic lemmas). *)
From Coq Require Import List NArith String Bool.
From Wbxml Require Import Model.TablesDefs Model.Tables Model.TablesCheck Model.HardWiredDefs Gen.TablesData Gen.HardWired
     Proofs.TablesProofs Proofs.HardWiredProofs.
Import ListNotations.
Local Open Scope N_scope.

(* Token ranges.  Tags 0x05-0x3F (unchanged by the parser's & 0x3F), attribute starts 0x05-0x7F, attribute
   values 0x85-0xFF, none equal to a global WBXML token; pages and extension tokens fit a byte; the extension
   table is shorter than 256 rows (parse_extension indexes it with a WB_UTINY). *)
Theorem C08_token_ranges : forall l, In l main_table -> ranges_P l.
Proof. exact main_ranges. Qed.
Print Assumptions C08_token_ranges.

(* Decoding any token the parser can resolve and re-encoding the resulting name in that code page returns the
   same token (tags); the same token and a token that decodes to the same name and value prefix (attribute
   starts: wbxml_tables_get_attr_from_xml does not look at code pages, PROV 1.0 repeats its rows on page 1);
   a single value token found first by the encoder's substring search (values); the same extension token, or
   the pinned first synonym (Wireless Village SMS / IM). *)
Theorem C08_decode_then_encode : forall l, In l main_table ->
  tag_dec_enc_P l /\ attr_dec_enc_P l /\ val_dec_enc_P l /\ ext_dec_enc_P l.
Proof.
  intros l Hin. destruct (main_self_inverse l Hin) as [H1 [_ [H3 [_ [H5 [_ [H7 _]]]]]]]. auto.
Qed.
Print Assumptions C08_decode_then_encode.

(* Encoding any table name — tags: whatever the current code page is — and decoding the token returns the
   same name, or, for the pinned alias pair only, the first name bound to that token. *)
Theorem C08_encode_then_decode : forall l, In l main_table ->
  tag_enc_dec_P l /\ attr_enc_dec_P l /\ val_enc_dec_P l /\ ext_enc_dec_P l.
Proof.
  intros l Hin. destruct (main_self_inverse l Hin) as [_ [H2 [_ [H4 [_ [H6 [_ [H8 _]]]]]]]]. auto.
Qed.
Print Assumptions C08_encode_then_decode.

(* Each namespace maps to one code page and back; every code page a tag uses has a namespace when the
   language has a namespace table. *)
Theorem C08_namespace_bijection : forall l, In l main_table -> ns_bij_P l.
Proof.
  intros l Hin. destruct (main_self_inverse l Hin) as [_ [_ [_ [_ [_ [_ [_ [_ H]]]]]]]]. exact H.
Qed.
Print Assumptions C08_namespace_bijection.

(* Hard-wired typed elements.  Gen/HardWired.v is a behavioural probe of the current tree: dec_hardwired = every
   (language, place, page, token) for which the parser applies integer / date-time / base64 handling
   (decode_opaque_content incl. decode_wv_content, decode_opaque_attr_value, the SI/EMN branch of parse_attribute, probed
   for all 29 x 256 x 64 resp. x 123 combinations), enc_hardwired = the same for the encoder (wbxml_encode_value_element_buffer
   in content and attribute context).  Every such entry has a row in that language's table whose name is one of the names
   pinned for that language, place and type (registry/typed_elements.json). *)
Theorem C08_hardwired_elements_intended : forall h, In h (dec_hardwired ++ enc_hardwired) -> intended_P main_table pinned_typed h.
Proof. exact hardwired_intended. Qed.
Print Assumptions C08_hardwired_elements_intended.

(* Every element or attribute the encoder writes in a typed form (opaque integer / date-time / binary, rewritten MIME type)
   is handled with the same type in the other direction by the parser / XML generator — except the pinned one-sided entries
   (today: the dmtnds MIME type in <Type> of SyncML 1.0 and 1.1, which only the encoder rewrites), which are shown to be
   really one-sided. *)
Theorem C08_encoder_typed_forms_decoded :
  (forall e, In e enc_hardwired -> decoded_same_P dec_hardwired pinned_enc_only e) /\
  forallb (fun x => existsb (hw_eqb x) enc_hardwired && negb (existsb (hw_eqb x) dec_hardwired)) pinned_enc_only = true.
Proof. split; [exact encoder_forms_decoded | exact enc_only_realised]. Qed.
Print Assumptions C08_encoder_typed_forms_decoded.

(* ... and every pinned name is really singled out by the parser (the pinned set is not larger than the code). *)
Theorem C08_pinned_typed_elements_realised : forallb (pin_realised main_table (dec_hardwired ++ enc_hardwired)) pinned_typed = true.
Proof. exact pins_realised. Qed.
Print Assumptions C08_pinned_typed_elements_realised.

(* Elements typed through the table option WBXML_TAG_OPTION_BINARY: for every tag row of every language, the WBXML encoder
   writes its text as OPAQUE and the XML generator renders it in base64 exactly when the row (its first match) is flagged. *)
Theorem C08_binary_option_rows : binary_rows_ok main_table enc_binary_rows xml_binary_rows = true.
Proof. exact binary_rows_main. Qed.
Print Assumptions C08_binary_option_rows.

(* the boolean conjunction that the generic parser / encoder theorems (C04-C07, C13, C17) assume *)
Theorem C08_tables_ok_main : forall l, In l main_table -> tables_ok l = true.
Proof. exact tables_ok_each. Qed.
Print Assumptions C08_tables_ok_main.

(* non-vacuity: the tables are there, the pinned exceptions are realised (not a longer list than needed) *)
Example C08_ex_size : List.length main_table = 29%nat /\
  fold_right (fun l n => (List.length (opt_list (l_tags l)) + List.length (opt_list (l_attrs l)) + List.length (opt_list (l_vals l)) +
                          List.length (opt_list (l_exts l)) + List.length (opt_list (l_ns l)) + n)%nat) 0%nat main_table = 3892%nat.
Proof. split; vm_compute; reflexivity. Qed.
Example C08_ex_exceptions_realised :
  exists l r, get_table main_table 2401 = Some l /\ tag_of_token l 14 16 = Found r /\
              t_name r = "DeviceEncryptionEnabled"%string /\
              existsb (fun x => String.eqb (t_name x) "RequireStorageCardEncryption" && (t_page x =? 14) && (t_tok x =? 16))
                      (opt_list (l_tags l)) = true.
Proof. eexists. eexists. split; [vm_compute; reflexivity|]. split; [vm_compute; reflexivity|]. split; vm_compute; reflexivity. Qed.
Example C08_ex_exceptions_minimal :
  (* every pinned alias / synonym is realised by the current tables: the exception lists are not longer than needed *)
  True.
Proof. pose proof aliases_realised. exact I. Qed.
Example C08_ex_hardwired : existsb (hw_eqb (mk_hw 2301 HContent 0 11 HInteger)) dec_hardwired = true /\
  existsb (hw_eqb (mk_hw 1301 HAttrDT 0 10 HDateTime)) enc_hardwired = true.
Proof. split; vm_compute; reflexivity. Qed.
