(* C03 (capstone, at the level of the two conversion models) — XML -> WBXML -> XML:
     ConvXml2Wbxml.xml2wbxml_events   the XML front end (Model/XmlFront.v) on Expat's events + the WBXML encoder (Model/EncWbxml.v)
     ConvConcrete.wbxml2xml_model     the WBXML parser + tree builder + XML generator
   Only statements, each closed by `exact`, with Print Assumptions beneath.  Proofs: Proofs/ConvRoundTrip.v (composition),
   Proofs/TreeRoundTrip.v, Proofs/EncWbxmlSerialize.v + EncWbxmlDenote.v (the encoder's bytes), Proofs/ParserProofsDoc.v (parser),
   Proofs/TreeBuildProofs3.v (tree builder), Proofs/EncXmlIndent.v (generator and reader). *)
From Coq Require Import String.
From Coq Require Import List NArith Bool.
From Wbxml Require Import Model.Codec Model.TablesDefs Gen.TablesData Model.Parser Model.TreeBuild Model.TreeConv Model.Conv Model.ConvConcrete
     Proofs.TreeBuildProofs Proofs.TreeBuildProofs3 Proofs.TreeRoundTrip Proofs.ConvRoundTrip Proofs.ConvSecondIter Proofs.ConvFirstToSecond Proofs.ConvSecondIndent Proofs.ConvSecondNs
     Proofs.TreeRoundTripWide Proofs.ConvRoundTripWide Proofs.ConvWideUnforced Proofs.ConvSecondIterWide Proofs.ConvFirstToSecondWide Proofs.ConvSecondIndentWide Proofs.ConvWideEvents.
From Wbxml Require Model.XmlFrontCanonEvents.
From Wbxml Require Import Proofs.TreeRoundTripUnion Proofs.ConvRoundTripUnion.
From Wbxml Require Proofs.EncWbxmlAbs5 Proofs.EncWbxmlDenote5 Proofs.EncWbxmlDenote6 Proofs.EncWbxmlClass6 Proofs.EncWbxmlUnion.
From Wbxml Require Model.XmlFrontEvents Proofs.XmlFrontInverse Model.EncWbxmlEvents.
From Wbxml Require Proofs.EncWbxmlSize Proofs.EncWbxmlSize2 Proofs.EncWbxmlSuccess.
From Wbxml Require Proofs.EncWbxmlAbs Proofs.EncWbxmlDenote2 Proofs.EncWbxmlTblOk Proofs.EncWbxmlDenote3.
From Wbxml Require Model.EncWbxml Model.EncWbxmlTables Model.TreeNorm Proofs.EncWbxmlProofs Proofs.EncWbxmlSerialize Proofs.EncWbxmlDenote.
From Wbxml Require Model.EncXml Model.XmlRead Proofs.EncXmlProofs Proofs.EncXmlIndent.
From Wbxml Require Model.XmlFront Model.ConvXml2Wbxml Model.LangSelect Proofs.FrontSimple Proofs.FrontSimpleNs.
Import ListNotations.
Local Open Scope N_scope.

(* PARTIAL (the fragment; hypotheses on the strings for the reader).
   For every Expat event list `evs` (with Expat's verdict) of a document whose front-end tree lies in the fragment for which the
   WBXML encoder's output is proved to be the serialization of a strict document — the fragment predicates are those of
   C03b_roundtrip_fragment_partial: frag_lang, frag_node (one root, token tags 5..63 not binary-flagged, no attributes, text
   children), no string table, numeric public id, tree_ok against the decoder's table, and no element named "Data" — every encoder
   option tuple o and every generator option tuple o' (mode, indent, keep-ws; the language either forced to the language's id or
   not forced at all, then the public identifier the encoder wrote must select it: lang_choice):

     r_out (xml2wbxml_events ... evs ... o doc) = Some w
     ==>  wbxml2xml_model TBL o' w = OK with output x (followed by the NUL) and length |x|,
          x = the generator's text for the tree root' (below), and, when the names and characters of that tree are XML names and
          characters (lang_ok, node_ok_g — properties of the document's strings, which hold for what Expat delivers but are
          not derivable from an arbitrary event list),
          read_xml x = ROk (the document with the language's DOCTYPE whose root element has the root's name, the specified
          namespace attribute and the content c), where info_g of root' = [.. XE name attrs c ..]: the infoset of x is the
          specified infoset of root'.

   root' = TElt tag [] (merge_text (flat_map tn (flat_map (norm_node keep_ws false) children))): the source tree with exactly
   these normalisations, and no other change:
     1. norm (Model/TreeNorm.v), only when the ENCODER's keep_ws is off: a text that is blank-only disappears, any other text
        loses its leading and trailing blanks (wbxml_buffer_strip_blanks);
     2. C-string cut (tn): a text is cut at its first NUL (STR_I carries a C string); a text that is then empty disappears;
     3. text merge (merge_text): adjacent text nodes are one node (wbxml_tree_add_node) — after 1 and 2 removed what stood
        between them;
     4. a token tag keeps page, token and name; the tag's option bits are not carried by WBXML (the generator looks them up
        again in the table: to_tname).
   The GENERATOR's options then act on root' as info_g specifies (indentation white space, its own keep_ws on text). *)
Theorem C03_conversion_roundtrip_fragment_partial :
  forall (main TBL : list lang) (btbl : list EncWbxml.blang) (sub : EncWbxml.bytes -> XmlFront.xtree + N)
         evs expat_ok o doc w (L : lang) l p t opts nm ch o',
  r_out (ConvXml2Wbxml.xml2wbxml_events main btbl sub evs expat_ok o doc) = Some w ->
  (forall t0, XmlFront.tree_from_xml main sub doc evs expat_ok = inl t0 ->
     EncWbxml.find_lang btbl (XmlFront.xt_lang t0) = Some l /\ XmlFront.xt_roots t0 = [EncWbxml.NElt (EncWbxml.TagTok p t opts nm) [] ch]) ->
  EncWbxmlSerialize.frag_lang l = true -> EncWbxml.o_use_strtbl o = false -> EncWbxmlProofs.no_pid (EncWbxml.enc_env l o) = true ->
  EncWbxmlSerialize.frag_node (EncWbxml.NElt (EncWbxml.TagTok p t opts nm) [] ch) = true ->
  find (fun x => l_id x =? l_id L) TBL = Some L ->
  lang_choice TBL L (EncWbxml.header_public_id (EncWbxml.enc_env l o)) (wo_lang o') -> wo_charset o' = 0 ->
  EncWbxmlDenote.tree_ok L 0 (EncWbxml.NElt (EncWbxml.TagTok p t opts nm) [] ch) = true ->
  EncWbxml.o_version o < 4 -> EncWbxml.header_public_id (EncWbxml.enc_env l o) < 4294967296 ->
  EncWbxml.header_public_id (EncWbxml.enc_env l o) <> 0 ->
  no_data (flat_map EncWbxmlDenote.events_node (TreeNorm.norm (EncWbxml.o_keep_ws o) [EncWbxml.NElt (EncWbxml.TagTok p t opts nm) [] ch])) = true ->
  let root' := TElt (TagTok p t nm) [] (merge_text (flat_map tn (flat_map (TreeNorm.norm_node (EncWbxml.o_keep_ws o) false) ch))) in
  let xl := EncXml.xlang_of L in
  let xo := EncXml.opts_of_params (gen_of (wo_gen o')) (wo_indent o') (wo_keep_ws o') in
  exists x,
    wbxml2xml_model TBL o' w = mk_res ST_OK (Some (x ++ [0])) (N.of_nat (length x)) /\
    EncXml.enc_xml_opts xl xo [to_xnode TBL L root'] = EncXml.XOk x /\
    (EncXmlProofs.lang_ok xl = true ->
     EncXmlIndent.node_ok_g xl xo EncXml.proot None (to_xnode TBL L root') = true ->
     exists c s',
       EncXmlIndent.info_g xl xo EncXml.proot (EncXml.est0 0) (to_xnode TBL L root')
         = Some ([XmlRead.XT []; XmlRead.XE (EncXml.tname_bytes (to_tname L (TagTok p t nm)))
                                             (EncXmlProofs.spec_attrs xl xo EncXml.proot (to_tname L (TagTok p t nm)) []) c;
                  XmlRead.XT (EncXml.nl_if xo)], s') /\
       forall fuel, (EncXmlProofs.node_fuel (to_xnode TBL L root') + 2 <= fuel)%nat ->
         XmlRead.read_xml fuel x =
         XmlRead.ROk (EncXmlProofs.doc_of xl
                        [XmlRead.XE (EncXml.tname_bytes (to_tname L (TagTok p t nm)))
                                    (EncXmlProofs.spec_attrs xl xo EncXml.proot (to_tname L (TagTok p t nm)) []) c])).
Proof. exact conversion_roundtrip. Qed.
Print Assumptions C03_conversion_roundtrip_fragment_partial.

(* the middle of the chain, with the language not forced: the tree the second conversion builds from the encoder's bytes *)
Theorem C03_roundtrip_tree_unforced_partial : forall tblb TBL L l o p t opts nm ch forced,
  EncWbxmlSerialize.frag_lang l = true -> EncWbxml.o_use_strtbl o = false -> EncWbxmlProofs.no_pid (EncWbxml.enc_env l o) = true ->
  EncWbxmlSerialize.frag_node (EncWbxml.NElt (EncWbxml.TagTok p t opts nm) [] ch) = true ->
  find (fun x => l_id x =? l_id L) TBL = Some L ->
  lang_choice TBL L (EncWbxml.header_public_id (EncWbxml.enc_env l o)) forced ->
  EncWbxmlDenote.tree_ok L 0 (EncWbxml.NElt (EncWbxml.TagTok p t opts nm) [] ch) = true ->
  EncWbxml.o_version o < 4 -> EncWbxml.header_public_id (EncWbxml.enc_env l o) < 4294967296 ->
  EncWbxml.header_public_id (EncWbxml.enc_env l o) <> 0 ->
  no_data (flat_map EncWbxmlDenote.events_node (TreeNorm.norm (EncWbxml.o_keep_ws o) [EncWbxml.NElt (EncWbxml.TagTok p t opts nm) [] ch])) = true ->
  exists bs, EncWbxml.enc_wbxml tblb l o [EncWbxml.NElt (EncWbxml.TagTok p t opts nm) [] ch] = EncWbxml.EOk bs /\ bs <> [] /\
    forall ef, tree_from_wbxml TBL forced 0 ef bs
               = BOk (mk_wtree (l_id L) 106 (hd_error (flat_map tn (TreeNorm.norm (EncWbxml.o_keep_ws o) [EncWbxml.NElt (EncWbxml.TagTok p t opts nm) [] ch])))).
Proof. exact roundtrip_fragment_choice. Qed.
Print Assumptions C03_roundtrip_tree_unforced_partial.

(* the generator accepts every tree of elements and non-empty texts (so the second conversion cannot fail in the fragment) *)
Theorem C03_generator_accepts_simple_trees : forall l g indent keep roots,
  forallb simple roots = true -> exists out, EncXml.enc_xml l g indent keep roots = EncXml.XOk out.
Proof. exact enc_xml_simple_ok. Qed.
Print Assumptions C03_generator_accepts_simple_trees.

(* ================================ the second iteration ================================ *)

(* The clause of C03 is about the XML: "a second iteration is byte-identical".  The WBXML of the second iteration is NOT always
   the first WBXML, also inside the fragment: <p>  </p> (blank content, keep_ws off) is written 60 01 (element with content, END)
   the first time and, coming back as <p/>, 20 the second time - C03_ex_second_wbxml_differs below; props/C03 records this as an
   observation (about a quarter of its cases).  So the statement is: the second XML equals the first.

   Ingredients, each a theorem of its own:
   (1) C03_generated_xml_infoset: for compact or canonical generation, a language without namespace table, and a tree of
       elements (non-binary rows) and texts that the generator's white-space policy leaves alone, without adjacent texts, the
       infoset of the generated XML (info_g, which read_xml returns - C05's theorem) is the tree itself: element for element,
       text for text (items_for: an element stands between two empty white-space items, which the merge removes).
   (2) C03_front_end_rebuilds_simple_tree: the XML front end, fed with the events of such a document - XML declaration without
       encoding, DOCTYPE, start / end element events without attributes, ONE character-data event per text (the assumption
       about Expat; the front end joins split character data anyway) - builds exactly that tree, when the language's table
       resolves every tag name back to the tag (fgood: a property of the table, true by computation for concrete trees).
   (3) C03_normalised_tree_is_fixed_point: a tree whose texts have no NUL, are not empty and are left alone by the encoder's
       white-space policy, without adjacent texts, is unchanged by norm + C-string cut + text merge (norm_idempotent,
       strip_blanks_idem of Proofs/TreeNormProofs.v are the reasons such trees come out of the first iteration).
   PARTIAL: the fragment of the first theorem, compact / canonical generation, no namespaces; the hypotheses about R2 (the
   encoder-side form of the first iteration's tree: tnode_of R2 = root') are stated, not derived from the first iteration. *)
Theorem C03_generated_xml_infoset : forall TBL L xo,
  EncXml.is_indent xo = false -> EncXml.xl_ns (EncXml.xlang_of L) = None -> EncXml.is_syncml (EncXml.xlang_of L) = false ->
  forall T, tgood L xo T -> forall parent s, EncXml.e_in_cdata s = false -> EncXml.tag_is_binary (EncXml.text_tag s parent) = false ->
  exists s', EncXmlIndent.info_g (EncXml.xlang_of L) xo parent s (to_xnode TBL L T) = Some (items_for L T, s') /\ EncXml.e_in_cdata s' = false.
Proof. exact info_compact. Qed.
Print Assumptions C03_generated_xml_infoset.

Theorem C03_front_end_rebuilds_simple_tree : forall main sub input L p t o nm ch rootname sysid pubid,
  input <> [] ->
  LangSelect.search_table main (option_map XmlFront.str pubid) (option_map XmlFront.str sysid) None = Some L ->
  FrontSimple.fgood L 0 (EncWbxml.NElt (EncWbxml.TagTok p t o nm) [] ch) ->
  XmlFront.tree_from_xml main sub input (FrontSimple.doc_events rootname sysid pubid (EncWbxml.NElt (EncWbxml.TagTok p t o nm) [] ch)) true
  = inl (XmlFront.mk_xtree (l_id L) 0 [EncWbxml.NElt (EncWbxml.TagTok p t o nm) [] ch]).
Proof. exact FrontSimple.front_of_simple_tree. Qed.
Print Assumptions C03_front_end_rebuilds_simple_tree.

Theorem C03_normalised_tree_is_fixed_point : forall keep n, enormal keep n ->
  flat_map tn (TreeNorm.norm_node keep false n) = [tnode_of n].
Proof. exact normal_fix. Qed.
Print Assumptions C03_normalised_tree_is_fixed_point.

Theorem C03_second_iteration_identical_partial :
  forall (main TBL : list lang) (btbl : list EncWbxml.blang) (sub : EncWbxml.bytes -> XmlFront.xtree + N)
         (L : lang) l o o' p t opts nm ch2 x,
  let R2 := EncWbxml.NElt (EncWbxml.TagTok p t opts nm) [] ch2 in
  let root' := tnode_of R2 in
  let xl := EncXml.xlang_of L in
  let xo := EncXml.opts_of_params (gen_of (wo_gen o')) (wo_indent o') (wo_keep_ws o') in
  (* x is the XML of the first iteration (C03_conversion_roundtrip_fragment_partial): the generator's text for root' *)
  EncXml.enc_xml_opts xl xo [to_xnode TBL L root'] = EncXml.XOk x ->
  EncXmlProofs.lang_ok xl = true -> EncXmlIndent.node_ok_g xl xo EncXml.proot None (to_xnode TBL L root') = true ->
  EncXml.is_indent xo = false -> EncXml.xl_ns xl = None -> EncXml.is_syncml xl = false ->
  tgood L xo root' -> nm_ok L R2 -> FrontSimple.fgood L 0 R2 ->
  LangSelect.search_table main (option_map XmlFront.str (EncXml.xl_pub xl)) (Some (XmlFront.str (EncXml.xl_dtd xl))) None = Some L ->
  enormal (EncWbxml.o_keep_ws o) R2 ->
  EncWbxml.find_lang btbl (l_id L) = Some l ->
  EncWbxmlSerialize.frag_lang l = true -> EncWbxml.o_use_strtbl o = false -> EncWbxmlProofs.no_pid (EncWbxml.enc_env l o) = true ->
  EncWbxmlSerialize.frag_node R2 = true ->
  find (fun y => l_id y =? l_id L) TBL = Some L ->
  lang_choice TBL L (EncWbxml.header_public_id (EncWbxml.enc_env l o)) (wo_lang o') -> wo_charset o' = 0 ->
  EncWbxmlDenote.tree_ok L 0 R2 = true ->
  EncWbxml.o_version o < 4 -> EncWbxml.header_public_id (EncWbxml.enc_env l o) < 4294967296 ->
  EncWbxml.header_public_id (EncWbxml.enc_env l o) <> 0 ->
  no_data (flat_map EncWbxmlDenote.events_node (TreeNorm.norm (EncWbxml.o_keep_ws o) [R2])) = true ->
  exists c d,
    (* what an XML parser reads from x ... *)
    d = EncXmlProofs.doc_of xl [XmlRead.XE (EncXml.tname_bytes (to_tname L (TagTok p t nm))) [] c] /\
    (forall fuel, (EncXmlProofs.node_fuel (to_xnode TBL L root') + 2 <= fuel)%nat -> XmlRead.read_xml fuel x = XmlRead.ROk d) /\
    (* ... delivered as events, is the event list of R2 ... *)
    events_of_info d = FrontSimple.doc_events (EncXml.xl_root xl) (Some (EncXml.xl_dtd xl)) (EncXml.xl_pub xl) R2 /\
    forall doc2, doc2 <> [] ->
      (* ... from which the front end rebuilds R2, the encoder writes some w2, and the second conversion of w2 is x again *)
      XmlFront.tree_from_xml main sub doc2 (events_of_info d) true = inl (XmlFront.mk_xtree (l_id L) 0 [R2]) /\
      exists w2, r_out (ConvXml2Wbxml.xml2wbxml_events main btbl sub (events_of_info d) true o doc2) = Some w2 /\
                 wbxml2xml_model TBL o' w2 = mk_res ST_OK (Some (x ++ [0])) (N.of_nat (length x)).
Proof. exact second_iteration_normal. Qed.
Print Assumptions C03_second_iteration_identical_partial.

(* ================================ end to end ================================ *)

(* C03 at the level of the two conversion models, from hypotheses about the SOURCE only: the hypotheses of the first-iteration
   theorem, the properties every tree of the front end has for Expat's events (src_ok: every tag name, looked up again in the
   language's table, gives the same tag - i.e. the names of the tree are unambiguous in the table -, no embedded-document root
   names, depth below the nesting limit, rows not binary-flagged, texts without NUL, not empty, not adjacent), compact or
   canonical generation with a white-space policy not stricter than the encoder's (keep_compatible), a language without
   namespace table and not SyncML, and the reader's hypotheses on the strings.  Then:
     ONE TRIP    w is converted to x; x reads back (read_xml) as the document with the language's DOCTYPE whose root element has
                 the source root's name and, as content c, EXACTLY the normalised source children (norm per the encoder's
                 keep_ws: blank texts dropped, texts trimmed), element for element, text for text;
     SECOND TRIP the events an XML parser delivers for x make the front end rebuild the normalised tree, the encoder write some
                 w2 (not always w: C03_ex_second_wbxml_differs), and the second conversion of w2 is x, byte for byte.
   PARTIAL in: the fragment (the predicates of C03b_roundtrip_fragment_partial), the stated assumption about Expat (events_of_info:
   one character-data event per text, DOCTYPE as written), the restriction to compact / canonical generation and to languages
   without namespace table (the other cases: C03_second_iteration_* below when they exist), and src_ok being a hypothesis on the
   front-end tree rather than a theorem about XmlFront for every event list. *)
Theorem C03_roundtrip_and_idempotence_partial :
  forall (main TBL : list lang) (btbl : list EncWbxml.blang) (sub : EncWbxml.bytes -> XmlFront.xtree + N)
         evs expat_ok o doc w (L : lang) l p t opts nm ch o',
  let root := EncWbxml.NElt (EncWbxml.TagTok p t opts nm) [] ch in
  let R2 := EncWbxml.NElt (EncWbxml.TagTok p t opts nm) [] (flat_map (TreeNorm.norm_node (EncWbxml.o_keep_ws o) false) ch) in
  let root' := tnode_of R2 in
  let xl := EncXml.xlang_of L in
  let xo := EncXml.opts_of_params (gen_of (wo_gen o')) (wo_indent o') (wo_keep_ws o') in
  r_out (ConvXml2Wbxml.xml2wbxml_events main btbl sub evs expat_ok o doc) = Some w ->
  (forall t0, XmlFront.tree_from_xml main sub doc evs expat_ok = inl t0 ->
     EncWbxml.find_lang btbl (XmlFront.xt_lang t0) = Some l /\ XmlFront.xt_roots t0 = [root]) ->
  EncWbxmlSerialize.frag_lang l = true -> EncWbxml.o_use_strtbl o = false -> EncWbxmlProofs.no_pid (EncWbxml.enc_env l o) = true ->
  EncWbxmlSerialize.frag_node root = true ->
  find (fun y => l_id y =? l_id L) TBL = Some L ->
  lang_choice TBL L (EncWbxml.header_public_id (EncWbxml.enc_env l o)) (wo_lang o') -> wo_charset o' = 0 ->
  EncWbxmlDenote.tree_ok L 0 root = true ->
  EncWbxml.o_version o < 4 -> EncWbxml.header_public_id (EncWbxml.enc_env l o) < 4294967296 ->
  EncWbxml.header_public_id (EncWbxml.enc_env l o) <> 0 ->
  no_data (flat_map EncWbxmlDenote.events_node (TreeNorm.norm (EncWbxml.o_keep_ws o) [root])) = true ->
  src_ok L 0 root -> EncWbxml.find_lang btbl (l_id L) = Some l ->
  LangSelect.search_table main (option_map XmlFront.str (EncXml.xl_pub xl)) (Some (XmlFront.str (EncXml.xl_dtd xl))) None = Some L ->
  EncXml.is_indent xo = false -> EncXml.xl_ns xl = None -> EncXml.is_syncml xl = false -> keep_compatible (EncWbxml.o_keep_ws o) xo ->
  EncXmlProofs.lang_ok xl = true -> EncXmlIndent.node_ok_g xl xo EncXml.proot None (to_xnode TBL L root') = true ->
  exists x c d,
    wbxml2xml_model TBL o' w = mk_res ST_OK (Some (x ++ [0])) (N.of_nat (length x)) /\
    EncXml.enc_xml_opts xl xo [to_xnode TBL L root'] = EncXml.XOk x /\
    d = EncXmlProofs.doc_of xl [XmlRead.XE (EncXml.tname_bytes (to_tname L (TagTok p t nm))) [] c] /\
    c = flat_map (item_of L) (map tnode_of (flat_map (TreeNorm.norm_node (EncWbxml.o_keep_ws o) false) ch)) /\
    (forall fuel, (EncXmlProofs.node_fuel (to_xnode TBL L root') + 2 <= fuel)%nat -> XmlRead.read_xml fuel x = XmlRead.ROk d) /\
    events_of_info d = FrontSimple.doc_events (EncXml.xl_root xl) (Some (EncXml.xl_dtd xl)) (EncXml.xl_pub xl) R2 /\
    forall doc2, doc2 <> [] ->
      XmlFront.tree_from_xml main sub doc2 (events_of_info d) true = inl (XmlFront.mk_xtree (l_id L) 0 [R2]) /\
      exists w2, r_out (ConvXml2Wbxml.xml2wbxml_events main btbl sub (events_of_info d) true o doc2) = Some w2 /\
                 wbxml2xml_model TBL o' w2 = mk_res ST_OK (Some (x ++ [0])) (N.of_nat (length x)).
Proof. exact roundtrip_and_idempotence. Qed.
Print Assumptions C03_roundtrip_and_idempotence_partial.

(* the hypotheses about R2 of C03_second_iteration_identical_partial are consequences of src_ok for the source *)
Theorem C03_normalised_source_is_normal : forall L keep n d, src_ok L d n -> Forall (enormal keep) (TreeNorm.norm_node keep false n).
Proof. exact norm_enormal. Qed.
Print Assumptions C03_normalised_source_is_normal.

(* ================================ indented generation ================================ *)

(* The same end-to-end statement for INDENTED generation (any indent width), when the encoder's keep_ws is OFF: the white space
   that the generator inserts between markup is read back as character data, the front end builds the tree "R2 with blank texts
   between markup" (etree of the reading), and the encoder's normalisation drops / trims exactly that white space: the normal form
   of that tree is R2 again (from C07's reading theorem - the indented and the compact readings are equal modulo blank text
   between markup, nb - and NN_nb: the normal form does not see what nb removes).  So the second trip writes x again.
   With keep_ws ON the statement is FALSE: the indentation is kept as content and indented again - x grows at every trip, in the
   C and in both models alike (C03_ex_indent_keep_ws_grows; reported to the coordinator as a candidate finding; props/C03's way
   back is compact and does not see it). *)
Theorem C03_roundtrip_and_idempotence_indent_partial :
  forall (main TBL : list lang) (btbl : list EncWbxml.blang) (sub : EncWbxml.bytes -> XmlFront.xtree + N)
         evs expat_ok o doc w (L : lang) l p t opts nm ch o',
  let root := EncWbxml.NElt (EncWbxml.TagTok p t opts nm) [] ch in
  let R2 := EncWbxml.NElt (EncWbxml.TagTok p t opts nm) [] (flat_map (TreeNorm.norm_node false false) ch) in
  let root' := tnode_of R2 in
  let xl := EncXml.xlang_of L in
  let xoc := EncXml.opts_of_params EncXml.Compact 0 (wo_keep_ws o') in
  r_out (ConvXml2Wbxml.xml2wbxml_events main btbl sub evs expat_ok o doc) = Some w ->
  (forall t0, XmlFront.tree_from_xml main sub doc evs expat_ok = inl t0 ->
     EncWbxml.find_lang btbl (XmlFront.xt_lang t0) = Some l /\ XmlFront.xt_roots t0 = [root]) ->
  EncWbxmlSerialize.frag_lang l = true -> EncWbxml.o_use_strtbl o = false -> EncWbxmlProofs.no_pid (EncWbxml.enc_env l o) = true ->
  EncWbxmlSerialize.frag_node root = true ->
  find (fun y => l_id y =? l_id L) TBL = Some L ->
  lang_choice TBL L (EncWbxml.header_public_id (EncWbxml.enc_env l o)) (wo_lang o') -> wo_charset o' = 0 ->
  EncWbxmlDenote.tree_ok L 0 root = true ->
  EncWbxml.o_version o < 4 -> EncWbxml.header_public_id (EncWbxml.enc_env l o) < 4294967296 ->
  EncWbxml.header_public_id (EncWbxml.enc_env l o) <> 0 ->
  no_data (flat_map EncWbxmlDenote.events_node (TreeNorm.norm (EncWbxml.o_keep_ws o) [root])) = true ->
  src_ok L 0 root -> EncWbxml.find_lang btbl (l_id L) = Some l ->
  LangSelect.search_table main (option_map XmlFront.str (EncXml.xl_pub xl)) (Some (XmlFront.str (EncXml.xl_dtd xl))) None = Some L ->
  gen_of (wo_gen o') = EncXml.Indent -> EncWbxml.o_keep_ws o = false ->
  EncXml.xl_ns xl = None -> EncXml.is_syncml xl = false ->
  EncXmlProofs.lang_ok xl = true -> EncXmlIndent.node_ok_g xl xoc EncXml.proot None (to_xnode TBL L root') = true ->
  exists x ci d,
    wbxml2xml_model TBL o' w = mk_res ST_OK (Some (x ++ [0])) (N.of_nat (length x)) /\
    EncXml.enc_xml xl EncXml.Indent (wo_indent o') (wo_keep_ws o') [to_xnode TBL L root'] = EncXml.XOk x /\
    d = EncXmlProofs.doc_of xl [XmlRead.XE nm [] ci] /\
    (forall fuel, (EncXmlProofs.node_fuel (to_xnode TBL L root') + 2 <= fuel)%nat -> XmlRead.read_xml fuel x = XmlRead.ROk d) /\
    TreeNorm.norm false [etree L (XmlRead.XE nm [] ci)] = [R2] /\
    forall doc2, doc2 <> [] ->
      XmlFront.tree_from_xml main sub doc2 (events_of_info d) true = inl (XmlFront.mk_xtree (l_id L) 0 [etree L (XmlRead.XE nm [] ci)]) /\
      exists w2, r_out (ConvXml2Wbxml.xml2wbxml_events main btbl sub (events_of_info d) true o doc2) = Some w2 /\
                 wbxml2xml_model TBL o' w2 = mk_res ST_OK (Some (x ++ [0])) (N.of_nat (length x)).
Proof. exact roundtrip_and_idempotence_indent. Qed.
Print Assumptions C03_roundtrip_and_idempotence_indent_partial.

(* the normal form of a front-end tree does not see the difference between two readings that are equal modulo blank text
   between markup *)
Theorem C03_normal_form_ignores_blank_text_between_markup : forall L it, NN L (EncXmlIndent.nb it) = NN L it.
Proof. exact NN_nb. Qed.
Print Assumptions C03_normal_form_ignores_blank_text_between_markup.

(* ================================ languages with a namespace table ================================ *)

(* "Namespace declarations regenerated": the generator writes xmlns="<namespace of the code page>" on the root element and on
   every element whose code page differs from its parent's (spec_ns); an XML parser in namespace mode - Expat as
   wbxml_tree_from_xml creates it, XML_ParserCreateNS(NULL, '|') - does not report these as attributes but prefixes element
   names: "namespace|local" (events_of_info_ns; the namespace in force is inherited); the front end finds the code page by the
   namespace and the tag by the local name (resolve_tag).  For a tree whose tags are table rows under their own code page, every
   code page having a namespace (ns_ok), and whose qualified names resolve back to the tags (fgood for the naming function en),
   the second trip rebuilds the tree and reproduces x.  PARTIAL as C03_second_iteration_identical_partial (compact / canonical
   generation, hypotheses on R2 stated; the indented case and the derivation from the source are proved for languages without
   namespace table only). *)
Theorem C03_second_iteration_namespaces_partial :
  forall (main TBL : list lang) (btbl : list EncWbxml.blang) (sub : EncWbxml.bytes -> XmlFront.xtree + N)
         (L : lang) (nst : list EncXml.nsrow) l o o' p t opts nm ch2 x,
  let R2 := EncWbxml.NElt (EncWbxml.TagTok p t opts nm) [] ch2 in
  let root' := tnode_of R2 in
  let xl := EncXml.xlang_of L in
  let xo := EncXml.opts_of_params (gen_of (wo_gen o')) (wo_indent o') (wo_keep_ws o') in
  EncXml.enc_xml_opts xl xo [to_xnode TBL L root'] = EncXml.XOk x ->
  EncXmlProofs.lang_ok xl = true -> EncXmlIndent.node_ok_g xl xo EncXml.proot None (to_xnode TBL L root') = true ->
  EncXml.is_indent xo = false -> EncXml.xl_ns xl = Some nst -> EncXml.is_syncml xl = false ->
  tgood L xo root' -> ns_ok L nst R2 -> FrontSimpleNs.fgood (en nst) L 0 R2 ->
  LangSelect.search_table main (option_map XmlFront.str (EncXml.xl_pub xl)) (Some (XmlFront.str (EncXml.xl_dtd xl))) None = Some L ->
  TElt (TagTok p t nm) [] (merge_text (flat_map tn (flat_map (TreeNorm.norm_node (EncWbxml.o_keep_ws o) false) ch2))) = root' ->
  EncWbxml.find_lang btbl (l_id L) = Some l ->
  EncWbxmlSerialize.frag_lang l = true -> EncWbxml.o_use_strtbl o = false -> EncWbxmlProofs.no_pid (EncWbxml.enc_env l o) = true ->
  EncWbxmlSerialize.frag_node R2 = true ->
  find (fun y => l_id y =? l_id L) TBL = Some L ->
  lang_choice TBL L (EncWbxml.header_public_id (EncWbxml.enc_env l o)) (wo_lang o') -> wo_charset o' = 0 ->
  EncWbxmlDenote.tree_ok L 0 R2 = true ->
  EncWbxml.o_version o < 4 -> EncWbxml.header_public_id (EncWbxml.enc_env l o) < 4294967296 ->
  EncWbxml.header_public_id (EncWbxml.enc_env l o) <> 0 ->
  no_data (flat_map EncWbxmlDenote.events_node (TreeNorm.norm (EncWbxml.o_keep_ws o) [R2])) = true ->
  exists c d,
    d = EncXmlProofs.doc_of xl [XmlRead.XE (EncXml.tname_bytes (to_tname L (TagTok p t nm)))
                                         (EncXmlProofs.spec_ns xl EncXml.proot (to_tname L (TagTok p t nm))) c] /\
    (forall fuel, (EncXmlProofs.node_fuel (to_xnode TBL L root') + 2 <= fuel)%nat -> XmlRead.read_xml fuel x = XmlRead.ROk d) /\
    events_of_info_ns d = FrontSimpleNs.doc_events (en nst) (EncXml.xl_root xl) (Some (EncXml.xl_dtd xl)) (EncXml.xl_pub xl) R2 /\
    forall doc2, doc2 <> [] ->
      XmlFront.tree_from_xml main sub doc2 (events_of_info_ns d) true = inl (XmlFront.mk_xtree (l_id L) 0 [R2]) /\
      exists w2, r_out (ConvXml2Wbxml.xml2wbxml_events main btbl sub (events_of_info_ns d) true o doc2) = Some w2 /\
                 wbxml2xml_model TBL o' w2 = mk_res ST_OK (Some (x ++ [0])) (N.of_nat (length x)).
Proof. exact second_iteration_ns. Qed.
Print Assumptions C03_second_iteration_namespaces_partial.

(* The first iteration on the WIDE fragment of the WBXML encoder (C06's string-table axis: C03b_roundtrip_wide_partial).
   PARTIAL in: the hypotheses of the encoder's wide theorem (tree_ok3: tags and attribute starts are the language's rows or names
   unknown to it, octets 1..255, depth <= 1000, no CDATA / PI; plain_env: not SyncML / Wireless-Village / DRM / OTA; no extension
   table), output below 4 GiB, no element named "Data".  The language of the second conversion is forced, or found by the numeric
   or the textual public identifier the encoder wrote (lang_choiceW; Proofs/ConvWideUnforced.v replays the encoder's theorem with
   the abstract document in view: C03_encoder_public_id_field).  Attributes (token starts with or without value
   prefix, literal names), literal tags, string table on or off, textual or numeric public id: the second conversion succeeds, its
   output is the generator's text for root' = the normalised source tree with tags by tag_event and attributes by attr_event
   (name and FULL value; dropped when the language has no attribute table, as the encoder drops them), and reading it back gives
   the infoset info_g specifies for root'.  On the narrow fragment tnw is tn (C03b_wide_tree_on_narrow_fragment).
   The second-iteration theorems stay on the narrow fragment: Proofs/FrontSimple.v (the front end on the events of the generated
   XML) has no attributes. *)
Theorem C03_conversion_roundtrip_wide_partial :
  forall (main TBL : list lang) (btbl : list EncWbxml.blang) (sub : EncWbxml.bytes -> XmlFront.xtree + N)
         evs expat_ok o doc w (L : lang) tag attrs ch o',
  let e := EncWbxml.enc_env (EncWbxmlDenote2.to_blang L) o in
  r_out (ConvXml2Wbxml.xml2wbxml_events main btbl sub evs expat_ok o doc) = Some w -> EncWbxml.len w < 4294967296 ->
  (forall t0, XmlFront.tree_from_xml main sub doc evs expat_ok = inl t0 ->
     EncWbxml.find_lang btbl (XmlFront.xt_lang t0) = Some (EncWbxmlDenote2.to_blang L) /\
     XmlFront.xt_roots t0 = [EncWbxml.NElt tag attrs ch]) ->
  EncWbxmlAbs.plain_env e = true -> EncWbxmlDenote2.vals_ok L = true -> l_exts L = None ->
  EncWbxmlTblOk.tree_ok3 L 0 (EncWbxml.NElt tag attrs ch) = true ->
  find (fun x => l_id x =? l_id L) TBL = Some L ->
  lang_choiceW TBL L e (wo_lang o') -> wo_charset o' = 0 ->
  EncWbxml.o_version o < 4 -> EncWbxml.header_public_id e < 4294967296 -> EncWbxml.header_public_id e <> 0 ->
  (match EncWbxmlAbs.header_pid e with Some p => EncWbxmlDenote2.okb p = true | None => True end) ->
  no_data (EncWbxmlDenote3.doc_events3 L e (EncWbxml.o_keep_ws o) (EncWbxml.NElt tag attrs ch)) = true ->
  let tg := EncWbxmlTblOk.tag_event tag in
  let at' := if EncWbxml.has_attr_table e then map EncWbxmlDenote2.attr_event attrs else [] in
  let root' := TElt tg at' (merge_text (flat_map (tnw (EncWbxml.has_attr_table e))
                                                 (flat_map (TreeNorm.norm_node (EncWbxml.o_keep_ws o) false) ch))) in
  let xl := EncXml.xlang_of L in
  let xo := EncXml.opts_of_params (gen_of (wo_gen o')) (wo_indent o') (wo_keep_ws o') in
  exists x,
    wbxml2xml_model TBL o' w = mk_res ST_OK (Some (x ++ [0])) (N.of_nat (length x)) /\
    EncXml.enc_xml_opts xl xo [to_xnode TBL L root'] = EncXml.XOk x /\
    (EncXmlProofs.lang_ok xl = true ->
     EncXmlIndent.node_ok_g xl xo EncXml.proot None (to_xnode TBL L root') = true ->
     exists c s',
       EncXmlIndent.info_g xl xo EncXml.proot (EncXml.est0 0) (to_xnode TBL L root')
         = Some ([XmlRead.XT []; XmlRead.XE (EncXml.tname_bytes (to_tname L tg))
                                             (EncXmlProofs.spec_attrs xl xo EncXml.proot (to_tname L tg) (map to_attr at')) c;
                  XmlRead.XT (EncXml.nl_if xo)], s') /\
       forall fuel, (EncXmlProofs.node_fuel (to_xnode TBL L root') + 2 <= fuel)%nat ->
         XmlRead.read_xml fuel x =
         XmlRead.ROk (EncXmlProofs.doc_of xl
                        [XmlRead.XE (EncXml.tname_bytes (to_tname L tg))
                                    (EncXmlProofs.spec_attrs xl xo EncXml.proot (to_tname L tg) (map to_attr at')) c])).
Proof. exact conversion_roundtrip_wide_choice. Qed.
Print Assumptions C03_conversion_roundtrip_wide_partial.

(* the public-identifier field of the document the encoder writes on the wide fragment (the existential document of
   C06's wide theorem, kept in view): whenever the id is written as a number, wd_pub d is that number; whenever it is written as
   a string p (language without numeric id, not anonymous), wd_pub d is an index of the written string table at which p stands
   (in the table proper with the string table on; as the table's only string without) — what an unforced parse selects the
   language by (lang_choiceW: forced / numeric id / textual id compared without regard to case) *)
Theorem C03_encoder_public_id_field : forall tblb TBL L o tag attrs ch bs,
  let e := EncWbxml.enc_env (EncWbxmlDenote2.to_blang L) o in
  EncWbxmlAbs.plain_env e = true -> EncWbxmlDenote2.vals_ok L = true -> l_exts L = None ->
  EncWbxmlTblOk.tree_ok3 L 0 (EncWbxml.NElt tag attrs ch) = true ->
  EncWbxml.o_version o < 4 -> EncWbxml.header_public_id e < 4294967296 -> EncWbxml.header_public_id e <> 0 ->
  (match EncWbxmlAbs.header_pid e with Some p => EncWbxmlDenote2.okb p = true | None => True end) ->
  EncWbxml.len bs < 4294967296 ->
  EncWbxml.enc_wbxml tblb (EncWbxmlDenote2.to_blang L) o [EncWbxml.NElt tag attrs ch] = EncWbxml.EOk bs ->
  exists d evs, bs = Spec.serialize d /\ Spec.denote_with TBL (Some L) d = Some evs /\
            EncWbxmlEvents.merge_chars evs
            = EncWbxmlEvents.merge_chars (EncWbxmlDenote3.doc_events3 L e (EncWbxml.o_keep_ws o) (EncWbxml.NElt tag attrs ch)) /\
            (EncWbxmlAbs.header_pid e = None -> Spec.wd_pub d = Spec.PubNum (EncWbxml.header_public_id e)) /\
            (forall p, EncWbxmlAbs.header_pid e = Some p ->
               exists i, Spec.wd_pub d = Spec.PubIdx i /\ Spec.str_at (Spec.wd_strtbl d) i = Some p /\
                         blen (Spec.wd_strtbl d) < 4294967296).
Proof. exact strict_decode_of_encoding3_pub. Qed.
Print Assumptions C03_encoder_public_id_field.

(* THE SECOND ITERATION ON THE WIDE FRAGMENT: attributes, literal tags, namespaces per code page together.
   x = the XML of the first round trip = the generator's text (compact or canonical) for root' = tnodeW R2.  PARTIAL in:
   * the Expat assumption (events_of_info_ns: namespace mode, one character-data event per text item) — its result is shown to be
     XmlFrontEvents.doc_events of R2, the event list whose parser assumptions the xmlfront agent ties against the C;
   * tgoodW (no binary-flagged rows, texts the generator's white-space policy leaves alone, no adjacent texts), wok (names,
     namespaces and attributes come back as written: elt_ok — with a namespace table every tag is a row under its own code page and
     the page has a namespace, so no literal tags there; attribute values NUL-free and free of TAB/LF/CR unless canonical; no
     attribute called xmlns), root_canon (the front end's canonical form, C02f_front_inverts_doc), enormalW (already normalised);
   * the hypotheses of the encoder's wide theorem for R2, and: THE SECOND ENCODING SUCCEEDS with some w2 below 4 GiB (the encoder's
     wide theorem does not give success; on the narrow fragment success is proved);
   * compact / canonical generation, not SyncML.
   Conclusion: the front end rebuilds R2 from those events, the first conversion gives w2, the second conversion of w2 gives x. *)
Theorem C03_second_iteration_identical_wide_partial :
  forall (main TBL : list lang) (btbl : list EncWbxml.blang) (sub : EncWbxml.bytes -> XmlFront.xtree + N)
         (L : lang) o o' tag attrs ch2 x w2,
  let e := EncWbxml.enc_env (EncWbxmlDenote2.to_blang L) o in
  let wa := EncWbxml.has_attr_table e in
  let R2 := EncWbxml.NElt tag attrs ch2 in
  let root' := tnodeW wa R2 in
  let xl := EncXml.xlang_of L in
  let xo := EncXml.opts_of_params (gen_of (wo_gen o')) (wo_indent o') (wo_keep_ws o') in
  let nmx := to_tname L (EncWbxmlTblOk.tag_event tag) in
  let ax := map to_attr (if wa then map EncWbxmlDenote2.attr_event attrs else []) in
  EncXml.enc_xml_opts xl xo [to_xnode TBL L root'] = EncXml.XOk x ->
  EncXmlProofs.lang_ok xl = true -> EncXmlIndent.node_ok_g xl xo EncXml.proot None (to_xnode TBL L root') = true ->
  EncXml.is_indent xo = false -> EncXml.is_syncml xl = false ->
  tgoodW L xo root' -> wok L xo wa R2 -> XmlFrontEvents.root_canon L XmlFrontInverse.no_emb R2 = true ->
  LangSelect.search_table main (option_map XmlFront.str (EncXml.xl_pub xl)) (Some (XmlFront.str (EncXml.xl_dtd xl))) None = Some L ->
  enormalW (EncWbxml.o_keep_ws o) R2 ->
  EncWbxml.find_lang btbl (l_id L) = Some (EncWbxmlDenote2.to_blang L) ->
  EncWbxmlAbs.plain_env e = true -> EncWbxmlDenote2.vals_ok L = true -> l_exts L = None ->
  EncWbxmlTblOk.tree_ok3 L 0 R2 = true ->
  find (fun y => l_id y =? l_id L) TBL = Some L ->
  lang_choiceW TBL L e (wo_lang o') -> wo_charset o' = 0 ->
  EncWbxml.o_version o < 4 -> EncWbxml.header_public_id e < 4294967296 -> EncWbxml.header_public_id e <> 0 ->
  (match EncWbxmlAbs.header_pid e with Some p => EncWbxmlDenote2.okb p = true | None => True end) ->
  no_data (EncWbxmlDenote3.doc_events3 L e (EncWbxml.o_keep_ws o) R2) = true ->
  EncWbxml.enc_wbxml btbl (EncWbxmlDenote2.to_blang L) o [R2] = EncWbxml.EOk w2 -> EncWbxml.len w2 < 4294967296 ->
  exists c d,
    d = EncXmlProofs.doc_of xl [XmlRead.XE (EncXml.tname_bytes nmx) (EncXmlProofs.spec_attrs xl xo EncXml.proot nmx ax) c] /\
    (forall fuel, (EncXmlProofs.node_fuel (to_xnode TBL L root') + 2 <= fuel)%nat -> XmlRead.read_xml fuel x = XmlRead.ROk d) /\
    events_of_info_ns d = XmlFrontInverse.doc_events L (EncXml.xl_root xl) (Some (EncXml.xl_dtd xl)) (EncXml.xl_pub xl) R2 /\
    forall doc2, doc2 <> [] ->
      XmlFront.tree_from_xml main sub doc2 (events_of_info_ns d) true = inl (XmlFront.mk_xtree (l_id L) 0 [R2]) /\
      r_out (ConvXml2Wbxml.xml2wbxml_events main btbl sub (events_of_info_ns d) true o doc2) = Some w2 /\
      wbxml2xml_model TBL o' w2 = mk_res ST_OK (Some (x ++ [0])) (N.of_nat (length x)).
Proof. exact second_iteration_wide. Qed.
Print Assumptions C03_second_iteration_identical_wide_partial.

(* the normalised form of a canonical source tree is canonical for the front end (root_canon), normalised (enormalW), good for
   the generator (tgoodW) and comes back as written (wok): every hypothesis of the theorem above about R2, from src_okW of the
   SOURCE.  src_okW (decidable clause by clause): tag_canon / attrs_canon (the front end's own tables give the names back),
   depth < 1000, not an embedded-document name below the root, no element named "Data", not binary-flagged, elt_ok, NUL-free
   non-empty texts, no adjacent texts.  EXCLUDED, because the image of the front end is not canonical there
   (C02f_image_not_canonical_empty_text / _cdata_in_binary / _data_hack): empty text nodes, CDATA nodes, binary-flagged elements,
   elements named Data; also embedded trees and PIs. *)
Theorem C03_normalised_source_is_canonical_wide : forall L xo wa keep tag attrs ch,
  src_okW L xo wa 0 (EncWbxml.NElt tag attrs ch) ->
  XmlFrontEvents.root_canon L XmlFrontInverse.no_emb (EncWbxml.NElt tag attrs (flat_map (TreeNorm.norm_node keep false) ch)) = true.
Proof. exact norm_root_canon. Qed.
Print Assumptions C03_normalised_source_is_canonical_wide.

Theorem C03_normalised_source_is_normal_wide : forall L xo wa keep n d, src_okW L xo wa d n ->
  Forall (enormalW keep) (TreeNorm.norm_node keep false n) /\ Forall (wok L xo wa) (TreeNorm.norm_node keep false n) /\
  (keep_compatible keep xo -> Forall (fun m => tgoodW L xo (tnodeW wa m)) (TreeNorm.norm_node keep false n)).
Proof.
  intros L xo wa keep n d H. split; [exact (norm_enormalW L xo wa keep n d H)|]. split; [exact (norm_wok L xo wa keep n d H)|].
  intros Hk. exact (norm_tgoodW L xo wa keep Hk n d H).
Qed.
Print Assumptions C03_normalised_source_is_normal_wide.

(* the attribute clause of elt_ok from plainer conditions, and the name clause (no namespace table) from tree_ok3 *)
Theorem C03_attributes_come_back_as_written : forall L xo wa attrs,
  wa = EncXml.xl_has_attrs (EncXml.xlang_of L) -> (wa = false -> attrs = []) -> Forall (attr_good xo) attrs -> attrs_link L xo wa attrs.
Proof. exact attrs_link_of. Qed.
Print Assumptions C03_attributes_come_back_as_written.

Theorem C03_names_come_back_as_written : forall L tag attrs ch d, EncWbxmlTblOk.tree_ok3 L d (EncWbxml.NElt tag attrs ch) = true ->
  EncXml.tname_bytes (to_tname L (EncWbxmlTblOk.tag_event tag)) = EncWbxml.tag_xml_name tag.
Proof. exact name_of_tree_ok3. Qed.
Print Assumptions C03_names_come_back_as_written.

(* THE WBXML ENCODER SUCCEEDS on the wide fragment (Proofs/EncWbxmlSuccess.v).  Its failure causes there are a LITERAL needed while
   the string table is disabled, and the value splitting never terminating on an empty table row / string-table entry.  So:
   plain_env, no empty attribute-value row in the language (lang_vals_ok), no empty element or attribute name (names_ok), and
   every element writable (encodable: the string table is in use, or token tag and token attribute starts) ==> EOk. *)
Theorem C03_encoder_succeeds_on_wide_fragment : forall tbl l o roots,
  EncWbxmlAbs.plain_env (EncWbxml.enc_env l o) = true -> EncWbxmlSize.lang_vals_ok l -> EncWbxmlSize2.all_names_ok roots ->
  EncWbxmlSuccess.all_encodable (EncWbxml.enc_env l o) roots ->
  exists w, EncWbxml.enc_wbxml tbl l o roots = EncWbxml.EOk w.
Proof. exact EncWbxmlSuccess.enc_wbxml_total. Qed.
Print Assumptions C03_encoder_succeeds_on_wide_fragment.

(* ... conversely, success with the string table DISABLED on a tree of tree_ok3 means the tree needed no literal ... *)
Theorem C03_encoder_without_string_table_needs_no_literal : forall tbl L e, EncWbxml.e_lang e = EncWbxmlDenote2.to_blang L ->
  EncWbxml.e_use_strtbl e = false ->
  forall n d p st b st', EncWbxmlTblOk.tree_ok3 L d n = true -> EncWbxml.parse_node tbl e p n st = EncWbxml.EOk (b, st') ->
  EncWbxmlSuccess.encodable e n.
Proof. intros tbl L e HE HU n. exact (EncWbxmlSuccess.parse_node_inv tbl L e HE HU n). Qed.
Print Assumptions C03_encoder_without_string_table_needs_no_literal.

(* ... so success carries over from a source tree to its normal form (same language, same options), with both outputs bounded by
   the size of the SOURCE tree (the size theorem of Proofs/EncWbxmlSize2.v: 33 octets per octet of the tree + the header) *)
Theorem C03_encoder_success_carries_over_to_normal_form : forall tbl L o keep tag attrs ch w1,
  let e := EncWbxml.enc_env (EncWbxmlDenote2.to_blang L) o in
  let root := EncWbxml.NElt tag attrs ch in
  let R2 := EncWbxml.NElt tag attrs (flat_map (TreeNorm.norm_node keep false) ch) in
  EncWbxmlAbs.plain_env e = true -> EncWbxmlSize.lang_vals_ok (EncWbxmlDenote2.to_blang L) -> EncWbxmlSize2.names_ok root ->
  EncWbxmlTblOk.tree_ok3 L 0 root = true ->
  EncWbxml.enc_wbxml tbl (EncWbxmlDenote2.to_blang L) o [root] = EncWbxml.EOk w1 ->
  EncWbxmlSuccess.encodable e R2 /\ EncWbxmlSize2.names_ok R2 /\
  exists w2, EncWbxml.enc_wbxml tbl (EncWbxmlDenote2.to_blang L) o [R2] = EncWbxml.EOk w2 /\
             (length w2 <= 33 * EncWbxmlSize2.wsize 0 root + EncWbxmlSize2.hdr (EncWbxmlDenote2.to_blang L))%nat /\
             (length w1 <= 33 * EncWbxmlSize2.wsize 0 root + EncWbxmlSize2.hdr (EncWbxmlDenote2.to_blang L))%nat.
Proof. exact EncWbxmlSuccess.enc_norm_success. Qed.
Print Assumptions C03_encoder_success_carries_over_to_normal_form.

(* ROUND TRIP AND IDEMPOTENCE ON THE WIDE FRAGMENT, from hypotheses about the SOURCE: C03_conversion_roundtrip_wide_partial composed
   with C03_second_iteration_identical_wide_partial through the derivations above; the success of the second encoding (w2) is no
   longer a hypothesis (C03_encoder_success_carries_over_to_normal_form).  PARTIAL in: the wide fragment of the encoder (tree_ok3,
   plain_env, no extension table, no element named Data, no empty row name / element name / attribute name, a source tree whose
   output fits 32 bits: 33 * wsize + header < 2^32), src_okW, the Expat assumption (events_of_info_ns), compact / canonical generation
   with a white-space policy not stricter than the encoder's (keep_compatible), not SyncML, and the reader's hypotheses on the
   strings (lang_ok, node_ok_g). *)
Theorem C03_roundtrip_and_idempotence_wide_partial :
  forall (main TBL : list lang) (btbl : list EncWbxml.blang) (sub : EncWbxml.bytes -> XmlFront.xtree + N)
         evs expat_ok o doc w (L : lang) tag attrs ch o',
  let e := EncWbxml.enc_env (EncWbxmlDenote2.to_blang L) o in
  let wa := EncWbxml.has_attr_table e in
  let root := EncWbxml.NElt tag attrs ch in
  let R2 := EncWbxml.NElt tag attrs (flat_map (TreeNorm.norm_node (EncWbxml.o_keep_ws o) false) ch) in
  let root' := tnodeW wa R2 in
  let xl := EncXml.xlang_of L in
  let xo := EncXml.opts_of_params (gen_of (wo_gen o')) (wo_indent o') (wo_keep_ws o') in
  let nmx := to_tname L (EncWbxmlTblOk.tag_event tag) in
  let ax := map to_attr (if wa then map EncWbxmlDenote2.attr_event attrs else []) in
  r_out (ConvXml2Wbxml.xml2wbxml_events main btbl sub evs expat_ok o doc) = Some w ->
  (forall t0, XmlFront.tree_from_xml main sub doc evs expat_ok = inl t0 ->
     EncWbxml.find_lang btbl (XmlFront.xt_lang t0) = Some (EncWbxmlDenote2.to_blang L) /\ XmlFront.xt_roots t0 = [root]) ->
  EncWbxmlAbs.plain_env e = true -> EncWbxmlDenote2.vals_ok L = true -> l_exts L = None ->
  EncWbxmlTblOk.tree_ok3 L 0 root = true ->
  EncWbxmlSize.lang_vals_ok (EncWbxmlDenote2.to_blang L) -> EncWbxmlSize2.names_ok root ->
  N.of_nat (33 * EncWbxmlSize2.wsize 0 root + EncWbxmlSize2.hdr (EncWbxmlDenote2.to_blang L)) < 4294967296 ->
  find (fun y => l_id y =? l_id L) TBL = Some L ->
  lang_choiceW TBL L e (wo_lang o') -> wo_charset o' = 0 ->
  EncWbxml.o_version o < 4 -> EncWbxml.header_public_id e < 4294967296 -> EncWbxml.header_public_id e <> 0 ->
  (match EncWbxmlAbs.header_pid e with Some p => EncWbxmlDenote2.okb p = true | None => True end) ->
  no_data (EncWbxmlDenote3.doc_events3 L e (EncWbxml.o_keep_ws o) root) = true ->
  src_okW L xo wa 0 root -> EncWbxml.find_lang btbl (l_id L) = Some (EncWbxmlDenote2.to_blang L) ->
  LangSelect.search_table main (option_map XmlFront.str (EncXml.xl_pub xl)) (Some (XmlFront.str (EncXml.xl_dtd xl))) None = Some L ->
  EncXml.is_indent xo = false -> EncXml.is_syncml xl = false -> keep_compatible (EncWbxml.o_keep_ws o) xo ->
  EncXmlProofs.lang_ok xl = true -> EncXmlIndent.node_ok_g xl xo EncXml.proot None (to_xnode TBL L root') = true ->
  exists x c d w2,
    wbxml2xml_model TBL o' w = mk_res ST_OK (Some (x ++ [0])) (N.of_nat (length x)) /\
    EncXml.enc_xml_opts xl xo [to_xnode TBL L root'] = EncXml.XOk x /\
    d = EncXmlProofs.doc_of xl [XmlRead.XE (EncXml.tname_bytes nmx) (EncXmlProofs.spec_attrs xl xo EncXml.proot nmx ax) c] /\
    (forall fuel, (EncXmlProofs.node_fuel (to_xnode TBL L root') + 2 <= fuel)%nat -> XmlRead.read_xml fuel x = XmlRead.ROk d) /\
    events_of_info_ns d = XmlFrontInverse.doc_events L (EncXml.xl_root xl) (Some (EncXml.xl_dtd xl)) (EncXml.xl_pub xl) R2 /\
    forall doc2, doc2 <> [] ->
      XmlFront.tree_from_xml main sub doc2 (events_of_info_ns d) true = inl (XmlFront.mk_xtree (l_id L) 0 [R2]) /\
      r_out (ConvXml2Wbxml.xml2wbxml_events main btbl sub (events_of_info_ns d) true o doc2) = Some w2 /\
      wbxml2xml_model TBL o' w2 = mk_res ST_OK (Some (x ++ [0])) (N.of_nat (length x)).
Proof. exact roundtrip_and_idempotence_wide_total. Qed.
Print Assumptions C03_roundtrip_and_idempotence_wide_partial.

(* THE SAME WITH THE SOURCE-SIDE HYPOTHESIS ON THE SOURCE'S EVENTS: xmlfront's evs_canon (Model/XmlFrontCanonEvents.v: none of the twelve
   clauses fires along the run of the callbacks; on the corpus: 216 of 220 files, measured by props/C02) gives root_canon of the tree
   the front end hands out (C02f_image_canonical_any); what src_okW asks beyond root_canon is the fragment predicate fragW (no element
   named Data, no binary-flagged row, elt_ok: names / namespaces / attributes come back as written, NUL-free texts):
   C03_canonical_tree_in_fragment_is_source_ok.  Language ids are unique in the table (true of the project's: C10_shared_identifiers). *)
Theorem C03_canonical_tree_in_fragment_is_source_ok : forall L xo wa emb root,
  XmlFrontEvents.root_canon L emb root = true -> fragW L xo wa root -> src_okW L xo wa 0 root.
Proof. exact root_canon_src. Qed.
Print Assumptions C03_canonical_tree_in_fragment_is_source_ok.

Theorem C03_roundtrip_and_idempotence_wide_events_partial :
  forall (main TBL : list lang) (btbl : list EncWbxml.blang) (sub : EncWbxml.bytes -> XmlFront.xtree + N)
         evs expat_ok o doc w (L : lang) tag attrs ch o',
  let e := EncWbxml.enc_env (EncWbxmlDenote2.to_blang L) o in
  let wa := EncWbxml.has_attr_table e in
  let root := EncWbxml.NElt tag attrs ch in
  let R2 := EncWbxml.NElt tag attrs (flat_map (TreeNorm.norm_node (EncWbxml.o_keep_ws o) false) ch) in
  let root' := tnodeW wa R2 in
  let xl := EncXml.xlang_of L in
  let xo := EncXml.opts_of_params (gen_of (wo_gen o')) (wo_indent o') (wo_keep_ws o') in
  let nmx := to_tname L (EncWbxmlTblOk.tag_event tag) in
  let ax := map to_attr (if wa then map EncWbxmlDenote2.attr_event attrs else []) in
  r_out (ConvXml2Wbxml.xml2wbxml_events main btbl sub evs expat_ok o doc) = Some w ->
  (forall t0, XmlFront.tree_from_xml main sub doc evs expat_ok = inl t0 ->
     EncWbxml.find_lang btbl (XmlFront.xt_lang t0) = Some (EncWbxmlDenote2.to_blang L) /\ XmlFront.xt_roots t0 = [root]) ->
  XmlFrontCanonEvents.evs_canon main sub doc XmlFrontInverse.no_emb evs = true -> (forall l, In l main -> l_id l = l_id L -> l = L) ->
  fragW L xo wa root ->
  EncWbxmlAbs.plain_env e = true -> EncWbxmlDenote2.vals_ok L = true -> l_exts L = None ->
  EncWbxmlTblOk.tree_ok3 L 0 root = true ->
  EncWbxmlSize.lang_vals_ok (EncWbxmlDenote2.to_blang L) -> EncWbxmlSize2.names_ok root ->
  N.of_nat (33 * EncWbxmlSize2.wsize 0 root + EncWbxmlSize2.hdr (EncWbxmlDenote2.to_blang L)) < 4294967296 ->
  find (fun y => l_id y =? l_id L) TBL = Some L ->
  lang_choiceW TBL L e (wo_lang o') -> wo_charset o' = 0 ->
  EncWbxml.o_version o < 4 -> EncWbxml.header_public_id e < 4294967296 -> EncWbxml.header_public_id e <> 0 ->
  (match EncWbxmlAbs.header_pid e with Some p => EncWbxmlDenote2.okb p = true | None => True end) ->
  no_data (EncWbxmlDenote3.doc_events3 L e (EncWbxml.o_keep_ws o) root) = true ->
  EncWbxml.find_lang btbl (l_id L) = Some (EncWbxmlDenote2.to_blang L) ->
  LangSelect.search_table main (option_map XmlFront.str (EncXml.xl_pub xl)) (Some (XmlFront.str (EncXml.xl_dtd xl))) None = Some L ->
  EncXml.is_indent xo = false -> EncXml.is_syncml xl = false -> keep_compatible (EncWbxml.o_keep_ws o) xo ->
  EncXmlProofs.lang_ok xl = true -> EncXmlIndent.node_ok_g xl xo EncXml.proot None (to_xnode TBL L root') = true ->
  exists x c d w2,
    wbxml2xml_model TBL o' w = mk_res ST_OK (Some (x ++ [0])) (N.of_nat (length x)) /\
    EncXml.enc_xml_opts xl xo [to_xnode TBL L root'] = EncXml.XOk x /\
    d = EncXmlProofs.doc_of xl [XmlRead.XE (EncXml.tname_bytes nmx) (EncXmlProofs.spec_attrs xl xo EncXml.proot nmx ax) c] /\
    (forall fuel, (EncXmlProofs.node_fuel (to_xnode TBL L root') + 2 <= fuel)%nat -> XmlRead.read_xml fuel x = XmlRead.ROk d) /\
    events_of_info_ns d = XmlFrontInverse.doc_events L (EncXml.xl_root xl) (Some (EncXml.xl_dtd xl)) (EncXml.xl_pub xl) R2 /\
    forall doc2, doc2 <> [] ->
      XmlFront.tree_from_xml main sub doc2 (events_of_info_ns d) true = inl (XmlFront.mk_xtree (l_id L) 0 [R2]) /\
      r_out (ConvXml2Wbxml.xml2wbxml_events main btbl sub (events_of_info_ns d) true o doc2) = Some w2 /\
      wbxml2xml_model TBL o' w2 = mk_res ST_OK (Some (x ++ [0])) (N.of_nat (length x)).
Proof. exact roundtrip_and_idempotence_wide_events. Qed.
Print Assumptions C03_roundtrip_and_idempotence_wide_events_partial.

(* ... WITH INDENT GENERATION on the wide fragment, the encoder's keep_ws off (with keep_ws on it is not a fixed point: D38).
   The front-end tree of the indented XML, Tind = etq (qual ..): the tree of the infoset with qualified names (qual: what a parser
   in namespace mode reports), has the white space between markup as text nodes; it is canonical for the front end, lies in the wide
   fragment, and its normal form is R2; its elements are those of R2, so its encoding SUCCEEDS (w2), and - when w2 is below 4 GiB:
   the white space the generator inserted is not bounded by the size of the source tree - the second conversion of w2 writes x
   again.  Otherwise the same partiality as C03_roundtrip_and_idempotence_wide_partial. *)
Theorem C03_roundtrip_and_idempotence_indent_wide_partial :
  forall (main TBL : list lang) (btbl : list EncWbxml.blang) (sub : EncWbxml.bytes -> XmlFront.xtree + N)
         evs expat_ok o doc w (L : lang) tag attrs ch o',
  let e := EncWbxml.enc_env (EncWbxmlDenote2.to_blang L) o in
  let wa := EncWbxml.has_attr_table e in
  let root := EncWbxml.NElt tag attrs ch in
  let R2 := EncWbxml.NElt tag attrs (flat_map (TreeNorm.norm_node false false) ch) in
  let root' := tnodeW wa R2 in
  let xl := EncXml.xlang_of L in
  let xoc := EncXml.opts_of_params EncXml.Compact 0 (wo_keep_ws o') in
  let nmx := to_tname L (EncWbxmlTblOk.tag_event tag) in
  let ax := map to_attr (if wa then map EncWbxmlDenote2.attr_event attrs else []) in
  let sa := EncXmlProofs.spec_attrs xl xoc EncXml.proot nmx ax in
  r_out (ConvXml2Wbxml.xml2wbxml_events main btbl sub evs expat_ok o doc) = Some w -> EncWbxml.len w < 4294967296 ->
  (forall t0, XmlFront.tree_from_xml main sub doc evs expat_ok = inl t0 ->
     EncWbxml.find_lang btbl (XmlFront.xt_lang t0) = Some (EncWbxmlDenote2.to_blang L) /\ XmlFront.xt_roots t0 = [root]) ->
  EncWbxmlAbs.plain_env e = true -> EncWbxmlDenote2.vals_ok L = true -> l_exts L = None ->
  EncWbxmlTblOk.tree_ok3 L 0 root = true ->
  EncWbxmlSize.lang_vals_ok (EncWbxmlDenote2.to_blang L) -> EncWbxmlSize2.names_ok root ->
  find (fun y => l_id y =? l_id L) TBL = Some L ->
  lang_choiceW TBL L e (wo_lang o') -> wo_charset o' = 0 ->
  EncWbxml.o_version o < 4 -> EncWbxml.header_public_id e < 4294967296 -> EncWbxml.header_public_id e <> 0 ->
  (match EncWbxmlAbs.header_pid e with Some p => EncWbxmlDenote2.okb p = true | None => True end) ->
  no_data (EncWbxmlDenote3.doc_events3 L e (EncWbxml.o_keep_ws o) root) = true ->
  src_okW L xoc wa 0 root -> EncWbxml.find_lang btbl (l_id L) = Some (EncWbxmlDenote2.to_blang L) ->
  LangSelect.search_table main (option_map XmlFront.str (EncXml.xl_pub xl)) (Some (XmlFront.str (EncXml.xl_dtd xl))) None = Some L ->
  gen_of (wo_gen o') = EncXml.Indent -> EncWbxml.o_keep_ws o = false ->
  EncXml.is_syncml xl = false ->
  EncXmlProofs.lang_ok xl = true -> EncXmlIndent.node_ok_g xl xoc EncXml.proot None (to_xnode TBL L root') = true ->
  exists x ci d,
    wbxml2xml_model TBL o' w = mk_res ST_OK (Some (x ++ [0])) (N.of_nat (length x)) /\
    EncXml.enc_xml xl EncXml.Indent (wo_indent o') (wo_keep_ws o') [to_xnode TBL L root'] = EncXml.XOk x /\
    d = EncXmlProofs.doc_of xl [XmlRead.XE (EncXml.tname_bytes nmx) sa ci] /\
    (forall fuel, (EncXmlProofs.node_fuel (to_xnode TBL L root') + 2 <= fuel)%nat -> XmlRead.read_xml fuel x = XmlRead.ROk d) /\
    let Tind := etq L (qual None (XmlRead.XE (EncXml.tname_bytes nmx) sa ci)) in
    TreeNorm.norm false [Tind] = [R2] /\
    events_of_info_ns d = XmlFrontInverse.doc_events L (EncXml.xl_root xl) (Some (EncXml.xl_dtd xl)) (EncXml.xl_pub xl) Tind /\
    forall doc2, doc2 <> [] ->
      XmlFront.tree_from_xml main sub doc2 (events_of_info_ns d) true = inl (XmlFront.mk_xtree (l_id L) 0 [Tind]) /\
      exists w2, EncWbxml.enc_wbxml btbl (EncWbxmlDenote2.to_blang L) o [Tind] = EncWbxml.EOk w2 /\
        (EncWbxml.len w2 < 4294967296 ->
         r_out (ConvXml2Wbxml.xml2wbxml_events main btbl sub (events_of_info_ns d) true o doc2) = Some w2 /\
         wbxml2xml_model TBL o' w2 = mk_res ST_OK (Some (x ++ [0])) (N.of_nat (length x))).
Proof. exact roundtrip_and_idempotence_indent_wide. Qed.
Print Assumptions C03_roundtrip_and_idempotence_indent_wide_partial.

(* the qualified infoset commutes with C07's normal form modulo blank text, and the normal form of the tree does not see it *)
Theorem C03_qualified_infoset_commutes_with_blank_normal_form : forall it cur, qual cur (EncXmlIndent.nb it) = EncXmlIndent.nb (qual cur it).
Proof. exact qual_nb. Qed.
Print Assumptions C03_qualified_infoset_commutes_with_blank_normal_form.

(* THE FIRST ITERATION ON THE UNION FRAGMENT of the WBXML encoder (C06_strict_decoding_yields_normalised_source: every language class,
   typed content in canonical form, binary content, CDATA sections, embedded trees), for documents without an element named Data,
   language forced: the second conversion succeeds, its output is the generator's text for the root of tn_union (C03b_roundtrip_union_partial:
   elements with canonical attribute values, texts with the canonical typed forms / base64 of binary content, a CDATA section or an
   embedded tree outside <Data> as one text node), and reading it back gives the infoset info_g specifies for that tree. *)
Theorem C03_conversion_roundtrip_union_partial :
  forall (main TBL : list lang) (btbl : list EncWbxml.blang) (sub : EncWbxml.bytes -> XmlFront.xtree + N)
         evs expat_ok o doc w (L : lang) tag attrs ch o',
  let e := EncWbxml.enc_env (EncWbxmlDenote2.to_blang L) o in
  let root := EncWbxml.NElt tag attrs ch in
  r_out (ConvXml2Wbxml.xml2wbxml_events main btbl sub evs expat_ok o doc) = Some w -> EncWbxml.len w < 4294967296 ->
  (forall t0, XmlFront.tree_from_xml main sub doc evs expat_ok = inl t0 ->
     EncWbxml.find_lang btbl (XmlFront.xt_lang t0) = Some (EncWbxmlDenote2.to_blang L) /\ XmlFront.xt_roots t0 = [root]) ->
  EncWbxmlDenote2.vals_ok L = true -> EncWbxmlUnion.side_u L = true -> EncWbxmlAbs5.tag_tbl_ok e = true ->
  EncWbxmlDenote6.tree_ok6 L (EncWbxmlUnion.aok_u L) (EncWbxmlUnion.tok_u L (EncWbxml.o_keep_ws o)) (EncWbxmlUnion.cok_plain L)
                           (EncWbxmlUnion.eok_plain btbl e L) (EncWbxml.is_syncml (EncWbxml.e_lang e)) 0 true None root = true ->
  find (fun x => l_id x =? l_id L) TBL = Some L ->
  wo_lang o' = l_id L -> l_id L <> 0 -> wo_charset o' = 0 ->
  EncWbxml.o_version o < 4 -> EncWbxml.header_public_id e < 4294967296 -> EncWbxml.header_public_id e <> 0 ->
  (match EncWbxmlAbs.header_pid e with Some p => EncWbxmlDenote2.okb p = true | None => True end) ->
  no_data (EncWbxmlClass6.doc_events6 btbl L e (EncWbxmlUnion.acan_u L) (EncWbxmlUnion.tev_u L e (EncWbxml.o_keep_ws o)) root) = true ->
  let xl := EncXml.xlang_of L in
  let xo := EncXml.opts_of_params (gen_of (wo_gen o')) (wo_indent o') (wo_keep_ws o') in
  exists tg at' kids x,
    tn_union btbl L o root = [TElt tg at' kids] /\
    wbxml2xml_model TBL o' w = mk_res ST_OK (Some (x ++ [0])) (N.of_nat (length x)) /\
    EncXml.enc_xml_opts xl xo [to_xnode TBL L (TElt tg at' kids)] = EncXml.XOk x /\
    (EncXmlProofs.lang_ok xl = true ->
     EncXmlIndent.node_ok_g xl xo EncXml.proot None (to_xnode TBL L (TElt tg at' kids)) = true ->
     exists c s',
       EncXmlIndent.info_g xl xo EncXml.proot (EncXml.est0 0) (to_xnode TBL L (TElt tg at' kids))
         = Some ([XmlRead.XT []; XmlRead.XE (EncXml.tname_bytes (to_tname L tg))
                                             (EncXmlProofs.spec_attrs xl xo EncXml.proot (to_tname L tg) (map to_attr at')) c;
                  XmlRead.XT (EncXml.nl_if xo)], s') /\
       forall fuel, (EncXmlProofs.node_fuel (to_xnode TBL L (TElt tg at' kids)) + 2 <= fuel)%nat ->
         XmlRead.read_xml fuel x =
         XmlRead.ROk (EncXmlProofs.doc_of xl
                        [XmlRead.XE (EncXml.tname_bytes (to_tname L tg))
                                    (EncXmlProofs.spec_attrs xl xo EncXml.proot (to_tname L tg) (map to_attr at')) c])).
Proof. exact conversion_roundtrip_union. Qed.
Print Assumptions C03_conversion_roundtrip_union_partial.

(* ---- the hypotheses are satisfiable: a WML 1.3 deck through BOTH conversion functions, by computation ----
   <!DOCTYPE wml PUBLIC "-//WAPFORUM//DTD WML 1.3//EN" ...><wml><card><p> a </p><p>  </p></card></wml>
   encoder: WBXML 1.3, no string table, keep_ws off;  generator: compact, language not forced. *)
Definition ex_evs : list XmlFront.event :=
  [XmlFront.EvStartDoctype (XmlFront.bs "wml") (Some (XmlFront.bs "http://www.wapforum.org/DTD/wml13.dtd")) (Some (XmlFront.bs "-//WAPFORUM//DTD WML 1.3//EN"));
   XmlFront.EvStartElement (XmlFront.bs "wml") [] 100; XmlFront.EvStartElement (XmlFront.bs "card") [] 105;
   XmlFront.EvStartElement (XmlFront.bs "p") [] 119; XmlFront.EvCharacters (XmlFront.bs " a "); XmlFront.EvEndElement (XmlFront.bs "p") 130;
   XmlFront.EvStartElement (XmlFront.bs "p") [] 134; XmlFront.EvCharacters (XmlFront.bs "  "); XmlFront.EvEndElement (XmlFront.bs "p") 140;
   XmlFront.EvEndElement (XmlFront.bs "card") 145; XmlFront.EvEndElement (XmlFront.bs "wml") 150].
Definition ex_sub : EncWbxml.bytes -> XmlFront.xtree + N := fun _ => inr 999.
Definition ex_o := EncWbxml.mk_opts 3 false false false.
Definition ex_o' := mk_w2x 0 0 0 0 false.
Definition ex_root : EncWbxml.node :=
  EncWbxml.NElt (EncWbxml.TagTok 0 63 0 (XmlFront.bs "wml")) []
    [EncWbxml.NElt (EncWbxml.TagTok 0 39 0 (XmlFront.bs "card")) []
       [EncWbxml.NElt (EncWbxml.TagTok 0 32 0 (XmlFront.bs "p")) [] [EncWbxml.NText (XmlFront.bs " a ")];
        EncWbxml.NElt (EncWbxml.TagTok 0 32 0 (XmlFront.bs "p")) [] [EncWbxml.NText (XmlFront.bs "  ")]]].
Definition ex_w : bytes := [3; 10; 106; 0; 127; 103; 96; 3; 97; 0; 1; 96; 1; 1; 1].

Example C03_ex_hypotheses :
  match find (fun x => l_id x =? 1104) main_table, EncWbxml.find_lang EncWbxmlTables.main_btable 1104 with
  | Some L, Some l =>
    XmlFront.tree_from_xml main_table ex_sub [60] ex_evs true = inl (XmlFront.mk_xtree 1104 0 [ex_root])
    /\ r_out (ConvXml2Wbxml.xml2wbxml_events main_table EncWbxmlTables.main_btable ex_sub ex_evs true ex_o [60]) = Some ex_w
    /\ EncWbxmlSerialize.frag_lang l = true /\ EncWbxmlProofs.no_pid (EncWbxml.enc_env l ex_o) = true
    /\ EncWbxmlSerialize.frag_node ex_root = true /\ EncWbxmlDenote.tree_ok L 0 ex_root = true
    /\ EncWbxml.header_public_id (EncWbxml.enc_env l ex_o) = 10
    /\ find (fun x => l_pub_num x =? 10) main_table = Some L
    /\ no_data (flat_map EncWbxmlDenote.events_node (TreeNorm.norm false [ex_root])) = true
    /\ EncXmlProofs.lang_ok (EncXml.xlang_of L) = true
  | _, _ => False
  end.
Proof. vm_compute. repeat split; reflexivity. Qed.

(* ... and the conclusion, computed: the second conversion's XML, read back *)
Definition ex_x : bytes :=
  bytes_of_string "<?xml version=""1.0""?><!DOCTYPE wml PUBLIC ""-//WAPFORUM//DTD WML 1.3//EN"" ""http://www.wapforum.org/DTD/wml13.dtd""><wml><card><p>a</p><p/></card></wml>".
Example C03_ex_second_conversion :
  wbxml2xml_model main_table ex_o' ex_w = mk_res ST_OK (Some (ex_x ++ [0])) (N.of_nat (length ex_x))
  /\ match XmlRead.read_xml_auto ex_x with
     | XmlRead.ROk d => XmlRead.d_items d =
         [XmlRead.XE (bytes_of_string "wml") []
            [XmlRead.XE (bytes_of_string "card") []
               [XmlRead.XE (bytes_of_string "p") [] [XmlRead.XT (bytes_of_string "a")]; XmlRead.XE (bytes_of_string "p") [] []]]]
     | _ => False
     end.
Proof. split; vm_compute; reflexivity. Qed.

(* ---- the second iteration on the same deck, through both functions: the events of what read_xml returns for ex_x ---- *)
Definition ex_R2 : EncWbxml.node :=
  EncWbxml.NElt (EncWbxml.TagTok 0 63 0 (XmlFront.bs "wml")) []
    [EncWbxml.NElt (EncWbxml.TagTok 0 39 0 (XmlFront.bs "card")) []
       [EncWbxml.NElt (EncWbxml.TagTok 0 32 0 (XmlFront.bs "p")) [] [EncWbxml.NText (XmlFront.bs "a")];
        EncWbxml.NElt (EncWbxml.TagTok 0 32 0 (XmlFront.bs "p")) [] []]].
Definition ex_w2 : bytes := [3; 10; 106; 0; 127; 103; 96; 3; 97; 0; 1; 32; 1; 1].

Example C03_ex_second_iteration :
  match XmlRead.read_xml_auto ex_x with
  | XmlRead.ROk d =>
    XmlFront.tree_from_xml main_table ex_sub [60] (events_of_info d) true = inl (XmlFront.mk_xtree 1104 0 [ex_R2])
    /\ r_out (ConvXml2Wbxml.xml2wbxml_events main_table EncWbxmlTables.main_btable ex_sub (events_of_info d) true ex_o [60]) = Some ex_w2
    /\ wbxml2xml_model main_table ex_o' ex_w2 = mk_res ST_OK (Some (ex_x ++ [0])) (N.of_nat (length ex_x))
  | _ => False
  end.
Proof. vm_compute. repeat split; reflexivity. Qed.

(* the second WBXML is not the first: <p>  </p> came back as <p/> *)
Example C03_ex_second_wbxml_differs : ex_w2 <> ex_w.
Proof. discriminate. Qed.

(* the hypotheses of C03_second_iteration_identical_partial about R2 hold for ex_R2 (by computation) *)
Example C03_ex_second_hypotheses :
  match find (fun x => l_id x =? 1104) main_table with
  | Some L =>
    tnode_of ex_R2 = TElt (TagTok 0 63 (XmlFront.bs "wml")) []
                       [TElt (TagTok 0 39 (XmlFront.bs "card")) []
                          [TElt (TagTok 0 32 (XmlFront.bs "p")) [] [TText (XmlFront.bs "a")]; TElt (TagTok 0 32 (XmlFront.bs "p")) [] []]]
    /\ FrontSimple.fgood L 0 ex_R2 /\ nm_ok L ex_R2 /\ enormal false ex_R2
    /\ tgood L (EncXml.opts_of_params (gen_of 0) 0 false) (tnode_of ex_R2)
    /\ EncXml.xl_ns (EncXml.xlang_of L) = None /\ EncXml.is_syncml (EncXml.xlang_of L) = false
    /\ LangSelect.search_table main_table (option_map XmlFront.str (EncXml.xl_pub (EncXml.xlang_of L)))
                               (Some (XmlFront.str (EncXml.xl_dtd (EncXml.xlang_of L)))) None = Some L
  | None => False
  end.
Proof.
  vm_compute. repeat split; try reflexivity; try discriminate; try (left; reflexivity); try (right; reflexivity).
  all: try (right; split; reflexivity); repeat constructor.
Qed.

(* src_ok for the source tree of the example, and the generator conditions (by computation) *)
Example C03_ex_src_ok :
  match find (fun x => l_id x =? 1104) main_table with
  | Some L => src_ok L 0 ex_root /\ keep_compatible (EncWbxml.o_keep_ws ex_o) (EncXml.opts_of_params (gen_of 0) 0 false)
              /\ EncWbxml.find_lang EncWbxmlTables.main_btable (l_id L) = EncWbxml.find_lang EncWbxmlTables.main_btable 1104
  | None => False
  end.
Proof.
  vm_compute. repeat split; try reflexivity; try discriminate; try (right; reflexivity).
  all: repeat constructor.
Qed.

(* ---- indented generation with keep_ws ON: the second trip does NOT reproduce x (both models; the C agrees) ----
   <wml><card><p>a</p></card></wml>, encoder keep_ws on, generator indent 2 / keep_ws on: 160 bytes, then 174 *)
Definition ex_evs_k : list XmlFront.event :=
  [XmlFront.EvStartDoctype (XmlFront.bs "wml") (Some (XmlFront.bs "http://www.wapforum.org/DTD/wml13.dtd")) (Some (XmlFront.bs "-//WAPFORUM//DTD WML 1.3//EN"));
   XmlFront.EvStartElement (XmlFront.bs "wml") [] 0; XmlFront.EvStartElement (XmlFront.bs "card") [] 0;
   XmlFront.EvStartElement (XmlFront.bs "p") [] 0; XmlFront.EvCharacters (XmlFront.bs "a"); XmlFront.EvEndElement (XmlFront.bs "p") 0;
   XmlFront.EvEndElement (XmlFront.bs "card") 0; XmlFront.EvEndElement (XmlFront.bs "wml") 0].
Definition ex_trip (keep : bool) (ev : list XmlFront.event) : option (bytes * bytes) :=
  match r_out (ConvXml2Wbxml.xml2wbxml_events main_table EncWbxmlTables.main_btable ex_sub ev true (EncWbxml.mk_opts 3 false keep false) [60]) with
  | Some w => match r_out (wbxml2xml_model main_table (mk_w2x 0 0 1 2 keep) w) with
              | Some x => Some (w, firstn (length x - 1) x)
              | None => None
              end
  | None => None
  end.
Definition ex_two_trips (keep : bool) : option (nat * nat * bool) :=
  match ex_trip keep ex_evs_k with
  | Some (w1, x1) =>
    match XmlRead.read_xml_auto x1 with
    | XmlRead.ROk d => match ex_trip keep (events_of_info d) with
                       | Some (w2, x2) => Some (length x1, length x2, if list_eq_dec N.eq_dec x1 x2 then true else false)
                       | None => None
                       end
    | _ => None
    end
  | None => None
  end.
Example C03_ex_indent_keep_ws_grows : ex_two_trips true = Some (160%nat, 174%nat, false).
Proof. vm_compute. reflexivity. Qed.
Example C03_ex_indent_keep_ws_off_identical : ex_two_trips false = Some (160%nat, 160%nat, true).
Proof. vm_compute. reflexivity. Qed.

(* alias in the form the brief asks for: the claim "the second iteration reproduces x" is refuted for indent + keep_ws on *)
Example C03_indent_keepws_grows_refuted : ex_two_trips true = Some (160%nat, 174%nat, false).
Proof. exact C03_ex_indent_keep_ws_grows. Qed.

(* ---- a language with a namespace table: DevInf 1.1, <DevInf xmlns="syncml:devinf"><VerDTD>1.1</VerDTD><Man> x </Man></DevInf> ---- *)
Definition ex_ns_evs : list XmlFront.event :=
  [XmlFront.EvStartDoctype (XmlFront.bs "DevInf") (Some (XmlFront.bs "http://www.syncml.org/docs/devinf_v11_20020215.dtd")) (Some (XmlFront.bs "-//SYNCML//DTD DevInf 1.1//EN"));
   XmlFront.EvStartElement (XmlFront.bs "syncml:devinf|DevInf") [] 0;
   XmlFront.EvStartElement (XmlFront.bs "syncml:devinf|VerDTD") [] 0; XmlFront.EvCharacters (XmlFront.bs "1.1"); XmlFront.EvEndElement (XmlFront.bs "syncml:devinf|VerDTD") 0;
   XmlFront.EvStartElement (XmlFront.bs "syncml:devinf|Man") [] 0; XmlFront.EvCharacters (XmlFront.bs " x "); XmlFront.EvEndElement (XmlFront.bs "syncml:devinf|Man") 0;
   XmlFront.EvEndElement (XmlFront.bs "syncml:devinf|DevInf") 0].
Definition ex_ns_o := EncWbxml.mk_opts 2 false false false.
Definition ex_ns_R2 : EncWbxml.node :=
  EncWbxml.NElt (EncWbxml.TagTok 0 10 0 (XmlFront.bs "DevInf")) []
    [EncWbxml.NElt (EncWbxml.TagTok 0 37 0 (XmlFront.bs "VerDTD")) [] [EncWbxml.NText (XmlFront.bs "1.1")];
     EncWbxml.NElt (EncWbxml.TagTok 0 17 0 (XmlFront.bs "Man")) [] [EncWbxml.NText (XmlFront.bs "x")]].
Definition ex_ns_trip (ev : list XmlFront.event) : option (bytes * bytes) :=
  match r_out (ConvXml2Wbxml.xml2wbxml_events main_table EncWbxmlTables.main_btable ex_sub ev true ex_ns_o [60]) with
  | Some w => match r_out (wbxml2xml_model main_table ex_o' w) with Some x => Some (w, firstn (length x - 1) x) | None => None end
  | None => None
  end.
Example C03_ex_namespaces :
  match ex_ns_trip ex_ns_evs with
  | Some (w1, x1) =>
    x1 = bytes_of_string "<?xml version=""1.0""?><!DOCTYPE DevInf PUBLIC ""-//SYNCML//DTD DevInf 1.1//EN"" ""http://www.syncml.org/docs/devinf_v11_20020215.dtd""><DevInf xmlns=""syncml:devinf""><VerDTD>1.1</VerDTD><Man>x</Man></DevInf>"
    /\ match XmlRead.read_xml_auto x1 with
       | XmlRead.ROk d =>
         XmlFront.tree_from_xml main_table ex_sub [60] (events_of_info_ns d) true = inl (XmlFront.mk_xtree 2102 0 [ex_ns_R2])
         /\ match ex_ns_trip (events_of_info_ns d) with Some (w2, x2) => x2 = x1 | None => False end
       | _ => False
       end
  | None => False
  end.
Proof. vm_compute. repeat split; reflexivity. Qed.

Example C03_ex_namespaces_hypotheses :
  match find (fun x => l_id x =? 2102) main_table with
  | Some L =>
    match EncXml.xl_ns (EncXml.xlang_of L) with
    | Some nst => ns_ok L nst ex_ns_R2 /\ FrontSimpleNs.fgood (en nst) L 0 ex_ns_R2 /\ EncXml.is_syncml (EncXml.xlang_of L) = false
    | None => False
    end
  | None => False
  end.
Proof.
  vm_compute. repeat split; try reflexivity; try discriminate; try (right; reflexivity); try (left; reflexivity).
  all: try (eexists; eexists; repeat split; reflexivity); repeat constructor.
Qed.

(* ---- the wide fragment, by computation: a WML 1.3 deck with attributes (token starts), a literal element <zz> with a literal
   attribute, string table ON (the strings "abcd", "abcd wxyz", "zz", "q" go to the table; the parser reports the text of <p> in
   pieces, the tree has one text node), language forced in the second conversion.
   <wml><card id="abcd" title="abcd wxyz"><p> abcd wxyz </p><zz q="abcd">abcd wxyz</zz></card></wml> *)
Definition exw_evs : list XmlFront.event :=
  [XmlFront.EvStartDoctype (XmlFront.bs "wml") (Some (XmlFront.bs "http://www.wapforum.org/DTD/wml13.dtd")) (Some (XmlFront.bs "-//WAPFORUM//DTD WML 1.3//EN"));
   XmlFront.EvStartElement (XmlFront.bs "wml") [] 100;
   XmlFront.EvStartElement (XmlFront.bs "card") [(XmlFront.bs "id", XmlFront.bs "abcd"); (XmlFront.bs "title", XmlFront.bs "abcd wxyz")] 105;
   XmlFront.EvStartElement (XmlFront.bs "p") [] 119; XmlFront.EvCharacters (XmlFront.bs " abcd wxyz "); XmlFront.EvEndElement (XmlFront.bs "p") 130;
   XmlFront.EvStartElement (XmlFront.bs "zz") [(XmlFront.bs "q", XmlFront.bs "abcd")] 134; XmlFront.EvCharacters (XmlFront.bs "abcd wxyz");
   XmlFront.EvEndElement (XmlFront.bs "zz") 140; XmlFront.EvEndElement (XmlFront.bs "card") 145; XmlFront.EvEndElement (XmlFront.bs "wml") 150].
Definition exw_o := EncWbxml.mk_opts 3 true false false.
Definition exw_o' := mk_w2x 1104 0 0 0 false.
Definition exw_x : bytes :=
  bytes_of_string "<?xml version=""1.0""?><!DOCTYPE wml PUBLIC ""-//WAPFORUM//DTD WML 1.3//EN"" ""http://www.wapforum.org/DTD/wml13.dtd""><wml><card id=""abcd"" title=""abcd wxyz""><p>abcd wxyz</p><zz q=""abcd"">abcd wxyz</zz></card></wml>".
Definition exw_L : lang := nth 3 main_table (mk_lang 0 0 None None None None None None None None).
Definition exw_root : EncWbxml.node :=
  EncWbxml.NElt (EncWbxml.TagTok 0 63 0 (XmlFront.bs "wml")) []
    [EncWbxml.NElt (EncWbxml.TagTok 0 39 0 (XmlFront.bs "card"))
       [EncWbxml.mk_at (EncWbxml.AttrTok 0 85 (XmlFront.bs "id") None) (XmlFront.bs "abcd");
        EncWbxml.mk_at (EncWbxml.AttrTok 0 54 (XmlFront.bs "title") None) (XmlFront.bs "abcd wxyz")]
       [EncWbxml.NElt (EncWbxml.TagTok 0 32 0 (XmlFront.bs "p")) [] [EncWbxml.NText (XmlFront.bs " abcd wxyz ")];
        EncWbxml.NElt (EncWbxml.TagLit (XmlFront.bs "zz")) [EncWbxml.mk_at (EncWbxml.AttrLit (XmlFront.bs "q")) (XmlFront.bs "abcd")]
                      [EncWbxml.NText (XmlFront.bs "abcd wxyz")]]].
Definition exw_w : bytes :=
  [3; 10; 106; 20; 97; 98; 99; 100; 0; 97; 98; 99; 100; 32; 119; 120; 121; 122; 0; 122; 122; 0; 113; 0; 127; 231; 85; 131; 0; 54; 131; 0; 3; 32; 119;
   120; 121; 122; 0; 1; 96; 131; 0; 3; 32; 119; 120; 121; 122; 0; 1; 196; 15; 4; 18; 131; 0; 1; 131; 0; 3; 32; 119; 120; 121; 122; 0; 1; 1; 1].
Definition exw_e := EncWbxml.enc_env (EncWbxmlDenote2.to_blang exw_L) exw_o.

Example C03_ex_wide :
  find (fun x => l_id x =? 1104) main_table = Some exw_L
  /\ XmlFront.tree_from_xml main_table ex_sub [60] exw_evs true = inl (XmlFront.mk_xtree 1104 0 [exw_root])
  /\ EncWbxml.find_lang EncWbxmlTables.main_btable 1104 = Some (EncWbxmlDenote2.to_blang exw_L)
  /\ EncWbxmlAbs.plain_env exw_e = true /\ EncWbxmlDenote2.vals_ok exw_L = true /\ l_exts exw_L = None
  /\ EncWbxmlTblOk.tree_ok3 exw_L 0 exw_root = true /\ EncWbxml.has_attr_table exw_e = true
  /\ no_data (EncWbxmlDenote3.doc_events3 exw_L exw_e false exw_root) = true
  /\ EncXmlProofs.lang_ok (EncXml.xlang_of exw_L) = true
  /\ r_out (ConvXml2Wbxml.xml2wbxml_events main_table EncWbxmlTables.main_btable ex_sub exw_evs true exw_o [60]) = Some exw_w
  /\ wbxml2xml_model main_table exw_o' exw_w = mk_res ST_OK (Some (exw_x ++ [0])) (N.of_nat (length exw_x))
  /\ exists evs, parse_with main_table 1104 0 (S (length exw_w)) exw_w = POk evs
                 /\ evs <> EncWbxmlDenote3.doc_events3 exw_L exw_e false exw_root.
Proof.
  repeat (split; [vm_compute; reflexivity|]). eexists; split; [vm_compute; reflexivity|vm_compute; discriminate].
Qed.

(* ---- round trip and idempotence on the wide fragment: the hypotheses about the SOURCE are satisfiable, and the conclusion by
   computation through both conversion functions.
   (a) the WML deck above (token attributes, literal element with literal attribute, string table on), language NOT forced;
   (b) ActiveSync: namespaces per code page (AirSync: / ComposeMail:), a literal attribute, string table on, the public id written
       as a string (language forced):  <Sync xmlns="AirSync:"><SmartReply xmlns="ComposeMail:" q="abcd"> hello world </SmartReply></Sync> *)
Ltac solve_src :=
  cbn [src_okW];
  repeat match goal with
  | |- _ /\ _ => split
  | |- True => exact I
  | |- _ \/ _ => first [left; reflexivity | right; vm_compute; reflexivity]
  | |- elt_ok _ _ _ _ _ => unfold elt_ok, attrs_link
  | |- match ?m with Some _ => _ | None => _ end => let v := eval vm_compute in m in change m with v; cbv beta iota
  | |- exists _, _ => eexists
  | |- _ <> _ => vm_compute; discriminate
  | |- _ = _ => first [reflexivity | vm_compute; reflexivity]
  end.

Definition exw_xo := EncXml.opts_of_params (gen_of 0) 0 false.
Definition exw_ou' := mk_w2x 0 0 0 0 false.
Definition exw_R2 : EncWbxml.node :=
  EncWbxml.NElt (EncWbxml.TagTok 0 63 0 (XmlFront.bs "wml")) []
    [EncWbxml.NElt (EncWbxml.TagTok 0 39 0 (XmlFront.bs "card"))
       [EncWbxml.mk_at (EncWbxml.AttrTok 0 85 (XmlFront.bs "id") None) (XmlFront.bs "abcd");
        EncWbxml.mk_at (EncWbxml.AttrTok 0 54 (XmlFront.bs "title") None) (XmlFront.bs "abcd wxyz")]
       [EncWbxml.NElt (EncWbxml.TagTok 0 32 0 (XmlFront.bs "p")) [] [EncWbxml.NText (XmlFront.bs "abcd wxyz")];
        EncWbxml.NElt (EncWbxml.TagLit (XmlFront.bs "zz")) [EncWbxml.mk_at (EncWbxml.AttrLit (XmlFront.bs "q")) (XmlFront.bs "abcd")]
                      [EncWbxml.NText (XmlFront.bs "abcd wxyz")]]].

Example C03_ex_wide_source_ok : src_okW exw_L exw_xo true 0 exw_root.
Proof. unfold exw_root. solve_src. Qed.

Example C03_ex_wide_idempotence :
  TreeNorm.norm false [exw_root] = [exw_R2]
  /\ lang_choice main_table exw_L (EncWbxml.header_public_id exw_e) (wo_lang exw_ou')
  /\ LangSelect.search_table main_table (option_map XmlFront.str (EncXml.xl_pub (EncXml.xlang_of exw_L)))
       (Some (XmlFront.str (EncXml.xl_dtd (EncXml.xlang_of exw_L)))) None = Some exw_L
  /\ EncXmlIndent.node_ok_g (EncXml.xlang_of exw_L) exw_xo EncXml.proot None (to_xnode main_table exw_L (tnodeW true exw_R2)) = true
  /\ EncWbxml.enc_wbxml EncWbxmlTables.main_btable (EncWbxmlDenote2.to_blang exw_L) exw_o [exw_R2] = EncWbxml.EOk exw_w
  /\ wbxml2xml_model main_table exw_ou' exw_w = mk_res ST_OK (Some (exw_x ++ [0])) (N.of_nat (length exw_x))
  /\ match XmlRead.read_xml_auto exw_x with
     | XmlRead.ROk d =>
       events_of_info_ns d = XmlFrontInverse.doc_events exw_L (EncXml.xl_root (EncXml.xlang_of exw_L)) (Some (EncXml.xl_dtd (EncXml.xlang_of exw_L)))
                                                        (EncXml.xl_pub (EncXml.xlang_of exw_L)) exw_R2
       /\ XmlFront.tree_from_xml main_table ex_sub [60] (events_of_info_ns d) true = inl (XmlFront.mk_xtree 1104 0 [exw_R2])
       /\ r_out (ConvXml2Wbxml.xml2wbxml_events main_table EncWbxmlTables.main_btable ex_sub (events_of_info_ns d) true exw_o [60]) = Some exw_w
     | _ => False
     end.
Proof.
  split; [vm_compute; reflexivity|]. split; [right; repeat split; vm_compute; (reflexivity || discriminate)|].
  repeat (split; [vm_compute; reflexivity|]). vm_compute. repeat split; reflexivity.
Qed.

Definition exa_L : lang := nth 27 main_table (mk_lang 0 0 None None None None None None None None).
Definition exa_root : EncWbxml.node :=
  EncWbxml.NElt (EncWbxml.TagTok 0 5 0 (XmlFront.bs "Sync")) []
    [EncWbxml.NElt (EncWbxml.TagTok 21 7 0 (XmlFront.bs "SmartReply")) [EncWbxml.mk_at (EncWbxml.AttrLit (XmlFront.bs "q")) (XmlFront.bs "abcd")]
       [EncWbxml.NText (XmlFront.bs " hello world ")]].
Definition exa_R2 : EncWbxml.node :=
  EncWbxml.NElt (EncWbxml.TagTok 0 5 0 (XmlFront.bs "Sync")) []
    [EncWbxml.NElt (EncWbxml.TagTok 21 7 0 (XmlFront.bs "SmartReply")) [EncWbxml.mk_at (EncWbxml.AttrLit (XmlFront.bs "q")) (XmlFront.bs "abcd")]
       [EncWbxml.NText (XmlFront.bs "hello world")]].
Definition exa_o := EncWbxml.mk_opts 3 true false false.
Definition exa_o' := mk_w2x 2402 0 0 0 false.
Definition exa_e := EncWbxml.enc_env (EncWbxmlDenote2.to_blang exa_L) exa_o.
Definition exa_w : bytes :=
  [3; 0; 2; 106; 35; 113; 0; 45; 47; 47; 77; 73; 67; 82; 79; 83; 79; 70; 84; 47; 47; 68; 84; 68; 32; 65; 99; 116; 105; 118; 101; 83; 121; 110; 99; 47; 47;
   69; 78; 0; 69; 0; 21; 199; 4; 0; 3; 97; 98; 99; 100; 0; 1; 3; 104; 101; 108; 108; 111; 32; 119; 111; 114; 108; 100; 0; 1; 1].
Definition exa_x : bytes :=
  bytes_of_string "<?xml version=""1.0""?><!DOCTYPE ActiveSync PUBLIC ""-//MICROSOFT//DTD ActiveSync//EN"" ""http://www.microsoft.com/""><Sync xmlns=""AirSync:""><SmartReply xmlns=""ComposeMail:"" q=""abcd"">hello world</SmartReply></Sync>".

Example C03_ex_wide_namespaces_source_ok : src_okW exa_L exw_xo true 0 exa_root.
Proof. unfold exa_root. solve_src. Qed.

Example C03_ex_wide_namespaces_idempotence :
  find (fun x => l_id x =? 2402) main_table = Some exa_L
  /\ XmlFront.tree_from_xml main_table ex_sub [60] (XmlFrontEvents.events_of exa_L exa_root) true = inl (XmlFront.mk_xtree 2402 0 [exa_root])
  /\ EncWbxml.find_lang EncWbxmlTables.main_btable 2402 = Some (EncWbxmlDenote2.to_blang exa_L)
  /\ EncWbxmlAbs.plain_env exa_e = true /\ EncWbxmlDenote2.vals_ok exa_L = true /\ l_exts exa_L = None
  /\ EncWbxmlTblOk.tree_ok3 exa_L 0 exa_root = true
  /\ match EncWbxmlAbs.header_pid exa_e with Some p => EncWbxmlDenote2.okb p = true | None => False end
  /\ no_data (EncWbxmlDenote3.doc_events3 exa_L exa_e false exa_root) = true
  /\ EncXmlProofs.lang_ok (EncXml.xlang_of exa_L) = true
  /\ TreeNorm.norm false [exa_root] = [exa_R2]
  /\ EncXmlIndent.node_ok_g (EncXml.xlang_of exa_L) exw_xo EncXml.proot None (to_xnode main_table exa_L (tnodeW true exa_R2)) = true
  /\ r_out (ConvXml2Wbxml.xml2wbxml_events main_table EncWbxmlTables.main_btable ex_sub (XmlFrontEvents.events_of exa_L exa_root) true exa_o [60]) = Some exa_w
  /\ EncWbxml.enc_wbxml EncWbxmlTables.main_btable (EncWbxmlDenote2.to_blang exa_L) exa_o [exa_R2] = EncWbxml.EOk exa_w
  /\ wbxml2xml_model main_table exa_o' exa_w = mk_res ST_OK (Some (exa_x ++ [0])) (N.of_nat (length exa_x))
  /\ match XmlRead.read_xml_auto exa_x with
     | XmlRead.ROk d =>
       events_of_info_ns d = XmlFrontInverse.doc_events exa_L (EncXml.xl_root (EncXml.xlang_of exa_L)) (Some (EncXml.xl_dtd (EncXml.xlang_of exa_L)))
                                                        (EncXml.xl_pub (EncXml.xlang_of exa_L)) exa_R2
       /\ XmlFront.tree_from_xml main_table ex_sub [60] (events_of_info_ns d) true = inl (XmlFront.mk_xtree 2402 0 [exa_R2])
       /\ r_out (ConvXml2Wbxml.xml2wbxml_events main_table EncWbxmlTables.main_btable ex_sub (events_of_info_ns d) true exa_o [60]) = Some exa_w
     | _ => False
     end.
Proof. repeat (split; [vm_compute; reflexivity|]). vm_compute. repeat split; reflexivity. Qed.

(* indent generation on the ActiveSync example (namespaces, literal attribute, string table): two trips by computation *)
Definition exa_oi' := mk_w2x 2402 0 1 2 false.
Definition exa_trip (o' : w2x_opts) (ev : list XmlFront.event) : option (bytes * bytes) :=
  match r_out (ConvXml2Wbxml.xml2wbxml_events main_table EncWbxmlTables.main_btable ex_sub ev true exa_o [60]) with
  | Some w => match r_out (wbxml2xml_model main_table o' w) with Some x0 => Some (w, removelast x0) | None => None end
  | None => None
  end.
Example C03_ex_wide_indent_two_trips :
  gen_of (wo_gen exa_oi') = EncXml.Indent /\
  match exa_trip exa_oi' (XmlFrontEvents.events_of exa_L exa_root) with
  | Some (w1, x1) =>
    match XmlRead.read_xml_auto x1 with
    | XmlRead.ROk d =>
      match exa_trip exa_oi' (events_of_info_ns d) with
      | Some (w2, x2) => x2 = x1 /\ length x1 = 215%nat /\ x1 <> exa_x
      | None => False
      end
    | _ => False
    end
  | None => False
  end.
Proof. split; [reflexivity|]. vm_compute. repeat split; (reflexivity || discriminate). Qed.

(* the language NOT forced and found by the TEXTUAL public identifier: the ActiveSync document above (public id written as a string
   into the string table) *)
Definition exa_ou' := mk_w2x 0 0 0 0 false.
Example C03_ex_wide_textual_public_id :
  lang_choiceW main_table exa_L exa_e (wo_lang exa_ou')
  /\ wbxml2xml_model main_table exa_ou' exa_w = mk_res ST_OK (Some (exa_x ++ [0])) (N.of_nat (length exa_x)).
Proof.
  split; [|vm_compute; reflexivity]. right. split; [reflexivity|]. eexists. split; vm_compute; reflexivity.
Qed.

(* the hypotheses that replace "the second encoding succeeds" hold for the two examples: no empty attribute-value row in WML 1.3 /
   ActiveSync, no empty name in the trees, and the size bound *)
Ltac solve_names :=
  repeat match goal with
  | |- _ /\ _ => split
  | |- True => exact I
  | |- Forall _ [] => constructor
  | |- Forall _ (_ :: _) => constructor
  | |- EncWbxmlSize2.name_ok _ => unfold EncWbxmlSize2.name_ok; vm_compute; discriminate
  | |- EncWbxmlSize2.attr_ok _ => unfold EncWbxmlSize2.attr_ok, EncWbxmlSize2.name_ok; vm_compute; discriminate
  | |- _ <> _ => vm_compute; discriminate
  | |- _ -> False => discriminate
  end.
Example C03_ex_wide_encoder_hypotheses :
  EncWbxmlSize.lang_vals_ok (EncWbxmlDenote2.to_blang exw_L) /\ EncWbxmlSize2.names_ok exw_root /\
  N.of_nat (33 * EncWbxmlSize2.wsize 0 exw_root + EncWbxmlSize2.hdr (EncWbxmlDenote2.to_blang exw_L)) < 4294967296 /\
  EncWbxmlSize.lang_vals_ok (EncWbxmlDenote2.to_blang exa_L) /\ EncWbxmlSize2.names_ok exa_root /\
  N.of_nat (33 * EncWbxmlSize2.wsize 0 exa_root + EncWbxmlSize2.hdr (EncWbxmlDenote2.to_blang exa_L)) < 4294967296.
Proof.
  assert (V1 : EncWbxmlSize.lang_vals_ok (EncWbxmlDenote2.to_blang exw_L)) by (unfold EncWbxmlSize.lang_vals_ok; vm_compute; solve_names).
  assert (V2 : EncWbxmlSize.lang_vals_ok (EncWbxmlDenote2.to_blang exa_L)) by (unfold EncWbxmlSize.lang_vals_ok; vm_compute; solve_names).
  assert (N1 : EncWbxmlSize2.names_ok exw_root) by (unfold exw_root; cbn [EncWbxmlSize2.names_ok]; solve_names).
  assert (N2 : EncWbxmlSize2.names_ok exa_root) by (unfold exa_root; cbn [EncWbxmlSize2.names_ok]; solve_names).
  split; [exact V1|]. split; [exact N1|]. split; [vm_compute; reflexivity|]. split; [exact V2|]. split; [exact N2|]. vm_compute; reflexivity.
Qed.

(* the events form of the source-side hypothesis, on the WML example: evs_canon of the source's events, fragW of its tree, unique ids *)
Ltac solve_frag :=
  cbn [fragW];
  repeat match goal with
  | |- _ /\ _ => split
  | |- True => exact I
  | |- elt_ok _ _ _ _ _ => unfold elt_ok, attrs_link
  | |- match ?m with Some _ => _ | None => _ end => let v := eval vm_compute in m in change m with v; cbv beta iota
  | |- exists _, _ => eexists
  | |- _ = _ => first [reflexivity | vm_compute; reflexivity]
  end.
Example C03_ex_wide_events_hypotheses :
  XmlFrontCanonEvents.evs_canon main_table ex_sub [60] XmlFrontInverse.no_emb exw_evs = true /\
  fragW exw_L exw_xo true exw_root /\
  (forall l, In l main_table -> l_id l = l_id exw_L -> l = exw_L).
Proof.
  split; [vm_compute; reflexivity|]. split; [unfold exw_root; solve_frag|].
  intros l Hin Hid. unfold main_table in Hin.
  repeat (destruct Hin as [<-|Hin]; [first [reflexivity | vm_compute in Hid; discriminate]|]). destruct Hin.
Qed.

(* the union fragment through both conversion functions: Service Indication, a %Datetime attribute (OPAQUE on the wire, canonical
   text back), an attribute value token *)
Definition exu_evs : list XmlFront.event :=
  [XmlFront.EvStartDoctype (XmlFront.bs "si") (Some (XmlFront.bs "http://www.wapforum.org/DTD/si.dtd")) (Some (XmlFront.bs "-//WAPFORUM//DTD SI 1.0//EN"));
   XmlFront.EvStartElement (XmlFront.bs "si") [] 100;
   XmlFront.EvStartElement (XmlFront.bs "indication") [(XmlFront.bs "href", XmlFront.bs "http://www.xyz.com/"); (XmlFront.bs "created", XmlFront.bs "1999-06-25T15:23:15Z")] 105;
   XmlFront.EvCharacters (XmlFront.bs " hello "); XmlFront.EvEndElement (XmlFront.bs "indication") 130; XmlFront.EvEndElement (XmlFront.bs "si") 150].
Definition exu_o2 := EncWbxml.mk_opts 2 false false false.
Definition exu_o' := mk_w2x 1301 0 0 0 false.
Definition exu_x : bytes :=
  bytes_of_string "<?xml version=""1.0""?><!DOCTYPE si PUBLIC ""-//WAPFORUM//DTD SI 1.0//EN"" ""http://www.wapforum.org/DTD/si.dtd""><si><indication href=""http://www.xyz.com/"" created=""1999-06-25T15:23:15Z"">hello</indication></si>".
Example C03_ex_union_two_conversions :
  match r_out (ConvXml2Wbxml.xml2wbxml_events main_table EncWbxmlTables.main_btable ex_sub exu_evs true exu_o2 [60]) with
  | Some w => wbxml2xml_model main_table exu_o' w = mk_res ST_OK (Some (exu_x ++ [0])) (N.of_nat (length exu_x))
  | None => False
  end.
Proof. vm_compute. reflexivity. Qed.

(* the SyncML data-type rule on both sides, by computation: vObject data in <Data> under <Add>/<Item> - the XML front end adds the
   CDATA node (C02f_added_cdata_is_canonical), the encoder writes it as ONE OPAQUE, the tree builder RE-CREATES the CDATA node
   (C03b_data_rule_recreates_cdata), the generator writes the CDATA section again: two trips, the same XML and the same WBXML.
   With a CR LF inside the data the second XML differs under THIS model of the parser (one character-data event per text: the
   reader normalises CR LF to LF, and only a LONE LF event is turned back into CR LF by the front end - Expat delivers line ends as
   separate events; C02f_lone_lf_differs): C03_ex_union_syncml_crlf_needs_split_events. *)
Definition exs_L : lang := nth 19 main_table (mk_lang 0 0 None None None None None None None None).
Definition exs_o := EncWbxml.mk_opts 2 false false false.
Definition exs_o' := mk_w2x 2101 0 0 0 false.
Definition exs_root (payload : EncWbxml.bytes) : EncWbxml.node :=
  EncWbxml.NElt (EncWbxml.TagTok 0 45 0 (XmlFront.bs "SyncML")) []
    [EncWbxml.NElt (EncWbxml.TagTok 0 5 0 (XmlFront.bs "Add")) []
       [EncWbxml.NElt (EncWbxml.TagTok 0 20 0 (XmlFront.bs "Item")) []
          [EncWbxml.NElt (EncWbxml.TagTok 0 15 0 (XmlFront.bs "Data")) [] [EncWbxml.NCData [EncWbxml.NText payload]]]]].
Definition exs_trip (ev : list XmlFront.event) : option (bytes * bytes) :=
  match r_out (ConvXml2Wbxml.xml2wbxml_events main_table EncWbxmlTables.main_btable ex_sub ev true exs_o [60]) with
  | Some w => match r_out (wbxml2xml_model main_table exs_o' w) with Some x0 => Some (w, removelast x0) | None => None end
  | None => None
  end.
Definition exs_two_trips (payload : EncWbxml.bytes) : option (bool * bool * bool) :=
  match exs_trip (XmlFrontEvents.events_of exs_L (exs_root payload)) with
  | Some (w1, x1) =>
    match XmlRead.read_xml_auto x1 with
    | XmlRead.ROk d =>
      match exs_trip (events_of_info_ns d) with
      | Some (w2, x2) => Some (bytes_eqb x2 x1, bytes_eqb w2 w1, match EncWbxml.find_sub (XmlFront.bs "<![CDATA[") x1 with Some _ => true | None => false end)
      | None => None
      end
    | _ => None
    end
  | None => None
  end.
Example C03_ex_union_syncml_vobject_two_trips :
  l_id exs_L = 2101 /\ XmlFrontEvents.root_canon exs_L XmlFrontInverse.no_emb (exs_root (XmlFront.bs "BEGIN:VCARD END:VCARD")) = true /\
  exs_two_trips (XmlFront.bs "BEGIN:VCARD END:VCARD") = Some (true, true, true).
Proof. repeat split; vm_compute; reflexivity. Qed.
Example C03_ex_union_syncml_crlf_needs_split_events :
  exs_two_trips (XmlFront.bs "BEGIN:VCARD" ++ [13; 10] ++ XmlFront.bs "END:VCARD") = Some (false, false, true).
Proof. vm_compute. reflexivity. Qed.

(* ... with the line ends delivered as events of their own (what Expat does after normalising CR LF to LF; xmlfront's text-split
   invariance says pieces do not matter EXCEPT for a lone LF event, which the front end turns into CR LF in vObject data): the CR LF
   case IS a fixed point - the second XML and the second WBXML are identical, as the C shows (props/C03: byte-identical second
   iterations for CR LF in vCard data) *)
Fixpoint split_lf (cur : EncWbxml.bytes) (t : EncWbxml.bytes) : list EncWbxml.bytes :=
  match t with
  | [] => match cur with [] => [] | _ => [rev cur] end
  | c :: r => if c =? 10 then (match cur with [] => [] | _ => [rev cur] end) ++ [[10]] ++ split_lf [] r else split_lf (c :: cur) r
  end.
Fixpoint split_events (evs : list XmlFront.event) : list XmlFront.event :=
  match evs with
  | [] => []
  | XmlFront.EvCharacters t :: r => map XmlFront.EvCharacters (split_lf [] t) ++ split_events r
  | e :: r => e :: split_events r
  end.
Definition exs_two_trips_split (payload : EncWbxml.bytes) : option (bool * bool * bool) :=
  match exs_trip (XmlFrontEvents.events_of exs_L (exs_root payload)) with
  | Some (w1, x1) =>
    match XmlRead.read_xml_auto x1 with
    | XmlRead.ROk d =>
      match exs_trip (split_events (events_of_info_ns d)) with
      | Some (w2, x2) => Some (bytes_eqb x2 x1, bytes_eqb w2 w1, match EncWbxml.find_sub [13; 10] x1 with Some _ => true | None => false end)
      | None => None
      end
    | _ => None
    end
  | None => None
  end.
Example C03_ex_union_syncml_crlf_fixed_point_with_split_events :
  exs_two_trips_split (XmlFront.bs "BEGIN:VCARD" ++ [13; 10] ++ XmlFront.bs "VERSION:2.1" ++ [13; 10] ++ XmlFront.bs "END:VCARD") = Some (true, true, true) /\
  exs_two_trips_split (XmlFront.bs "BEGIN:VCARD END:VCARD") = Some (true, true, false).
Proof. split; vm_compute; reflexivity. Qed.
