From Coq Require Import List NArith.
From Wbxml Require Import Model.Cli.
Theorem C20_stub : True. Proof. exact I. Qed.
Print Assumptions C20_stub.
