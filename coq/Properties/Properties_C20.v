(* C20 — The command-line tools report the library's verdict and nothing else.
   Only statements, each closed by `exact`, with Print Assumptions beneath.
   Model: Model/Cli.v (transcription of tools/attgetopt.c and of the two mains; the library call, fopen of the
   input and of the output are inputs: record `world`); proofs: Proofs/CliProofs.v.
   `request t fl argv` is what the arguments ask for (None = usage text), `input_of w name` the stream the input
   name selects ("-" = stdin), `sink_spec` where the bytes must go. *)
From Coq Require Import List NArith.
From Wbxml Require Import Model.Cli Proofs.CliProofs.
Import ListNotations.
Local Open Scope N_scope.

(* no stuck state: every argv, every environment gives an observable outcome.
   argv_ok: the words contain no NUL byte (they are C strings); needed for the transcription of attgetopt.c only *)
Theorem C20_total : forall t fl argv w, (fl = Att -> argv_ok argv) -> exists o, tool_main t fl argv w = Done o.
Proof. exact main_total. Qed.
Print Assumptions C20_total.

(* the stateful loop over wbxml_getopt (optind, sp) computes exactly the documented grammar *)
Theorem C20_options_follow_grammar : forall t argv, argv_ok argv -> tool_parse t Att argv = tool_spec_parse t argv.
Proof. exact tool_parse_att_spec. Qed.
Print Assumptions C20_options_follow_grammar.

(* glibc flavour: same option tables as the documented grammar *)
Theorem C20_posix_same_tables : forall c, opt_kind w2x_optstring c = kind_w2x c /\ opt_kind x2w_optstring c = kind_x2w c.
Proof. intro c. split; [exact (opt_kind_w2x c) | exact (opt_kind_x2w c)]. Qed.
Print Assumptions C20_posix_same_tables.

(* the executables CMake builds on this platform call glibc's getopt (flavour Posix, a description of glibc: it
   moves file names behind the options and knows "--").  On command lines of the documented form
   `tool [options] file ...` — every option word before the first file name, no "--" as an option word — both
   flavours compute the same options, the same argv and the same optind, hence (by the theorems below) the same outcome *)
Theorem C20_flavours_agree_on_documented_form : forall t argv,
  argv_ok argv -> documented_form t argv = true -> tool_parse t Posix argv = tool_parse t Att argv.
Proof. exact posix_equals_att_on_documented_form. Qed.
Print Assumptions C20_flavours_agree_on_documented_form.

(* reading in 1000-byte blocks delivers the whole input, whatever its length *)
Theorem C20_blocks_deliver_input : forall bs, read_blocks (S (length bs)) bs [] = Some bs.
Proof. exact read_blocks_all. Qed.
Print Assumptions C20_blocks_deliver_input.

(* a conversion is attempted iff the arguments ask for one and the input is readable;
   it is called with exactly the parsed options and exactly the bytes of the input *)
Theorem C20_call_is_request : forall t fl argv w o, tool_main t fl argv w = Done o ->
  o_call o = match request t fl argv with
             | Some (lo, _, name) => match input_of w name with InBytes bs => Some (lo, bs) | _ => None end
             | None => None
             end.
Proof. exact call_is_request. Qed.
Print Assumptions C20_call_is_request.

(* exit status = the library's code (as the parent sees it: 8 bits) whenever a conversion was attempted, else 0 *)
Theorem C20_exit_status : forall t fl argv w o, tool_main t fl argv w = Done o ->
  match o_call o with
  | Some (lo, data) => o_exit o = fst (w_lib w lo data) mod 256
  | None => o_exit o = 0
  end.
Proof. exact exit_status. Qed.
Print Assumptions C20_exit_status.

Theorem C20_exit_status_is_code : forall t fl argv w o lo data, tool_main t fl argv w = Done o ->
  o_call o = Some (lo, data) -> fst (w_lib w lo data) < 256 -> o_exit o = fst (w_lib w lo data).
Proof.
  intros t fl argv w o lo data H Hc Hlt. pose proof (exit_status _ _ _ _ _ H) as E.
  rewrite Hc in E. rewrite E. apply N.mod_small. exact Hlt.
Qed.
Print Assumptions C20_exit_status_is_code.

(* "<tool> failed:" is printed iff a conversion was attempted and failed ... *)
Theorem C20_failed_line_iff : forall t fl argv w o, tool_main t fl argv w = Done o ->
  forall t' c, In (MFailed t' c) (o_stderr o) <->
               (t' = t /\ c <> 0 /\ exists lo data, o_call o = Some (lo, data) /\ fst (w_lib w lo data) = c).
Proof. exact failed_line_iff. Qed.
Print Assumptions C20_failed_line_iff.

(* ... and then no output stream is opened or written *)
Theorem C20_failed_no_output : forall t fl argv w o, tool_main t fl argv w = Done o ->
  forall t' c, In (MFailed t' c) (o_stderr o) -> o_sink o = SNone /\ o_stdout o = [].
Proof. exact failed_no_output. Qed.
Print Assumptions C20_failed_no_output.

(* the bytes written are the library's bytes, to the sink the arguments name, and only on success *)
Theorem C20_output_bytes : forall t fl argv w o, tool_main t fl argv w = Done o ->
  o_sink o = match request t fl argv with
             | Some (lo, out, name) =>
                 match input_of w name with
                 | InBytes bs => sink_spec w out (fst (w_lib w lo bs)) (snd (w_lib w lo bs))
                 | _ => SNone
                 end
             | None => SNone
             end.
Proof. exact output_bytes. Qed.
Print Assumptions C20_output_bytes.

Theorem C20_sink_stdout_iff : forall w out code outb bs,
  sink_spec w out code outb = SStdout bs <-> (out = Some s_dash /\ code = 0 /\ bs = outb).
Proof. exact sink_spec_stdout. Qed.
Print Assumptions C20_sink_stdout_iff.

Theorem C20_sink_file_iff : forall w out code outb n bs,
  sink_spec w out code outb = SFile n bs <->
  (out = Some n /\ n <> s_dash /\ code = 0 /\ w_open_out w n = true /\ bs = outb).
Proof. exact sink_spec_file. Qed.
Print Assumptions C20_sink_file_iff.

(* unknown options / missing option values / missing file name: usage on stderr, status 0, nothing written *)
Theorem C20_usage_when_no_request : forall t fl argv w o, tool_main t fl argv w = Done o ->
  request t fl argv = None ->
  In (MHelp t) (o_stderr o) /\ o_exit o = 0 /\ o_sink o = SNone /\ o_stdout o = [] /\ o_call o = None.
Proof. exact usage_when_no_request. Qed.
Print Assumptions C20_usage_when_no_request.

(* unwritable output: reported on stderr, nothing written *)
Theorem C20_unwritable_output_reported : forall t fl argv w o lo n name bs,
  tool_main t fl argv w = Done o ->
  request t fl argv = Some (lo, Some n, name) -> input_of w name = InBytes bs ->
  fst (w_lib w lo bs) = 0 -> n <> s_dash -> w_open_out w n = false ->
  In (MFailedOpenOut n) (o_stderr o) /\ o_sink o = SNone /\ o_exit o = 0.
Proof. exact unwritable_output_reported. Qed.
Print Assumptions C20_unwritable_output_reported.

(* both tools print something on stderr on every path *)
Theorem C20_always_reports : forall t fl argv w o, tool_main t fl argv w = Done o -> o_stderr o <> [].
Proof. exact always_reports. Qed.
Print Assumptions C20_always_reports.

(* unreadable input (cannot be opened, or read error): no conversion, status 0, nothing written, nothing on
   stdout, exactly one report line on stderr.  Full since /repo 1510f5b (xml2wbxml used to print the
   "Failed to open" line on stdout; that behaviour is now an ordinary violation for the check's oracle). *)
Theorem C20_unreadable_input_reported : forall t fl argv w o lo out name,
  tool_main t fl argv w = Done o -> request t fl argv = Some (lo, out, name) ->
  (forall bs, input_of w name <> InBytes bs) ->
  o_call o = None /\ o_exit o = 0 /\ o_sink o = SNone /\ o_stdout o = [] /\
  (o_stderr o = [MFailedOpenIn name] \/ exists n, o_stderr o = [MReadErr n]).
Proof. exact unreadable_input_reported. Qed.
Print Assumptions C20_unreadable_input_reported.

(* the hypotheses are satisfiable *)
Example argv_ok_ex : argv_ok [[119]; [45; 111]; [111]; [105]].
Proof. repeat constructor; discriminate. Qed.
Example request_ex : request W2X Att [[119]; [45; 111]; [111]; [105]] = Some (LW w2x_default, Some [111], [105]).
Proof. vm_compute. reflexivity. Qed.
Example documented_form_ex : documented_form W2X [[119]; [45; 111]; [111]; [105]] = true.
Proof. vm_compute. reflexivity. Qed.
Example flavours_differ_ex :   (* "x in -k": glibc finds -k, the AT&T code stops at "in" *)
  tool_parse X2W Posix [[120]; [105; 110]; [45; 107]] <> tool_parse X2W Att [[120]; [105; 110]; [45; 107]].
Proof. vm_compute. discriminate. Qed.
Example request_none_ex : request X2W Posix [[120]; [105]; [45; 122]] = None.
Proof. vm_compute. reflexivity. Qed.
