(* C02 (front end) — XML -> WBXML tree: the Expat callbacks of src/wbxml_tree_clb_xml.c and the XML half of
   src/wbxml_tree.c, modelled in Model/XmlFront.v (Expat's event list and XML_Parse's verdict are inputs; the nested
   parse of an embedded DevInf / DM DDF document is the parameter `sub`, instantiated with the function itself in
   tree_from_xml_fuel).  Proofs: Proofs/XmlFrontProofs.v, XmlFrontTree.v, XmlFrontBalance.v, XmlFrontExamples.v.
   The model is tied to the C by vlib/xmlfront.py (harness/xmlfront_harness.c, driver/XmlFront_driver.ml).

   (a) the error field      C02f_error_never_cleared (full), C02f_sticky_error, C02f_sticky_error_cursor (full for what the
                            code does), C02f_flush_precedes_depth_check, C02f_binary_mixed_content_in_order (the cached
                            base64 text of a binary-flagged `current` is decoded when a child starts, since /repo c0648d3)
   (b) refusal              C02f_not_well_formed_is_error, C02f_no_language_is_error, C02f_refused_conversion (full)
   (c) shape of the tree    C02f_tree_shape, C02f_tree_shape_all_levels, C02f_element_nesting_bound (full; the bound is on
                            the ancestors of ELEMENT nodes, which is what the C checks: CDATA nodes are not depth-checked)
   (d) balance              C02f_balance, C02f_document_balance, C02f_nesting_check_uses_parent_chain,
                            C02f_nested_parse_error_nonzero (full)
   (e) names                C02f_names_step, C02f_names, C02f_names_from_events (full)
   markers                  C02f_outside_model_unreachable (full), C02f_no_null_dereference_on_documents (full for event lists
                            of the shape Expat delivers; hypothesis on the nested parse) *)
From Coq Require Import List NArith String.
From Wbxml Require Import Model.TablesDefs Model.Tables Model.LangSelect Model.EncWbxml Model.XmlFront Model.Conv.
From Wbxml Require Import Proofs.XmlFrontProofs Proofs.XmlFrontTree Proofs.XmlFrontBalance Proofs.XmlFrontNoUB Proofs.XmlFrontExamples.
From Wbxml Require Import Gen.TablesData Properties.Properties_C02.
Import ListNotations.
Local Open Scope N_scope.

(* ------------------------------------------------------------------ (a) the error field *)

Theorem C02f_error_never_cleared :
  forall main sub input c evs, c_error c <> WBXML_OK -> c_error (run main sub input c evs) <> WBXML_OK.
Proof. exact error_never_cleared. Qed.
Print Assumptions C02f_error_never_cleared.

(* after an error every callback returns at once, except: the XML-declaration and DOCTYPE callbacks (no error check; they
   touch tree->orig_charset / tree->lang only: C02f_sticky_error_cursor) and the end-element callback *)
Theorem C02f_sticky_error :
  forall main sub input c e, c_error c <> WBXML_OK ->
  match e with
  | EvXmlDecl _ _ | EvStartDoctype _ _ _ => True
  | EvEndElement _ _ => step main sub input c e = flush_binary c
  | _ => step main sub input c e = c
  end.
Proof.
  intros main sub input c e H. pose proof (step_failed_unchanged main sub input c e H).
  destruct e; auto. now apply step_failed_end_element.
Qed.
Print Assumptions C02f_sticky_error.

(* whatever the event: tree->root, the skip state, the depth of `current` and all its ancestors stay as they are *)
Theorem C02f_sticky_error_cursor :
  forall main sub input c e, c_error c <> WBXML_OK ->
  let c' := step main sub input c e in
  c_root c' = c_root c /\ c_skip_lvl c' = c_skip_lvl c /\ c_skip_start c' = c_skip_start c /\
  List.length (c_spine c') = List.length (c_spine c) /\ tl (c_spine c') = tl (c_spine c).
Proof. exact failed_cursor_frozen_step. Qed.
Print Assumptions C02f_sticky_error_cursor.

(* Until /repo c0648d3 the strict reading ("no later event changes the tree or the error") was REFUTED by two witnesses:
   the text cached on a binary-flagged `current` survived an error recorded by the start-element callback, and the
   end-element callback decodes that cache before it looks at the error field.  Since that commit the start-element
   callback flushes the cache itself, before it can record an error: the two witnesses are gone, and what they have
   become is stated here (bad base64 is reported at the child's start tag, before the depth check; good base64 is a
   text node in front of the refused child and the end-element event changes nothing any more). *)
Theorem C02f_flush_precedes_depth_check :
  c_error (run main_table no_sub [] init_ctx (deep_binary "!!!!")) = E_B64_DEC /\
  (let c := run main_table no_sub [] init_ctx (deep_binary "YWJj") in
   c_error c = E_NESTING_TOO_DEEP /\ top_kids c = 1%nat /\
   step main_table no_sub [] c (EvEndElement (bs "x") 0) = c).
Proof. exact flush_precedes_depth_check. Qed.
Print Assumptions C02f_flush_precedes_depth_check.

(* each run of base64 text of a binary-flagged element is decoded on its own and keeps its place among the children *)
Theorem C02f_binary_mixed_content_in_order :
  let c := run main_table no_sub [] init_ctx
             [EvStartElement (bs "AirSync:|Sync") [] 0; EvStartElement (bs "Email2:|ConversationId") [] 0;
              EvCharacters (bs "Zg=="); EvStartElement (bs "AirSync:|Add") [] 0; EvEndElement (bs "AirSync:|Add") 0;
              EvCharacters (bs "b28="); EvEndElement (bs "Email2:|ConversationId") 0] in
  c_error c = WBXML_OK /\
  match c_spine c with
  | [f] => match kids_of f with
           | [NElt _ _ [NText a; NElt _ _ []; NText b]] => a = bs "f" /\ b = bs "oo"
           | _ => False
           end
  | _ => False
  end.
Proof. exact binary_mixed_content_in_order. Qed.
Print Assumptions C02f_binary_mixed_content_in_order.

(* ------------------------------------------------------------------ (b) refusal *)

Theorem C02f_not_well_formed_is_error :
  forall main sub input evs, exists e, tree_from_xml main sub input evs false = inr e.
Proof. exact not_well_formed_is_error. Qed.
Print Assumptions C02f_not_well_formed_is_error.

Theorem C02f_callback_error_is_error :
  forall main sub input evs ok, c_error (run main sub input init_ctx evs) <> WBXML_OK ->
  exists e, tree_from_xml main sub input evs ok = inr e.
Proof. exact failed_run_is_error. Qed.
Print Assumptions C02f_callback_error_is_error.

(* no language from the DOCTYPE (absent, or not in the tables) and none from the root element *)
Theorem C02f_no_language_is_error :
  forall main sub input prolog name attrs idx rest ok,
  Forall (prolog_event main) prolog ->
  search_table main None None (Some (str name)) = None ->
  exists e, tree_from_xml main sub input (prolog ++ EvStartElement name attrs idx :: rest) ok = inr e.
Proof. exact no_language_is_error. Qed.
Print Assumptions C02f_no_language_is_error.

(* the premise of C02_refused_input_is_error, for the whole function with Expat as the oracle *)
Theorem C02f_refused_conversion :
  forall main (expat : bytes -> list event * bool) fuel (opts : Type) (encode : opts -> xtree -> list N + N) (o : opts) (doc : list N),
  snd (expat doc) = false ->
  exists e', conv_run xtree opts (fun _ d => tree_from_xml_fuel main expat fuel d) encode false o doc = mk_res (ST_ERR e') None 0.
Proof.
  intros main expat fuel opts encode o doc H.
  destruct (not_well_formed_is_error main (match fuel with O => fun _ => inr E_NESTED_FUEL | S k => tree_from_xml_fuel main expat k end)
                                     doc (fst (expat doc))) as [e He].
  apply (C02_refused_input_is_error xtree opts (fun _ d => tree_from_xml_fuel main expat fuel d) encode o doc e).
  destruct fuel; cbn [tree_from_xml_fuel]; rewrite H; exact He.
Qed.
Print Assumptions C02f_refused_conversion.

(* ------------------------------------------------------------------ (c) shape of the tree *)

(* tree_ok: every ELEMENT node has fewer than 1000 ancestors, no sibling list has two adjacent text nodes, embedded
   trees satisfy the same (depth counted from their own root) *)
Theorem C02f_tree_shape :
  forall main sub input, (forall d t, sub d = inl t -> tree_ok t) ->
  forall evs ok t, tree_from_xml main sub input evs ok = inl t -> tree_ok t.
Proof. exact tree_from_xml_ok. Qed.
Print Assumptions C02f_tree_shape.

Theorem C02f_tree_shape_all_levels :
  forall main expat fuel input t, tree_from_xml_fuel main expat fuel input = inl t -> tree_ok t.
Proof. exact tree_from_xml_fuel_ok. Qed.
Print Assumptions C02f_tree_shape_all_levels.

(* at most 1000 nested ELEMENT levels in every tree (embedded trees are leaves here; each is bounded on its own) *)
Theorem C02f_element_nesting_bound :
  forall main expat fuel input t r, tree_from_xml_fuel main expat fuel input = inl t -> In r (xt_roots t) -> (eheight r <= 1000)%nat.
Proof. intros main expat fuel input t r H. apply tree_ok_eheight. exact (tree_from_xml_fuel_ok main expat fuel input t H). Qed.
Print Assumptions C02f_element_nesting_bound.

(* ------------------------------------------------------------------ (d) balance *)

(* content of an element: `current` (f, ancestors up) and the skip level come back, through skipped embedded
   documents too, unless an error is recorded; the only other outcome is the CDATA node the SyncML hack added below f *)
Theorem C02f_balance :
  forall main sub input, (forall d, sub d <> inr WBXML_OK) ->
  forall evs, balanced evs ->
  forall c f up, c_spine c = f :: up -> N.of_nat (List.length evs) + c_skip_lvl c < 4294967296 ->
  let c' := run main sub input c evs in
  c_error c' <> WBXML_OK \/
  (c_skip_lvl c' = c_skip_lvl c /\
   exists f', same_kind f f' /\
              (c_spine c' = f' :: up \/
               (c_skip_lvl c = 0 /\ is_cdata_frame f = false /\ up <> [] /\ exists k, c_spine c' = mk_frame FCData k :: f' :: up))).
Proof. intros main sub input Hs evs H. exact (balanced_cont main sub input Hs evs H). Qed.
Print Assumptions C02f_balance.

Theorem C02f_document_balance :
  forall main sub input, (forall d, sub d <> inr WBXML_OK) ->
  forall prolog root attrs i i' body epilog,
  Forall prolog_any prolog -> balanced body -> Forall is_pi epilog -> N.of_nat (List.length body) + 1 < 4294967296 ->
  let c' := run main sub input init_ctx (prolog ++ EvStartElement root attrs i :: body ++ EvEndElement root i' :: epilog) in
  c_error c' <> WBXML_OK \/ (c_skip_lvl c' = 0 /\ exists f, c_spine c' = [f] /\ is_cdata_frame f = false).
Proof. exact document_balance. Qed.
Print Assumptions C02f_document_balance.

(* the nesting check compares the length of the parent chain of `current` (recomputed at every event), so it fires
   exactly for the 1000th nesting level, whatever was skipped before (provided the base64 text cached on a
   binary-flagged `current`, which is decoded first since /repo c0648d3, is good: otherwise that error is reported) *)
Theorem C02f_nesting_check_uses_parent_chain :
  forall main sub input c name attrs idx,
  c_error c = WBXML_OK -> c_skip_lvl c = 0 -> c_spine c <> [] -> is_embedded_name name = false ->
  c_error (flush_binary c) = WBXML_OK ->
  (c_error (step main sub input c (EvStartElement name attrs idx)) = E_NESTING_TOO_DEEP <-> (1000 <= List.length (c_spine c))%nat).
Proof. exact nesting_check_exact. Qed.
Print Assumptions C02f_nesting_check_uses_parent_chain.

(* the hypothesis on `sub` of the two balance theorems holds for the function itself (the nested parse of the C) *)
Theorem C02f_nested_parse_error_nonzero :
  forall main expat fuel input, tree_from_xml_fuel main expat fuel input <> inr WBXML_OK.
Proof. exact tree_from_xml_fuel_inr_nonzero. Qed.
Print Assumptions C02f_nested_parse_error_nonzero.

(* ------------------------------------------------------------------ (e) names *)

(* one event: the (tag, attributes) of the tree's ELEMENT nodes, in document order, grow by exactly the resolution
   (Tables lookups: page of the namespace, tag_from_xml, attr_from_xml) of the start-element event when it is accepted,
   and do not change otherwise *)
Theorem C02f_names_step :
  forall main sub input c e, one_root c ->
  ctx_labels (step main sub input c e) = ctx_labels c ++ new_labels main c e /\ one_root (step main sub input c e).
Proof. exact labels_step. Qed.
Print Assumptions C02f_names_step.

Theorem C02f_names :
  forall main sub input evs ok t, tree_from_xml main sub input evs ok = inl t ->
  flat_map labels (xt_roots t) = trace_labels main sub input init_ctx evs.
Proof. exact tree_from_xml_labels. Qed.
Print Assumptions C02f_names.

Theorem C02f_names_from_events :
  forall main sub input evs ok t lab, tree_from_xml main sub input evs ok = inl t -> In lab (flat_map labels (xt_roots t)) ->
  exists name attrs idx l, In (EvStartElement name attrs idx) evs /\ lab = (fst (resolve_tag l name), map (resolve_attr l) attrs).
Proof.
  intros main sub input evs ok t lab H I. rewrite (tree_from_xml_labels main sub input evs ok t H) in I.
  exact (trace_labels_in main sub input init_ctx evs lab I).
Qed.
Print Assumptions C02f_names_from_events.

(* ------------------------------------------------------------------ the model's own marker *)

Theorem C02f_outside_model_unreachable :
  forall main sub input evs, (forall d, sub d <> inr E_OUTSIDE_MODEL) -> c_error (run main sub input init_ctx evs) <> E_OUTSIDE_MODEL.
Proof. intros main sub input evs H. exact (outside_model_unreachable main sub input evs H). Qed.
Print Assumptions C02f_outside_model_unreachable.

(* the places where the C would dereference a NULL pointer (model code E_UB_NULL: tree->lang or node->parent is NULL,
   possible only when a CDATA section precedes the root element) are not reached on prolog + root element with
   well-bracketed content + epilog, provided the nested parse does not report that code either *)
Theorem C02f_no_null_dereference_on_documents :
  forall main sub input, (forall d, sub d <> inr E_UB_NULL) -> (forall d, sub d <> inr WBXML_OK) ->
  forall prolog root attrs i i' body epilog,
  Forall prolog_any prolog -> balanced body -> Forall is_pi epilog -> N.of_nat (List.length body) + 1 < 4294967296 ->
  c_error (run main sub input init_ctx (prolog ++ EvStartElement root attrs i :: body ++ EvEndElement root i' :: epilog)) <> E_UB_NULL.
Proof. exact document_no_ub. Qed.
Print Assumptions C02f_no_null_dereference_on_documents.

(* ------------------------------------------------------------------ examples: the hypotheses are satisfiable *)

Example C02f_ex_tree : exists t, tree_from_xml main_table no_sub [60] ex_wml true = inl t.
Proof. eexists. exact ex_wml_tree. Qed.
Example C02f_ex_balanced : exists evs, evs <> [] /\ balanced evs.
Proof. eexists. split; [|exact ex_wml_balanced]. discriminate. Qed.
Example C02f_ex_embedded : exists t, tree_from_xml main_table ex_sub ex_input ex_syncml true = inl t /\ tree_ok t.
Proof.
  eexists. split; [exact ex_syncml_tree|].
  apply (tree_from_xml_ok main_table ex_sub ex_input) with (evs := ex_syncml) (ok := true); [|exact ex_syncml_tree].
  intros d t. unfold ex_sub. destruct (beq d _); [|discriminate]. intros E. injection E as <-. exact ex_nested_ok.
Qed.
Example C02f_ex_no_language : search_table main_table None None (Some (str (bs "nobody"))) = None.
Proof. exact ex_unknown_root_premise. Qed.
Example C02f_ex_sub_nonzero : forall d, no_sub d <> inr WBXML_OK.
Proof. intros d. discriminate. Qed.
