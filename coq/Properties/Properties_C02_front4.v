(* C02 / C03 (front end), round 4 — the front end INVERTS the events of a canonical tree (general: namespaces, attributes,
   CDATA nodes, binary-flagged content as base64 with mixed content, embedded trees through the nested parse).
   Definitions: Model/XmlFrontEvents.v (events_of and its parser assumptions, root_canon); proofs: Proofs/XmlFrontInverse.v.
   The parser assumptions of events_of are checked against the C by vlib.xmlfront.correspond_inverse (trees of real
   conversions -> extracted events_of -> the C callbacks -> the same tree).

   C02f_front_inverts_events          full (hypotheses: non-empty input, the language's own DOCTYPE selects it, root_canon)
   C02f_front_inverts_node, _kids     full (the induction: any position in a document)
   C02f_front_idempotent_on_image     full under "the image is canonical"; the image is NOT always canonical:
   C02f_image_not_canonical_*         three witnesses (empty text event; CDATA after text in a binary element; binary
                                      AirSync <Data> under <Replace>) — the predicate is sufficient, not necessary
   C02f_image_token_tags_canonical, C02f_image_attributes_canonical    what IS canonical in every image, on the regenerated
                                      tables (resolve_tag / resolve_attr are idempotent)
   C02f_conversion_of_events_of       full (Goal 2: xml2wbxml_events on events_of = the encoding of the tree)
   C02f_canonical_* (Examples)        real WML 1.3 / SyncML 1.1 / ActiveSync trees satisfy root_canon *)
From Coq Require Import List NArith String.
From Wbxml Require Import Model.TablesDefs Model.Tables Model.LangSelect Model.Conv Model.EncWbxml Model.XmlFront Model.XmlFrontEvents Model.ConvXml2Wbxml.
From Wbxml Require Import Proofs.XmlFrontInverse Gen.TablesData.
Import ListNotations.
Local Open Scope N_scope.

Theorem C02f_front_inverts_events :
  forall main sub input l emb root,
  (forall lid roots, emb lid roots = true -> emb_spec main sub input l lid roots) ->
  input <> [] ->
  search_table main (option_map str (option_map bs (l_pub_text l))) (option_map str (option_map bs (l_dtd l))) None = Some l ->
  root_canon l emb root = true ->
  tree_from_xml main sub input (events_of l root) true = inl (mk_xtree (l_id l) 0 [root]).
Proof. intros main sub input l emb root H. exact (front_inverts_events main sub input l emb H root). Qed.
Print Assumptions C02f_front_inverts_events.

(* the same with any DOCTYPE that selects the language (the form of Proofs/FrontSimple.doc_events) *)
Theorem C02f_front_inverts_doc :
  forall main sub input l emb rootname sysid pubid root,
  (forall lid roots, emb lid roots = true -> emb_spec main sub input l lid roots) ->
  input <> [] ->
  search_table main (option_map str pubid) (option_map str sysid) None = Some l ->
  root_canon l emb root = true ->
  tree_from_xml main sub input (doc_events l rootname sysid pubid root) true = inl (mk_xtree (l_id l) 0 [root]).
Proof. intros main sub input l emb rootname sysid pubid root H. exact (front_inverts_doc main sub input l emb H rootname sysid pubid root). Qed.
Print Assumptions C02f_front_inverts_doc.

(* one node anywhere: below a node of kind k whose children so far are rdone (most recent first), ancestors' frames up *)
Theorem C02f_front_inverts_node :
  forall main sub input l emb, (forall lid roots, emb lid roots = true -> emb_spec main sub input l lid roots) ->
  forall n up k rdone c,
  node_canon l emb up k rdone n = true -> Inv l c up k rdone ->
  let c' := run main sub input c (ev_node l (kind_binary k) n) in
  Inv l c' up k (n :: rdone) /\ c_root c' = c_root c /\ c_charset c' = c_charset c.
Proof. intros main sub input l emb H. exact (node_sim main sub input l emb H). Qed.
Print Assumptions C02f_front_inverts_node.

Theorem C02f_front_inverts_kids :
  forall main sub input l emb, (forall lid roots, emb lid roots = true -> emb_spec main sub input l lid roots) ->
  forall up k, kind_plain k -> forall rest rd c,
  kids_canon l emb up k rd rest = true -> Inv l c up k rd ->
  let c' := run main sub input c (flat_map (ev_node l (kind_binary k)) rest) in
  Inv l c' up k (rev rest ++ rd) /\ c_root c' = c_root c /\ c_charset c' = c_charset c.
Proof. intros main sub input l emb H. exact (kids_sim main sub input l emb H). Qed.
Print Assumptions C02f_front_inverts_kids.

Theorem C02f_front_idempotent_on_image :
  forall main sub input l emb evs ok t r,
  (forall lid roots, emb lid roots = true -> emb_spec main sub input l lid roots) ->
  tree_from_xml main sub input evs ok = inl t -> xt_roots t = [r] -> xt_lang t = l_id l ->
  search_table main (option_map str (option_map bs (l_pub_text l))) (option_map str (option_map bs (l_dtd l))) None = Some l ->
  root_canon l emb r = true ->
  tree_from_xml main sub input (events_of l r) true = inl (mk_xtree (xt_lang t) 0 (xt_roots t)).
Proof. exact front_idempotent_on_image. Qed.
Print Assumptions C02f_front_idempotent_on_image.

Theorem C02f_conversion_of_events_of :
  forall main btbl sub input l emb root o,
  (forall lid roots, emb lid roots = true -> emb_spec main sub input l lid roots) ->
  input <> [] ->
  search_table main (option_map str (option_map bs (l_pub_text l))) (option_map str (option_map bs (l_dtd l))) None = Some l ->
  root_canon l emb root = true ->
  xml2wbxml_events main btbl sub (events_of l root) true o input =
  match encode_tree btbl o (mk_xtree (l_id l) 0 [root]) with
  | inl out => mk_res ST_OK (Some out) (N.of_nat (List.length out))
  | inr e => mk_res (ST_ERR e) None 0
  end.
Proof. exact conversion_of_events_of. Qed.
Print Assumptions C02f_conversion_of_events_of.

(* the image: token tags and attributes are canonical by construction (on the regenerated tables) *)
Theorem C02f_image_token_tags_canonical :
  forall l name p t o nm, In l main_table ->
  fst (resolve_tag l name) = TagTok p t o nm -> tag_canon l (TagTok p t o nm) = true.
Proof.
  intros l name p t o nm IN. apply resolve_tag_token_canon.
  pose proof main_table_tags_canon as H. rewrite forallb_forall in H. now apply H.
Qed.
Print Assumptions C02f_image_token_tags_canonical.

Theorem C02f_image_attributes_canonical :
  forall l nv, Forall (fun c => c < 256) (fst nv) -> ev_attr (resolve_attr l nv) = nv.
Proof. exact resolve_attr_canon. Qed.
Print Assumptions C02f_image_attributes_canonical.

(* ... but not everything: *)
Theorem C02f_image_not_canonical_empty_text :
  tree_from_xml main_table (fun _ => inr 104) [60] w1_events true = inl (mk_xtree 1101 0 [w1_root]) /\
  root_canon (lang_by_id 1101) (fun _ _ => false) w1_root = false.
Proof. exact image_not_canonical_empty_text. Qed.
Print Assumptions C02f_image_not_canonical_empty_text.

Theorem C02f_image_not_canonical_cdata_in_binary :
  tree_from_xml main_table (fun _ => inr 104) [60] w2_events true = inl (mk_xtree 2402 0 [w2_root]) /\
  root_canon (lang_by_id 2402) (fun _ _ => false) w2_root = false.
Proof. exact image_not_canonical_cdata_in_binary. Qed.
Print Assumptions C02f_image_not_canonical_cdata_in_binary.

Theorem C02f_image_not_canonical_data_hack :
  tree_from_xml main_table (fun _ => inr 104) [60] w3_events true = inl (mk_xtree 2402 0 [w3_root]) /\
  root_canon (lang_by_id 2402) (fun _ _ => false) w3_root = false.
Proof. exact image_not_canonical_data_hack. Qed.
Print Assumptions C02f_image_not_canonical_data_hack.

(* real trees are canonical *)
Example C02f_canonical_wml : root_canon (lang_by_id 1104) no_emb ex_wml_root = true.
Proof. exact ex_wml_canonical. Qed.
Example C02f_canonical_syncml : root_canon (lang_by_id 2101) no_emb ex_syncml_root = true.
Proof. exact ex_syncml_canonical. Qed.
Example C02f_canonical_activesync : root_canon (lang_by_id 2402) no_emb ex_activesync_root = true.
Proof. exact ex_activesync_canonical. Qed.
Example C02f_activesync_inverted :
  tree_from_xml main_table (fun _ => inr 104) [60] (events_of (lang_by_id 2402) ex_activesync_root) true
  = inl (mk_xtree 2402 0 [ex_activesync_root]).
Proof. exact ex_activesync_inverted. Qed.
