(* C05 — generated XML is well-formed and denotes exactly the parsed document; XML half of C07.
   Statements only; proofs are in Proofs/EncXmlProofs.v and Proofs/EncXmlTables.v.
   Model: Model/EncXml.v (transcription of the XML half of wbxml_encoder.c), Model/XmlRead.v (reader for the
   output dialect, validated against pyexpat by the check).  Specification: info_node / spec_attrs / spec_text
   (Proofs/EncXmlProofs.v §2), hypotheses node_ok / lang_ok (boolean). *)
From Coq Require Import List NArith Bool.
From Wbxml Require Import Model.TablesDefs Model.Codec Model.EncXml Model.XmlRead Gen.TablesData
     Proofs.EncXmlProofs Proofs.EncXmlIndent Proofs.EncXmlC07 Proofs.EncXmlEol Proofs.EncXmlTables.
Import ListNotations.
Local Open Scope N_scope.

(* --- escaping ------------------------------------------------------------------------------------------ *)

(* reading the references back gives the text, for every byte string and both generation modes (full) *)
Theorem C05_unescape_escape : forall m s, unescape (escape m s) = Some s.
Proof. exact unescape_escape. Qed.
Print Assumptions C05_unescape_escape.

(* escaped text has no raw less-than, greater-than, double quote or apostrophe, and every ampersand starts one
   of the eight references the generator writes (full; the C escapes all five characters in text AND in
   attribute values) *)
Theorem C05_escape_no_markup : forall m s,
  no_byte 60 (escape m s) = true /\ no_byte 62 (escape m s) = true /\ no_byte 34 (escape m s) = true /\
  no_byte 39 (escape m s) = true /\ amp_ok (escape m s) = true.
Proof. intros m s. destruct (escape_no_raw m s) as (A & B & C & D). repeat split; auto. apply escape_amp_ok. Qed.
Print Assumptions C05_escape_no_markup.

(* canonical generation writes no raw CR, LF or TAB: with C05_unescape_escape they are preserved exactly (full) *)
Theorem C05_canonical_preserves_cr_lf_tab : forall s,
  no_byte 13 (escape true s) = true /\ no_byte 10 (escape true s) = true /\ no_byte 9 (escape true s) = true /\
  unescape (escape true s) = Some s.
Proof. intros s. destruct (escape_canonical_no_raw_ws s) as (A & B & C). repeat split; auto. apply unescape_escape. Qed.
Print Assumptions C05_canonical_preserves_cr_lf_tab.

(* --- reading the document back ------------------------------------------------------------------------- *)

(* FULL.  For EVERY tree that satisfies the property's hypotheses and nothing more (node_ok_e: names are XML
   names; text and attribute values are XML characters — carriage returns allowed everywhere —; no attribute name
   twice, counting the generated xmlns; the content of a binary-flagged element is octets; a CDATA node holds one
   payload text and an embedded document has a language, as the WBXML tree builder makes them), in EVERY generation
   mode (compact, indented with any width at any depth — 8-bit depth counter mod 256 —, canonical) and both
   white-space settings: the reader accepts the output, the DOCTYPE is the language's, and the root element is
   the one info_e specifies: elements, attributes (xmlns per code page) and character data of the tree, base64
   for binary-flagged elements, CDATA payloads put together again, embedded documents in place, the white space
   of indented generation between markup only — with XML's own normalisation applied where the generator writes
   the characters raw: CR LF / CR -> LF over each run of character data and over each CDATA payload (not in
   canonical generation, which writes &#13;), literal TAB / LF / CR -> space in attribute values outside canonical
   generation.  (Processing-instruction nodes make the conversion itself fail.) *)
Theorem C05_read_enc : forall l o nm attrs ch out,
  lang_ok l = true ->
  node_ok_e l o proot None (Elt nm attrs ch) = true ->
  enc_xml_opts l o [Elt nm attrs ch] = XOk out ->
  exists c s',
    info_e l o proot (est0 0) (Elt nm attrs ch) =
      Some ([SR []; SE (tname_bytes nm) (spec_attrs_e l o proot nm attrs) c; SR (nl_if o)], s') /\
    forall fuel, (node_fuel (Elt nm attrs ch) + 2 <= fuel)%nat ->
      read_xml fuel out = ROk (doc_of l [XE (tname_bytes nm) (spec_attrs_e l o proot nm attrs) c]).
Proof. exact read_enc_e. Qed.
Print Assumptions C05_read_enc.

(* the same under the additional hypothesis "no raw CR outside canonical generation / inside CDATA" (node_ok_g),
   where no normalisation is involved and the specification info_g is the plain infoset; kept because C03 and C07
   build on it *)
(* EVERY generation mode (compact, indented with any width and at any depth — the 8-bit depth counter is
   threaded mod 256 —, canonical) and both white-space settings, for every kind of node the WBXML tree builder
   makes except processing instructions (which the generator refuses): elements (token or literal names,
   attributes, namespaces per code page), text, CDATA nodes (one payload text; every "]]>" of it is split over two
   sections and put together again by the reader: sections are never nested and never unterminated), embedded
   documents (SyncML DevInf / DM tree: generated with their own language, read in place).
   Hypotheses = the property's, as boolean predicates (node_ok_g: names are XML names, text and attribute values
   are XML characters, no attribute name twice — counting the generated xmlns —, no raw CR outside canonical
   generation and inside CDATA since a reader normalises it; the content of a binary-flagged element is
   arbitrary octets < 256 and is read back as their base64 text).
   The reader accepts the output, the DOCTYPE is the language's (doc_of l), the root element is the specified
   one: info_g, the exact infoset including the white space that indented generation writes between markup
   (and nowhere else).
   PARTIAL only in this: a raw CR in non-canonical modes or inside CDATA (which an XML reader turns into LF —
   "XML's own normalisation" of the property) is excluded by hypothesis and corresponded by the check against
   pyexpat; processing-instruction nodes make the conversion fail (WBXML_ERROR_NOT_IMPLEMENTED). *)
Theorem C05_read_enc_partial : forall l o nm attrs ch out,
  lang_ok l = true ->
  node_ok_g l o proot None (Elt nm attrs ch) = true ->
  enc_xml_opts l o [Elt nm attrs ch] = XOk out ->
  exists c s',
    info_g l o proot (est0 0) (Elt nm attrs ch) =
      Some ([XT []; XE (tname_bytes nm) (spec_attrs l o proot nm attrs) c; XT (nl_if o)], s') /\
    forall fuel, (node_fuel (Elt nm attrs ch) + 2 <= fuel)%nat ->
      read_xml fuel out = ROk (doc_of l [XE (tname_bytes nm) (spec_attrs l o proot nm attrs) c]).
Proof. exact read_enc_g. Qed.
Print Assumptions C05_read_enc_partial.

(* the same for compact and canonical generation with the white-space-free specification info_node *)
Theorem C05_read_enc_noindent_partial : forall l g indent keep_ws nm attrs ch out,
  g <> Indent -> lang_ok l = true ->
  node_ok l (opts_of_params g indent keep_ws) proot None (Elt nm attrs ch) = true ->
  enc_xml l g indent keep_ws [Elt nm attrs ch] = XOk out ->
  exists items,
    info_node l (opts_of_params g indent keep_ws) proot None (Elt nm attrs ch) = Some items /\
    forall fuel, (node_fuel (Elt nm attrs ch) + 2 <= fuel)%nat -> read_xml fuel out = ROk (doc_of l items).
Proof. exact read_enc_compact_canonical. Qed.
Print Assumptions C05_read_enc_noindent_partial.

(* every language of the regenerated tables satisfies lang_ok (re-checked by computation on every run) *)
Theorem C05_lang_ok_main : forall l, In l (map xlang_of main_table) -> lang_ok l = true.
Proof. exact lang_ok_in. Qed.
Print Assumptions C05_lang_ok_main.

(* DOCTYPE = the language's whenever the output is readable at all (every generation mode; full) *)
Theorem C05_doctype : forall l o body fuel d,
  lang_ok l = true ->
  read_xml fuel (xml_header l o ++ body) = ROk d ->
  d_root_name d = xl_root l /\ d_public d = xl_pub l /\ d_system d = xl_dtd l.
Proof.
  intros l o body fuel d HL H. rewrite (header_read_g l o fuel body HL) in H.
  destruct (p_root fuel (skip_ws body)); try discriminate. injection H as <-. auto.
Qed.
Print Assumptions C05_doctype.

(* no indentation is ever added inside an element that has only text: indented generation of such an element is
   its compact text, preceded by the indentation of its line and followed by one line break (full for this clause;
   the encoder's 8-bit depth counter only enters through the number of leading spaces) *)
Theorem C05_indent_text_only_exact : forall l delta ig rb parent s nm attrs ch bc sc,
  all_text ch = true -> ch <> [] ->
  enc_node l (mk_opts Compact 1 ig rb) parent s (Elt nm attrs ch) = XOk (bc, sc) ->
  exists si,
    enc_node l (mk_opts Indent delta ig rb) parent s (Elt nm attrs ch) =
      XOk (spaces (e_indent s * delta) ++ bc ++ [10], si) /\ e_indent si = e_indent s.
Proof. exact indent_text_only_exact. Qed.
Print Assumptions C05_indent_text_only_exact.

(* --- CDATA (after the repairs of D8 / D9) ---------------------------------------------------------------- *)

(* a CDATA node inside a CDATA node would still be written as nested sections, which no reader accepts: the
   repaired WBXML tree builder never makes such a tree (checked on the C by the tie: no dumped tree has the shape) *)
Theorem C05_nested_cdata_nodes_rejected :
  exists out, enc_xml syncml11 Compact 0 false [d8_tree] = XOk out /\ read_xml_auto out = RErr.
Proof. exact d8_nested_cdata_not_well_formed. Qed.
Print Assumptions C05_nested_cdata_nodes_rejected.

(* D9 repaired: a payload containing the three bytes of a CDATA end is split over two sections and read back *)
Theorem C05_cdata_end_in_text_split :
  exists out d, enc_xml syncml11 Canonical 0 true [d9_tree] = XOk out /\ read_xml_auto out = ROk d.
Proof. exact d9_cdata_end_in_text_split. Qed.
Print Assumptions C05_cdata_end_in_text_split.

(* the language of the two witnesses is the SyncML 1.1 entry of the regenerated tables *)
Theorem C05_witness_language : exists l0, In l0 main_table /\ l_id l0 = 2101 /\ syncml11 = xlang_of l0.
Proof. exact syncml11_in_tables. Qed.
Print Assumptions C05_witness_language.

(* --- C07, XML half -------------------------------------------------------------------------------------- *)

(* compact and canonical generation of one tree are read back as the SAME document (white space kept; no TAB,
   LF or CR in attribute values, which non-canonical generation leaves to XML's attribute-value normalisation).
   PARTIAL only in the kinds of nodes (elements and text). *)
Theorem C07_xml_compact_canonical_partial : forall l i1 i2 nm attrs ch out1 out2,
  lang_ok l = true -> plain_attrs (Elt nm attrs ch) = true ->
  node_ok l (opts_of_params Compact i1 true) proot None (Elt nm attrs ch) = true ->
  node_ok l (opts_of_params Canonical i2 true) proot None (Elt nm attrs ch) = true ->
  enc_xml l Compact i1 true [Elt nm attrs ch] = XOk out1 ->
  enc_xml l Canonical i2 true [Elt nm attrs ch] = XOk out2 ->
  forall fuel, (node_fuel (Elt nm attrs ch) + 2 <= fuel)%nat ->
    exists d, read_xml fuel out1 = ROk d /\ read_xml fuel out2 = ROk d.
Proof. exact c07_xml_compact_canonical. Qed.
Print Assumptions C07_xml_compact_canonical_partial.

(* the same for every node kind of the main theorem (CDATA nodes, embedded documents, base64 content) *)
Theorem C07_xml_compact_canonical : forall l i1 i2 nm attrs ch out1 out2,
  lang_ok l = true -> plain_attrs_g (Elt nm attrs ch) = true ->
  node_ok_g l (opts_of_params Compact i1 true) proot None (Elt nm attrs ch) = true ->
  node_ok_g l (opts_of_params Canonical i2 true) proot None (Elt nm attrs ch) = true ->
  enc_xml l Compact i1 true [Elt nm attrs ch] = XOk out1 ->
  enc_xml l Canonical i2 true [Elt nm attrs ch] = XOk out2 ->
  forall fuel, (node_fuel (Elt nm attrs ch) + 2 <= fuel)%nat ->
    exists d, read_xml fuel out1 = ROk d /\ read_xml fuel out2 = ROk d.
Proof. exact c07_xml_compact_canonical_g. Qed.
Print Assumptions C07_xml_compact_canonical.

(* indented generation with ANY indent width (an arbitrary N, reduced mod 256 as the C's WB_UTINY) at any nesting
   depth (8-bit depth counter mod 256) and compact generation of one tree: both are accepted, carry the
   language's DOCTYPE, and their root elements are equal modulo blank text between markup (nb: in every element
   that has an element child each run of character data is trimmed and blank runs are dropped; elements with
   only character data are compared exactly).  Same node kinds and hypotheses as C05_read_enc_partial. *)
Theorem C07_xml_indent_compact_partial : forall l indent indent' keep_ws nm attrs ch out_i out_c,
  lang_ok l = true ->
  node_ok_g l (opts_of_params Compact indent' keep_ws) proot None (Elt nm attrs ch) = true ->
  enc_xml l Indent indent keep_ws [Elt nm attrs ch] = XOk out_i ->
  enc_xml l Compact indent' keep_ws [Elt nm attrs ch] = XOk out_c ->
  forall fuel, (node_fuel (Elt nm attrs ch) + 2 <= fuel)%nat ->
    exists ri rc,
      read_xml fuel out_i = ROk (doc_of l [ri]) /\ read_xml fuel out_c = ROk (doc_of l [rc]) /\ nb ri = nb rc.
Proof. exact c07_xml_indent_compact. Qed.
Print Assumptions C07_xml_indent_compact_partial.

(* --- the hypotheses are satisfiable --------------------------------------------------------------------- *)

Example C05_hypotheses_satisfiable :
  node_ok syncml11 (opts_of_params Compact 0 true) proot None ok_tree = true /\
  node_ok syncml11 (opts_of_params Canonical 0 true) proot None ok_tree = true /\
  plain_attrs ok_tree = true.
Proof. exact ok_tree_hypotheses. Qed.

(* ... also with a CDATA payload containing the three bytes of a CDATA end and an embedded DevInf document *)
Example C05_hypotheses_satisfiable_cdata_subtree :
  node_ok_g syncml11 (opts_of_params Indent 2 false) proot None full_tree = true /\
  exists out d, enc_xml syncml11 Indent 2 false [full_tree] = XOk out /\ read_xml_auto out = ROk d.
Proof. exact full_tree_ok. Qed.

Example C05_reads_back_awkward_text :
  exists out d, enc_xml syncml11 Canonical 0 true [ok_tree] = XOk out /\ read_xml_auto out = ROk d.
Proof. exact ok_tree_reads_back. Qed.
