(* C05 — placeholder while the proofs are being written *)
From Wbxml Require Import Model.EncXml.
