(* C01 (boundedness clause), XML generation side — statements only; proofs in Proofs/EncXmlSize.v.
   Together with the parser side (Properties_C01_parser.v, C01p_growth: the decoded document is bounded in the
   input) this gives "output / heap linear in the decoded document" at model level for WBXML -> XML. *)
From Coq Require Import List NArith Bool.
From Wbxml Require Import Model.TablesDefs Model.Codec Model.EncXml Model.XmlRead Gen.TablesData
     Proofs.EncXmlProofs Proofs.EncXmlIndent Proofs.EncXmlSize Proofs.EncXmlTotal Proofs.EncXmlTables.
Import ListNotations.

(* SIZE (full: every language entry, generation mode, indent width, white-space setting and every kind of node,
   embedded documents included).  size_t = bytes of element names, attribute names and values, and text, plus the
   number of nodes and attributes.  K bounds the namespace names of the languages involved (top language and the
   languages of embedded documents: sub_ns).  Constants: an element writes its name twice, at most 9 + K bytes of
   xmlns, 17 bytes of punctuation / line breaks and two indentations of at most 255 * w spaces (the depth counter
   is an unsigned char: min(depth, 255) <= 255 is used, not the depth itself); escaping expands a byte to at most
   6; base64 to at most 2n + 4 bytes before escaping; CDATA splitting to at most 5n, plus 12 bytes per node. *)
Theorem C01x_xml_size : forall l g w keep_ws roots out K,
  (ns_len l <= K)%nat -> forallb (sub_ns K) roots = true ->
  enc_xml l g w keep_ws roots = XOk out ->
  (length out <= header_bound l + size_t roots * (K + 33 + 510 * width_of g w))%nat.
Proof. exact enc_xml_size. Qed.
Print Assumptions C01x_xml_size.

(* the width that enters is the encoder's unsigned char, and only in indented generation *)
Theorem C01x_width_le_255 : forall g w, (width_of g w <= 255)%nat.
Proof. exact width_le. Qed.
Print Assumptions C01x_width_le_255.

(* for the languages of the regenerated tables K = 54 (recomputed on every run) *)
Theorem C01x_namespace_bound : ns_len_max = 54%nat /\ forall l, In l (map xlang_of main_table) -> (ns_len l <= ns_len_max)%nat.
Proof. split; [exact ns_len_max_value|exact ns_len_main]. Qed.
Print Assumptions C01x_namespace_bound.

(* TOTALITY.  enc_xml is a structural recursion over the tree: it has no fuel and no depth limit of its own (the
   parser refuses documents nested deeper than 1000 before a tree exists).  It returns an error only for a
   processing-instruction node (NOT_IMPLEMENTED), an embedded tree without language (BAD_PARAMETER) and empty
   content of a binary-flagged element (B64_ENC).  PARTIAL in that the success theorem excludes binary-flagged
   elements altogether (no_fail), not only those with empty content. *)
Theorem C01x_xml_total_partial : forall l g w keep_ws roots,
  forallb no_fail roots = true -> exists out, enc_xml l g w keep_ws roots = XOk out.
Proof. exact enc_xml_total. Qed.
Print Assumptions C01x_xml_total_partial.

(* EXACT TOTALITY (full).  The conversion of a tree fails iff the tree contains a processing-instruction node, an embedded
   tree without language, or EMPTY content of a binary-flagged element outside a CDATA node (sfl: a predicate on the
   tree alone — it does not depend on the language, the generation mode, the width, the white-space setting or the
   nesting depth; the only state it threads is the generator's own "inside a CDATA node" bit).  In every other case
   enc_xml returns a document: it is a structural recursion, there is no fuel to exhaust. *)
Theorem C01x_xml_total : forall l g w keep_ws roots,
  (exists e, enc_xml l g w keep_ws roots = XErr e) <-> fst (sfl None false roots) = true.
Proof. exact enc_xml_fails_iff. Qed.
Print Assumptions C01x_xml_total.

(* WHICH CODE (full).  Every refusal of the generator carries the code of its cause, for every language, mode, width and
   white-space setting: NOT_IMPLEMENTED only when the tree holds a processing-instruction node, BAD_PARAMETER only
   when it holds an embedded tree without language, B64_ENC only when it holds an empty text node ([cause e] is a
   predicate on the tree alone).  Together with C01x_xml_total (when it fails) this says what the caller is told. *)
Theorem C01x_xml_error_code_has_cause : forall l g w keep_ws roots e,
  enc_xml l g w keep_ws roots = XErr e -> existsb (cause e) roots = true.
Proof. exact enc_xml_error_cause. Qed.
Print Assumptions C01x_xml_error_code_has_cause.
