(* C18 — A tree built through the API equals the tree parsed from the same XML.
   Only statements, each closed by `exact`, each followed by its assumptions print-out.
   Model: Model/TreeGraph.v (transcription of wbxml_tree.c as a pointer graph: a heap id -> node record with
   parent / children / next / prev); proofs: Proofs/TreeGraphProofs.v.

   Reading guide.  `rt` is a rose tree whose nodes carry the identity (pointer) of the C node; `Links h F` says that
   the heap h represents the forest F (the tree's root first, then the detached sub-trees the caller holds):
   every node's record is exactly (data, parent, first child, next, prev) as F dictates, identities are pairwise
   distinct (the graph is acyclic and nothing is shared), nothing else is allocated, text nodes are leaves.
   `CLinks c` = some forest is so represented by the caller state c and its roots are c's root and detached handles.
   The "same bytes as the parsed document" half of the property: proved are that the walk the encoders perform over
   the pointers is a function of the shape alone (C18_equal_shapes_equal_walks), that it determines the shape
   (C18_walk_determines_shape) and hence that the bytes of the encoder models Model/EncWbxml.v / Model/EncXml.v on the
   reified tree depend on the heap only through that walk (C18_bytes_function_of_walk_wbxml / _xml); that Expat
   reports the items the front-end model assumes, and that the encoder models are the C, is checked by the harnesses.
   Ownership over whole histories (nodes, nested trees, refused calls, final destruction): Model/TreeOwn.v,
   C18_ownership_invariant / C18_destroy_releases_all / C18_refused_tree_stays_with_caller. *)
From Coq Require Import List NArith Permutation.
From Wbxml Require Model.EncWbxml Model.EncXml.
From Wbxml Require Import Model.TreeGraph Proofs.TreeGraphProofs.
From Wbxml Require Import Model.TreeOwn Proofs.TreeOwnProofs Model.TreeReify Proofs.TreeReifyProofs.
From Wbxml Require Import Proofs.TreeEmptyTextProofs.
Import ListNotations.
Local Open Scope N_scope.

(* --- link consistency ------------------------------------------------------------------------- *)

(* the empty tree *)
Theorem C18_links_empty : CLinks init_state.
Proof. exact init_links. Qed.
Print Assumptions C18_links_empty.

(* every operation a contract-respecting caller can issue (add element / element with attributes / XML element with
   attributes and text / text / CDATA / tree / attribute, extract, re-insert, destroy a detached sub-tree) runs
   without dereferencing a dead pointer or running out of fuel (never TStuck) and preserves the invariant *)
Theorem C18_links_preserved : forall l c o, CLinks c -> exists c' b, exec l c o = TOk (c', b) /\ CLinks c'.
Proof. exact exec_links. Qed.
Print Assumptions C18_links_preserved.

(* hence for ALL finite operation sequences from the empty tree (induction over the list) *)
Theorem C18_links_all_sequences : forall l ops, exists c, run l init_state ops = TOk c /\ CLinks c.
Proof. intros l ops. exact (run_links l ops init_state init_links). Qed.
Print Assumptions C18_links_all_sequences.

(* what the invariant means node by node: parent, first child, previous and next are mutually consistent *)
Theorem C18_links_pointwise : forall h F, Links h F -> forall i nd, h i = Some nd ->
  (forall c, n_children nd = Some c -> exists cn, h c = Some cn /\ n_parent cn = Some i /\ n_prev cn = None) /\
  (forall x, n_next nd = Some x -> exists xn, h x = Some xn /\ n_prev xn = Some i /\ n_parent xn = n_parent nd) /\
  (forall pv, n_prev nd = Some pv -> exists pn, h pv = Some pn /\ n_next pn = Some i /\ n_parent pn = n_parent nd) /\
  (forall p, n_parent nd = Some p -> exists pn, h p = Some pn /\ (n_prev nd = None -> n_children pn = Some i)) /\
  (n_parent nd = None -> n_next nd = None /\ n_prev nd = None).
Proof. exact links_pointwise. Qed.
Print Assumptions C18_links_pointwise.

(* the forest is determined by the pointers: following children / next from the roots rebuilds it *)
Theorem C18_abs_is_the_forest : forall c F, Inv (ts c) (det c) F -> abs_forest c = F.
Proof. exact abs_forest_inv. Qed.
Print Assumptions C18_abs_is_the_forest.

(* --- wbxml_tree_add_node ---------------------------------------------------------------------- *)

(* abs (add_node g p n) = append_merge (abs g without n) p n : the detached sub-tree tn becomes the last child of q,
   and if both tn and q's last child are text the NEW node survives with the old content in front of its own *)
Theorem C18_add_node_is_append_merge : forall fuel t det F1 tn F2 q,
  Inv t det (F1 ++ tn :: F2) -> In (rid tn) det -> In q (ids_l (F1 ++ F2)) ->
  parent_ok (heap_of t) (Some q) = true -> (fuel_of t <= fuel)%nat ->
  exists t', add_node fuel t (Some q) (rid tn) = TOk t' /\
             Inv t' (remove_id (rid tn) det) (append_merge (F1 ++ F2) q tn).
Proof. exact add_node_spec. Qed.
Print Assumptions C18_add_node_is_append_merge.

(* no operation other than extraction creates adjacent text siblings *)
Theorem C18_no_adjacent_text_preserved : forall l c o F, Inv (ts c) (det c) F ->
  exists c' b F', exec l c o = TOk (c', b) /\ Inv (ts c') (det c') F' /\
    (is_extract o = false -> no_adjacent_text F = true -> no_adjacent_text F' = true).
Proof. exact exec_inv. Qed.
Print Assumptions C18_no_adjacent_text_preserved.

(* ... but extraction does (D17): <p>aa<b/>bb</p>, extract <b/> — the faithful model of the unchanged code *)
Theorem C18_extract_merge_refuted :
  exists c c', run l_plain init_state d17_prefix = TOk c /\ CLinks c /\ no_adjacent_text (abs_forest c) = true /\
               exec l_plain c (OpExtract 2) = TOk (c', true) /\ CLinks c' /\ no_adjacent_text (abs_forest c') = false.
Proof. exact extract_merge_refuted. Qed.
Print Assumptions C18_extract_merge_refuted.

(* --- wbxml_tree_extract_node ------------------------------------------------------------------ *)

(* exactly the sub-tree below x leaves its place (remove_l deletes the node with identity x and everything below it,
   nothing else) and becomes a detached sub-tree; the invariant is kept *)
Theorem C18_extract_removes_exactly_the_subtree : forall t det F x,
  Inv t det F -> In x (ids_l F) -> ~ In x (map rid F) ->
  exists t' sub, extract_node t x = TOk t' /\ find_l x F = Some sub /\
                 Inv t' (det ++ [x]) (remove_l x F ++ [sub]).
Proof. exact extract_spec. Qed.
Print Assumptions C18_extract_removes_exactly_the_subtree.

(* --- destruction ------------------------------------------------------------------------------ *)

(* the iterative walk of wbxml_tree_node_destroy_all terminates within 2 x nodes iterations, releases a permutation
   of the sub-tree's identities (each node exactly once), touches nothing else, and never reads a released node *)
Theorem C18_destroy_all_releases_each_node_once : forall fuel t det F1 tn F2,
  Inv t det (F1 ++ tn :: F2) -> (2 * size tn <= fuel)%nat ->
  exists h' rel, destroy_all fuel (heap_of t) (rid tn) = TOk (h', rel) /\
     Permutation rel (ids tn) /\ NoDup rel /\
     (forall i, h' i = if mem i (ids tn) then None else heap_of t i) /\ Links h' (F1 ++ F2).
Proof. exact destroy_spec. Qed.
Print Assumptions C18_destroy_all_releases_each_node_once.

(* at the end of any history: destroying the detached sub-trees and the tree releases every node exactly once and
   leaves nothing allocated *)
Theorem C18_destroy_everything : forall c, CLinks c ->
  exists h' rel F, finish c = TOk (h', rel) /\ Links (heap_of (ts c)) F /\ map rid F = roots_of c /\
                   Permutation rel (ids_l F) /\ NoDup rel /\ (forall i, h' i = None).
Proof. exact finish_spec. Qed.
Print Assumptions C18_destroy_everything.

(* --- the encoders' traversal ------------------------------------------------------------------ *)

(* parse_node / parse_single_node follow children and next; what they visit (open d has_children ... close) is the
   event list of the SHAPE of the tree: two pointer graphs, whatever their addresses and histories, that denote the
   same shape are walked identically.  (The bytes produced from the events are the encoders' business: C05/C06.) *)
Theorem C18_equal_shapes_equal_walks : forall c1 c2 tr1 tr2,
  CLinks c1 -> CLinks c2 -> tree_of c1 = Some tr1 -> tree_of c2 = Some tr2 -> erase tr1 = erase tr2 ->
  enc_walk (S (fuel_of (ts c1))) (heap_of (ts c1)) (root (ts c1)) =
  enc_walk (S (fuel_of (ts c2))) (heap_of (ts c2)) (root (ts c2)).
Proof. exact equal_shapes_equal_walks. Qed.
Print Assumptions C18_equal_shapes_equal_walks.

(* --- the first sentence of the property, as far as the model goes ------------------------------- *)

(* The XML front end (wbxml_tree_clb_xml.c) is a client of the same API: start_element = add_xml_elt_with_attrs below
   `current`, characters = add_text below `current` (one text may arrive in several chunks), end_element = back to the
   parent.  Run on the empty tree for a document in normal form (no empty text, no two text items in a row) it never
   gets stuck and builds exactly the document's denotation (names and attributes resolved by the same table functions,
   chunks joined) and leaves `current` on the root. *)
Theorem C18_front_end_builds_the_denotation : forall fuel l name kvs kids,
  xnf (XElt name kvs kids) = true -> (S (S (xsize (XElt name kvs kids))) <= fuel)%nat ->
  exists t' n new, fe_doc fuel l (XElt name kvs kids) = TOk (t', Some n) /\ root t' = Some n /\
    Inv t' [] [R n (xelt_data l name kvs) new] /\ [erase (R n (xelt_data l name kvs) new)] = xdenote l (XElt name kvs kids).
Proof. exact fe_doc_builds. Qed.
Print Assumptions C18_front_end_builds_the_denotation.

(* ... and below any element of any well-linked forest (the inductive statement) *)
Theorem C18_front_end_item : forall fuel l det x t F p d cs,
  is_text d = false -> Inv t det F -> find_l p F = Some (R p d cs) -> xnf x = true ->
  (is_xtext x = true -> last_not_text cs = true) -> (fuel_of t + xsize x <= fuel)%nat ->
  exists t' ks, fe_node fuel l t (Some p) x = TOk (t', Some p) /\
    Inv t' det (replace_l p (R p d (cs ++ ks)) F) /\ map erase ks = xdenote l x /\
    fresh t' = fresh t + N.of_nat (xsize x) /\ root t' = root t /\
    (is_xtext x = false -> last_not_text (cs ++ ks) = true).
Proof. exact fe_node_builds. Qed.
Print Assumptions C18_front_end_item.

(* Hence: a tree assembled through the API by ANY history (insertions, extractions, re-insertions ...) that ends in
   the shape the document denotes is traversed by the encoders exactly like the tree parsed from that document.
   What is NOT proved (corresponded on the C by the harness instead): that the bytes the encoders emit are a function
   of this traversal (they also read options and tables: C05/C06), that Expat reports the text as such items, and the
   front end's special paths (SyncML CDATA insertion, base64 of binary-flagged elements, embedded documents). *)
Theorem C18_api_tree_walks_like_parsed_tree : forall fuel l name kvs kids c tr,
  xnf (XElt name kvs kids) = true -> (S (S (xsize (XElt name kvs kids))) <= fuel)%nat ->
  CLinks c -> tree_of c = Some tr -> [erase tr] = xdenote l (XElt name kvs kids) ->
  exists t' n, fe_doc fuel l (XElt name kvs kids) = TOk (t', Some n) /\
    enc_walk (S (fuel_of (ts c))) (heap_of (ts c)) (root (ts c)) = enc_walk (S (fuel_of t')) (heap_of t') (root t').
Proof. exact api_tree_walks_like_parsed_tree. Qed.
Print Assumptions C18_api_tree_walks_like_parsed_tree.

(* --- add_node with the parent inside the tree; ownership of an offered nested tree ------------------ *)

Theorem C18_add_node_in_tree : forall fuel t det tr D1 tn D2 q,
  Inv t det (tr :: D1 ++ tn :: D2) -> In (rid tn) det -> In q (ids tr) ->
  parent_ok (heap_of t) (Some q) = true -> (fuel_of t <= fuel)%nat ->
  exists t', add_node fuel t (Some q) (rid tn) = TOk t' /\
             Inv t' (remove_id (rid tn) det) (append_merge_t tr q tn :: D1 ++ D2).
Proof. exact add_node_in_tree. Qed.
Print Assumptions C18_add_node_in_tree.

(* wbxml_tree_add_tree refused (second root, or tree == NULL via OpAddNull): the heap is what it was, no node refers
   to the offered tree, which therefore stays with the caller (who destroys it exactly once); accepted: the new node
   owns it *)
Theorem C18_add_tree_refused_keeps_tree : forall fuel t p lang tid t',
  add_tree fuel t p lang tid = TOk (t', None) -> heap_of t (fresh t) = None ->
  (forall i, heap_of t' i = heap_of t i) /\
  (forall i, node_tree (heap_of t) i <> Some tid -> node_tree (heap_of t') i <> Some tid).
Proof. exact add_tree_refused_keeps_tree. Qed.
Print Assumptions C18_add_tree_refused_keeps_tree.

Theorem C18_add_tree_accepted_owns_tree : forall fuel t p lang tid t' n,
  add_tree fuel t p lang tid = TOk (t', Some n) -> node_tree (heap_of t') n = Some tid.
Proof. exact add_tree_accepted_owns_tree. Qed.
Print Assumptions C18_add_tree_accepted_owns_tree.

(* --- non-vacuity ------------------------------------------------------------------------------- *)

Definition ex_ops : list op :=
  [OpAddXmlElt None [112] [] []; OpAddText (Some 0) [97]; OpAddText (Some 0) [98];
   OpAddXmlElt (Some 0) [113] [([107], [118])] [99]; OpExtract 3; OpReAdd (Some 0) 3; OpAddCdata (Some 0); OpExtract 5; OpDestroy 5].

(* text merge: the second text node (id 2) survives with "ab"; re-insertion; destruction of a detached node *)
Example C18_ex_run :
  match run l_plain init_state ex_ops with
  | TOk c => map erase (abs_forest c) =
             [Sh (DElt (TagLit [112]) [])
                 [Sh (DText [97; 98]) []; Sh (DElt (TagLit [113]) [(AttrLit [107], [118])]) [Sh (DText [99]) []]]]
             /\ det c = [] /\ root (ts c) = Some 0 /\ heap_of (ts c) 1 = None
  | _ => False
  end.
Proof. vm_compute. repeat split; reflexivity. Qed.

Example C18_ex_front_end :
  let doc := XElt [112] [([107], [118])] [XText [[97]; [98]]; XElt [113] [] [XText [[99]]]; XText [[100]]] in
  xnf doc = true /\
  match fe_doc 20 l_plain doc with
  | TOk (t', Some n) => map erase (abs_forest (mkC t' [])) = xdenote l_plain doc /\ root t' = Some n
  | _ => False
  end.
Proof. vm_compute. auto. Qed.

Example C18_ex_walk :
  match run l_plain init_state ex_ops with
  | TOk c => enc_walk 20 (heap_of (ts c)) (root (ts c)) =
             TOk (flat_map events (map erase (abs_forest c)))
  | _ => False
  end.
Proof. vm_compute. reflexivity. Qed.

(* --- the global ownership invariant over operation sequences (Model/TreeOwn.v) ------------------------------ *)

(* `orun` runs ANY list of API operations from the empty state, recording the nested trees the library accepted
   (wbxml_tree_add_tree returned a node) and those it released (wbxml_tree_node_destroy_all of a detached sub-tree).
   The caller's side of the contract: a tree is offered only while the caller owns it (`issued`).
   After every history, refused operations included:
   - every node is in exactly one place: the heap represents a forest F without sharing (Links), whose roots are the
     tree's root and the detached sub-trees the caller holds (extract_node hands a sub-tree to the caller);
   - every accepted nested tree is owned by exactly one TREE node of F or has been released exactly once, never both
     and never twice (accepted = trees owned by F + released, as multisets, and the right-hand side has no repeat) *)
Theorem C18_ownership_invariant : forall l ops,
  exists s, orun l oinit ops = TOk s /\
  exists F, Links (heap_of (ts (oc s))) F /\ map rid F = roots_of (oc s) /\
            NoDup (accepted s) /\ Permutation (accepted s) (trees_l F ++ released s) /\
            NoDup (trees_l F ++ released s).
Proof. exact ownership_invariant. Qed.
Print Assumptions C18_ownership_invariant.

(* the end of every history — the caller destroys the sub-trees it holds, then wbxml_tree_destroy — empties the heap,
   releases every node of the forest exactly once, and every nested tree the library ever accepted has then been
   released exactly once *)
Theorem C18_destroy_releases_all : forall l ops s, orun l oinit ops = TOk s ->
  exists h' ids trs F,
    ofinish s = TOk (h', ids, trs) /\ (forall i, h' i = None) /\
    Links (heap_of (ts (oc s))) F /\ map rid F = roots_of (oc s) /\
    NoDup ids /\ Permutation ids (ids_l F) /\
    Permutation (accepted s) (released s ++ trs) /\ NoDup (released s ++ trs).
Proof. exact destroy_releases_all. Qed.
Print Assumptions C18_destroy_releases_all.

(* a refused wbxml_tree_add_tree (NULL result) keeps the caller's ownership: nothing accepted, nothing released, no
   node of the new state refers to the offered tree *)
Theorem C18_refused_tree_stays_with_caller : forall l ops s p lang tr c',
  orun l oinit ops = TOk s -> ~ In tr (accepted s) ->
  exec l (oc s) (OpAddTree p lang tr) = TOk (c', false) ->
  oexec l s (OpAddTree p lang tr) = TOk (mkO c' (accepted s) (released s ++ [])) /\
  ~ In tr (released s) /\
  forall F', Links (heap_of (ts c')) F' -> ~ In tr (trees_l F').
Proof. exact refused_tree_stays_with_caller. Qed.
Print Assumptions C18_refused_tree_stays_with_caller.

(* non-vacuity: <a><b>TREE(100)</b></a>; tree 200 offered with a NULL parent on a rooted tree: refused; <b> extracted
   (the caller holds a sub-tree owning tree 100); 100 offered again: not the caller's any more; 300 accepted under
   <a>; the extracted sub-tree destroyed (releases 100); the end releases nodes 0 and 4 and tree 300.
   (accepted, released, roots, nodes released at the end, trees released at the end) *)
Example C18_ex_ownership : own_ex_summary = Some ([300; 100], [100], [0], [0; 4], [300]).
Proof. exact own_ex. Qed.

(* --- the emitted bytes are a function of the traversal (Model/TreeReify.v) ---------------------------------- *)

(* the pre-order listing with brackets the encoders' walk produces determines the tree: it is injective *)
Theorem C18_walk_determines_shape : forall s1 s2, events s1 = events s2 -> s1 = s2.
Proof. exact walk_determines_shape. Qed.
Print Assumptions C18_walk_determines_shape.

(* two caller states, whatever histories built them, whose trees are walked alike denote the same tree *)
Theorem C18_walk_determines_tree : forall c1 c2 tr1 tr2,
  CLinks c1 -> CLinks c2 -> tree_of c1 = Some tr1 -> tree_of c2 = Some tr2 ->
  enc_walk (S (fuel_of (ts c1))) (heap_of (ts c1)) (root (ts c1)) =
  enc_walk (S (fuel_of (ts c2))) (heap_of (ts c2)) (root (ts c2)) ->
  erase tr1 = erase tr2.
Proof. exact walk_determines_tree. Qed.
Print Assumptions C18_walk_determines_tree.

(* hence the bytes of both encoder models depend on the heap only through that walk, for every option tuple, every
   table, and whatever the tag options and the nested trees' contents are (parameters of reify) *)
Theorem C18_bytes_function_of_walk_wbxml : forall wopts wsub tbl l o c1 c2 tr1 tr2,
  CLinks c1 -> CLinks c2 -> tree_of c1 = Some tr1 -> tree_of c2 = Some tr2 ->
  enc_walk (S (fuel_of (ts c1))) (heap_of (ts c1)) (root (ts c1)) =
  enc_walk (S (fuel_of (ts c2))) (heap_of (ts c2)) (root (ts c2)) ->
  EncWbxml.enc_wbxml tbl l o [reify_w wopts wsub (erase tr1)] =
  EncWbxml.enc_wbxml tbl l o [reify_w wopts wsub (erase tr2)].
Proof. exact bytes_function_of_walk_wbxml. Qed.
Print Assumptions C18_bytes_function_of_walk_wbxml.

Theorem C18_bytes_function_of_walk_xml : forall xopts xsub l g indent keep_ws c1 c2 tr1 tr2,
  CLinks c1 -> CLinks c2 -> tree_of c1 = Some tr1 -> tree_of c2 = Some tr2 ->
  enc_walk (S (fuel_of (ts c1))) (heap_of (ts c1)) (root (ts c1)) =
  enc_walk (S (fuel_of (ts c2))) (heap_of (ts c2)) (root (ts c2)) ->
  EncXml.enc_xml l g indent keep_ws [reify_x xopts xsub (erase tr1)] =
  EncXml.enc_xml l g indent keep_ws [reify_x xopts xsub (erase tr2)].
Proof. exact bytes_function_of_walk_xml. Qed.
Print Assumptions C18_bytes_function_of_walk_xml.

(* --- a text of length 0 (Proofs/TreeEmptyTextProofs.v) -------------------------------------------------------- *)

(* wbxml_tree_add_text(tree, parent, "", 0) right after a text sibling: the usual merge, which adds nothing — the
   parent keeps ONE text child with the same content (the node object is the new one) *)
Theorem C18_empty_text_after_text_is_a_merge : forall fuel t det F q ds cs0 m a mk,
  Inv t det F -> find_l q F = Some (R q ds (cs0 ++ [R m (DText a) mk])) -> is_text ds = false ->
  (fuel_of t <= fuel)%nat ->
  exists t', add_text fuel t (Some q) [] = TOk (t', Some (fresh t)) /\
             Inv t' det (replace_l q (R q ds (cs0 ++ [R (fresh t) (DText a) []])) F).
Proof. exact empty_text_after_text. Qed.
Print Assumptions C18_empty_text_after_text_is_a_merge.

(* with no text sibling in front (first child, or after an element / CDATA / TREE node): an EMPTY TEXT NODE is created *)
Theorem C18_empty_text_without_text_sibling_is_a_node : forall fuel t det F q ds cs,
  Inv t det F -> find_l q F = Some (R q ds cs) -> is_text ds = false -> last_not_text cs = true ->
  (fuel_of t <= fuel)%nat ->
  exists t', add_text fuel t (Some q) [] = TOk (t', Some (fresh t)) /\
             Inv t' det (replace_l q (R q ds (cs ++ [R (fresh t) (DText []) []])) F).
Proof. exact empty_text_without_text_sibling. Qed.
Print Assumptions C18_empty_text_without_text_sibling_is_a_node.

(* ... which the encoders see: the element "has content".  The equivalent XML text <x></x> is parsed into an element
   WITHOUT children, so for an element whose only child is an empty text node the bytes-equality clause of C18 does
   not hold on the code as it is (WBXML: content bit and END; XML: <x></x> for <x/>): finding "empty-text-node" *)
Theorem C18_empty_text_only_child_changes_the_walk : forall d,
  events (Sh d [Sh (DText []) []]) = [EvOpen d true; EvOpen (DText []) false; EvClose (DText []) false; EvClose d true] /\
  events (Sh d []) = [EvOpen d false; EvClose d false].
Proof. exact empty_text_only_child_changes_the_walk. Qed.
Print Assumptions C18_empty_text_only_child_changes_the_walk.

(* wbxml_tree_add_xml_elt_with_attrs_and_text guards against it: text == NULL or len == 0 adds the element only *)
Theorem C18_empty_text_wrapper_adds_no_child : forall fuel l t p name kvs,
  add_xml_elt_with_attrs_and_text fuel l t p name kvs [] =
  match add_xml_elt_with_attrs fuel l t p name kvs with
  | TOk (t1, Some n) => TOk (t1, Some n)
  | TOk (t1, None) => TOk (t1, None)
  | TFail => TFail
  | TStuck => TStuck
  end.
Proof. exact empty_text_wrapper_adds_no_child. Qed.
Print Assumptions C18_empty_text_wrapper_adds_no_child.
