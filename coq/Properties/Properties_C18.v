(* C18 — placeholder while the proofs are being written *)
From Coq Require Import List NArith.
From Wbxml Require Import Model.TreeGraph.
