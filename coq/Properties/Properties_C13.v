(* C13 — truncated documents and dangling references are rejected, never guessed.
   Only statements, each closed by `exact`, with Print Assumptions beneath.
   Model: Model/Parser.v; proofs: Proofs/ParserProofsReject.v (and the C04 proofs for the tolerated cases).
   Status: the per-site rejection theorems and the tolerated irregularities are proved in full.  The global
   statement "every proper prefix of every well-formed document that ends inside header / string table / leading
   PIs / root element is an error" is proved (the C13_truncated_document_refused theorems), by a second structural induction
   over the document (Proofs/ParserProofsPrefix{,2,3,4}.v) next to the one of C04, in full
   (C13_truncated_document_refused).  The check still explores every proper prefix of every generated document on
   the C and on the model. *)
From Coq Require Import String.
From Coq Require Import List NArith Bool.
From Wbxml Require Import Model.Codec Model.TablesDefs Gen.TablesData Model.Parser Model.Spec
     Proofs.ParserProofsBase Proofs.ParserProofsStr Proofs.ParserProofsReject Proofs.ParserProofsDoc
     Proofs.ParserProofsTyped Proofs.ParserProofsPrefix Proofs.ParserProofsPrefix4 Proofs.ParserProofsWv.
Import ListNotations.
Local Open Scope N_scope.

(* ---- THE GLOBAL STATEMENT — FULL, unconditional ---- *)
(* upto_root d = header ++ string table ++ leading PIs ++ root element of serialize d *)
Theorem C13_truncated_document_refused : forall tbl d evs n,
  denote tbl d = Some evs -> (n < length (upto_root d))%nat ->
  exists e, parse tbl (S n) (firstn n (serialize d)) = PErr e.
Proof.
  intros tbl d evs n. apply (truncated_refused tbl); [|exact typed_datetime_agree_proved].
  intros l _ _. exact typed_wv_agree_proved.
Qed.
Print Assumptions C13_truncated_document_refused.

(* the same for any proper prefix P (not only firstn of the full serialization), FULL *)
Theorem C13_proper_prefix_refused : forall tbl d evs P,
  denote tbl d = Some evs -> (exists Q, Q <> [] /\ upto_root d = P ++ Q) ->
  exists e, parse tbl (S (length P)) P = PErr e.
Proof.
  intros tbl d evs P. apply (parse_prefix_refused tbl); [|exact typed_datetime_agree_proved].
  intros l _ _. exact typed_wv_agree_proved.
Qed.
Print Assumptions C13_proper_prefix_refused.

(* ---- running out of bytes ----
   (the four C13_end_of_buffer_..._partial names are kept for reference stability: each STATEMENT is proved in full;
   "partial" referred to their being the mechanism of the global statement, which is now proved above) *)
Theorem C13_end_of_buffer_content_partial : forall f env n st, s_rest st = [] ->
  content_loop (S f) env n st = PErr PE_END_OF_BUFFER.
Proof. exact eob_content. Qed.
Print Assumptions C13_end_of_buffer_content_partial.

Theorem C13_end_of_buffer_attributes_partial : forall f env st acc, s_rest st = [] ->
  attrs_loop (S f) env st acc = PErr PE_END_OF_BUFFER.
Proof. exact eob_attrs_loop. Qed.
Print Assumptions C13_end_of_buffer_attributes_partial.

Theorem C13_end_of_buffer_pi_partial : forall f env st acc, s_rest st = [] ->
  pi_values_loop (S f) env st acc = PErr PE_END_OF_BUFFER.
Proof. exact eob_pi_values. Qed.
Print Assumptions C13_end_of_buffer_pi_partial.

Theorem C13_end_of_buffer_body_partial : forall f env st, s_rest st = [] ->
  parse_body (S f) env st = PErr PE_END_OF_BUFFER.
Proof. exact eob_body. Qed.
Print Assumptions C13_end_of_buffer_body_partial.

Theorem C13_truncated_integer : forall bs, (length bs < 5)%nat -> Forall (fun b => 128 <= b < 256) bs ->
  parse_mb_uint32 bs = PErr PE_END_OF_BUFFER.
Proof. exact truncated_mb. Qed.
Print Assumptions C13_truncated_integer.

Theorem C13_header_cut_after_version : forall tbl forced meta fuel v,
  parse_with tbl forced meta fuel [v] = PErr PE_END_OF_BUFFER.
Proof. exact one_byte_document. Qed.
Print Assumptions C13_header_cut_after_version.

(* ---- lengths and indices that point beyond the bytes present ---- *)
Theorem C13_string_table_length : forall bs len r, parse_mb_uint32 bs = POk (len, r) -> blen r < len ->
  parse_strtbl bs = PErr PE_STRTBL_LENGTH.
Proof. exact strtbl_length_refused. Qed.
Print Assumptions C13_string_table_length.

Theorem C13_opaque_length : forall t bs len r, parse_mb_uint32 bs = POk (len, r) -> blen r < len ->
  parse_opaque (t :: bs) = PErr PE_BAD_OPAQUE_LENGTH.
Proof. exact opaque_length_refused. Qed.
Print Assumptions C13_opaque_length.

Theorem C13_dangling_index : forall env tb index, e_strtbl env = Some tb -> e_strtbl_len env <= index ->
  get_strtbl_reference env index = PErr PE_INVALID_STRTBL_INDEX.
Proof. exact dangling_index_refused. Qed.
Print Assumptions C13_dangling_index.

Theorem C13_index_without_table : forall env index, e_strtbl env = None -> index <> 0 ->
  get_strtbl_reference env index = PErr PE_NULL_STRING_TABLE.
Proof. exact no_table_index_refused. Qed.
Print Assumptions C13_index_without_table.

Theorem C13_string_reference_dangling : forall env tb index r r', e_strtbl env = Some tb ->
  parse_mb_uint32 r = POk (index, r') -> e_strtbl_len env <= index ->
  parse_string env (131 :: r) = PErr PE_INVALID_STRTBL_INDEX.
Proof. exact tableref_dangling. Qed.
Print Assumptions C13_string_reference_dangling.

Theorem C13_literal_index_dangling : forall env tb t index r r', e_strtbl env = Some tb ->
  parse_mb_uint32 r = POk (index, r') -> e_strtbl_len env <= index ->
  parse_literal env (t :: r) = PErr PE_INVALID_STRTBL_INDEX.
Proof. exact literal_dangling. Qed.
Print Assumptions C13_literal_index_dangling.

Theorem C13_public_id_index_dangling : forall tbl pubidx tb len cs, len <= pubidx -> pubidx <> NO_INDEX ->
  check_public_id tbl 0 PUBLIC_ID_UNKNOWN pubidx (Some tb) len cs = None.
Proof. exact pubidx_dangling. Qed.
Print Assumptions C13_public_id_index_dangling.

Theorem C13_unterminated_inline_string : forall env r, nul_free r = true ->
  exists e, parse_string env (3 :: r) = PErr e.
Proof. exact unterminated_inline_refused. Qed.
Print Assumptions C13_unterminated_inline_string.

Theorem C13_unsupported_charset_refused : forall cs r, cs <> 3 -> cs <> 106 -> exists e, conv_term cs r = PErr e.
Proof. exact unsupported_charset_refused. Qed.
Print Assumptions C13_unsupported_charset_refused.

(* ---- the tolerated irregularities ---- *)
Theorem C13_padding_tolerated : forall l tb ver cs i, cs_ok cs -> i < blen tb ->
  get_strtbl_reference (penv_of l tb ver cs) i = POk (until_nul (drop i tb)).
Proof. exact padding_tolerated. Qed.
Print Assumptions C13_padding_tolerated.

(* D21 (repaired in /repo, b7850f9): the padding itself cannot be addressed *)
Theorem C13_padding_not_addressable : forall l tb ver cs i, tb <> [] -> blen tb <= i ->
  get_strtbl_reference (penv_of l tb ver cs) i = PErr PE_INVALID_STRTBL_INDEX.
Proof. exact padding_not_addressable. Qed.
Print Assumptions C13_padding_not_addressable.

Theorem C13_xmlns_workaround : forall env, e_strtbl env = None ->
  get_strtbl_reference env 0 = POk (B "xmlns"%string).
Proof. exact xmlns_workaround. Qed.
Print Assumptions C13_xmlns_workaround.

Theorem C13_forced_language_wins : forall tbl forced l k pubid pubidx st len cs, forced <> 0 ->
  find_lang_id tbl forced 0%nat = (Some l, k) ->
  check_public_id tbl forced pubid pubidx st len cs = Some l.
Proof. exact forced_language_wins. Qed.
Print Assumptions C13_forced_language_wins.

(* non-vacuity, on the regenerated tables: table "ab" declared with length 2 (unterminated) *)
Example C13_ex_padding :
  parse main_table 20 [3; 4; 106; 2; 97; 98; 127; 131; 0; 1] =
    POk [EvStartDoc 106 1102; EvStartElt (TagTok 0 63 (B "wml"%string)) []; EvChars [97; 98];
         EvEndElt (TagTok 0 63 (B "wml"%string)); EvEndDoc]
  /\ parse main_table 20 [3; 4; 106; 2; 97; 98; 127; 131; 2; 1] = PErr PE_INVALID_STRTBL_INDEX
  /\ parse main_table 20 [3; 4; 106; 0; 127; 131; 0; 1] =
    POk [EvStartDoc 106 1102; EvStartElt (TagTok 0 63 (B "wml"%string)) []; EvChars (B "xmlns"%string);
         EvEndElt (TagTok 0 63 (B "wml"%string)); EvEndDoc]
  /\ parse main_table 20 [3; 4; 106; 0; 127; 1; 9; 9] =
    POk [EvStartDoc 106 1102; EvStartElt (TagTok 0 63 (B "wml"%string)) [];
         EvEndElt (TagTok 0 63 (B "wml"%string)); EvEndDoc]
  /\ parse main_table 20 [3; 4; 106; 0; 127] = PErr PE_END_OF_BUFFER
  /\ parse_with main_table 1104 0 20 [3; 0; 127; 106; 0; 63] =
    POk [EvStartDoc 106 1104; EvStartElt (TagTok 0 63 (B "wml"%string)) [];
         EvEndElt (TagTok 0 63 (B "wml"%string)); EvEndDoc].
Proof. vm_compute. repeat split; reflexivity. Qed.

(* ====================================================================================================== *)
(* HISTORY — SUPERSEDED STATEMENTS (still true, still checked; weaker forms of the FULL theorems above):       *)
(*   C13_truncated_document_refused_non_wv, C13_truncated_document_refused_partial                            *)
(*                                   -> superseded by C13_truncated_document_refused (no premise)             *)
(*   C13_proper_prefix_refused_partial -> superseded by C13_proper_prefix_refused                             *)
(* ====================================================================================================== *)


(* upto_root d = header ++ string table ++ leading PIs ++ root element of serialize d.
   FULL for every table without a Wireless Village entry. *)
Theorem C13_truncated_document_refused_non_wv : forall tbl,
  forallb (fun l => negb ((l_id l =? 2301) || (l_id l =? 2302))) tbl = true ->
  forall d evs n, denote tbl d = Some evs -> (n < length (upto_root d))%nat ->
  exists e, parse tbl (S n) (firstn n (serialize d)) = PErr e.
Proof.
  intros tbl Hno d evs n. apply (truncated_refused tbl); [|exact typed_datetime_agree_proved].
  intros l Hin Hwv. rewrite forallb_forall in Hno. specialize (Hno l Hin). rewrite Hwv in Hno. discriminate.
Qed.
Print Assumptions C13_truncated_document_refused_non_wv.

(* every table; PARTIAL only in the premise on the WV typed decoders (see C04) *)
Theorem C13_truncated_document_refused_partial : forall tbl,
  (forall l, In l tbl -> (l_id l =? 2301) || (l_id l =? 2302) = true -> typed_wv_agree) ->
  forall d evs n, denote tbl d = Some evs -> (n < length (upto_root d))%nat ->
  exists e, parse tbl (S n) (firstn n (serialize d)) = PErr e.
Proof. intros tbl Hwv d evs n. exact (truncated_refused tbl Hwv typed_datetime_agree_proved d evs n). Qed.
Print Assumptions C13_truncated_document_refused_partial.

(* the same for any proper prefix P (not only firstn of the full serialization) *)
Theorem C13_proper_prefix_refused_partial : forall tbl,
  (forall l, In l tbl -> (l_id l =? 2301) || (l_id l =? 2302) = true -> typed_wv_agree) ->
  forall d evs P, denote tbl d = Some evs -> (exists Q, Q <> [] /\ upto_root d = P ++ Q) ->
  exists e, parse tbl (S (length P)) P = PErr e.
Proof. intros tbl Hwv d evs P. exact (parse_prefix_refused tbl Hwv typed_datetime_agree_proved d evs P). Qed.
Print Assumptions C13_proper_prefix_refused_partial.

