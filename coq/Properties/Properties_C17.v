(* C17 — Flow-mode encoding always equals batch encoding of the nodes that remain.
   Only statements, each closed by `exact`, each followed by its assumptions print-out.
   Model: Model/Flow.v; proofs: Proofs/FlowProofs.v.

   The flow-mode state machine is parametric in the per-node encoder: `enc_node`, `enc_start`, `enc_end` are ANY
   functions of (encoder context, node) -> (bytes, new context); `ctx` is whatever encoder state encoding depends on
   (WBXML: tag and attribute code pages; XML: indentation, in_content).  `live ops` = the fragments of a history that
   have not been deleted (DeleteLast removes the last Node and everything encoded after it); `batch_from ctx0 (live ops)`
   = what a fresh encoder produces for them; `spec_output` = header (once a node has been encoded) ++ that.
   `step` is the code as it is (delete_last_node leaves the context alone), `step_fixed` the repaired code.
   The last part instantiates the section with the REAL per-node WBXML encoding, Model/EncWbxml.v (Model/FlowEnc.v,
   Proofs/FlowEncProofs.v): context = (tag code page, attribute code page, current tag), and the premise that the
   per-node encoding is a function of (context, node) is a theorem there.  What ties EncWbxml to wbxml_encoder.c is the
   harness (props/C06 for the batch encoder, props/C17/check.py for the flow state machine). *)
From Coq Require Import List NArith Bool.
From Wbxml Require Import Model.Codec Model.EncWbxml Model.Flow Model.FlowEnc Proofs.FlowProofs Proofs.FlowEncProofs.
From Wbxml Require Model.EncXml Model.FlowEncXml Proofs.FlowEncXmlProofs.
From Wbxml Require Import Model.FlowEncRewrite Proofs.FlowEncRewriteProofs.
Import ListNotations.

(* --- the repaired code: the full theorem, for every per-node encoder and every history ------------------ *)

(* invariant by induction over the history: output = batch body of the live fragments, context = the context a fresh
   encoder has after them, pre_last_node_len = length of the batch body of the fragments before the last node, saved
   context = the context before the last node *)
Theorem C17_fixed_invariant : forall ctx node ctx0 enc_node enc_start enc_end header ops,
  let s := run_fixed ctx node ctx0 enc_node enc_start enc_end header ops in
  let sp := srun node ops in
  out ctx s = fst (batch_from ctx node enc_node enc_start enc_end ctx0 (frags node sp)) /\
  cx ctx s = snd (batch_from ctx node enc_node enc_start enc_end ctx0 (frags node sp)) /\
  pre_last ctx s = length (fst (batch_from ctx node enc_node enc_start enc_end ctx0 (firstn (mark node sp) (frags node sp)))) /\
  (true = true -> saved ctx s = snd (batch_from ctx node enc_node enc_start enc_end ctx0 (firstn (mark node sp) (frags node sp)))) /\
  (mark node sp <= length (frags node sp))%nat /\
  hdr ctx s = (if seen node sp then Some header else None).
Proof. exact fixed_invariant. Qed.
Print Assumptions C17_fixed_invariant.

(* hence: at every moment the bytes available are the header followed by the batch encoding of what remains *)
Theorem C17_fixed_flow_equals_batch : forall ctx node ctx0 enc_node enc_start enc_end header ops,
  get_output ctx (run_fixed ctx node ctx0 enc_node enc_start enc_end header ops) =
  spec_output ctx node ctx0 enc_node enc_start enc_end header ops.
Proof. exact fixed_output. Qed.
Print Assumptions C17_fixed_flow_equals_batch.

(* --- the code as it is ---------------------------------------------------------------------------------- *)

(* the same equality along every history in which no deletion crosses a change of context ... *)
Theorem C17_flow_equals_batch_partial : forall ctx node ctx0 enc_node enc_start enc_end header eqb,
  ctx_eqb_spec ctx eqb -> forall ops,
  safe ctx node ctx0 enc_node enc_start enc_end eqb ops = true ->
  get_output ctx (run ctx node ctx0 enc_node enc_start enc_end header ops) =
  spec_output ctx node ctx0 enc_node enc_start enc_end header ops.
Proof. exact safe_output. Qed.
Print Assumptions C17_flow_equals_batch_partial.

(* ... and refuted otherwise (D16): Add (page 0), Type (page 1), delete, Format (page 1) lacks the SWITCH_PAGE *)
Theorem C17_flow_refuted : forall header,
  c_get_output (c_run header d16_ops) <> c_spec_output header d16_ops.
Proof. exact d16_refutes. Qed.
Print Assumptions C17_flow_refuted.

(* --- non-vacuity: the concrete encoder (token tags, SWITCH_PAGE, inline strings) ------------------------ *)

Example C17_ex_d16 :
  c_get_output (c_run [] d16_ops) = [5; 71; 3; 98; 54; 52; 0; 1]%N /\
  c_spec_output [] d16_ops = [5; 0; 1; 71; 3; 98; 54; 52; 0; 1]%N /\
  c_get_output (c_run_fixed [] d16_ops) = [5; 0; 1; 71; 3; 98; 54; 52; 0; 1]%N /\
  c_safe d16_ops = false.
Proof. exact d16_outputs. Qed.

Example C17_ex_safe :
  let ops := [EltStart (CElt 0 45 []) true; Node (CElt 1 19 [CText [97]%N]); Node (CElt 1 7 []); DeleteLast; DeleteLast;
              Node (CElt 0 5 []); EltEnd (CElt 0 45 []) true; GetOutput]%N in
  c_safe ops = true /\ c_get_output (c_run [9]%N ops) = c_spec_output [9]%N ops /\
  c_get_output (c_run [9]%N ops) = [9; 109; 0; 1; 83; 3; 97; 0; 1; 0; 0; 5; 1]%N.
Proof. vm_compute. auto. Qed.

(* --- the real WBXML encoder (Model/EncWbxml.v) as the per-node encoder ----------------------------------- *)

(* FRAME.  With the string table disabled (flow mode switches it off) the encoding of a node neither reads nor writes
   the string table: started with any other table it does the same and hands that table back untouched *)
Theorem C17_encwbxml_node_frame : forall tbl e, e_use_strtbl e = false -> forall n parent st t k,
  parse_node tbl e parent n (set_strtbl st t k) =
  match parse_node tbl e parent n st with EOk (b, st') => EOk (b, set_strtbl st' t k) | EErr c => EErr c end.
Proof. exact parse_node_frame. Qed.
Print Assumptions C17_encwbxml_node_frame.

(* BALANCE.  A node that is encoded successfully leaves the CDATA state as it found it: entered outside a CDATA section
   (in_cdata = FALSE, cdata = NULL) it ends outside; so a whole-node encode can never leave in_cdata stale *)
Theorem C17_encwbxml_node_cdata_balance : forall tbl e, e_use_strtbl e = false -> forall n parent st b st',
  parse_node tbl e parent n st = EOk (b, st') ->
  (in_cdata st = false /\ cdata st = None -> in_cdata st' = false /\ cdata st' = None) /\
  (in_cdata st = true /\ cdata st <> None -> in_cdata st' = true /\ cdata st' <> None).
Proof. exact parse_node_balance. Qed.
Print Assumptions C17_encwbxml_node_cdata_balance.

(* hence the premise of the parametric theorems: the per-node encoding is a function of (context, node), where the
   context is (tagCodePage, attrCodePage, current_tag).  current_tag IS read (parse_text on a detached text node:
   binary-flagged current tag), so it belongs to what delete_last_node must restore, with the two code pages *)
Theorem C17_encwbxml_node_function_of_context : forall tbl e, e_use_strtbl e = false -> forall parent n st1 st2,
  (in_cdata st1 = false /\ cdata st1 = None) -> (in_cdata st2 = false /\ cdata st2 = None) ->
  ctx_of st1 = ctx_of st2 ->
  match parse_node tbl e parent n st1, parse_node tbl e parent n st2 with
  | EOk (b1, s1), EOk (b2, s2) =>
    b1 = b2 /\ ctx_of s1 = ctx_of s2 /\
    (in_cdata s1 = false /\ cdata s1 = None) /\ (in_cdata s2 = false /\ cdata s2 = None) /\
    strtbl s1 = strtbl st1 /\ strtbl_len s1 = strtbl_len st1 /\ strtbl s2 = strtbl st2 /\ strtbl_len s2 = strtbl_len st2
  | EErr c1, EErr c2 => c1 = c2
  | _, _ => False
  end.
Proof. exact enc_node_function_of_context. Qed.
Print Assumptions C17_encwbxml_node_function_of_context.

(* every history, raw element starts and ends included: the repaired flow encoder holds the header followed by the
   batch encoding (by the same EncWbxml functions, fresh context) of the fragments that remain *)
Theorem C17_flow_equals_batch_encwbxml_fragments : forall tbl e ops,
  w_get_output (w_run_fixed tbl e ops) = w_spec_output tbl e ops.
Proof. exact (fun tbl e => fixed_output wctx node wctx0 (w_enc_node tbl e) (w_enc_start e) w_enc_end (w_header e)). Qed.
Print Assumptions C17_flow_equals_batch_encwbxml_fragments.

(* histories whose remaining fragments are whole nodes: header ++ EncWbxml's batch body (parse_node over the chain of
   the remaining nodes, fresh encoder), whenever the batch encoder accepts them *)
Theorem C17_flow_equals_batch_encwbxml : forall tbl e, e_use_strtbl e = false -> forall ops ns b st',
  w_live ops = map (@FNode node) ns ->
  parse_nodes tbl e None ns (init_est [] 0) = EOk (b, st') ->
  w_get_output (w_run_fixed tbl e ops) =
  (if seen node (srun node ops) then fill_header e (init_est [] 0) else []) ++ b.
Proof. exact flow_equals_batch_encwbxml. Qed.
Print Assumptions C17_flow_equals_batch_encwbxml.

(* ... which is the document wbxml_tree_to_wbxml produces for those nodes with the string table switched off *)
Theorem C17_flow_equals_wbxml_tree_to_wbxml : forall tbl l o ops ns doc,
  o_use_strtbl o = false ->
  w_live ops = map (@FNode node) ns -> ns <> [] ->
  enc_wbxml tbl l o ns = EOk doc ->
  w_get_output (w_run_fixed tbl (enc_env l o) ops) = doc.
Proof. exact flow_equals_enc_wbxml. Qed.
Print Assumptions C17_flow_equals_wbxml_tree_to_wbxml.

(* non-vacuity on the real encoder: <tok 5 page 0/>, <tok 19 page 1>b</>, delete, <tok 7 page 1/>.  Unrepaired: the
   SWITCH_PAGE before the last element is missing; repaired = wbxml_tree_to_wbxml of the two remaining elements *)
Example C17_ex_encwbxml_d16 :
  let l0 := mk_blang 0 1 None None None None None in
  let e0 := flow_env l0 false false 3 in
  let ops := [Node (NElt (TagTok 0 5 0 []) [] []); Node (NElt (TagTok 1 19 0 []) [] [NText [98]]); DeleteLast;
              Node (NElt (TagTok 1 7 0 []) [] []); GetOutput]%N in
  w_get_output (w_run [] e0 ops) = [3; 1; 106; 0; 5; 7]%N /\
  w_get_output (w_run_fixed [] e0 ops) = [3; 1; 106; 0; 5; 0; 1; 7]%N /\
  enc_wbxml [] l0 (mk_opts 3 false true false) [NElt (TagTok 0 5 0 []) [] []; NElt (TagTok 1 7 0 []) [] []]%N
    = EOk [3; 1; 106; 0; 5; 0; 1; 7]%N.
Proof. vm_compute. auto. Qed.

(* --- the real XML encoder (Model/EncXml.v) as the per-node encoder --------------------------------------- *)

(* EncXml's state is (indent, in_content, in_cdata, current tag).  BALANCE: a node that is encoded successfully and
   entered with in_cdata = FALSE ends with in_cdata = FALSE — a CDATA section is one node, opened and closed inside
   one parse_single_node.  So in_cdata is FALSE between top-level nodes and delete_last_node need not restore it;
   the flow context is (indent, in_content, current tag), exactly what the repaired delete_last_node restores *)
Theorem C17_encxml_node_cdata_balance : forall o n l parent s b s',
  EncXml.enc_node l o parent s n = EncXml.XOk (b, s') -> EncXml.e_in_cdata s = false -> EncXml.e_in_cdata s' = false.
Proof. exact FlowEncXmlProofs.enc_node_keeps_outside. Qed.
Print Assumptions C17_encxml_node_cdata_balance.

(* every history, raw element starts and ends included *)
Theorem C17_flow_equals_batch_encxml_fragments : forall l o ops,
  FlowEncXml.x_get_output (FlowEncXml.x_run_fixed l o ops) = FlowEncXml.x_spec_output l o ops.
Proof.
  exact (fun l o => fixed_output FlowEncXml.xctx EncXml.node FlowEncXml.xctx0 (FlowEncXml.x_enc_node l o)
                                 (FlowEncXml.x_enc_start l o) (FlowEncXml.x_enc_end o) (FlowEncXml.x_header l o)).
Qed.
Print Assumptions C17_flow_equals_batch_encxml_fragments.

(* histories whose remaining fragments are whole nodes: header ++ EncXml's batch body of those nodes *)
Theorem C17_flow_equals_batch_encxml : forall l o ops ns b s',
  FlowEncXml.x_live ops = map (@FNode EncXml.node) ns ->
  EncXml.enc_nodes l o EncXml.proot ns (EncXml.est0 0) = EncXml.XOk (b, s') ->
  FlowEncXml.x_get_output (FlowEncXml.x_run_fixed l o ops) =
  (if seen EncXml.node (srun EncXml.node ops) then EncXml.xml_header l o else []) ++ b.
Proof. exact FlowEncXmlProofs.flow_equals_batch_encxml. Qed.
Print Assumptions C17_flow_equals_batch_encxml.

(* ... which is the document wbxml_tree_to_xml produces for those nodes *)
Theorem C17_flow_equals_wbxml_tree_to_xml : forall l o ops ns doc,
  FlowEncXml.x_live ops = map (@FNode EncXml.node) ns -> ns <> [] ->
  EncXml.enc_xml_opts l o ns = EncXml.XOk doc ->
  FlowEncXml.x_get_output (FlowEncXml.x_run_fixed l o ops) = doc.
Proof. exact FlowEncXmlProofs.flow_equals_enc_xml. Qed.
Print Assumptions C17_flow_equals_wbxml_tree_to_xml.

(* non-vacuity (indented XML): raw <a> (indent 1), <c/>, raw </a> (indent 0), delete back to before <c/>, <d/>.
   Unrepaired: <d/> is not indented; repaired: it is, as in the batch encoding of <a> <d/> *)
Example C17_ex_encxml_d16 :
  let l0 := EncXml.mk_xlang 0 [] None [] None false [] [] in
  let o0 := EncXml.mk_opts EncXml.Indent 1 false false in
  let a := EncXml.Elt (EncXml.TLit [97]%N) [] [EncXml.Elt (EncXml.TLit [98]%N) [] []] in
  let ops := [EltStart a true; Node (EncXml.Elt (EncXml.TLit [99]%N) [] []); EltEnd a true; DeleteLast;
              Node (EncXml.Elt (EncXml.TLit [100]%N) [] []); GetOutput] in
  out _ (FlowEncXml.x_run l0 o0 ops) = [60; 97; 62; 10; 60; 100; 47; 62; 10]%N /\
  out _ (FlowEncXml.x_run_fixed l0 o0 ops) = [60; 97; 62; 10; 32; 60; 100; 47; 62; 10]%N.
Proof. vm_compute. auto. Qed.

(* --- the encoder rewrites the caller's text nodes in place (Model/FlowEncRewrite.v) ----------------------- *)

(* `text_after e st parent c` = node->content after parse_text (stripped when remove_text_blanks applies; "\n" ->
   "\r\n" in a SyncML CDATA section).  The models are functions of node VALUES; the property is about the values
   handed to the encoder.  Encoding the rewritten value once more IN THE SAME encoder state changes nothing ... *)
Theorem C17_text_rewrite_reencode_same_state : forall e st parent c,
  enc_text e st parent (text_after e st parent c) = enc_text e st parent c /\
  text_after e st parent (text_after e st parent c) = text_after e st parent c.
Proof. exact reencode_same_state. Qed.
Print Assumptions C17_text_rewrite_reencode_same_state.

(* ... but in another state it does: " a " encoded as ordinary text (remove_text_blanks set) leaves "a" in the node;
   under a binary-flagged current tag the original is OPAQUE 3 " a ", the rewritten node OPAQUE 1 "a".  A harness that
   encodes the same node OBJECT twice compares different node values (the false alarm of the thorough tier). *)
Example C17_ex_text_rewrite_observable :
  let e0 := flow_env (mk_blang 0 1 None None None None None) false true 3 in
  let plain := st_of wctx0 in
  let under_binary := st_of (mk_wctx 0 0 (Some (0, 5, 1)%N)) in
  text_after e0 plain None [32; 97; 32]%N = [97]%N /\
  enc_text e0 plain None [32; 97; 32]%N = EOk ([3; 97; 0]%N, plain) /\
  enc_text e0 under_binary None [32; 97; 32]%N = EOk ([195; 3; 32; 97; 32]%N, under_binary) /\
  enc_text e0 under_binary None (text_after e0 plain None [32; 97; 32]%N) = EOk ([195; 1; 97]%N, under_binary).
Proof. vm_compute. auto. Qed.
