(* C17 — Flow-mode encoding always equals batch encoding of the nodes that remain.
   Only statements, each closed by `exact`, each followed by its assumptions print-out.
   Model: Model/Flow.v; proofs: Proofs/FlowProofs.v.

   The flow-mode state machine is parametric in the per-node encoder: `enc_node`, `enc_start`, `enc_end` are ANY
   functions of (encoder context, node) -> (bytes, new context); `ctx` is whatever encoder state encoding depends on
   (WBXML: tag and attribute code pages; XML: indentation, in_content).  `live ops` = the fragments of a history that
   have not been deleted (DeleteLast removes the last Node and everything encoded after it); `batch_from ctx0 (live ops)`
   = what a fresh encoder produces for them; `spec_output` = header (once a node has been encoded) ++ that.
   `step` is the code as it is (delete_last_node leaves the context alone), `step_fixed` the repaired code.
   What ties `enc_node` to the real parse_node is the harness (props/C17/check.py), not a theorem. *)
From Coq Require Import List NArith Bool.
From Wbxml Require Import Model.Flow Proofs.FlowProofs.
Import ListNotations.

(* --- the repaired code: the full theorem, for every per-node encoder and every history ------------------ *)

(* invariant by induction over the history: output = batch body of the live fragments, context = the context a fresh
   encoder has after them, pre_last_node_len = length of the batch body of the fragments before the last node, saved
   context = the context before the last node *)
Theorem C17_fixed_invariant : forall ctx node ctx0 enc_node enc_start enc_end header ops,
  let s := run_fixed ctx node ctx0 enc_node enc_start enc_end header ops in
  let sp := srun node ops in
  out ctx s = fst (batch_from ctx node enc_node enc_start enc_end ctx0 (frags node sp)) /\
  cx ctx s = snd (batch_from ctx node enc_node enc_start enc_end ctx0 (frags node sp)) /\
  pre_last ctx s = length (fst (batch_from ctx node enc_node enc_start enc_end ctx0 (firstn (mark node sp) (frags node sp)))) /\
  (true = true -> saved ctx s = snd (batch_from ctx node enc_node enc_start enc_end ctx0 (firstn (mark node sp) (frags node sp)))) /\
  (mark node sp <= length (frags node sp))%nat /\
  hdr ctx s = (if seen node sp then Some header else None).
Proof. exact fixed_invariant. Qed.
Print Assumptions C17_fixed_invariant.

(* hence: at every moment the bytes available are the header followed by the batch encoding of what remains *)
Theorem C17_fixed_flow_equals_batch : forall ctx node ctx0 enc_node enc_start enc_end header ops,
  get_output ctx (run_fixed ctx node ctx0 enc_node enc_start enc_end header ops) =
  spec_output ctx node ctx0 enc_node enc_start enc_end header ops.
Proof. exact fixed_output. Qed.
Print Assumptions C17_fixed_flow_equals_batch.

(* --- the code as it is ---------------------------------------------------------------------------------- *)

(* the same equality along every history in which no deletion crosses a change of context ... *)
Theorem C17_flow_equals_batch_partial : forall ctx node ctx0 enc_node enc_start enc_end header eqb,
  ctx_eqb_spec ctx eqb -> forall ops,
  safe ctx node ctx0 enc_node enc_start enc_end eqb ops = true ->
  get_output ctx (run ctx node ctx0 enc_node enc_start enc_end header ops) =
  spec_output ctx node ctx0 enc_node enc_start enc_end header ops.
Proof. exact safe_output. Qed.
Print Assumptions C17_flow_equals_batch_partial.

(* ... and refuted otherwise (D16): Add (page 0), Type (page 1), delete, Format (page 1) lacks the SWITCH_PAGE *)
Theorem C17_flow_refuted : forall header,
  c_get_output (c_run header d16_ops) <> c_spec_output header d16_ops.
Proof. exact d16_refutes. Qed.
Print Assumptions C17_flow_refuted.

(* --- non-vacuity: the concrete encoder (token tags, SWITCH_PAGE, inline strings) ------------------------ *)

Example C17_ex_d16 :
  c_get_output (c_run [] d16_ops) = [5; 71; 3; 98; 54; 52; 0; 1]%N /\
  c_spec_output [] d16_ops = [5; 0; 1; 71; 3; 98; 54; 52; 0; 1]%N /\
  c_get_output (c_run_fixed [] d16_ops) = [5; 0; 1; 71; 3; 98; 54; 52; 0; 1]%N /\
  c_safe d16_ops = false.
Proof. exact d16_outputs. Qed.

Example C17_ex_safe :
  let ops := [EltStart (CElt 0 45 []) true; Node (CElt 1 19 [CText [97]%N]); Node (CElt 1 7 []); DeleteLast; DeleteLast;
              Node (CElt 0 5 []); EltEnd (CElt 0 45 []) true; GetOutput]%N in
  c_safe ops = true /\ c_get_output (c_run [9]%N ops) = c_spec_output [9]%N ops /\
  c_get_output (c_run [9]%N ops) = [9; 109; 0; 1; 83; 3; 97; 0; 1; 0; 0; 5; 1]%N.
Proof. vm_compute. auto. Qed.
