(* C07 — Conversion options change the form of the output, never its meaning.
   Only statements, each closed by `exact`, with the Print-Assumptions command under each.

   WBXML half (model Model/EncWbxml.v, proofs Proofs/EncWbxmlProofs.v + Proofs/EncWbxmlC07.v): what is PROVED is that the
   version and the anonymity option change nothing but the header (same body bytes, same final string table, same
   success / error), what the header then carries, and that the string table is a pure indirection (every reference
   resolves to the string it replaced: C06_value_split_spells_value + C06_strtbl_offsets_resolve + C06_strtbl_exact).
   NOT proved: "string table on / off decode to the same document" as a statement about decoded byte strings — it needs
   the Coq strict decoder (Spec.decode, C04); it is established on the C's bytes by vlib/strictdec.py for all 16 tuples.
   XML half (model Model/EncXml.v + reader Model/XmlRead.v of the XML generator development, Proofs/EncXmlProofs.v,
   Proofs/EncXmlIndent.v): compact = canonical and indented (any width) = compact modulo blank text between markup are
   PROVED for trees made of elements and (non-binary) text — `_partial` in the kinds of nodes only; CDATA sections,
   embedded trees, binary-flagged content and the trim/keep interplay with canonical generation are corresponded on the C.
   Source transcoding: CORRESPONDED ONLY (Expat's work). *)
From Coq Require Import List NArith.
From Wbxml Require Import Model.Codec Model.TablesDefs Model.EncWbxml Proofs.EncWbxmlProofs Proofs.EncWbxmlC07 Proofs.EncWbxmlAbs Proofs.EncWbxmlDenote2
     Model.EncWbxmlEvents Proofs.EncWbxmlTblOk Proofs.EncWbxmlDenote3 Proofs.EncWbxmlAbs4 Proofs.EncWbxmlDenote4 Proofs.EncWbxmlAbs5 Proofs.EncWbxmlDenote5 Proofs.EncWbxmlDenoteWv
     Proofs.EncWbxmlDenote6 Proofs.EncWbxmlClass6 Proofs.EncWbxmlClasses Proofs.EncWbxmlUnion.
From Wbxml Require Model.Parser Model.Spec.
From Wbxml Require Model.EncXml Model.XmlRead Proofs.EncXmlProofs Proofs.EncXmlIndent Proofs.EncXmlC07.
Import ListNotations.
Local Open Scope N_scope.

(* For every language, tree without embedded tree, string-table and keep-ws setting: the outputs for any two (version,
   anonymous) pairs are header ++ body with the SAME body and the same final encoder state *)
Theorem C07_wbxml_version_and_anonymous_change_header_only : forall tbl l v1 v2 a1 a2 s k roots body st,
  forallb no_tree roots = true ->
  enc_body tbl l (mk_opts v1 s k a1) roots = EOk (body, st) ->
  enc_wbxml tbl l (mk_opts v1 s k a1) roots = EOk (fill_header (enc_env l (mk_opts v1 s k a1)) st ++ body) /\
  enc_wbxml tbl l (mk_opts v2 s k a2) roots = EOk (fill_header (enc_env l (mk_opts v2 s k a2)) st ++ body).
Proof. exact outputs_differ_in_header_only. Qed.
Print Assumptions C07_wbxml_version_and_anonymous_change_header_only.

(* anonymity alone, for every tree (an embedded document is never anonymous and carries the requested version itself) *)
Theorem C07_wbxml_anonymous_changes_header_only : forall tbl l v a1 a2 s k roots body st,
  enc_body tbl l (mk_opts v s k a1) roots = EOk (body, st) ->
  enc_wbxml tbl l (mk_opts v s k a1) roots = EOk (fill_header (enc_env l (mk_opts v s k a1)) st ++ body) /\
  enc_wbxml tbl l (mk_opts v s k a2) roots = EOk (fill_header (enc_env l (mk_opts v s k a2)) st ++ body).
Proof. exact anonymous_changes_header_only. Qed.
Print Assumptions C07_wbxml_anonymous_changes_header_only.

(* acceptance does not depend on version / anonymity *)
Theorem C07_wbxml_failure_independent_of_version_and_anonymous : forall tbl l v1 v2 a1 a2 s k roots c,
  forallb no_tree roots = true ->
  enc_wbxml tbl l (mk_opts v1 s k a1) roots = EErr c -> enc_wbxml tbl l (mk_opts v2 s k a2) roots = EErr c.
Proof. exact failure_independent. Qed.
Print Assumptions C07_wbxml_failure_independent_of_version_and_anonymous.

(* an anonymous document's header: version, public id 0x01 'unknown', charset (none in WBXML 1.0), table length, table —
   no public-identifier string, for every language *)
Theorem C07_wbxml_anonymous_header : forall e st,
  e_anonymous e = true ->
  fill_header e st = [u8 (e_version e); 1] ++ header_charset e ++ mb_write (strtbl_len st)
                     ++ (if e_use_strtbl e then strtbl_construct (strtbl st) else []).
Proof. exact fill_header_anonymous. Qed.
Print Assumptions C07_wbxml_anonymous_header.

(* the header starts with the requested version *)
Theorem C07_wbxml_version_byte : forall l v s k a st, exists r, fill_header (enc_env l (mk_opts v s k a)) st = u8 v :: r.
Proof. exact (fun l v s k a st => fill_header_version (enc_env l (mk_opts v s k a)) st). Qed.
Print Assumptions C07_wbxml_version_byte.

(* the string table is an indirection: with the table of the final state every reference resolves to its string ... *)
Theorem C07_wbxml_strtbl_references_resolve : forall tbl l o roots body st e,
  enc_body tbl l o roots = EOk (body, st) -> bnd st -> In e (strtbl st) -> ref_str (strtbl st) (s_off e) = s_str e.
Proof.
  intros tbl l o roots body st e H Hb Hin.
  exact (ref_str_resolves 0 (strtbl st) e (proj1 (enc_body_strtbl_exact tbl l o roots body st H Hb)) Hin).
Qed.
Print Assumptions C07_wbxml_strtbl_references_resolve.

(* ... and the value elements written for a text / attribute value spell that value whichever references were chosen *)
Theorem C07_wbxml_value_elements_spell_value : forall (den : velt -> bytes),
  (forall s, den (VStr s) = s) ->
  forall e st is_attr buffer l,
  (forall r, In r (match bl_vals (e_lang e) with Some rows => rows | None => [] end) -> den (VAttrTok (bv_page r) (bv_tok r)) = bv_name r) ->
  (forall r, In r (match bl_exts (e_lang e) with Some rows => rows | None => [] end) -> den (VExt (be_tok r)) = be_name r) ->
  (forall x, In x (strtbl st) -> den (VRef (s_off x)) = s_str x) ->
  split_value e st is_attr buffer = Some l -> flat_map den l = buffer.
Proof. exact split_value_den. Qed.
Print Assumptions C07_wbxml_value_elements_spell_value.

(* ON DECODED BYTES (the sentence that needed the Coq strict decoder): for one tree the outputs under any two
   (version 1.0..1.3, anonymous or not) pairs are both accepted by the PROVED strict decoder Spec.decode_lang (language
   forced) and decode to the SAME event list.  PARTIAL: string table off on both sides, and the fragment of
   C06_strict_decoding_yields_normalised_source_with_attributes_partial (token tags, attributes with value prefixes / value
   tokens / inline remainders, text; languages without typed values).  NOT proved: string table on versus off (with the
   table one text is written as several items, i.e. several character events: equality holds only modulo merging adjacent
   character data); checked on the C by the same decoder for every case. *)
Theorem C07_wbxml_options_decode_equal_partial : forall tblb TBL L v1 v2 a1 a2 k tag attrs ch bs1 bs2,
  let o1 := mk_opts v1 false k a1 in let o2 := mk_opts v2 false k a2 in
  plain_env (enc_env (to_blang L) o1) = true -> vals_ok L = true -> l_exts L = None ->
  frag2_node (enc_env (to_blang L) o1) (NElt tag attrs ch) = true -> tree_ok2 L 0 (NElt tag attrs ch) = true ->
  find (fun x => l_id x =? l_id L) TBL = Some L ->
  v1 < 4 -> v2 < 4 -> l_pub_num L < 4294967296 -> l_pub_num L <> 0 ->
  (match l_pub_text L with Some p => Spec.bytes_okb (Parser.B p) = true /\ len (Parser.B p) + 1 < 4294967296 | None => True end) ->
  enc_wbxml tblb (to_blang L) o1 [NElt tag attrs ch] = EOk bs1 ->
  enc_wbxml tblb (to_blang L) o2 [NElt tag attrs ch] = EOk bs2 ->
  exists evs, Spec.decode_lang TBL (l_id L) bs1 = Some evs /\ Spec.decode_lang TBL (l_id L) bs2 = Some evs.
Proof. exact options_decode_equal. Qed.
Print Assumptions C07_wbxml_options_decode_equal_partial.

(* ALL 16 TUPLES {version 1.0..1.3} x {string table on, off} x {anonymous or not} (same white-space option): for one
   tree both outputs are accepted by the PROVED strict decoder Spec.decode_lang (language forced) and the two event
   lists are EQUAL MODULO merge_chars (Model/EncWbxmlEvents.v: adjacent character-data events concatenated — with the
   table one text is written as several STR_I / STR_T items).  Element names (token or literal), attributes in order with
   their full values, and the text of every element are the same.  PARTIAL in the fragment only
   (C06_strict_decoding_yields_normalised_source_strtbl_partial: untyped languages without extension tokens; element and
   text nodes; no binary-flagged content, CDATA, PI, embedded tree); outputs shorter than 2^32 octets. *)
Theorem C07_wbxml_options_decode_equal_strtbl_partial : forall tblb TBL L v1 v2 s1 s2 a1 a2 k tag attrs ch bs1 bs2,
  let o1 := mk_opts v1 s1 k a1 in let o2 := mk_opts v2 s2 k a2 in
  plain_env (enc_env (to_blang L) o1) = true -> vals_ok L = true -> l_exts L = None ->
  tree_ok3 L 0 (NElt tag attrs ch) = true ->
  find (fun x => l_id x =? l_id L) TBL = Some L ->
  v1 < 4 -> v2 < 4 -> l_pub_num L < 4294967296 -> l_pub_num L <> 0 ->
  (match l_pub_text L with Some p => okb (Parser.B p) = true | None => True end) ->
  len bs1 < 4294967296 -> len bs2 < 4294967296 ->
  enc_wbxml tblb (to_blang L) o1 [NElt tag attrs ch] = EOk bs1 ->
  enc_wbxml tblb (to_blang L) o2 [NElt tag attrs ch] = EOk bs2 ->
  exists ev1 ev2, Spec.decode_lang TBL (l_id L) bs1 = Some ev1 /\ Spec.decode_lang TBL (l_id L) bs2 = Some ev2 /\
                  merge_chars ev1 = merge_chars ev2.
Proof. exact options_decode_equal3. Qed.
Print Assumptions C07_wbxml_options_decode_equal_strtbl_partial.

(* the same for trees WITH BINARY-FLAGGED elements (byte arrays written as OPAQUE, never trimmed / dropped / cut): all 16
   tuples decode to merge_chars-equal event lists (fragment of C06_strict_decoding_yields_normalised_source_binary_partial) *)
Theorem C07_wbxml_options_decode_equal_binary_partial : forall tblb TBL L v1 v2 s1 s2 a1 a2 k tag attrs ch bs1 bs2,
  let o1 := mk_opts v1 s1 k a1 in let o2 := mk_opts v2 s2 k a2 in
  plain_env (enc_env (to_blang L) o1) = true -> vals_ok L = true -> l_exts L = None ->
  tree_ok4 L false 0 (NElt tag attrs ch) = true ->
  find (fun x => l_id x =? l_id L) TBL = Some L ->
  v1 < 4 -> v2 < 4 -> l_pub_num L < 4294967296 -> l_pub_num L <> 0 ->
  (match l_pub_text L with Some p => okb (Parser.B p) = true | None => True end) ->
  len bs1 < 4294967296 -> len bs2 < 4294967296 ->
  enc_wbxml tblb (to_blang L) o1 [NElt tag attrs ch] = EOk bs1 ->
  enc_wbxml tblb (to_blang L) o2 [NElt tag attrs ch] = EOk bs2 ->
  exists ev1 ev2, Spec.decode_lang TBL (l_id L) bs1 = Some ev1 /\ Spec.decode_lang TBL (l_id L) bs2 = Some ev2 /\
                  merge_chars ev1 = merge_chars ev2.
Proof. exact options_decode_equal4. Qed.
Print Assumptions C07_wbxml_options_decode_equal_binary_partial.

(* the same for the TYPED classes: plain + SI 1.0 + EMN 1.0 (%Datetime attributes decoded as canon_dt value) ... *)
Theorem C07_wbxml_options_decode_equal_typed_datetime_partial : forall tblb TBL L v1 v2 s1 s2 a1 a2 k tag attrs ch bs1 bs2,
  let o1 := mk_opts v1 s1 k a1 in let o2 := mk_opts v2 s2 k a2 in
  class5 (enc_env (to_blang L) o1) = true -> vals_ok L = true -> l_exts L = None -> tag_tbl_ok (enc_env (to_blang L) o1) = true ->
  tree_ok5 L (aok_dt L) tok_plain 0 true None (NElt tag attrs ch) = true ->
  find (fun x => l_id x =? l_id L) TBL = Some L ->
  v1 < 4 -> v2 < 4 -> l_pub_num L < 4294967296 -> l_pub_num L <> 0 ->
  (match l_pub_text L with Some p => okb (Parser.B p) = true | None => True end) ->
  len bs1 < 4294967296 -> len bs2 < 4294967296 ->
  enc_wbxml tblb (to_blang L) o1 [NElt tag attrs ch] = EOk bs1 ->
  enc_wbxml tblb (to_blang L) o2 [NElt tag attrs ch] = EOk bs2 ->
  exists ev1 ev2, Spec.decode_lang TBL (l_id L) bs1 = Some ev1 /\ Spec.decode_lang TBL (l_id L) bs2 = Some ev2 /\
                  merge_chars ev1 = merge_chars ev2.
Proof. exact options_decode_equal5. Qed.
Print Assumptions C07_wbxml_options_decode_equal_typed_datetime_partial.

(* ... and Wireless Village (typed integers / dates / extension tokens in content; elements without attributes) *)
Theorem C07_wbxml_options_decode_equal_typed_wv_partial : forall tblb TBL L v1 v2 s1 s2 a1 a2 k tag attrs ch bs1 bs2,
  let o1 := mk_opts v1 s1 k a1 in let o2 := mk_opts v2 s2 k a2 in
  is_wv (to_blang L) = true -> exts_ok L = true -> tag_tbl_ok (enc_env (to_blang L) o1) = true ->
  tree_ok5 L aok_none (tok_wv k) 0 true None (NElt tag attrs ch) = true ->
  find (fun x => l_id x =? l_id L) TBL = Some L ->
  v1 < 4 -> v2 < 4 -> l_pub_num L < 4294967296 -> l_pub_num L <> 0 ->
  (match l_pub_text L with Some p => okb (Parser.B p) = true | None => True end) ->
  len bs1 < 4294967296 -> len bs2 < 4294967296 ->
  enc_wbxml tblb (to_blang L) o1 [NElt tag attrs ch] = EOk bs1 ->
  enc_wbxml tblb (to_blang L) o2 [NElt tag attrs ch] = EOk bs2 ->
  exists ev1 ev2, Spec.decode_lang TBL (l_id L) bs1 = Some ev1 /\ Spec.decode_lang TBL (l_id L) bs2 = Some ev2 /\
                  merge_chars ev1 = merge_chars ev2.
Proof. exact options_decode_equal_wv. Qed.
Print Assumptions C07_wbxml_options_decode_equal_typed_wv_partial.

(* THE UNION (round 7): every language (class selected by the language: Wireless Village, DRMREL, SyncML, OTA settings, all
   others incl. SI / EMN), every node kind of C06's union fragment except embedded trees (an embedded document carries its
   own version byte and string table, so the octets reported for it differ between tuples; they decode to the same events:
   C06_embedded_document_decodes_to_embedded_tree): all 16 tuples {version} x {string table} x {anonymous} decode to event
   lists equal modulo merge_chars. *)
Theorem C07_wbxml_options_decode_equal : forall tblb TBL L v1 v2 s1 s2 a1 a2 k tag attrs ch bs1 bs2,
  let o1 := mk_opts v1 s1 k a1 in let o2 := mk_opts v2 s2 k a2 in
  vals_ok L = true -> side_u L = true -> tag_tbl_ok (enc_env (to_blang L) o1) = true ->
  tree_ok6 L (aok_u L) (tok_u L k) (cok_plain L) eok_none (is_syncml (to_blang L)) 0 true None (NElt tag attrs ch) = true ->
  find (fun x => l_id x =? l_id L) TBL = Some L ->
  v1 < 4 -> v2 < 4 -> l_pub_num L < 4294967296 -> l_pub_num L <> 0 ->
  (match l_pub_text L with Some p => okb (Parser.B p) = true | None => True end) ->
  len bs1 < 4294967296 -> len bs2 < 4294967296 ->
  enc_wbxml tblb (to_blang L) o1 [NElt tag attrs ch] = EOk bs1 ->
  enc_wbxml tblb (to_blang L) o2 [NElt tag attrs ch] = EOk bs2 ->
  exists ev1 ev2, Spec.decode_lang TBL (l_id L) bs1 = Some ev1 /\ Spec.decode_lang TBL (l_id L) bs2 = Some ev2 /\
                  merge_chars ev1 = merge_chars ev2.
Proof. exact options_decode_equal_union. Qed.
Print Assumptions C07_wbxml_options_decode_equal.

(* ---- XML half (statements over the XML generator model; qualified names: its tree type is its own) -------------- *)
Module XmlHalf.
  Import Wbxml.Model.EncXml Wbxml.Model.XmlRead Wbxml.Proofs.EncXmlProofs Wbxml.Proofs.EncXmlIndent Wbxml.Proofs.EncXmlC07.

  (* compact and canonical generation of one tree are read back as the SAME document (white space kept; no TAB / LF / CR
     in attribute values) — for every node kind the tree builder makes (elements, attributes, xmlns, text, base64
     content of binary-flagged elements, CDATA sections, embedded documents): node_ok_g states the property's
     hypotheses (names are XML names, character data are XML characters, no duplicate attribute) *)
  Theorem C07_xml_compact_equals_canonical : forall l i1 i2 nm attrs ch out1 out2,
    lang_ok l = true -> plain_attrs_g (Elt nm attrs ch) = true ->
    node_ok_g l (opts_of_params Compact i1 true) proot None (Elt nm attrs ch) = true ->
    node_ok_g l (opts_of_params Canonical i2 true) proot None (Elt nm attrs ch) = true ->
    enc_xml l Compact i1 true [Elt nm attrs ch] = XOk out1 ->
    enc_xml l Canonical i2 true [Elt nm attrs ch] = XOk out2 ->
    forall fuel, (node_fuel (Elt nm attrs ch) + 2 <= fuel)%nat ->
      exists d, read_xml fuel out1 = ROk d /\ read_xml fuel out2 = ROk d.
  Proof. exact Wbxml.Proofs.EncXmlC07.c07_xml_compact_canonical_g. Qed.
  Print Assumptions C07_xml_compact_equals_canonical.

  (* indented generation with ANY indent width (reduced mod 256 like the C's WB_UTINY, 8-bit depth counter) and compact
     generation: both accepted by the reader, same DOCTYPE, root elements equal modulo blank text between markup (nb:
     elements with only character data are compared exactly) — same node kinds as above *)
  Theorem C07_xml_indent_equals_compact : forall l indent indent' keep_ws nm attrs ch out_i out_c,
    lang_ok l = true ->
    node_ok_g l (opts_of_params Compact indent' keep_ws) proot None (Elt nm attrs ch) = true ->
    enc_xml l Indent indent keep_ws [Elt nm attrs ch] = XOk out_i ->
    enc_xml l Compact indent' keep_ws [Elt nm attrs ch] = XOk out_c ->
    forall fuel, (node_fuel (Elt nm attrs ch) + 2 <= fuel)%nat ->
      exists ri rc,
        read_xml fuel out_i = ROk (doc_of l [ri]) /\ read_xml fuel out_c = ROk (doc_of l [rc]) /\ nb ri = nb rc.
  Proof. exact c07_xml_indent_compact. Qed.
  Print Assumptions C07_xml_indent_equals_compact.
End XmlHalf.

(* ---- XML half, lifted to EVERY tree satisfying the property's hypotheses (appended by the XML generator development:
        Proofs/EncXmlEol.v, Proofs/EncXmlC07e.v).  node_ok_e = the hypotheses and nothing more: names are XML names, text and
        attribute values are XML characters (raw CR allowed everywhere), no duplicate attribute; every node kind the tree
        builder makes (CDATA nodes, embedded documents, base64 content of binary-flagged elements); it does not depend on
        the options (o_any). ------------------------------------------------------------------------------------------- *)
From Wbxml Require Proofs.EncXmlEol Proofs.EncXmlC07e.
Module XmlHalfFull.
  Import Wbxml.Model.EncXml Wbxml.Model.XmlRead Wbxml.Proofs.EncXmlProofs Wbxml.Proofs.EncXmlIndent Wbxml.Proofs.EncXmlEol
         Wbxml.Proofs.EncXmlC07e.

  (* FULL.  Indented generation with ANY indent width (an arbitrary N, reduced mod 256 like the C's WB_UTINY) at any depth
     (8-bit depth counter) and compact generation: both accepted by the reader, same DOCTYPE (the language's), root
     elements equal modulo blank text between markup (nb).  With raw CR the reader's line-end normalisation is applied on
     both sides before comparing (a text ending in CR followed by the line break of indented generation is one line end). *)
  Theorem C07_xml_indent_equals_compact_full : forall l o_any indent indent' keep_ws nm attrs ch out_i out_c,
    lang_ok l = true ->
    node_ok_e l o_any proot None (Elt nm attrs ch) = true ->
    enc_xml l Indent indent keep_ws [Elt nm attrs ch] = XOk out_i ->
    enc_xml l Compact indent' keep_ws [Elt nm attrs ch] = XOk out_c ->
    forall fuel, (node_fuel (Elt nm attrs ch) + 2 <= fuel)%nat ->
      exists ri rc,
        read_xml fuel out_i = ROk (doc_of l [ri]) /\ read_xml fuel out_c = ROk (doc_of l [rc]) /\ nb ri = nb rc.
  Proof. exact c07_xml_indent_compact_e. Qed.
  Print Assumptions C07_xml_indent_equals_compact_full.

  (* FULL.  Canonical and compact generation (white space kept): both accepted, same DOCTYPE; the compact reading is the
     canonical reading with XML's own normalisation applied (eol_rel): attribute values get attribute-value normalisation
     (line ends, then literal TAB / LF / CR -> space); the content is the same sequence of pieces (child elements, pieces of
     character data, CDATA payloads) delivered with line ends normalised per run of character data (fin false) instead of
     exactly (fin true: canonical generation writes CR / LF / TAB as character references); child elements are related in
     the same way.  When the tree has no raw CR and no TAB / LF / CR in attribute values this is equality
     (C07_xml_compact_equals_canonical above). *)
  Theorem C07_xml_compact_equals_canonical_mod_eol : forall l o_any i1 i2 nm attrs ch out_k out_c,
    lang_ok l = true ->
    node_ok_e l o_any proot None (Elt nm attrs ch) = true ->
    enc_xml l Canonical i1 true [Elt nm attrs ch] = XOk out_k ->
    enc_xml l Compact i2 true [Elt nm attrs ch] = XOk out_c ->
    forall fuel, (node_fuel (Elt nm attrs ch) + 2 <= fuel)%nat ->
      exists rk rc,
        read_xml fuel out_k = ROk (doc_of l [rk]) /\ read_xml fuel out_c = ROk (doc_of l [rc]) /\ eol_rel rk rc.
  Proof. exact c07_xml_compact_canonical_e. Qed.
  Print Assumptions C07_xml_compact_equals_canonical_mod_eol.
End XmlHalfFull.

(* the hypotheses are satisfiable *)
Example C07_example :
  exists body st, enc_body [] d7_lang (mk_opts 1 true false true) d7_tree = EOk (body, st) /\ forallb no_tree d7_tree = true.
Proof. eexists. eexists. split; vm_compute; reflexivity. Qed.
