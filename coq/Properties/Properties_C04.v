(* C04 — the event parser reports exactly what the WBXML bytes denote.
   Only statements, each closed by `exact`, with Print Assumptions beneath.
   Model: Model/Parser.v (transcription of src/wbxml_parser.c); specification: Model/Spec.v
   (abstract syntax wdoc from the WBXML BNF, serialize, denote; wf tbl d := denote tbl d <> None);
   proofs: Proofs/ParserProofs{Base,Str,Attr,Elt,Doc}.v. *)
From Coq Require Import String.
From Coq Require Import List NArith Bool.
From Wbxml Require Import Model.Codec Model.TablesDefs Gen.TablesData Model.Parser Model.Spec
     Proofs.ParserProofsBase Proofs.ParserProofsStr Proofs.ParserProofsAttr Proofs.ParserProofsElt Proofs.ParserProofsDoc
     Proofs.ParserProofsTyped Proofs.ParserProofsStrict3 Proofs.ParserProofsWv.
Import ListNotations.
Local Open Scope N_scope.

(* MAIN THEOREM — FULL, unconditional (every table, every well-formed document, no premise):
   the parser delivers exactly the events the specification assigns to the abstract document.
   (The theorems below named _partial / _non_wv are the earlier, weaker forms, kept for reference: their
   premise typed_wv_agree is now a theorem, C04_wv_typed_decoders.) *)
Theorem C04_parser_reports_denotation : forall (tbl : list lang) (d : wdoc) (evs : list event),
  denote tbl d = Some evs ->
  parse tbl (S (length (serialize d))) (serialize d) = POk evs.
Proof.
  intros tbl d evs. apply (parse_denote tbl); [|exact typed_datetime_agree_proved].
  intros l _ _. exact typed_wv_agree_proved.
Qed.
Print Assumptions C04_parser_reports_denotation.

(* the same with a FORCED language (wbxml_parser_set_language, wbxml2xml -l, what wbxml_tree_from_wbxml passes on):
   FULL.  The public identifier is read and not consulted; the language is the table's first entry with the
   forced id (Spec.denote_with tbl (Some L)). *)
Theorem C04_parser_reports_denotation_forced : forall (tbl : list lang) (L : lang) (d : wdoc) (evs : list event),
  l_id L <> 0 -> find (fun x => l_id x =? l_id L) tbl = Some L ->
  denote_with tbl (Some L) d = Some evs ->
  parse_with tbl (l_id L) 0 (S (length (serialize d))) (serialize d) = POk evs.
Proof.
  intros tbl L d evs Hid Hfind H.
  apply (parse_denote_with tbl (fun l _ _ => typed_wv_agree_proved) typed_datetime_agree_proved (l_id L) (Some L) d evs); [|exact H].
  split; [reflexivity|]. split; [exact Hid|exact Hfind].
Qed.
Print Assumptions C04_parser_reports_denotation_forced.

Theorem C04_wf_documents_parse : forall tbl d, wf tbl d ->
  exists evs, denote tbl d = Some evs /\ parse tbl (S (length (serialize d))) (serialize d) = POk evs.
Proof.
  intros tbl d Hwf. unfold wf in Hwf. destruct (denote tbl d) as [evs|] eqn:E; [|congruence].
  exists evs. split; [reflexivity|].
  apply (parse_denote tbl); [|exact typed_datetime_agree_proved|exact E]. intros l _ _. exact typed_wv_agree_proved.
Qed.
Print Assumptions C04_wf_documents_parse.

(* the Wireless Village opaque integer / date-time decoders agree with their specification *)
Theorem C04_wv_typed_decoders : forall cur d o, bytes_okb d = true ->
  spec_opaque (opaque_kind 2301 cur) d = Some o -> decode_wv_content cur d = POk o.
Proof. exact typed_wv_agree_proved. Qed.
Print Assumptions C04_wv_typed_decoders.

(* the SI / EMN %Datetime decoder agrees with its specification (discharges the second typed premise) *)
Theorem C04_datetime_attribute_decoder : forall v o, spec_datetime v = Some o -> decode_datetime v = POk o.
Proof. exact typed_datetime_agree_proved. Qed.
Print Assumptions C04_datetime_attribute_decoder.

(* sub-layer, FULL: one element (any nesting, attributes, content) from any parser state that corresponds to the
   specification's state, with whatever bytes follow *)
Theorem C04_element :
  forall l tb ver cs, cs_ok cs ->
  forall sw tag attrs hasc items depth parent dst evs dst' fuel r,
    den_item (mk_denv l tb) depth parent (WItemElt sw tag attrs hasc items) dst = Some (evs, dst') ->
    (length (ser_item (WItemElt sw tag attrs hasc items)) <= fuel)%nat ->
    parse_element_with fuel (penv_of l tb ver cs) (content_loop fuel (penv_of l tb ver cs) depth)
                       (pst dst (ser_item (WItemElt sw tag attrs hasc items) ++ r)) = POk (evs, pst dst' r).
Proof.
  intros l tb ver cs Hcs sw tag attrs hasc items.
  exact (element_ok l tb ver cs Hcs (fun _ => typed_wv_agree_proved) typed_datetime_agree_proved sw tag attrs hasc items).
Qed.
Print Assumptions C04_element.

(* THE STRICT DECODER IS A PROVED ORACLE (FULL, no premise, every table).
   Spec.decode = unser (pure grammar reader: shortest-form integers, no trailing bytes) + strict_doc (terminated
   string table, references only to entry starts, no switchPage before an extension) + denote.
   On the serialization of a strict well-formed document it returns exactly denote of that document ... *)
Theorem C04_strict_reader_inverts_serialize : forall tbl forced d evs,
  denote_with tbl forced d = Some evs -> unser (serialize d) = Some d.
Proof. exact unser_serialize. Qed.
Print Assumptions C04_strict_reader_inverts_serialize.

Theorem C04_strict_decoder_roundtrip : forall tbl d evs,
  denote tbl d = Some evs -> strict_doc d = true -> decode tbl (serialize d) = Some evs.
Proof. exact decode_serialize. Qed.
Print Assumptions C04_strict_decoder_roundtrip.

(* ... also when the caller names the language (as the users of the encoder do) ... *)
Theorem C04_strict_decoder_lang_roundtrip : forall tbl id d evs,
  denote_with tbl (find (fun l => l_id l =? id) tbl) d = Some evs -> strict_doc d = true ->
  decode_lang tbl id (serialize d) = Some evs.
Proof. exact decode_lang_serialize. Qed.
Print Assumptions C04_strict_decoder_lang_roundtrip.

(* ... and whatever it accepts is the denotation of a strict document that it read from those bytes *)
Theorem C04_strict_decoder_sound : forall tbl bs evs, decode tbl bs = Some evs ->
  exists d, unser bs = Some d /\ strict_doc d = true /\ denote tbl d = Some evs.
Proof. exact decode_sound. Qed.
Print Assumptions C04_strict_decoder_sound.

(* string-table references: any offset inside the table, also mid-string and into an unterminated tail *)
Theorem C04_string_table_reference : forall l tb ver cs i s, cs_ok cs -> str_at tb i = Some s ->
  get_strtbl_reference (penv_of l tb ver cs) i = POk s.
Proof. exact strtbl_ref_ok. Qed.
Print Assumptions C04_string_table_reference.

(* non-vacuity: a concrete WML 1.3 document <wml><card id="a">x</card></wml> is well-formed, and the model runs *)
Definition ex_doc : wdoc :=
  mk_wdoc 3 (PubNum 10) (Some 106) []
    [] (WItemElt None (WTagTok 63) [] true
          [WItemElt None (WTagTok 39) [mk_wattr (AStartTok None 85) [WValStr (WStrI [97])]] true [WItemStr (WStrI [120])]])
    [].
Example C04_ex_serialize : serialize ex_doc = [3; 10; 106; 0; 127; 231; 85; 3; 97; 0; 1; 3; 120; 0; 1; 1].
Proof. vm_compute. reflexivity. Qed.
Example C04_ex_wf : denote main_table ex_doc =
  Some [EvStartDoc 106 1104;
        EvStartElt (TagTok 0 63 (B "wml"%string)) [];
        EvStartElt (TagTok 0 39 (B "card"%string)) [(AttrTok 0 85 (B "id"%string), [97])];
        EvChars [120];
        EvEndElt (TagTok 0 39 (B "card"%string));
        EvEndElt (TagTok 0 63 (B "wml"%string));
        EvEndDoc].
Proof. vm_compute. reflexivity. Qed.
Example C04_ex_parse : parse main_table 17 (serialize ex_doc) = match denote main_table ex_doc with Some e => POk e | None => PFuel end.
Proof. vm_compute. reflexivity. Qed.
(* the premise is satisfiable on concrete values (it is a statement about total functions) *)
Example C04_ex_typed : decode_wv_content (Some (0, 11)) [1; 0] = POk [50; 53; 54]
  /\ spec_opaque (opaque_kind 2301 (Some (0, 11))) [1; 0] = Some [50; 53; 54]
  /\ decode_datetime [25; 153; 6; 37] = POk (B "1999-06-25T00:00:00Z"%string)
  /\ spec_datetime [25; 153; 6; 37] = Some (B "1999-06-25T00:00:00Z"%string).
Proof. vm_compute. repeat split; reflexivity. Qed.

Theorem C04_empty_document_refused : forall tbl fuel, parse tbl fuel [] = PErr PE_EMPTY_WBXML.
Proof. reflexivity. Qed.
Print Assumptions C04_empty_document_refused.

(* ====================================================================================================== *)
(* HISTORY — SUPERSEDED STATEMENTS.  Everything below is still true and still checked, but each theorem is a   *)
(* weaker form of a FULL theorem above and must not be read as the status of the property:                    *)
(*   C04_parser_reports_denotation_partial, C04_parser_reports_denotation_non_wv                              *)
(*                                   -> superseded by C04_parser_reports_denotation (no premise)              *)
(*   C04_wf_documents_parse_partial  -> superseded by C04_wf_documents_parse                                  *)
(*   C04_element_partial             -> superseded by C04_element                                             *)
(* Their premise typed_wv_agree is the theorem C04_wv_typed_decoders.                                         *)
(* ====================================================================================================== *)

(* superseded form, for every table (no hypothesis on the tables is needed: specification and parser both take
   the first row that matches, so a table change cannot break it) and every well-formed document: the parser,
   given one unit of fuel more than the length of the document, delivers exactly the events the specification
   assigns to the abstract document: header (charset, language), elements with token and literal tags under the
   tag page in force, attributes (start-token prefix ++ value tokens, strings, entities, opaque, extensions, under
   the attribute page in force; SI / EMN date-time attributes decoded), character data (STR_I, STR_T at any
   offset, ENTITY -> UTF-8, OPAQUE with the DRMREL / SyncML base64 rules, WML variables, WV extension values),
   PIs, SWITCH_PAGE in both spaces, nesting up to the library's limit.
   FULL for every table that contains no Wireless Village language (C04_parser_reports_denotation_non_wv).
   PARTIAL for WV CSP 1.1 / 1.2 documents only: the premise `typed_wv_agree` (the WV opaque integer / date-time
   decoders agree with their specifications in Spec.v) is not proved here; it is exercised by the correspondence
   check and is the subject of C12. *)
Theorem C04_parser_reports_denotation_partial :
  forall (tbl : list lang),
  (forall l, In l tbl -> (l_id l =? 2301) || (l_id l =? 2302) = true -> typed_wv_agree) ->
  forall (d : wdoc) (evs : list event),
    denote tbl d = Some evs ->
    parse tbl (S (length (serialize d))) (serialize d) = POk evs.
Proof. intros tbl Hwv d evs. exact (parse_denote tbl Hwv typed_datetime_agree_proved d evs). Qed.
Print Assumptions C04_parser_reports_denotation_partial.

(* unconditional when the table has no Wireless Village entry (27 of the 29 languages of main_table) *)
Theorem C04_parser_reports_denotation_non_wv :
  forall (tbl : list lang),
  forallb (fun l => negb ((l_id l =? 2301) || (l_id l =? 2302))) tbl = true ->
  forall (d : wdoc) (evs : list event),
    denote tbl d = Some evs ->
    parse tbl (S (length (serialize d))) (serialize d) = POk evs.
Proof.
  intros tbl Hno d evs. apply (parse_denote tbl); [|exact typed_datetime_agree_proved].
  intros l Hin Hwv. rewrite forallb_forall in Hno. specialize (Hno l Hin). rewrite Hwv in Hno. discriminate.
Qed.
Print Assumptions C04_parser_reports_denotation_non_wv.

(* the same, in the form "wf d -> the events are those of denote" *)
Theorem C04_wf_documents_parse_partial :
  forall tbl, (forall l, In l tbl -> (l_id l =? 2301) || (l_id l =? 2302) = true -> typed_wv_agree) ->
  forall d, wf tbl d -> exists evs, denote tbl d = Some evs /\ parse tbl (S (length (serialize d))) (serialize d) = POk evs.
Proof.
  intros tbl Hwv d Hwf. unfold wf in Hwf. destruct (denote tbl d) as [evs|] eqn:E; [|congruence].
  exists evs. split; [reflexivity|exact (parse_denote tbl Hwv typed_datetime_agree_proved d evs E)].
Qed.
Print Assumptions C04_wf_documents_parse_partial.

(* superseded form of C04_element: one element (any nesting, attributes, content) from any parser state that corresponds to the
   specification's state, with whatever bytes follow *)
Theorem C04_element_partial :
  forall l tb ver cs, cs_ok cs -> ((l_id l =? 2301) || (l_id l =? 2302) = true -> typed_wv_agree) ->
  forall sw tag attrs hasc items depth parent dst evs dst' fuel r,
    den_item (mk_denv l tb) depth parent (WItemElt sw tag attrs hasc items) dst = Some (evs, dst') ->
    (length (ser_item (WItemElt sw tag attrs hasc items)) <= fuel)%nat ->
    parse_element_with fuel (penv_of l tb ver cs) (content_loop fuel (penv_of l tb ver cs) depth)
                       (pst dst (ser_item (WItemElt sw tag attrs hasc items) ++ r)) = POk (evs, pst dst' r).
Proof.
  intros l tb ver cs Hcs Hwv sw tag attrs hasc items.
  exact (element_ok l tb ver cs Hcs Hwv typed_datetime_agree_proved sw tag attrs hasc items).
Qed.
Print Assumptions C04_element_partial.

