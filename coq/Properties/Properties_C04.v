(* C04 — the event parser reports exactly what the WBXML bytes denote.
   Only statements, each closed by `exact`, with Print Assumptions beneath.
   Model: Model/Parser.v (transcription of src/wbxml_parser.c); specification: Model/Spec.v
   (abstract syntax wdoc from the WBXML BNF, serialize, denote; wf tbl d := denote tbl d <> None);
   proofs: Proofs/ParserProofs{Base,Str,Attr,Elt,Doc}.v. *)
From Coq Require Import String.
From Coq Require Import List NArith Bool.
From Wbxml Require Import Model.Codec Model.TablesDefs Gen.TablesData Model.Parser Model.Spec
     Proofs.ParserProofsBase Proofs.ParserProofsStr Proofs.ParserProofsAttr Proofs.ParserProofsElt Proofs.ParserProofsDoc
     Proofs.ParserProofsTyped Proofs.ParserProofsStrict3 Proofs.ParserProofsWv.
Import ListNotations.
Local Open Scope N_scope.

(* MAIN THEOREM — FULL, unconditional (every table, every well-formed document, no premise):
   the parser delivers exactly the events the specification assigns to the abstract document.
   (The theorems below named _partial / _non_wv are the earlier, weaker forms, kept for reference: their
   premise typed_wv_agree is now a theorem, C04_wv_typed_decoders.) *)
Theorem C04_parser_reports_denotation : forall (tbl : list lang) (d : wdoc) (evs : list event),
  denote tbl d = Some evs ->
  parse tbl (S (length (serialize d))) (serialize d) = POk evs.
Proof.
  intros tbl d evs. apply (parse_denote tbl); [|exact typed_datetime_agree_proved].
  intros l _ _. exact typed_wv_agree_proved.
Qed.
Print Assumptions C04_parser_reports_denotation.

(* the same with a FORCED language (wbxml_parser_set_language, wbxml2xml -l, what wbxml_tree_from_wbxml passes on):
   FULL.  The public identifier is read and not consulted; the language is the table's first entry with the
   forced id (Spec.denote_with tbl (Some L)). *)
Theorem C04_parser_reports_denotation_forced : forall (tbl : list lang) (L : lang) (d : wdoc) (evs : list event),
  l_id L <> 0 -> find (fun x => l_id x =? l_id L) tbl = Some L ->
  denote_with tbl (Some L) d = Some evs ->
  parse_with tbl (l_id L) 0 (S (length (serialize d))) (serialize d) = POk evs.
Proof.
  intros tbl L d evs Hid Hfind H.
  apply (parse_denote_with tbl (fun l _ _ => typed_wv_agree_proved) typed_datetime_agree_proved (l_id L) (Some L) d evs); [|exact H].
  split; [reflexivity|]. split; [exact Hid|exact Hfind].
Qed.
Print Assumptions C04_parser_reports_denotation_forced.

Theorem C04_wf_documents_parse : forall tbl d, wf tbl d ->
  exists evs, denote tbl d = Some evs /\ parse tbl (S (length (serialize d))) (serialize d) = POk evs.
Proof.
  intros tbl d Hwf. unfold wf in Hwf. destruct (denote tbl d) as [evs|] eqn:E; [|congruence].
  exists evs. split; [reflexivity|].
  apply (parse_denote tbl); [|exact typed_datetime_agree_proved|exact E]. intros l _ _. exact typed_wv_agree_proved.
Qed.
Print Assumptions C04_wf_documents_parse.

(* the Wireless Village opaque integer / date-time decoders agree with their specification *)
Theorem C04_wv_typed_decoders : forall cur d o, bytes_okb d = true ->
  spec_opaque (opaque_kind 2301 cur) d = Some o -> decode_wv_content cur d = POk o.
Proof. exact typed_wv_agree_proved. Qed.
Print Assumptions C04_wv_typed_decoders.

(* the SI / EMN %Datetime decoder agrees with its specification (discharges the second typed premise) *)
Theorem C04_datetime_attribute_decoder : forall v o, spec_datetime v = Some o -> decode_datetime v = POk o.
Proof. exact typed_datetime_agree_proved. Qed.
Print Assumptions C04_datetime_attribute_decoder.

(* sub-layer, FULL: one element (any nesting, attributes, content) from any parser state that corresponds to the
   specification's state, with whatever bytes follow *)
Theorem C04_element :
  forall l tb ver cs, cs_ok cs ->
  forall sw tag attrs hasc items depth parent dst evs dst' fuel r,
    den_item (mk_denv l tb) depth parent (WItemElt sw tag attrs hasc items) dst = Some (evs, dst') ->
    (length (ser_item (WItemElt sw tag attrs hasc items)) <= fuel)%nat ->
    parse_element_with fuel (penv_of l tb ver cs) (content_loop fuel (penv_of l tb ver cs) depth)
                       (pst dst (ser_item (WItemElt sw tag attrs hasc items) ++ r)) = POk (evs, pst dst' r).
Proof.
  intros l tb ver cs Hcs sw tag attrs hasc items.
  exact (element_ok l tb ver cs Hcs (fun _ => typed_wv_agree_proved) typed_datetime_agree_proved sw tag attrs hasc items).
Qed.
Print Assumptions C04_element.

(* THE STRICT DECODER IS A PROVED ORACLE (FULL, no premise, every table).
   Spec.decode = unser (pure grammar reader: shortest-form integers, no trailing bytes) + strict_doc (terminated
   string table, references only to entry starts, no switchPage before an extension) + denote.
   On the serialization of a strict well-formed document it returns exactly denote of that document ... *)
Theorem C04_strict_reader_inverts_serialize : forall tbl forced d evs,
  denote_with tbl forced d = Some evs -> unser (serialize d) = Some d.
Proof. exact unser_serialize. Qed.
Print Assumptions C04_strict_reader_inverts_serialize.

Theorem C04_strict_decoder_roundtrip : forall tbl d evs,
  denote tbl d = Some evs -> strict_doc d = true -> decode tbl (serialize d) = Some evs.
Proof. exact decode_serialize. Qed.
Print Assumptions C04_strict_decoder_roundtrip.

(* ... also when the caller names the language (as the users of the encoder do) ... *)
Theorem C04_strict_decoder_lang_roundtrip : forall tbl id d evs,
  denote_with tbl (find (fun l => l_id l =? id) tbl) d = Some evs -> strict_doc d = true ->
  decode_lang tbl id (serialize d) = Some evs.
Proof. exact decode_lang_serialize. Qed.
Print Assumptions C04_strict_decoder_lang_roundtrip.

(* ... and whatever it accepts is the denotation of a strict document that it read from those bytes *)
Theorem C04_strict_decoder_sound : forall tbl bs evs, decode tbl bs = Some evs ->
  exists d, unser bs = Some d /\ strict_doc d = true /\ denote tbl d = Some evs.
Proof. exact decode_sound. Qed.
Print Assumptions C04_strict_decoder_sound.

(* string-table references: any offset inside the table, also mid-string and into an unterminated tail *)
Theorem C04_string_table_reference : forall l tb ver cs i s, cs_ok cs -> str_at tb i = Some s ->
  get_strtbl_reference (penv_of l tb ver cs) i = POk s.
Proof. exact strtbl_ref_ok. Qed.
Print Assumptions C04_string_table_reference.

(* non-vacuity: a concrete WML 1.3 document <wml><card id="a">x</card></wml> is well-formed, and the model runs *)
Definition ex_doc : wdoc :=
  mk_wdoc 3 (PubNum 10) (Some 106) []
    [] (WItemElt None (WTagTok 63) [] true
          [WItemElt None (WTagTok 39) [mk_wattr (AStartTok None 85) [WValStr (WStrI [97])]] true [WItemStr (WStrI [120])]])
    [].
Example C04_ex_serialize : serialize ex_doc = [3; 10; 106; 0; 127; 231; 85; 3; 97; 0; 1; 3; 120; 0; 1; 1].
Proof. vm_compute. reflexivity. Qed.
Example C04_ex_wf : denote main_table ex_doc =
  Some [EvStartDoc 106 1104;
        EvStartElt (TagTok 0 63 (B "wml"%string)) [];
        EvStartElt (TagTok 0 39 (B "card"%string)) [(AttrTok 0 85 (B "id"%string), [97])];
        EvChars [120];
        EvEndElt (TagTok 0 39 (B "card"%string));
        EvEndElt (TagTok 0 63 (B "wml"%string));
        EvEndDoc].
Proof. vm_compute. reflexivity. Qed.
Example C04_ex_parse : parse main_table 17 (serialize ex_doc) = match denote main_table ex_doc with Some e => POk e | None => PFuel end.
Proof. vm_compute. reflexivity. Qed.
(* non-vacuity per language family (props/C04/NOTES.md, "What wf demands"): one well-formed document each, with the
   constructs that only that family has; every one is parsed to its denotation by the model (C04_ex_families_parse). *)
(* SI: attribute start token with a value prefix, attribute value token, %Datetime attribute as opaque BCD *)
Definition ex_si : wdoc := mk_wdoc 3 (PubNum 5) (Some 106) [] []
  (WItemElt None (WTagTok 5) [] true
     [WItemElt None (WTagTok 6) [mk_wattr (AStartTok None 12) [WValStr (WStrI [97]); WValTok None 133];
                                 mk_wattr (AStartTok None 10) [WValStr (WOpaque [25; 153; 6; 37])]] true [WItemStr (WStrI [120])]]) [].
Example C04_ex_si : serialize ex_si = [3; 5; 106; 0; 69; 198; 12; 3; 97; 0; 133; 10; 195; 4; 25; 153; 6; 37; 1; 3; 120; 0; 1; 1]
  /\ denote main_table ex_si =
  Some [EvStartDoc 106 1301; EvStartElt (TagTok 0 5 (B "si"%string)) [];
        EvStartElt (TagTok 0 6 (B "indication"%string))
          [(AttrTok 0 12 (B "href"%string), B "http://a.com/"%string); (AttrTok 0 10 (B "created"%string), B "1999-06-25T00:00:00Z"%string)];
        EvChars [120]; EvEndElt (TagTok 0 6 (B "indication"%string)); EvEndElt (TagTok 0 5 (B "si"%string)); EvEndDoc].
Proof. vm_compute. split; reflexivity. Qed.

(* EMN: an element without content, timestamp attribute with all six octets *)
Definition ex_emn : wdoc := mk_wdoc 3 (PubNum 13) (Some 106) [] []
  (WItemElt None (WTagTok 5) [mk_wattr (AStartTok None 7) [WValStr (WStrI [97])];
                              mk_wattr (AStartTok None 5) [WValStr (WOpaque [32; 1; 18; 49; 9; 5])]] false []) [].
Example C04_ex_emn : denote main_table ex_emn =
  Some [EvStartDoc 106 1701;
        EvStartElt (TagTok 0 5 (B "emn"%string))
          [(AttrTok 0 7 (B "mailbox"%string), B "mailat:a"%string); (AttrTok 0 5 (B "timestamp"%string), B "2001-12-31T09:05:00Z"%string)];
        EvEndElt (TagTok 0 5 (B "emn"%string)); EvEndDoc].
Proof. vm_compute. reflexivity. Qed.

(* Wireless Village CSP 1.1: opaque integer, opaque date-time, extension value token (EXT_T_0) *)
Definition ex_wv : wdoc := mk_wdoc 3 (PubNum 16) (Some 106) [] []
  (WItemElt None (WTagTok 5) [] true
     [WItemElt None (WTagTok 11) [] true [WItemStr (WOpaque [1; 0])];
      WItemElt None (WTagTok 17) [] true [WItemStr (WOpaque [31; 70; 52; 130; 5; 90])];
      WItemStr (WExt None (ExtT 0 48))]) [].
Example C04_ex_wv : denote main_table ex_wv =
  Some [EvStartDoc 106 2301; EvStartElt (TagTok 0 5 (B "Acceptance"%string)) [];
        EvStartElt (TagTok 0 11 (B "Code"%string)) []; EvChars (B "256"%string); EvEndElt (TagTok 0 11 (B "Code"%string));
        EvStartElt (TagTok 0 17 (B "DateTime"%string)) []; EvChars (B "20010826T080805Z"%string); EvEndElt (TagTok 0 17 (B "DateTime"%string));
        EvChars (B "www.wireless-village.org"%string);
        EvEndElt (TagTok 0 5 (B "Acceptance"%string)); EvEndDoc].
Proof. vm_compute. reflexivity. Qed.

(* SyncML 1.1: SWITCH_PAGE to MetInf and back, NextNonce opaque as base64, ENTITY as UTF-8 *)
Definition ex_syncml : wdoc := mk_wdoc 2 (PubNum 4051) (Some 106) [] []
  (WItemElt None (WTagTok 45) [] true
     [WItemElt None (WTagTok 9) [] true
        [WItemElt None (WTagTok 26) [] true
           [WItemElt (Some 1) (WTagTok 16) [] true [WItemStr (WOpaque [1; 2; 3])];
            WItemElt None (WTagTok 19) [] true [WItemStr (WStrI [97])]]];
      WItemElt (Some 0) (WTagTok 15) [] true [WItemStr (WEntity 233)]]) [].
Example C04_ex_syncml : denote main_table ex_syncml =
  Some [EvStartDoc 106 2101; EvStartElt (TagTok 0 45 (B "SyncML"%string)) []; EvStartElt (TagTok 0 9 (B "Chal"%string)) [];
        EvStartElt (TagTok 0 26 (B "Meta"%string)) [];
        EvStartElt (TagTok 1 16 (B "NextNonce"%string)) []; EvChars (B "AQID"%string); EvEndElt (TagTok 1 16 (B "NextNonce"%string));
        EvStartElt (TagTok 1 19 (B "Type"%string)) []; EvChars [97]; EvEndElt (TagTok 1 19 (B "Type"%string));
        EvEndElt (TagTok 0 26 (B "Meta"%string)); EvEndElt (TagTok 0 9 (B "Chal"%string));
        EvStartElt (TagTok 0 15 (B "Data"%string)) []; EvChars [195; 169]; EvEndElt (TagTok 0 15 (B "Data"%string));
        EvEndElt (TagTok 0 45 (B "SyncML"%string)); EvEndDoc].
Proof. vm_compute. reflexivity. Qed.

(* DRMREL: ds:KeyValue opaque as base64 *)
Definition ex_drm : wdoc := mk_wdoc 3 (PubNum 14) (Some 106) [] []
  (WItemElt None (WTagTok 5) [] true [WItemElt None (WTagTok 12) [] true [WItemStr (WOpaque [255; 0; 16])]]) [].
Example C04_ex_drm : denote main_table ex_drm =
  Some [EvStartDoc 106 1801; EvStartElt (TagTok 0 5 (B "o-ex:rights"%string)) [];
        EvStartElt (TagTok 0 12 (B "ds:KeyValue"%string)) []; EvChars (B "/wAQ"%string); EvEndElt (TagTok 0 12 (B "ds:KeyValue"%string));
        EvEndElt (TagTok 0 5 (B "o-ex:rights"%string)); EvEndDoc].
Proof. vm_compute. reflexivity. Qed.

(* a language that has no numeric public identifier (WV CSP 1.2): textual identifier in the string table, a LITERAL
   tag, string-table references (one into the middle of a string, into the unterminated tail of the table) *)
Definition ex_txt : wdoc :=
  mk_wdoc 3 (PubIdx 0) (Some 106) (B "-//OMA//DTD WV-CSP 1.2//EN"%string ++ [0] ++ B "x-tag"%string ++ [0] ++ B "hello"%string) []
    (WItemElt None (WTagLit 27) [] true [WItemStr (WStrT 33); WItemStr (WStrT 35)]) [].
Example C04_ex_txt : denote main_table ex_txt =
  Some [EvStartDoc 106 2302; EvStartElt (TagLit (B "x-tag"%string)) []; EvChars (B "hello"%string); EvChars (B "llo"%string);
        EvEndElt (TagLit (B "x-tag"%string)); EvEndDoc].
Proof. vm_compute. reflexivity. Qed.

(* OTA settings: no public identifier selects it (numeric 1 = unknown, no text): not well-formed unless the caller
   forces the language; opaque ATTRIBUTE value as base64 *)
Definition ex_ota : wdoc := mk_wdoc 1 (PubNum 1) (Some 106) [] []
  (WItemElt None (WTagTok 5) [] true [WItemElt None (WTagTok 6) [mk_wattr (AStartTok None 6) []] true
      [WItemElt None (WTagTok 7) [mk_wattr (AStartTok None 16) [WValStr (WStrI [97])]; mk_wattr (AStartTok None 17) [WValStr (WOpaque [1;2;3])]] false []]]) [].
Example C04_ex_ota : denote main_table ex_ota = None
  /\ denote_with main_table (find (fun l => l_id l =? 1901) main_table) ex_ota =
  Some [EvStartDoc 106 1901; EvStartElt (TagTok 0 5 (B "CHARACTERISTIC-LIST"%string)) [];
        EvStartElt (TagTok 0 6 (B "CHARACTERISTIC"%string)) [(AttrTok 0 6 (B "TYPE"%string), B "ADDRESS"%string)];
        EvStartElt (TagTok 0 7 (B "PARM"%string)) [(AttrTok 0 16 (B "NAME"%string), [97]); (AttrTok 0 17 (B "VALUE"%string), B "AQID"%string)];
        EvEndElt (TagTok 0 7 (B "PARM"%string)); EvEndElt (TagTok 0 6 (B "CHARACTERISTIC"%string));
        EvEndElt (TagTok 0 5 (B "CHARACTERISTIC-LIST"%string)); EvEndDoc].
Proof. vm_compute. split; reflexivity. Qed.

Example C04_ex_families_parse :
  forallb (fun d => match denote main_table d with
                    | Some evs => match parse main_table (S (length (serialize d))) (serialize d) with POk e => true | _ => false end
                    | None => false end) [ex_si; ex_emn; ex_wv; ex_syncml; ex_drm; ex_txt] = true
  /\ parse_with main_table 1901 0 (S (length (serialize ex_ota))) (serialize ex_ota)
     = match denote_with main_table (find (fun l => l_id l =? 1901) main_table) ex_ota with Some e => POk e | None => PFuel end.
Proof. vm_compute. split; reflexivity. Qed.

(* the premise is satisfiable on concrete values (it is a statement about total functions) *)
Example C04_ex_typed : decode_wv_content (Some (0, 11)) [1; 0] = POk [50; 53; 54]
  /\ spec_opaque (opaque_kind 2301 (Some (0, 11))) [1; 0] = Some [50; 53; 54]
  /\ decode_datetime [25; 153; 6; 37] = POk (B "1999-06-25T00:00:00Z"%string)
  /\ spec_datetime [25; 153; 6; 37] = Some (B "1999-06-25T00:00:00Z"%string).
Proof. vm_compute. repeat split; reflexivity. Qed.

Theorem C04_empty_document_refused : forall tbl fuel, parse tbl fuel [] = PErr PE_EMPTY_WBXML.
Proof. reflexivity. Qed.
Print Assumptions C04_empty_document_refused.

(* ====================================================================================================== *)
(* HISTORY — SUPERSEDED STATEMENTS.  Everything below is still true and still checked, but each theorem is a   *)
(* weaker form of a FULL theorem above and must not be read as the status of the property:                    *)
(*   C04_parser_reports_denotation_partial, C04_parser_reports_denotation_non_wv                              *)
(*                                   -> superseded by C04_parser_reports_denotation (no premise)              *)
(*   C04_wf_documents_parse_partial  -> superseded by C04_wf_documents_parse                                  *)
(*   C04_element_partial             -> superseded by C04_element                                             *)
(* Their premise typed_wv_agree is the theorem C04_wv_typed_decoders.                                         *)
(* ====================================================================================================== *)

(* superseded form, for every table (no hypothesis on the tables is needed: specification and parser both take
   the first row that matches, so a table change cannot break it) and every well-formed document: the parser,
   given one unit of fuel more than the length of the document, delivers exactly the events the specification
   assigns to the abstract document: header (charset, language), elements with token and literal tags under the
   tag page in force, attributes (start-token prefix ++ value tokens, strings, entities, opaque, extensions, under
   the attribute page in force; SI / EMN date-time attributes decoded), character data (STR_I, STR_T at any
   offset, ENTITY -> UTF-8, OPAQUE with the DRMREL / SyncML base64 rules, WML variables, WV extension values),
   PIs, SWITCH_PAGE in both spaces, nesting up to the library's limit.
   FULL for every table that contains no Wireless Village language (C04_parser_reports_denotation_non_wv).
   PARTIAL for WV CSP 1.1 / 1.2 documents only: the premise `typed_wv_agree` (the WV opaque integer / date-time
   decoders agree with their specifications in Spec.v) is not proved here; it is exercised by the correspondence
   check and is the subject of C12. *)
Theorem C04_parser_reports_denotation_partial :
  forall (tbl : list lang),
  (forall l, In l tbl -> (l_id l =? 2301) || (l_id l =? 2302) = true -> typed_wv_agree) ->
  forall (d : wdoc) (evs : list event),
    denote tbl d = Some evs ->
    parse tbl (S (length (serialize d))) (serialize d) = POk evs.
Proof. intros tbl Hwv d evs. exact (parse_denote tbl Hwv typed_datetime_agree_proved d evs). Qed.
Print Assumptions C04_parser_reports_denotation_partial.

(* unconditional when the table has no Wireless Village entry (27 of the 29 languages of main_table) *)
Theorem C04_parser_reports_denotation_non_wv :
  forall (tbl : list lang),
  forallb (fun l => negb ((l_id l =? 2301) || (l_id l =? 2302))) tbl = true ->
  forall (d : wdoc) (evs : list event),
    denote tbl d = Some evs ->
    parse tbl (S (length (serialize d))) (serialize d) = POk evs.
Proof.
  intros tbl Hno d evs. apply (parse_denote tbl); [|exact typed_datetime_agree_proved].
  intros l Hin Hwv. rewrite forallb_forall in Hno. specialize (Hno l Hin). rewrite Hwv in Hno. discriminate.
Qed.
Print Assumptions C04_parser_reports_denotation_non_wv.

(* the same, in the form "wf d -> the events are those of denote" *)
Theorem C04_wf_documents_parse_partial :
  forall tbl, (forall l, In l tbl -> (l_id l =? 2301) || (l_id l =? 2302) = true -> typed_wv_agree) ->
  forall d, wf tbl d -> exists evs, denote tbl d = Some evs /\ parse tbl (S (length (serialize d))) (serialize d) = POk evs.
Proof.
  intros tbl Hwv d Hwf. unfold wf in Hwf. destruct (denote tbl d) as [evs|] eqn:E; [|congruence].
  exists evs. split; [reflexivity|exact (parse_denote tbl Hwv typed_datetime_agree_proved d evs E)].
Qed.
Print Assumptions C04_wf_documents_parse_partial.

(* superseded form of C04_element: one element (any nesting, attributes, content) from any parser state that corresponds to the
   specification's state, with whatever bytes follow *)
Theorem C04_element_partial :
  forall l tb ver cs, cs_ok cs -> ((l_id l =? 2301) || (l_id l =? 2302) = true -> typed_wv_agree) ->
  forall sw tag attrs hasc items depth parent dst evs dst' fuel r,
    den_item (mk_denv l tb) depth parent (WItemElt sw tag attrs hasc items) dst = Some (evs, dst') ->
    (length (ser_item (WItemElt sw tag attrs hasc items)) <= fuel)%nat ->
    parse_element_with fuel (penv_of l tb ver cs) (content_loop fuel (penv_of l tb ver cs) depth)
                       (pst dst (ser_item (WItemElt sw tag attrs hasc items) ++ r)) = POk (evs, pst dst' r).
Proof.
  intros l tb ver cs Hcs Hwv sw tag attrs hasc items.
  exact (element_ok l tb ver cs Hcs Hwv typed_datetime_agree_proved sw tag attrs hasc items).
Qed.
Print Assumptions C04_element_partial.

