(* C04 — the event parser reports exactly what the WBXML bytes denote.
   Only statements, each closed by `exact`, with Print Assumptions beneath.
   Model: Model/Parser.v (transcription of src/wbxml_parser.c). *)
From Coq Require Import String.
From Coq Require Import List NArith.
From Wbxml Require Import Model.Codec Model.TablesDefs Gen.TablesData Model.Parser.
Import ListNotations.
Local Open Scope N_scope.

(* layer 0: the model runs; a concrete WML 1.3 document <wml><card id="a">x</card></wml> *)
Example C04_ex_wml :
  parse main_table 30 [3; 10; 106; 0; 127; 231; 85; 3; 97; 0; 1; 3; 120; 0; 1; 1]
  = POk [EvStartDoc 106 1104;
         EvStartElt (TagTok 0 63 (B "wml"%string)) [];
         EvStartElt (TagTok 0 39 (B "card"%string)) [(AttrTok 0 85 (B "id"%string), [97])];
         EvChars [120];
         EvEndElt (TagTok 0 39 (B "card"%string));
         EvEndElt (TagTok 0 63 (B "wml"%string));
         EvEndDoc].
Proof. vm_compute. reflexivity. Qed.

Theorem C04_empty_document_refused : forall tbl fuel, parse tbl fuel [] = PErr PE_EMPTY_WBXML.
Proof. reflexivity. Qed.
Print Assumptions C04_empty_document_refused.
