(* C11 — Multi-byte integers, base64, hex and character entities are exact inverses.
   Only statements, each closed by `exact`, with Print Assumptions beneath.
   Model: Model/Codec.v (transcriptions of the C); proofs: Proofs/CodecProofs.v. *)
From Coq Require Import List NArith.
From Wbxml Require Import Model.Codec Proofs.CodecProofs.
Import ListNotations.
Local Open Scope N_scope.

Definition bytes_ok (bs : list N) : Prop := Forall (fun b => b < 256) bs.

(* every 32-bit value is read back unchanged, whatever follows it *)
Theorem C11_mb_roundtrip : forall v r, v < 4294967296 -> mb_read (mb_write v ++ r) = Ok (v, r).
Proof. exact mb_roundtrip. Qed.
Print Assumptions C11_mb_roundtrip.

(* ... in the shortest 1-5 byte form: mb_len v is the least k with v < 128^k *)
Theorem C11_mb_shortest : forall v, v < 4294967296 ->
  length (mb_write v) = mb_len v /\
  v < 128 ^ N.of_nat (mb_len v) /\ ((1 < mb_len v)%nat -> 128 ^ N.of_nat (mb_len v - 1) <= v) /\
  ((1 < mb_len v)%nat -> hd 0 (mb_write v) <> 128).
Proof.
  intros v Hv. split; [exact (mb_write_length v Hv)|].
  split; [exact (proj1 (mb_len_least v Hv))|].
  split; [exact (proj2 (mb_len_least v Hv)) | exact (mb_write_no_leading_zero v Hv)].
Qed.
Print Assumptions C11_mb_shortest.

(* an integer that runs to a sixth byte is rejected (the sixth byte is not even looked at) *)
Theorem C11_mb_sixth_byte_rejected : forall b1 b2 b3 b4 b5 r,
  128 <= b1 < 256 -> 128 <= b2 < 256 -> 128 <= b3 < 256 -> 128 <= b4 < 256 -> 128 <= b5 < 256 ->
  mb_read (b1 :: b2 :: b3 :: b4 :: b5 :: r) = Err E_UNVALID_MBUINT32.
Proof. exact mb_read_six. Qed.
Print Assumptions C11_mb_sixth_byte_rejected.

(* base64 encoding equals RFC 4648 (the C refuses the empty string: b64_enc [] = None) *)
Theorem C11_base64_is_rfc4648 : forall bs out, bytes_ok bs -> b64_enc bs = Some out -> out = rfc4648 bs.
Proof. exact b64_enc_rfc. Qed.
Print Assumptions C11_base64_is_rfc4648.

Theorem C11_base64_total : forall bs, bs <> [] -> exists out, b64_enc bs = Some out.
Proof. exact b64_enc_total. Qed.
Print Assumptions C11_base64_total.

(* decoding inverts encoding for every byte string *)
Theorem C11_base64_roundtrip : forall bs out, bytes_ok bs -> b64_enc bs = Some out -> b64_dec out = Some bs.
Proof. exact b64_enc_dec. Qed.
Print Assumptions C11_base64_roundtrip.

(* binary-to-hex and hex-to-binary are inverse, both ways *)
Theorem C11_hex_roundtrip : forall up bs, bytes_ok bs -> hex_to_bin (bin_to_hex up bs) = bs.
Proof. exact hex_roundtrip. Qed.
Print Assumptions C11_hex_roundtrip.

Theorem C11_hex_back : forall cs, bytes_ok cs -> forallb is_hex_digit cs = true -> even_len cs = true ->
  bin_to_hex true (hex_to_bin cs) = map to_upper_hex cs.
Proof. exact hex_back. Qed.
Print Assumptions C11_hex_back.

(* a character entity for any Unicode scalar value is delivered as exactly its UTF-8 encoding.
   U+0000 is excluded: the value travels as a C string (entity_utf8 0 = Ok [] — known finding D11). *)
Theorem C11_entity_utf8 : forall c, is_scalar c = true -> c <> 0 -> entity_utf8 c = Ok (utf8_spec c).
Proof. exact entity_utf8_scalar. Qed.
Print Assumptions C11_entity_utf8.

Theorem C11_entity_reject_high : forall c, 2147483648 <= c -> entity_utf8 c = Err E_INVALID_UNICODE.
Proof. exact entity_utf8_reject. Qed.
Print Assumptions C11_entity_reject_high.

(* non-vacuity: concrete instances of the hypotheses and of the functions *)
Example C11_ex_mb : mb_write 4294967295 = [143; 255; 255; 255; 127] /\ mb_write 128 = [129; 0] /\ mb_write 0 = [0].
Proof. repeat split; reflexivity. Qed.
Example C11_ex_utf8 : entity_utf8 2048 = Ok [224; 160; 128] /\ entity_utf8 65536 = Ok [240; 144; 128; 128]
  /\ is_scalar 2048 = true /\ is_scalar 55296 = false.
Proof. repeat split; reflexivity. Qed.
Example C11_ex_b64 : b64_enc [102; 111; 111; 98] = Some [90; 109; 57; 118; 89; 103; 61; 61].
Proof. reflexivity. Qed.
