(* C01 (whole WBXML -> XML conversion, over Model/ConvConcrete.v): wbxml2xml_model = Conv.conv_run instantiated with
   the parser (Model/Parser.v) + tree builder (Model/TreeBuild.v) and the XML generator (Model/EncXml.v) on the
   converted tree (Model/TreeConv.v).  Only statements, each closed by `exact`, with Print Assumptions beneath.
   Proofs: Proofs/ConvProofs.v (contract, generic), Proofs/ConvConcreteProofs.v, Proofs/TreeBuildSize.v,
   Proofs/ConvCostXml.v, Proofs/ParserCount.v.  Tie: vlib/convmodel.py (driver C01c against harness/c01_harness.c). *)
From Coq Require Import String.
From Coq Require Import List NArith.
From Wbxml Require Import Model.Codec Model.TablesDefs Gen.TablesData Model.Parser Model.TreeBuild Model.TreeConv
     Model.Conv Model.ConvConcrete Proofs.ConvProofs Proofs.ParserGrowth Proofs.ParserCount Proofs.ParserCharsMax Proofs.TreeBuildProofs3
     Proofs.TreeBuildSize Proofs.ConvCostXml Proofs.ConvConcreteProofs.
From Wbxml Require Model.EncXml.
Import ListNotations.
Local Open Scope N_scope.

(* (a) FULL.  The result contract of wbxml_conv_wbxml2xml_run for the concrete conversion: on success an output block
   that is the document followed by one NUL and a length that is the document's; otherwise no output, length 0. *)
Theorem C01c_result_contract : forall tbl o doc,
  contract (wbxml2xml_model tbl o doc).
Proof. exact (fun tbl o doc => conv_run_contract wtree w2x_opts (w2x_tree_from_doc tbl) (w2x_encode tbl) o doc). Qed.
Print Assumptions C01c_result_contract.

(* success exactly when the document is not empty, the parser + tree builder give a tree and the generator accepts it *)
Theorem C01c_status_ok_iff : forall tbl o doc,
  r_status (wbxml2xml_model tbl o doc) = ST_OK <->
  doc <> [] /\ exists t out, w2x_tree_from_doc tbl o doc = inl t /\ w2x_encode tbl o t = inl out.
Proof. exact (fun tbl o doc => conv_run_status wtree w2x_opts (w2x_tree_from_doc tbl) (w2x_encode tbl) o doc). Qed.
Print Assumptions C01c_status_ok_iff.

(* (b) TOTALITY, FULL.  The model is a total function; what has to be shown is that fuel is never the reason for a
   result.  The parser gets S (length doc) and every embedded document S (its own length): never exhausted
   (C01p_total_linear_fuel).  The tree builder recurses structurally in the number of embedding levels still
   allowed (WBXML_MAX_EMBEDDED_DEPTH = 1 since the repair of the embedded-document finding: only a top-level
   document may embed documents), the tree conversion and the generator structurally in the tree.  Hence, for every
   table, option tuple and byte string, the status is OK or one of the library's error codes. *)
Theorem C01c_never_out_of_fuel : forall tbl o doc,
  r_status (wbxml2xml_model tbl o doc) <> ST_ERR MODEL_FUEL.
Proof. exact model_never_fuel. Qed.
Print Assumptions C01c_never_out_of_fuel.

Theorem C01c_tree_builder_total : forall tbl forced meta levels bs,
  tree_from_wbxml tbl forced meta levels bs <> BFuel.
Proof. exact tree_from_wbxml_total. Qed.
Print Assumptions C01c_tree_builder_total.

(* (c) SIZE, degree 4 (kept; superseded by the degree-3 bound (c') below, which is smaller at every evaluated size and grows one degree slower), FULL for the model
   (every table, option tuple and byte string).  With n = |doc|, K = Kmax (longest table
   string), E(n) = n (2 n + 2 K + 122) (the bound of C01p_growth on the total size of the events), C = 2 * 255 *
   (indent mod 256 + 1) + 2 K + Kns + 12 (what an element can cost beyond its strings) and
       Phi(x) = 24 * E(x) + C * 2 x      (a document of x bytes converted WITHOUT opening embedded documents),
   the length of the XML is at most
       Khdr + Phi(n) + Phi(E(n)),
   a fixed polynomial of degree 4 in n, linear in the indentation parameter.  Phi(n) pays for the document itself,
   Phi(E(n)) for its embedded documents: they are parsed from character data of the document (total at most E(n)
   bytes), each converted without further embedding (WBXML_MAX_EMBEDDED_DEPTH = 1), and Phi is superadditive.
   Ingredients: C01p_growth, the number of events and attributes (at most 2 n, Proofs/ParserCount.v), the tree builder
   (every additive measure of the tree is bounded by that of the events, Proofs/TreeBuildSize.v) and the generator's
   cost per node (Proofs/ConvCostXml.v: a text at most 24 times its length, an element twice its name, its namespace
   declaration, at most 2 * 255 * indent blanks and 12 bytes of punctuation).
   Before the repair no polynomial bounded the conversion (a NUL-free document in the string table of its parent,
   referenced eight times, at every level: 619 bytes gave 128 MB of XML); the examples at the end are those
   documents, now converted with one level of embedding.  The bound of this theorem is of degree 4 because Phi is applied
   to the TOTAL size of the character data; (c') uses that one embedded document comes from ONE event. *)
Theorem C01c_output_size : forall tbl o doc,
  (N.to_nat (r_len (wbxml2xml_model tbl o doc)) <= size_bound tbl (wo_indent o) (length doc))%nat.
Proof. exact model_size. Qed.
Print Assumptions C01c_output_size.

(* the same bound as a function over N (binary numbers), so that it can be evaluated: bound_N tbl indent n =
   Khdr + PhiN n + PhiN (n (2 n + 2 K + 122)), PhiN x = 24 x (2 x + 2 K + 122) + C 2 x,
   C = 2 * 255 * (indent mod 256 + 1) + 2 K + Kns + 12.  The tie (vlib/convmodel.py) evaluates the same expression and checks
   len(out) <= bound_N on every accepted case; its arithmetic is pinned to the Examples below. *)
Theorem C01c_size_bound_N : forall tbl indent n, N.of_nat (size_bound tbl indent n) = bound_N tbl indent (N.of_nat n).
Proof. exact size_bound_N. Qed.
Print Assumptions C01c_size_bound_N.

Theorem C01c_output_size_N : forall tbl o doc,
  r_len (wbxml2xml_model tbl o doc) <= bound_N tbl (wo_indent o) (N.of_nat (length doc)).
Proof. exact model_size_N. Qed.
Print Assumptions C01c_output_size_N.

Example C01c_ex_bound_267 : bound_N main_table 0 267 = 1946732541070.
Proof. vm_compute. reflexivity. Qed.
Example C01c_ex_bound_65536 : bound_N main_table 0 65536 = 3553674400644843700390.
Proof. vm_compute. reflexivity. Qed.
Example C01c_ex_bound_267_indent255 : bound_N main_table 255 267 = 1999164799570.
Proof. vm_compute. reflexivity. Qed.
Example C01c_ex_bound_65536_indent255 : bound_N main_table 255 65536 = 3553676638653977985190.
Proof. vm_compute. reflexivity. Qed.

(* (c') SIZE, degree 3, FULL.  A single character-data event is at most Bc = 5 n + K + 121 bytes (C01c_chars_event_max): an
   embedded document is parsed from one event, so its cost Phi(x) is at most x * (24 (2 Bc + 2 K + 122) + 2 C), linear in x,
   and the events' total is at most E(n):
       |XML| <= Khdr + Phi(n) + E(n) * (24 (2 (5 n + K + 121) + 2 K + 122) + 2 C).
   This is the degree of the worst case: the family below (C01c_ex_cubic) has k references to a NUL-free embedded document that
   itself holds k references to a string of k bytes: about 3.5 k + 70 bytes of input, more than k^3 bytes of XML (the C
   agrees byte for byte: 90 -> 507, 118 -> 1159, 174 -> 5151, 286 -> 34639, 512 -> 265647 bytes). *)
Theorem C01c_chars_event_max : forall tbl forced meta fuel bs evs,
  parse_with tbl forced meta fuel bs = POk evs -> chars_le (5 * length bs + Kmax tbl + 121) evs.
Proof. exact parse_chars_max. Qed.
Print Assumptions C01c_chars_event_max.

Theorem C01c_output_size_cubic : forall tbl o doc,
  r_len (wbxml2xml_model tbl o doc) <= bound3_N tbl (wo_indent o) (N.of_nat (length doc)).
Proof. exact model_size3_N. Qed.
Print Assumptions C01c_output_size_cubic.

Theorem C01c_size_bound3_N : forall tbl indent n, N.of_nat (size_bound3 tbl indent n) = bound3_N tbl indent (N.of_nat n).
Proof. exact size_bound3_N. Qed.
Print Assumptions C01c_size_bound3_N.

Example C01c_ex_bound3_267 : bound3_N main_table 0 267 = 15886771438.
Proof. vm_compute. reflexivity. Qed.
Example C01c_ex_bound3_65536 : bound3_N main_table 0 65536 = 135462382940455078.
Proof. vm_compute. reflexivity. Qed.
Example C01c_ex_bound3_267_indent255 : bound3_N main_table 255 267 = 68319029938.
Proof. vm_compute. reflexivity. Qed.
Example C01c_ex_bound3_65536_indent255 : bound3_N main_table 255 65536 = 137700392074739878.
Proof. vm_compute. reflexivity. Qed.

(* the cubic family, k = 8, 16, 32 *)
Definition cubic8 : bytes := [2; 159; 83; 106; 37; 120; 2; 159; 83; 106; 9; 121; 121; 121; 121; 121; 121; 121; 121; 121; 84; 131; 1; 131; 1; 131; 1; 131; 1; 131; 1; 131; 1; 131; 1; 131; 1; 1; 84; 121; 112; 101; 84; 90; 68; 33; 195; 35; 97; 112; 112; 108; 105; 99; 97; 116; 105; 111; 110; 47; 118; 110; 100; 46; 115; 121; 110; 99; 109; 108; 45; 100; 101; 118; 105; 110; 102; 43; 119; 98; 120; 109; 108; 1; 1; 79; 131; 1; 1; 79; 131; 1; 1; 79; 131; 1; 1; 79; 131; 1; 1; 79; 131; 1; 1; 79; 131; 1; 1; 79; 131; 1; 1; 79; 131; 1; 1; 1].
Definition cubic16 : bytes := [2; 159; 83; 106; 61; 120; 2; 159; 83; 106; 17; 121; 121; 121; 121; 121; 121; 121; 121; 121; 121; 121; 121; 121; 121; 121; 121; 121; 84; 131; 1; 131; 1; 131; 1; 131; 1; 131; 1; 131; 1; 131; 1; 131; 1; 131; 1; 131; 1; 131; 1; 131; 1; 131; 1; 131; 1; 131; 1; 131; 1; 1; 84; 121; 112; 101; 84; 90; 68; 57; 195; 35; 97; 112; 112; 108; 105; 99; 97; 116; 105; 111; 110; 47; 118; 110; 100; 46; 115; 121; 110; 99; 109; 108; 45; 100; 101; 118; 105; 110; 102; 43; 119; 98; 120; 109; 108; 1; 1; 79; 131; 1; 1; 79; 131; 1; 1; 79; 131; 1; 1; 79; 131; 1; 1; 79; 131; 1; 1; 79; 131; 1; 1; 79; 131; 1; 1; 79; 131; 1; 1; 79; 131; 1; 1; 79; 131; 1; 1; 79; 131; 1; 1; 79; 131; 1; 1; 79; 131; 1; 1; 79; 131; 1; 1; 79; 131; 1; 1; 79; 131; 1; 1; 1].
Definition cubic32 : bytes := [2; 159; 83; 106; 109; 120; 2; 159; 83; 106; 33; 121; 121; 121; 121; 121; 121; 121; 121; 121; 121; 121; 121; 121; 121; 121; 121; 121; 121; 121; 121; 121; 121; 121; 121; 121; 121; 121; 121; 121; 121; 121; 121; 121; 84; 131; 1; 131; 1; 131; 1; 131; 1; 131; 1; 131; 1; 131; 1; 131; 1; 131; 1; 131; 1; 131; 1; 131; 1; 131; 1; 131; 1; 131; 1; 131; 1; 131; 1; 131; 1; 131; 1; 131; 1; 131; 1; 131; 1; 131; 1; 131; 1; 131; 1; 131; 1; 131; 1; 131; 1; 131; 1; 131; 1; 131; 1; 131; 1; 1; 84; 121; 112; 101; 84; 90; 68; 105; 195; 35; 97; 112; 112; 108; 105; 99; 97; 116; 105; 111; 110; 47; 118; 110; 100; 46; 115; 121; 110; 99; 109; 108; 45; 100; 101; 118; 105; 110; 102; 43; 119; 98; 120; 109; 108; 1; 1; 79; 131; 1; 1; 79; 131; 1; 1; 79; 131; 1; 1; 79; 131; 1; 1; 79; 131; 1; 1; 79; 131; 1; 1; 79; 131; 1; 1; 79; 131; 1; 1; 79; 131; 1; 1; 79; 131; 1; 1; 79; 131; 1; 1; 79; 131; 1; 1; 79; 131; 1; 1; 79; 131; 1; 1; 79; 131; 1; 1; 79; 131; 1; 1; 79; 131; 1; 1; 79; 131; 1; 1; 79; 131; 1; 1; 79; 131; 1; 1; 79; 131; 1; 1; 79; 131; 1; 1; 79; 131; 1; 1; 79; 131; 1; 1; 79; 131; 1; 1; 79; 131; 1; 1; 79; 131; 1; 1; 79; 131; 1; 1; 79; 131; 1; 1; 79; 131; 1; 1; 79; 131; 1; 1; 79; 131; 1; 1; 1].
Example C01c_ex_cubic :
  (length cubic8, r_len (wbxml2xml_model main_table (mk_w2x 0 0 0 0 false) cubic8)) = (118%nat, 1159)
  /\ (length cubic16, r_len (wbxml2xml_model main_table (mk_w2x 0 0 0 0 false) cubic16)) = (174%nat, 5151)
  /\ (length cubic32, r_len (wbxml2xml_model main_table (mk_w2x 0 0 0 0 false) cubic32)) = (286%nat, 34639)
  /\ 8 * 8 * 8 <= 1159 /\ 16 * 16 * 16 <= 5151 /\ 32 * 32 * 32 <= 34639.
Proof. vm_compute. repeat split; try reflexivity; discriminate. Qed.

(* without embedded documents (a tree built with 0 levels; in particular every document without an element named
   Data): the quadratic bound Phi(n) on what the tree can cost the generator *)
Theorem C01c_tree_cost_level0 : forall tbl D forced meta bs evs t,
  parse_with tbl forced meta (S (length bs)) bs = POk evs -> build tbl 0 evs = BOk t ->
  (tmr (mE tbl D) mT mC t <= Phi tbl D (length bs))%nat.
Proof. exact level0_measure. Qed.
Print Assumptions C01c_tree_cost_level0.

(* the ingredients, as separate statements *)
Theorem C01c_event_count : forall tbl forced meta fuel bs evs,
  parse_with tbl forced meta fuel bs = POk evs -> (cnt evs <= 2 * length bs)%nat.
Proof. exact parse_count. Qed.
Print Assumptions C01c_event_count.

Theorem C01c_generator_cost : forall l g indent keep roots out,
  EncXml.enc_xml l g indent keep roots = EncXml.XOk out ->
  (length out <= hdr_len l + list_sum (map (xc (255 * (N.to_nat (u8 indent) + 1)) l) roots))%nat.
Proof. exact enc_xml_cost. Qed.
Print Assumptions C01c_generator_cost.

(* the constants for the regenerated tables *)
Example C01c_ex_constants : (Kmax main_table, KnsT main_table, Khdr main_table) = (49, 64, 166)%nat.
Proof. vm_compute. reflexivity. Qed.

(* ---- Examples ---- *)
Definition o_compact : w2x_opts := mk_w2x 0 0 0 0 false.

(* a WML deck: <wml><card/></wml> *)
Example C01c_ex_wml :
  r_len (wbxml2xml_model main_table o_compact [1; 4; 106; 0; 127; 39; 1]) = 133
  /\ r_status (wbxml2xml_model main_table o_compact [1; 4; 106; 0; 127; 39; 1]) = ST_OK.
Proof. vm_compute. split; reflexivity. Qed.

(* the empty document and a truncated one *)
Example C01c_ex_empty : wbxml2xml_model main_table o_compact [] = mk_res (ST_ERR 12) None 0.
Proof. reflexivity. Qed.
Example C01c_ex_truncated : wbxml2xml_model main_table o_compact [1; 4; 106; 0; 127] = mk_res (ST_ERR 45) None 0.
Proof. vm_compute. reflexivity. Qed.

(* embedded documents: a SyncML document whose string table holds a NUL-free SyncML document, referenced by eight
   <Data> elements under Meta/Type application/vnd.syncml-devinf+wbxml; the inner document is built the same way.
   Before the repair every level multiplied the output by 8 (599 / 4015 / 31343 bytes); now the documents of the
   second level stay character data of the embedded documents. *)
Definition bomb1 : bytes := [2; 159; 83; 106; 12; 120; 2; 159; 83; 106; 1; 120; 20; 84; 121; 112; 101; 84; 90; 68; 8; 195; 35; 97; 112; 112; 108; 105; 99; 97; 116; 105; 111; 110; 47; 118; 110; 100; 46; 115; 121; 110; 99; 109; 108; 45; 100; 101; 118; 105; 110; 102; 43; 119; 98; 120; 109; 108; 1; 1; 79; 131; 1; 1; 79; 131; 1; 1; 79; 131; 1; 1; 79; 131; 1; 1; 79; 131; 1; 1; 79; 131; 1; 1; 79; 131; 1; 1; 79; 131; 1; 1; 1].
Definition bomb2 : bytes := [2; 159; 83; 106; 98; 120; 2; 159; 83; 106; 12; 120; 2; 159; 83; 106; 1; 120; 20; 84; 121; 112; 101; 84; 90; 68; 8; 195; 35; 97; 112; 112; 108; 105; 99; 97; 116; 105; 111; 110; 47; 118; 110; 100; 46; 115; 121; 110; 99; 109; 108; 45; 100; 101; 118; 105; 110; 102; 43; 119; 98; 120; 109; 108; 1; 1; 79; 131; 1; 1; 79; 131; 1; 1; 79; 131; 1; 1; 79; 131; 1; 1; 79; 131; 1; 1; 79; 131; 1; 1; 79; 131; 1; 1; 79; 131; 1; 1; 1; 84; 121; 112; 101; 84; 90; 68; 94; 195; 35; 97; 112; 112; 108; 105; 99; 97; 116; 105; 111; 110; 47; 118; 110; 100; 46; 115; 121; 110; 99; 109; 108; 45; 100; 101; 118; 105; 110; 102; 43; 119; 98; 120; 109; 108; 1; 1; 79; 131; 1; 1; 79; 131; 1; 1; 79; 131; 1; 1; 79; 131; 1; 1; 79; 131; 1; 1; 79; 131; 1; 1; 79; 131; 1; 1; 79; 131; 1; 1; 1].
Definition bomb3 : bytes := [2; 159; 83; 106; 129; 56; 120; 2; 159; 83; 106; 98; 120; 2; 159; 83; 106; 12; 120; 2; 159; 83; 106; 1; 120; 20; 84; 121; 112; 101; 84; 90; 68; 8; 195; 35; 97; 112; 112; 108; 105; 99; 97; 116; 105; 111; 110; 47; 118; 110; 100; 46; 115; 121; 110; 99; 109; 108; 45; 100; 101; 118; 105; 110; 102; 43; 119; 98; 120; 109; 108; 1; 1; 79; 131; 1; 1; 79; 131; 1; 1; 79; 131; 1; 1; 79; 131; 1; 1; 79; 131; 1; 1; 79; 131; 1; 1; 79; 131; 1; 1; 79; 131; 1; 1; 1; 84; 121; 112; 101; 84; 90; 68; 94; 195; 35; 97; 112; 112; 108; 105; 99; 97; 116; 105; 111; 110; 47; 118; 110; 100; 46; 115; 121; 110; 99; 109; 108; 45; 100; 101; 118; 105; 110; 102; 43; 119; 98; 120; 109; 108; 1; 1; 79; 131; 1; 1; 79; 131; 1; 1; 79; 131; 1; 1; 79; 131; 1; 1; 79; 131; 1; 1; 79; 131; 1; 1; 79; 131; 1; 1; 79; 131; 1; 1; 1; 84; 121; 112; 101; 84; 90; 68; 129; 52; 195; 35; 97; 112; 112; 108; 105; 99; 97; 116; 105; 111; 110; 47; 118; 110; 100; 46; 115; 121; 110; 99; 109; 108; 45; 100; 101; 118; 105; 110; 102; 43; 119; 98; 120; 109; 108; 1; 1; 79; 131; 1; 1; 79; 131; 1; 1; 79; 131; 1; 1; 79; 131; 1; 1; 79; 131; 1; 1; 79; 131; 1; 1; 79; 131; 1; 1; 79; 131; 1; 1; 1].
Example C01c_ex_embedded :
  (length bomb1, r_len (wbxml2xml_model main_table o_compact bomb1)) = (93%nat, 599)
  /\ (length bomb2, r_len (wbxml2xml_model main_table o_compact bomb2)) = (179%nat, 2671)
  /\ (length bomb3, r_len (wbxml2xml_model main_table o_compact bomb3)) = (267%nat, 8175).
Proof. vm_compute. repeat split; reflexivity. Qed.
