(* C01 (whole WBXML -> XML conversion, over Model/ConvConcrete.v): wbxml2xml_model = Conv.conv_run instantiated with
   the parser (Model/Parser.v) + tree builder (Model/TreeBuild.v) and the XML generator (Model/EncXml.v) on the
   converted tree (Model/TreeConv.v).  Only statements, each closed by `exact`, with Print Assumptions beneath.
   Proofs: Proofs/ConvProofs.v (contract, generic), Proofs/ConvConcreteProofs.v, Proofs/TreeBuildSize.v,
   Proofs/ConvCostXml.v, Proofs/ParserCount.v.  Tie: vlib/convmodel.py (driver C01c against harness/c01_harness.c). *)
From Coq Require Import String.
From Coq Require Import List NArith.
From Wbxml Require Import Model.Codec Model.TablesDefs Gen.TablesData Model.Parser Model.TreeBuild Model.TreeConv
     Model.Conv Model.ConvConcrete Proofs.ConvProofs Proofs.ParserGrowth Proofs.ParserCount Proofs.TreeBuildProofs3
     Proofs.TreeBuildSize Proofs.ConvCostXml Proofs.ConvConcreteProofs.
From Wbxml Require Model.EncXml.
Import ListNotations.
Local Open Scope N_scope.

(* (a) FULL.  The result contract of wbxml_conv_wbxml2xml_run for the concrete conversion: on success an output block
   that is the document followed by one NUL and a length that is the document's; otherwise no output, length 0. *)
Theorem C01c_result_contract : forall tbl efuel o doc,
  contract (wbxml2xml_model tbl efuel o doc).
Proof. exact (fun tbl efuel o doc => conv_run_contract wtree w2x_opts (w2x_tree_from_doc tbl efuel) (w2x_encode tbl) o doc). Qed.
Print Assumptions C01c_result_contract.

(* success exactly when the document is not empty, the parser + tree builder give a tree and the generator accepts it *)
Theorem C01c_status_ok_iff : forall tbl efuel o doc,
  r_status (wbxml2xml_model tbl efuel o doc) = ST_OK <->
  doc <> [] /\ exists t out, w2x_tree_from_doc tbl efuel o doc = inl t /\ w2x_encode tbl o t = inl out.
Proof. exact (fun tbl efuel o doc => conv_run_status wtree w2x_opts (w2x_tree_from_doc tbl efuel) (w2x_encode tbl) o doc). Qed.
Print Assumptions C01c_status_ok_iff.

(* (b) TOTALITY.  The model is a total function; what has to be shown is that its fuel is never the reason for a
   result.  There are two fuels.
   FULL for the parser fuel: S (length doc) is never exhausted, for the document and for every embedded document
   (each is parsed with S (its own length)): the model's own status MODEL_FUEL is reached only through the
   EMBEDDED-DOCUMENT fuel of the tree builder ... *)
Theorem C01c_model_fuel_only_embedded : forall tbl efuel o doc,
  r_status (wbxml2xml_model tbl efuel o doc) = ST_ERR MODEL_FUEL <->
  doc <> [] /\ tree_from_wbxml tbl (wo_lang o) (wo_charset o) efuel doc = BFuel.
Proof. exact model_fuel_iff. Qed.
Print Assumptions C01c_model_fuel_only_embedded.

Theorem C01c_parser_fuel_sufficient : forall tbl forced meta efuel bs,
  tree_from_wbxml tbl forced meta efuel bs = BFuel ->
  exists evs, parse_with tbl forced meta (S (length bs)) bs = POk evs /\ build tbl efuel evs = BFuel.
Proof. exact tree_from_wbxml_fuel. Qed.
Print Assumptions C01c_parser_fuel_sufficient.

(* ... and FULL: a run that does not exhaust the embedded-document fuel is the run for every larger fuel (the result
   does not depend on the fuel). *)
Theorem C01c_fuel_irrelevant : forall tbl efuel o doc,
  r_status (wbxml2xml_model tbl efuel o doc) <> ST_ERR MODEL_FUEL ->
  forall k, wbxml2xml_model tbl (efuel + k) o doc = wbxml2xml_model tbl efuel o doc.
Proof. exact model_mono. Qed.
Print Assumptions C01c_fuel_irrelevant.

(* PARTIAL for the embedded-document fuel: a document without an element named Data never needs more than fuel 1.
   NOT proved: a bound on the nesting of embedded documents in terms of the length of the document (the C has no
   such bound either: every embedded document is handed to a new parser whose nesting counter starts at 0; a
   174 KB chain of <Data> documents needs 7 MB of stack, 232 KB overflow it — reported as a finding). *)
Theorem C01c_total_without_data_partial : forall tbl forced meta efuel bs evs,
  parse_with tbl forced meta (S (length bs)) bs = POk evs -> no_data evs = true ->
  tree_from_wbxml tbl forced meta (S efuel) bs <> BFuel.
Proof. exact no_data_no_fuel. Qed.
Print Assumptions C01c_total_without_data_partial.

(* (c) SIZE, PARTIAL.  When no character data is recognised as an embedded document (the run with embedded-document
   fuel 1 does not exhaust it), the length of the XML is at most
       Khdr + 24 * n * (2 n + 2 Kmax + 122) + (2 * 255 * (indent mod 256 + 1) + 2 Kmax + Kns + 12) * 2 n,    n = |doc|,
   a fixed polynomial of the document length and of the indentation parameter: C01p_growth (total size of the
   events), the number of events and attributes (at most 2 n, Proofs/ParserCount.v), the tree builder (every
   additive measure of the tree is bounded by that of the events, Proofs/TreeBuildSize.v) and the generator's cost
   per node (Proofs/ConvCostXml.v: a text at most 24 times its length, an element twice its name, its namespace
   declaration, at most 2 * 255 * indent blanks and 12 bytes of punctuation).
   The restriction is necessary: WITH embedded documents the output is exponential in the length of the document
   (Examples below; the C agrees byte for byte), so no polynomial bounds the unrestricted conversion. *)
Theorem C01c_output_size_partial : forall tbl o doc k,
  r_status (wbxml2xml_model tbl 1 o doc) <> ST_ERR MODEL_FUEL ->
  (N.to_nat (r_len (wbxml2xml_model tbl (1 + k) o doc)) <= size_bound tbl (wo_indent o) (length doc))%nat.
Proof. exact model_size. Qed.
Print Assumptions C01c_output_size_partial.

(* the ingredients, as separate statements *)
Theorem C01c_event_count : forall tbl forced meta fuel bs evs,
  parse_with tbl forced meta fuel bs = POk evs -> (cnt evs <= 2 * length bs)%nat.
Proof. exact parse_count. Qed.
Print Assumptions C01c_event_count.

Theorem C01c_generator_cost : forall l g indent keep roots out,
  EncXml.enc_xml l g indent keep roots = EncXml.XOk out ->
  (length out <= hdr_len l + list_sum (map (xc (255 * (N.to_nat (u8 indent) + 1)) l) roots))%nat.
Proof. exact enc_xml_cost. Qed.
Print Assumptions C01c_generator_cost.

(* the constants for the regenerated tables *)
Example C01c_ex_constants : (Kmax main_table, KnsT main_table, Khdr main_table) = (49, 64, 166)%nat.
Proof. vm_compute. reflexivity. Qed.

(* ---- Examples ---- *)
Definition o_compact : w2x_opts := mk_w2x 0 0 0 0 false.

(* a WML deck: <wml><card/></wml> *)
Example C01c_ex_wml :
  r_len (wbxml2xml_model main_table 4 o_compact [1; 4; 106; 0; 127; 39; 1]) = 133
  /\ r_status (wbxml2xml_model main_table 4 o_compact [1; 4; 106; 0; 127; 39; 1]) = ST_OK.
Proof. vm_compute. split; reflexivity. Qed.

(* the empty document and a truncated one *)
Example C01c_ex_empty : wbxml2xml_model main_table 4 o_compact [] = mk_res (ST_ERR 12) None 0.
Proof. reflexivity. Qed.
Example C01c_ex_truncated : wbxml2xml_model main_table 4 o_compact [1; 4; 106; 0; 127] = mk_res (ST_ERR 45) None 0.
Proof. vm_compute. reflexivity. Qed.

(* embedded documents: a SyncML document whose string table holds a NUL-free SyncML document, referenced by eight
   <Data> elements under Meta/Type application/vnd.syncml-devinf+wbxml; the inner document is built the same way.
   Every level adds 86 to 88 bytes and multiplies the output by 8. *)
Definition bomb1 : bytes := [2; 159; 83; 106; 12; 120; 2; 159; 83; 106; 1; 120; 20; 84; 121; 112; 101; 84; 90; 68; 8; 195; 35; 97; 112; 112; 108; 105; 99; 97; 116; 105; 111; 110; 47; 118; 110; 100; 46; 115; 121; 110; 99; 109; 108; 45; 100; 101; 118; 105; 110; 102; 43; 119; 98; 120; 109; 108; 1; 1; 79; 131; 1; 1; 79; 131; 1; 1; 79; 131; 1; 1; 79; 131; 1; 1; 79; 131; 1; 1; 79; 131; 1; 1; 79; 131; 1; 1; 79; 131; 1; 1; 1].
Definition bomb2 : bytes := [2; 159; 83; 106; 98; 120; 2; 159; 83; 106; 12; 120; 2; 159; 83; 106; 1; 120; 20; 84; 121; 112; 101; 84; 90; 68; 8; 195; 35; 97; 112; 112; 108; 105; 99; 97; 116; 105; 111; 110; 47; 118; 110; 100; 46; 115; 121; 110; 99; 109; 108; 45; 100; 101; 118; 105; 110; 102; 43; 119; 98; 120; 109; 108; 1; 1; 79; 131; 1; 1; 79; 131; 1; 1; 79; 131; 1; 1; 79; 131; 1; 1; 79; 131; 1; 1; 79; 131; 1; 1; 79; 131; 1; 1; 79; 131; 1; 1; 1; 84; 121; 112; 101; 84; 90; 68; 94; 195; 35; 97; 112; 112; 108; 105; 99; 97; 116; 105; 111; 110; 47; 118; 110; 100; 46; 115; 121; 110; 99; 109; 108; 45; 100; 101; 118; 105; 110; 102; 43; 119; 98; 120; 109; 108; 1; 1; 79; 131; 1; 1; 79; 131; 1; 1; 79; 131; 1; 1; 79; 131; 1; 1; 79; 131; 1; 1; 79; 131; 1; 1; 79; 131; 1; 1; 79; 131; 1; 1; 1].
Definition bomb3 : bytes := [2; 159; 83; 106; 129; 56; 120; 2; 159; 83; 106; 98; 120; 2; 159; 83; 106; 12; 120; 2; 159; 83; 106; 1; 120; 20; 84; 121; 112; 101; 84; 90; 68; 8; 195; 35; 97; 112; 112; 108; 105; 99; 97; 116; 105; 111; 110; 47; 118; 110; 100; 46; 115; 121; 110; 99; 109; 108; 45; 100; 101; 118; 105; 110; 102; 43; 119; 98; 120; 109; 108; 1; 1; 79; 131; 1; 1; 79; 131; 1; 1; 79; 131; 1; 1; 79; 131; 1; 1; 79; 131; 1; 1; 79; 131; 1; 1; 79; 131; 1; 1; 79; 131; 1; 1; 1; 84; 121; 112; 101; 84; 90; 68; 94; 195; 35; 97; 112; 112; 108; 105; 99; 97; 116; 105; 111; 110; 47; 118; 110; 100; 46; 115; 121; 110; 99; 109; 108; 45; 100; 101; 118; 105; 110; 102; 43; 119; 98; 120; 109; 108; 1; 1; 79; 131; 1; 1; 79; 131; 1; 1; 79; 131; 1; 1; 79; 131; 1; 1; 79; 131; 1; 1; 79; 131; 1; 1; 79; 131; 1; 1; 79; 131; 1; 1; 1; 84; 121; 112; 101; 84; 90; 68; 129; 52; 195; 35; 97; 112; 112; 108; 105; 99; 97; 116; 105; 111; 110; 47; 118; 110; 100; 46; 115; 121; 110; 99; 109; 108; 45; 100; 101; 118; 105; 110; 102; 43; 119; 98; 120; 109; 108; 1; 1; 79; 131; 1; 1; 79; 131; 1; 1; 79; 131; 1; 1; 79; 131; 1; 1; 79; 131; 1; 1; 79; 131; 1; 1; 79; 131; 1; 1; 79; 131; 1; 1; 1].
Example C01c_ex_amplification :
  (length bomb1, r_len (wbxml2xml_model main_table 8 o_compact bomb1)) = (93%nat, 599)
  /\ (length bomb2, r_len (wbxml2xml_model main_table 8 o_compact bomb2)) = (179%nat, 4015)
  /\ (length bomb3, r_len (wbxml2xml_model main_table 8 o_compact bomb3)) = (267%nat, 31343).
Proof. vm_compute. repeat split; reflexivity. Qed.
(* with fuel 1 the model reports that it needs more: these documents are outside (c) *)
Example C01c_ex_amplification_needs_fuel :
  r_status (wbxml2xml_model main_table 1 o_compact bomb1) = ST_ERR MODEL_FUEL.
Proof. vm_compute. reflexivity. Qed.
