(* C01 (parser core, over Model/Parser.v) — totality with linear fuel, the suffix invariant, nesting, growth.
   Only statements, each closed by `exact`, with Print Assumptions beneath.
   Proofs: Proofs/ParserTotal.v, Proofs/ParserDepth.v.  The conversion-level parts of C01 are in Properties_C01.v. *)
From Coq Require Import String.
From Coq Require Import List NArith.
From Wbxml Require Import Model.Codec Model.TablesDefs Gen.TablesData Model.Parser Proofs.ParserTotal Proofs.ParserDepth Proofs.ParserGrowth.
Import ListNotations.
Local Open Scope N_scope.

(* (a) FULL.  For every table, forced language, meta charset and byte string, one unit of fuel more than the
   length of the document is never exhausted: every loop iteration and every recursive call consumes >= 1 byte.
   The outcome is therefore always POk events or PErr code. *)
Theorem C01p_total_linear_fuel : forall tbl forced meta bs,
  parse_with tbl forced meta (S (length bs)) bs <> PFuel.
Proof. exact parse_total. Qed.
Print Assumptions C01p_total_linear_fuel.

(* (b) FULL for what the representation gives.  The model has no buffer + index: a state holds the unread part
   `s_rest` of the document, and the only ways a function obtains bytes are hd / tl / firstn / skipn / nth_error 2 of
   that list.  The theorems say that the unread part every function returns is a suffix of the unread part it was
   given (sfx k r' r: r = p ++ r' with k <= |p|), with k = 1 for everything that is iterated.  Hence at every
   intermediate state the unread part is a suffix of the document, pos = |document| - |s_rest| <= |document|, and
   no byte outside the document is ever read.  (The string table is a separate list, copied from the document by
   parse_strtbl; get_strtbl_reference reads it through skipn only.) *)
Theorem C01p_suffix_content_loop : forall fuel env n st, (length (s_rest st) < fuel)%nat ->
  match content_loop fuel env n st with
  | POk (_, st') => exists p, s_rest st = p ++ s_rest st' /\ (1 <= length p)%nat
  | PErr _ => True
  | PFuel => False
  end.
Proof. exact content_loop_ok. Qed.
Print Assumptions C01p_suffix_content_loop.

Theorem C01p_suffix_element : forall fuel env st, (length (s_rest st) <= fuel)%nat ->
  match parse_element fuel env st with
  | POk (_, st') => exists p, s_rest st = p ++ s_rest st' /\ (1 <= length p)%nat
  | PErr _ => True
  | PFuel => False
  end.
Proof. exact element_ok1. Qed.
Print Assumptions C01p_suffix_element.

Theorem C01p_suffix_attributes : forall fuel env st acc, (length (s_rest st) < fuel)%nat ->
  match attrs_loop fuel env st acc with
  | POk (_, st') => exists p, s_rest st = p ++ s_rest st' /\ (1 <= length p)%nat
  | PErr _ => True
  | PFuel => False
  end.
Proof. exact attrs_loop_ok1. Qed.
Print Assumptions C01p_suffix_attributes.

Theorem C01p_suffix_body : forall fuel env st evs st', (length (s_rest st) < fuel)%nat ->
  parse_body fuel env st = POk (evs, st') -> exists p, s_rest st = p ++ s_rest st'.
Proof. exact body_reads_inside. Qed.
Print Assumptions C01p_suffix_body.

(* (c) FULL.  The events of a successful parse are balanced (every start-element has its end-element, properly
   nested) and nest at most 1001 deep: the root plus WBXML_MAX_NESTING_DEPTH = 1000 levels; an element start met
   with 1000 elements open below the root is refused with NESTING_TOO_DEEP. *)
Theorem C01p_depth_bounded : forall tbl forced meta fuel bs evs,
  parse_with tbl forced meta fuel bs = POk evs -> bal 1001 evs /\ (max_depth evs <= 1001)%nat.
Proof. exact parse_depth. Qed.
Print Assumptions C01p_depth_bounded.

Theorem C01p_deeper_nesting_refused : forall fuel env n pelt st, MAX_NESTING_DEPTH <= n ->
  s_rest st <> [] -> is_extension (s_rest st) = false -> is_token (s_rest st) 2 = false ->
  is_string (s_rest st) = false -> is_token (s_rest st) 195 = false -> is_token (s_rest st) 67 = false ->
  is_token (s_rest st) 0 = false ->
  parse_content fuel env n pelt st = PErr PE_NESTING_TOO_DEEP.
Proof. exact nesting_refused. Qed.
Print Assumptions C01p_deeper_nesting_refused.

(* (d) FULL.  evs_size = sum over the events of the lengths of element names (start and end), attribute names and
   values, character data, PI targets and data.  For every table, forced language, meta charset, fuel and document:
   a successful parse delivers at most |bs| * (2 |bs| + 2 K + 122) bytes, K = Kmax tbl = the longest table string
   (for attribute starts: name + value prefix together).  The proof is a potential argument: every function returns
   output whose size plus M times the bytes it leaves unread is at most M times the bytes it was given, with
   M = 2 (K + |padded string table| + 7) + 100 <= 2 |bs| + 2 K + 122: a consumed byte yields at most M output bytes
   (a string-table reference can repeat the table - hence quadratic; base64 costs a factor 4/3, typed WV / SI
   values a constant).  Proofs/ParserGrowth.v. *)
Theorem C01p_growth : forall tbl forced meta fuel bs evs,
  parse_with tbl forced meta fuel bs = POk evs ->
  (evs_size evs <= length bs * (2 * length bs + 2 * Kmax tbl + 122))%nat.
Proof. exact parse_growth. Qed.
Print Assumptions C01p_growth.

(* its two ingredients, as separate statements *)
Theorem C01p_growth_inline : forall cs r s t, conv_term cs r = POk (s, t) ->
  (length s + 1 + length t = length r)%nat.
Proof. exact conv_term_len. Qed.
Print Assumptions C01p_growth_inline.

Theorem C01p_growth_reference : forall env i s, get_strtbl_reference env i = POk s ->
  (length s <= Nat.max 5 (match e_strtbl env with Some tb => length tb | None => 0 end))%nat.
Proof. exact strtbl_ref_len. Qed.
Print Assumptions C01p_growth_reference.

(* the constant for the regenerated tables *)
Example C01p_ex_Kmax : Kmax main_table = 49%nat.
Proof. vm_compute. reflexivity. Qed.

(* non-vacuity: 1001 nested <wml> elements are accepted by the model, 1002 are refused *)
Definition nested_doc (k : nat) : bytes := [3; 4; 106; 0] ++ repeat 127 k ++ repeat 1 k.
Example C01p_ex_depth :
  (match parse main_table 2100 (nested_doc 1001) with POk evs => Nat.eqb (max_depth evs) 1001 | _ => false end) = true
  /\ parse main_table 2100 (nested_doc 1002) = PErr PE_NESTING_TOO_DEEP.
Proof. vm_compute. split; reflexivity. Qed.
