(* C02 — the CONCRETE whole-conversion model of wbxml_conv_xml2wbxml_run (Model/ConvXml2Wbxml.v):
     Conv.conv_run  with  tree_from_doc := the XML front end (Model/XmlFront.v) on Expat's events and verdict,
                          encode        := wbxml_tree_to_wbxml = EncWbxml.enc_wbxml on the language of the tree,
   options {wbxml_version, keep_ignorable_ws, use_strtbl, produce_anonymous}.  Expat is the oracle `expat`; the nested
   parse of embedded documents is the front end itself (fuel).  The model is tied to the C by
   vlib/xmlfront.py: correspond_conv (harness/c02c_harness.c, driver/C02c_driver.ml): status and exact WBXML bytes.
   Proofs: Proofs/ConvXml2WbxmlProofs.v, Proofs/EncWbxmlSize.v, Proofs/EncWbxmlSize2.v, Proofs/ConvXml2WbxmlSize.v.

   C02c_result_contract, C02c_legacy_null_params, C02c_result_contract_events      full
   C02c_not_well_formed_is_error, C02c_no_language_is_error, C02c_callback_error_is_error   full
   C02c_success_means                                                                full
   C02c_encoder_linear_size        full for the encoder model: every tree whose names are non-empty C strings
   C02c_linear_size                full: the hypothesis on the tree is discharged by C02c_front_end_names from (i) the table
                                   names (C02c_tables_names_ok, by computation) and (ii) the one assumption about the oracle
                                   that Expat never reports an empty element / attribute name
   C02c_encoder_recursion_depth    full for the call-depth function rdepth (read off parse_node's recursive calls; the
                                   cut at a CDATA node inside an open CDATA section is C02c_cdata_in_cdata_stops) *)
From Coq Require Import List NArith String.
From Wbxml Require Import Model.TablesDefs Model.Tables Model.LangSelect Model.Conv Model.EncWbxml Model.EncWbxmlTables Model.XmlFront Model.ConvXml2Wbxml.
From Wbxml Require Import Proofs.XmlFrontProofs Proofs.XmlFrontTree Proofs.XmlFrontNames Proofs.XmlFrontSize Proofs.ConvXml2WbxmlProofs Proofs.EncWbxmlSize Proofs.EncWbxmlSize2 Proofs.ConvXml2WbxmlSize.
From Wbxml Require Import Gen.TablesData.
Import ListNotations.

(* ------------------------------------------------------------------ the result contract *)

(* WBXML_OK with an output block of exactly the reported length, or an error code with a NULL output and length 0 *)
Theorem C02c_result_contract :
  forall main btbl expat fuel o doc, contract (xml2wbxml main btbl expat fuel o doc).
Proof. exact xml2wbxml_contract. Qed.
Print Assumptions C02c_result_contract.

(* the legacy entry point: the parameter block may be NULL (defaults: WBXML 1.3, white space dropped, string table, public id) *)
Theorem C02c_legacy_null_params :
  forall main btbl expat fuel po doc, contract (xml2wbxml_withlen main btbl expat fuel po doc).
Proof. exact xml2wbxml_withlen_contract. Qed.
Print Assumptions C02c_legacy_null_params.

(* the form the correspondence driver runs: events and nested answers supplied *)
Theorem C02c_result_contract_events :
  forall main btbl sub events ok o doc, contract (xml2wbxml_events main btbl sub events ok o doc).
Proof. exact xml2wbxml_events_contract. Qed.
Print Assumptions C02c_result_contract_events.

(* ------------------------------------------------------------------ refusal *)

Theorem C02c_not_well_formed_is_error :
  forall main btbl expat fuel o doc, snd (expat doc) = false ->
  exists e, xml2wbxml main btbl expat fuel o doc = mk_res (ST_ERR e) None 0.
Proof. exact xml2wbxml_not_well_formed. Qed.
Print Assumptions C02c_not_well_formed_is_error.

Theorem C02c_no_language_is_error :
  forall main btbl expat fuel o doc prolog name attrs idx rest ok,
  expat doc = (prolog ++ EvStartElement name attrs idx :: rest, ok) ->
  Forall (prolog_event main) prolog ->
  search_table main None None (Some (str name)) = None ->
  exists e, xml2wbxml main btbl expat fuel o doc = mk_res (ST_ERR e) None 0.
Proof. exact xml2wbxml_no_language. Qed.
Print Assumptions C02c_no_language_is_error.

Theorem C02c_callback_error_is_error :
  forall main btbl expat fuel o doc,
  c_error (run main (nested main expat fuel) doc init_ctx (fst (expat doc))) <> WBXML_OK ->
  exists e, xml2wbxml main btbl expat fuel o doc = mk_res (ST_ERR e) None 0.
Proof. exact xml2wbxml_callback_error. Qed.
Print Assumptions C02c_callback_error_is_error.

Theorem C02c_success_means :
  forall main btbl expat fuel o doc out n,
  xml2wbxml main btbl expat fuel o doc = mk_res ST_OK (Some out) n ->
  exists t, tree_from_xml_fuel main expat fuel doc = inl t /\ tree_ok t /\ encode_tree btbl o t = inl out /\
            n = N.of_nat (List.length out) /\ snd (expat doc) = true.
Proof. exact xml2wbxml_ok_inv. Qed.
Print Assumptions C02c_success_means.

(* ------------------------------------------------------------------ linear size *)

(* the encoder model: at most 33 octets per octet of the tree (wsize: one per node, names, attribute names and values,
   text; an embedded document costs h and counts twice) plus the header (18 + the public identifier) *)
Theorem C02c_encoder_linear_size :
  forall tbl h, Forall lang_vals_ok tbl -> (forall l, In l tbl -> hdr l <= h) ->
  forall l o roots out, lang_vals_ok l -> all_names_ok roots ->
  enc_wbxml tbl l o roots = EOk out -> List.length out <= 33 * wsizes h roots + hdr l.
Proof. exact enc_wbxml_size. Qed.
Print Assumptions C02c_encoder_linear_size.

Theorem C02c_linear_size :
  forall main btbl expat fuel o doc out n, Forall lang_vals_ok btbl ->
  xml2wbxml main btbl expat fuel o doc = mk_res ST_OK (Some out) n ->
  exists t, tree_from_xml_fuel main expat fuel doc = inl t /\ tree_ok t /\
            (all_names_ok (xt_roots t) -> List.length out <= 33 * wsizes (hdr_max btbl) (xt_roots t) + hdr_max btbl).
Proof. exact xml2wbxml_linear_size. Qed.
Print Assumptions C02c_linear_size.

(* every name in a tree of the front end is a non-empty C string when the names Expat reports are *)
Theorem C02c_front_end_names :
  forall main expat, Forall lang_names_ok main -> (forall doc, Forall ev_names_ok (fst (expat doc))) ->
  forall fuel doc t, tree_from_xml_fuel main expat fuel doc = inl t -> all_names_ok (xt_roots t).
Proof. exact tree_from_xml_fuel_names. Qed.
Print Assumptions C02c_front_end_names.

Theorem C02c_linear_size_expat :
  forall main btbl expat fuel o doc out n,
  Forall lang_names_ok main -> Forall lang_vals_ok btbl -> (forall d, Forall ev_names_ok (fst (expat d))) ->
  xml2wbxml main btbl expat fuel o doc = mk_res ST_OK (Some out) n ->
  exists t, tree_from_xml_fuel main expat fuel doc = inl t /\
            List.length out <= 33 * wsizes (hdr_max btbl) (xt_roots t) + hdr_max btbl.
Proof. exact xml2wbxml_linear_size_expat. Qed.
Print Assumptions C02c_linear_size_expat.

(* output and intermediate tree against the volume of the events Expat delivered for the document (Expat's entity
   expansion is inside that volume; bounding it against the document's length is Expat 2.5's own amplification limit) *)
Theorem C02c_linear_in_events :
  forall main btbl expat fuel o doc out n,
  Forall lang_names_ok main -> Forall lang_vals_ok btbl -> (forall d, Forall ev_names_ok (fst (expat d))) ->
  xml2wbxml main btbl expat fuel o doc = mk_res ST_OK (Some out) n ->
  exists t, tree_from_xml_fuel main expat fuel doc = inl t /\
            (nszs (xt_roots t) <= evvol (fst (expat doc)))%nat /\
            (List.length out <= 33 * (evvol (fst (expat doc)) + embs (hdr_max btbl) (xt_roots t)) + hdr_max btbl)%nat.
Proof. exact xml2wbxml_linear_in_events. Qed.
Print Assumptions C02c_linear_in_events.

Theorem C02c_tables_names_ok : Forall lang_names_ok main_table.
Proof. exact main_table_names_ok. Qed.
Print Assumptions C02c_tables_names_ok.

(* the table hypothesis holds for the regenerated tables; the header constant is 50 there *)
Theorem C02c_tables_vals_ok : Forall lang_vals_ok main_btable.
Proof. exact main_btable_vals_ok. Qed.
Print Assumptions C02c_tables_vals_ok.

(* ------------------------------------------------------------------ recursion depth of the encoder *)

Theorem C02c_cdata_in_cdata_stops :
  forall tbl e p kids st d, cdata st = Some d -> parse_node tbl e p (NCData kids) st = EErr E_INTERNAL.
Proof. exact cdata_in_cdata_stops. Qed.
Print Assumptions C02c_cdata_in_cdata_stops.

(* at most 1002 encoder frames for a tree of the front end, 1003 more per level of embedded documents *)
Theorem C02c_encoder_recursion_depth :
  forall main expat fuel doc t r, tree_from_xml_fuel main expat fuel doc = inl t -> In r (xt_roots t) ->
  (rdepth false r <= 1002 + 1003 * levels r)%nat.
Proof.
  intros main expat fuel doc t r H. apply tree_ok_rdepth. exact (tree_from_xml_fuel_ok main expat fuel doc t H).
Qed.
Print Assumptions C02c_encoder_recursion_depth.

(* ------------------------------------------------------------------ examples *)

Example C02c_ex_hdr_max : hdr_max main_btable = 50%nat.
Proof. exact hdr_max_main. Qed.
Example C02c_ex_names : all_names_ok [NElt (TagTok 0 63 0 (bs "wml")) [mk_at (AttrLit (bs "zz")) (bs "v")] [NText (bs "t")]].
Proof. cbn. repeat split; try discriminate. repeat constructor. unfold attr_ok, name_ok. cbn. discriminate. Qed.
