(* C02 / C03 (front end), round 5 — which EVENT LISTS the front end maps to canonical trees, and text delivered in pieces.
   Definitions: Model/XmlFrontCanonEvents.v (evs_canon: twelve clauses evaluated along the run of the callbacks);
   proofs: Proofs/XmlFrontImage.v, Proofs/XmlFrontSplit.v, Proofs/XmlFrontDataType.v.

   C02f_image_canonical            full: Expat-shaped list + evs_canon + a tree is handed out => one root, root_canon
   C02f_image_canonical_any        full: the same for EVERY event list (the open nodes closed), "no root" being possible
   C02f_front_idempotent           full: reading the events written for that tree gives the tree again.  Hypotheses on the
                                   table (own DOCTYPE selects the language) and on the nested parse (emb_spec), none on
                                   the tree; _main: the project's table, no embedded documents, no encoding: no hypothesis
   C02f_data_type_stable, _through_cdata   the SyncML data-type decision does not look at the node's own children or cache
                                   (why text for which the front end adds a CDATA section needs no clause)
   C02f_tag_clause_silent, C02f_attr_clause_silent     clauses 5 and 7 never fire on the project's tables / on octet names
   C02f_clause_*_necessary         witnesses: a list of the shape Expat delivers, the clause it violates, the tree handed
                                   out, root_canon false (1 empty text; 3 CDATA in binary; 4 embedded document in CDATA;
                                   6 embedded name; 9 binary Data).  2, 8, 10, 12 are about lists Expat does not deliver;
                                   11 is the parameter emb.
   C02f_shape_clauses_silent       full: on a list of the shape Expat delivers the clauses 2, 8, 10, 12 never fire
   C02f_clauses_that_matter        full: project's tables + Expat shape + octet attribute names: only 1, 3, 4, 6, 9, 11 can fire
   C02f_added_cdata_is_canonical   a vCard in <Data> delivered in three pieces, one of them a lone LF: canonical, idempotent
   C02f_text_split_invariant       full: a text delivered in any number of non-empty pieces anywhere in the list gives the
                                   same result as in one piece, outside the lone-LF case (stated: no_lone_lf), which is a
                                   real exception (C02f_lone_lf_differs)
   C02f_text_split_step, _run      the two-piece step and the n-piece run forms
   SINCE THE LF-HACK FIX (props/C02/LF-hack-fix.patch: a lone LF piece gets its CR only when the text before it does not end
   with one) the exception is: under a vObject data type, a piece that is exactly one LF and does not follow a CR
   (lone_lf_hack: a = [LF] and the text already there does not end with CR, or b = [LF] and a does not end with CR;
   no_lone_lf / lf_after_cr for n pieces).  "a", LF, "b" vs "a\nb" is still an exception: that is the intended hack.
   C02f_lone_lf_fixed              full: a piece ending with CR followed by a lone LF piece = the one text "...CR LF"
   C02f_lone_lf_fixed_stored       ... which is stored as it is (exactly CR LF)
   C02f_lone_lf_fixed_vcard, C02f_lone_lf_old_witness, C02f_cr_lf_one_event_untouched
                                   "BEGIN:VCARD&#13;&#10;" (three pieces): CR LF with the fix, CR CR LF before it
                                   (Model/XmlFrontLfOld.v keeps the old callback for the ties and this witness) *)
From Coq Require Import List NArith String Bool.
From Wbxml Require Import Model.TablesDefs Model.Tables Model.LangSelect Model.EncWbxml Model.XmlFront Model.XmlFrontEvents Model.XmlFrontCanonEvents Model.XmlFrontLfOld.
From Wbxml Require Import Proofs.XmlFrontProofs Proofs.XmlFrontBalance Proofs.XmlFrontDataType Proofs.XmlFrontSplit Proofs.XmlFrontInverse Proofs.XmlFrontImage Proofs.XmlFrontShape Gen.TablesData.
Import ListNotations.
Local Open Scope N_scope.

Theorem C02f_image_canonical :
  forall main sub input emb prolog root attrs i i' body epilog ok t,
  (forall d, sub d <> inr WBXML_OK) ->
  Forall (prolog_any) prolog -> balanced body -> Forall is_pi epilog -> N.of_nat (List.length body) + 1 < 4294967296 ->
  let evs := prolog ++ EvStartElement root attrs i :: body ++ EvEndElement root i' :: epilog in
  evs_canon main sub input emb evs = true -> tree_from_xml main sub input evs ok = inl t ->
  exists l r, In l main /\ c_lang (run main sub input init_ctx evs) = Some l /\ xt_lang t = l_id l /\ xt_roots t = [r] /\
              root_canon l emb r = true.
Proof. exact image_canonical. Qed.
Print Assumptions C02f_image_canonical.

Theorem C02f_image_canonical_any :
  forall main sub input emb evs ok t,
  evs_canon main sub input emb evs = true -> tree_from_xml main sub input evs ok = inl t ->
  xt_roots t = [] \/
  exists l r, In l main /\ c_lang (run main sub input init_ctx evs) = Some l /\ xt_lang t = l_id l /\ xt_roots t = [r] /\
              root_canon l emb r = true.
Proof. exact image_canonical_any. Qed.
Print Assumptions C02f_image_canonical_any.

(* the invariant behind it, one event at a time *)
Theorem C02f_canonical_step :
  forall main sub input emb c e,
  CInv emb c -> step_clause main sub input emb c e = 0 -> CInv emb (step main sub input c e).
Proof. exact step_inv. Qed.
Print Assumptions C02f_canonical_step.

Theorem C02f_front_idempotent :
  forall main sub input emb sub' input' evs ok t,
  (forall l, In l main -> search_table main (option_map str (option_map bs (l_pub_text l))) (option_map str (option_map bs (l_dtd l))) None = Some l) ->
  (forall l lid roots, In l main -> emb lid roots = true -> emb_spec main sub' input' l lid roots) ->
  input' <> [] ->
  evs_canon main sub input emb evs = true -> tree_from_xml main sub input evs ok = inl t -> xt_roots t <> [] ->
  exists l r, xt_roots t = [r] /\ xt_lang t = l_id l /\ root_canon l emb r = true /\
              tree_from_xml main sub' input' (events_of l r) true = inl (mk_xtree (xt_lang t) 0 (xt_roots t)).
Proof. exact front_idempotent. Qed.
Print Assumptions C02f_front_idempotent.

Theorem C02f_front_idempotent_main :
  forall sub input sub' input' evs ok t,
  input' <> [] ->
  evs_canon main_table sub input no_emb evs = true -> tree_from_xml main_table sub input evs ok = inl t ->
  xt_roots t <> [] -> xt_charset t = 0 ->
  exists l r, xt_roots t = [r] /\ xt_lang t = l_id l /\ tree_from_xml main_table sub' input' (events_of l r) true = inl t.
Proof. exact front_idempotent_main. Qed.
Print Assumptions C02f_front_idempotent_main.

Theorem C02f_table_doctype_selects :
  forall l, In l main_table ->
  search_table main_table (option_map str (option_map bs (l_pub_text l))) (option_map str (option_map bs (l_dtd l))) None = Some l.
Proof. exact main_table_doctype_selects. Qed.
Print Assumptions C02f_table_doctype_selects.

(* ---------------------------------------------------------------- the SyncML data type *)

Theorem C02f_data_type_stable :
  forall f1 f2 up, frame_tag f1 = frame_tag f2 -> frame_tag f1 <> None ->
  syncml_data_type (f1 :: up) = syncml_data_type (f2 :: up).
Proof. exact dt_same_tag. Qed.
Print Assumptions C02f_data_type_stable.

Theorem C02f_data_type_through_cdata :
  forall C f f2 up, is_cdata_frame C = true -> frame_tag f = frame_tag f2 -> frame_tag f <> None ->
  syncml_data_type (C :: f :: up) = syncml_data_type (f2 :: up).
Proof. exact dt_through_cdata. Qed.
Print Assumptions C02f_data_type_through_cdata.

(* ---------------------------------------------------------------- clauses that never fire *)

Theorem C02f_tag_clause_silent :
  forall l name, In l main_table -> tag_canon l (fst (resolve_tag l name)) = true.
Proof. exact main_table_tag_clause_silent. Qed.
Print Assumptions C02f_tag_clause_silent.

Theorem C02f_tag_clause_silent_any_table :
  forall l name, lang_tags_canon l = true -> lang_names_found l = true -> tag_canon l (fst (resolve_tag l name)) = true.
Proof. exact resolve_tag_canon. Qed.
Print Assumptions C02f_tag_clause_silent_any_table.

Theorem C02f_attr_clause_silent :
  forall l raw, Forall (fun nv => Forall (fun c => c < 256) (fst nv)) raw -> attrs_canon l (map (resolve_attr l) raw) = true.
Proof. exact attrs_canon_octets. Qed.
Print Assumptions C02f_attr_clause_silent.

Theorem C02f_shape_clauses_silent :
  forall main sub input emb, (forall d, sub d <> inr WBXML_OK) ->
  forall prolog root attrs i i' body epilog,
  Forall prolog_any prolog -> balanced body -> Forall is_pi epilog -> N.of_nat (List.length body) + 1 < LIM ->
  let k := evs_clause main sub input emb (prolog ++ EvStartElement root attrs i :: body ++ EvEndElement root i' :: epilog) in
  k <> 2 /\ k <> 8 /\ k <> 10 /\ k <> 12.
Proof. exact shape_clauses_silent. Qed.
Print Assumptions C02f_shape_clauses_silent.

Theorem C02f_clauses_that_matter :
  forall sub input emb prolog root attrs i i' body epilog,
  (forall d, sub d <> inr WBXML_OK) ->
  Forall prolog_any prolog -> balanced body -> Forall is_pi epilog -> N.of_nat (List.length body) + 1 < LIM ->
  let evs := prolog ++ EvStartElement root attrs i :: body ++ EvEndElement root i' :: epilog in
  Forall ev_octets evs ->
  In (evs_clause main_table sub input emb evs) [0; 1; 3; 4; 6; 9; 11].
Proof. exact clauses_that_matter. Qed.
Print Assumptions C02f_clauses_that_matter.

(* ---------------------------------------------------------------- necessity *)

Theorem C02f_clause_1_necessary :
  clause_of w1_events = 1 /\
  tree_from_xml main_table (fun _ => inr 104) [60] w1_events true = inl (mk_xtree 1101 0 [w1_root]) /\
  root_canon (lang_by_id 1101) no_emb w1_root = false.
Proof. exact clause_1_necessary. Qed.
Print Assumptions C02f_clause_1_necessary.

Theorem C02f_clause_3_necessary :
  clause_of w2_events = 3 /\
  tree_from_xml main_table (fun _ => inr 104) [60] w2_events true = inl (mk_xtree 2402 0 [w2_root]) /\
  root_canon (lang_by_id 2402) no_emb w2_root = false.
Proof. exact clause_3_necessary. Qed.
Print Assumptions C02f_clause_3_necessary.

Theorem C02f_clause_4_necessary :
  evs_clause main_table w5_sub [60] all_emb w5_events = 4 /\
  tree_from_xml main_table w5_sub [60] w5_events true = inl (mk_xtree 2201 0 [w5_root]) /\
  root_canon (lang_by_id 2201) all_emb w5_root = false.
Proof. exact image_not_canonical_embedded_in_cdata. Qed.
Print Assumptions C02f_clause_4_necessary.

Theorem C02f_clause_6_necessary :
  clause_of w6_events = 6 /\
  tree_from_xml main_table (fun _ => inr 104) [60] w6_events true = inl (mk_xtree 2202 0 [w6_root]) /\
  root_canon (lang_by_id 2202) no_emb w6_root = false /\
  tree_from_xml main_table (fun _ => inr 104) [60] (events_of (lang_by_id 2202) w6_root) true = inr 101.
Proof. exact image_not_canonical_embedded_name. Qed.
Print Assumptions C02f_clause_6_necessary.

Theorem C02f_clause_9_necessary :
  clause_of w3_events = 9 /\
  tree_from_xml main_table (fun _ => inr 104) [60] w3_events true = inl (mk_xtree 2402 0 [w3_root]) /\
  root_canon (lang_by_id 2402) no_emb w3_root = false.
Proof. exact clause_9_necessary. Qed.
Print Assumptions C02f_clause_9_necessary.

Theorem C02f_added_cdata_is_canonical :
  let evs := (lf_pre ++ [EvCharacters (bs "BEGIN:VCARD"); EvCharacters [10]; EvCharacters (bs "END:VCARD")] ++ lf_post)%list in
  clause_of evs = 0 /\
  exists t r, tree_from_xml main_table (fun _ => inr 104) [60] evs true = inl t /\ xt_roots t = [r] /\
              root_canon (lang_by_id (xt_lang t)) no_emb r = true /\
              tree_from_xml main_table (fun _ => inr 104) [60] (events_of (lang_by_id (xt_lang t)) r) true = inl t.
Proof. exact added_cdata_is_canonical. Qed.
Print Assumptions C02f_added_cdata_is_canonical.

(* ---------------------------------------------------------------- text in pieces *)

Theorem C02f_text_split_step :
  forall main sub input c a b,
  a <> [] -> b <> [] -> in_element c -> ~ lone_lf_hack c a b ->
  step main sub input (step main sub input c (EvCharacters a)) (EvCharacters b) = step main sub input c (EvCharacters (a ++ b)).
Proof. exact text_split_step. Qed.
Print Assumptions C02f_text_split_step.

Theorem C02f_text_split_run :
  forall main sub input c p pieces,
  Forall (fun p => p <> []) (p :: pieces) -> in_element c -> no_lone_lf c (p :: pieces) ->
  run main sub input c (map EvCharacters (p :: pieces)) = step main sub input c (EvCharacters (List.concat (p :: pieces))).
Proof. exact text_split_run. Qed.
Print Assumptions C02f_text_split_run.

Theorem C02f_text_split_invariant :
  forall main sub input pre p pieces post expat_ok,
  Forall (fun p => p <> []) (p :: pieces) ->
  in_element (run main sub input init_ctx pre) -> no_lone_lf (run main sub input init_ctx pre) (p :: pieces) ->
  tree_from_xml main sub input (pre ++ map EvCharacters (p :: pieces) ++ post) expat_ok =
  tree_from_xml main sub input (pre ++ EvCharacters (List.concat (p :: pieces)) :: post) expat_ok.
Proof. exact text_split_invariant. Qed.
Print Assumptions C02f_text_split_invariant.

Theorem C02f_lone_lf_differs :
  tree_from_xml main_table (fun _ => inr 104) [60] (lf_pre ++ [EvCharacters [65]; EvCharacters [10]] ++ lf_post) true <>
  tree_from_xml main_table (fun _ => inr 104) [60] (lf_pre ++ [EvCharacters [65; 10]] ++ lf_post) true.
Proof. exact lone_lf_differs. Qed.
Print Assumptions C02f_lone_lf_differs.

(* ---------------------------------------------------------------- the LF-hack fix *)

Theorem C02f_lone_lf_fixed :
  forall main sub input c a,
  ends_cr a = true -> in_element c ->
  step main sub input (step main sub input c (EvCharacters a)) (EvCharacters [10]) = step main sub input c (EvCharacters (a ++ [10])).
Proof. exact lone_lf_after_cr. Qed.
Print Assumptions C02f_lone_lf_fixed.

Theorem C02f_lone_lf_fixed_stored :
  forall main sub input c f up d a,
  c_error c = WBXML_OK -> c_skip_lvl c = 0 -> c_spine c = f :: up -> syncml_data_type (f :: up) = Some d -> ends_cr a = true ->
  step main sub input (step main sub input c (EvCharacters a)) (EvCharacters [10]) =
  if dt_wants_cdata d && negb (is_cdata_frame f) && negb (first_kid_is_cdata f)
  then set_spine c (store (mk_frame FCData []) (a ++ [10]) :: f :: up)
  else set_spine c (store f (a ++ [10]) :: up).
Proof. exact lone_lf_after_cr_stored. Qed.
Print Assumptions C02f_lone_lf_fixed_stored.

Theorem C02f_lone_lf_fixed_vcard :
  tree_from_xml main_table (fun _ => inr 104) [60] (lf_pre ++ cr_lf_pieces ++ lf_post) true =
  tree_from_xml main_table (fun _ => inr 104) [60] (lf_pre ++ [EvCharacters (bs "BEGIN:VCARD" ++ [13; 10])] ++ lf_post) true.
Proof. exact lone_lf_fixed_vcard. Qed.
Print Assumptions C02f_lone_lf_fixed_vcard.

Theorem C02f_lone_lf_old_witness :
  tree_from_xml_old main_table (fun _ => inr 104) [60] (lf_pre ++ cr_lf_pieces ++ lf_post) true =
  tree_from_xml main_table (fun _ => inr 104) [60] (lf_pre ++ [EvCharacters (bs "BEGIN:VCARD" ++ [13; 13; 10])] ++ lf_post) true.
Proof. exact lone_lf_old_witness. Qed.
Print Assumptions C02f_lone_lf_old_witness.

Theorem C02f_cr_lf_one_event_untouched :
  tree_from_xml_old main_table (fun _ => inr 104) [60] (lf_pre ++ [EvCharacters (bs "BEGIN:VCARD" ++ [13; 10])] ++ lf_post) true =
  tree_from_xml main_table (fun _ => inr 104) [60] (lf_pre ++ [EvCharacters (bs "BEGIN:VCARD" ++ [13; 10])] ++ lf_post) true.
Proof. exact cr_lf_one_event_untouched. Qed.
Print Assumptions C02f_cr_lf_one_event_untouched.
