(* C02 (front end), round 3 — statements about Model/XmlFront.v as it is since /repo c0648d3 (the binary flush also runs at
   start-element).  Proofs: Proofs/XmlFrontSticky.v, Proofs/XmlFrontBinary.v, Proofs/XmlFrontSize.v (new files).

   Goal 1  C02f_cache_invariant, C02f_sticky_error_strict, C02f_sticky_error_strict_run     full, for ALL event lists
           (the strict reading holds now: no `_refuted` witness exists any more; C02f_sticky_error — the flush form — stays
            the general lemma for arbitrary contexts)
   Goal 2  C02f_binary_items (general: any chunking, any items), C02f_binary_runs_in_place, C02f_binary_invalid_run_refused,
           C02f_base64_text_decodes (C11's round trip through wbxml_buffer_decode_base64)     full
   Goal 3  C02f_tree_size_linear, C02f_weighted_size_split; C02c_linear_in_events is in Properties_C02_conv.v            full *)
From Coq Require Import List NArith.
From Wbxml Require Import Model.TablesDefs Model.Tables Model.Codec Model.LangSelect Model.EncWbxml Model.XmlFront.
From Wbxml Require Import Proofs.XmlFrontProofs Proofs.XmlFrontSticky Proofs.XmlFrontBinary Proofs.XmlFrontSize Proofs.EncWbxmlSize2.
Import ListNotations.
Local Open Scope N_scope.

(* ------------------------------------------------------------------ Goal 1: the strict sticky error *)

(* the invariant: a context with a recorded error never has cached base64 text on `current` (so flush_binary is the identity
   on it).  It holds initially and is preserved by every callback, whatever the event. *)
Theorem C02f_cache_invariant :
  forall main sub input evs, let c := run main sub input init_ctx evs in c_error c <> WBXML_OK -> no_cache c.
Proof. intros main sub input evs. exact (cache_inv_run main sub input evs init_ctx cache_inv_init). Qed.
Print Assumptions C02f_cache_invariant.

(* once the run from the initial context has recorded an error, every callback returns the context unchanged; the
   XML-declaration and DOCTYPE callbacks (no error check in the C) can still set tree->orig_charset / tree->lang, nothing else *)
Theorem C02f_sticky_error_strict :
  forall main sub input evs e, let c := run main sub input init_ctx evs in
  c_error c <> WBXML_OK ->
  match e with
  | EvXmlDecl _ _ | EvStartDoctype _ _ _ => same_but_decl c (step main sub input c e)
  | _ => step main sub input c e = c
  end.
Proof. exact sticky_error_strict_step. Qed.
Print Assumptions C02f_sticky_error_strict.

Theorem C02f_sticky_error_strict_run :
  forall main sub input evs more, let c := run main sub input init_ctx evs in
  c_error c <> WBXML_OK -> same_but_decl c (run main sub input c more).
Proof. exact sticky_error_strict_run. Qed.
Print Assumptions C02f_sticky_error_strict_run.

(* ------------------------------------------------------------------ Goal 2: binary-flagged content *)

(* C11's round trip as the front end uses it: wbxml_buffer_decode_base64 inverts RFC 4648 on non-empty payloads *)
Theorem C02f_base64_text_decodes :
  forall b, b <> [] -> Forall (fun c => c < 256) b -> buffer_b64_dec (rfc4648 b) = Some b.
Proof. exact buffer_b64_dec_rfc. Qed.
Print Assumptions C02f_base64_text_decodes.

(* general form: between the tags of a binary-flagged element (not named Data, fewer than 999 ancestors), runs of character
   data in any chunking and empty child elements behave as `spec` says: a run is cached, decoded when the next child starts
   and put in front of it; a run that does not decode gives WBXML_ERROR_B64_DEC *)
Theorem C02f_binary_items :
  forall main sub input l p t o nm attrs up,
  (N.land o WBXML_TAG_OPTION_BINARY =? 0) = false -> beq nm s_Data = false -> (S (List.length up) < 1000)%nat ->
  forall items, Forall child_ok items -> forall c rk cache, at_bin l p t o nm attrs up c rk cache ->
  match spec l items rk cache with
  | Some (rk', cache') => at_bin l p t o nm attrs up (run main sub input c (flat_map item_events items)) rk' cache'
  | None => c_error (run main sub input c (flat_map item_events items)) = E_B64_DEC
  end.
Proof. exact run_items. Qed.
Print Assumptions C02f_binary_items.

(* payloads b1, b2, ... written as RFC 4648 text between child elements: the children of the element are exactly the
   payloads (as text nodes, which the encoder writes as opaque data) and the child elements, in document order *)
Theorem C02f_binary_runs_in_place :
  forall main sub input l p t o nm attrs g up' content c name idx,
  (N.land o WBXML_TAG_OPTION_BINARY =? 0) = false -> beq nm s_Data = false -> (S (S (List.length up')) < 1000)%nat ->
  Forall piece_ok content -> no_adj_payload content ->
  c_error c = WBXML_OK -> c_skip_lvl c = 0 -> c_lang c = Some l ->
  c_spine c = mk_frame (FElt (TagTok p t o nm) attrs None) [] :: g :: up' ->
  let c' := run main sub input c (flat_map item_events (map piece_item content) ++ [EvEndElement name idx]) in
  c_error c' = WBXML_OK /\ c_skip_lvl c' = 0 /\
  c_spine c' = add_kid g (NElt (TagTok p t o nm) attrs (map (piece_node l) content)) :: up'.
Proof. exact binary_runs_in_place. Qed.
Print Assumptions C02f_binary_runs_in_place.

Theorem C02f_binary_invalid_run_refused :
  forall main sub input l p t o nm attrs up items c name idx,
  (N.land o WBXML_TAG_OPTION_BINARY =? 0) = false -> beq nm s_Data = false -> (S (List.length up) < 1000)%nat ->
  Forall child_ok items ->
  c_error c = WBXML_OK -> c_skip_lvl c = 0 -> c_lang c = Some l ->
  c_spine c = mk_frame (FElt (TagTok p t o nm) attrs None) [] :: up ->
  match spec l items [] None with
  | None => True
  | Some (rk', cache') => flush_spec rk' cache' = None
  end ->
  c_error (run main sub input c (flat_map item_events items ++ [EvEndElement name idx])) = E_B64_DEC.
Proof. exact binary_invalid_run_refused. Qed.
Print Assumptions C02f_binary_invalid_run_refused.

(* ------------------------------------------------------------------ Goal 3: the tree is linear in the event volume *)

(* nszs: one per node + tag names + attribute names and values + text octets (an embedded tree = one node);
   evvol: per start tag 2 + |name| + sum (1 + |attribute name| + |value|), per end tag 2, per text event |text| + 3,
   per CDATA start 1 *)
Theorem C02f_tree_size_linear :
  forall main sub input evs ok t, tree_from_xml main sub input evs ok = inl t -> (nszs (xt_roots t) <= evvol evs)%nat.
Proof. exact tree_size_linear. Qed.
Print Assumptions C02f_tree_size_linear.

(* the weighted size the encoder bound uses = this size + what the embedded trees weigh *)
Theorem C02f_weighted_size_split : forall h l, wsizes h l = (nszs l + embs h l)%nat.
Proof. exact wsizes_split. Qed.
Print Assumptions C02f_weighted_size_split.

(* ------------------------------------------------------------------ examples *)

Example C02f_ex_pieces : no_adj_payload [PBytes [102]; PChild [120] [] 0 0; PBytes [111; 111]] /\
                         Forall piece_ok [PBytes [102]; PChild [120] [] 0 0; PBytes [111; 111]].
Proof. split; [exact I|]. repeat constructor; try discriminate; try reflexivity. Qed.
Example C02f_ex_spec_refuses : spec (mk_lang 0 0 None None None None None None None None) [IRun [[33; 33]]; IChild [120] [] 0 0] [] None = None.
Proof. vm_compute. reflexivity. Qed.
