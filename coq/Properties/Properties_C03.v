(* C03 — XML -> WBXML -> XML round trip preserves the document and is idempotent.
   Only statements, each closed by `exact`, with the Print-Assumptions command under each.

   Aimed at (DESIGN.md C03): forall l o t, wf_tree l t -> build l (parse (enc_wbxml l o t)) = Ok (norm o t), norm idempotent,
   second iteration byte-identical.  What is PROVED here is the part that lives on the encoder's tree type
   (Model/EncWbxml.v, Model/TreeNorm.v): the normalisation is idempotent and is the identity under keep-ws, the trimming
   function is idempotent and keeps non-blank text non-blank, and the encoder's text policy sees exactly the normalised
   text (so encoding commutes with normalising a text node).  The composition with the parser / tree-builder / XML
   generator (other agents' models) is NOT proved: the round trip itself and the byte identity of the second iteration
   are CORRESPONDED ONLY on the C (props/C03/check.py).  Determinism of the encoder is trivial in Gallina (enc_wbxml is
   a function) and stated for completeness. *)
From Coq Require Import List NArith.
From Wbxml Require Import Model.Codec Model.EncWbxml Model.TreeNorm Proofs.TreeNormProofs.
Import ListNotations.
Local Open Scope N_scope.

Theorem C03_norm_idempotent : forall keep t, norm keep (norm keep t) = norm keep t.
Proof. exact norm_idempotent. Qed.
Print Assumptions C03_norm_idempotent.

Theorem C03_norm_keep_ws_is_identity : forall t, norm true t = t.
Proof. exact norm_keep_identity. Qed.
Print Assumptions C03_norm_keep_ws_is_identity.

(* wbxml_buffer_strip_blanks *)
Theorem C03_trim_idempotent : forall b, strip_blanks (strip_blanks b) = strip_blanks b.
Proof. exact strip_blanks_idem. Qed.
Print Assumptions C03_trim_idempotent.

Theorem C03_trim_keeps_text_non_blank : forall b, only_ws b = false -> only_ws (strip_blanks b) = false.
Proof. exact strip_blanks_not_blank. Qed.
Print Assumptions C03_trim_keeps_text_non_blank.

(* the encoder writes nothing for a blank-only text (trim mode) ... *)
Theorem C03_blank_text_is_dropped_partial : forall e st p c,
  is_binary_tag st p = false -> in_cdata st = false -> e_ignore_empty e = true -> only_ws c = true ->
  enc_text e st p c = EOk ([], st).
Proof. exact enc_text_blank. Qed.
Print Assumptions C03_blank_text_is_dropped_partial.

(* ... and encodes any other text exactly as it would encode its trimmed form: what reaches the WBXML is norm's text *)
Theorem C03_encoder_sees_normalised_text_partial : forall e st p c,
  is_binary_tag st p = false -> in_cdata st = false -> e_remove_blanks e = true -> only_ws c = false ->
  enc_text e st p c = enc_text e st p (strip_blanks c).
Proof. exact enc_text_normalised. Qed.
Print Assumptions C03_encoder_sees_normalised_text_partial.

(* with keep-ws the text is encoded as it is *)
Theorem C03_keep_ws_text_untouched_partial : forall e st p c,
  is_binary_tag st p = false -> in_cdata st = false -> e_ignore_empty e = false -> e_remove_blanks e = false ->
  enc_text e st p c = enc_value e st false None [] p (cstr c).
Proof. exact enc_text_keep. Qed.
Print Assumptions C03_keep_ws_text_untouched_partial.

(* determinism (a function): the second conversion of the same tree under the same options gives the same bytes *)
Theorem C03_encoder_deterministic : forall tbl l o t1 t2, t1 = t2 -> enc_wbxml tbl l o t1 = enc_wbxml tbl l o t2.
Proof. exact (fun tbl l o t1 t2 H => f_equal (enc_wbxml tbl l o) H). Qed.
Print Assumptions C03_encoder_deterministic.

Example C03_norm_example :
  norm false [NElt (TagLit [112]) [] [NText [32; 32]; NText [32; 97; 32]; NCData [NText [32; 98; 32]]]]
  = [NElt (TagLit [112]) [] [NText [97]; NCData [NText [32; 98; 32]]]].
Proof. vm_compute. reflexivity. Qed.
