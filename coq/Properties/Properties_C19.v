(* C19 — The byte-buffer and list containers behave as plain sequences.
   Only statements, each closed by `exact`, with Print Assumptions beneath.
   Models: Model/BufferModel.v, Model/ListModel.v; specification: Model/BufferSpec.v and the
   `lspec_*` part of ListModel.v; proofs: Proofs/BufferProofs.v, Proofs/ListProofs.v. *)
From Coq Require Import List NArith.
From Wbxml Require Import Model.Codec Model.BufferModel Model.BufferSpec Model.ListModel
  Proofs.BufferProofs Proofs.ListProofs.
Import ListNotations.

(* (d) a static buffer refuses every mutation: state unchanged, FALSE (void for no_spaces) *)
Theorem C19_static_refuses : forall b o, bstatic b = true ->
  match o with
  | OCreate _ _ | OStaCreate _ | ODuplicate => True
  | OLen | OGetChar _ | OCompare _ | OCompareCstr _ | OSplitWords
  | OSearchChar _ _ | OSearch _ _ | OSearchCstr _ _ | OOnlyWs => fst (step b o) = b
  | ONoSpaces => step b o = (b, RVoid)
  | _ => step b o = (b, RBool false)
  end.
Proof. exact static_refuses. Qed.
Print Assumptions C19_static_refuses.

(* (c) out-of-range positions fail without effect *)
Theorem C19_out_of_range : forall b pos,
  ((N.of_nat (blen b) < pos)%N ->
     (forall src, insert b src pos = (b, false)) /\ (forall str, insert_cstr b str pos = (b, false))) /\
  ((N.of_nat (blen b) <= pos)%N ->
     (forall n, delete b pos n = (b, false)) /\ (forall ch, set_char b pos ch = (b, false)) /\
     get_char b pos = None /\ (forall ch, search_char b ch pos = None)).
Proof.
  intros b pos. split; intros H.
  - split; intros; [apply insert_out_of_range | apply insert_cstr_out_of_range]; exact H.
  - repeat split; intros; [apply delete_out_of_range | apply set_char_out_of_range
      | apply get_char_out_of_range | apply search_char_out_of_range]; exact H.
Qed.
Print Assumptions C19_out_of_range.

(* (e) lists: after any operation sequence the items and every returned value equal those of a
   plain sequence, and len = number of items (and tail designates the last item) throughout *)
Theorem C19_list_refines : forall ops,
  map (fun x => (chain (fst x), snd x)) (lrun lcreate ops) = lspec_run [] ops /\
  Forall (fun x => llen (fst x) = length (chain (fst x)) /\ lfault (fst x) = false) (lrun lcreate ops).
Proof.
  intros ops. destruct (lrun_refines ops lcreate LInv_create) as (H1 & H2). split; [exact H1|].
  eapply Forall_impl; [|exact H2]. intros x (Hf & Hl & _). split; assumption.
Qed.
Print Assumptions C19_list_refines.

Example C19_ex_list :
  map (fun x => chain (fst x)) (lrun lcreate [LAppend 1; LAppend 2; LInsert 3 1; LInsert 4 99; LInsert 5 0; LExtractFirst])
  = [[1]; [1; 2]; [1; 3; 2]; [1; 3; 2; 4]; [5; 1; 3; 2; 4]; [1; 3; 2; 4]]%N.
Proof. reflexivity. Qed.
