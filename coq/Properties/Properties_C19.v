(* C19 — The byte-buffer and list containers behave as plain sequences.
   Only statements, each closed by `exact`, with Print Assumptions beneath.
   Models: Model/BufferModel.v, Model/ListModel.v; specification: Model/BufferSpec.v and the
   `lspec_*` part of ListModel.v; proofs: Proofs/BufferProofs.v, Proofs/ListProofs.v. *)
From Coq Require Import List NArith.
From Wbxml Require Import Model.Codec Model.BufferModel Model.BufferSpec Model.ListModel
  Proofs.BufferProofs Proofs.BufferSearchProofs Proofs.ListProofs.
Import ListNotations.

(* (a) the invariant: no store outside the allocated cells ever happened; a static buffer's len is
   covered by its data; a dynamic buffer either has no storage and len 0, or len < malloced and the
   cell after the contents holds NUL.  Established by create ... *)
Theorem C19_invariant_established : forall data block,
  (N.of_nat (length data) + 1 + block < 4294967296)%N -> Inv (create data block).
Proof. exact Inv_create. Qed.
Print Assumptions C19_invariant_established.

(* ... and what it says for a dynamic buffer that has storage: one NUL right after the contents *)
Theorem C19_terminator : forall b, Inv b -> bstatic b = false -> cells b <> [] ->
  bfault b = false /\ blen b < length (cells b) /\ nth (blen b) (cells b) junk = 0%N.
Proof. exact Inv_terminator. Qed.
Print Assumptions C19_terminator.

(* (a)+(b) one operation: contents, static mark and returned value are those of the plain byte string
   (spec_step), and the invariant is preserved.  PARTIAL: proved for every operation except
   split_words (proved_op_s = false for it only; its result is tied to words_spec by the
   correspondence check and the python oracle only; that it leaves the buffer unchanged is
   C19_static_refuses' read-only clause for static buffers and split_words_readonly in general).
   op_ok = the documented contract: delete ranges inside the contents, sizes below 2^32. *)
Theorem C19_step_refines_partial : forall b o, Inv b -> op_ok (abs b) o = true -> proved_op_s o = true ->
  abs (fst (step b o)) = fst (spec_step (abs b) o) /\
  snd (step b o) = snd (spec_step (abs b) o) /\
  Inv (fst (step b o)).
Proof. exact step_refines_s. Qed.
Print Assumptions C19_step_refines_partial.

(* ... lifted to all finite operation sequences (fold over `run`): after every operation *)
Theorem C19_run_refines_partial : forall ops b, Inv b -> ops_ok (abs b) ops = true -> forallb proved_op_s ops = true ->
  map (fun x => (abs (fst x), snd x)) (run b ops) = spec_run (abs b) ops /\
  Forall (fun x => Inv (fst x)) (run b ops).
Proof. exact run_refines_s. Qed.
Print Assumptions C19_run_refines_partial.

(* (d) a static buffer refuses every mutation: state unchanged, FALSE (void for no_spaces) *)
Theorem C19_static_refuses : forall b o, bstatic b = true ->
  match o with
  | OCreate _ _ | OStaCreate _ | ODuplicate => True
  | OLen | OGetChar _ | OCompare _ | OCompareCstr _ | OSplitWords
  | OSearchChar _ _ | OSearch _ _ | OSearchCstr _ _ | OOnlyWs => fst (step b o) = b
  | ONoSpaces => step b o = (b, RVoid)
  | _ => step b o = (b, RBool false)
  end.
Proof. exact static_refuses. Qed.
Print Assumptions C19_static_refuses.

(* (c) out-of-range positions fail without effect *)
Theorem C19_out_of_range : forall b pos,
  ((N.of_nat (blen b) < pos)%N ->
     (forall src, insert b src pos = (b, false)) /\ (forall str, insert_cstr b str pos = (b, false))) /\
  ((N.of_nat (blen b) <= pos)%N ->
     (forall n, delete b pos n = (b, false)) /\ (forall ch, set_char b pos ch = (b, false)) /\
     get_char b pos = None /\ (forall ch, search_char b ch pos = None)).
Proof.
  intros b pos. split; intros H.
  - split; intros; [apply insert_out_of_range | apply insert_cstr_out_of_range]; exact H.
  - repeat split; intros; [apply delete_out_of_range | apply set_char_out_of_range
      | apply get_char_out_of_range | apply search_char_out_of_range]; exact H.
Qed.
Print Assumptions C19_out_of_range.

(* (e) lists: after any operation sequence the items and every returned value equal those of a
   plain sequence, and len = number of items (and tail designates the last item) throughout *)
Theorem C19_list_refines : forall ops,
  map (fun x => (chain (fst x), snd x)) (lrun lcreate ops) = lspec_run [] ops /\
  Forall (fun x => llen (fst x) = length (chain (fst x)) /\ lfault (fst x) = false) (lrun lcreate ops).
Proof.
  intros ops. destruct (lrun_refines ops lcreate LInv_create) as (H1 & H2). split; [exact H1|].
  eapply Forall_impl; [|exact H2]. intros x (Hf & Hl & _). split; assumption.
Qed.
Print Assumptions C19_list_refines.

Example C19_ex_list :
  map (fun x => chain (fst x)) (lrun lcreate [LAppend 1; LAppend 2; LInsert 3 1; LInsert 4 99; LInsert 5 0; LExtractFirst])
  = [[1]; [1; 2]; [1; 3; 2]; [1; 3; 2; 4]; [5; 1; 3; 2; 4]; [1; 3; 2; 4]]%N.
Proof. reflexivity. Qed.

(* non-vacuity *)
Example C19_ex_terminator_is_stored :
  cells (create [1; 2]%N 5%N) = [1; 2; 0; 170; 170; 170]%N /\
  cells (fst (delete (create [1; 2; 3]%N 0%N) 1%N 1%N)) = [1; 3; 0; 0]%N /\
  Inv (create [1; 2]%N 5%N).
Proof. split; [reflexivity | split; [reflexivity | apply Inv_create; reflexivity]]. Qed.

Example C19_ex_sequence :
  let ops := [OAppendCstr [32; 32; 97; 9; 10; 98; 32; 0; 99]; OShrink; OStrip; OInsert [120; 121] 1; ODelete 0 1;
              OSetChar 9 1; OBinToHex true; OHexToBin; OAppendMb 300; ORemoveTrailingZeros; OEncodeB64; ODecodeB64; OSearch [32; 98] 1]%N in
  ops_ok (abs (create [] 0%N)) ops = true /\ forallb proved_op_s ops = true /\
  map (fun x => (contents (fst x), snd x)) (run (create [] 0%N) ops) =
    [([32; 32; 97; 9; 10; 98; 32], RBool true); ([32; 97; 32; 98; 32], RBool true); ([97; 32; 98], RBool true);
     ([97; 120; 121; 32; 98], RBool true); ([120; 121; 32; 98], RBool true); ([120; 121; 32; 98], RBool false);
     ([55; 56; 55; 57; 50; 48; 54; 50], RBool true); ([120; 121; 32; 98], RBool true);
     ([120; 121; 32; 98; 130; 44], RBool true); ([120; 121; 32; 98; 130; 44], RBool true);
     ([101; 72; 107; 103; 89; 111; 73; 115], RBool true); ([120; 121; 32; 98; 130; 44], RBool true);
     ([120; 121; 32; 98; 130; 44], RVal (Some 2))]%N.
Proof. vm_compute. repeat split. Qed.

Example C19_ex_static : fst (step (sta_create [1; 2]%N) (OAppendChar 3%N)) = sta_create [1; 2]%N.
Proof. reflexivity. Qed.
