(* C19 — The byte-buffer and list containers behave as plain sequences.
   Only statements, each closed by `exact`, with Print Assumptions beneath.
   Models: Model/BufferModel.v, Model/ListModel.v; specification: Model/BufferSpec.v and the
   `lspec_*` part of ListModel.v; proofs: Proofs/BufferProofs.v, Proofs/ListProofs.v. *)
From Coq Require Import List NArith.
From Wbxml Require Import Model.Codec Model.BufferModel Model.BufferSpec Model.ListModel Model.BufferAlloc
  Proofs.BufferProofs Proofs.BufferSearchProofs Proofs.BufferWordsProofs Proofs.BufferAllocProofs Proofs.ListProofs.
Import ListNotations.

(* (a) the invariant: no store outside the allocated cells ever happened; a static buffer's len is
   covered by its data; a dynamic buffer either has no storage and len 0, or len < malloced and the
   cell after the contents holds NUL.  Established by create for ANY arguments: whenever it does not
   return NULL (create_opt = None: the 32-bit size computation wrapped, d7df267) ... *)
Theorem C19_invariant_established : forall data block b,
  create_opt data block = Some b -> Inv b /\ contents b = data /\ bstatic b = false.
Proof. exact Inv_create. Qed.
Print Assumptions C19_invariant_established.

(* ... and what it says for a dynamic buffer that has storage: one NUL right after the contents *)
Theorem C19_terminator : forall b, Inv b -> bstatic b = false -> cells b <> [] ->
  bfault b = false /\ blen b < length (cells b) /\ nth (blen b) (cells b) junk = 0%N.
Proof. exact Inv_terminator. Qed.
Print Assumptions C19_terminator.

(* (a)+(b) one operation, ANY operation: contents, static mark and returned value are those of the
   plain byte string (spec_step), and the invariant is preserved.
   op_ok = the documented contract: delete ranges inside the contents; arguments are 32-bit values
   (create: any len, malloc_block < 2^32 — a wrapped size gives NULL, as spec_step says); what remains
   of "no wrap": the second operand of insert / append / compare / search holds < 2^32 - 22 octets,
   duplicate len + 1 < 2^32, split_words len + 22 < 2^32, strip_blanks len + 1 < 2^32. *)
Theorem C19_step_refines : forall b o, Inv b -> op_ok (abs b) o = true ->
  abs (fst (step b o)) = fst (spec_step (abs b) o) /\
  snd (step b o) = snd (spec_step (abs b) o) /\
  Inv (fst (step b o)).
Proof. exact step_refines_all. Qed.
Print Assumptions C19_step_refines.

(* ... lifted to all finite operation sequences (fold over `run`): after every operation *)
Theorem C19_run_refines : forall ops b, Inv b -> ops_ok (abs b) ops = true ->
  map (fun x => (abs (fst x), snd x)) (run b ops) = spec_run (abs b) ops /\
  Forall (fun x => Inv (fst x)) (run b ops).
Proof. exact run_refines_all. Qed.
Print Assumptions C19_run_refines.

(* --- allocation refusal (Model/BufferAlloc.v: every malloc / realloc request of an operation is
   answered by an oracle) ------------------------------------------------------------------- *)

(* with every request granted the oracle model IS the model above *)
Theorem C19_alloc_granted : forall b o, step_a [] b o = step b o.
Proof. exact step_a_granted. Qed.
Print Assumptions C19_alloc_granted.

(* whatever the oracle answers: every operation except decode_base64 / encode_base64 is either
   exactly the operation above, or leaves the buffer UNCHANGED and returns FALSE (NULL for the
   creating functions and split_words).  No invariant is needed for this. *)
Theorem C19_alloc_all_or_nothing : forall orc b o,
  match o with ODecodeB64 | OEncodeB64 => True | _ =>
    step_a orc b o = step b o \/
    (fst (step_a orc b o) = b /\ (snd (step_a orc b o) = RBool false \/ snd (step_a orc b o) = RNull))
  end.
Proof. exact alloc_all_or_nothing. Qed.
Print Assumptions C19_alloc_all_or_nothing.

(* the two operations that can apply PARTIALLY, with exactly what they leave behind:
   decode_base64 — the white space is already removed when the result block is refused
                   (third case: the append after the deletion refused; it needs a longer text than
                   the one deleted, so it does not arise for decoding, but the statement covers it);
   encode_base64 — unchanged if the result block is refused, EMPTIED if the append is refused *)
Theorem C19_alloc_base64_partial : forall orc b,
  (step_a orc b ODecodeB64 = step b ODecodeB64 \/
   (bstatic b = false /\ step_a orc b ODecodeB64 = (fst (no_spaces b), RBool false)) \/
   (bstatic b = false /\ step_a orc b ODecodeB64 = (emptied (fst (no_spaces b)), RBool false))) /\
  (step_a orc b OEncodeB64 = step b OEncodeB64 \/
   step_a orc b OEncodeB64 = (b, RBool false) \/
   (bstatic b = false /\ step_a orc b OEncodeB64 = (emptied b, RBool false))).
Proof. intros orc b. split; [apply alloc_decode_base64 | apply alloc_encode_base64]. Qed.
Print Assumptions C19_alloc_base64_partial.

(* hence: under any oracle an operation refines the plain-sequence specification or is refused
   without effect ... *)
Theorem C19_alloc_refines : forall orc b o, Inv b -> op_ok (abs b) o = true ->
  match o with ODecodeB64 | OEncodeB64 => True | _ =>
    (abs (fst (step_a orc b o)) = fst (spec_step (abs b) o) /\
     snd (step_a orc b o) = snd (spec_step (abs b) o) /\ Inv (fst (step_a orc b o))) \/
    (fst (step_a orc b o) = b /\ failed (snd (step_a orc b o)))
  end.
Proof. exact step_a_refines. Qed.
Print Assumptions C19_alloc_refines.

(* ... and the invariant (one NUL after the contents, no store outside the cells) survives every
   refusal, the partial applications included *)
Theorem C19_alloc_invariant : forall orc b o, Inv b -> op_ok (abs b) o = true -> Inv (fst (step_a orc b o)).
Proof. exact step_a_Inv. Qed.
Print Assumptions C19_alloc_invariant.

(* lists: a refused element leaves the list unchanged, FALSE *)
Theorem C19_list_alloc : forall orc l o, LInv l ->
  (chain (fst (lstep_a orc l o)) = fst (lspec_step (chain l) o) /\
   snd (lstep_a orc l o) = snd (lspec_step (chain l) o) /\ LInv (fst (lstep_a orc l o))) \/
  lstep_a orc l o = (l, LRBool false).
Proof. exact lstep_a_refines. Qed.
Print Assumptions C19_list_alloc.

(* (d) a static buffer refuses every mutation: state unchanged, FALSE (void for no_spaces) *)
Theorem C19_static_refuses : forall b o, bstatic b = true ->
  match o with
  | OCreate _ _ | OStaCreate _ | ODuplicate => True
  | OLen | OGetChar _ | OCompare _ | OCompareCstr _ | OSplitWords
  | OSearchChar _ _ | OSearch _ _ | OSearchCstr _ _ | OOnlyWs => fst (step b o) = b
  | ONoSpaces => step b o = (b, RVoid)
  | _ => step b o = (b, RBool false)
  end.
Proof. exact static_refuses. Qed.
Print Assumptions C19_static_refuses.

(* (c) out-of-range positions fail without effect *)
Theorem C19_out_of_range : forall b pos,
  ((N.of_nat (blen b) < pos)%N ->
     (forall src, insert b src pos = (b, false)) /\ (forall str, insert_cstr b str pos = (b, false))) /\
  ((N.of_nat (blen b) <= pos)%N ->
     (forall n, delete b pos n = (b, false)) /\ (forall ch, set_char b pos ch = (b, false)) /\
     get_char b pos = None /\ (forall ch, search_char b ch pos = None)).
Proof.
  intros b pos. split; intros H.
  - split; intros; [apply insert_out_of_range | apply insert_cstr_out_of_range]; exact H.
  - repeat split; intros; [apply delete_out_of_range | apply set_char_out_of_range
      | apply get_char_out_of_range | apply search_char_out_of_range]; exact H.
Qed.
Print Assumptions C19_out_of_range.

(* (e) lists: after any operation sequence the items and every returned value equal those of a
   plain sequence, and len = number of items (and tail designates the last item) throughout *)
Theorem C19_list_refines : forall ops,
  map (fun x => (chain (fst x), snd x)) (lrun lcreate ops) = lspec_run [] ops /\
  Forall (fun x => llen (fst x) = length (chain (fst x)) /\ lfault (fst x) = false) (lrun lcreate ops).
Proof.
  intros ops. destruct (lrun_refines ops lcreate LInv_create) as (H1 & H2). split; [exact H1|].
  eapply Forall_impl; [|exact H2]. intros x (Hf & Hl & _). split; assumption.
Qed.
Print Assumptions C19_list_refines.

Example C19_ex_list :
  map (fun x => chain (fst x)) (lrun lcreate [LAppend 1; LAppend 2; LInsert 3 1; LInsert 4 99; LInsert 5 0; LExtractFirst])
  = [[1]; [1; 2]; [1; 3; 2]; [1; 3; 2; 4]; [5; 1; 3; 2; 4]; [1; 3; 2; 4]]%N.
Proof. reflexivity. Qed.

(* non-vacuity *)
Example C19_ex_terminator_is_stored :
  cells (create [1; 2]%N 5%N) = [1; 2; 0; 170; 170; 170]%N /\
  cells (fst (delete (create [1; 2; 3]%N 0%N) 1%N 1%N)) = [1; 3; 0; 0]%N /\
  Inv (create [1; 2]%N 5%N) /\
  create_opt [1; 2]%N 4294967295%N = None /\ create_opt [] 4294967295%N = Some (create [] 0%N) /\
  step (create [1; 2]%N 5%N) (OCreate [7]%N 4294967295%N) = (create [1; 2]%N 5%N, RNull).
Proof. split; [reflexivity | split; [reflexivity | split; [apply (Inv_create [1; 2]%N 5%N); reflexivity | repeat split]]]. Qed.

Example C19_ex_sequence :
  let ops := [OAppendCstr [32; 32; 97; 9; 10; 98; 32; 0; 99]; OShrink; OStrip; OInsert [120; 121] 1; ODelete 0 1;
              OSetChar 9 1; OBinToHex true; OHexToBin; OAppendMb 300; ORemoveTrailingZeros; OEncodeB64; ODecodeB64; OSearch [32; 98] 1; OSplitWords]%N in
  ops_ok (abs (create [] 0%N)) ops = true /\
  map (fun x => (contents (fst x), snd x)) (run (create [] 0%N) ops) =
    [([32; 32; 97; 9; 10; 98; 32], RBool true); ([32; 97; 32; 98; 32], RBool true); ([97; 32; 98], RBool true);
     ([97; 120; 121; 32; 98], RBool true); ([120; 121; 32; 98], RBool true); ([120; 121; 32; 98], RBool false);
     ([55; 56; 55; 57; 50; 48; 54; 50], RBool true); ([120; 121; 32; 98], RBool true);
     ([120; 121; 32; 98; 130; 44], RBool true); ([120; 121; 32; 98; 130; 44], RBool true);
     ([101; 72; 107; 103; 89; 111; 73; 115], RBool true); ([120; 121; 32; 98; 130; 44], RBool true);
     ([120; 121; 32; 98; 130; 44], RVal (Some 2)); ([120; 121; 32; 98; 130; 44], RWords [[120; 121]; [98; 130; 44]])]%N.
Proof. vm_compute. repeat split. Qed.

Example C19_ex_static : fst (step (sta_create [1; 2]%N) (OAppendChar 3%N)) = sta_create [1; 2]%N.
Proof. reflexivity. Qed.

(* a refused realloc: unchanged, FALSE; a refused result block / append inside encode_base64 *)
Example C19_ex_refusal :
  step_a [false] (create [1; 2]%N 0%N) (OAppendChar 3%N) = (create [1; 2]%N 0%N, RBool false) /\
  step_a [true] (create [1; 2]%N 0%N) (OAppendChar 3%N) = step (create [1; 2]%N 0%N) (OAppendChar 3%N) /\
  step_a [false] (create [1; 2]%N 100%N) (OAppendChar 3%N) = step (create [1; 2]%N 100%N) (OAppendChar 3%N) /\
  contents (fst (step_a [true; false] (create [1; 2]%N 0%N) OEncodeB64)) = [] /\
  snd (step_a [true; false] (create [1; 2]%N 0%N) OEncodeB64) = RBool false /\
  step_a [true; false] (create [1; 2]%N 0%N) (OCreate [7]%N 0%N) = (create [1; 2]%N 0%N, RNull).
Proof. vm_compute. repeat split. Qed.
