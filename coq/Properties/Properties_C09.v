(* C09 — Published token assignments never change (wire compatibility).
   Registry.registry_table = the tables of release 0.11.10 (pinned, committed);
   TablesData.main_table   = the tables of the library compiled from the current tree (regenerated
   on every run).  Lookups: Model/Tables.v (transcriptions of the library's scans); checkers:
   Model/RegistryCheck.v; proofs (vm_compute + forallb_forall): Proofs/RegistryProofs.v.
   Bound of the exhaustive computation = Registry.registry_table: 29 entries, 3,892 rows. *)
From Coq Require Import List NArith String.
From Wbxml Require Import Model.TablesDefs Model.Tables Model.RegistryCheck Model.Registry Gen.TablesData
     Proofs.RegistryProofs.
Import ListNotations.
Local Open Scope N_scope.

(* Every published language is still registered under its id with the same numeric and textual public
   id, root element and DTD, and every published row — (page, token) -> name and options, attribute
   name + value prefix, value token, extension value — decodes now (first match, as the parser scans)
   to what it decoded to in the registry and is still present; every namespace <-> page pair maps both
   ways as before.  Rows may have been added. *)
Theorem C09_registry_preserved : forall r, In r registry_table -> lang_kept_P main_table r.
Proof. exact registry_preserved. Qed.
Print Assumptions C09_registry_preserved.

(* Each published identifier still selects the language it selected (the first registered one where
   several share it): numeric public id (other than 1 = "unknown"), textual public id compared without
   case, system id, root element. *)
Theorem C09_identifiers_preserved : forall r, In r registry_table -> ids_kept_P main_table registry_table r.
Proof. exact registry_ids_preserved. Qed.
Print Assumptions C09_identifiers_preserved.

(* What this build writes for a published name (tag in the row's code page, attribute name + value,
   extension value) is a token that a peer built from the registry decodes to the same thing as the
   published token of that row. *)
Theorem C09_written_tokens_readable_by_peers : forall r, In r registry_table -> lang_written_P main_table r.
Proof. exact registry_written_readable. Qed.
Print Assumptions C09_written_tokens_readable_by_peers.

(* non-vacuity: the registry is not empty and its rows are the expected ones *)
Example C09_ex_size : List.length registry_table = 29%nat /\
  fold_right (fun l n => (List.length (opt_list (l_tags l)) + List.length (opt_list (l_attrs l)) + List.length (opt_list (l_vals l)) +
                          List.length (opt_list (l_exts l)) + List.length (opt_list (l_ns l)) + n)%nat) 0%nat registry_table = 3892%nat.
Proof. split; vm_compute; reflexivity. Qed.
Example C09_ex_row : exists l, get_table registry_table 1104 = Some l /\ l_pub_num l = 10 /\
  exists r, tag_of_token l 0 28 = Found r /\ t_name r = "a"%string.
Proof. eexists. split; [vm_compute; reflexivity|]. split; [reflexivity|]. eexists. split; vm_compute; reflexivity. Qed.
