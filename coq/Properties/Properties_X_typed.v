(* X_typed — the independent transcriptions of the typed-content codecs are the same functions.
   Models: Model/Typed.v (C12), Model/Parser.v (C04), Model/EncWbxml.v (C06), Model/EncXml.v, Model/XmlFront.v,
   Model/BufferModel.v (C19), Model/Spec.v (specification side of C04), Gen/HardWired.v (C08: behavioural probe of the C).
   Proofs: Proofs/ModelConsistencyTyped.v.  Conversions between the result types (pres_of, eres_of, code_of, perr_of,
   wv_type_of, okind_of, typed_dec_kind, typed_enc_kind, kind_matches) are defined there; they only rename constructors.
   Only statements, each closed by `exact` (or a one-line combination), Print Assumptions beneath. *)
From Coq Require Import List NArith Bool.
From Wbxml Require Import Model.Codec Model.TablesDefs Model.HardWiredDefs Gen.TablesData Gen.HardWired.
From Wbxml Require Model.Typed Model.Parser Model.Spec Model.EncWbxml Model.EncXml Model.XmlFront Model.BufferModel.
From Wbxml Require Import Proofs.ModelConsistencyTyped.
From Wbxml Require Model.BufferSpec Proofs.BufferProofs.
Import ListNotations.
Local Open Scope N_scope.

(* ============ (1) SI / EMN %Datetime decoder ============ *)

(* for every opaque payload, Parser.v's decoder (used in parse_attribute) and Typed.v's give the same text or both refuse *)
Theorem X_typed_datetime_decoder : forall v, Parser.decode_datetime v = pres_of (Typed.dec_datetime v).
Proof. exact datetime_decoder_eq. Qed.
Print Assumptions X_typed_datetime_decoder.

(* the language-specific branch of parse_attribute is Typed.v's decode_attr_value, for every language, page, token, value *)
Theorem X_typed_attribute_branch : forall env page tok nm value,
  Parser.attr_typed env (Parser.AttrTok page tok nm) value =
  pres_of (Typed.decode_attr_value (l_id (Parser.e_lang env)) page tok value).
Proof. exact attr_typed_eq. Qed.
Print Assumptions X_typed_attribute_branch.

Theorem X_typed_attribute_branch_literal : forall env nm value,
  Parser.attr_typed env (Parser.AttrLit nm) value = Parser.POk value.
Proof. exact attr_typed_literal. Qed.
Print Assumptions X_typed_attribute_branch_literal.

(* hence Typed.v's decoder meets C04's specification spec_datetime (C04_datetime_attribute_decoder transported) *)
Theorem X_typed_datetime_meets_spec : forall v o, Spec.spec_datetime v = Some o -> Typed.dec_datetime v = Typed.TOk o.
Proof. exact typed_datetime_meets_spec. Qed.
Print Assumptions X_typed_datetime_meets_spec.

(* ============ (2) Wireless-Village decoders and the decoder dispatch ============ *)

Theorem X_typed_wv_integer_decoder : forall d, Parser.decode_wv_integer d = pres_of (Typed.dec_wv_int d).
Proof. exact wv_integer_decoder_eq. Qed.
Print Assumptions X_typed_wv_integer_decoder.

Theorem X_typed_wv_datetime_decoder : forall d, Parser.decode_wv_datetime d = pres_of (Typed.dec_wv_datetime d).
Proof. exact wv_datetime_decoder_eq. Qed.
Print Assumptions X_typed_wv_datetime_decoder.

Theorem X_typed_base64_decoder : forall d, Parser.decode_base64_value d = pres_of (Typed.dec_base64_value d).
Proof. exact base64_decoder_eq. Qed.
Print Assumptions X_typed_base64_decoder.

(* the switch of decode_wv_content: the same data type for every (page, token) *)
Theorem X_typed_wv_dispatch : forall page tok, Parser.wv_data_type page tok = wv_type_of (Typed.wv_dec_kind page tok).
Proof. exact wv_kind_eq. Qed.
Print Assumptions X_typed_wv_dispatch.

(* decode_opaque_content / decode_opaque_attr_value: same result for every language, current tag and payload *)
Theorem X_typed_opaque_content : forall env page tok d,
  Parser.decode_opaque_content env (Some (page, tok)) d =
  pres_of (Typed.decode_opaque_content (l_id (Parser.e_lang env)) page tok d).
Proof. exact opaque_content_decoder_eq. Qed.
Print Assumptions X_typed_opaque_content.

Theorem X_typed_opaque_content_no_tag : forall env d, Parser.decode_opaque_content env None d = Parser.POk d.
Proof. exact opaque_content_no_tag. Qed.
Print Assumptions X_typed_opaque_content_no_tag.

Theorem X_typed_opaque_attr_value : forall env d,
  Parser.decode_opaque_attr_value env d = pres_of (Typed.decode_opaque_attr_value (l_id (Parser.e_lang env)) d).
Proof. exact opaque_attr_decoder_eq. Qed.
Print Assumptions X_typed_opaque_attr_value.

(* the specification side of C04 singles out the same elements and attributes *)
Theorem X_typed_spec_dispatch : forall id page tok,
  Spec.opaque_kind id (Some (page, tok)) = okind_of (Typed.opaque_content_kind id page tok) /\
  Spec.is_datetime_attr id page tok = match Typed.attr_value_kind id page tok with Typed.K_Datetime => true | _ => false end.
Proof. intros. split; [apply spec_opaque_kind_eq | apply spec_datetime_attr_eq]. Qed.
Print Assumptions X_typed_spec_dispatch.

(* C04_wv_typed_decoders transported to Typed.v *)
Theorem X_typed_wv_meets_spec : forall page tok d o, Spec.bytes_okb d = true ->
  Spec.spec_opaque (Spec.opaque_kind 2301 (Some (page, tok))) d = Some o ->
  Typed.decode_opaque_content 2301 page tok d = Typed.TOk o.
Proof. exact typed_wv_meets_spec. Qed.
Print Assumptions X_typed_wv_meets_spec.

(* against C08's probe of the C (Gen/HardWired.v, regenerated from the current tree).
   Sound: every probe entry about typed content (integer / date-time / base64) is typed the same way by Typed.v *)
Theorem X_typed_probe_sound :
  (forall h, In h dec_hardwired -> is_typed_entry h = true ->
     kind_matches (hw_type h) (typed_dec_kind (hw_place h) (hw_lang h) (hw_page h) (hw_tok h)) = true) /\
  (forall h, In h enc_hardwired -> is_typed_entry h = true ->
     kind_matches (hw_type h) (typed_enc_kind (hw_place h) (hw_lang h) (hw_page h) (hw_tok h)) = true).
Proof. split; [exact (probe_sound_spec _ _ probe_dec_sound) | exact (probe_sound_spec _ _ probe_enc_sound)]. Qed.
Print Assumptions X_typed_probe_sound.

(* Complete: whatever Typed.v types — for every language of the tables, every code page and every token octet —
   is a probe entry of that place and type.  Decoder side: element content, SI/EMN attribute values *)
Theorem X_typed_probe_complete_dec : forall w, w = HContent \/ w = HAttrDT ->
  forall lang page tok, In lang (map l_id main_table) -> page < 256 -> tok < 256 ->
  typed_dec_kind w lang page tok <> Typed.K_Plain ->
  exists h, In h dec_hardwired /\ hw_lang h = lang /\ hw_place h = w /\ hw_page h = page /\ hw_tok h = tok /\
            kind_matches (hw_type h) (typed_dec_kind w lang page tok) = true.
Proof.
  intros w [-> | ->]; [exact (probe_complete_spec _ _ _ probe_dec_complete_content) | exact (probe_complete_spec _ _ _ probe_dec_complete_attr)].
Qed.
Print Assumptions X_typed_probe_complete_dec.

(* ... the language-wide rule for opaque attribute values (OTA) *)
Theorem X_typed_probe_complete_attr_any :
  forallb (fun lang => tkind_eqb (Typed.opaque_attr_kind lang) Typed.K_Plain ||
                       existsb (fun h => (hw_lang h =? lang) && where_eqb (hw_place h) HAttrAny &&
                                         kind_matches (hw_type h) (Typed.opaque_attr_kind lang)) dec_hardwired)
          (map l_id main_table) = true.
Proof. exact probe_dec_complete_attr_any. Qed.
Print Assumptions X_typed_probe_complete_attr_any.

(* ... encoder side: WV and DRMREL content, SI/EMN attribute values, the OTA VALUE attribute *)
Theorem X_typed_probe_complete_enc : forall w, w = HContent \/ w = HAttrDT \/ w = HAttrVal ->
  forall lang page tok, In lang (map l_id main_table) -> page < 256 -> tok < 256 ->
  typed_enc_kind w lang page tok <> Typed.K_Plain ->
  exists h, In h enc_hardwired /\ hw_lang h = lang /\ hw_place h = w /\ hw_page h = page /\ hw_tok h = tok /\
            kind_matches (hw_type h) (typed_enc_kind w lang page tok) = true.
Proof.
  intros w [-> | [-> | ->]]; [exact (probe_complete_spec _ _ _ probe_enc_complete_content)
    | exact (probe_complete_spec _ _ _ probe_enc_complete_attr) | exact (probe_complete_spec _ _ _ probe_enc_complete_attr_val)].
Qed.
Print Assumptions X_typed_probe_complete_enc.

(* ============ (3) encoders ============ *)

Theorem X_typed_enc_opaque : forall d, Typed.enc_opaque d = EncWbxml.enc_opaque d.
Proof. exact enc_opaque_eq. Qed.
Print Assumptions X_typed_enc_opaque.

Theorem X_typed_enc_datetime : forall b, eres_of (Typed.enc_datetime b) = Some (EncWbxml.enc_datetime b).
Proof. exact enc_datetime_eq. Qed.
Print Assumptions X_typed_enc_datetime.

(* the two models of atol / strtol(.., 16) agree on every string, and so do the integer encoders *)
Theorem X_typed_libc_atol : forall b, Typed.atol_u32 b = EncWbxml.atol32 b /\ Typed.strtol16_u32 b = EncWbxml.strtol16_32 b.
Proof. intros b. split; [apply atol_eq | apply strtol16_eq]. Qed.
Print Assumptions X_typed_libc_atol.

Theorem X_typed_enc_wv_integer : forall b, Typed.enc_wv_int b = Typed.Emit (EncWbxml.enc_wv_integer b).
Proof. exact enc_wv_int_eq. Qed.
Print Assumptions X_typed_enc_wv_integer.

Theorem X_typed_enc_wv_datetime : forall b, eres_of (Typed.enc_wv_datetime b) = Some (EncWbxml.enc_wv_datetime b).
Proof. exact enc_wv_datetime_eq. Qed.
Print Assumptions X_typed_enc_wv_datetime.

(* DRMREL ds:KeyValue / OTA ICON: base64 text -> OPAQUE *)
Theorem X_typed_enc_base64_text : forall b, Typed.enc_b64_cstr b = Typed.Emit (EncWbxml.enc_opaque (EncWbxml.b64_raw b)).
Proof. exact enc_b64_cstr_eq. Qed.
Print Assumptions X_typed_enc_base64_text.

(* dispatch: wbxml_encode_wv_content (typed part = Typed.enc_wv_content, the rest is the extension-token lookup) *)
Theorem X_typed_enc_wv_content : forall e st page tok opts buffer, EncWbxml.cur_tag st = Some (page, tok, opts) ->
  EncWbxml.enc_wv_content e st buffer =
  match eres_of (Typed.enc_wv_content page tok buffer) with
  | Some r => Some r
  | None => match EncWbxml.get_ext_from_xml (EncWbxml.e_lang e) buffer with
            | Some r => Some (EncWbxml.EOk (EncWbxml.enc_ext_t0 (u8 (EncWbxml.be_tok r))))
            | None => None
            end
  end.
Proof. exact enc_wv_content_eq. Qed.
Print Assumptions X_typed_enc_wv_content.

Theorem X_typed_enc_drmrel_content : forall page tok opts nm buffer,
  EncWbxml.enc_drmrel_content (Some (EncWbxml.TagTok page tok opts nm)) buffer =
  match Typed.enc_drmrel_content page tok buffer with Typed.Emit b => Some b | _ => None end.
Proof. exact enc_drmrel_content_eq. Qed.
Print Assumptions X_typed_enc_drmrel_content.

Theorem X_typed_enc_ota_icon : forall st attrs buffer b, EncWbxml.enc_ota_icon st attrs buffer = Some b ->
  Typed.enc_b64_cstr buffer = Typed.Emit b.
Proof. exact enc_ota_icon_eq. Qed.
Print Assumptions X_typed_enc_ota_icon.

(* dispatch: the attribute-value branch of wbxml_encode_value_element_buffer, every language except OTA, every
   (page, token): typed exactly where Typed.enc_attr_value types, with its result; otherwise the generic path *)
Theorem X_typed_enc_attribute_branch : forall e st page tok node_attrs parent buffer,
  buffer <> [] -> EncWbxml.bl_id (EncWbxml.e_lang e) <> EncWbxml.LANG_OTA_SETTINGS ->
  EncWbxml.enc_value e st true (Some (page, tok)) node_attrs parent buffer =
  match eres_of (Typed.enc_attr_value (EncWbxml.bl_id (EncWbxml.e_lang e)) page tok buffer) with
  | Some (EncWbxml.EOk b) => EncWbxml.EOk (b, st)
  | Some (EncWbxml.EErr c) => EncWbxml.EErr c
  | None => EncWbxml.enc_value e st true None node_attrs parent buffer
  end.
Proof. exact enc_value_attr_eq. Qed.
Print Assumptions X_typed_enc_attribute_branch.

(* binary-flagged elements: WBXML side (one OPAQUE per text item, also for the second and later items: /repo 093ad9f),
   XML side (cached text decoded with Codec.buffer_b64_dec), and the rendering in XML (Codec.b64_enc) *)
Theorem X_typed_binary_tag_wbxml_side : forall e st parent content, EncWbxml.is_binary_tag st parent = true ->
  EncWbxml.enc_text e st parent content = EncWbxml.EOk (Typed.enc_opaque content, st).
Proof. exact enc_text_binary. Qed.
Print Assumptions X_typed_binary_tag_wbxml_side.

Theorem X_typed_binary_tag_xml_side : forall c p t opts nm attrs content kids up,
  XmlFront.c_spine c = XmlFront.mk_frame (XmlFront.FElt (EncWbxml.TagTok p t opts nm) attrs (Some content)) kids :: up ->
  N.land opts 1 <> 0 ->
  XmlFront.flush_binary c =
  (let f0 := XmlFront.mk_frame (XmlFront.FElt (EncWbxml.TagTok p t opts nm) attrs None) kids in
   match buffer_b64_dec content with
   | None => XmlFront.set_error (XmlFront.set_spine c (f0 :: up)) (code_of Typed.T_B64_DEC)
   | Some dec => XmlFront.set_spine c (XmlFront.add_text_kid f0 dec :: up)
   end) /\
  Typed.enc_binary_tag content =
  match buffer_b64_dec content with
  | Some d => Typed.Emit (EncWbxml.enc_opaque d)
  | None => Typed.EErr Typed.T_B64_DEC
  end.
Proof. intros. split; [eapply flush_binary_eq; eassumption | apply enc_binary_tag_unfold]. Qed.
Print Assumptions X_typed_binary_tag_xml_side.

Theorem X_typed_binary_tag_xml_rendering : forall l o parent s str, EncXml.e_in_cdata s = false ->
  EncXml.tag_is_binary (EncXml.text_tag s parent) = true ->
  EncXml.xml_encode_text l o parent s str =
  match Typed.dec_base64_value (EncXml.syncml_type_rewrite l (EncXml.e_cur_tag s) str) with
  | Typed.TOk t => EncXml.XOk (EncXml.escape (EncXml.is_canonical o) t,
                              EncXml.mk_est (EncXml.e_indent s) true (EncXml.e_in_cdata s) (EncXml.e_cur_tag s))
  | Typed.TErr _ => EncXml.XErr EncXml.X_B64_ENC
  end.
Proof. exact encxml_binary_text_is_codec. Qed.
Print Assumptions X_typed_binary_tag_xml_rendering.

(* ============ (4) the low-level codecs inside the other models are Codec.v's ============ *)

Theorem X_typed_parser_uses_codec : forall r,
  Parser.parse_mb_uint32 r = pres_of_res (mb_read r) /\
  Parser.decode_base64_value r = match b64_enc r with Some o => Parser.POk o | None => Parser.PErr Parser.PE_B64_ENC end /\
  (forall code r', Parser.parse_mb_uint32 (tl r) = Parser.POk (code, r') ->
     Parser.parse_entity r = match entity_utf8 code with Ok s => Parser.POk (s, r') | Err e => Parser.PErr (Parser.of_cerr e) end).
Proof. intros r. split; [reflexivity | split; [reflexivity | intros; apply parser_entity_is_codec; assumption]]. Qed.
Print Assumptions X_typed_parser_uses_codec.

Theorem X_typed_encwbxml_uses_codec : forall d,
  EncWbxml.enc_opaque d = 195 :: mb_write (u32 (N.of_nat (length d))) ++ d /\
  EncWbxml.b64_raw d = match b64_dec d with Some x => x | None => [] end /\
  (forall digits, EncWbxml.datetime_digits d = Some digits ->
     EncWbxml.enc_datetime d = EncWbxml.EOk (EncWbxml.enc_opaque (Typed.rtz (hex_to_bin digits)))) /\
  Typed.rtz d = EncWbxml.remove_trailing_zeros d.
Proof.
  intros d. split; [reflexivity | split; [apply encwbxml_b64_raw_is_codec | split; [intros; apply encwbxml_datetime_uses_codec_hex; assumption | apply rtz_eq]]].
Qed.
Print Assumptions X_typed_encwbxml_uses_codec.

Theorem X_typed_spec_uses_codec : forall l, Forall (fun b => b < 256) l ->
  Spec.hex_upper l = bin_to_hex true l /\ (l <> [] -> Spec.spec_base64 l = b64_enc l).
Proof. intros l H. split; [apply spec_hex_upper_is_codec; exact H | intro Hne; apply spec_base64_is_codec; assumption]. Qed.
Print Assumptions X_typed_spec_uses_codec.

(* BufferModel.v (C19): the buffer operations compute Codec.v's functions on the contents (R b s: b is a dynamic buffer holding s) *)
Theorem X_typed_buffer_hex : forall b s up, BufferProofs.R b s ->
  (exists b', BufferModel.hex_to_binary b = (b', true) /\ BufferProofs.R b' (hex_to_bin s)) /\
  (exists b', BufferModel.binary_to_hex b up = (b', true) /\ BufferProofs.R b' (bin_to_hex up s)).
Proof. intros b s up H. split; [apply BufferProofs.hex_to_binary_R | apply BufferProofs.binary_to_hex_R]; exact H. Qed.
Print Assumptions X_typed_buffer_hex.

Theorem X_typed_buffer_base64 : forall b s, BufferProofs.R b s ->
  (exists b', BufferModel.decode_base64 b = (b', Some (match buffer_b64_dec s with Some _ => true | None => false end)) /\
              BufferProofs.R b' (match buffer_b64_dec s with Some out => out | None => BufferSpec.no_spaces_spec s end)) /\
  (exists b', BufferModel.encode_base64 b = (b', Some (match b64_enc s with Some _ => true | None => false end)) /\
              BufferProofs.R b' (match b64_enc s with Some out => cstr out | None => s end)).
Proof. intros b s H. split; [apply BufferProofs.decode_base64_R | apply BufferProofs.encode_base64_R]; exact H. Qed.
Print Assumptions X_typed_buffer_base64.

Theorem X_typed_buffer_mb_uint32 : forall b v,
  BufferModel.append_mb_uint_32 b v = if BufferModel.bstatic b then (b, false) else BufferModel.append_data b (mb_write v).
Proof. exact buffer_append_mb_is_codec. Qed.
Print Assumptions X_typed_buffer_mb_uint32.

(* non-vacuity: the conversions are not constant, and the probe lists are not empty *)
Example X_typed_ex :
  pres_of (Typed.dec_wv_int [1; 0]) = Parser.POk [50; 53; 54] /\ Parser.decode_wv_integer [1; 0] = Parser.POk [50; 53; 54] /\
  pres_of (Typed.dec_wv_int [1; 0; 0; 0; 0]) = Parser.PErr Parser.PE_WV_INTEGER_OVERFLOW /\
  eres_of (Typed.enc_wv_datetime [74]) = Some (EncWbxml.EErr 20) /\
  existsb is_typed_entry dec_hardwired = true /\ existsb is_typed_entry enc_hardwired = true /\
  typed_dec_kind HContent 2301 0 11 = Typed.K_WVInteger /\
  existsb (N.eqb 2301) (map l_id main_table) = true.
Proof. repeat split; vm_compute; reflexivity. Qed.
