(* C02 — XML-to-WBXML conversion is total, memory-safe and bounded on arbitrary bytes.
   PROVED here: the result contract of the conversion entry points for every input and option tuple, with Expat's
   verdict, the tree builder and the WBXML generator as parameters (so it holds whatever they compute): success
   with an output block of exactly the reported length, or an error code with a null output and zero length; an
   input that the XML front end refuses (ill-formed XML, undeterminable language) is always an error.
   Memory safety, leaks, heap and stack use of the compiled C are explored by the sanitizer-backed harness and
   are labelled partial (props/C02/NOTES.md). *)
From Coq Require Import List NArith.
From Wbxml Require Import Model.Conv Proofs.ConvProofs.
Import ListNotations.
Local Open Scope N_scope.

Definition contract_bin (r : conv_result) : Prop :=
  match r_status r with
  | ST_OK => exists out, r_out r = Some out /\ r_len r = N.of_nat (length out)
  | ST_ERR _ => r_out r = None /\ r_len r = 0
  end.

Lemma conv_run_contract_bin tree opts (tfd : opts -> list N -> tree + N) (enc : opts -> tree -> list N + N) o doc :
  contract_bin (conv_run tree opts tfd enc false o doc).
Proof.
  unfold contract_bin, conv_run. destruct doc as [|b r]; [cbn; auto|].
  destruct (tfd o (b :: r)) as [t|e]; [|cbn; auto].
  destruct (enc o t) as [out|e]; [|cbn; auto].
  cbn. exists out. auto.
Qed.
Print Assumptions conv_run_contract_bin.

Theorem C02_result_contract :
  forall (tree opts : Type) (tree_from_xml : opts -> list N -> tree + N) (encode : opts -> tree -> list N + N)
         (o : opts) (doc : list N),
  contract_bin (conv_run tree opts tree_from_xml encode false o doc).
Proof. exact conv_run_contract_bin. Qed.
Print Assumptions C02_result_contract.

Theorem C02_legacy_null_params :
  forall (tree opts : Type) (tree_from_xml : opts -> list N -> tree + N) (encode : opts -> tree -> list N + N)
         (dflt : opts) (po : option opts) (doc : list N),
  contract_bin (conv_withlen tree opts tree_from_xml encode dflt false po doc).
Proof. intros. unfold conv_withlen. apply conv_run_contract_bin. Qed.
Print Assumptions C02_legacy_null_params.

(* whenever the XML front end refuses the text (Expat reports an error, or no language could be determined),
   the conversion is an error with no output *)
Theorem C02_refused_input_is_error :
  forall (tree opts : Type) (tree_from_xml : opts -> list N -> tree + N) (encode : opts -> tree -> list N + N)
         (o : opts) (doc : list N) (e : N),
  tree_from_xml o doc = inr e ->
  exists e', conv_run tree opts tree_from_xml encode false o doc = mk_res (ST_ERR e') None 0.
Proof.
  intros tree opts tfx enc o doc e H. unfold conv_run. destruct doc as [|b r]; [eexists; reflexivity|].
  rewrite H. eexists; reflexivity.
Qed.
Print Assumptions C02_refused_input_is_error.
