(* Cross-model consistency of the table lookups and of language selection (not tied to one property; referenced from
   DESIGN.md and the C04 / C05 / C06 / C08 / C10 / C18 notes).  The hand-written models Tables.v + LangSelect.v (C08-C10),
   Parser.v + Spec.v (C04), EncWbxml.v (C06), EncXml.v (C05), XmlFront.v (XML front end) and TreeGraph.v (C18) transcribe the
   same C functions independently; the theorems below state that the transcriptions are EQUAL — for every language entry,
   main table and query (generic `forall`), modulo the conversions string <-> octets (`bos`, injective: X_tables_bos_injective)
   and lookup <-> option.  Proofs: Proofs/ModelConsistencyTables.v.  Only statements here. *)
From Coq Require Import List NArith String Ascii Bool.
From Wbxml Require Import Model.TablesDefs Model.Tables Model.Codec Proofs.ModelConsistencyTables.
From Wbxml Require Model.Parser Model.Spec Model.EncWbxml Model.EncWbxmlTables Model.EncXml Model.XmlFront
     Model.TreeGraph Model.LangSelect Gen.TablesData.
Import ListNotations.
Local Open Scope N_scope.

(* the conversions lose nothing *)
Theorem X_tables_bos_injective : forall a b, bos a = bos b -> a = b.
Proof. exact bos_inj. Qed.
Print Assumptions X_tables_bos_injective.

Theorem X_tables_bos_onto_octets : forall bs, Forall (fun b => b < 256) bs -> bos (LangSelect.string_of_bytes bs) = bs.
Proof. exact bos_string_of_bytes. Qed.
Print Assumptions X_tables_bos_onto_octets.

Theorem X_tables_row_conversions_injective :
  (forall a b, btag_of a = btag_of b -> a = b) /\ (forall a b, battr_of a = battr_of b -> a = b) /\
  EncWbxmlTables.main_btable = map EncWbxmlTables.blang_of_lang Gen.TablesData.main_table.
Proof. split; [exact btag_of_inj | split; [exact battr_of_inj | exact main_btable_is_conversion]]. Qed.
Print Assumptions X_tables_row_conversions_injective.

(* (1) tag of token: Tables.v (C08) = the scan of Parser.v's parse_tag (C04) *)
Theorem X_tables_tag_of_token_parser : forall l p t,
  tag_of_token l p t =
  match l_tags l with
  | None => NoTable
  | Some rows => match Parser.find_tag rows p t with Some r => Found r | None => Unknown end
  end.
Proof. exact tag_of_token_parser. Qed.
Print Assumptions X_tables_tag_of_token_parser.

(* (1) ... = the lookup of Spec.v's denote and of the strict decoder *)
Theorem X_tables_tag_of_token_spec : forall l p t, Spec.lookup_tag l p t = opt_of_lookup (tag_of_token l p t).
Proof. exact tag_of_token_spec. Qed.
Print Assumptions X_tables_tag_of_token_spec.

(* (1) parse_tag itself, written with Tables.tag_of_byte (mask included) *)
Theorem X_tables_parse_tag_uses_tag_of_byte : forall env st,
  Parser.parse_tag env st =
  match Parser.parse_uint8 (Parser.s_rest st) with
  | Parser.PErr e => Parser.PErr e
  | Parser.PFuel => Parser.PFuel
  | Parser.POk (tag, r) =>
    match tag_of_byte (Parser.e_lang env) (Parser.s_tagcp st) tag with
    | NoTable => Parser.PErr Parser.PE_TAG_TABLE_UNDEFINED
    | Unknown => Parser.POk (tag, Parser.TagLit Parser.UNKNOWN_NAME, r)
    | Found row => Parser.POk (tag, Parser.TagTok (t_page row) (t_tok row) (Parser.B (t_name row)), r)
    end
  end.
Proof. exact parse_tag_uses_tag_of_byte. Qed.
Print Assumptions X_tables_parse_tag_uses_tag_of_byte.

(* (3) attribute start of token: Tables.v = Parser.v (parse_attr_start) *)
Theorem X_tables_attr_of_token_parser : forall l p t,
  attr_of_token l p t =
  match l_attrs l with
  | None => NoTable
  | Some rows => match Parser.find_attr rows p t with Some r => Found r | None => Unknown end
  end.
Proof. exact attr_of_token_parser. Qed.
Print Assumptions X_tables_attr_of_token_parser.

(* (3) ... = Spec.v *)
Theorem X_tables_attr_of_token_spec : forall l p t, Spec.lookup_attr l p t = opt_of_lookup (attr_of_token l p t).
Proof. exact attr_of_token_spec. Qed.
Print Assumptions X_tables_attr_of_token_spec.

(* (3) attribute value of token: Tables.v = Parser.v (parse_attr_value) *)
Theorem X_tables_val_of_token_parser : forall l p t,
  val_of_token l p t =
  match l_vals l with
  | None => NoTable
  | Some rows => match Parser.find_val rows p t with Some r => Found r | None => Unknown end
  end.
Proof. exact val_of_token_parser. Qed.
Print Assumptions X_tables_val_of_token_parser.

(* (3) ... = Spec.v *)
Theorem X_tables_val_of_token_spec : forall l p t, Spec.lookup_val l p t = opt_of_lookup (val_of_token l p t).
Proof. exact val_of_token_spec. Qed.
Print Assumptions X_tables_val_of_token_spec.

(* (5) extension value of token: Tables.v = Parser.v (parse_extension, WV branch) *)
Theorem X_tables_ext_of_token_parser : forall l v,
  ext_of_token l v =
  match l_exts l with
  | None => NoTable
  | Some rows => match Parser.find_ext rows v with Some r => Found r | None => Unknown end
  end.
Proof. exact ext_of_token_parser. Qed.
Print Assumptions X_tables_ext_of_token_parser.

(* (5) ... = Spec.v *)
Theorem X_tables_ext_of_token_spec : forall l v, Spec.lookup_ext l v = opt_of_lookup (ext_of_token l v).
Proof. exact ext_of_token_spec. Qed.
Print Assumptions X_tables_ext_of_token_spec.

(* (2) tag from XML name, two passes: Tables.v = EncWbxml.v (C06) on the byte-named tables *)
Theorem X_tables_tag_from_xml_encwbxml : forall l cp name,
  EncWbxml.get_tag_from_xml (blang_of_lang l) cp (bos name) = option_map btag_of (tag_from_xml l (Some cp) name).
Proof. exact tag_from_xml_encwbxml. Qed.
Print Assumptions X_tables_tag_from_xml_encwbxml.

(* (2) ... = TreeGraph.v (C18) *)
Theorem X_tables_tag_from_xml_treegraph : forall l cur name,
  TreeGraph.get_tag_from_xml (TreeGraph.tlang_of_lang l) cur (bos name) = option_map tagrow_of (tag_from_xml l cur name).
Proof. exact tag_from_xml_treegraph. Qed.
Print Assumptions X_tables_tag_from_xml_treegraph.

(* (2)(4) XmlFront.v resolves an element name with the Tables.v lookups themselves *)
Theorem X_tables_resolve_tag_xmlfront : forall l name,
  XmlFront.resolve_tag l name =
  let '(ns, local) := match XmlFront.split_last XmlFront.SEP name with Some p => p | None => ([], name) end in
  let page := page_of_xmlns l (XmlFront.str ns) in
  match tag_from_xml l (Some page) (XmlFront.str local) with
  | Some row => (EncWbxml.TagTok (t_page row) (t_tok row) (t_opts row) (bos (t_name row)), t_page row)
  | None => (EncWbxml.TagLit local, page)
  end.
Proof. exact resolve_tag_xmlfront. Qed.
Print Assumptions X_tables_resolve_tag_xmlfront.

(* (2)(4) wbxml_tree_add_xml_elt: TreeGraph.v = XmlFront.v on every name made of octets *)
Theorem X_tables_resolve_elt_treegraph_xmlfront : forall l name, Forall (fun x => x < 256) name ->
  TreeGraph.resolve_xml_elt (TreeGraph.tlang_of_lang l) name =
  (snd (XmlFront.resolve_tag l name), tree_tag_of (fst (XmlFront.resolve_tag l name))).
Proof. exact resolve_elt_treegraph_xmlfront. Qed.
Print Assumptions X_tables_resolve_elt_treegraph_xmlfront.

(* (3) attribute from XML name/value (exact, longest prefix, no value): Tables.v = EncWbxml.v *)
Theorem X_tables_attr_from_xml_encwbxml : forall l name value,
  EncWbxml.get_attr_from_xml (blang_of_lang l) (bos name) (bos value) =
  attr_result_conv value (attr_from_xml l name (Some value)).
Proof. exact attr_from_xml_encwbxml. Qed.
Print Assumptions X_tables_attr_from_xml_encwbxml.

(* (3) ... = TreeGraph.v *)
Theorem X_tables_attr_from_xml_treegraph : forall l name value,
  TreeGraph.get_attr_from_xml (TreeGraph.tlang_of_lang l) (bos name) (bos value) =
  option_map attrrow_of (fst (attr_from_xml l name (Some value))).
Proof. exact attr_from_xml_treegraph. Qed.
Print Assumptions X_tables_attr_from_xml_treegraph.

(* (3) XmlFront.v resolves an attribute with Tables.attr_from_xml itself *)
Theorem X_tables_resolve_attr_xmlfront : forall l name value,
  XmlFront.resolve_attr l (name, value) =
  match fst (attr_from_xml l (XmlFront.str name) (Some (XmlFront.str value))) with
  | Some row => EncWbxml.mk_at (EncWbxml.AttrTok (a_page row) (a_tok row) (bos (a_name row)) (option_map bos (a_value row))) value
  | None => EncWbxml.mk_at (EncWbxml.AttrLit name) value
  end.
Proof. exact resolve_attr_xmlfront. Qed.
Print Assumptions X_tables_resolve_attr_xmlfront.

(* (3) wbxml_tree_node_add_xml_attr: TreeGraph.v = XmlFront.v *)
Theorem X_tables_resolve_attr_treegraph_xmlfront : forall l name value,
  Forall (fun x => x < 256) name -> Forall (fun x => x < 256) value ->
  TreeGraph.resolve_xml_attr (TreeGraph.tlang_of_lang l) name value =
  (tree_attrname_of (EncWbxml.at_name (XmlFront.resolve_attr l (name, value))),
   EncWbxml.at_value (XmlFront.resolve_attr l (name, value))).
Proof. exact resolve_attr_treegraph_xmlfront. Qed.
Print Assumptions X_tables_resolve_attr_treegraph_xmlfront.

(* (3) wbxml_tables_contains_attr_value_from_xml: Tables.v = EncWbxml.v *)
Theorem X_tables_contains_attr_value_encwbxml : forall l value,
  EncWbxml.contains_attr_value (blang_of_lang l) (bos value) = contains_attr_value l value.
Proof. exact contains_attr_value_encwbxml. Qed.
Print Assumptions X_tables_contains_attr_value_encwbxml.

(* (5) extension value from XML: Tables.v = EncWbxml.v *)
Theorem X_tables_ext_from_xml_encwbxml : forall l value,
  EncWbxml.get_ext_from_xml (blang_of_lang l) (bos value) = option_map bext_of (ext_from_xml l value).
Proof. exact ext_from_xml_encwbxml. Qed.
Print Assumptions X_tables_ext_from_xml_encwbxml.

(* (4) code page -> namespace: Tables.v = EncXml.v (C05, xmlns emission) *)
Theorem X_tables_xmlns_of_page_encxml : forall l page,
  match EncXml.xl_ns (EncXml.xlang_of l) with
  | None => None
  | Some nst => EncXml.get_xmlns nst page
  end = option_map bos (xmlns_of_page l page).
Proof. exact xmlns_of_page_encxml. Qed.
Print Assumptions X_tables_xmlns_of_page_encxml.

(* (4) namespace -> code page: Tables.v = TreeGraph.v (XmlFront.v calls Tables.page_of_xmlns itself) *)
Theorem X_tables_page_of_xmlns_treegraph : forall l ns,
  TreeGraph.get_code_page (TreeGraph.tl_ns (TreeGraph.tlang_of_lang l)) (bos ns) = page_of_xmlns l ns.
Proof. exact page_of_xmlns_treegraph. Qed.
Print Assumptions X_tables_page_of_xmlns_treegraph.

(* (6) check_public_id with its shared index: Parser.v = LangSelect.v (C10) *)
Theorem X_tables_check_public_id_parser : forall tbl forced pubid pubidx strtbl len cs version body,
  nul_follows strtbl len ->
  match strtbl with Some t => Forall (fun b => b < 256) t | None => True end ->
  Parser.check_public_id tbl forced pubid pubidx strtbl len cs =
  LangSelect.check_public_id tbl forced (LangSelect.mk_header version pubid pubidx cs strtbl len body).
Proof. exact check_public_id_parser. Qed.
Print Assumptions X_tables_check_public_id_parser.

(* (6) the whole header part of wbxml_parser_parse: Parser.v = LangSelect.v, on every input made of octets *)
Theorem X_tables_parse_with_header_agrees : forall tbl forced meta fuel bs, Forall (fun b => b < 256) bs ->
  Parser.parse_with tbl forced meta fuel bs =
  match LangSelect.parse_header tbl forced meta bs with
  | LangSelect.PErr e => Parser.PErr (perr_map e)
  | LangSelect.POk h =>
    match LangSelect.check_public_id tbl forced h with
    | None => Parser.PErr Parser.PE_UNKNOWN_PUBLIC_ID
    | Some l =>
      match Parser.parse_body fuel
              (Parser.mk_penv (LangSelect.h_strtbl h) (LangSelect.h_strtbl_len h) l (LangSelect.h_version h) (LangSelect.h_charset h))
              (Parser.mk_pstate (LangSelect.h_body h) 0 0 None) with
      | Parser.PErr e => Parser.PErr e
      | Parser.PFuel => Parser.PFuel
      | Parser.POk (evs, _) => Parser.POk (Parser.EvStartDoc (LangSelect.h_charset h) (l_id l) :: evs ++ [Parser.EvEndDoc])
      end
    end
  end.
Proof. exact parse_with_header_agrees. Qed.
Print Assumptions X_tables_parse_with_header_agrees.

(* (6) Spec.v's lang_of_pub = LangSelect.check_public_id without forcing *)
Theorem X_tables_lang_of_pub_spec : forall tbl tb p version cs body,
  Forall (fun b => b < 256) tb ->
  (cs =? LangSelect.CHARSET_UTF_8) || (cs =? LangSelect.CHARSET_US_ASCII) = true ->
  no_xmlns_id tbl ->
  match p with Spec.PubNum n => n <> 0 /\ n < 4294967296 | Spec.PubIdx i => i < 4294967296 end ->
  Spec.lang_of_pub tbl tb p =
  LangSelect.check_public_id tbl LangSelect.WBXML_LANG_UNKNOWN
    (LangSelect.mk_header version
       (match p with Spec.PubNum n => n | Spec.PubIdx _ => LangSelect.WBXML_PUBLIC_ID_UNKNOWN end)
       (match p with Spec.PubNum _ => LangSelect.NO_INDEX | Spec.PubIdx i => i end)
       cs (padded tb) (Parser.blen tb) body).
Proof. exact lang_of_pub_spec. Qed.
Print Assumptions X_tables_lang_of_pub_spec.

(* (6) XmlFront.v: DOCTYPE callback then root element = LangSelect.xml_select *)
Theorem X_tables_xmlfront_language_is_xml_select : forall main c sysid pubid name,
  XmlFront.c_lang c = None ->
  match XmlFront.c_lang (XmlFront.on_start_doctype main c sysid pubid) with
  | Some l => Some l
  | None => LangSelect.search_table main None None (Some (XmlFront.str name))
  end = LangSelect.xml_select main (option_map XmlFront.str pubid) (option_map XmlFront.str sysid) (XmlFront.str name).
Proof. exact xmlfront_language_is_xml_select. Qed.
Print Assumptions X_tables_xmlfront_language_is_xml_select.

(* (6) EncWbxml.v's fill_header choice of public id = LangSelect.header_pubid *)
Theorem X_tables_fill_header_pubid_is_header_pubid : forall l e,
  EncWbxml.e_lang e = blang_of_lang l ->
  enc_pubid_choice e =
  match LangSelect.header_pubid l (EncWbxml.e_anonymous e) false with
  | LangSelect.PubNum n => (n, None)
  | LangSelect.PubIdx s => (1, Some (bos s))
  end.
Proof. exact fill_header_pubid_is_header_pubid. Qed.
Print Assumptions X_tables_fill_header_pubid_is_header_pubid.

(* (6) ... and fill_header writes exactly that choice *)
Theorem X_tables_fill_header_writes_choice : forall e st,
  exists idx tlen tail,
    EncWbxml.fill_header e st =
    [u8 (EncWbxml.e_version e)] ++
    (match snd (enc_pubid_choice e) with Some _ => [0] ++ mb_write idx | None => mb_write (fst (enc_pubid_choice e)) end) ++
    EncWbxml.header_charset e ++ mb_write tlen ++ tail /\
    (EncWbxml.e_use_strtbl e = false ->
     match snd (enc_pubid_choice e) with Some p => idx = 0 /\ tail = p ++ [0] | None => tail = [] end).
Proof. exact fill_header_writes_choice. Qed.
Print Assumptions X_tables_fill_header_writes_choice.

(* facts over the regenerated main table used as side conditions above (vm_compute; bound = Gen.TablesData.main_table, 29 entries) *)
Theorem X_tables_main_no_xmlns_id : no_xmlns_id Gen.TablesData.main_table.
Proof. exact main_no_xmlns_id. Qed.
Print Assumptions X_tables_main_no_xmlns_id.

Theorem X_tables_main_pubnums_proper :
  forallb (fun l => negb (l_pub_num l =? 0) && (l_pub_num l <? 4294967296)) Gen.TablesData.main_table = true.
Proof. exact main_pubnums_proper. Qed.
Print Assumptions X_tables_main_pubnums_proper.
