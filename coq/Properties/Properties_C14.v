(* C14 — Concurrent conversions do not interfere with each other.
   Only statements, each closed by `exact`, with Print Assumptions beneath.
   (a) Model/Concurrency.v + Proofs/ConcurrencyProofs.v: a generic machine — any number of threads, any
       schedule — in which every step is read-only on the shared store.
   (b) Proofs/ConcurrencyGlobalsProofs.v over Gen/Globals.v (regenerated on every run from the library objects
       compiled from the current tree): the library has no writable static storage and imports only reviewed
       entry points.
   The link from (b) to the premise `readonly` of (a) is a MODELLING ASSUMPTION, not a theorem: C code can only
   write static storage that lives in a writable section, heap objects it holds a pointer to, and its own stack;
   with (b) the shared store G is the read-only image, and L_i is thread i's objects, inputs and stack. *)
From Coq Require Import String List NArith.
From Wbxml Require Import Model.Concurrency Proofs.ConcurrencyProofs Gen.Globals Proofs.ConcurrencyGlobalsProofs.
Import ListNotations.

(* (a) for every interleaving of the threads' programs, the shared store is unchanged and every thread
   produces exactly the outputs, and ends in exactly the state, of its solo run *)
Theorem C14_every_interleaving_equals_solo :
  forall (G L Op Out Loc : Type) (step : G -> L -> Op -> @effect G L Out Loc),
  readonly G L Op Out Loc step ->
  forall progs sched, interleaving Op progs sched ->
  forall g ls,
    let '(g', ls', evs) := run G L Op Out Loc step g ls sched in
    g' = g /\
    forall i, let '(_, li, outs) := solo G L Op Out Loc step g (ls i) (progs i) in
              outputs_of i evs = outs /\ ls' i = li.
Proof. exact interleaving_noninterference. Qed.
Print Assumptions C14_every_interleaving_equals_solo.

(* (a) no two steps of any schedule perform conflicting accesses to the shared store *)
Theorem C14_no_conflicting_accesses :
  forall (G L Op Out Loc : Type) (step : G -> L -> Op -> @effect G L Out Loc),
  readonly G L Op Out Loc step ->
  forall sched g ls e1 e2,
    In e1 (snd (run G L Op Out Loc step g ls sched)) -> In e2 (snd (run G L Op Out Loc step g ls sched)) ->
    ~ conflict e1 e2.
Proof. exact no_conflicts. Qed.
Print Assumptions C14_no_conflicting_accesses.

(* the premise is needed: with one writable shared cell some interleaving changes a thread's output *)
Theorem C14_premise_needed :
  exists sched, interleaving nat bad_progs sched /\
    outputs_of 1 (snd (run nat unit nat nat unit bad_step 0 (fun _ => tt) sched)) <>
    snd (solo nat unit nat nat unit bad_step 0 tt (bad_progs 1)).
Proof. exact premise_needed. Qed.
Print Assumptions C14_premise_needed.

(* (b) every defined object symbol of the library (file-level or function-local static, global) lies in a
   read-only section: .rodata*, .data.rel.ro* or .text* *)
Theorem C14_all_static_objects_readonly : forall g, In g defined_objects -> sym_readonly g = true.
Proof. exact all_objects_readonly. Qed.
Print Assumptions C14_all_static_objects_readonly.

(* (b) there is no object in .data / .bss / .tdata / .tbss / COMMON *)
Theorem C14_no_object_in_writable_section : forall g, In g defined_objects -> rw_section (gs_section g) = false.
Proof. exact no_writable_object. Qed.
Print Assumptions C14_no_object_in_writable_section.

(* (b) no allocated section with contents is writable, except .data.rel.ro* (anonymous data included) *)
Theorem C14_no_writable_allocated_section : forall s, In s alloc_sections -> sec_readonly s = true.
Proof. exact no_writable_section. Qed.
Print Assumptions C14_no_writable_allocated_section.

(* (b) every imported symbol is in the committed allow-list of thread-safe entry points *)
Theorem C14_imports_allowed : forall s, In s imported -> mem_str s allowlist = true.
Proof. exact imports_allowed. Qed.
Print Assumptions C14_imports_allowed.

(* (b) the WBXML_LIB_VERBOSE logging code (static buffers in wbxml_log.c) is compiled out *)
Theorem C14_logging_compiled_out : log_symbols = [].
Proof. exact logging_compiled_out. Qed.
Print Assumptions C14_logging_compiled_out.

(* hypotheses satisfiable / inventory not vacuous *)
Example interleaving_ex : interleaving nat bad_progs [(0, 1); (1, 2)].
Proof. exact bad_interleaving. Qed.
Example readonly_ex : readonly nat nat nat nat nat (fun g l op => mkEff g (l + op) (g + l + op) [0] []).
Proof. intros g l op. split; reflexivity. Qed.
Example inventory_ex : (10 <= length defined_objects)%nat /\ (10 <= length imported)%nat.
Proof. exact inventory_nonempty. Qed.
