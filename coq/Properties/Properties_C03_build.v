(* C03 (WBXML side) — the tree builder: Model/TreeBuild.v (transcription of src/wbxml_tree_clb_wbxml.c on the
   tree primitives of wbxml_tree.c), and its composition with the parser (C04) and the XML generator (C05).
   Only statements, each closed by `exact`, with Print Assumptions beneath.
   Proofs: Proofs/TreeBuildProofs{,2,3}.v, Proofs/TreeRoundTrip.v. *)
From Coq Require Import String.
From Coq Require Import List NArith Bool.
From Wbxml Require Import Model.Codec Model.TablesDefs Gen.TablesData Model.Parser Model.Spec Model.TreeBuild Model.TreeConv
     Proofs.ParserDepth Proofs.ParserProofsDoc Proofs.ParserProofsTyped Proofs.ParserProofsWv
     Proofs.TreeBuildProofs Proofs.TreeBuildProofs2 Proofs.TreeBuildProofs3 Proofs.TreeBuildEmbed Proofs.TreeRoundTrip
     Proofs.TreeRoundTripWide Proofs.ConvRoundTrip Proofs.ConvWideUnforced Proofs.TreeRoundTripUnion Proofs.TreeBuildData Proofs.ConvWideUnforced.
From Wbxml Require Proofs.EncWbxmlAbs5 Proofs.EncWbxmlDenote5 Proofs.EncWbxmlDenote6 Proofs.EncWbxmlClass6 Proofs.EncWbxmlUnion Model.EncWbxmlTables Model.XmlFront.
From Wbxml Require Model.EncXml Model.XmlRead Proofs.EncXmlProofs Proofs.EncXmlIndent.
From Wbxml Require Model.EncWbxml Model.TreeNorm Proofs.EncWbxmlProofs Proofs.EncWbxmlSerialize Proofs.EncWbxmlDenote.
From Wbxml Require Model.EncWbxmlEvents Proofs.EncWbxmlAbs Proofs.EncWbxmlDenote2 Proofs.EncWbxmlTblOk Proofs.EncWbxmlDenote3.
Import ListNotations.
Local Open Scope N_scope.

(* C03b (1) FULL for documents without an element named "Data" (where the SyncML CDATA / embedded-document rule
   cannot fire): the tree built from the events of a successful parse is the abstract tree of those events -
   header language and charset; the root element with its attributes; spec_forest: elements nest as their
   start/end events do, every character-data event is a text node, PIs leave no trace; merge_text: adjacent
   text nodes joined.  For every number of embedding levels. *)
Theorem C03b_build_is_abstract_tree : forall tbl forced meta fuel bs evs,
  parse_with tbl forced meta fuel bs = POk evs -> no_data evs = true ->
  exists cs lid p1 t a inner p2 ch,
    evs = EvStartDoc cs lid :: (p1 ++ (EvStartElt t a :: inner ++ [EvEndElt t]) ++ p2) ++ [EvEndDoc]
    /\ all_pi p1 = true /\ all_pi p2 = true /\ spec_forest inner ch
    /\ forall ef, build tbl ef evs = BOk (mk_wtree lid cs (Some (TElt t a (merge_text ch)))).
Proof. exact build_is_spec. Qed.
Print Assumptions C03b_build_is_abstract_tree.

(* ... in terms of a well-formed abstract document: build (denote tbl d) is that tree *)
Theorem C03b_build_denote : forall tbl d evs,
  denote tbl d = Some evs -> no_data evs = true ->
  exists cs lid p1 t a inner p2 ch,
    evs = EvStartDoc cs lid :: (p1 ++ (EvStartElt t a :: inner ++ [EvEndElt t]) ++ p2) ++ [EvEndDoc]
    /\ all_pi p1 = true /\ all_pi p2 = true /\ spec_forest inner ch
    /\ forall ef, build tbl ef evs = BOk (mk_wtree lid cs (Some (TElt t a (merge_text ch)))).
Proof.
  intros tbl d evs H Hn. apply (build_is_spec tbl 0 0 (S (length (serialize d))) (serialize d) evs); [|exact Hn].
  apply (parse_denote tbl); [intros l _ _; exact typed_wv_agree_proved|exact typed_datetime_agree_proved|exact H].
Qed.
Print Assumptions C03b_build_denote.

(* what merge_text is: the nodes inserted one after the other by wbxml_tree_add_node's rule; its result has no
   two adjacent text nodes *)
Theorem C03b_merge_text_normal : forall l, forallb norm_node l = true -> norm_list (merge_text l) = true.
Proof. exact merge_text_norm. Qed.
Print Assumptions C03b_merge_text_normal.

(* C03b (2) FULL, for ANY event sequence and any table: a tree that is built has no two adjacent text nodes,
   anywhere: under elements, inside CDATA sections, inside embedded documents *)
Theorem C03b_no_adjacent_text : forall tbl ef evs t, build tbl ef evs = BOk t -> tree_norm t = true.
Proof. exact build_no_adjacent_text. Qed.
Print Assumptions C03b_no_adjacent_text.

(* C03b (3) FULL: the tree built from the events of a successful parse is at most 1001 elements deep (CDATA
   sections are not levels; an embedded document is a leaf here and obeys the same bound itself) *)
Theorem C03b_depth_bounded : forall tbl forced meta fuel bs evs ef t,
  parse_with tbl forced meta fuel bs = POk evs -> build tbl ef evs = BOk t -> (tdepth t <= 1001)%nat.
Proof. exact build_depth. Qed.
Print Assumptions C03b_depth_bounded.

(* the events of a successful parse: StartDoc, PIs, one root element with balanced content, PIs, EndDoc *)
Theorem C03b_parse_event_shape : forall tbl forced meta fuel bs evs,
  parse_with tbl forced meta fuel bs = POk evs -> doc_shape evs.
Proof. exact parse_doc_shape. Qed.
Print Assumptions C03b_parse_event_shape.

(* C05c — COMPOSITION parse -> build -> XML generator -> XML reader, at model level.
   PARTIAL in the node kinds exactly as C05_read_enc_partial (elements and text; no CDATA, no embedded documents:
   implied here by no_data) and under its hypotheses on the tree (node_ok_g: names are XML names, text is XML
   characters, ...), which are properties of the document's strings that WBXML does not guarantee.
   For a well-formed d without <Data> elements: the bytes serialize d are parsed, the tree is built, converted to
   the generator's tree type (Model/TreeConv.v), written as XML in any mode and read back: the reader returns the
   document whose root element has the name of d's root tag, the specified attributes and the specified content
   of THAT TREE (info_g).  Not yet stated: info_g of the converted tree as a function of denote d directly. *)
Theorem C05c_parse_build_enc_read_partial : forall tbl d evs,
  denote tbl d = Some evs -> no_data evs = true ->
  exists cs lid t a ch,
    parse tbl (S (length (serialize d))) (serialize d) = POk evs
    /\ (forall ef, build tbl ef evs = BOk (mk_wtree lid cs (Some (TElt t a (merge_text ch)))))
    /\ forall l o out,
        EncXmlProofs.lang_ok (EncXml.xlang_of l) = true ->
        EncXmlIndent.node_ok_g (EncXml.xlang_of l) o EncXml.proot None (to_xnode tbl l (TElt t a (merge_text ch))) = true ->
        EncXml.enc_xml_opts (EncXml.xlang_of l) o [to_xnode tbl l (TElt t a (merge_text ch))] = EncXml.XOk out ->
        exists c,
          forall fuel, (EncXmlProofs.node_fuel (to_xnode tbl l (TElt t a (merge_text ch))) + 2 <= fuel)%nat ->
            XmlRead.read_xml fuel out =
            XmlRead.ROk (EncXmlProofs.doc_of (EncXml.xlang_of l)
                           [XmlRead.XE (EncXml.tname_bytes (to_tname l t))
                                       (EncXmlProofs.spec_attrs (EncXml.xlang_of l) o EncXml.proot (to_tname l t) (map to_attr a)) c]).
Proof.
  intros tbl d evs H Hn.
  assert (Hp : parse tbl (S (length (serialize d))) (serialize d) = POk evs).
  { apply (parse_denote tbl); [intros l _ _; exact typed_wv_agree_proved|exact typed_datetime_agree_proved|exact H]. }
  destruct (build_is_spec tbl 0 0 _ _ evs Hp Hn) as (cs & lid & p1 & t & a & inner & p2 & ch & _ & _ & _ & _ & Hb).
  exists cs, lid, t, a, ch. split; [exact Hp|]. split; [exact Hb|].
  intros l o out HL Hok Henc. cbn [to_xnode] in *.
  destruct (EncXmlIndent.read_enc_g (EncXml.xlang_of l) o (to_tname l t) (map to_attr a) (map (to_xnode tbl l) (merge_text ch)) out HL Hok Henc)
    as (c & s' & _ & Hr).
  exists c. exact Hr.
Qed.
Print Assumptions C05c_parse_build_enc_read_partial.

(* C03b (5) FULL, for ANY document, table, forced language, charset and fuel: the root of a tree that is built is an
   ELEMENT - the root element of the document, with the tag and the attributes of its start event; language and
   charset of the tree are those of the document's start event. *)
Theorem C03b_root_is_element : forall tbl forced meta fuel bs evs ef t,
  parse_with tbl forced meta fuel bs = POk evs -> build tbl ef evs = BOk t ->
  exists cs lid p1 tg a inner p2 ch,
    evs = EvStartDoc cs lid :: (p1 ++ (EvStartElt tg a :: inner ++ [EvEndElt tg]) ++ p2) ++ [EvEndDoc]
    /\ t = mk_wtree lid cs (Some (TElt tg a ch)).
Proof. exact build_root_element. Qed.
Print Assumptions C03b_root_is_element.

(* C03b (6) FULL: embedded documents nest at most as deep as the builder allows.  sle k n: no chain of more than k
   nested TREE nodes in n.  A tree built with `levels` levels satisfies sle levels; wbxml_tree_from_wbxml builds with
   WBXML_MAX_EMBEDDED_DEPTH = 1 (the repair of the embedded-document finding): an embedded document never contains
   an embedded document - the content of a <Data> inside it stays character data. *)
Theorem C03b_embedded_depth : forall tbl levels evs t, build tbl levels evs = BOk t -> tree_sle levels t = true.
Proof. exact build_embed_depth. Qed.
Print Assumptions C03b_embedded_depth.

Theorem C03b_embedded_depth_one : forall tbl forced meta bs t,
  wbxml_tree_from_wbxml tbl forced meta bs = BOk t -> tree_sle 1 t = true.
Proof.
  intros tbl forced meta bs t. unfold wbxml_tree_from_wbxml, tree_from_wbxml.
  destruct (parse_with tbl forced meta (S (length bs)) bs) as [evs|e|]; try discriminate. exact (build_embed_depth tbl MAX_EMBEDDED_DEPTH evs t).
Qed.
Print Assumptions C03b_embedded_depth_one.

(* C03 ROUND TRIP at model level, PARTIAL: the fragment for which the WBXML encoder's output is proved to be the
   serialization of a strict document (C06: no string table, numeric public id, a language without typed content
   or extension table, token tags 5..63 not binary-flagged, no attributes, text children) and, here, no element
   named "Data" (the SyncML rule of the tree builder inspects names only).  For every such tree and option tuple,
   wbxml_tree_from_wbxml (parser + tree builder, the language forced as wbxml2xml -l / the tree API do) applied to
   the encoder's bytes gives back the NORMALISED source tree (TreeNorm.norm: blank-only text dropped, text trimmed,
   unless keep-ws) in the builder's tree type: tn keeps page, token and name of a tag, turns a text into the C string
   of its content (nothing when that is empty) and joins adjacent texts (merge_text), as wbxml_tree_add_node does.
   Chain: C06_strict_decoding_yields_normalised_source_partial (encoder's bytes = serialize d, denote_with d = events
   of the normalised tree), the parser theorem with a forced language (C04_parser_reports_denotation_forced), and the
   tree builder on a document of the parser's shape (run_spec). *)
Theorem C03b_roundtrip_fragment_partial : forall tblb TBL L l o p t opts nm ch,
  EncWbxmlSerialize.frag_lang l = true -> EncWbxml.o_use_strtbl o = false -> EncWbxmlProofs.no_pid (EncWbxml.enc_env l o) = true ->
  EncWbxmlSerialize.frag_node (EncWbxml.NElt (EncWbxml.TagTok p t opts nm) [] ch) = true ->
  find (fun x => l_id x =? l_id L) TBL = Some L -> l_id L <> 0 ->
  EncWbxmlDenote.tree_ok L 0 (EncWbxml.NElt (EncWbxml.TagTok p t opts nm) [] ch) = true ->
  EncWbxml.o_version o < 4 -> EncWbxml.header_public_id (EncWbxml.enc_env l o) < 4294967296 ->
  EncWbxml.header_public_id (EncWbxml.enc_env l o) <> 0 ->
  no_data (flat_map EncWbxmlDenote.events_node (TreeNorm.norm (EncWbxml.o_keep_ws o) [EncWbxml.NElt (EncWbxml.TagTok p t opts nm) [] ch])) = true ->
  exists bs, EncWbxml.enc_wbxml tblb l o [EncWbxml.NElt (EncWbxml.TagTok p t opts nm) [] ch] = EncWbxml.EOk bs /\
    forall ef, tree_from_wbxml TBL (l_id L) 0 ef bs
               = BOk (mk_wtree (l_id L) 106
                        (hd_error (flat_map tn (TreeNorm.norm (EncWbxml.o_keep_ws o) [EncWbxml.NElt (EncWbxml.TagTok p t opts nm) [] ch])))).
Proof. exact roundtrip_fragment. Qed.
Print Assumptions C03b_roundtrip_fragment_partial.

(* the hypotheses are satisfiable (the example of C06): <p> a </p><!-- second text blank --> in a one-tag language *)
Example C03b_ex_roundtrip :
  let L := mk_lang 9999 4 None None None (Some [mk_tag "p"%string 0 32 0]) None None None None in
  let l := EncWbxml.mk_blang 9999 4 None (Some [EncWbxml.mk_btag [112] 0 32 0]) None None None in
  let o := EncWbxml.mk_opts 3 false false false in
  let t := EncWbxml.NElt (EncWbxml.TagTok 0 32 0 [112]) [] [EncWbxml.NText [32; 97; 32]; EncWbxml.NText [32; 32]] in
  EncWbxml.enc_wbxml [] l o [t] = EncWbxml.EOk [3; 4; 106; 0; 96; 3; 97; 0; 1] /\
  flat_map tn (TreeNorm.norm false [t]) = [TElt (TagTok 0 32 [112]) [] [TText [97]]] /\
  tree_from_wbxml [L] 9999 0 1 [3; 4; 106; 0; 96; 3; 97; 0; 1]
    = BOk (mk_wtree 9999 106 (Some (TElt (TagTok 0 32 [112]) [] [TText [97]]))).
Proof. cbv zeta. repeat split; vm_compute; reflexivity. Qed.

(* the tree builder does not see into how many pieces a text is cut: on a state whose open elements are ordinary (no
   element named "Data", no CDATA section open: sinv) the fold gives the same state for an event list and for its
   merge_chars normal form (adjacent character-data events concatenated) - wbxml_tree_add_node joins a text node to a
   preceding text node.  This is what lets the string-table axis of C06 (events known modulo merge_chars) through. *)
Theorem C03b_builder_ignores_text_pieces : forall tbl levels evs st,
  no_data evs = true -> sinv st ->
  build_from tbl levels evs st = build_from tbl levels (EncWbxmlEvents.merge_chars evs) st.
Proof. exact build_merge. Qed.
Print Assumptions C03b_builder_ignores_text_pieces.

(* C03b (7) — the same round trip on the WIDE fragment of C06 (C06_strict_decoding_wide / strict_decode_of_encoding3):
   attributes (token starts with or without value prefix, literal names), literal tags, string table ON or OFF, public
   id as number or as string.  PARTIAL in: the hypotheses of the encoder's theorem (tree_ok3: names / attribute starts
   are the language's rows or unknown to it, octets 1..255, depth <= 1000, no CDATA / PI / tree nodes; plain_env: no
   SyncML / Wireless-Village / DRM / OTA special treatment; no extension table), output below 4 GiB, and no element
   named "Data".  tnw = tn plus tag_event for literal tags and attr_event for attributes (dropped, as the encoder does,
   when the language has no attribute table); tnw_tn: on the narrow fragment it IS tn. *)
Theorem C03b_roundtrip_wide_partial : forall tblb TBL L o tag attrs ch bs,
  let e := EncWbxml.enc_env (EncWbxmlDenote2.to_blang L) o in
  EncWbxmlAbs.plain_env e = true -> EncWbxmlDenote2.vals_ok L = true -> l_exts L = None ->
  EncWbxmlTblOk.tree_ok3 L 0 (EncWbxml.NElt tag attrs ch) = true ->
  find (fun x => l_id x =? l_id L) TBL = Some L -> l_id L <> 0 ->
  EncWbxml.o_version o < 4 -> EncWbxml.header_public_id e < 4294967296 -> EncWbxml.header_public_id e <> 0 ->
  (match EncWbxmlAbs.header_pid e with Some p => EncWbxmlDenote2.okb p = true | None => True end) ->
  EncWbxml.len bs < 4294967296 ->
  EncWbxml.enc_wbxml tblb (EncWbxmlDenote2.to_blang L) o [EncWbxml.NElt tag attrs ch] = EncWbxml.EOk bs ->
  no_data (EncWbxmlDenote3.doc_events3 L e (EncWbxml.o_keep_ws o) (EncWbxml.NElt tag attrs ch)) = true ->
  forall ef, tree_from_wbxml TBL (l_id L) 0 ef bs
             = BOk (mk_wtree (l_id L) 106
                     (hd_error (flat_map (tnw (EncWbxml.has_attr_table e))
                                         (TreeNorm.norm (EncWbxml.o_keep_ws o) [EncWbxml.NElt tag attrs ch])))).
Proof. exact roundtrip_wide. Qed.
Print Assumptions C03b_roundtrip_wide_partial.

(* ... the language forced or found by the public identifier the encoder wrote (lang_choiceW: numeric id, or the textual id in
   the string table compared without regard to case): the abstract document of C06's wide theorem is kept in view
   (Proofs/ConvWideUnforced.v). *)
Theorem C03b_roundtrip_wide_unforced_partial : forall tblb TBL L o tag attrs ch bs forced,
  let e := EncWbxml.enc_env (EncWbxmlDenote2.to_blang L) o in
  EncWbxmlAbs.plain_env e = true -> EncWbxmlDenote2.vals_ok L = true -> l_exts L = None ->
  EncWbxmlTblOk.tree_ok3 L 0 (EncWbxml.NElt tag attrs ch) = true ->
  find (fun x => l_id x =? l_id L) TBL = Some L ->
  lang_choiceW TBL L e forced ->
  EncWbxml.o_version o < 4 -> EncWbxml.header_public_id e < 4294967296 -> EncWbxml.header_public_id e <> 0 ->
  (match EncWbxmlAbs.header_pid e with Some p => EncWbxmlDenote2.okb p = true | None => True end) ->
  EncWbxml.len bs < 4294967296 ->
  EncWbxml.enc_wbxml tblb (EncWbxmlDenote2.to_blang L) o [EncWbxml.NElt tag attrs ch] = EncWbxml.EOk bs ->
  no_data (EncWbxmlDenote3.doc_events3 L e (EncWbxml.o_keep_ws o) (EncWbxml.NElt tag attrs ch)) = true ->
  forall ef, tree_from_wbxml TBL forced 0 ef bs
             = BOk (mk_wtree (l_id L) 106
                     (hd_error (flat_map (tnw (EncWbxml.has_attr_table e))
                                         (TreeNorm.norm (EncWbxml.o_keep_ws o) [EncWbxml.NElt tag attrs ch])))).
Proof. exact roundtrip_wide_choice. Qed.
Print Assumptions C03b_roundtrip_wide_unforced_partial.

Theorem C03b_wide_tree_on_narrow_fragment : forall wa n, EncWbxmlSerialize.frag_node n = true -> tnw wa n = tn n.
Proof. exact tnw_tn. Qed.
Print Assumptions C03b_wide_tree_on_narrow_fragment.

(* the hypotheses are satisfiable (the example of C06's string-table axis): string table on, a text whose words go to
   the table (the parser reports it in pieces; the tree has ONE text node), a literal element <zz>, a literal attribute *)
Example C03b_ex_roundtrip_wide :
  let L := mk_lang 9997 4 None None None (Some [mk_tag "p"%string 0 32 0])
                   None (Some [mk_attr "id"%string None 0 11]) None None in
  let o := EncWbxml.mk_opts 3 true false false in
  let e := EncWbxml.enc_env (EncWbxmlDenote2.to_blang L) o in
  let txt := [97; 98; 99; 100; 32; 119; 120; 121; 122] in
  let txt2 := [97; 98; 99; 100; 32; 101; 102; 103; 104] in
  let t := EncWbxml.NElt (EncWbxml.TagTok 0 32 0 [112]) [EncWbxml.mk_at (EncWbxml.AttrLit [113]) [97; 98; 99; 100]]
                [EncWbxml.NElt (EncWbxml.TagLit [122; 122]) [] [EncWbxml.NText txt];
                 EncWbxml.NElt (EncWbxml.TagTok 0 32 0 [112]) [] [EncWbxml.NText txt2]] in
  EncWbxmlAbs.plain_env e = true /\ EncWbxmlDenote2.vals_ok L = true /\ EncWbxmlTblOk.tree_ok3 L 0 t = true /\
  no_data (EncWbxmlDenote3.doc_events3 L e false t) = true /\
  exists bs, EncWbxml.enc_wbxml [] (EncWbxmlDenote2.to_blang L) o [t] = EncWbxml.EOk bs /\
    (exists evs, parse_with [L] 9997 0 (S (length bs)) bs = POk evs /\ evs <> EncWbxmlDenote3.doc_events3 L e false t) /\
    tree_from_wbxml [L] 9997 0 1 bs
      = BOk (mk_wtree 9997 106
               (Some (TElt (TagTok 0 32 [112]) [(AttrLit [113], [97; 98; 99; 100])]
                           [TElt (TagLit [122; 122]) [] [TText txt]; TElt (TagTok 0 32 [112]) [] [TText txt2]]))) /\
    flat_map (tnw true) (TreeNorm.norm false [t])
      = [TElt (TagTok 0 32 [112]) [(AttrLit [113], [97; 98; 99; 100])]
              [TElt (TagLit [122; 122]) [] [TText txt]; TElt (TagTok 0 32 [112]) [] [TText txt2]]].
Proof.
  cbv zeta. split; [vm_compute; reflexivity|]. split; [vm_compute; reflexivity|]. split; [vm_compute; reflexivity|].
  split; [vm_compute; reflexivity|]. eexists. split; [vm_compute; reflexivity|].
  split; [eexists; split; [vm_compute; reflexivity|vm_compute; discriminate]|]. split; vm_compute; reflexivity.
Qed.

(* C03b (8) — the round trip on the UNION fragment of C06 (C06_strict_decoding_yields_normalised_source: every language class -
   Wireless Village, DRMREL, SyncML, OTA settings, all others incl. SI / EMN; typed content, binary content, CDATA sections,
   embedded trees), for documents WITHOUT an element named Data, language forced.  tn_union (Proofs/TreeRoundTripUnion.v):
     element         TElt (tag_event tag) attributes-with-CANONICAL-values (acan_u: canon_dt on %Datetime attributes, the OTA icon's
                     base64, else the value) (merge_text children);
     text            the text node of the character data the decoder reports (tev_u): canon_wv_int / canon_wv_date (Wireless
                     Village integer / date elements), canon_b64 (DRMREL KeyValue), mime_of (MetInf Type), the base64 text of a
                     binary-flagged element's octets, otherwise the trimmed text (nothing when blank and keep_ws is off);
     CDATA section   ONE text node with its text (LF -> CR LF in SyncML): outside <Data> the builder creates no CDATA node;
     embedded tree   ONE text node with the embedded document's octets: outside <Data> nothing is parsed;
     adjacent texts  one node (merge_text).
   PARTIAL in: tree_ok6 and the side conditions of the encoder's theorem, output below 4 GiB, no element named Data (then the
   SyncML data-type rule of the builder decides: the C03b_data_rule theorems), language forced. *)
Theorem C03b_roundtrip_union_partial : forall tblb TBL L o tag attrs ch bs,
  let e := EncWbxml.enc_env (EncWbxmlDenote2.to_blang L) o in
  EncWbxmlDenote2.vals_ok L = true -> EncWbxmlUnion.side_u L = true -> EncWbxmlAbs5.tag_tbl_ok e = true ->
  EncWbxmlDenote6.tree_ok6 L (EncWbxmlUnion.aok_u L) (EncWbxmlUnion.tok_u L (EncWbxml.o_keep_ws o)) (EncWbxmlUnion.cok_plain L)
                           (EncWbxmlUnion.eok_plain tblb e L) (EncWbxml.is_syncml (EncWbxml.e_lang e)) 0 true None (EncWbxml.NElt tag attrs ch) = true ->
  find (fun x => l_id x =? l_id L) TBL = Some L -> l_id L <> 0 ->
  EncWbxml.o_version o < 4 -> EncWbxml.header_public_id e < 4294967296 -> EncWbxml.header_public_id e <> 0 ->
  (match EncWbxmlAbs.header_pid e with Some p => EncWbxmlDenote2.okb p = true | None => True end) ->
  EncWbxml.len bs < 4294967296 ->
  EncWbxml.enc_wbxml tblb (EncWbxmlDenote2.to_blang L) o [EncWbxml.NElt tag attrs ch] = EncWbxml.EOk bs ->
  no_data (EncWbxmlClass6.doc_events6 tblb L e (EncWbxmlUnion.acan_u L) (EncWbxmlUnion.tev_u L e (EncWbxml.o_keep_ws o)) (EncWbxml.NElt tag attrs ch)) = true ->
  forall ef, tree_from_wbxml TBL (l_id L) 0 ef bs = BOk (mk_wtree (l_id L) 106 (hd_error (tn_union tblb L o (EncWbxml.NElt tag attrs ch)))).
Proof. exact roundtrip_union. Qed.
Print Assumptions C03b_roundtrip_union_partial.

(* the builder's side of the SyncML data-type rule (wbxml_tree_clb_wbxml_characters), for an element with ONE run of character
   data below a parent p: by the type syncml_data_type finds for the new element's frame, the element becomes
   D_NORMAL  <t>text</t>;   D_CDATA (vObject / clear types, or the Add/Replace hack)  <t><![CDATA[text]]></t> - the CDATA node is
   RE-CREATED by the builder;   D_WBXML  the embedded document parsed (language not forced) and built one level down: a sub-tree
   node - or, beyond WBXML_MAX_EMBEDDED_DEPTH, the text *)
Theorem C03b_data_rule_normal : forall tbl lv t a b st p up r, b_stack st = p :: up -> f_cdata p = None ->
  syncml_data_type (mk_frame t a [] None :: p :: up) = D_NORMAL ->
  build_from tbl lv (EvStartElt t a :: EvChars b :: EvEndElt t :: r) st = build_from tbl lv r (after_child st p up (TElt t a [TText b])).
Proof. exact data_rule_normal. Qed.
Print Assumptions C03b_data_rule_normal.
Theorem C03b_data_rule_recreates_cdata : forall tbl lv t a b st p up r, b_stack st = p :: up -> f_cdata p = None ->
  syncml_data_type (mk_frame t a [] None :: p :: up) = D_CDATA ->
  build_from tbl lv (EvStartElt t a :: EvChars b :: EvEndElt t :: r) st = build_from tbl lv r (after_child st p up (TElt t a [TCData [TText b]])).
Proof. exact data_rule_cdata. Qed.
Print Assumptions C03b_data_rule_recreates_cdata.
Theorem C03b_data_rule_embedded_document : forall tbl lv t a b st p up r evs' st', b_stack st = p :: up -> f_cdata p = None ->
  syncml_data_type (mk_frame t a [] None :: p :: up) = D_WBXML ->
  parse_with tbl 0 (b_charset st) (S (length b)) b = POk evs' -> build_from tbl lv evs' st_init = BOk st' ->
  build_from tbl (S lv) (EvStartElt t a :: EvChars b :: EvEndElt t :: r) st
  = build_from tbl (S lv) r (after_child st p up (TElt t a [TSub (wt_lang (tree_of_state st')) (wt_charset (tree_of_state st')) (wt_root (tree_of_state st'))])).
Proof. exact data_rule_embedded. Qed.
Print Assumptions C03b_data_rule_embedded_document.
Theorem C03b_data_rule_embedded_limit : forall tbl t a b st p up r, b_stack st = p :: up -> f_cdata p = None ->
  syncml_data_type (mk_frame t a [] None :: p :: up) = D_WBXML ->
  build_from tbl 0 (EvStartElt t a :: EvChars b :: EvEndElt t :: r) st = build_from tbl 0 r (after_child st p up (TElt t a [TText b])).
Proof. exact data_rule_embedded_limit. Qed.
Print Assumptions C03b_data_rule_embedded_limit.

(* the hypotheses are satisfiable: Service Indication with a %Datetime attribute (written as OPAQUE, reported in canonical form)
   and an attribute value token *)
Definition exu_L : lang := nth 8 main_table (mk_lang 0 0 None None None None None None None None).
Definition exu_o := EncWbxml.mk_opts 2 false false false.
Definition exu_e := EncWbxml.enc_env (EncWbxmlDenote2.to_blang exu_L) exu_o.
Definition exu_root : EncWbxml.node :=
  EncWbxml.NElt (EncWbxml.TagTok 0 5 0 (XmlFront.bs "si")) []
    [EncWbxml.NElt (EncWbxml.TagTok 0 6 0 (XmlFront.bs "indication"))
       [EncWbxml.mk_at (EncWbxml.AttrTok 0 13 (XmlFront.bs "href") (Some (XmlFront.bs "http://www."))) (XmlFront.bs "http://www.xyz.com/");
        EncWbxml.mk_at (EncWbxml.AttrTok 0 10 (XmlFront.bs "created") None) (XmlFront.bs "1999-06-25T15:23:15Z")]
       [EncWbxml.NText (XmlFront.bs " hello ")]].
Definition exu_w : bytes :=
  [2; 5; 106; 0; 69; 198; 13; 3; 120; 121; 122; 0; 133; 10; 195; 7; 25; 153; 6; 37; 21; 35; 21; 1; 3; 104; 101; 108; 108; 111; 0; 1; 1].
Example C03b_ex_roundtrip_union :
  l_id exu_L = 1301 /\ EncWbxmlDenote2.vals_ok exu_L = true /\ EncWbxmlUnion.side_u exu_L = true /\ EncWbxmlAbs5.tag_tbl_ok exu_e = true /\
  EncWbxmlDenote6.tree_ok6 exu_L (EncWbxmlUnion.aok_u exu_L) (EncWbxmlUnion.tok_u exu_L false) (EncWbxmlUnion.cok_plain exu_L)
                           (EncWbxmlUnion.eok_plain EncWbxmlTables.main_btable exu_e exu_L) false 0 true None exu_root = true /\
  EncWbxml.enc_wbxml EncWbxmlTables.main_btable (EncWbxmlDenote2.to_blang exu_L) exu_o [exu_root] = EncWbxml.EOk exu_w /\
  no_data (EncWbxmlClass6.doc_events6 EncWbxmlTables.main_btable exu_L exu_e (EncWbxmlUnion.acan_u exu_L) (EncWbxmlUnion.tev_u exu_L exu_e false) exu_root) = true /\
  tree_from_wbxml main_table 1301 0 1 exu_w = BOk (mk_wtree 1301 106 (hd_error (tn_union EncWbxmlTables.main_btable exu_L exu_o exu_root))) /\
  tn_union EncWbxmlTables.main_btable exu_L exu_o exu_root
  = [TElt (TagTok 0 5 (XmlFront.bs "si")) []
       [TElt (TagTok 0 6 (XmlFront.bs "indication"))
          [(AttrTok 0 13 (XmlFront.bs "href"), XmlFront.bs "http://www.xyz.com/"); (AttrTok 0 10 (XmlFront.bs "created"), XmlFront.bs "1999-06-25T15:23:15Z")]
          [TText (XmlFront.bs "hello")]]].
Proof. repeat (split; [vm_compute; reflexivity|]). vm_compute. reflexivity. Qed.

(* C03b (9) — THROUGH <Data>: the builder's frames threaded through the tree (Proofs/TreeBuildData.v).  The forest of the union tree as
   items (kids_union: an element, or one run of character data - a text's canonical character data, a CDATA section's text, an
   embedded tree's octets); TreeBuildData.bis is the builder written on that forest, frame by frame: character data under an ordinary
   element is a text node (merged with a preceding one); a Data element with ONE run of character data becomes, by syncml_data_type
   of the frames built so far (Meta/Type of the parent or grandparent, the Add/Replace hack), <Data>text</Data>, <Data><![CDATA[..]]>
   </Data> (the CDATA node RE-CREATED), <Data>sub-tree</Data> (the embedded document parsed with the language not forced and built one
   level down), or the text when that fails or beyond WBXML_MAX_EMBEDDED_DEPTH (chars_node).  iwf: a Data element holds one run of
   character data or none of its own.  C03b_build_union_through_data: the builder applied to the events the encoder's union theorem
   specifies gives the root with the children of the frame bis computes - no `no_data` hypothesis. *)
Theorem C03b_data_element_by_type : forall tbl lv cs t a b st p up r c, b_stack st = p :: up -> f_cdata p = None -> b_charset st = cs ->
  TreeBuildData.chars_node tbl lv cs (syncml_data_type (mk_frame t a [] None :: p :: up)) b = Some c ->
  build_from tbl lv (EvStartElt t a :: EvChars b :: EvEndElt t :: r) st
  = build_from tbl lv r (TreeBuildData.with_top st (mk_frame (f_tag p) (f_attrs p) (f_done p ++ [TElt t a c]) None) up).
Proof. exact TreeBuildData.data_elt_step. Qed.
Print Assumptions C03b_data_element_by_type.

Theorem C03b_builder_on_forest : forall tbl lv cs lid t a kids f',
  forallb TreeBuildData.iwf kids = true -> (not_data t = true \/ forallb TreeBuildData.is_ielt kids = true) ->
  TreeBuildData.bis tbl lv cs [] (mk_frame t a [] None) kids = Some f' ->
  build tbl lv (EvStartDoc cs lid :: (EvStartElt t a :: flat_map TreeBuildData.ev_of kids ++ [EvEndElt t]) ++ [EvEndDoc])
  = BOk (mk_wtree lid cs (Some (TElt t a (f_done f')))).
Proof. exact TreeBuildData.build_doc. Qed.
Print Assumptions C03b_builder_on_forest.

Theorem C03b_build_union_through_data : forall tblb TBL L o lv tag attrs ch f',
  let e := EncWbxml.enc_env (EncWbxmlDenote2.to_blang L) o in
  let t := EncWbxmlTblOk.tag_event tag in
  let a := if EncWbxml.has_attr_table e then map (EncWbxmlDenote5.attr_event5 (EncWbxmlUnion.acan_u L tag attrs)) attrs else [] in
  forallb TreeBuildData.iwf (kids_union tblb L o tag ch) = true ->
  (not_data t = true \/ forallb TreeBuildData.is_ielt (kids_union tblb L o tag ch) = true) ->
  TreeBuildData.bis TBL lv 106 [] (mk_frame t a [] None) (kids_union tblb L o tag ch) = Some f' ->
  build TBL lv (EncWbxmlClass6.doc_events6 tblb L e (EncWbxmlUnion.acan_u L) (EncWbxmlUnion.tev_u L e (EncWbxml.o_keep_ws o)) (EncWbxml.NElt tag attrs ch))
  = BOk (mk_wtree (l_id L) 106 (Some (TElt t a (f_done f')))).
Proof. exact build_union_through_data. Qed.
Print Assumptions C03b_build_union_through_data.

(* composed with the parser: PARTIAL in the hypothesis data_events_exact - the parser's events ARE the specified ones.  The encoder's
   union theorem gives them modulo merge_chars only, and inside a Data element whose type is an embedded document the builder is not
   indifferent to how the character data is cut (each piece would be parsed by itself); the parser reports one OPAQUE as one event,
   but exporting that is the encoder side's. *)
Theorem C03b_roundtrip_union_through_data_partial : forall tblb TBL L o lv tag attrs ch f' bs forced,
  let e := EncWbxml.enc_env (EncWbxmlDenote2.to_blang L) o in
  let t := EncWbxmlTblOk.tag_event tag in
  let a := if EncWbxml.has_attr_table e then map (EncWbxmlDenote5.attr_event5 (EncWbxmlUnion.acan_u L tag attrs)) attrs else [] in
  parse_with TBL forced 0 (S (length bs)) bs
    = POk (EncWbxmlClass6.doc_events6 tblb L e (EncWbxmlUnion.acan_u L) (EncWbxmlUnion.tev_u L e (EncWbxml.o_keep_ws o)) (EncWbxml.NElt tag attrs ch)) ->
  forallb TreeBuildData.iwf (kids_union tblb L o tag ch) = true ->
  (not_data t = true \/ forallb TreeBuildData.is_ielt (kids_union tblb L o tag ch) = true) ->
  TreeBuildData.bis TBL lv 106 [] (mk_frame t a [] None) (kids_union tblb L o tag ch) = Some f' ->
  tree_from_wbxml TBL forced 0 lv bs = BOk (mk_wtree (l_id L) 106 (Some (TElt t a (f_done f')))).
Proof. exact roundtrip_union_through_data. Qed.
Print Assumptions C03b_roundtrip_union_through_data_partial.

(* the UNFORCED reading on the union (documents without Data): lang_choiceW, with the public-id field of the encoder's abstract
   document as the NAMED hypothesis union_pub_field (proved for the wide fragment: C03_encoder_public_id_field; for the union it is
   to be exported next to C06_strict_decoding_yields_normalised_source) *)
Theorem C03b_roundtrip_union_unforced_partial : forall tblb TBL L o tag attrs ch bs forced,
  let e := EncWbxml.enc_env (EncWbxmlDenote2.to_blang L) o in
  EncWbxmlDenote2.vals_ok L = true -> EncWbxmlUnion.side_u L = true -> EncWbxmlAbs5.tag_tbl_ok e = true ->
  EncWbxmlDenote6.tree_ok6 L (EncWbxmlUnion.aok_u L) (EncWbxmlUnion.tok_u L (EncWbxml.o_keep_ws o)) (EncWbxmlUnion.cok_plain L)
                           (EncWbxmlUnion.eok_plain tblb e L) (EncWbxml.is_syncml (EncWbxml.e_lang e)) 0 true None (EncWbxml.NElt tag attrs ch) = true ->
  find (fun x => l_id x =? l_id L) TBL = Some L -> lang_choiceW TBL L e forced -> union_pub_field TBL L e bs ->
  EncWbxml.o_version o < 4 -> EncWbxml.header_public_id e < 4294967296 -> EncWbxml.header_public_id e <> 0 ->
  (match EncWbxmlAbs.header_pid e with Some p => EncWbxmlDenote2.okb p = true | None => True end) ->
  EncWbxml.len bs < 4294967296 ->
  EncWbxml.enc_wbxml tblb (EncWbxmlDenote2.to_blang L) o [EncWbxml.NElt tag attrs ch] = EncWbxml.EOk bs ->
  no_data (EncWbxmlClass6.doc_events6 tblb L e (EncWbxmlUnion.acan_u L) (EncWbxmlUnion.tev_u L e (EncWbxml.o_keep_ws o)) (EncWbxml.NElt tag attrs ch)) = true ->
  forall ef, tree_from_wbxml TBL forced 0 ef bs = BOk (mk_wtree (l_id L) 106 (hd_error (tn_union tblb L o (EncWbxml.NElt tag attrs ch)))).
Proof. exact roundtrip_union_choice. Qed.
Print Assumptions C03b_roundtrip_union_unforced_partial.

(* ... and with the public-id field as wbxmlenc exports it for the union (C06_encoder_public_id_field_union,
   Proofs/EncWbxmlUnionPub.v): the same statement with NO hypothesis about the abstract document *)
Theorem C03b_roundtrip_union_unforced : forall tblb TBL L o tag attrs ch bs forced,
  let e := EncWbxml.enc_env (EncWbxmlDenote2.to_blang L) o in
  EncWbxmlDenote2.vals_ok L = true -> EncWbxmlUnion.side_u L = true -> EncWbxmlAbs5.tag_tbl_ok e = true ->
  EncWbxmlDenote6.tree_ok6 L (EncWbxmlUnion.aok_u L) (EncWbxmlUnion.tok_u L (EncWbxml.o_keep_ws o)) (EncWbxmlUnion.cok_plain L)
                           (EncWbxmlUnion.eok_plain tblb e L) (EncWbxml.is_syncml (EncWbxml.e_lang e)) 0 true None (EncWbxml.NElt tag attrs ch) = true ->
  find (fun x => l_id x =? l_id L) TBL = Some L -> lang_choiceW TBL L e forced ->
  EncWbxml.o_version o < 4 -> EncWbxml.header_public_id e < 4294967296 -> EncWbxml.header_public_id e <> 0 ->
  (match EncWbxmlAbs.header_pid e with Some p => EncWbxmlDenote2.okb p = true | None => True end) ->
  EncWbxml.len bs < 4294967296 ->
  EncWbxml.enc_wbxml tblb (EncWbxmlDenote2.to_blang L) o [EncWbxml.NElt tag attrs ch] = EncWbxml.EOk bs ->
  no_data (EncWbxmlClass6.doc_events6 tblb L e (EncWbxmlUnion.acan_u L) (EncWbxmlUnion.tev_u L e (EncWbxml.o_keep_ws o)) (EncWbxml.NElt tag attrs ch)) = true ->
  forall ef, tree_from_wbxml TBL forced 0 ef bs = BOk (mk_wtree (l_id L) 106 (hd_error (tn_union tblb L o (EncWbxml.NElt tag attrs ch)))).
Proof. exact roundtrip_union_unforced. Qed.
Print Assumptions C03b_roundtrip_union_unforced.

(* the embedded-document outcome of C03b_data_element_by_type in terms of wbxml_tree_from_wbxml on the payload: language not forced,
   the OUTER document's charset as meta charset *)
Theorem C03b_data_element_embedded_tree : forall tbl lv' cs b tr, tree_from_wbxml tbl 0 cs lv' b = BOk tr ->
  TreeBuildData.chars_node tbl (S lv') cs D_WBXML b = Some [TSub (wt_lang tr) (wt_charset tr) (wt_root tr)].
Proof. exact TreeBuildData.chars_node_embedded. Qed.
Print Assumptions C03b_data_element_embedded_tree.

(* through <Data> by computation: vObject data under Add/Item/Data - the CDATA node is re-created; the tree the C model builds from the
   encoder's bytes is the tree bis computes *)
Definition exd_L : lang := nth 19 main_table (mk_lang 0 0 None None None None None None None None).
Definition exd_o := EncWbxml.mk_opts 2 false false false.
Definition exd_root : EncWbxml.node :=
  EncWbxml.NElt (EncWbxml.TagTok 0 45 0 (XmlFront.bs "SyncML")) []
    [EncWbxml.NElt (EncWbxml.TagTok 0 5 0 (XmlFront.bs "Add")) []
       [EncWbxml.NElt (EncWbxml.TagTok 0 20 0 (XmlFront.bs "Item")) []
          [EncWbxml.NElt (EncWbxml.TagTok 0 15 0 (XmlFront.bs "Data")) [] [EncWbxml.NCData [EncWbxml.NText (XmlFront.bs "BEGIN:VCARD END:VCARD")]]]]].
Example C03b_ex_union_through_data :
  match exd_root with
  | EncWbxml.NElt tag attrs ch =>
    match EncWbxml.enc_wbxml EncWbxmlTables.main_btable (EncWbxmlDenote2.to_blang exd_L) exd_o [exd_root],
          TreeBuildData.bis main_table 1 106 [] (mk_frame (EncWbxmlTblOk.tag_event tag) [] [] None) (kids_union EncWbxmlTables.main_btable exd_L exd_o tag ch) with
    | EncWbxml.EOk bs, Some f' =>
      l_id exd_L = 2101 /\ forallb TreeBuildData.iwf (kids_union EncWbxmlTables.main_btable exd_L exd_o tag ch) = true /\
      tree_from_wbxml main_table 2101 0 1 bs = BOk (mk_wtree 2101 106 (Some (TElt (EncWbxmlTblOk.tag_event tag) [] (f_done f')))) /\
      f_done f' = [TElt (TagTok 0 5 (XmlFront.bs "Add")) []
                     [TElt (TagTok 0 20 (XmlFront.bs "Item")) []
                        [TElt (TagTok 0 15 (XmlFront.bs "Data")) [] [TCData [TText (XmlFront.bs "BEGIN:VCARD END:VCARD")]]]]]
    | _, _ => False
    end
  | _ => False
  end.
Proof. vm_compute. repeat split; reflexivity. Qed.

(* C05c, without the restriction to Data-free documents — PARTIAL only in the generator's hypotheses (node_ok_g:
   names are XML names, text is XML characters, CDATA payloads ...; properties of the document's strings that WBXML
   does not guarantee).  For ANY document that wbxml_tree_from_wbxml accepts - CDATA sections, base64 content and
   embedded documents included, which the generator's reader theorem now covers - the tree has an element root; its
   conversion (Model/TreeConv.v), written as XML in any mode and read back, is the document whose root element has
   the root's name, the specified attributes and the content info_g specifies for THAT tree. *)
Theorem C05c_tree_enc_read_partial : forall tbl forced meta ef bs t,
  tree_from_wbxml tbl forced meta ef bs = BOk t ->
  exists tg a ch, wt_root t = Some (TElt tg a ch) /\
    forall l o out,
      EncXmlProofs.lang_ok (EncXml.xlang_of l) = true ->
      EncXmlIndent.node_ok_g (EncXml.xlang_of l) o EncXml.proot None (to_xnode tbl l (TElt tg a ch)) = true ->
      EncXml.enc_xml_opts (EncXml.xlang_of l) o [to_xnode tbl l (TElt tg a ch)] = EncXml.XOk out ->
      exists c s',
        EncXmlIndent.info_g (EncXml.xlang_of l) o EncXml.proot (EncXml.est0 0) (to_xnode tbl l (TElt tg a ch))
          = Some ([XmlRead.XT []; XmlRead.XE (EncXml.tname_bytes (to_tname l tg))
                                              (EncXmlProofs.spec_attrs (EncXml.xlang_of l) o EncXml.proot (to_tname l tg) (map to_attr a)) c;
                   XmlRead.XT (EncXml.nl_if o)], s') /\
        forall fuel, (EncXmlProofs.node_fuel (to_xnode tbl l (TElt tg a ch)) + 2 <= fuel)%nat ->
          XmlRead.read_xml fuel out =
          XmlRead.ROk (EncXmlProofs.doc_of (EncXml.xlang_of l)
                         [XmlRead.XE (EncXml.tname_bytes (to_tname l tg))
                                     (EncXmlProofs.spec_attrs (EncXml.xlang_of l) o EncXml.proot (to_tname l tg) (map to_attr a)) c]).
Proof.
  intros tbl forced meta ef bs t H. unfold tree_from_wbxml in H.
  destruct (parse_with tbl forced meta (S (length bs)) bs) as [evs|e|] eqn:Hp; try discriminate.
  destruct (build_root_element tbl forced meta _ bs evs ef t Hp H) as (cs & lid & p1 & tg & a & inner & p2 & ch & _ & ->).
  exists tg, a, ch. split; [reflexivity|].
  intros l o out HL Hok Henc. cbn [to_xnode] in *.
  exact (EncXmlIndent.read_enc_g (EncXml.xlang_of l) o (to_tname l tg) (map to_attr a) (map (to_xnode tbl l) ch) out HL Hok Henc).
Qed.
Print Assumptions C05c_tree_enc_read_partial.

(* non-vacuity: <wml><card id="a">x</card></wml> *)
Example C03b_ex_build :
  tree_from_wbxml main_table 0 0 4 [3; 10; 106; 0; 127; 231; 85; 3; 97; 0; 1; 3; 120; 0; 3; 121; 0; 1; 1]
  = BOk (mk_wtree 1104 106
           (Some (TElt (TagTok 0 63 (B "wml"%string)) []
                       [TElt (TagTok 0 39 (B "card"%string)) [(AttrTok 0 85 (B "id"%string), [97])] [TText [120; 121]]]))).
Proof. vm_compute. reflexivity. Qed.
