(* C10 — Every language is recognised from its own identifiers; forcing always wins.
   Model: Model/LangSelect.v (check_public_id with its ONE shared index, the header part of
   wbxml_parser_parse, wbxml_tables_search_table (after fix 8a5d5ba: root scan restarts at 0 and compares local names), the DOCTYPE-then-root chain,
   wbxml_fill_header's choice); specification side and per-language checks: Model/LangSelectCheck.v;
   proofs: Proofs/LangSelectProofs.v.  TablesData.main_table is regenerated on every run (29 entries). *)
From Coq Require Import List NArith String Bool.
From Wbxml Require Import Model.TablesDefs Model.Tables Model.LangSelect Model.LangSelectCheck Gen.TablesData
     Proofs.LangSelectProofs Proofs.HeaderProofs.
Import ListNotations.
Local Open Scope N_scope.

(* A document whose header carries the numeric public id of a language (other than 1 = unknown), parsed
   without forcing, is given that language's entry — whatever its version, charset, string table and body are.
   (No numeric id is shared: the entry found is the language itself, by id.) *)
Theorem C10_numeric_id_recognised : forall l, In l main_table -> l_pub_num l <> WBXML_PUBLIC_ID_UNKNOWN ->
  forall meta doc h, parse_header main_table WBXML_LANG_UNKNOWN meta doc = POk h -> h_public_id h = l_pub_num l ->
  exists l', select_lang main_table WBXML_LANG_UNKNOWN meta doc = POk l' /\ l_id l' = l_id l.
Proof.
  intros l Hin Hne meta doc h Hp Hh. destruct (main_numeric_id_selects l Hin Hne h Hh) as [l' [Hc Hid]].
  exists l'. split; [|assumption]. rewrite (select_lang_unfold _ _ _ _ _ Hp). now rewrite Hc.
Qed.
Print Assumptions C10_numeric_id_recognised.

(* ... and so is a document that refers to the textual public id in its string table, in any letter case. *)
Theorem C10_textual_id_recognised : forall l s, In l main_table -> l_pub_text l = Some s ->
  forall meta doc h s', parse_header main_table WBXML_LANG_UNKNOWN meta doc = POk h ->
  h_public_id h = WBXML_PUBLIC_ID_UNKNOWN -> h_public_id_index h <> NO_INDEX ->
  strtbl_ref h (h_public_id_index h) = Some s' -> strcaseeq s s' = true ->
  exists l', select_lang main_table WBXML_LANG_UNKNOWN meta doc = POk l' /\ l_id l' = l_id l.
Proof.
  intros l s Hin Hs meta doc h s' Hp H1 H2 H3 H4.
  destruct (main_textual_id_selects l s Hin Hs h s' H1 H2 H3 H4) as [l' [Hc Hid]].
  exists l'. split; [|assumption]. rewrite (select_lang_unfold _ _ _ _ _ Hp). now rewrite Hc.
Qed.
Print Assumptions C10_textual_id_recognised.

(* The header parser reads back the fields of a serialised header: version byte, numeric id or 00 index, charset (absent
   in version 1.0; 0 -> meta charset -> UTF-8), string table (four padding NULs when unterminated), body; with the
   forced-language override of the numeric id. *)
Theorem C10_header_roundtrip : forall main forced meta version p charset st body,
  match p with SrcNum n => 1 <= n < 4294967296 | SrcIdx i => i < 4294967296 end ->
  charset < 4294967296 -> N.of_nat (List.length st) < 4294967296 ->
  (version =? 0 = false -> charset_known (eff_charset version charset meta) = true) ->
  parse_header main forced meta (ser_header version p charset st body) =
  POk (mk_header version
         (if forced =? WBXML_LANG_UNKNOWN then match p with SrcNum n => n | SrcIdx _ => WBXML_PUBLIC_ID_UNKNOWN end
          else get_wbxml_publicid main forced)
         (match p with SrcNum _ => NO_INDEX | SrcIdx i => i end)
         (eff_charset version charset meta) (padded st) (N.of_nat (List.length st)) body).
Proof. exact parse_header_of_serialised. Qed.
Print Assumptions C10_header_roundtrip.

(* ... so, on the bytes: for every language with a numeric id, EVERY document  version, mb(id), [charset], strtbl, body
   is parsed with that language; and every document  version, 00, mb(|pre|), [charset], strtbl = pre ++ id' ++ NUL, body
   whose id' equals the textual id without regard to case (US-ASCII / UTF-8 document). *)
Theorem C10_numeric_document_recognised : forall l, In l main_table -> l_pub_num l <> WBXML_PUBLIC_ID_UNKNOWN ->
  forall version charset st body meta,
  charset < 4294967296 -> N.of_nat (List.length st) < 4294967296 ->
  (version =? 0 = false -> charset_known (eff_charset version charset meta) = true) ->
  exists l', select_lang main_table WBXML_LANG_UNKNOWN meta (ser_header version (SrcNum (l_pub_num l)) charset st body) = POk l' /\
             l_id l' = l_id l.
Proof. exact numeric_document_recognised. Qed.
Print Assumptions C10_numeric_document_recognised.

Theorem C10_textual_document_recognised : forall l s, In l main_table -> l_pub_text l = Some s ->
  forall s', strcaseeq s s' = true -> no_nul s' ->
  forall version charset pre body meta,
  let st := pre ++ bytes_of_string s' ++ [0] in
  charset < 4294967296 -> N.of_nat (List.length st) < 4294967296 ->
  (version =? 0 = false -> charset_known (eff_charset version charset meta) = true) ->
  (eff_charset version charset meta =? CHARSET_UTF_8) || (eff_charset version charset meta =? CHARSET_US_ASCII) = true ->
  exists l', select_lang main_table WBXML_LANG_UNKNOWN meta
               (ser_header version (SrcIdx (N.of_nat (List.length pre))) charset st body) = POk l' /\ l_id l' = l_id l.
Proof. exact textual_document_recognised. Qed.
Print Assumptions C10_textual_document_recognised.

(* A registered language forced by the caller is used for every document whose header can be read. *)
Theorem C10_forced_language_wins : forall f l, f <> WBXML_LANG_UNKNOWN -> get_table main_table f = Some l ->
  forall meta doc h, parse_header main_table f meta doc = POk h -> select_lang main_table f meta doc = POk l.
Proof.
  intros f l Hf Hg meta doc h Hp. rewrite (select_lang_unfold _ _ _ _ _ Hp). now rewrite (forced_wins _ _ h _ Hf Hg).
Qed.
Print Assumptions C10_forced_language_wins.

(* No usable identifier and no forcing: an error; forcing an id that is not registered: an error as well
   (the shared index is at the end of the table when the other scans start). *)
Theorem C10_no_identifier_rejected : forall meta doc h,
  parse_header main_table WBXML_LANG_UNKNOWN meta doc = POk h ->
  h_public_id h = WBXML_PUBLIC_ID_UNKNOWN -> h_public_id_index h = NO_INDEX ->
  select_lang main_table WBXML_LANG_UNKNOWN meta doc = PErr P_UNKNOWN_PUBLIC_ID.
Proof.
  intros meta doc h Hp H1 H2. rewrite (select_lang_unfold _ _ _ _ _ Hp). now rewrite (no_id_rejected _ _ H1 H2).
Qed.
Print Assumptions C10_no_identifier_rejected.

Theorem C10_unregistered_forcing_rejected : forall f meta doc h, f <> WBXML_LANG_UNKNOWN -> get_table main_table f = None ->
  parse_header main_table f meta doc = POk h -> select_lang main_table f meta doc = PErr P_UNKNOWN_PUBLIC_ID.
Proof.
  intros f meta doc h Hf Hg Hp. rewrite (select_lang_unfold _ _ _ _ _ Hp). now rewrite (forced_unregistered _ _ h Hf Hg).
Qed.
Print Assumptions C10_unregistered_forcing_rejected.

(* Never a guessed table: whatever entry is selected carries the forced id, or the document's numeric id, or a
   textual id equal (without case) to the string the document refers to. *)
Theorem C10_never_guessed : forall f meta doc l, select_lang main_table f meta doc = POk l ->
  exists h, parse_header main_table f meta doc = POk h /\ justified main_table f h l.
Proof.
  intros f meta doc l H. destruct (select_lang_ok_inv _ _ _ _ _ H) as [h [Hp Hc]].
  exists h. split; [assumption | now apply never_guessed].
Qed.
Print Assumptions C10_never_guessed.

(* Per language, by computation (29 x routes): numeric id -> the language; textual id as written / upper / lower
   case -> the language; forcing it wins over every other language's identifiers; what wbxml_fill_header
   writes for it (numeric, else textual, 'unknown' when anonymous) selects it again (or nothing, for a language
   with no identifier at all); XML side: DOCTYPE public id in any case, else system id, else root element, else
   namespaced root select the first registered entry carrying that identifier. *)
Theorem C10_routes_per_language : forall l, In l main_table ->
  wbxml_routes_ok main_table l = true /\ xml_routes_ok main_table l = true.
Proof.
  intros l Hin. pose proof (proj1 (forallb_forall _ _) routes_ok_main l Hin) as H. cbn beta in H.
  now apply andb_true_iff in H.
Qed.
Print Assumptions C10_routes_per_language.

(* The identifiers several languages share, explicitly: (route, identifier, id chosen = first registered, id shadowed).
   No numeric and no textual public id is shared; language ids are unique. *)
Theorem C10_shared_identifiers : shared_identifiers main_table = pinned_shared_identifiers /\ ids_unique main_table = true.
Proof. split; [exact shared_identifiers_main | exact ids_unique_main]. Qed.
Print Assumptions C10_shared_identifiers.

(* non-vacuity *)
Example C10_ex_numeric : exists l, select_lang main_table 0 0 [3; 5; 106; 0; 5] = POk l /\ l_id l = 1301.
Proof. eexists. split; vm_compute; reflexivity. Qed.
Example C10_ex_forced : exists l, select_lang main_table 2401 0 [3; 5; 106; 0; 5] = POk l /\ l_id l = 2401.
Proof. eexists. split; vm_compute; reflexivity. Qed.
Example C10_ex_none : select_lang main_table 0 0 [3; 1; 106; 0; 5] = PErr P_UNKNOWN_PUBLIC_ID.
Proof. vm_compute. reflexivity. Qed.
Example C10_ex_ser : ser_header 3 (SrcNum 5) 106 [] [5] = [3; 5; 106; 0; 5] /\
  ser_header 0 (SrcIdx 0) 106 [65; 0] [5] = [0; 0; 0; 2; 65; 0; 5].
Proof. split; reflexivity. Qed.
