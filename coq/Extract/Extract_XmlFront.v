(* extraction of the XML front-end model (Model/XmlFront.v) and the regenerated tables for the correspondence driver:
   ExtrOcamlBasic only *)
Require Import Wbxml.Model.TablesDefs.
Require Import Wbxml.Model.Tables.
Require Import Wbxml.Model.Codec.
Require Import Wbxml.Model.LangSelect.
Require Import Wbxml.Model.EncWbxml.
Require Import Wbxml.Model.XmlFront.
Require Import Wbxml.Model.XmlFrontEvents.
Require Import Wbxml.Model.XmlFrontCanonEvents.
Require Import Wbxml.Model.XmlFrontLfOld.
Require Import Wbxml.Gen.TablesData.
Require Extraction.
Require Import ExtrOcamlBasic.
Extraction "model.ml" main_table tree_from_xml run init_ctx tree_of_ctx step events_of root_canon get_table evs_clause tree_from_xml_old run_old.
