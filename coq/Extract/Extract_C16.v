(* extraction of the verified trace checker (and the heap model's witnesses) for the C16 driver: ExtrOcamlBasic only *)
Require Import Wbxml.Model.Alloc.
Require Extraction.
Require Import ExtrOcamlBasic.
Extraction "model.ml" trace_ok trace_run single.
