(* extraction of the concrete whole-conversion model (C01): ExtrOcamlBasic only *)
Require Import Wbxml.Model.Codec.
Require Import Wbxml.Model.TablesDefs.
Require Import Wbxml.Gen.TablesData.
Require Import Wbxml.Model.Parser.
Require Import Wbxml.Model.TreeBuild.
Require Import Wbxml.Model.TreeConv.
Require Import Wbxml.Model.EncXml.
Require Import Wbxml.Model.Conv.
Require Import Wbxml.Model.ConvConcrete.
Require Extraction.
Require Import ExtrOcamlBasic.
Extraction "model.ml" main_table wbxml2xml_model.
