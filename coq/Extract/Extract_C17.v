(* extraction of the C17 models for the correspondence driver: ExtrOcamlBasic only.
   - the concrete instance of Model/Flow.v (names c_...),
   - the instance with the real WBXML per-node encoding, Model/FlowEnc.v over Model/EncWbxml.v (names w_...), with the
     regenerated tables in EncWbxml's form (Model/EncWbxmlTables.v main_btable) *)
Require Import Wbxml.Model.Codec.
Require Import Wbxml.Model.EncWbxml.
Require Import Wbxml.Model.EncWbxmlTables.
Require Import Wbxml.Model.Flow.
Require Import Wbxml.Model.FlowEnc.
Require Extraction.
Require Import ExtrOcamlBasic.
Extraction "model.ml" c_step c_step_fixed c_init c_get_output c_spec_output c_safe c_run c_run_fixed d16_ops
  w_step w_step_fixed w_init w_spec_output st_of parse_node enc_element_start flow_env find_lang main_btable.
