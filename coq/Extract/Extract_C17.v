(* extraction of the C17 concrete-instance model for the correspondence driver: ExtrOcamlBasic only *)
Require Import Wbxml.Model.Flow.
Require Extraction.
Require Import ExtrOcamlBasic.
Extraction "model.ml" c_step c_step_fixed c_init c_get_output c_spec_output c_safe c_run c_run_fixed d16_ops.
