(* extraction of the C19 models and of the specification side: ExtrOcamlBasic only *)
Require Import Wbxml.Model.Codec.
Require Import Wbxml.Model.BufferModel.
Require Import Wbxml.Model.BufferSpec.
Require Import Wbxml.Model.ListModel.
Require Import Wbxml.Model.BufferAlloc.
Require Extraction.
Require Import ExtrOcamlBasic.
Extraction "model.ml" create step contents spec_step op_ok lcreate lstep lspec_step step_a lstep_a lcreate_a.
