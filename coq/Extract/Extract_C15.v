(* extraction of the C15 model for the correspondence driver: ExtrOcamlBasic only *)
Require Import Wbxml.Model.Lifecycle.
Require Extraction.
Require Import ExtrOcamlBasic.
Extraction "model.ml" parser_create parser_reinit parser_fresh p_settings p_set_language p_set_meta_charset
  p_set_user_data p_set_content_handler
  enc_create enc_reset enc_reset_fixed enc_fresh e_settings e_runstate e_make es_apply enc_derive e_set
  opt_of_flag list_of_len OUT_WBXML.
