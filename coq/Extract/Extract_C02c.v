(* extraction of the concrete XML -> WBXML conversion model (front end + WBXML encoder) for the C02 correspondence driver *)
Require Import Wbxml.Model.TablesDefs.
Require Import Wbxml.Model.Tables.
Require Import Wbxml.Model.Codec.
Require Import Wbxml.Model.LangSelect.
Require Import Wbxml.Model.Conv.
Require Import Wbxml.Model.EncWbxml.
Require Import Wbxml.Model.EncWbxmlTables.
Require Import Wbxml.Model.XmlFront.
Require Import Wbxml.Model.ConvXml2Wbxml.
Require Import Wbxml.Model.XmlFrontLfOld.
Require Import Wbxml.Gen.TablesData.
Require Extraction.
Require Import ExtrOcamlBasic.
Extraction "model.ml" main_table main_btable xml2wbxml_events tree_from_xml xml2wbxml_events_old.
