(* extraction of the table-lookup model and the regenerated tables for the C08/C09 correspondence driver *)
Require Import Wbxml.Model.TablesDefs.
Require Import Wbxml.Model.Tables.
Require Import Wbxml.Gen.TablesData.
Require Import Wbxml.Model.LangSelect.
Require Extraction.
Require Import ExtrOcamlBasic.
Extraction "model.ml" main_table get_table tag_of_byte attr_of_token val_of_token ext_of_token
  tag_from_xml attr_from_xml ext_from_xml contains_attr_value xmlns_of_page page_of_xmlns is_global
  opt_list search_table.
