(* extraction of the C18 model for the correspondence driver: ExtrOcamlBasic only *)
Require Import Wbxml.Model.TreeGraph.
Require Extraction.
Require Import ExtrOcamlBasic.
Extraction "model.ml" exec run init_state finish abs_list enc_walk events erase elt_get_from_name
  no_adjacent_text append_merge remove_l ids_l roots_of mk_tlang mk_tagrow mk_nsrow mk_attrrow fuel_of fe_doc xdenote xnf xsize.
