(* extraction of the C12 model for the correspondence driver: ExtrOcamlBasic only *)
Require Import Wbxml.Model.Codec.
Require Import Wbxml.Model.Typed.
Require Extraction.
Require Import ExtrOcamlBasic.
Extraction "model.ml" enc_datetime dec_datetime enc_wv_int dec_wv_int enc_wv_datetime dec_wv_datetime
  dec_base64_value enc_b64_cstr enc_binary_tag decode_opaque_content decode_opaque_attr_value decode_attr_value
  enc_wv_content enc_attr_value enc_drmrel_content opaque_payload payload_of
  canonical render bcd7 wv_render wv_octets be_value sprintf_u rfc4648.
