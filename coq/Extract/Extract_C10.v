(* extraction of the language-selection model and the regenerated tables for the C10 correspondence driver *)
Require Import Wbxml.Model.TablesDefs.
Require Import Wbxml.Model.Tables.
Require Import Wbxml.Model.LangSelect.
Require Import Wbxml.Gen.TablesData.
Require Extraction.
Require Import ExtrOcamlBasic.
Extraction "model.ml" main_table select_lang parse_header xml_select header_pubid search_table get_table.
