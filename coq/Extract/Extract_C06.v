(* extraction of the C06 model (WBXML encoder) for the correspondence driver: ExtrOcamlBasic only *)
Require Import Wbxml.Model.Codec.
Require Import Wbxml.Model.EncWbxml.
Require Import Wbxml.Model.EncWbxmlTables.
Require Import Wbxml.Model.EncWbxmlTextPid.
Require Extraction.
Require Import ExtrOcamlBasic.
Extraction "model.ml" enc_wbxml enc_wbxml_textpid enc_body fill_header enc_env find_lang main_btable strtbl_initialize.
