(* extraction of the C20 model for the correspondence driver: ExtrOcamlBasic only *)
Require Import Wbxml.Model.Cli.
Require Extraction.
Require Import ExtrOcamlBasic.
Extraction "model.ml" tool_parse tool_spec_parse tool_main get_lang get_charset get_version atoi to_utiny
  read_blocks mkWorld.
