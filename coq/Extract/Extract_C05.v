(* extraction of the C05 model (encoder transcription, reader, specification side) for the correspondence
   driver: ExtrOcamlBasic only.  The regenerated tables are converted to the byte-string form of the model
   inside Coq (vm_compute), so the extracted program never mentions Coq's [string]. *)
Require Import Wbxml.Model.TablesDefs.
Require Import Wbxml.Model.Codec.
Require Import Wbxml.Gen.TablesData.
Require Import Wbxml.Model.EncXml.
Require Import Wbxml.Model.XmlRead.
Require Import List.
Require Extraction.
Require Import ExtrOcamlBasic.
Definition xmain_table : list xlang := Eval vm_compute in map xlang_of main_table.
Extraction "model.ml" xmain_table enc_xml read_xml_auto unescape escape.
