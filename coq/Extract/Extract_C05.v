(* extraction of the C05 model (encoder transcription, reader, specification side) for the correspondence
   driver: ExtrOcamlBasic only.  The regenerated tables are converted to the byte-string form of the model
   inside Coq (vm_compute), so the extracted program never mentions Coq's [string]. *)
Require Import Wbxml.Model.TablesDefs.
Require Import Wbxml.Model.Codec.
Require Import Wbxml.Gen.TablesData.
Require Import Wbxml.Model.EncXml.
Require Import Wbxml.Model.XmlRead.
Require Import Wbxml.Proofs.EncXmlProofs.
Require Import Wbxml.Proofs.EncXmlIndent.
Require Import Wbxml.Proofs.EncXmlEol.
Require Import List NArith.
Require Extraction.
Require Import ExtrOcamlBasic.
Definition xmain_table : list xlang := Eval vm_compute in map xlang_of main_table.
(* specification side of the main theorem C05_read_enc (info_e: every generation mode, exact infoset including the
   white space of indented generation, XML's line-end / attribute-value normalisation on the reader side), run by
   the check against pyexpat: hypotheses and root element *)
Definition spec_doc (l : xlang) (g : gen_type) (indent : N) (keep_ws : bool) (root : node) : bool * bool * option (list xitem) :=
  let o := opts_of_params g indent keep_ws in
  (lang_ok l, node_ok_e l o proot None root,
   match info_e l o proot (est0 0) root with
   | Some (_ :: SE n a c :: _, _) => Some (XE n a c :: nil)
   | _ => None
   end).
Extraction "model.ml" xmain_table enc_xml read_xml_auto unescape escape spec_doc.
