(* extraction of the C04 / C13 models for the correspondence driver: ExtrOcamlBasic only *)
Require Import Wbxml.Model.Codec.
Require Import Wbxml.Model.TablesDefs.
Require Import Wbxml.Gen.TablesData.
Require Import Wbxml.Model.Parser.
Require Import Wbxml.Model.Spec.
Require Import Wbxml.Model.TreeBuild.
Require Extraction.
Require Import ExtrOcamlBasic.
Extraction "model.ml" main_table parse_with parse bytes_of_string serialize denote denote_with unser decode decode_lang tree_from_wbxml wbxml_tree_from_wbxml build.
