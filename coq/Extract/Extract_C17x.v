(* extraction of the C17 XML instance (Model/FlowEncXml.v over Model/EncXml.v) for the correspondence driver:
   ExtrOcamlBasic only.  The regenerated tables are converted to EncXml's byte-string form inside Coq. *)
Require Import Wbxml.Model.TablesDefs.
Require Import Wbxml.Model.Codec.
Require Import Wbxml.Gen.TablesData.
Require Import Wbxml.Model.EncXml.
Require Import Wbxml.Model.Flow.
Require Import Wbxml.Model.FlowEncXml.
Require Import List NArith.
Require Extraction.
Require Import ExtrOcamlBasic.
Definition xmain_table : list xlang := Eval vm_compute in map xlang_of main_table.
Extraction "model.ml" xmain_table x_step x_step_fixed x_init x_spec_output xs_of enc_node proot.
