(* extraction of the C11 model for the correspondence driver: ExtrOcamlBasic only *)
Require Import Wbxml.Model.Codec.
Require Extraction.
Require Import ExtrOcamlBasic.
Extraction "model.ml" mb_write mb_read mb_len hex_to_bin bin_to_hex entity_utf8 utf8_spec is_scalar
  b64_enc b64_dec buffer_b64_dec rfc4648.
