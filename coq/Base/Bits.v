(* Bit-operation lemmas turning the C shifts/masks of the transcriptions into
   arithmetic that lia can finish.  Stdlib only. *)
From Coq Require Import List NArith ZArith Lia Bool.
Import ListNotations.
Local Open Scope N_scope.

Lemma land_ones_mod a n : N.land a (N.ones n) = a mod 2 ^ n.
Proof. apply N.land_ones. Qed.

Lemma land_127 a : N.land a 127 = a mod 128.
Proof. change 127 with (N.ones 7). rewrite N.land_ones. reflexivity. Qed.

Lemma land_63 a : N.land a 63 = a mod 64.
Proof. change 63 with (N.ones 6). rewrite N.land_ones. reflexivity. Qed.

Lemma land_255 a : N.land a 255 = a mod 256.
Proof. change 255 with (N.ones 8). rewrite N.land_ones. reflexivity. Qed.

Lemma land_15 a : N.land a 15 = a mod 16.
Proof. change 15 with (N.ones 4). rewrite N.land_ones. reflexivity. Qed.

Lemma land_shiftl_low a x n : x < 2 ^ n -> N.land (N.shiftl a n) x = 0.
Proof.
  intros H. apply N.bits_inj. intro i. rewrite N.land_spec, N.bits_0.
  destruct (N.lt_ge_cases i n) as [Hi|Hi].
  - rewrite N.shiftl_spec_low by exact Hi. reflexivity.
  - rewrite <- (N.mod_small x (2 ^ n)) by exact H.
    rewrite N.mod_pow2_bits_high by exact Hi. apply andb_false_r.
Qed.

(* (a << n) | x  =  a * 2^n + x   when x < 2^n *)
Lemma lor_shiftl_low a x n : x < 2 ^ n -> N.lor (N.shiftl a n) x = a * 2 ^ n + x.
Proof.
  intros H. rewrite <- N.lxor_lor by (apply land_shiftl_low; exact H).
  rewrite <- N.add_nocarry_lxor by (apply land_shiftl_low; exact H).
  rewrite N.shiftl_mul_pow2. reflexivity.
Qed.

(* c | x = c + x when c = k * 2^n and x < 2^n  (used with constants 0x80, 0xC0 ...) *)
Lemma lor_high_low k x n : x < 2 ^ n -> N.lor (k * 2 ^ n) x = k * 2 ^ n + x.
Proof. intros H. rewrite <- (lor_shiftl_low k x n H). rewrite N.shiftl_mul_pow2. reflexivity. Qed.

Lemma lor_128 x : x < 128 -> N.lor 128 x = 128 + x.
Proof. intros H. change 128 with (1 * 2 ^ 7). apply lor_high_low. exact H. Qed.

(* finite ranges for exhaustive sweeps *)
Fixpoint N_range_from (start : N) (n : nat) : list N :=
  match n with O => [] | S n' => start :: N_range_from (N.succ start) n' end.
Definition N_range (n : nat) : list N := N_range_from 0 n.

Lemma N_range_from_In start n x : start <= x < start + N.of_nat n -> In x (N_range_from start n).
Proof.
  revert start. induction n as [|n IH]; intros start H; cbn [N_range_from].
  - lia.
  - destruct (N.eq_dec start x) as [->|Hne]; [left; reflexivity|right].
    apply IH. lia.
Qed.

Lemma N_range_In n x : x < N.of_nat n -> In x (N_range n).
Proof. intros H. apply N_range_from_In. lia. Qed.

(* lifting a sweep: forallb over N_range k gives the statement for all x < k *)
Lemma sweep1 (P : N -> bool) (k : nat) :
  forallb P (N_range k) = true -> forall x, x < N.of_nat k -> P x = true.
Proof. intros H x Hx. rewrite forallb_forall in H. apply H. apply N_range_In. exact Hx. Qed.

Lemma sweep2 (P : N -> N -> bool) (k1 k2 : nat) :
  forallb (fun a => forallb (P a) (N_range k2)) (N_range k1) = true ->
  forall a b, a < N.of_nat k1 -> b < N.of_nat k2 -> P a b = true.
Proof.
  intros H a b Ha Hb. rewrite forallb_forall in H.
  specialize (H a (N_range_In _ _ Ha)). rewrite forallb_forall in H.
  apply H. apply N_range_In. exact Hb.
Qed.
